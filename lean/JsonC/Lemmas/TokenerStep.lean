/-
  One dispatch from a well-formed tokener: never a fault, the result is well-formed, and every
  `goto redo_char` strictly lowers the rank (so the redo chain is finite).  Helper lemmas, one per
  state of `switch (state)`.
-/
import JsonC.Lemmas.TokenerWF
namespace JsonC.Tokener
open JsonC

/-- the facts `WF t` provides about the top level `top` and the levels below -/
structure Ctx (t : Tok) (top : Level) (rest : List Level) : Prop where
  hs : t.stack = top :: rest
  hd : rest.length + 1 ≤ t.maxDepth
  hb : ∀ l ∈ rest, l.belowOk = true
  hok : top.topOk = true
  hp : posOk top.state t.stPos

theorem Ctx.wf {t : Tok} {top : Level} {rest : List Level} (c : Ctx t top rest) : WF t :=
  ⟨⟨top, rest, c.hs, c.hd, c.hok, c.hp, c.hb⟩⟩

/-- new top level, same levels below -/
theorem Ctx.top' {t t' : Tok} {top top' : Level} {rest : List Level} (c : Ctx t top rest)
    (hs' : t'.stack = top' :: rest) (hm : t'.maxDepth = t.maxDepth)
    (hok : top'.topOk = true) (hp : posOk top'.state t'.stPos) : WF t' :=
  wf_top c.hd c.hb hs' hm hok hp

theorem posOk_of_ne {st : St} {p : Nat} (h1 : st ≠ .escapeUnicode) (h2 : st ≠ .needEscape) (h3 : st ≠ .needU) :
    posOk st p := ⟨fun h => absurd h h1, fun h => h.elim (fun h => absurd h h2) (fun h => absurd h h3)⟩

section states
variable {t : Tok} {l : Loc} {rest : List Level} {c : UInt8}

theorem eatws_ok {sv cur nm} (x : Ctx t ⟨.eatws, sv, cur, nm⟩ rest) :
    ActOK t (dEatws t l ⟨.eatws, sv, cur, nm⟩ rest c) := by
  unfold dEatws
  have hok := x.hok; simp only [Level.topOk] at hok
  split
  · exact x.wf
  · split
    · exact x.top' rfl rfl (shape_eatws_comment _ _ _ _ hok) (posOk_of_ne (by simp) (by simp) (by simp))
    · have := shape_eatws_redo _ _ _ _ hok
      refine ⟨x.top' rfl rfl this.1 (posOk_of_ne this.2.2.1 this.2.2.2.1 this.2.2.2.2), ?_⟩
      simp [rank, x.hs, setTop, this.2.1]

theorem start_ok {sv cur nm} (x : Ctx t ⟨.start, sv, cur, nm⟩ rest) :
    ActOK t (dStart t l ⟨.start, sv, cur, nm⟩ rest c) := by
  unfold dStart
  have hok := x.hok; simp only [Level.topOk] at hok
  have tokenCase : ∀ (st' : St) (pb : Bytes) (p : Nat) (d : Bool) (q : UInt8) (l' : Loc),
      (st' = .inf ∨ st' = .null ∨ st' = .boolean ∨ st' = .number ∨ st' = .string) →
      WF { setTop t { (⟨.start, sv, cur, nm⟩ : Level) with state := st' } rest with pb := pb, stPos := p, isDouble := d, quote := q } ∧
      rank { setTop t { (⟨.start, sv, cur, nm⟩ : Level) with state := st' } rest with pb := pb, stPos := p, isDouble := d, quote := q } < rank t := by
    intro st' pb p d q l' h'
    have := shape_start_token st' sv _ _ _ h' hok
    refine ⟨x.top' rfl rfl this.1 (posOk_of_ne ?_ ?_ ?_), ?_⟩
    · rcases h' with h | h | h | h | h <;> subst h <;> simp
    · rcases h' with h | h | h | h | h <;> subst h <;> simp
    · rcases h' with h | h | h | h | h <;> subst h <;> simp
    · simp [rank, x.hs, setTop, this.2]
  split
  · exact x.top' rfl rfl (shape_open_obj _) (posOk_of_ne (by simp) (by simp) (by simp))
  split
  · exact x.top' rfl rfl (shape_open_arr _) (posOk_of_ne (by simp) (by simp) (by simp))
  split
  · exact tokenCase .inf [] 0 t.isDouble t.quote l (by simp)
  split
  · exact tokenCase .null [] 0 t.isDouble t.quote l (by simp)
  split
  · exact x.wf
  split
  · exact (tokenCase .string [] t.stPos t.isDouble c l (by simp)).1
  split
  · exact tokenCase .boolean [] 0 t.isDouble t.quote l (by simp)
  split
  · exact tokenCase .number [] t.stPos false t.quote l (by simp)
  · exact x.wf

theorem finish_ok {sv cur nm} (x : Ctx t ⟨.finish, sv, cur, nm⟩ rest) :
    ActOK t (dFinish t l ⟨.finish, sv, cur, nm⟩ rest) := by
  unfold dFinish
  cases rest with
  | nil => exact x.wf
  | cons parent rest' =>
    have hpar := x.hb parent (by simp)
    have hb' : ∀ l ∈ rest', l.belowOk = true := fun l hl => x.hb l (by simp [hl])
    have hd' : rest'.length + 1 ≤ t.maxDepth := by have := x.hd; simp at this; omega
    rcases parent with ⟨pst, psv, pcur, pnm⟩
    simp only [Level.belowOk, Level.ok, Bool.and_eq_true, Bool.or_eq_true, beq_iff_eq] at hpar
    have hrank : ∀ s, (s = St.arraySep ∨ s = St.objectSep) → lvlRank .eatws s < rank t := by
      intro s hs'; rcases hs' with h | h <;> subst h <;> simp [rank, x.hs, lvlRank, stRank]
    rcases hpar with ⟨hst | hst, hshape⟩
    · subst hst
      have ha := shape_below_arr _ _ _ _ hshape
      obtain ⟨xs, hxs⟩ := isArrV_arr ha
      subst hxs
      simp only
      refine ⟨wf_top hd' hb' rfl rfl (by simp [Level.topOk, isArrV, isObjV]; exact shape_after_elem _)
        (posOk_of_ne (by simp) (by simp) (by simp)), ?_⟩
      have := hrank .arraySep (Or.inl rfl)
      simpa [rank] using this
    · subst hst
      have ho := shape_below_obj _ _ _ _ hshape
      obtain ⟨kvs, hk⟩ := isObjV_obj ho.1
      subst hk
      cases pnm with
      | none => simp at ho
      | some k =>
        simp only
        refine ⟨wf_top hd' hb' rfl rfl (by simp [Level.topOk, isArrV, isObjV]; exact shape_after_member)
          (posOk_of_ne (by simp) (by simp) (by simp)), ?_⟩
        have := hrank .objectSep (Or.inr rfl)
        simpa [rank] using this

theorem rank_eq {t' : Tok} {top' : Level} {rest : List Level} (h : t'.stack = top' :: rest) :
    rank t' = lvlRank top'.state top'.saved := by simp [rank, h]

/-- value complete: any `t'` whose stack is `(eatws, finish, v) :: rest` -/
theorem finish_wf {st sv cur nm} (x : Ctx t ⟨st, sv, cur, nm⟩ rest) {t' : Tok} {v : JVal}
    (hs' : t'.stack = ⟨.eatws, .finish, v, nm⟩ :: rest) (hm : t'.maxDepth = t.maxDepth) : WF t' :=
  x.top' hs' hm (by simp [Level.topOk]; exact shape_finish _ _ _) (posOk_of_ne (by simp) (by simp) (by simp))

theorem finish_redo {st sv cur nm} (x : Ctx t ⟨st, sv, cur, nm⟩ rest) {t' : Tok} {v : JVal}
    (hs' : t'.stack = ⟨.eatws, .finish, v, nm⟩ :: rest) (hm : t'.maxDepth = t.maxDepth)
    (hr : 3 < lvlRank st sv) : WF t' ∧ rank t' < rank t := by
  refine ⟨finish_wf x hs' hm, ?_⟩
  rw [rank_eq hs', rank_eq x.hs]
  simpa [lvlRank, stRank] using hr

/-- only scratch fields change; the top level is in a state that does not care about st_pos -/
theorem scratch_wf {st sv cur nm} (x : Ctx t ⟨st, sv, cur, nm⟩ rest) {t' : Tok}
    (hs' : t'.stack = t.stack) (hm : t'.maxDepth = t.maxDepth)
    (h1 : st ≠ .escapeUnicode) (h2 : st ≠ .needEscape) (h3 : st ≠ .needU) : WF t' :=
  x.top' (hs'.trans x.hs) hm x.hok (posOk_of_ne h1 h2 h3)

theorem inf_ok {sv cur nm} (x : Ctx t ⟨.inf, sv, cur, nm⟩ rest) :
    ActOK t (dInf t l ⟨.inf, sv, cur, nm⟩ rest c) := by
  unfold dInf
  split
  · split
    · exact x.wf
    · exact scratch_wf x rfl rfl (by simp) (by simp) (by simp)
  · exact finish_redo x rfl rfl (by simp [lvlRank, stRank])

theorem null_ok {sv cur nm} (x : Ctx t ⟨.null, sv, cur, nm⟩ rest) :
    ActOK t (dNull t l ⟨.null, sv, cur, nm⟩ rest c) := by
  unfold dNull
  simp only
  split
  · split
    · exact finish_redo x rfl rfl (by simp [lvlRank, stRank])
    · exact scratch_wf x rfl rfl (by simp) (by simp) (by simp)
  · split
    · split
      · exact finish_redo x rfl rfl (by simp [lvlRank, stRank])
      · exact scratch_wf x rfl rfl (by simp) (by simp) (by simp)
    · exact scratch_wf x rfl rfl (by simp) (by simp) (by simp)

theorem boolean_ok {sv cur nm} (x : Ctx t ⟨.boolean, sv, cur, nm⟩ rest) :
    ActOK t (dBoolean t l ⟨.boolean, sv, cur, nm⟩ rest c) := by
  unfold dBoolean
  simp only
  split
  · split
    · exact finish_redo x rfl rfl (by simp [lvlRank, stRank])
    · exact scratch_wf x rfl rfl (by simp) (by simp) (by simp)
  · split
    · split
      · exact finish_redo x rfl rfl (by simp [lvlRank, stRank])
      · exact scratch_wf x rfl rfl (by simp) (by simp) (by simp)
    · exact scratch_wf x rfl rfl (by simp) (by simp) (by simp)

/-- move between layout states, same saved state -/
theorem layout_move {st sv cur nm} (x : Ctx t ⟨st, sv, cur, nm⟩ rest) (st' : St) {t' : Tok}
    (hs' : t'.stack = ⟨st', sv, cur, nm⟩ :: rest) (hm : t'.maxDepth = t.maxDepth)
    (h : st.isLayout = true) (h' : st'.isLayout = true) : WF t' := by
  have hok := x.hok; simp only [Level.topOk] at hok
  refine x.top' hs' hm (shape_layout st st' sv _ _ _ h h' hok) (posOk_of_ne ?_ ?_ ?_) <;>
    (cases st' <;> simp [St.isLayout] at h' <;> simp)

theorem commentStart_ok {sv cur nm} (x : Ctx t ⟨.commentStart, sv, cur, nm⟩ rest) :
    ActOK t (dCommentStart t l ⟨.commentStart, sv, cur, nm⟩ rest c) := by
  unfold dCommentStart
  split
  · exact layout_move x .comment rfl rfl rfl rfl
  · split
    · exact layout_move x .commentEol rfl rfl rfl rfl
    · exact x.wf

theorem comment_ok {sv cur nm} (x : Ctx t ⟨.comment, sv, cur, nm⟩ rest) :
    ActOK t (dComment t l ⟨.comment, sv, cur, nm⟩ rest c) := by
  unfold dComment
  split
  · exact layout_move x .commentEnd rfl rfl rfl rfl
  · exact scratch_wf x rfl rfl (by simp) (by simp) (by simp)

theorem commentEol_ok {sv cur nm} (x : Ctx t ⟨.commentEol, sv, cur, nm⟩ rest) :
    ActOK t (dCommentEol t l ⟨.commentEol, sv, cur, nm⟩ rest c) := by
  unfold dCommentEol
  split
  · exact layout_move x .eatws rfl rfl rfl rfl
  · exact scratch_wf x rfl rfl (by simp) (by simp) (by simp)

theorem commentEnd_ok {sv cur nm} (x : Ctx t ⟨.commentEnd, sv, cur, nm⟩ rest) :
    ActOK t (dCommentEnd t l ⟨.commentEnd, sv, cur, nm⟩ rest c) := by
  unfold dCommentEnd
  simp only
  split
  · exact layout_move x .eatws rfl rfl rfl rfl
  · split
    · exact scratch_wf x rfl rfl (by simp) (by simp) (by simp)
    · exact layout_move x .comment rfl rfl rfl rfl

theorem string_ok {sv cur nm} (x : Ctx t ⟨.string, sv, cur, nm⟩ rest) :
    ActOK t (dString t l ⟨.string, sv, cur, nm⟩ rest c) := by
  unfold dString
  have hok := x.hok; simp only [Level.topOk] at hok
  split
  · exact finish_wf x rfl rfl
  · split
    · exact x.top' rfl rfl (shape_string_escape _ _ _ _ hok) (posOk_of_ne (by simp) (by simp) (by simp))
    · split
      · exact x.wf
      · exact scratch_wf x rfl rfl (by simp) (by simp) (by simp)

theorem objectField_ok {sv cur nm} (x : Ctx t ⟨.objectField, sv, cur, nm⟩ rest) :
    ActOK t (dObjectField t l ⟨.objectField, sv, cur, nm⟩ rest c) := by
  unfold dObjectField
  have hok := x.hok; simp only [Level.topOk] at hok
  split
  · exact x.top' rfl rfl (by simp [Level.topOk]; exact shape_field_done _ _ _ _ hok) (posOk_of_ne (by simp) (by simp) (by simp))
  · split
    · exact x.top' rfl rfl (shape_field_escape _ _ _ _ hok) (posOk_of_ne (by simp) (by simp) (by simp))
    · split
      · exact x.wf
      · exact scratch_wf x rfl rfl (by simp) (by simp) (by simp)

/-- leaving an escape state for the saved string / member-name state -/
theorem escape_back {st sv cur nm} (x : Ctx t ⟨st, sv, cur, nm⟩ rest) (h : st.isEscape = true) {t' : Tok}
    (hs' : t'.stack = ⟨sv, sv, cur, nm⟩ :: rest) (hm : t'.maxDepth = t.maxDepth) :
    WF t' ∧ rank t' = 0 := by
  have hok := x.hok; simp only [Level.topOk] at hok
  have := shape_escape_back st sv _ _ _ h hok
  exact ⟨x.top' hs' hm this.1 (posOk_of_ne this.2.2.1 this.2.2.2.1 this.2.2.2.2), by rw [rank_eq hs']; exact this.2.1⟩

theorem escape_move {st sv cur nm} (x : Ctx t ⟨st, sv, cur, nm⟩ rest) (h : st.isEscape = true) (st' : St)
    (h' : st'.isEscape = true) {t' : Tok}
    (hs' : t'.stack = ⟨st', sv, cur, nm⟩ :: rest) (hm : t'.maxDepth = t.maxDepth) (hp : posOk st' t'.stPos) : WF t' := by
  have hok := x.hok; simp only [Level.topOk] at hok
  exact x.top' hs' hm (shape_escape_move st st' sv _ _ _ h h' hok) hp

theorem stringEscape_ok {sv cur nm} (x : Ctx t ⟨.stringEscape, sv, cur, nm⟩ rest) :
    ActOK t (dStringEscape t l ⟨.stringEscape, sv, cur, nm⟩ rest c) := by
  unfold dStringEscape
  simp only
  have back : ∀ {t' : Tok}, t'.stack = ⟨sv, sv, cur, nm⟩ :: rest → t'.maxDepth = t.maxDepth → WF t' :=
    fun hs' hm => (escape_back x rfl hs' hm).1
  split; · exact back rfl rfl
  split; · exact back rfl rfl
  split; · exact back rfl rfl
  split; · exact back rfl rfl
  split; · exact back rfl rfl
  split; · exact back rfl rfl
  split
  · exact escape_move x rfl .escapeUnicode rfl rfl rfl ⟨fun _ => by simp, fun h => by simp at h⟩
  · exact x.wf

theorem emitUnit_ok {sv cur nm} (x : Ctx t ⟨.escapeUnicode, sv, cur, nm⟩ rest) (t0 : Tok)
    (h0s : t0.stack = t.stack) (h0m : t0.maxDepth = t.maxDepth) (u : Nat) (pb : Bytes) :
    ActOK t (emitUnit t0 l ⟨.escapeUnicode, sv, cur, nm⟩ rest u pb) := by
  unfold emitUnit
  simp only
  have back : ∀ {t' : Tok}, t'.stack = ⟨sv, sv, cur, nm⟩ :: rest → t'.maxDepth = t.maxDepth → WF t' :=
    fun hs' hm => (escape_back x rfl hs' hm).1
  have hne : ∀ {t' : Tok}, t'.stack = ⟨.needEscape, sv, cur, nm⟩ :: rest → t'.maxDepth = t.maxDepth → t'.stPos = 0 → WF t' :=
    fun hs' hm hp => escape_move x rfl .needEscape rfl hs' hm ⟨fun h => by simp at h, fun _ => hp⟩
  split; · exact back rfl h0m
  split; · exact back rfl h0m
  split; · exact hne rfl h0m rfl
  split; · exact back rfl h0m
  split; · exact back rfl h0m
  split; · exact back rfl h0m
  exact back rfl h0m

set_option maxRecDepth 4000 in
theorem unicodeUnit_ok {sv cur nm} (x : Ctx t ⟨.escapeUnicode, sv, cur, nm⟩ rest) (t0 : Tok)
    (h0s : t0.stack = t.stack) (h0m : t0.maxDepth = t.maxDepth) (u : Nat) :
    ActOK t (unicodeUnit t0 l ⟨.escapeUnicode, sv, cur, nm⟩ rest u) := by
  unfold unicodeUnit
  split
  · split
    · exact emitUnit_ok x t0 h0s h0m _ _
    · exact emitUnit_ok x t0 h0s h0m _ _
  · exact emitUnit_ok x t0 h0s h0m _ _

theorem escapeUnicode_ok {sv cur nm} (x : Ctx t ⟨.escapeUnicode, sv, cur, nm⟩ rest) :
    ActOK t (dEscapeUnicode t l ⟨.escapeUnicode, sv, cur, nm⟩ rest c) := by
  unfold dEscapeUnicode
  have hp3 := x.hp.1 rfl
  split
  · exact x.wf
  · split
    · omega
    · split
      · exact escape_move x rfl .escapeUnicode rfl x.hs rfl ⟨fun _ => by simp; omega, fun h => by simp at h⟩
      · exact unicodeUnit_ok x _ rfl rfl _

theorem needEscape_ok {sv cur nm} (x : Ctx t ⟨.needEscape, sv, cur, nm⟩ rest) :
    ActOK t (dNeedEscape t l ⟨.needEscape, sv, cur, nm⟩ rest c) := by
  unfold dNeedEscape
  have hp0 := x.hp.2 (Or.inl rfl)
  split
  · have := escape_back x rfl (t' := { setTop t { (⟨.needEscape, sv, cur, nm⟩ : Level) with state := sv } rest with
            pb := t.pb ++ replacement, hs := 0, ucs := 0, stPos := 0 }) rfl rfl
    refine ⟨this.1, ?_⟩
    rw [this.2, rank_eq x.hs]; simp [lvlRank, stRank]
  · exact escape_move x rfl .needU rfl rfl rfl ⟨fun h => by simp at h, fun _ => hp0⟩

theorem needU_ok {sv cur nm} (x : Ctx t ⟨.needU, sv, cur, nm⟩ rest) :
    ActOK t (dNeedU t l ⟨.needU, sv, cur, nm⟩ rest c) := by
  unfold dNeedU
  have hp0 := x.hp.2 (Or.inr rfl)
  split
  · refine ⟨escape_move x rfl .stringEscape rfl rfl rfl ⟨fun h => by simp at h, fun h => by simp at h⟩, ?_⟩
    rw [rank_eq (t' := { setTop t { (⟨.needU, sv, cur, nm⟩ : Level) with state := .stringEscape } rest with
            pb := t.pb ++ replacement, hs := 0, ucs := 0, stPos := 0 }) rfl, rank_eq x.hs]
    simp [lvlRank, stRank]
  · exact escape_move x rfl .escapeUnicode rfl rfl rfl ⟨fun _ => by simp [setTop]; omega, fun h => by simp at h⟩

theorem number_ok (lc : Libc) {sv cur nm} (x : Ctx t ⟨.number, sv, cur, nm⟩ rest) :
    ActOK t (dNumber lc t l ⟨.number, sv, cur, nm⟩ rest c) := by
  unfold dNumber dNumberCore
  have hok := x.hok; simp only [Level.topOk] at hok
  split
  · exact scratch_wf x rfl rfl (by simp) (by simp) (by simp)
  · split
    · exact x.wf
    · split
      · have := shape_number_inf _ _ _ _ hok
        refine ⟨x.top' rfl rfl (by simp [Level.topOk]; exact this.1) (posOk_of_ne (by simp) (by simp) (by simp)), ?_⟩
        rw [rank_eq (t' := { setTop t { (⟨.number, sv, cur, nm⟩ : Level) with state := .inf } rest with stPos := 0 }) rfl,
          rank_eq x.hs]
        exact this.2
      · simp only
        split
        · exact finish_redo x rfl rfl (by simp [lvlRank, stRank])
        · exact scratch_wf x rfl rfl (by simp) (by simp) (by simp)

theorem pushLevel_ok {st sv cur nm} (x : Ctx t ⟨st, sv, cur, nm⟩ rest) (st' : St)
    (hbelow : ({ (⟨st, sv, cur, nm⟩ : Level) with state := st' } : Level).belowOk = true)
    (hr : 7 < lvlRank st sv) :
    ActOK t (pushLevel t l ⟨st, sv, cur, nm⟩ rest st') := by
  unfold pushLevel
  split
  · exact x.wf
  · rename_i hnd
    split
    · rename_i hge; omega
    · rename_i hlt
      refine ⟨⟨⟨freshLevel, _, rfl, ?_, ?_, posOk_of_ne (by simp [freshLevel]) (by simp [freshLevel]) (by simp [freshLevel]), ?_⟩⟩, ?_⟩
      · simp; omega
      · simp [Level.topOk, freshLevel, isArrV, isObjV]; exact shape_fresh
      · intro lv hlv
        simp at hlv
        rcases hlv with h | h
        · subst h; exact hbelow
        · exact x.hb lv h
      · rw [rank_eq (t' := { t with stack := freshLevel :: { (⟨st, sv, cur, nm⟩ : Level) with state := st' } :: rest }) rfl,
          rank_eq x.hs]
        simp [freshLevel, lvlRank, stRank] at hr ⊢
        omega

theorem array_ok {st sv cur nm} (hst : st = .array ∨ st = .arrayAfterSep) (x : Ctx t ⟨st, sv, cur, nm⟩ rest) (b : Bool) :
    ActOK t (dArray t l ⟨st, sv, cur, nm⟩ rest c b) := by
  unfold dArray
  have hok := x.hok; simp only [Level.topOk] at hok
  have hsh := shape_arr_state st sv _ _ _ (by rcases hst with h | h <;> simp [h]) hok
  split
  · split
    · exact x.wf
    · exact finish_wf x rfl rfl
  · apply pushLevel_ok x
    · simp [Level.belowOk, Level.ok]; exact hsh.2.2
    · rcases hst with h | h <;> subst h <;> simp [lvlRank, stRank]

theorem arraySep_ok {sv cur nm} (x : Ctx t ⟨.arraySep, sv, cur, nm⟩ rest) :
    ActOK t (dArraySep t l ⟨.arraySep, sv, cur, nm⟩ rest c) := by
  unfold dArraySep
  have hok := x.hok; simp only [Level.topOk] at hok
  have hsh := shape_arr_state .arraySep sv _ _ _ (by simp) hok
  split
  · exact finish_wf x rfl rfl
  · split
    · exact x.top' rfl rfl (by simp [Level.topOk]; exact hsh.2.1) (posOk_of_ne (by simp) (by simp) (by simp))
    · exact x.wf

theorem objectFieldStart_ok {st sv cur nm} (hst : st = .objectFieldStart ∨ st = .objectFieldStartAfterSep)
    (x : Ctx t ⟨st, sv, cur, nm⟩ rest) (b : Bool) :
    ActOK t (dObjectFieldStart t l ⟨st, sv, cur, nm⟩ rest c b) := by
  unfold dObjectFieldStart
  have hok := x.hok; simp only [Level.topOk] at hok
  have hsh := shape_obj_state st sv _ _ _ (by rcases hst with h | h <;> simp [h]) hok
  split
  · split
    · exact x.wf
    · exact finish_wf x rfl rfl
  · split
    · exact x.top' rfl rfl (by simp [Level.topOk]; exact hsh.2.1) (posOk_of_ne (by simp) (by simp) (by simp))
    · exact x.wf

theorem objectFieldEnd_ok {sv cur nm} (x : Ctx t ⟨.objectFieldEnd, sv, cur, nm⟩ rest) :
    ActOK t (dObjectFieldEnd t l ⟨.objectFieldEnd, sv, cur, nm⟩ rest c) := by
  unfold dObjectFieldEnd
  have hok := x.hok; simp only [Level.topOk] at hok
  have hsh := shape_named_state .objectFieldEnd sv _ _ _ (by simp) hok
  split
  · exact x.top' rfl rfl (by simp [Level.topOk]; exact hsh.2.2.1) (posOk_of_ne (by simp) (by simp) (by simp))
  · exact x.wf

theorem objectValue_ok {sv cur nm} (x : Ctx t ⟨.objectValue, sv, cur, nm⟩ rest) :
    ActOK t (pushLevel t l ⟨.objectValue, sv, cur, nm⟩ rest .objectValueAdd) := by
  have hok := x.hok; simp only [Level.topOk] at hok
  have hsh := shape_named_state .objectValue sv _ _ _ (by simp) hok
  apply pushLevel_ok x
  · simp [Level.belowOk, Level.ok]; exact hsh.2.2.2
  · simp [lvlRank, stRank]

theorem objectSep_ok {sv cur nm} (x : Ctx t ⟨.objectSep, sv, cur, nm⟩ rest) :
    ActOK t (dObjectSep t l ⟨.objectSep, sv, cur, nm⟩ rest c) := by
  unfold dObjectSep
  have hok := x.hok; simp only [Level.topOk] at hok
  have hsh := shape_obj_state .objectSep sv _ _ _ (by simp) hok
  split
  · exact finish_wf x rfl rfl
  · split
    · exact x.top' rfl rfl (by simp [Level.topOk]; exact hsh.2.2) (posOk_of_ne (by simp) (by simp) (by simp))
    · exact x.wf

end states

/-- one dispatch from a well-formed tokener -/
theorem disp_ok (lc : Libc) (t : Tok) (l : Loc) (c : UInt8) (h : WF t) : ActOK t (disp lc t l c) := by
  obtain ⟨top, rest, hs, hd, hok, hp, hb⟩ := h.ex
  unfold disp
  rw [hs]
  rcases top with ⟨st, sv, cur, nm⟩
  have x : Ctx t ⟨st, sv, cur, nm⟩ rest := ⟨hs, hd, hb, hok, hp⟩
  have hna := shape_not_add st sv _ _ _ (by simpa [Level.topOk] using hok)
  cases st <;> simp only
  · exact eatws_ok x
  · exact start_ok x
  · exact finish_ok x
  · exact null_ok x
  · exact commentStart_ok x
  · exact comment_ok x
  · exact commentEol_ok x
  · exact commentEnd_ok x
  · exact string_ok x
  · exact stringEscape_ok x
  · exact escapeUnicode_ok x
  · exact needEscape_ok x
  · exact needU_ok x
  · exact boolean_ok x
  · exact number_ok lc x
  · exact array_ok (Or.inl rfl) x false
  · exact absurd rfl hna.1
  · exact arraySep_ok x
  · exact objectFieldStart_ok (Or.inl rfl) x false
  · exact objectField_ok x
  · exact objectFieldEnd_ok x
  · exact objectValue_ok x
  · exact absurd rfl hna.2
  · exact objectSep_ok x
  · exact array_ok (Or.inr rfl) x true
  · exact objectFieldStart_ok (Or.inr rfl) x true
  · exact inf_ok x

theorem wf_rank_le (t : Tok) (h : WF t) : rank t ≤ 9 := by
  obtain ⟨top, rest, hs, _, hok, _, _⟩ := h.ex
  rw [rank_eq hs]
  exact rank_le _ _ _ _ _ (by simpa [Level.topOk] using hok)

/-- what a whole `feed` (dispatch + redo chain) guarantees -/
def FeedOK : Act → Prop
  | .consume t' _ => WF t'
  | .err _ t' _ => WF t'
  | .done t' _ => WF t'
  | .redo _ _ => False          -- out of fuel
  | .fault _ => False

theorem feedN_ok (lc : Libc) : ∀ (n : Nat) (t : Tok) (l : Loc) (c : UInt8), WF t → rank t < n →
    FeedOK (feedN lc n t l c) := by
  intro n
  induction n with
  | zero => intro t l c _ h; omega
  | succ n ih =>
    intro t l c hwf hr
    unfold feedN
    have := disp_ok lc t l c hwf
    cases hd : disp lc t l c with
    | consume t' l' => rw [hd] at this; exact this
    | redo t' l' => rw [hd] at this; simp only; exact ih t' l' c this.1 (by have := this.2; omega)
    | err e t' l' => rw [hd] at this; exact this
    | done t' l' => rw [hd] at this; exact this
    | fault w => rw [hd] at this; exact this.elim

theorem feed_ok (lc : Libc) (t : Tok) (l : Loc) (c : UInt8) (h : WF t) : FeedOK (feed lc t l c) :=
  feedN_ok lc fuel t l c h (by have := wf_rank_le t h; simp [fuel]; omega)

end JsonC.Tokener
