/-
  C16, default mode on documents with extensions, part 4: the induction and the top level.
-/
import JsonC.Lemmas.TokenerXDoc3
namespace JsonC.Tokener
open JsonC Rfc8259 Rfc8259X

theorem lit_denote (k : LitKind) (caps : List Bool) : (XDoc.lit k caps).denote = k.doc.denote := by
  simp [XDoc.denote]

/-- default mode: every well-formed extended document within the depth limit parses to the value
of the RFC 8259 document it stands for -/
theorem xdoc_goal (lc : Libc) (hl : LibcSpec lc) (hx : LibcSpecX lc) : ∀ x, XGoal lc x := by
  intro x
  induction x using xdoc_induct with
  | hlit k caps =>
    intro t l cur rest hwf hs hv hhs hl0 hns hok _ _
    rw [lit_denote]
    exact parsed_lit lc t l cur none rest hwf hs hv hhs hl0 k caps (by simpa [XDoc.ok] using hok) (Or.inl hns)
  | hnum n =>
    intro t l cur rest hwf hs hv hhs _ hns hok _ _
    have := parsed_xnum lc hl hx t l cur none rest hwf hs hv hhs n (by simpa [XDoc.ok] using hok) hns
    simpa [XDoc.text, XDoc.denote] using this
  | hstr q items =>
    intro t l cur rest hwf hs hv hhs hl0 hns hok _ _
    exact parsed_qstring_x lc t l cur none rest hwf hs hv hhs hl0 hns q items (by simpa [XDoc.ok] using hok)
  | harr g es tr ih =>
    intro t l cur rest hwf hs hv hhs hl0 hns hok hknf hdepth
    have h1 := open_array lc t l hv cur none rest hs
    let t1 : Tok := { t with stack := ⟨.eatws, .array, .arr [], none⟩ :: rest }
    have f1 : Frm t t1 := ⟨rfl, rfl, hhs⟩
    have hwf1 : WF t1 := wf_restack hwf hs rfl rfl (topOk_open _ _ (Or.inl ⟨rfl, rfl⟩)) (posOk_of_ne (by simp) (by simp) (by simp))
    simp only [XDoc.ok, Bool.and_eq_true] at hok
    intro nb _ _ c off rs
    cases es with
    | nil =>
      have e : (XDoc.arr g [] tr).text ++ nb :: rs = [91] ++ (g.text ++ 93 :: (nb :: rs)) := by simp [XDoc.text]
      have hh := h1 c off (g.text ++ 93 :: (nb :: rs))
      simp only [lastOr, List.getLast?_singleton, Option.getD_some, List.length_singleton] at hh
      obtain ⟨t2, c2, hs2, f2, _, hr2⟩ := run_gap lc t1 l .array (.arr []) none rest hwf1 rfl hv hhs g hok.1.1 (Or.inl hns)
        91 (off + 1) (93 :: (nb :: rs))
      have f2' : Frm t t2 := f1.trans f2
      have h3 := close_empty_array lc t2 l (f2'.noVal hv) [] none rest hs2 c2 (off + 1 + g.text.length) (nb :: rs)
      simp only [List.cons_append, List.nil_append, lastOr, List.getLast?_singleton, Option.getD_some, List.length_singleton] at h3
      rw [e, hh, hr2, h3]
      have hd : (XDoc.arr g [] tr).denote = .arr [] := by simp [XDoc.denote, xelemsDenote]
      rw [hd]
      refine ⟨{ t2 with stack := ⟨.eatws, .finish, .arr [], none⟩ :: rest }, l, rfl, ⟨f2'.md, f2'.fl, f2'.hs⟩, ?_, hl0, ?_⟩
      · exact wf_restack hwf hs rfl f2'.md (topOk_finish _ _) (posOk_of_ne (by simp) (by simp) (by simp))
      · have e2 : (XDoc.arr g [] tr).text = (91 :: g.text) ++ [93] := by simp [XDoc.text]
        rw [e2, lastOr_snoc]
        simp only [List.length_append, List.length_cons, List.length_nil]
        congr 1
        omega
    | cons e0 r =>
      have hne : e0 :: r ≠ [] := by simp
      have e : (XDoc.arr g (e0 :: r) tr).text ++ nb :: rs =
          [91] ++ (intercalateB 44 (xelemsText (e0 :: r)) ++ (trailText tr ++ 93 :: (nb :: rs))) := by simp [XDoc.text]
      have htr : ∀ g', tr = some g' → g'.ok = true := by
        intro g' hg'; subst hg'; simpa using hok.2
      obtain ⟨t', l', hs', f', hl', hrun⟩ := xelems_run lc (e0 :: r) hne ih t1 l .array (Or.inl rfl) [] rest hwf1 rfl hv hhs hl0 hns
        hok.1.2 (by simpa [XDoc.erase, Doc.keysNulFree] using hknf) (by simpa [XDoc.erase, Doc.nest] using hdepth)
        tr htr 91 (off + 1) (nb :: rs)
      have hh := h1 c off (intercalateB 44 (xelemsText (e0 :: r)) ++ (trailText tr ++ 93 :: (nb :: rs)))
      simp only [lastOr, List.getLast?_singleton, Option.getD_some, List.length_singleton] at hh
      rw [e, hh, hrun]
      refine ⟨t', l', by simpa [XDoc.denote] using hs', f1.trans f', ?_, hl', ?_⟩
      · exact wf_restack hwf hs hs' (f1.trans f').md (topOk_finish _ _) (posOk_of_ne (by simp) (by simp) (by simp))
      · have e2 : (XDoc.arr g (e0 :: r) tr).text = (91 :: intercalateB 44 (xelemsText (e0 :: r)) ++ trailText tr) ++ [93] := by
          simp [XDoc.text]
        rw [e2, lastOr_snoc]
        simp only [List.length_append, List.length_cons, List.length_nil]
        congr 1
        omega
  | hobj g ms tr ih =>
    intro t l cur rest hwf hs hv hhs hl0 hns hok hknf hdepth
    have h1 := open_object lc t l hv cur none rest hs
    let t1 : Tok := { t with stack := ⟨.eatws, .objectFieldStart, .obj [], none⟩ :: rest }
    have f1 : Frm t t1 := ⟨rfl, rfl, hhs⟩
    have hwf1 : WF t1 := wf_restack hwf hs rfl rfl (topOk_open _ _ (Or.inr ⟨rfl, rfl⟩)) (posOk_of_ne (by simp) (by simp) (by simp))
    simp only [XDoc.ok, Bool.and_eq_true] at hok
    intro nb _ _ c off rs
    cases ms with
    | nil =>
      have e : (XDoc.obj g [] tr).text ++ nb :: rs = [123] ++ (g.text ++ 125 :: (nb :: rs)) := by simp [XDoc.text]
      have hh := h1 c off (g.text ++ 125 :: (nb :: rs))
      simp only [lastOr, List.getLast?_singleton, Option.getD_some, List.length_singleton] at hh
      obtain ⟨t2, c2, hs2, f2, _, hr2⟩ := run_gap lc t1 l .objectFieldStart (.obj []) none rest hwf1 rfl hv hhs g hok.1.1 (Or.inl hns)
        123 (off + 1) (125 :: (nb :: rs))
      have f2' : Frm t t2 := f1.trans f2
      have h3 := close_empty_object lc t2 l (f2'.noVal hv) [] none rest hs2 c2 (off + 1 + g.text.length) (nb :: rs)
      simp only [List.cons_append, List.nil_append, lastOr, List.getLast?_singleton, Option.getD_some, List.length_singleton] at h3
      rw [e, hh, hr2, h3]
      have hd : (XDoc.obj g [] tr).denote = .obj [] := by simp [XDoc.denote, xmembersDenote]
      rw [hd]
      refine ⟨{ t2 with stack := ⟨.eatws, .finish, .obj [], none⟩ :: rest }, l, rfl, ⟨f2'.md, f2'.fl, f2'.hs⟩, ?_, hl0, ?_⟩
      · exact wf_restack hwf hs rfl f2'.md (topOk_finish _ _) (posOk_of_ne (by simp) (by simp) (by simp))
      · have e2 : (XDoc.obj g [] tr).text = (123 :: g.text) ++ [125] := by simp [XDoc.text]
        rw [e2, lastOr_snoc]
        simp only [List.length_append, List.length_cons, List.length_nil]
        congr 1
        omega
    | cons e0 r =>
      have hne : e0 :: r ≠ [] := by simp
      have e : (XDoc.obj g (e0 :: r) tr).text ++ nb :: rs =
          [123] ++ (intercalateB 44 (xmembersText (e0 :: r)) ++ (trailText tr ++ 125 :: (nb :: rs))) := by simp [XDoc.text]
      have htr : ∀ g', tr = some g' → g'.ok = true := by
        intro g' hg'; subst hg'; simpa using hok.2
      obtain ⟨t', l', hs', f', hl', hrun⟩ := xmembers_run lc (e0 :: r) hne ih t1 l .objectFieldStart (Or.inl rfl) [] none rest hwf1 rfl
        hv hhs hl0 hns hok.1.2 (by simpa [XDoc.erase, Doc.keysNulFree] using hknf) (by simpa [XDoc.erase, Doc.nest] using hdepth)
        tr htr 123 (off + 1) (nb :: rs)
      have hh := h1 c off (intercalateB 44 (xmembersText (e0 :: r)) ++ (trailText tr ++ 125 :: (nb :: rs)))
      simp only [lastOr, List.getLast?_singleton, Option.getD_some, List.length_singleton] at hh
      rw [e, hh, hrun]
      refine ⟨t', l', by simpa [XDoc.denote] using hs', f1.trans f', ?_, hl', ?_⟩
      · exact wf_restack hwf hs hs' (f1.trans f').md (topOk_finish _ _) (posOk_of_ne (by simp) (by simp) (by simp))
      · have e2 : (XDoc.obj g (e0 :: r) tr).text = (123 :: intercalateB 44 (xmembersText (e0 :: r)) ++ trailText tr) ++ [125] := by
          simp [XDoc.text]
        rw [e2, lastOr_snoc]
        simp only [List.length_append, List.length_cons, List.length_nil]
        congr 1
        omega

/-- the first byte after the top-level value: trailing gap or the NUL -/
theorem xfollow_top (g : Gap) (hok : g.ok = true) : ∃ nb rs, g.text ++ [0] = nb :: rs ∧ Follow nb := by
  cases g with
  | nil => exact ⟨0, [], by simp [Gap.text], by simp [Follow]⟩
  | cons i r =>
    obtain ⟨nb, rs, h, hf, _⟩ := xfollow_head (i :: r) hok 44 (Or.inl rfl) []
    cases i with
    | ws c => exact ⟨c.byte, Gap.text r ++ [0], by simp [Gap.text, GapItem.text], by cases c <;> simp [Follow, WsChar.byte, isWs]⟩
    | block b => exact ⟨47, _, by simp [Gap.text, GapItem.text]; rfl, by simp [Follow]⟩
    | line b => exact ⟨47, _, by simp [Gap.text, GapItem.text]; rfl, by simp [Follow]⟩

/-- **top level, default mode**: `gap value gap NUL` with extensions parses to `XDoc.denote`
(the value of the RFC 8259 document it stands for, up to the text retained by doubles: Spec/Rfc8259X.lean); the end position is the length of the text -/
theorem xtop_level (lc : Libc) (hl : LibcSpec lc) (hx : LibcSpecX lc) (t : Tok) (hwf : WF t) (hst : t.stack = [⟨.eatws, .start, .null, none⟩])
    (hv : NoVal t) (hhs : t.hs = 0) (hns : t.strict = false) (x : XText) (hok : x.ok = true)
    (hknf : x.doc.erase.keysNulFree = true) (hdepth : 1 + x.doc.erase.nest ≤ t.maxDepth) :
    let f := parseEx lc t (x.text ++ [0])
    f.err = .success ∧ f.value = some x.doc.denote ∧ f.offset = x.text.length ∧ f.stuck = false ∧ f.fault = none := by
  simp only [XText.ok, Bool.and_eq_true] at hok
  have hsplit : x.text ++ [0] = x.lead.text ++ (x.doc.text ++ (x.trail.text ++ [0])) := by simp [XText.text]
  unfold parseEx
  obtain ⟨ta, ca, hsa, fa, hwfa, hra⟩ := run_gap lc t {} .start .null none [] hwf hst hv hhs x.lead hok.1.1 (Or.inl hns) 1 0
    (x.doc.text ++ (x.trail.text ++ [0]))
  rw [hsplit, hra]
  obtain ⟨nb, rs, htr, hnb⟩ := xfollow_top x.trail hok.2
  obtain ⟨t', l', hs', f', hwf', hl', hrun⟩ := xdoc_goal lc hl hx x.doc ta {} .null [] hwfa hsa (fa.noVal hv) fa.hs rfl
    (by rw [fa.strict]; exact hns) hok.1.2 hknf (by rw [fa.md]; simpa using hdepth) nb hnb (fun _ => rfl) ca (0 + x.lead.text.length) rs
  have f2 : Frm t t' := fa.trans f'
  rw [htr, hrun, ← htr]
  obtain ⟨tb, cb, hsb, fb, _, hrb⟩ := run_gap lc t' l' .finish x.doc.denote none [] hwf' hs' (f2.noVal hv) f2.hs x.trail hok.2
    (Or.inl (by rw [f2.strict]; exact hns)) (lastOr ca x.doc.text) (0 + x.lead.text.length + x.doc.text.length) [0]
  rw [hrb]
  have f3 : Frm t tb := f2.trans fb
  have htl := run_trailer lc tb l' x.doc.denote none hsb (f3.noVal hv) [] (by simp) cb
    (0 + x.lead.text.length + x.doc.text.length + x.trail.text.length)
  simp only [List.nil_append, List.length_nil, Nat.add_zero] at htl
  rw [htl]
  have := epilogue_done tb l' x.doc.denote none
    (0 + x.lead.text.length + x.doc.text.length + x.trail.text.length) (f3.noVal hv)
  simp only at this
  refine ⟨this.1, this.2.1, ?_, this.2.2.2.1, this.2.2.2.2⟩
  rw [this.2.2.1]; simp [XText.text]; omega

end JsonC.Tokener
