/-
  C16, default mode on documents with extensions, part 3: the member loop of an object (with an
  optional trailing comma).
-/
import JsonC.Lemmas.TokenerXDoc2
namespace JsonC.Tokener
open JsonC Rfc8259 Rfc8259X

theorem itemsOkFor_ok (q : Quote) (k : List StrItem) (h : itemsOkFor q k = true) : ∀ i ∈ k, i.ok = true := by
  intro i hi
  simp only [itemsOkFor, Bool.or_eq_true, Bool.and_eq_true, List.all_eq_true] at h
  rcases h with h | h
  · exact (h i hi).1
  · exact h.2 i hi

theorem xmembers_run (lc : Libc) (ms : List (Gap × Quote × List StrItem × Gap × Gap × XDoc × Gap)) (hne : ms ≠ [])
    (ih : ∀ m ∈ ms, XGoal lc m.2.2.2.2.2.1) :
    ∀ (t : Tok) (l : Loc) (sv : St) (_ : sv = .objectFieldStart ∨ sv = .objectFieldStartAfterSep)
      (kvs : List (Bytes × JVal)) (nm : Option Bytes) (rest : List Level),
      WF t → t.stack = ⟨.eatws, sv, .obj kvs, nm⟩ :: rest → NoVal t → t.hs = 0 → l.num = none → t.strict = false →
      xmembersOk ms = true → membersKNF (xmembersErase ms) = true →
      rest.length + 1 + membersNest (xmembersErase ms) ≤ t.maxDepth →
      ∀ (tr : Option Gap) (_ : ∀ g, tr = some g → g.ok = true) (c : UInt8) (off : Nat) (rs : Bytes), ∃ t' l',
        t'.stack = ⟨.eatws, .finish, .obj (xmembersDenote ms kvs), none⟩ :: rest ∧ Frm t t' ∧ l'.num = none ∧
        run lc t l c off (intercalateB 44 (xmembersText ms) ++ (trailText tr ++ 125 :: rs)) =
          run lc t' l' 125 (off + (intercalateB 44 (xmembersText ms)).length + (trailText tr).length + 1) rs := by
  induction ms with
  | nil => exact absurd rfl hne
  | cons m r ihr =>
    obtain ⟨g1, q, k, g2, g3, d, g4⟩ := m
    intro t l sv hsv kvs nm rest hwf hs hv hhs hl0 hns hok hknf hdepth tr htr c off rs
    simp only [xmembersOk, Bool.and_eq_true] at hok
    obtain ⟨⟨⟨⟨⟨⟨hg1, hkq⟩, hg2⟩, hg3⟩, hdok⟩, hg4⟩, hrok⟩ := hok
    simp only [xmembersErase, membersKNF, Bool.and_eq_true, Bool.not_eq_true'] at hknf
    simp only [xmembersErase, membersNest] at hdepth
    have ihd : XGoal lc d := ih (g1, q, k, g2, g3, d, g4) (by simp)
    have hkey : cstr (decodeItems k) = decodeItems k := cstr_of_nulfree _ hknf.1.1
    have hden : ∀ ys acc, xmembersDenote ((g1, q, k, g2, g3, d, g4) :: ys) acc =
        xmembersDenote ys (Tokener.addOrReplace acc (decodeItems k) d.denote) := by
      intro ys acc; simp [xmembersDenote, addOrReplace_eq]
    -- up to the separator `s` after the member
    have common : ∀ (s : UInt8) (_ : s = 44 ∨ s = 93 ∨ s = 125) (X : Bytes), ∃ t2 l2 c2,
        t2.stack = ⟨.eatws, .finish, d.denote, none⟩ :: ⟨.objectValueAdd, .objectValue, .obj kvs, some (decodeItems k)⟩ :: rest ∧
        Frm t t2 ∧ l2.num = none ∧
        run lc t l c off (g1.text ++ (qText q k ++ (g2.text ++ 58 :: (g3.text ++ (d.text ++ (g4.text ++ s :: X)))))) =
          run lc t2 l2 c2 (off + g1.text.length + (qText q k).length + g2.text.length + 1 + g3.text.length + d.text.length +
            g4.text.length) (s :: X) := by
      intro s hsep X
      obtain ⟨ta, ca, hsa, fa, hwfa, hra⟩ := run_gap lc t l sv (.obj kvs) nm rest hwf hs hv hhs g1 hg1 (Or.inl hns) c off
        (qText q k ++ (g2.text ++ 58 :: (g3.text ++ (d.text ++ (g4.text ++ s :: X)))))
      rw [hra]
      have hnsa : ta.strict = false := by rw [fa.strict]; exact hns
      obtain ⟨tn, hsn, fn, hrn⟩ := reaches_qname_x lc ta l sv hsv (.obj kvs) nm rest hsa (fa.noVal hv) fa.hs hnsa q k hkq
      rw [hrn, hkey] at *
      have fn' : Frm t tn := fa.trans fn
      have hwfn : WF tn := wf_restack hwf hs hsn fn'.md (by simp [Level.topOk, isArrV, isObjV]; decide)
        (posOk_of_ne (by simp) (by simp) (by simp))
      obtain ⟨tb, cb, hsb, fb, hwfb, hrb⟩ := run_gap lc tn l .objectFieldEnd (.obj kvs) (some (decodeItems k)) rest hwfn hsn
        (fn'.noVal hv) fn'.hs g2 hg2 (Or.inl (by rw [fn'.strict]; exact hns)) (lastOr ca (qText q k))
        (off + g1.text.length + (qText q k).length) (58 :: (g3.text ++ (d.text ++ (g4.text ++ s :: X))))
      rw [hrb]
      have fb' : Frm t tb := fn'.trans fb
      have hc := colon_step lc tb l (fb'.noVal hv) (.obj kvs) (some (decodeItems k)) rest hsb cb
        (off + g1.text.length + (qText q k).length + g2.text.length) (g3.text ++ (d.text ++ (g4.text ++ s :: X)))
      simp only [List.cons_append, List.nil_append, lastOr, List.getLast?_singleton, Option.getD_some, List.length_singleton] at hc
      rw [hc]
      let tc : Tok := { tb with stack := ⟨.eatws, .objectValue, .obj kvs, some (decodeItems k)⟩ :: rest }
      have fc : Frm t tc := ⟨fb'.md, fb'.fl, fb'.hs⟩
      have hwfc : WF tc := wf_restack hwf hs rfl fb'.md (topOk_objectValue _ _) (posOk_of_ne (by simp) (by simp) (by simp))
      obtain ⟨t2, l2, c2, hs2, f2, _, hl2, hrun⟩ := xchild_value lc d ihd g3 g4 tc l hwfc (fc.noVal hv) fc.hs hl0
        (by rw [fc.strict]; exact hns) .objectValue .objectValueAdd
        (Or.inr (Or.inr ⟨rfl, rfl⟩)) (.obj kvs) (some (decodeItems k)) rest rfl hg3 hg4 hdok hknf.1.2
        (by rw [fc.md]; omega) s hsep X 58 (off + g1.text.length + (qText q k).length + g2.text.length + 1)
      rw [hrun]
      exact ⟨t2, l2, c2, hs2, fc.trans f2, hl2, rfl⟩
    cases r with
    | nil =>
      cases tr with
      | none =>
        have e0 : intercalateB 44 (xmembersText [(g1, q, k, g2, g3, d, g4)]) ++ (trailText none ++ 125 :: rs) =
            g1.text ++ (qText q k ++ (g2.text ++ 58 :: (g3.text ++ (d.text ++ (g4.text ++ 125 :: rs))))) := by
          simp [intercalateB, xmembersText, trailText]
        obtain ⟨t2, l2, c2, hs2, f2, hl2, hrun⟩ := common 125 (by simp) rs
        have h3 := after_member_close lc t2 l2 (f2.noVal hv) d.denote none .objectValue kvs (decodeItems k) rest hs2 c2
          (off + g1.text.length + (qText q k).length + g2.text.length + 1 + g3.text.length + d.text.length + g4.text.length) rs
        simp only [List.cons_append, List.nil_append, lastOr, List.getLast?_singleton, Option.getD_some, List.length_singleton] at h3
        rw [e0, hrun, h3, hden]
        refine ⟨{ t2 with stack := ⟨.eatws, .finish, .obj (Tokener.addOrReplace kvs (decodeItems k) d.denote), none⟩ :: rest }, l2,
          by simp [xmembersDenote], ⟨f2.md, f2.fl, f2.hs⟩, hl2, ?_⟩
        simp only [intercalateB, xmembersText, List.length_append, List.length_cons, trailText, List.length_nil]
        congr 1
        omega
      | some g =>
        have hg := htr g rfl
        have e0 : intercalateB 44 (xmembersText [(g1, q, k, g2, g3, d, g4)]) ++ (trailText (some g) ++ 125 :: rs) =
            g1.text ++ (qText q k ++ (g2.text ++ 58 :: (g3.text ++ (d.text ++ (g4.text ++ 44 :: (g.text ++ 125 :: rs)))))) := by
          simp [intercalateB, xmembersText, trailText]
        obtain ⟨t2, l2, c2, hs2, f2, hl2, hrun⟩ := common 44 (by simp) (g.text ++ 125 :: rs)
        have h3 := after_member_comma lc t2 l2 (f2.noVal hv) d.denote none .objectValue kvs (decodeItems k) rest hs2 c2
          (off + g1.text.length + (qText q k).length + g2.text.length + 1 + g3.text.length + d.text.length + g4.text.length)
          (g.text ++ 125 :: rs)
        simp only [List.cons_append, List.nil_append, lastOr, List.getLast?_singleton, Option.getD_some, List.length_singleton] at h3
        let t3 : Tok := { t2 with stack := ⟨.eatws, .objectFieldStartAfterSep,
          .obj (Tokener.addOrReplace kvs (decodeItems k) d.denote), none⟩ :: rest }
        have f3 : Frm t t3 := ⟨f2.md, f2.fl, f2.hs⟩
        have hwf3 : WF t3 := wf_restack hwf hs rfl f2.md (topOk_container _ _ (Or.inr ⟨rfl, _, rfl⟩))
          (posOk_of_ne (by simp) (by simp) (by simp))
        obtain ⟨t4, c4, hs4, f4, _, hr4⟩ := run_gap lc t3 l2 .objectFieldStartAfterSep
          (.obj (Tokener.addOrReplace kvs (decodeItems k) d.denote)) none rest hwf3 rfl
          (f3.noVal hv) f3.hs g hg (Or.inl (by rw [f3.strict]; exact hns)) 44
          (off + g1.text.length + (qText q k).length + g2.text.length + 1 + g3.text.length + d.text.length + g4.text.length + 1)
          (125 :: rs)
        have f4' : Frm t t4 := f3.trans f4
        have h5 := close_after_sep_object lc t4 l2 (f4'.noVal hv) (by rw [f4'.strict]; exact hns)
          (Tokener.addOrReplace kvs (decodeItems k) d.denote) none rest hs4 c4
          (off + g1.text.length + (qText q k).length + g2.text.length + 1 + g3.text.length + d.text.length + g4.text.length + 1 +
            g.text.length) rs
        simp only [List.cons_append, List.nil_append, lastOr, List.getLast?_singleton, Option.getD_some, List.length_singleton] at h5
        rw [e0, hrun, h3, hr4, h5, hden]
        refine ⟨{ t4 with stack := ⟨.eatws, .finish, .obj (Tokener.addOrReplace kvs (decodeItems k) d.denote), none⟩ :: rest }, l2,
          by simp [xmembersDenote], ⟨f4'.md, f4'.fl, f4'.hs⟩, hl2, ?_⟩
        simp only [intercalateB, xmembersText, List.length_append, List.length_cons, trailText]
        congr 1
        omega
    | cons m2 r2 =>
      have e0 : intercalateB 44 (xmembersText ((g1, q, k, g2, g3, d, g4) :: m2 :: r2)) ++ (trailText tr ++ 125 :: rs) =
          g1.text ++ (qText q k ++ (g2.text ++ 58 :: (g3.text ++ (d.text ++ (g4.text ++ 44 ::
            (intercalateB 44 (xmembersText (m2 :: r2)) ++ (trailText tr ++ 125 :: rs))))))) := by
        obtain ⟨a1, a2, a3, a4, a5, a6, a7⟩ := m2
        simp [intercalateB, xmembersText]
      obtain ⟨t2, l2, c2, hs2, f2, hl2, hrun⟩ := common 44 (by simp)
        (intercalateB 44 (xmembersText (m2 :: r2)) ++ (trailText tr ++ 125 :: rs))
      have h3 := after_member_comma lc t2 l2 (f2.noVal hv) d.denote none .objectValue kvs (decodeItems k) rest hs2 c2
        (off + g1.text.length + (qText q k).length + g2.text.length + 1 + g3.text.length + d.text.length + g4.text.length)
        (intercalateB 44 (xmembersText (m2 :: r2)) ++ (trailText tr ++ 125 :: rs))
      simp only [List.cons_append, List.nil_append, lastOr, List.getLast?_singleton, Option.getD_some, List.length_singleton] at h3
      let t3 : Tok := { t2 with stack := ⟨.eatws, .objectFieldStartAfterSep,
        .obj (Tokener.addOrReplace kvs (decodeItems k) d.denote), none⟩ :: rest }
      have f3 : Frm t t3 := ⟨f2.md, f2.fl, f2.hs⟩
      have hwf3 : WF t3 := wf_restack hwf hs rfl f2.md (topOk_container _ _ (Or.inr ⟨rfl, _, rfl⟩))
        (posOk_of_ne (by simp) (by simp) (by simp))
      obtain ⟨t4, l4, hs4, f4, hl4, hrun4⟩ := ihr (by simp) (fun e he => ih e (by simp [he])) t3 l2 .objectFieldStartAfterSep (Or.inr rfl)
        (Tokener.addOrReplace kvs (decodeItems k) d.denote) none rest hwf3 rfl (f3.noVal hv) f3.hs hl2
        (by rw [f3.strict]; exact hns) hrok hknf.2
        (by rw [f3.md]; omega) tr htr 44
        (off + g1.text.length + (qText q k).length + g2.text.length + 1 + g3.text.length + d.text.length + g4.text.length + 1) rs
      rw [e0, hrun, h3, hrun4]
      refine ⟨t4, l4, ?_, f3.trans f4, hl4, ?_⟩
      · rw [hs4, hden]
      · obtain ⟨a1, a2, a3, a4, a5, a6, a7⟩ := m2
        simp only [intercalateB, xmembersText, List.length_append, List.length_cons]
        congr 1
        omega

end JsonC.Tokener
