/-
  The nesting limit, reject half (C15), part 2: the failing push and the induction over documents.
-/
import JsonC.Lemmas.TokenerDeep1
namespace JsonC.Tokener
open JsonC Rfc8259

/-- the loop ended with the nesting error at offset `k`, in a state the epilogue reports as it is -/
def DepthStop (e : LoopEnd) (k : Nat) : Prop :=
  e.stop = .err .depth ∧ e.offset = k ∧ e.c ≠ 0 ∧ (topState e.tok).1 ≠ .finish ∧ NoVal e.tok

theorem epilogue_depth (e : LoopEnd) (k : Nat) (h : DepthStop e k) :
    (epilogue e).err = .depth ∧ (epilogue e).value = none ∧ (epilogue e).offset = k ∧ (epilogue e).stuck = false ∧
      (epilogue e).fault = none := by
  obtain ⟨hs, ho, hc, hst, hv⟩ := h
  have hv' := hv.validate
  have hc' : (e.c == 0) = false := by simpa using hc
  have hst' : ((topState e.tok).1 == .finish) = false := by simpa using hst
  have hfe : finalErr e = .depth := by
    simp [finalErr, loopErr, hs, hc', hst', hv', PErr.toErr]
  simp [epilogue, hfe, hs, ho]

/-- a value's first byte arrives when the level array is full: the nesting error, at that byte -/
theorem push_fail (lc : Libc) (t : Tok) (l : Loc) (hwf : WF t) (hv : NoVal t) (sv : St)
    (hsv : sv = .array ∨ sv = .arrayAfterSep ∨ sv = .objectValue)
    (cur : JVal) (nm : Option Bytes) (rest : List Level) (hs : t.stack = ⟨.eatws, sv, cur, nm⟩ :: rest)
    (b : UInt8) (hb : ValueStart b) (hd : t.maxDepth ≤ rest.length + 1) (c : UInt8) (off : Nat) (rs : Bytes) :
    DepthStop (run lc t l c off (b :: rs)) off := by
  obtain ⟨hws, h93, _, h47, h0, _⟩ := hb
  have e47 : (b == 47) = false := by simpa using h47
  have e93 : (b == 93) = false := by simpa using h93
  let t1 : Tok := { t with stack := ⟨sv, sv, cur, nm⟩ :: rest }
  have d1 : disp lc t l b = .redo t1 l := by
    simp [disp, hs, dEatws, hws, e47, setTop, t1]
  have hd1 : ((rest.length : Int) ≥ (t.maxDepth : Int) - 1) := by omega
  have d2 : disp lc t1 l b = .err .depth t1 l := by
    rcases hsv with h1 | h1 | h1 <;> subst h1 <;> simp [disp, t1, dArray, e93, pushLevel, hd1]
  have hf : feed lc t l b = .err .depth t1 l := by
    rw [feed_redo lc t l b t1 l hwf d1]
    exact feed_of_disp lc t1 l b _ d2 (fun _ _ h => by cases h)
  have hpk : peek t l b = some l := by simp [peek, hv.validate]
  simp only [run, hpk, hf]
  refine ⟨rfl, rfl, h0, ?_, hv⟩
  rcases hsv with h1 | h1 | h1 <;> subst h1 <;> simp [topState, t1]

/-- the induction goal: if some value of `d` is enclosed by `maxDepth` containers, the run stops with
the nesting error at the offset `firstDeep` names -/
def DocRej (lc : Libc) (d : Doc) : Prop :=
  ∀ (t : Tok) (l : Loc) (cur : JVal) (rest : List Level), WF t → t.stack = ⟨.eatws, .start, cur, none⟩ :: rest →
    NoVal t → t.hs = 0 → l.num = none → d.ok = true → (t.strict = true → d.intsFit = true) → d.keysNulFree = true →
    ∀ (off k : Nat), Doc.firstDeep t.maxDepth rest.length d off = some k →
    ∀ (c : UInt8) (rs : Bytes), DepthStop (run lc t l c off (d.text ++ rs)) k

theorem wf_depth {t : Tok} {top : Level} {rest : List Level} (h : WF t) (hs : t.stack = top :: rest) :
    rest.length + 1 ≤ t.maxDepth := by
  obtain ⟨top0, rest0, hs0, hd, _⟩ := h.ex
  rw [hs] at hs0; cases hs0; exact hd

/-- scalars have no nested value -/
theorem scalar_rej (lc : Libc) (d : Doc) (hsc : ∀ limit depth off, depth < limit → Doc.firstDeep limit depth d off = none) :
    DocRej lc d := by
  intro t l cur rest hwf hs _ _ _ _ _ _ off k hk
  have := wf_depth hwf hs
  rw [hsc _ _ _ (by omega)] at hk
  cases hk

end JsonC.Tokener
