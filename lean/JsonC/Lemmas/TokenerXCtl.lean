/-
  Raw control characters (bytes 0x01 .. 0x1f) inside strings and member names (C16): json-c takes
  them as ordinary bytes when JSON_TOKENER_STRICT is off and answers `json_tokener_error_parse_string`
  when it is on.  The item-by-item lemmas of TokenerDoc3 / TokenerQStr are for RFC 8259 items
  (`StrItem.ok`: raw bytes ≥ 0x20); here they are extended to the items of `Rfc8259X.itemOkX`.

    * default mode: `parsed_qstring_x`, `reaches_qname_x` (either quote character);
    * strict mode: `strict_ctl_string_err`, `strict_ctl_name_err` (double quotes; a single quote is
      already a syntax error where the string starts, see `sq_value_err` / `sq_name_err`).
-/
import JsonC.Lemmas.TokenerQStr
import JsonC.Lemmas.TokenerErrStop
namespace JsonC.Tokener
open JsonC Rfc8259 Rfc8259X

/-! ### the specification's side conditions -/

/-- a raw byte allowed by `itemOkX`: not NUL, not the double quote, not the backslash -/
theorem raw_okX_facts (b : UInt8) (h : itemOkX (.raw b) = true) : b ≠ 0 ∧ b ≠ 34 ∧ b ≠ 92 := by
  simp only [itemOkX, StrItem.ok, Bool.or_eq_true, Bool.and_eq_true, decide_eq_true_eq, bne_iff_ne] at h
  rcases h with ⟨⟨h1, h2⟩, h3⟩ | ⟨h1, h2⟩
  · refine ⟨?_, h2, h3⟩
    intro h; subst h; exact absurd h1 (by decide)
  · refine ⟨h1, ?_, ?_⟩ <;> (intro h; subst h; exact absurd h2 (by decide))

/-- a raw byte allowed by `itemOkX` but not by RFC 8259 is a control character -/
theorem raw_bad_facts (b : UInt8) (h : itemOkX (.raw b) = true) (hbad : (StrItem.raw b).ok = false) :
    b ≠ 0 ∧ b ≠ 34 ∧ b ≠ 92 ∧ b ≤ 0x1f := by
  obtain ⟨h0, h34, h92⟩ := raw_okX_facts b h
  refine ⟨h0, h34, h92, ?_⟩
  simp only [itemOkX, hbad, Bool.false_or, Bool.and_eq_true, decide_eq_true_eq] at h
  have := UInt8.lt_iff_toNat_lt.mp h.2
  rw [UInt8.le_iff_toNat_le]
  simp at this ⊢
  omega

theorem itemOkX_of_ok (i : StrItem) (h : i.ok = true) : itemOkX i = true := by
  cases i <;> simp [itemOkX, h]

/-- an item allowed between single quotes when extensions are allowed -/
def sqItemOkX (i : StrItem) : Prop := itemOkX i = true ∧ i ≠ .raw 39

theorem itemsOkX_dq (items : List StrItem) (h : itemsOkX .dq items = true) : ∀ i ∈ items, itemOkX i = true := by
  intro i hi
  simp only [itemsOkX, List.all_eq_true, Bool.and_eq_true] at h
  exact (h i hi).1

theorem itemsOkX_sq (items : List StrItem) (h : itemsOkX .sq items = true) : ∀ i ∈ items, sqItemOkX i := by
  intro i hi
  simp only [itemsOkX, List.all_eq_true, Bool.and_eq_true] at h
  exact ⟨(h i hi).1, by simpa using (h i hi).2⟩

/-- the first item that is not an RFC 8259 item -/
theorem split_first_bad : ∀ (items : List StrItem), items.all StrItem.ok = false →
    ∃ pre i post, items = pre ++ i :: post ∧ (∀ j ∈ pre, j.ok = true) ∧ i.ok = false
  | [], h => by simp at h
  | i :: r, h => by
    cases hi : i.ok with
    | false => exact ⟨[], i, r, rfl, (by simp), hi⟩
    | true =>
      have hr : r.all StrItem.ok = false := by simpa [hi] using h
      obtain ⟨pre, j, post, e, hp, hj⟩ := split_first_bad r hr
      refine ⟨i :: pre, j, post, (by simp [e]), ?_, hj⟩
      intro k hk
      rcases List.mem_cons.mp hk with rfl | hk
      · exact hi
      · exact hp k hk

/-! ### default mode: one raw byte (control characters included) -/

section
variable (lc : Libc) (t0 t : Tok) (l : Loc) (sst : St) (hsst : IsStrState sst) (cur : JVal) (nm : Option Bytes)
  (rest : List Level) (acc : Bytes) (hv : NoVal t0) (hns : t0.strict = false)

include hv hsst hns

theorem x_item_raw_none (s : StrSt t0 t sst cur nm rest none acc) (b : UInt8) (hb : itemOkX (.raw b) = true) :
    ∃ t', StrSt t0 t' sst cur nm rest none (acc ++ [b]) ∧ Reaches lc t l [b] t' l := by
  obtain ⟨⟨sv, hst⟩, hhs⟩ := s.st
  obtain ⟨hb0, hb34, hb92⟩ := raw_okX_facts b hb
  have hstr : t.flags &&& Generated.tokenerStrict = 0 := by rw [s.fl]; simpa [Tok.strict] using hns
  refine ⟨{ t with pb := t.pb ++ [b] }, ⟨s.md, s.fl, by simp [s.pb], s.q, ⟨⟨sv, hst⟩, hhs⟩⟩, ?_⟩
  apply reaches_one lc t l b _ l (s.noVal hv).validate hb0
  apply feed_of_disp
  · have hq : (b == t.quote) = false := by rw [s.q]; simpa using hb34
    have h92 : (b == 92) = false := by simpa using hb92
    rcases hsst with h | h <;> subst h <;> simp [disp, hst, dString, dObjectField, hq, h92, Tok.strict, hstr]
  · intro t' l' h; cases h

theorem x_item_raw_some (hi : Nat) (s : StrSt t0 t sst cur nm rest (some hi) acc) (b : UInt8)
    (hb : itemOkX (.raw b) = true) :
    ∃ t', StrSt t0 t' sst cur nm rest none (acc ++ (Rfc8259.replacement ++ [b])) ∧ Reaches lc t l [b] t' l := by
  obtain ⟨hst, hhs, hhi, hsp, hucs⟩ := s.st
  obtain ⟨hb0, hb34, hb92⟩ := raw_okX_facts b hb
  have hstr : t.flags &&& Generated.tokenerStrict = 0 := by rw [s.fl]; simpa [Tok.strict] using hns
  have hq' : (b == 34) = false := by simpa using hb34
  have h92 : (b == 92) = false := by simpa using hb92
  have h92' : (b != 92) = true := by simp [bne, h92]
  refine ⟨{ t with stack := ⟨sst, sst, cur, nm⟩ :: rest, pb := t.pb ++ replacement ++ [b], hs := 0, ucs := 0, stPos := 0 },
    ⟨s.md, s.fl, by simp [s.pb, replacement, Rfc8259.replacement], s.q, ⟨⟨sst, rfl⟩, rfl⟩⟩, ?_⟩
  apply reaches_one lc t l b _ l (s.noVal hv).validate hb0
  rcases hsst with h | h <;> subst h <;>
    simp [feed, fuel, feedN, disp, hst, dNeedEscape, dString, dObjectField, setTop, h92, h92', hq', s.q, Tok.strict, hstr]

theorem x_item_reach (pend : Option Nat) (s : StrSt t0 t sst cur nm rest pend acc) (i : StrItem) (hi : itemOkX i = true) :
    ∃ t', StrSt t0 t' sst cur nm rest (itemStep pend i).1 (acc ++ (itemStep pend i).2) ∧ Reaches lc t l i.text t' l := by
  cases i with
  | raw b =>
    cases pend with
    | none => exact x_item_raw_none lc t0 t l sst hsst cur nm rest acc hv hns s b hi
    | some h => exact x_item_raw_some lc t0 t l sst hsst cur nm rest acc hv hns h s b hi
  | esc e => exact item_reach lc t0 t l sst hsst cur nm rest acc hv pend s (.esc e) rfl
  | u a b c d => exact item_reach lc t0 t l sst hsst cur nm rest acc hv pend s (.u a b c d) hi

theorem x_items_reach : ∀ (items : List StrItem) (pend : Option Nat) (t : Tok) (acc : Bytes),
    StrSt t0 t sst cur nm rest pend acc → (∀ i ∈ items, itemOkX i = true) →
    ∃ t', StrSt t0 t' sst cur nm rest (itemsFold pend items).1 (acc ++ (itemsFold pend items).2) ∧
      Reaches lc t l (items.flatMap StrItem.text) t' l := by
  intro items
  induction items with
  | nil => intro pend t acc s _; exact ⟨t, by simpa [itemsFold] using s, by simpa using Reaches.refl lc t l⟩
  | cons i r ih =>
    intro pend t acc s hok
    obtain ⟨t1, s1, r1⟩ := x_item_reach lc t0 t l sst hsst cur nm rest acc hv hns pend s i (hok i (by simp))
    obtain ⟨t2, s2, r2⟩ := ih (itemStep pend i).1 t1 _ s1 (fun j hj => hok j (by simp [hj]))
    refine ⟨t2, ?_, by simpa using Reaches.trans r1 r2⟩
    simpa [itemsFold, List.append_assoc] using s2

/-! ### the same between single quotes -/

theorem xsq_item_raw_none (s : SqSt t0 t sst cur nm rest none acc) (b : UInt8) (hb : itemOkX (.raw b) = true)
    (hb39 : b ≠ 39) :
    ∃ t', SqSt t0 t' sst cur nm rest none (acc ++ [b]) ∧ Reaches lc t l [b] t' l := by
  obtain ⟨⟨sv, hst⟩, hhs⟩ := s.st
  obtain ⟨hb0, hb34, hb92⟩ := raw_okX_facts b hb
  have hstr : t.flags &&& Generated.tokenerStrict = 0 := by rw [s.fl]; simpa [Tok.strict] using hns
  refine ⟨{ t with pb := t.pb ++ [b] }, ⟨s.md, s.fl, by simp [s.pb], s.q, ⟨⟨sv, hst⟩, hhs⟩⟩, ?_⟩
  apply reaches_one lc t l b _ l (s.noVal hv).validate hb0
  apply feed_of_disp
  · have hq : (b == t.quote) = false := by rw [s.q]; simpa using hb39
    have h92 : (b == 92) = false := by simpa using hb92
    rcases hsst with h | h <;> subst h <;> simp [disp, hst, dString, dObjectField, hq, h92, Tok.strict, hstr]
  · intro t' l' h; cases h

theorem xsq_item_raw_some (hi : Nat) (s : SqSt t0 t sst cur nm rest (some hi) acc) (b : UInt8)
    (hb : itemOkX (.raw b) = true) (hb39 : b ≠ 39) :
    ∃ t', SqSt t0 t' sst cur nm rest none (acc ++ (Rfc8259.replacement ++ [b])) ∧ Reaches lc t l [b] t' l := by
  obtain ⟨hst, hhs, hhi, hsp, hucs⟩ := s.st
  obtain ⟨hb0, hb34, hb92⟩ := raw_okX_facts b hb
  have hstr : t.flags &&& Generated.tokenerStrict = 0 := by rw [s.fl]; simpa [Tok.strict] using hns
  have hq' : (b == 39) = false := by simpa using hb39
  have h92 : (b == 92) = false := by simpa using hb92
  have h92' : (b != 92) = true := by simp [bne, h92]
  refine ⟨{ t with stack := ⟨sst, sst, cur, nm⟩ :: rest, pb := t.pb ++ replacement ++ [b], hs := 0, ucs := 0, stPos := 0 },
    ⟨s.md, s.fl, by simp [s.pb, replacement, Rfc8259.replacement], s.q, ⟨⟨sst, rfl⟩, rfl⟩⟩, ?_⟩
  apply reaches_one lc t l b _ l (s.noVal hv).validate hb0
  rcases hsst with h | h <;> subst h <;>
    simp [feed, fuel, feedN, disp, hst, dNeedEscape, dString, dObjectField, setTop, h92, h92', hq', s.q, Tok.strict, hstr]

theorem xsq_item_reach (pend : Option Nat) (s : SqSt t0 t sst cur nm rest pend acc) (i : StrItem) (hi : sqItemOkX i) :
    ∃ t', SqSt t0 t' sst cur nm rest (itemStep pend i).1 (acc ++ (itemStep pend i).2) ∧ Reaches lc t l i.text t' l := by
  obtain ⟨hi, hne⟩ := hi
  cases i with
  | raw b =>
    have hb39 : b ≠ 39 := fun h => hne (by rw [h])
    cases pend with
    | none => exact xsq_item_raw_none lc t0 t l sst hsst cur nm rest acc hv hns s b hi hb39
    | some h => exact xsq_item_raw_some lc t0 t l sst hsst cur nm rest acc hv hns h s b hi hb39
  | esc e => exact sq_item_reach lc t0 t l sst hsst cur nm rest acc hv pend s (.esc e) ⟨rfl, by simp⟩
  | u a b c d => exact sq_item_reach lc t0 t l sst hsst cur nm rest acc hv pend s (.u a b c d) ⟨hi, by simp⟩

theorem xsq_items_reach : ∀ (items : List StrItem) (pend : Option Nat) (t : Tok) (acc : Bytes),
    SqSt t0 t sst cur nm rest pend acc → (∀ i ∈ items, sqItemOkX i) →
    ∃ t', SqSt t0 t' sst cur nm rest (itemsFold pend items).1 (acc ++ (itemsFold pend items).2) ∧
      Reaches lc t l (items.flatMap StrItem.text) t' l := by
  intro items
  induction items with
  | nil => intro pend t acc s _; exact ⟨t, by simpa [itemsFold] using s, by simpa using Reaches.refl lc t l⟩
  | cons i r ih =>
    intro pend t acc s hok
    obtain ⟨t1, s1, r1⟩ := xsq_item_reach lc t0 t l sst hsst cur nm rest acc hv hns pend s i (hok i (by simp))
    obtain ⟨t2, s2, r2⟩ := ih (itemStep pend i).1 t1 _ s1 (fun j hj => hok j (by simp [hj]))
    refine ⟨t2, ?_, by simpa using Reaches.trans r1 r2⟩
    simpa [itemsFold, List.append_assoc] using s2

end

/-! ### default mode: whole strings and member names -/

theorem decode_fold_nil (items : List StrItem) :
    [] ++ (itemsFold none items).2 ++ flush (itemsFold none items).1 = decodeItems items := by
  rw [decode_eq_fold]; simp

/-- the opening double quote where a value starts (either mode) -/
theorem open_dq_string (lc : Libc) (t : Tok) (l : Loc) (cur : JVal) (nm : Option Bytes) (rest : List Level)
    (hs : t.stack = ⟨.eatws, .start, cur, nm⟩ :: rest) (hv : NoVal t) (hhs : t.hs = 0) :
    ∃ t1, StrSt t t1 .string cur nm rest none [] ∧ Reaches lc t l [34] t1 l := by
  have hv' := hv; unfold NoVal at hv'
  refine ⟨{ t with stack := ⟨.string, .start, cur, nm⟩ :: rest, pb := [], quote := 34 },
    ⟨rfl, rfl, rfl, rfl, ⟨⟨.start, rfl⟩, hhs⟩⟩, ?_⟩
  intro c off rs
  simp [run, peek, hv', feed, fuel, feedN, disp, hs, dEatws, dStart, isWs, setTop, lastOr, Tok.validateUtf8]

/-- the opening double quote where a member name starts (either mode) -/
theorem open_dq_name (lc : Libc) (t : Tok) (l : Loc) (st : St) (hst : st = .objectFieldStart ∨ st = .objectFieldStartAfterSep)
    (cur : JVal) (nm : Option Bytes) (rest : List Level)
    (hs : t.stack = ⟨.eatws, st, cur, nm⟩ :: rest) (hv : NoVal t) (hhs : t.hs = 0) :
    ∃ t1, StrSt t t1 .objectField cur nm rest none [] ∧ Reaches lc t l [34] t1 l := by
  have hv' := hv; unfold NoVal at hv'
  refine ⟨{ t with stack := ⟨.objectField, st, cur, nm⟩ :: rest, pb := [], quote := 34 },
    ⟨rfl, rfl, rfl, rfl, ⟨⟨st, rfl⟩, hhs⟩⟩, ?_⟩
  intro c off rs
  rcases hst with h | h <;> subst h <;>
    simp [run, peek, hv', feed, fuel, feedN, disp, hs, dEatws, dObjectFieldStart, isWs, setTop, lastOr, Tok.validateUtf8]

/-- a string value between either kind of quotes, raw control characters allowed, JSON_TOKENER_STRICT off -/
theorem parsed_qstring_x (lc : Libc) (t : Tok) (l : Loc) (cur : JVal) (nm : Option Bytes) (rest : List Level)
    (hwf : WF t) (hs : t.stack = ⟨.eatws, .start, cur, nm⟩ :: rest) (hv : NoVal t) (hhs : t.hs = 0) (hl0 : l.num = none)
    (hns : t.strict = false) (q : Quote) (items : List StrItem) (hok : itemsOkX q items = true) :
    Parsed lc t l (qText q items) (.str (decodeItems items)) nm rest := by
  cases q with
  | dq =>
    obtain ⟨t1, s1, h1⟩ := open_dq_string lc t l cur nm rest hs hv hhs
    obtain ⟨t2, s2, h2⟩ := x_items_reach lc t l .string isStr_string cur nm rest hv hns items none t1 [] s1
      (itemsOkX_dq items hok)
    obtain ⟨t3, hs3, f3, h3⟩ := close_string lc t t2 l .string isStr_string cur nm rest _ hv _ s2
    rw [decode_fold_nil] at hs3
    apply parsed_of_reaches lc t l _ _ nm rest _ hwf hs t3 hs3 f3 hl0
    have := Reaches.trans (Reaches.trans h1 h2) h3
    simpa [qText, Quote.byte] using this
  | sq =>
    have hv' := hv; unfold NoVal at hv'
    have hstr : t.flags &&& Generated.tokenerStrict = 0 := by simpa [Tok.strict] using hns
    let t1 : Tok := { t with stack := ⟨.string, .start, cur, nm⟩ :: rest, pb := [], quote := 39 }
    have h1 : Reaches lc t l [39] t1 l := by
      intro c off rs
      simp [run, peek, hv', feed, fuel, feedN, disp, hs, dEatws, dStart, isWs, setTop, lastOr, Tok.validateUtf8, t1, Tok.strict, hstr]
    have s1 : SqSt t t1 .string cur nm rest none [] := ⟨rfl, rfl, rfl, rfl, ⟨⟨.start, rfl⟩, hhs⟩⟩
    obtain ⟨t2, s2, h2⟩ := xsq_items_reach lc t l .string isStr_string cur nm rest hv hns items none t1 [] s1
      (itemsOkX_sq items hok)
    obtain ⟨t3, hs3, f3, h3⟩ := sq_close_string lc t t2 l cur nm rest _ hv _ s2
    rw [decode_fold_nil] at hs3
    apply parsed_of_reaches lc t l _ _ nm rest _ hwf hs t3 hs3 f3 hl0
    have := Reaches.trans (Reaches.trans h1 h2) h3
    simpa [qText, Quote.byte] using this

/-- a member name between either kind of quotes, raw control characters allowed, JSON_TOKENER_STRICT off -/
theorem reaches_qname_x (lc : Libc) (t : Tok) (l : Loc) (st : St) (hst : st = .objectFieldStart ∨ st = .objectFieldStartAfterSep)
    (cur : JVal) (nm : Option Bytes) (rest : List Level)
    (hs : t.stack = ⟨.eatws, st, cur, nm⟩ :: rest) (hv : NoVal t) (hhs : t.hs = 0) (hns : t.strict = false)
    (q : Quote) (items : List StrItem) (hok : itemsOkX q items = true) :
    ∃ t', t'.stack = ⟨.eatws, .objectFieldEnd, cur, some (cstr (decodeItems items))⟩ :: rest ∧ Frm t t' ∧
      Reaches lc t l (qText q items) t' l := by
  cases q with
  | dq =>
    obtain ⟨t1, s1, h1⟩ := open_dq_name lc t l st hst cur nm rest hs hv hhs
    obtain ⟨t2, s2, h2⟩ := x_items_reach lc t l .objectField isStr_field cur nm rest hv hns items none t1 [] s1
      (itemsOkX_dq items hok)
    obtain ⟨t3, hs3, f3, h3⟩ := close_name lc t t2 l .objectField isStr_field cur nm rest _ hv _ s2
    rw [decode_fold_nil] at hs3
    refine ⟨t3, hs3, f3, ?_⟩
    have := Reaches.trans (Reaches.trans h1 h2) h3
    simpa [qText, Quote.byte] using this
  | sq =>
    have hv' := hv; unfold NoVal at hv'
    have hstr : t.flags &&& Generated.tokenerStrict = 0 := by simpa [Tok.strict] using hns
    let t1 : Tok := { t with stack := ⟨.objectField, st, cur, nm⟩ :: rest, pb := [], quote := 39 }
    have h1 : Reaches lc t l [39] t1 l := by
      intro c off rs
      rcases hst with h | h <;> subst h <;>
        simp [run, peek, hv', feed, fuel, feedN, disp, hs, dEatws, dObjectFieldStart, isWs, setTop, lastOr, Tok.validateUtf8,
          t1, Tok.strict, hstr]
    have s1 : SqSt t t1 .objectField cur nm rest none [] := ⟨rfl, rfl, rfl, rfl, ⟨⟨st, rfl⟩, hhs⟩⟩
    obtain ⟨t2, s2, h2⟩ := xsq_items_reach lc t l .objectField isStr_field cur nm rest hv hns items none t1 [] s1
      (itemsOkX_sq items hok)
    obtain ⟨t3, hs3, f3, h3⟩ := sq_close_name lc t t2 l cur nm rest _ hv _ s2
    rw [decode_fold_nil] at hs3
    refine ⟨t3, hs3, f3, ?_⟩
    have := Reaches.trans (Reaches.trans h1 h2) h3
    simpa [qText, Quote.byte] using this

/-! ### strict mode: a raw control character is a syntax error -/

/-- inside a double-quoted string or member name, strict mode: a control character is answered with
`json_tokener_error_parse_string`, directly or (a high surrogate pending) after the `need_escape` redo -/
theorem strict_ctl_step (lc : Libc) (t0 t : Tok) (l : Loc) (sst : St) (hsst : IsStrState sst) (cur : JVal) (nm : Option Bytes)
    (rest : List Level) (acc : Bytes) (hst : t0.strict = true) (pend : Option Nat)
    (s : StrSt t0 t sst cur nm rest pend acc) (b : UInt8) (hb34 : b ≠ 34) (hb92 : b ≠ 92) (hle : b ≤ 0x1f) :
    (feed lc t l b).isErr = true := by
  have hstr : ¬ t.flags &&& Generated.tokenerStrict = 0 := by rw [s.fl]; simpa [Tok.strict] using hst
  have hq : (b == t.quote) = false := by rw [s.q]; simpa using hb34
  have hq' : (b == 34) = false := by simpa using hb34
  have h92 : (b == 92) = false := by simpa using hb92
  have h92' : (b != 92) = true := by simp [bne, h92]
  cases pend with
  | none =>
    obtain ⟨⟨sv, hstk⟩, hhs⟩ := s.st
    rcases hsst with h | h <;> subst h <;>
      simp [feed, fuel, feedN, disp, hstk, dString, dObjectField, hq, h92, Tok.strict, hstr, hle, Act.isErr]
  | some hi =>
    obtain ⟨hstk, hhs, hhi, hsp, hucs⟩ := s.st
    rcases hsst with h | h <;> subst h <;>
      simp [feed, fuel, feedN, disp, hstk, dNeedEscape, dString, dObjectField, setTop, hq', h92, h92', s.q, Tok.strict,
        hstr, hle, Act.isErr]

/-- the text of a string whose first non-RFC item is the raw byte `b` -/
theorem qText_split (pre post : List StrItem) (b : UInt8) (rs : Bytes) :
    qText .dq (pre ++ .raw b :: post) ++ rs =
      ([34] ++ pre.flatMap StrItem.text) ++ (b :: (post.flatMap StrItem.text ++ [34] ++ rs)) := by
  simp [qText, Quote.byte, StrItem.text]

/-- the first item that is not an RFC 8259 item, in a list of `itemOkX` items, is a raw control character -/
theorem split_first_ctl (items : List StrItem) (hok : itemsOkX .dq items = true) (hbad : items.all StrItem.ok = false) :
    ∃ pre b post, items = pre ++ .raw b :: post ∧ (∀ j ∈ pre, j.ok = true) ∧ b ≠ 34 ∧ b ≠ 92 ∧ b ≤ 0x1f := by
  obtain ⟨pre, i, post, e, hpre, hi⟩ := split_first_bad items hbad
  have hix : itemOkX i = true := itemsOkX_dq items hok i (by rw [e]; simp)
  cases i with
  | raw b =>
    obtain ⟨_, h34, h92, hle⟩ := raw_bad_facts b hix hi
    exact ⟨pre, b, post, e, hpre, h34, h92, hle⟩
  | esc e => simp [StrItem.ok] at hi
  | u a b c d => simp only [itemOkX] at hix; rw [hix] at hi; cases hi

/-- strict mode: a double-quoted string value with a raw control character is a syntax error -/
theorem strict_ctl_string_err (lc : Libc) (t : Tok) (l : Loc) (hwf : WF t) (hv : NoVal t) (hhs : t.hs = 0) (hst : t.strict = true)
    (cur : JVal) (nm : Option Bytes) (rest : List Level) (hs : t.stack = ⟨.eatws, .start, cur, nm⟩ :: rest)
    (items : List StrItem) (hok : itemsOkX .dq items = true) (hbad : items.all StrItem.ok = false) :
    ∀ (c : UInt8) (off : Nat) (rs : Bytes), ErrStop (run lc t l c off (qText .dq items ++ rs)) := by
  intro c off rs
  have _ := hwf
  obtain ⟨pre, b, post, e, hpre, h34, h92, hle⟩ := split_first_ctl items hok hbad
  obtain ⟨t1, s1, h1⟩ := open_dq_string lc t l cur nm rest hs hv hhs
  obtain ⟨t2, s2, h2⟩ := items_reach lc t l .string isStr_string cur nm rest hv pre none t1 [] s1 hpre
  rw [e, qText_split, Reaches.trans h1 h2 c off _]
  exact run_err_of_isErr lc t2 l (s2.noVal hv) b
    (strict_ctl_step lc t t2 l .string isStr_string cur nm rest _ hst _ s2 b h34 h92 hle) _ _ _

/-- strict mode: a double-quoted member name with a raw control character is a syntax error -/
theorem strict_ctl_name_err (lc : Libc) (t : Tok) (l : Loc) (hwf : WF t) (hv : NoVal t) (hhs : t.hs = 0) (hst : t.strict = true)
    (st : St) (hsv : st = .objectFieldStart ∨ st = .objectFieldStartAfterSep)
    (cur : JVal) (nm : Option Bytes) (rest : List Level) (hs : t.stack = ⟨.eatws, st, cur, nm⟩ :: rest)
    (items : List StrItem) (hok : itemsOkX .dq items = true) (hbad : items.all StrItem.ok = false) :
    ∀ (c : UInt8) (off : Nat) (rs : Bytes), ErrStop (run lc t l c off (qText .dq items ++ rs)) := by
  intro c off rs
  have _ := hwf
  obtain ⟨pre, b, post, e, hpre, h34, h92, hle⟩ := split_first_ctl items hok hbad
  obtain ⟨t1, s1, h1⟩ := open_dq_name lc t l st hsv cur nm rest hs hv hhs
  obtain ⟨t2, s2, h2⟩ := items_reach lc t l .objectField isStr_field cur nm rest hv pre none t1 [] s1 hpre
  rw [e, qText_split, Reaches.trans h1 h2 c off _]
  exact run_err_of_isErr lc t2 l (s2.noVal hv) b
    (strict_ctl_step lc t t2 l .objectField isStr_field cur nm rest _ hst _ s2 b h34 h92 hle) _ _ _

end JsonC.Tokener
