/-
  Helper lemmas for C06: every way of walking the entry list (lh_foreach, lh_table_free, the
  foreach / foreachC macros, the iterator API) and the foreach macro whose body deletes the
  current key.
-/
import JsonC.Lemmas.LinkhashResize

namespace JsonC.Linkhash
open JsonC Generated

variable {K V : Type}

/-- key, k_is_constant and value of slot `i` as free_fn sees them -/
def fullAt (t : Table K V) (i : Nat) : Option (K × Bool × V) :=
  match t.slots[i]? with
  | some (.live k v c) => some (k, c, v)
  | _ => none

theorem fullAt_live (t : Table K V) (i : Nat) (k : K) (v : V) (c : Bool) (h : t.slots[i]? = some (Slot.live k v c)) :
    fullAt t i = some (k, c, v) := by
  unfold fullAt; rw [h]

theorem map_fullAt (t : Table K V) (l : List Nat) :
    (l.filterMap (fullAt t)).map (fun e => (e.1, e.2.2)) = l.filterMap (entryAt t) := by
  induction l with
  | nil => rfl
  | cons a rest ih =>
    simp only [List.filterMap_cons]
    cases hs : t.slots[a]? with
    | none => simp [fullAt, entryAt, hs, ih]
    | some s =>
      cases s with
      | empty => simp [fullAt, entryAt, hs, ih]
      | freed => simp [fullAt, entryAt, hs, ih]
      | live k v c => simp [fullAt, entryAt, hs, ih]

/-- the facts every walk needs at an entry `e` of the list -/
theorem step_facts (hash : K → Nat) (t : Table K V) (done rest : List Nat) (e : Nat)
    (h : Inv hash t (done ++ e :: rest)) :
    (∃ k v c, t.slots[e]? = some (Slot.live k v c)) ∧ t.next[e]? = some rest.head? := by
  have heo : e ∈ done ++ e :: rest := by simp
  refine ⟨(h.live_iff e).mp heo, ?_⟩
  rw [h.next_eq e (h.mem_lt heo), succOf_append_cons done rest e h.nodup]

theorem walk_spec (hash : K → Nat) (t : Table K V) :
    ∀ (rest done : List Nat) (fuel : Nat), Inv hash t (done ++ rest) → rest.length < fuel →
      walk t fuel rest.head? = .ok (rest.filterMap (fullAt t)) := by
  intro rest
  induction rest with
  | nil =>
    intro done fuel _ hf
    cases fuel with
    | zero => simp at hf
    | succ fuel => rfl
  | cons e rest ih =>
    intro done fuel h hf
    cases fuel with
    | zero => simp at hf
    | succ fuel =>
      obtain ⟨⟨k, v, c, hs⟩, hnx⟩ := step_facts hash t done rest e h
      have h' : Inv hash t ((done ++ [e]) ++ rest) := by rw [List.append_assoc]; exact h
      have := ih (done ++ [e]) fuel h' (by simp at hf; omega)
      simp only [List.head?_cons, walk, hs, hnx, this, List.filterMap_cons, fullAt_live t e k v c hs]

/-- lh_foreach sees the abstraction -/
theorem toList_spec (hash : K → Nat) (t : Table K V) (o : List Nat) (h : Inv hash t o) :
    toList t = .ok (absOf t o) := by
  unfold toList
  rw [h.head_eq, walk_spec hash t o [] (t.slots.length + 1) (by simpa using h)
    (by rw [h.len_slots]; have := h.count_le; omega)]
  dsimp only
  rw [map_fullAt]; rfl

/-- lh_table_free hands every entry to free_fn exactly once, in list order -/
theorem free_spec (hash : K → Nat) (t : Table K V) (o : List Nat) (h : Inv hash t o) :
    free t = .ok (o.filterMap (fullAt t)) := by
  unfold free
  rw [h.head_eq, walk_spec hash t o [] (t.slots.length + 1) (by simpa using h)
    (by rw [h.len_slots]; have := h.count_le; omega)]

theorem foreachN_keep_spec (hash : K → Nat) (t : Table K V) :
    ∀ (rest done : List Nat) (fuel : Nat), Inv hash t (done ++ rest) → rest.length < fuel →
      foreachN keep fuel t rest.head? = .ok (t, absOf t rest) := by
  intro rest
  induction rest with
  | nil =>
    intro done fuel _ hf
    cases fuel with
    | zero => simp at hf
    | succ fuel => rfl
  | cons e rest ih =>
    intro done fuel h hf
    cases fuel with
    | zero => simp at hf
    | succ fuel =>
      obtain ⟨⟨k, v, c, hs⟩, hnx⟩ := step_facts hash t done rest e h
      have h' : Inv hash t ((done ++ [e]) ++ rest) := by rw [List.append_assoc]; exact h
      have := ih (done ++ [e]) fuel h' (by simp at hf; omega)
      simp only [List.head?_cons, foreachN, hs, hnx, keep, this, absOf, List.filterMap_cons, entryAt_live t e k v c hs]

theorem foreachCN_keep_spec (hash : K → Nat) (t : Table K V) :
    ∀ (rest done : List Nat) (fuel : Nat), Inv hash t (done ++ rest) → rest.length < fuel →
      foreachCN keep fuel t rest.head? = .ok (t, absOf t rest) := by
  intro rest
  induction rest with
  | nil =>
    intro done fuel _ hf
    cases fuel with
    | zero => simp at hf
    | succ fuel => rfl
  | cons e rest ih =>
    intro done fuel h hf
    cases fuel with
    | zero => simp at hf
    | succ fuel =>
      obtain ⟨⟨k, v, c, hs⟩, hnx⟩ := step_facts hash t done rest e h
      have h' : Inv hash t ((done ++ [e]) ++ rest) := by rw [List.append_assoc]; exact h
      have := ih (done ++ [e]) fuel h' (by simp at hf; omega)
      simp only [List.head?_cons, foreachCN, hs, hnx, keep, this, absOf, List.filterMap_cons, entryAt_live t e k v c hs]

theorem iterCollectN_spec (hash : K → Nat) (t : Table K V) :
    ∀ (rest done : List Nat) (fuel : Nat), Inv hash t (done ++ rest) → rest.length < fuel →
      iterCollectN t fuel rest.head? = .ok (absOf t rest) := by
  intro rest
  induction rest with
  | nil =>
    intro done fuel _ hf
    cases fuel with
    | zero => simp at hf
    | succ fuel => simp [iterCollectN, iterEqual, iterEnd, absOf]
  | cons e rest ih =>
    intro done fuel h hf
    cases fuel with
    | zero => simp at hf
    | succ fuel =>
      obtain ⟨⟨k, v, c, hs⟩, hnx⟩ := step_facts hash t done rest e h
      have h' : Inv hash t ((done ++ [e]) ++ rest) := by rw [List.append_assoc]; exact h
      have := ih (done ++ [e]) fuel h' (by simp at hf; omega)
      simp [iterCollectN, iterEqual, iterEnd, iterPeek, iterNext, hs, hnx, this, absOf, entryAt_live t e k v c hs]

/-! ### lh_table_delete and deleting the current key while iterating -/

section
variable [DecidableEq K]

/-- lh_table_delete: an absent key → -1 and nothing changes; a present key → its entry is removed -/
theorem delete_spec (hash : K → Nat) (t : Table K V) (o : List Nat) (h : Inv hash t o) (k : K) :
    ∃ r, delete hash t k = .ok r ∧ r.tags = [] ∧
      (((∀ (p : Nat) (v : V) (c : Bool), t.slots[p]? ≠ some (Slot.live k v c)) ∧ r.ret = -1 ∧ r.t = t ∧ r.freed = []) ∨
       (∃ n v c, t.slots[n]? = some (Slot.live k v c) ∧ r.ret = 0 ∧ r.freed = [(k, c, v)] ∧
          Inv hash r.t (o.erase n) ∧ r.t.size = t.size ∧ r.t.slots = t.slots.set n Slot.freed)) := by
  obtain ⟨r, hr, hsome, hnone⟩ := lookupEntry_spec hash t o h k
  unfold delete
  rw [hr]
  cases r with
  | none => exact ⟨_, rfl, rfl, Or.inl ⟨hnone rfl, rfl, rfl, rfl⟩⟩
  | some n =>
    obtain ⟨_, v, c, hs⟩ := hsome n rfl
    obtain ⟨r', hr', hret, hfreed, htags, hinv, hsz, hslots⟩ := deleteEntry_spec hash t o h n k v c hs
    exact ⟨r', hr', htags, Or.inr ⟨n, v, c, hs, hret, hfreed, hinv, hsz, hslots⟩⟩

theorem erase_append_cons (kept rest : List Nat) (e : Nat) (hn : (kept ++ e :: rest).Nodup) :
    (kept ++ e :: rest).erase e = kept ++ rest := by
  have : e ∉ kept := by
    intro hm
    rw [List.nodup_append] at hn
    exact hn.2.2 e hm e (by simp) rfl
  rw [List.erase_append_right _ this, List.erase_cons_head]

/-- json_object_object_foreach whose body deletes the current key when it is in `ks`: every entry
is visited exactly once, in order, and exactly the entries with a key in `ks` disappear -/
theorem foreachN_del_spec (hash : K → Nat) (ks : List K) :
    ∀ (rest kept : List Nat) (tc : Table K V) (fuel : Nat), Inv hash tc (kept ++ rest) → rest.length < fuel →
      ∃ tf o', foreachN (delIfIn hash ks) fuel tc rest.head? = .ok (tf, absOf tc rest) ∧
        Inv hash tf (kept ++ o') ∧ tf.size = tc.size ∧
        absOf tf (kept ++ o') = absOf tc kept ++ (absOf tc rest).filter (fun p => ¬ p.1 ∈ ks) := by
  intro rest
  induction rest with
  | nil =>
    intro kept tc fuel h hf
    cases fuel with
    | zero => simp at hf
    | succ fuel =>
      refine ⟨tc, [], rfl, h, rfl, ?_⟩
      simp [absOf]
  | cons e rest ih =>
    intro kept tc fuel h hf
    cases fuel with
    | zero => simp at hf
    | succ fuel =>
      obtain ⟨⟨k, v, c, hs⟩, hnx⟩ := step_facts hash tc kept rest e h
      have hnd := h.nodup
      have he_rest : e ∉ rest := by
        rw [List.nodup_append] at hnd
        have := hnd.2.1; rw [List.nodup_cons] at this; exact this.1
      have he_kept : e ∉ kept := by
        intro hm
        rw [List.nodup_append] at hnd
        exact hnd.2.2 e hm e (by simp) rfl
      have hhead : absOf tc (e :: rest) = (k, v) :: absOf tc rest := by
        unfold absOf; simp only [List.filterMap_cons, entryAt_live tc e k v c hs]
      simp only [List.head?_cons, foreachN, hs, hnx]
      by_cases hk : k ∈ ks
      · -- the body deletes the current key
        obtain ⟨r, hr, _, hcase⟩ := delete_spec hash tc (kept ++ e :: rest) h k
        rcases hcase with ⟨habsent, _⟩ | ⟨n, v', c', hs', _, _, hinv', hsz', hslots'⟩
        · exact absurd hs (habsent e v c)
        · have hne : n = e := h.uniq n e k v' c' v c hs' hs
          subst hne
          rw [erase_append_cons kept rest n hnd] at hinv'
          have hbody : delIfIn hash ks tc k v = .ok r.t := by
            unfold delIfIn objectDel
            rw [if_pos hk, hr]
          rw [hbody]
          dsimp only
          obtain ⟨tf, o', hrun, hinvf, hszf, habsf⟩ := ih kept r.t fuel hinv' (by simp at hf; omega)
          have hnl : n < tc.slots.length := (List.getElem?_eq_some_iff.mp hs).1
          have hsame : ∀ i, i ≠ n → r.t.slots[i]? = tc.slots[i]? := by
            intro i hi
            rw [hslots', getElem?_set_freed _ _ _ hnl, if_neg (Ne.symm hi)]
          have e1 : absOf r.t rest = absOf tc rest :=
            absOf_congr tc r.t rest (fun i hi => hsame i (fun e => he_rest (e ▸ hi)))
          have e2 : absOf r.t kept = absOf tc kept :=
            absOf_congr tc r.t kept (fun i hi => hsame i (fun e => he_kept (e ▸ hi)))
          rw [hrun]
          dsimp only
          refine ⟨tf, o', ?_, hinvf, by rw [hszf, hsz'], ?_⟩
          · rw [hhead, e1]
          · rw [habsf, e1, e2, hhead, List.filter_cons, if_neg (by simpa using hk)]
      · -- the body leaves the object alone
        have hbody : delIfIn hash ks tc k v = .ok tc := by
          unfold delIfIn
          rw [if_neg hk]
        rw [hbody]
        dsimp only
        have h' : Inv hash tc ((kept ++ [e]) ++ rest) := by rw [List.append_assoc]; exact h
        obtain ⟨tf, o', hrun, hinvf, hszf, habsf⟩ := ih (kept ++ [e]) tc fuel h' (by simp at hf; omega)
        rw [hrun]
        dsimp only
        refine ⟨tf, e :: o', ?_, ?_, hszf, ?_⟩
        · rw [hhead]
        · have : kept ++ e :: o' = (kept ++ [e]) ++ o' := by simp
          rw [this]; exact hinvf
        · have e3 : kept ++ e :: o' = (kept ++ [e]) ++ o' := by simp
          rw [e3, habsf, hhead, List.filter_cons, if_pos (by simpa using hk)]
          unfold absOf
          rw [List.filterMap_append]
          simp only [List.filterMap_cons, List.filterMap_nil, entryAt_live tc e k v c hs, List.append_assoc,
            List.singleton_append]

/-- what json_object_object_foreachC visits when its body deletes keys of `ks`: it stops after the
first deleted entry (the macro reads the next pointer of the entry it has just unlinked) -/
def takeThrough (ks : List K) : List (K × V) → List (K × V)
  | [] => []
  | p :: l => if p.1 ∈ ks then [p] else p :: takeThrough ks l

def dropFirst (ks : List K) : List (K × V) → List (K × V)
  | [] => []
  | p :: l => if p.1 ∈ ks then l else p :: dropFirst ks l

theorem foreachCN_del_spec (hash : K → Nat) (ks : List K) :
    ∀ (rest kept : List Nat) (tc : Table K V) (fuel : Nat), Inv hash tc (kept ++ rest) → rest.length < fuel →
      ∃ tf o', foreachCN (delIfIn hash ks) fuel tc rest.head? = .ok (tf, takeThrough ks (absOf tc rest)) ∧
        Inv hash tf (kept ++ o') ∧ tf.size = tc.size ∧
        absOf tf (kept ++ o') = absOf tc kept ++ dropFirst ks (absOf tc rest) := by
  intro rest
  induction rest with
  | nil =>
    intro kept tc fuel h hf
    cases fuel with
    | zero => simp at hf
    | succ fuel =>
      refine ⟨tc, [], rfl, h, rfl, ?_⟩
      simp [absOf, dropFirst]
  | cons e rest ih =>
    intro kept tc fuel h hf
    cases fuel with
    | zero => simp at hf
    | succ fuel =>
      obtain ⟨⟨k, v, c, hs⟩, hnx⟩ := step_facts hash tc kept rest e h
      have hnd := h.nodup
      have he_rest : e ∉ rest := by
        rw [List.nodup_append] at hnd
        have := hnd.2.1; rw [List.nodup_cons] at this; exact this.1
      have he_kept : e ∉ kept := by
        intro hm
        rw [List.nodup_append] at hnd
        exact hnd.2.2 e hm e (by simp) rfl
      have hhead : absOf tc (e :: rest) = (k, v) :: absOf tc rest := by
        unfold absOf; simp only [List.filterMap_cons, entryAt_live tc e k v c hs]
      have hes : e < tc.size := h.mem_lt (by simp)
      simp only [List.head?_cons, foreachCN, hs]
      by_cases hk : k ∈ ks
      · obtain ⟨r, hr, _, hcase⟩ := delete_spec hash tc (kept ++ e :: rest) h k
        rcases hcase with ⟨habsent, _⟩ | ⟨n, v', c', hs', _, _, hinv', hsz', hslots'⟩
        · exact absurd hs (habsent e v c)
        · have hne : n = e := h.uniq n e k v' c' v c hs' hs
          subst hne
          rw [erase_append_cons kept rest n hnd] at hinv'
          have hbody : delIfIn hash ks tc k v = .ok r.t := by
            unfold delIfIn objectDel
            rw [if_pos hk, hr]
          rw [hbody]
          dsimp only
          -- the unlinked entry's next pointer is NULL
          have hnone : r.t.next[n]? = some none := by
            rw [hinv'.next_eq n (by rw [hsz']; exact hes), succOf_not_mem]
            intro hm
            rcases List.mem_append.mp hm with h1 | h1
            · exact he_kept h1
            · exact he_rest h1
          rw [hnone]
          dsimp only
          cases fuel with
          | zero => simp at hf
          | succ fuel =>
            simp only [foreachCN]
            have hnl : n < tc.slots.length := (List.getElem?_eq_some_iff.mp hs).1
            have hsame : ∀ i, i ≠ n → r.t.slots[i]? = tc.slots[i]? := by
              intro i hi
              rw [hslots', getElem?_set_freed _ _ _ hnl, if_neg (Ne.symm hi)]
            refine ⟨r.t, rest, ?_, hinv', hsz', ?_⟩
            · rw [hhead]; simp [takeThrough, hk]
            · unfold absOf
              rw [List.filterMap_append]
              have e1 := absOf_congr tc r.t rest (fun i hi => hsame i (fun e => he_rest (e ▸ hi)))
              have e2 := absOf_congr tc r.t kept (fun i hi => hsame i (fun e => he_kept (e ▸ hi)))
              unfold absOf at e1 e2
              rw [e1, e2]
              simp only [List.filterMap_cons, entryAt_live tc n k v c hs, dropFirst, if_pos hk]
      · have hbody : delIfIn hash ks tc k v = .ok tc := by
          unfold delIfIn
          rw [if_neg hk]
        rw [hbody]
        dsimp only
        rw [hnx]
        dsimp only
        have h' : Inv hash tc ((kept ++ [e]) ++ rest) := by rw [List.append_assoc]; exact h
        obtain ⟨tf, o', hrun, hinvf, hszf, habsf⟩ := ih (kept ++ [e]) tc fuel h' (by simp at hf; omega)
        rw [hrun]
        dsimp only
        refine ⟨tf, e :: o', ?_, ?_, hszf, ?_⟩
        · rw [hhead]; simp [takeThrough, hk]
        · have : kept ++ e :: o' = (kept ++ [e]) ++ o' := by simp
          rw [this]; exact hinvf
        · have e3 : kept ++ e :: o' = (kept ++ [e]) ++ o' := by simp
          rw [e3, habsf, hhead]
          simp only [dropFirst, if_neg hk]
          unfold absOf
          rw [List.filterMap_append]
          simp only [List.filterMap_cons, List.filterMap_nil, entryAt_live tc e k v c hs, List.append_assoc,
            List.singleton_append]

end

end JsonC.Linkhash
