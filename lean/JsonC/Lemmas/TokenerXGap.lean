/-
  C16 (documented extensions), comments: in non-strict mode `/* … */` and `// … \n` are skipped
  wherever white space may stand.  From a level in `eatws` a whole gap (white space and comments) is
  swallowed and the machine is back in the same level; only the scratch buffer has changed.

  Main statements: `run_gap`, `strict_slash_redo`.
-/
import JsonC.Lemmas.TokenerDoc1
import JsonC.Spec.Rfc8259X
namespace JsonC.Tokener
open JsonC Rfc8259 Rfc8259X

/-- the tokener in a layout state `st` of the level `top` with scratch buffer `p` -/
def lay (t : Tok) (top : Level) (rest : List Level) (st : St) (p : Bytes) : Tok :=
  { t with stack := { top with state := st } :: rest, pb := p }

theorem lay_noVal {t : Tok} (hv : NoVal t) (top : Level) (rest : List Level) (st : St) (p : Bytes) :
    NoVal (lay t top rest st p) := hv

section steps
variable (lc : Libc) (t : Tok) (l : Loc) (top : Level) (rest : List Level)

/-- '/' in `eatws`, default mode: a comment starts -/
theorem feed_slash (hs : t.stack = top :: rest) (htop : top.state = .eatws) (hst : t.strict = false) :
    feed lc t l 47 = .consume (lay t top rest .commentStart [47]) l := by
  apply feed_of_disp
  · obtain ⟨st, sv, cur, nm⟩ := top
    simp only at htop
    subst htop
    simp [disp, hs, dEatws, isWs, hst, lay, setTop]
  · intro _ _ h; cases h

theorem feed_commentStart_star (p : Bytes) :
    feed lc (lay t top rest .commentStart p) l 42 = .consume (lay t top rest .comment (p ++ [42])) l := by
  apply feed_of_disp
  · simp [disp, lay, dCommentStart, setTop]
  · intro _ _ h; cases h

theorem feed_commentStart_slash (p : Bytes) :
    feed lc (lay t top rest .commentStart p) l 47 = .consume (lay t top rest .commentEol (p ++ [47])) l := by
  apply feed_of_disp
  · simp [disp, lay, dCommentStart, setTop]
  · intro _ _ h; cases h

theorem feed_comment (p : Bytes) (b : UInt8) :
    feed lc (lay t top rest .comment p) l b =
      .consume (lay t top rest (if b = 42 then .commentEnd else .comment) (p ++ [b])) l := by
  apply feed_of_disp
  · by_cases hb : b = 42
    · simp [disp, lay, dComment, setTop, hb]
    · simp [disp, lay, dComment, hb]
  · intro _ _ h; cases h

theorem feed_commentEnd (p : Bytes) (b : UInt8) :
    feed lc (lay t top rest .commentEnd p) l b =
      .consume (lay t top rest (if b = 47 then .eatws else if b = 42 then .commentEnd else .comment) (p ++ [b])) l := by
  apply feed_of_disp
  · by_cases hb : b = 47
    · simp [disp, lay, dCommentEnd, setTop, hb]
    · by_cases hb' : b = 42
      · simp [disp, lay, dCommentEnd, hb']
      · simp [disp, lay, dCommentEnd, setTop, hb, hb']
  · intro _ _ h; cases h

theorem feed_commentEol (p : Bytes) (b : UInt8) (hb : b ≠ 10) :
    feed lc (lay t top rest .commentEol p) l b = .consume (lay t top rest .commentEol (p ++ [b])) l := by
  apply feed_of_disp
  · simp [disp, lay, dCommentEol, hb]
  · intro _ _ h; cases h

theorem feed_commentEol_nl (p : Bytes) :
    feed lc (lay t top rest .commentEol p) l 10 = .consume (lay t top rest .eatws p) l := by
  apply feed_of_disp
  · simp [disp, lay, dCommentEol, setTop]
  · intro _ _ h; cases h

end steps

/-! ### comment bodies -/

theorem noClose_star {r : Bytes} (h : noClose (42 :: r) = true) : noClose r = true ∧ r.head? ≠ some 47 := by
  cases r with
  | nil => simp [noClose]
  | cons x xs =>
    by_cases hx : x = 47
    · subst hx; simp [noClose] at h
    · have : noClose (42 :: x :: xs) = noClose (x :: xs) := by
        rw [noClose]
        intro _ _ h1; cases h1; exact hx rfl
      rw [this] at h
      exact ⟨h, by simpa using hx⟩

theorem noClose_cons {b : UInt8} {r : Bytes} (h : noClose (b :: r) = true) : noClose r = true := by
  by_cases hb : b = 42
  · subst hb; exact (noClose_star h).1
  · have : noClose (b :: r) = noClose r := by
      rw [noClose]
      intro _ h1 _; exact hb h1
    rw [this] at h; exact h

/-- the body of a block comment and its closing `*/`; `star`: the previous byte was a '*' -/
theorem block_body (lc : Libc) (t : Tok) (l : Loc) (top : Level) (rest : List Level) (hv : NoVal t) :
    ∀ (body : Bytes) (star : Bool) (p : Bytes),
      noClose (if star then 42 :: body else body) = true → (∀ b ∈ body, b ≠ 0) →
      ∃ p', Reaches lc (lay t top rest (if star then .commentEnd else .comment) p) l (body ++ [42, 47])
        (lay t top rest .eatws p') l := by
  intro body
  induction body with
  | nil =>
    intro star p _ _
    have hvl := fun st p => (lay_noVal hv top rest st p).validate
    cases star with
    | true =>
      refine ⟨p ++ [42] ++ [47], ?_⟩
      have r1 := reaches_one lc _ l 42 _ l (hvl .commentEnd p) (by decide) (feed_commentEnd lc t l top rest p 42)
      have r2 := reaches_one lc _ l 47 _ l (hvl .commentEnd (p ++ [42])) (by decide)
        (feed_commentEnd lc t l top rest (p ++ [42]) 47)
      exact r1.trans r2
    | false =>
      refine ⟨p ++ [42] ++ [47], ?_⟩
      have r1 := reaches_one lc _ l 42 _ l (hvl .comment p) (by decide) (feed_comment lc t l top rest p 42)
      have r2 := reaches_one lc _ l 47 _ l (hvl .commentEnd (p ++ [42])) (by decide)
        (feed_commentEnd lc t l top rest (p ++ [42]) 47)
      exact r1.trans r2
  | cons b bs ih =>
    intro star p hnc hnz
    have hvl := fun st p => (lay_noVal hv top rest st p).validate
    have hb0 : b ≠ 0 := hnz b (by simp)
    have hnz' : ∀ x ∈ bs, x ≠ 0 := fun x hx => hnz x (by simp [hx])
    cases star with
    | true =>
      have hh := noClose_star hnc
      have hb47 : b ≠ 47 := by simpa using hh.2
      have r1 := reaches_one lc _ l b _ l (hvl .commentEnd p) hb0 (feed_commentEnd lc t l top rest p b)
      rw [if_neg hb47] at r1
      by_cases hb : b = 42
      · rw [if_pos hb] at r1
        obtain ⟨p', r2⟩ := ih true (p ++ [b]) (by subst hb; exact hh.1) hnz'
        exact ⟨p', r1.trans r2⟩
      · rw [if_neg hb] at r1
        obtain ⟨p', r2⟩ := ih false (p ++ [b]) (noClose_cons hh.1) hnz'
        exact ⟨p', r1.trans r2⟩
    | false =>
      have r1 := reaches_one lc _ l b _ l (hvl .comment p) hb0 (feed_comment lc t l top rest p b)
      by_cases hb : b = 42
      · rw [if_pos hb] at r1
        obtain ⟨p', r2⟩ := ih true (p ++ [b]) (by subst hb; exact hnc) hnz'
        exact ⟨p', r1.trans r2⟩
      · rw [if_neg hb] at r1
        obtain ⟨p', r2⟩ := ih false (p ++ [b]) (noClose_cons hnc) hnz'
        exact ⟨p', r1.trans r2⟩

/-- the body of a line comment and its newline -/
theorem line_body (lc : Libc) (t : Tok) (l : Loc) (top : Level) (rest : List Level) (hv : NoVal t) :
    ∀ (body : Bytes) (p : Bytes), (∀ b ∈ body, b ≠ 10 ∧ b ≠ 0) →
      ∃ p', Reaches lc (lay t top rest .commentEol p) l (body ++ [10]) (lay t top rest .eatws p') l := by
  intro body
  induction body with
  | nil =>
    intro p _
    exact ⟨p, reaches_one lc _ l 10 _ l (lay_noVal hv top rest _ _).validate (by decide)
      (feed_commentEol_nl lc t l top rest p)⟩
  | cons b bs ih =>
    intro p h
    have hb := h b (by simp)
    obtain ⟨p', r2⟩ := ih (p ++ [b]) (fun x hx => h x (by simp [hx]))
    have r1 := reaches_one lc _ l b _ l (lay_noVal hv top rest _ _).validate hb.2
      (feed_commentEol lc t l top rest p b hb.1)
    exact ⟨p', r1.trans r2⟩

/-! ### gap items and gaps -/

/-- what `run_gap` promises about the tokener after the gap -/
structure Back (t t' : Tok) (top : Level) (rest : List Level) : Prop where
  stack : t'.stack = top :: rest
  frm : Frm t t'
  wf : WF t'

theorem back_lay {t : Tok} {top : Level} {rest : List Level} (hwf : WF t) (hs : t.stack = top :: rest)
    (htop : top.state = .eatws) (hhs : t.hs = 0) (p : Bytes) : Back t (lay t top rest .eatws p) top rest := by
  have hst : (lay t top rest .eatws p).stack = top :: rest := by
    obtain ⟨st, sv, cur, nm⟩ := top
    simp only at htop
    subst htop
    rfl
  obtain ⟨top0, rest0, hs0, _, hok, _, _⟩ := hwf.ex
  rw [hs] at hs0
  cases hs0
  refine ⟨hst, ⟨rfl, rfl, hhs⟩, ?_⟩
  exact wf_restack hwf hs hst rfl hok (posOk_of_ne (by simp [htop]) (by simp [htop]) (by simp [htop]))

theorem gap_item (lc : Libc) (t : Tok) (l : Loc) (top : Level) (rest : List Level)
    (hwf : WF t) (hs : t.stack = top :: rest) (htop : top.state = .eatws) (hv : NoVal t) (hhs : t.hs = 0)
    (i : GapItem) (hok : i.ok = true) (hmode : t.strict = false ∨ i.plain = true) :
    ∃ t', Back t t' top rest ∧ Reaches lc t l i.text t' l := by
  cases i with
  | ws c =>
    refine ⟨t, ⟨hs, ⟨rfl, rfl, hhs⟩, hwf⟩, ?_⟩
    obtain ⟨st, sv, cur, nm⟩ := top
    simp only at htop
    subst htop
    intro c0 off rs
    exact run_ws lc t l sv cur nm rest hs hv [c.byte] (by intro b hb; simp at hb; subst hb; cases c <;> simp [WsChar.byte, isWs])
      c0 off rs
  | block body =>
    have hst : t.strict = false := by
      rcases hmode with h | h
      · exact h
      · simp [GapItem.plain] at h
    simp only [GapItem.ok, Bool.and_eq_true, Bool.not_eq_true', List.contains_eq_mem, decide_eq_false_iff_not] at hok
    have hnz : ∀ b ∈ body, b ≠ 0 := fun b hb h0 => hok.2 (h0 ▸ hb)
    obtain ⟨p', r3⟩ := block_body lc t l top rest hv body false [47, 42] hok.1 hnz
    have r1 := reaches_one lc t l 47 _ l hv.validate (by decide) (feed_slash lc t l top rest hs htop hst)
    have r2 := reaches_one lc _ l 42 _ l (lay_noVal hv top rest _ _).validate (by decide)
      (feed_commentStart_star lc t l top rest [47])
    refine ⟨_, back_lay hwf hs htop hhs p', ?_⟩
    have r := r1.trans (r2.trans r3)
    simpa [GapItem.text] using r
  | line body =>
    have hst : t.strict = false := by
      rcases hmode with h | h
      · exact h
      · simp [GapItem.plain] at h
    simp only [GapItem.ok, Bool.and_eq_true, Bool.not_eq_true', List.contains_eq_mem, decide_eq_false_iff_not] at hok
    have hnz : ∀ b ∈ body, b ≠ 10 ∧ b ≠ 0 := fun b hb => ⟨fun h0 => hok.1 (h0 ▸ hb), fun h0 => hok.2 (h0 ▸ hb)⟩
    obtain ⟨p', r3⟩ := line_body lc t l top rest hv body [47, 47] hnz
    have r1 := reaches_one lc t l 47 _ l hv.validate (by decide) (feed_slash lc t l top rest hs htop hst)
    have r2 := reaches_one lc _ l 47 _ l (lay_noVal hv top rest _ _).validate (by decide)
      (feed_commentStart_slash lc t l top rest [47])
    refine ⟨_, back_lay hwf hs htop hhs p', ?_⟩
    have r := r1.trans (r2.trans r3)
    simpa [GapItem.text] using r

theorem strict_of_frm {t t' : Tok} (f : Frm t t') : t'.strict = t.strict := by
  simp [Tok.strict, f.fl]

theorem gap_reaches (lc : Libc) (l : Loc) (top : Level) (rest : List Level) (htop : top.state = .eatws) :
    ∀ (g : Gap) (t : Tok), WF t → t.stack = top :: rest → NoVal t → t.hs = 0 → g.ok = true →
      (t.strict = false ∨ g.plain = true) →
      ∃ t', Back t t' top rest ∧ Reaches lc t l g.text t' l := by
  intro g
  induction g with
  | nil =>
    intro t hwf hs _ hhs _ _
    exact ⟨t, ⟨hs, ⟨rfl, rfl, hhs⟩, hwf⟩, Reaches.refl lc t l⟩
  | cons i g ih =>
    intro t hwf hs hv hhs hok hmode
    simp only [Gap.ok, List.all_cons, Bool.and_eq_true] at hok
    have hm1 : t.strict = false ∨ i.plain = true := by
      rcases hmode with h | h
      · exact .inl h
      · simp only [Gap.plain, List.all_cons, Bool.and_eq_true] at h; exact .inr h.1
    obtain ⟨t1, b1, r1⟩ := gap_item lc t l top rest hwf hs htop hv hhs i hok.1 hm1
    have hm2 : t1.strict = false ∨ Gap.plain g = true := by
      rcases hmode with h | h
      · exact .inl ((strict_of_frm b1.frm).trans h)
      · simp only [Gap.plain, List.all_cons, Bool.and_eq_true] at h; exact .inr h.2
    obtain ⟨t2, b2, r2⟩ := ih t1 b1.wf b1.stack (b1.frm.noVal hv) b1.frm.hs hok.2 hm2
    refine ⟨t2, ⟨b2.stack, b1.frm.trans b2.frm, b2.wf⟩, ?_⟩
    have r := r1.trans r2
    simpa [Gap.text] using r

/-- C16, comments: from a level in `eatws` a gap (white space and, in non-strict mode, comments) is
swallowed and the machine is back in the same level -/
theorem run_gap (lc : Libc) (t : Tok) (l : Loc) (sv : St) (cur : JVal) (nm : Option Bytes) (rest : List Level)
    (hwf : WF t) (hs : t.stack = ⟨.eatws, sv, cur, nm⟩ :: rest) (hv : NoVal t) (hhs : t.hs = 0)
    (g : Gap) (hok : g.ok = true) (hmode : t.strict = false ∨ g.plain = true) :
    ∀ (c : UInt8) (off : Nat) (rs : Bytes), ∃ t' c',
      t'.stack = ⟨.eatws, sv, cur, nm⟩ :: rest ∧ Frm t t' ∧ WF t' ∧
      run lc t l c off (g.text ++ rs) = run lc t' l c' (off + g.text.length) rs := by
  intro c off rs
  obtain ⟨t', b, r⟩ := gap_reaches lc l ⟨.eatws, sv, cur, nm⟩ rest rfl g t hwf hs hv hhs hok hmode
  exact ⟨t', lastOr c g.text, b.stack, b.frm, b.wf, r c off rs⟩

/-- the strict-mode converse: with JSON_TOKENER_STRICT a '/' in `eatws` is not a comment, it is handed
to the saved state like any other byte -/
theorem strict_slash_redo (lc : Libc) (t : Tok) (l : Loc) (sv : St) (cur : JVal) (nm : Option Bytes) (rest : List Level)
    (hs : t.stack = ⟨.eatws, sv, cur, nm⟩ :: rest) (hst : t.strict = true) :
    disp lc t l 47 = .redo (setTop t ⟨sv, sv, cur, nm⟩ rest) l := by
  simp [disp, hs, dEatws, isWs, hst]

end JsonC.Tokener
