/-
  C16, strict mode on documents with extensions, part 4: the member loop of an object up to the
  first extension.
-/
import JsonC.Lemmas.TokenerXRej3
namespace JsonC.Tokener
open JsonC Rfc8259 Rfc8259X

theorem xmembers_rej (lc : Libc) (hl : LibcSpec lc) (ms : List (Gap × Quote × List StrItem × Gap × Gap × XDoc × Gap))
    (hne : ms ≠ []) (ih : ∀ m ∈ ms, XRej lc m.2.2.2.2.2.1) :
    ∀ (t : Tok) (l : Loc) (sv : St) (_ : sv = .objectFieldStart ∨ sv = .objectFieldStartAfterSep)
      (kvs : List (Bytes × JVal)) (nm : Option Bytes) (rest : List Level),
      WF t → t.stack = ⟨.eatws, sv, .obj kvs, nm⟩ :: rest → NoVal t → t.hs = 0 → l.num = none → t.strict = true →
      xmembersOk ms = true → membersFit (xmembersErase ms) = true → membersKNF (xmembersErase ms) = true →
      rest.length + 1 + membersNest (xmembersErase ms) ≤ t.maxDepth →
      ∀ (tr : Option Gap), (xmembersPlain ms && tr.isNone) = false →
      ∀ (c : UInt8) (off : Nat) (rs : Bytes),
        ErrStop (run lc t l c off (intercalateB 44 (xmembersText ms) ++ (trailText tr ++ 125 :: rs))) := by
  induction ms with
  | nil => exact absurd rfl hne
  | cons m r ihr =>
    obtain ⟨g1, q, k, g2, g3, d, g4⟩ := m
    intro t l sv hsv kvs nm rest hwf hs hv hhs hl0 hst hok hfit hknf hdepth tr hnp c off rs
    simp only [xmembersOk, Bool.and_eq_true] at hok
    obtain ⟨⟨⟨⟨⟨⟨hg1, hkq⟩, hg2⟩, hg3⟩, hdok⟩, hg4⟩, hrok⟩ := hok
    simp only [xmembersErase, membersFit, Bool.and_eq_true] at hfit
    simp only [xmembersErase, membersKNF, Bool.and_eq_true, Bool.not_eq_true'] at hknf
    simp only [xmembersErase, membersNest] at hdepth
    have ihd : XRej lc d := ih (g1, q, k, g2, g3, d, g4) (by simp)
    have hkey : cstr (decodeItems k) = decodeItems k := cstr_of_nulfree _ hknf.1.1
    have hgp : GapPos sv rest := by
      rcases hsv with h | h <;> subst h
      · exact .objectFieldStart _
      · exact .objectFieldStartAfterSep _
    -- the text after the value's trailing gap, whatever it is
    obtain ⟨X, hX⟩ : ∃ X, intercalateB 44 (xmembersText ((g1, q, k, g2, g3, d, g4) :: r)) ++ (trailText tr ++ 125 :: rs) =
        g1.text ++ (qText q k ++ (g2.text ++ 58 :: (g3.text ++ (d.text ++ (g4.text ++ X))))) ∧
        (r = [] → X = trailText tr ++ 125 :: rs) ∧
        (∀ m2 r2, r = m2 :: r2 → X = 44 :: (intercalateB 44 (xmembersText (m2 :: r2)) ++ (trailText tr ++ 125 :: rs))) := by
      cases r with
      | nil => exact ⟨trailText tr ++ 125 :: rs, (by simp [intercalateB, xmembersText]), (fun _ => rfl), (fun _ _ h => by cases h)⟩
      | cons e2 r2 =>
        obtain ⟨a1, a2, a3, a4, a5, a6, a7⟩ := e2
        exact ⟨44 :: (intercalateB 44 (xmembersText ((a1, a2, a3, a4, a5, a6, a7) :: r2)) ++ (trailText tr ++ 125 :: rs)),
          (by simp [intercalateB, xmembersText]), (fun h => by cases h), (fun m2 r2' h => by cases h; rfl)⟩
    have hXs : ∃ s X', (s = 44 ∨ s = 93 ∨ s = 125) ∧ X = s :: X' := by
      cases r with
      | nil =>
        rw [hX.2.1 rfl]
        cases tr with
        | none => exact ⟨125, rs, by simp, by simp [trailText]⟩
        | some g' => exact ⟨44, g'.text ++ 125 :: rs, by simp, by simp [trailText]⟩
      | cons m2 r2 => exact ⟨44, _, by simp, hX.2.2 m2 r2 rfl⟩
    rw [hX.1]
    cases h1 : g1.plain with
    | false => exact gap_err lc t l hv hst sv (.obj kvs) nm rest hs hgp g1 h1 c off _
    | true =>
      rw [gap_plain_text g1 h1, run_ws lc t l sv (.obj kvs) nm rest hs hv g1.erase.text (ws_bytes_ws g1.erase) c off _]
      cases q with
      | sq => exact sq_name_err lc t l hv hst sv hsv (.obj kvs) nm rest hs _ _ _
      | dq =>
       cases hkall : k.all StrItem.ok with
       | false =>
        -- a raw control character in the member name
        exact strict_ctl_name_err lc t l hwf hv hhs hst sv hsv (.obj kvs) nm rest hs k hkq hkall _ _ _
       | true =>
        have hkok : ∀ i ∈ k, i.ok = true := fun i hi => (List.all_eq_true.mp hkall) i hi
        obtain ⟨tn, hsn, fn, hrn⟩ := reaches_name lc t l sv hsv (.obj kvs) nm rest hs hv hhs k hkok
        have eq : qText .dq k = strText k := rfl
        rw [eq, hrn, hkey] at *
        have hstn : tn.strict = true := by rw [fn.strict]; exact hst
        cases h2 : g2.plain with
        | false =>
          exact gap_err lc tn l (fn.noVal hv) hstn .objectFieldEnd (.obj kvs) (some (decodeItems k)) rest hsn (.objectFieldEnd _) g2 h2 _ _ _
        | true =>
          rw [gap_plain_text g2 h2, run_ws lc tn l .objectFieldEnd (.obj kvs) (some (decodeItems k)) rest hsn (fn.noVal hv)
            g2.erase.text (ws_bytes_ws g2.erase)]
          have hc := colon_step lc tn l (fn.noVal hv) (.obj kvs) (some (decodeItems k)) rest hsn
            (lastOr (lastOr (lastOr c g1.erase.text) (strText k)) g2.erase.text)
            (off + g1.erase.text.length + (strText k).length + g2.erase.text.length) (g3.text ++ (d.text ++ (g4.text ++ X)))
          simp only [List.cons_append, List.nil_append, lastOr, List.getLast?_singleton, Option.getD_some, List.length_singleton] at hc
          simp only [lastOr] at *
          rw [hc]
          let tc : Tok := { tn with stack := ⟨.eatws, .objectValue, .obj kvs, some (decodeItems k)⟩ :: rest }
          have fc : Frm t tc := ⟨fn.md, fn.fl, fn.hs⟩
          have hstc : tc.strict = true := by rw [fc.strict]; exact hst
          have hwfc : WF tc := wf_restack hwf hs rfl fn.md (topOk_objectValue _ _) (posOk_of_ne (by simp) (by simp) (by simp))
          cases htri : (g3.plain && d.plain && g4.plain) with
          | false =>
            obtain ⟨s, X', hsep, hXe⟩ := hXs
            rw [hXe]
            exact xchild_rej lc hl d ihd g3 g4 tc l hwfc (fc.noVal hv) fc.hs hl0 hstc .objectValue .objectValueAdd
              (Or.inr (Or.inr ⟨rfl, rfl⟩)) (.obj kvs) (some (decodeItems k)) rest rfl (.finishInObject _ _ _ _)
              hdok hg4 hfit.1 hknf.1.2 (by rw [fc.md]; omega) htri s hsep X' 58 _
          | true =>
            obtain ⟨e3, ed, e4, hderok⟩ := plain_triple_text g3 g4 d hdok htri
            have hrestnp : (xmembersPlain r && tr.isNone) = false := by
              simp only [xmembersPlain] at hnp
              simp only [Bool.and_eq_true] at htri
              simpa [h1, h2, hkall, htri.1.1, htri.1.2, htri.2] using hnp
            rw [e3, ed, e4]
            cases r with
            | nil =>
              cases tr with
              | none => simp [xmembersPlain] at hrestnp
              | some g =>
                rw [hX.2.1 rfl]
                have e0 : g4.erase.text ++ (trailText (some g) ++ 125 :: rs) = g4.erase.text ++ 44 :: (g.text ++ 125 :: rs) := by
                  simp [trailText]
                rw [e0]
                obtain ⟨t2, l2, c2, hs2, f2, hl2, hrun⟩ := child_value lc d.erase (doc_goal lc hl d.erase) g3.erase g4.erase tc l hwfc
                  (fc.noVal hv) fc.hs hl0 .objectValue .objectValueAdd (Or.inr (Or.inr ⟨rfl, rfl⟩)) (.obj kvs) (some (decodeItems k)) rest rfl
                  hderok (fun _ => hfit.1) hknf.1.2 (by rw [fc.md]; omega) 44 (by simp) (g.text ++ 125 :: rs) 58
                  (off + g1.erase.text.length + (strText k).length + g2.erase.text.length + 1)
                have f2' : Frm t t2 := fc.trans f2
                have h3 := after_member_comma lc t2 l2 (f2'.noVal hv) d.erase.denote none .objectValue kvs (decodeItems k) rest hs2 c2
                  (off + g1.erase.text.length + (strText k).length + g2.erase.text.length + 1 + g3.erase.text.length +
                    d.erase.text.length + g4.erase.text.length) (g.text ++ 125 :: rs)
                simp only [List.cons_append, List.nil_append, lastOr, List.getLast?_singleton, Option.getD_some,
                  List.length_singleton] at h3
                let t3 : Tok := { t2 with stack := ⟨.eatws, .objectFieldStartAfterSep,
                  .obj (Tokener.addOrReplace kvs (decodeItems k) d.erase.denote), none⟩ :: rest }
                have f3 : Frm t t3 := ⟨f2'.md, f2'.fl, f2'.hs⟩
                rw [hrun, h3]
                cases hg : g.plain with
                | false =>
                  exact gap_err lc t3 l2 (f3.noVal hv) (by rw [f3.strict]; exact hst) .objectFieldStartAfterSep _ none rest rfl
                    (.objectFieldStartAfterSep _) g hg _ _ _
                | true =>
                  rw [gap_plain_text g hg, run_ws lc t3 l2 .objectFieldStartAfterSep _ none rest rfl (f3.noVal hv) g.erase.text
                    (ws_bytes_ws g.erase)]
                  exact trailing_comma_object_err lc t3 l2 (f3.noVal hv) (by rw [f3.strict]; exact hst) _ none rest rfl _ _ _
            | cons m2 r2 =>
              rw [hX.2.2 m2 r2 rfl]
              obtain ⟨t2, l2, c2, hs2, f2, hl2, hrun⟩ := child_value lc d.erase (doc_goal lc hl d.erase) g3.erase g4.erase tc l hwfc
                (fc.noVal hv) fc.hs hl0 .objectValue .objectValueAdd (Or.inr (Or.inr ⟨rfl, rfl⟩)) (.obj kvs) (some (decodeItems k)) rest rfl
                hderok (fun _ => hfit.1) hknf.1.2 (by rw [fc.md]; omega) 44 (by simp)
                (intercalateB 44 (xmembersText (m2 :: r2)) ++ (trailText tr ++ 125 :: rs)) 58
                (off + g1.erase.text.length + (strText k).length + g2.erase.text.length + 1)
              have f2' : Frm t t2 := fc.trans f2
              have h3 := after_member_comma lc t2 l2 (f2'.noVal hv) d.erase.denote none .objectValue kvs (decodeItems k) rest hs2 c2
                (off + g1.erase.text.length + (strText k).length + g2.erase.text.length + 1 + g3.erase.text.length +
                  d.erase.text.length + g4.erase.text.length) (intercalateB 44 (xmembersText (m2 :: r2)) ++ (trailText tr ++ 125 :: rs))
              simp only [List.cons_append, List.nil_append, lastOr, List.getLast?_singleton, Option.getD_some,
                List.length_singleton] at h3
              let t3 : Tok := { t2 with stack := ⟨.eatws, .objectFieldStartAfterSep,
                .obj (Tokener.addOrReplace kvs (decodeItems k) d.erase.denote), none⟩ :: rest }
              have f3 : Frm t t3 := ⟨f2'.md, f2'.fl, f2'.hs⟩
              have hwf3 : WF t3 := wf_restack hwf hs rfl f2'.md (topOk_container _ _ (Or.inr ⟨rfl, _, rfl⟩))
                (posOk_of_ne (by simp) (by simp) (by simp))
              rw [hrun, h3]
              exact ihr (by simp) (fun e he => ih e (by simp [he])) t3 l2 .objectFieldStartAfterSep (Or.inr rfl)
                (Tokener.addOrReplace kvs (decodeItems k) d.erase.denote) none rest hwf3 rfl (f3.noVal hv) f3.hs hl2
                (by rw [f3.strict]; exact hst) hrok hfit.2 hknf.2 (by rw [f3.md]; omega) tr hrestnp _ _ rs

end JsonC.Tokener
