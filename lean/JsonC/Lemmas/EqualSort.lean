/-
  Helper lemmas for C09 (no property statements): induction principles for the nested tree types,
  the key order of Spec/Sem.lean is a total order, and key-sorted association lists are canonical:
  two lists with distinct keys sort to the same list iff they bind every key alike.
-/
import JsonC.Spec.Sem

namespace JsonC

/-- structural induction on `JVal` with membership-style hypotheses for the children -/
theorem JVal.induct {P : JVal → Prop}
    (hnull : P .null) (hbool : ∀ b, P (.bool b)) (hint : ∀ s v, P (.int s v))
    (hdbl : ∀ b t, P (.dbl b t)) (hstr : ∀ s, P (.str s))
    (harr : ∀ xs, (∀ x ∈ xs, P x) → P (.arr xs))
    (hobj : ∀ kvs, (∀ kv ∈ kvs, P kv.2) → P (.obj kvs)) : ∀ v, P v := by
  intro v
  refine JVal.rec (motive_1 := P) (motive_2 := fun xs => ∀ x ∈ xs, P x)
    (motive_3 := fun kvs => ∀ kv ∈ kvs, P kv.2) (motive_4 := fun kv => P kv.2)
    hnull hbool hint hdbl hstr (fun xs ih => harr xs ih) (fun kvs ih => hobj kvs ih)
    ?_ ?_ ?_ ?_ ?_ v
  · intro x h; cases h
  · intro hd tl h1 h2 x hx
    cases hx with
    | head => exact h1
    | tail _ h => exact h2 x h
  · intro x h; cases h
  · intro hd tl h1 h2 x hx
    cases hx with
    | head => exact h1
    | tail _ h => exact h2 x h
  · intro k v h; exact h

theorem Sem.induct {P : Sem → Prop}
    (hnull : P .null) (hbool : ∀ b, P (.bool b)) (hnum : ∀ v, P (.num v))
    (hdbl : ∀ c, P (.dbl c)) (hstr : ∀ s, P (.str s))
    (harr : ∀ xs, (∀ x ∈ xs, P x) → P (.arr xs))
    (hobj : ∀ m, (∀ kv ∈ m, P kv.2) → P (.obj m)) : ∀ v, P v := by
  intro v
  refine Sem.rec (motive_1 := P) (motive_2 := fun xs => ∀ x ∈ xs, P x)
    (motive_3 := fun kvs => ∀ kv ∈ kvs, P kv.2) (motive_4 := fun kv => P kv.2)
    hnull hbool hnum hdbl hstr (fun xs ih => harr xs ih) (fun kvs ih => hobj kvs ih)
    ?_ ?_ ?_ ?_ ?_ v
  · intro x h; cases h
  · intro hd tl h1 h2 x hx
    cases hx with
    | head => exact h1
    | tail _ h => exact h2 x h
  · intro x h; cases h
  · intro hd tl h1 h2 x hx
    cases hx with
    | head => exact h1
    | tail _ h => exact h2 x h
  · intro k v h; exact h

namespace Sem

/-! ### the key order -/

theorem keyLe_refl : ∀ a, keyLe a a = true
  | [] => rfl
  | a :: as => by
    unfold keyLe
    rw [if_neg (Nat.lt_irrefl _), if_pos rfl]
    exact keyLe_refl as

theorem keyLe_total : ∀ a b, keyLe a b = true ∨ keyLe b a = true
  | [], _ => Or.inl rfl
  | _ :: _, [] => Or.inr rfl
  | a :: as, b :: bs => by
    unfold keyLe
    by_cases h1 : a.toNat < b.toNat
    · left; rw [if_pos h1]
    · by_cases h2 : b.toNat < a.toNat
      · right; rw [if_pos h2]
      · have : a = b := UInt8.toNat_inj.mp (by omega)
        subst this
        simp only [Nat.lt_irrefl, ↓reduceIte]
        exact keyLe_total as bs

theorem keyLe_antisymm : ∀ a b, keyLe a b = true → keyLe b a = true → a = b
  | [], [], _, _ => rfl
  | [], _ :: _, _, h => by simp [keyLe] at h
  | _ :: _, [], h, _ => by simp [keyLe] at h
  | a :: as, b :: bs, h1, h2 => by
    unfold keyLe at h1 h2
    by_cases hab : a.toNat < b.toNat
    · rw [if_neg (by omega)] at h2
      by_cases hba : b = a
      · subst hba; omega
      · rw [if_neg hba] at h2; cases h2
    · rw [if_neg hab] at h1
      by_cases he : a = b
      · subst he
        rw [if_pos rfl] at h1
        rw [if_neg hab, if_pos rfl] at h2
        rw [keyLe_antisymm as bs h1 h2]
      · rw [if_neg he] at h1; cases h1

theorem keyLe_trans : ∀ a b c, keyLe a b = true → keyLe b c = true → keyLe a c = true
  | [], _, _, _, _ => by simp [keyLe]
  | _ :: _, [], _, h, _ => by simp [keyLe] at h
  | _ :: _, _ :: _, [], _, h => by simp [keyLe] at h
  | a :: as, b :: bs, c :: cs, h1, h2 => by
    unfold keyLe at h1 h2 ⊢
    by_cases hab : a.toNat < b.toNat
    · by_cases hbc : b.toNat < c.toNat
      · rw [if_pos (by omega)]
      · rw [if_neg hbc] at h2
        by_cases he : b = c
        · subst he; rw [if_pos hab]
        · rw [if_neg he] at h2; cases h2
    · rw [if_neg hab] at h1
      by_cases he : a = b
      · subst he
        rw [if_pos rfl] at h1
        by_cases hbc : a.toNat < c.toNat
        · rw [if_pos hbc]
        · rw [if_neg hbc] at h2 ⊢
          by_cases he2 : a = c
          · subst he2
            rw [if_pos rfl] at h2 ⊢
            exact keyLe_trans as bs cs h1 h2
          · rw [if_neg he2] at h2; cases h2
      · rw [if_neg he] at h1; cases h1

/-! ### sorted association lists -/

variable {β : Type}

/-- strictly increasing keys -/
def StrictSorted : List (Bytes × β) → Prop
  | [] => True
  | (k, _) :: r => (∀ kv ∈ r, keyLe k kv.1 = true ∧ k ≠ kv.1) ∧ StrictSorted r

theorem mem_insertKV (k : Bytes) (v : β) (x : Bytes × β) :
    ∀ l, x ∈ insertKV k v l ↔ x = (k, v) ∨ x ∈ l
  | [] => by simp [insertKV]
  | (k', v') :: r => by
    unfold insertKV
    split
    · simp
    · simp only [List.mem_cons, mem_insertKV k v x r]
      constructor
      · rintro (h | h | h)
        · exact Or.inr (Or.inl h)
        · exact Or.inl h
        · exact Or.inr (Or.inr h)
      · rintro (h | h | h)
        · exact Or.inr (Or.inl h)
        · exact Or.inl h
        · exact Or.inr (Or.inr h)

theorem mem_sortKV (x : Bytes × β) : ∀ l, x ∈ sortKV l ↔ x ∈ l
  | [] => by simp [sortKV]
  | (k, v) :: r => by
    unfold sortKV
    rw [mem_insertKV, mem_sortKV x r]
    simp

theorem lookupKV_insertKV (k : Bytes) (v : β) (k' : Bytes) :
    ∀ l, lookupKV k' (insertKV k v l) = if k = k' then some v else lookupKV k' l
  | [] => by simp [insertKV, lookupKV]
  | (kh, vh) :: r => by
    unfold insertKV
    by_cases hle : keyLe k kh = true
    · rw [if_pos hle]; rfl
    · rw [if_neg hle]
      show (if kh = k' then some vh else lookupKV k' (insertKV k v r)) = _
      rw [lookupKV_insertKV k v k' r]
      by_cases h1 : kh = k'
      · by_cases h2 : k = k'
        · exfalso; apply hle; rw [h1, h2]; exact keyLe_refl _
        · rw [if_pos h1, if_neg h2]; simp [lookupKV, h1]
      · rw [if_neg h1]
        by_cases h2 : k = k'
        · rw [if_pos h2, if_pos h2]
        · rw [if_neg h2, if_neg h2]; simp [lookupKV, h1]

theorem lookupKV_sortKV (k : Bytes) : ∀ l : List (Bytes × β), lookupKV k (sortKV l) = lookupKV k l
  | [] => rfl
  | (kh, vh) :: r => by
    unfold sortKV
    rw [lookupKV_insertKV, lookupKV_sortKV k r]
    rfl

theorem lookupKV_eq_none (k : Bytes) : ∀ l : List (Bytes × β),
    lookupKV k l = none ↔ ∀ kv ∈ l, kv.1 ≠ k
  | [] => by simp [lookupKV]
  | (kh, vh) :: r => by
    unfold lookupKV
    by_cases h : kh = k
    · rw [if_pos h]; simp [h]
    · rw [if_neg h, lookupKV_eq_none k r]; simp [h]

theorem mem_of_lookupKV (k : Bytes) (v : β) : ∀ l : List (Bytes × β),
    lookupKV k l = some v → (k, v) ∈ l
  | [] => by simp [lookupKV]
  | (kh, vh) :: r => by
    unfold lookupKV
    by_cases h : kh = k
    · rw [if_pos h]; intro h2; cases h2; simp [h]
    · rw [if_neg h]; intro h2; exact List.mem_cons_of_mem _ (mem_of_lookupKV k v r h2)

/-- distinct keys (Prop form of the model's `keysNodup`) -/
def KeysNodup (l : List (Bytes × β)) : Prop := (l.map (·.1)).Nodup

theorem lookupKV_of_mem (k : Bytes) (v : β) : ∀ l : List (Bytes × β), KeysNodup l →
    (k, v) ∈ l → lookupKV k l = some v
  | [], _, h => by cases h
  | (kh, vh) :: r, hn, h => by
    unfold KeysNodup at hn
    simp only [List.map_cons, List.nodup_cons, List.mem_map] at hn
    unfold lookupKV
    cases h with
    | head => rw [if_pos rfl]
    | tail _ h =>
      have : kh ≠ k := fun e => hn.1 ⟨(k, v), h, e.symm⟩
      rw [if_neg this]
      exact lookupKV_of_mem k v r hn.2 h

theorem strictSorted_insertKV (k : Bytes) (v : β) : ∀ l : List (Bytes × β),
    StrictSorted l → (∀ kv ∈ l, kv.1 ≠ k) → StrictSorted (insertKV k v l)
  | [], _, _ => by simp [insertKV, StrictSorted]
  | (kh, vh) :: r, hs, hne => by
    unfold insertKV
    have hkh : kh ≠ k := hne (kh, vh) (by simp)
    by_cases hle : keyLe k kh = true
    · rw [if_pos hle]
      refine ⟨?_, hs⟩
      intro kv hkv
      cases hkv with
      | head => exact ⟨hle, fun e => hkh e.symm⟩
      | tail _ hkv =>
        have := hs.1 kv hkv
        exact ⟨keyLe_trans _ _ _ hle this.1, fun e => hne kv (List.mem_cons_of_mem _ hkv) e.symm⟩
    · rw [if_neg hle]
      refine ⟨?_, strictSorted_insertKV k v r hs.2 (fun kv h => hne kv (List.mem_cons_of_mem _ h))⟩
      intro kv hkv
      rw [mem_insertKV] at hkv
      rcases hkv with rfl | hkv
      · refine ⟨?_, hkh⟩
        rcases keyLe_total kh k with h | h
        · exact h
        · exact absurd h hle
      · exact hs.1 kv hkv

theorem strictSorted_sortKV : ∀ l : List (Bytes × β), KeysNodup l → StrictSorted (sortKV l)
  | [], _ => trivial
  | (kh, vh) :: r, hn => by
    unfold KeysNodup at hn
    simp only [List.map_cons, List.nodup_cons, List.mem_map] at hn
    unfold sortKV
    apply strictSorted_insertKV _ _ _ (strictSorted_sortKV r hn.2)
    intro kv hkv e
    rw [mem_sortKV] at hkv
    exact hn.1 ⟨kv, hkv, e⟩

theorem strictSorted_ext : ∀ l1 l2 : List (Bytes × β), StrictSorted l1 → StrictSorted l2 →
    (∀ k, lookupKV k l1 = lookupKV k l2) → l1 = l2
  | [], [], _, _, _ => rfl
  | [], (k, v) :: r, _, _, h => by
    have := h k; simp [lookupKV] at this
  | (k, v) :: r, [], _, _, h => by
    have := h k; simp [lookupKV] at this
  | (k1, v1) :: r1, (k2, v2) :: r2, hs1, hs2, h => by
    -- the two heads carry the same key
    have hk : k1 = k2 := by
      have a1 := h k1
      have a2 := h k2
      simp only [lookupKV, if_pos] at a1 a2
      by_cases e : k1 = k2
      · exact e
      · have e' : ¬ k2 = k1 := fun x => e x.symm
        rw [if_neg e'] at a1
        rw [if_neg e] at a2
        have m1 := mem_of_lookupKV _ _ _ a1.symm
        have m2 := mem_of_lookupKV _ _ _ a2
        have le1 := (hs2.1 _ m1).1
        have le2 := (hs1.1 _ m2).1
        exact keyLe_antisymm _ _ le2 le1
    subst hk
    have hv : v1 = v2 := by
      have a1 := h k1
      simp only [lookupKV, if_pos] at a1
      exact Option.some.inj a1
    subst hv
    have ht : ∀ k, lookupKV k r1 = lookupKV k r2 := by
      intro k
      by_cases e : k1 = k
      · subst e
        have n1 : lookupKV k1 r1 = none := (lookupKV_eq_none _ _).2 (fun kv hkv => fun x => (hs1.1 kv hkv).2 x.symm)
        have n2 : lookupKV k1 r2 = none := (lookupKV_eq_none _ _).2 (fun kv hkv => fun x => (hs2.1 kv hkv).2 x.symm)
        rw [n1, n2]
      · have := h k
        simp only [lookupKV, if_neg e] at this
        exact this
    rw [strictSorted_ext r1 r2 hs1.2 hs2.2 ht]

/-- canonical form: with distinct keys, equal sorted lists = equal finite maps -/
theorem sortKV_eq_iff (l1 l2 : List (Bytes × β)) (h1 : KeysNodup l1) (h2 : KeysNodup l2) :
    sortKV l1 = sortKV l2 ↔ ∀ k, lookupKV k l1 = lookupKV k l2 := by
  constructor
  · intro h k
    rw [← lookupKV_sortKV k l1, ← lookupKV_sortKV k l2, h]
  · intro h
    apply strictSorted_ext _ _ (strictSorted_sortKV l1 h1) (strictSorted_sortKV l2 h2)
    intro k
    rw [lookupKV_sortKV, lookupKV_sortKV, h]

/-- lookups see a permutation of a list with distinct keys alike -/
theorem lookupKV_perm (l1 l2 : List (Bytes × β)) (hp : l1.Perm l2) (h1 : KeysNodup l1) (k : Bytes) :
    lookupKV k l1 = lookupKV k l2 := by
  have h2 : KeysNodup l2 := by
    unfold KeysNodup at h1 ⊢
    exact (hp.map _).nodup_iff.mp h1
  cases e : lookupKV k l1 with
  | some v =>
    have := mem_of_lookupKV _ _ _ e
    exact (lookupKV_of_mem k v l2 h2 (hp.mem_iff.mp this)).symm
  | none =>
    symm
    rw [lookupKV_eq_none] at e ⊢
    intro kv hkv
    exact e kv (hp.mem_iff.mpr hkv)

/-! ### `beq` decides equality of denotations -/

theorem beq_iff : ∀ a b : Sem, beq a b = true ↔ a = b := by
  intro a
  induction a using Sem.induct with
  | hnull => intro b; cases b <;> simp [beq]
  | hbool x => intro b; cases b <;> simp [beq]
  | hnum x => intro b; cases b <;> simp [beq]
  | hdbl x => intro b; cases b <;> simp [beq]
  | hstr x => intro b; cases b <;> simp [beq]
  | harr xs ih =>
    intro b
    cases b with
    | arr ys =>
      simp only [beq, Sem.arr.injEq]
      induction xs generalizing ys with
      | nil => cases ys <;> simp [beqList]
      | cons x xs ihx =>
        cases ys with
        | nil => simp [beqList]
        | cons y ys =>
          simp only [beqList, Bool.and_eq_true, List.cons.injEq]
          rw [ih x (by simp) y, ihx (fun z hz => ih z (List.mem_cons_of_mem _ hz)) ys]
    | _ => simp [beq]
  | hobj m ih =>
    intro b
    cases b with
    | obj m2 =>
      simp only [beq, Sem.obj.injEq]
      induction m generalizing m2 with
      | nil => cases m2 <;> simp [beqMembers]
      | cons kv r ihr =>
        obtain ⟨k1, v1⟩ := kv
        cases m2 with
        | nil => simp [beqMembers]
        | cons kv2 r2 =>
          obtain ⟨k2, v2⟩ := kv2
          simp only [beqMembers, Bool.and_eq_true, List.cons.injEq, Prod.mk.injEq, beq_iff_eq]
          rw [ih (k1, v1) (by simp) v2, ihr (fun z hz => ih z (List.mem_cons_of_mem _ hz)) r2]
    | _ => simp [beq]

end Sem
end JsonC
