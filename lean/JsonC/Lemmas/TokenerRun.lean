/-
  Running the machine over known bytes: `Reaches t l bs t' l'` = feeding the (non-NUL) bytes `bs`
  from (t, l) consumes all of them and arrives at (t', l').  Helper lemmas for C01 / C15 / C16.
  Everything here is for calls that do not validate UTF-8 (flags 0 and STRICT, as C01 quantifies).
-/
import JsonC.Lemmas.TokenerStep
namespace JsonC.Tokener
open JsonC

/-- fuel beyond what the redo chain needs does not change the result -/
theorem feedN_succ (lc : Libc) : ∀ (n : Nat) (t : Tok) (l : Loc) (c : UInt8),
    (∀ t' l', feedN lc n t l c ≠ .redo t' l') → feedN lc (n + 1) t l c = feedN lc n t l c := by
  intro n
  induction n with
  | zero => intro t l c h; exact absurd rfl (h t l)
  | succ n ih =>
    intro t l c h
    simp only [feedN] at h ⊢
    cases hd : disp lc t l c with
    | redo t' l' => simp only [hd] at h ⊢; exact ih t' l' c h
    | consume t' l' => rfl
    | err e t' l' => rfl
    | done t' l' => rfl
    | fault w => rfl

theorem feedOK_not_redo {a : Act} (h : FeedOK a) : ∀ t' l', a ≠ .redo t' l' := by
  intro t' l' he; subst he; exact h

/-- following one `goto redo_char`: from a well-formed tokener the rest of the chain is `feed` of the new state -/
theorem feed_redo (lc : Libc) (t : Tok) (l : Loc) (c : UInt8) (t' : Tok) (l' : Loc) (hwf : WF t)
    (h : disp lc t l c = .redo t' l') : feed lc t l c = feed lc t' l' c := by
  have hok := disp_ok lc t l c hwf
  rw [h] at hok
  have hr : rank t' < 15 := by have := wf_rank_le t' hok.1; omega
  have h15 := feedN_ok lc 15 t' l' c hok.1 hr
  unfold feed fuel
  show feedN lc (15 + 1) t l c = feedN lc (15 + 1) t' l' c
  rw [feedN_succ lc 15 t' l' c (feedOK_not_redo h15)]
  simp only [feedN, h]

theorem feed_of_disp (lc : Libc) (t : Tok) (l : Loc) (c : UInt8) (a : Act)
    (h : disp lc t l c = a) (hn : ∀ t' l', a ≠ .redo t' l') : feed lc t l c = a := by
  unfold feed fuel
  cases a with
  | redo t' l' => exact absurd rfl (hn t' l')
  | consume t' l' => simp only [feedN, h]
  | err e t' l' => simp only [feedN, h]
  | done t' l' => simp only [feedN, h]
  | fault w => simp only [feedN, h]

/-- last byte consumed (the C local `c`) -/
def lastOr (c : UInt8) (bs : Bytes) : UInt8 := bs.getLast?.getD c

theorem lastOr_nil (c : UInt8) : lastOr c [] = c := rfl

theorem lastOr_append (c : UInt8) (a b : Bytes) : lastOr c (a ++ b) = lastOr (lastOr c a) b := by
  unfold lastOr
  cases b with
  | nil => simp
  | cons x xs => simp [List.getLast?_append]

/-- feeding `bs` from (t, l) consumes all of it and arrives at (t', l') - whatever follows -/
def Reaches (lc : Libc) (t : Tok) (l : Loc) (bs : Bytes) (t' : Tok) (l' : Loc) : Prop :=
  ∀ (c : UInt8) (off : Nat) (rest : Bytes),
    run lc t l c off (bs ++ rest) = run lc t' l' (lastOr c bs) (off + bs.length) rest

theorem Reaches.refl (lc : Libc) (t : Tok) (l : Loc) : Reaches lc t l [] t l := by
  intro c off rest; simp [lastOr]

theorem Reaches.trans {lc : Libc} {t1 t2 t3 : Tok} {l1 l2 l3 : Loc} {a b : Bytes}
    (h1 : Reaches lc t1 l1 a t2 l2) (h2 : Reaches lc t2 l2 b t3 l3) : Reaches lc t1 l1 (a ++ b) t3 l3 := by
  intro c off rest
  rw [List.append_assoc, h1 c off (b ++ rest), h2 _ _ rest, lastOr_append]
  congr 1
  simp; omega

/-- one consumed byte -/
theorem reaches_one (lc : Libc) (t : Tok) (l : Loc) (b : UInt8) (t' : Tok) (l' : Loc)
    (hv : t.validateUtf8 = false) (hb : b ≠ 0) (h : feed lc t l b = .consume t' l') : Reaches lc t l [b] t' l' := by
  intro c off rest
  have hpk : peek t l b = some l := by simp [peek, hv]
  have hb' : (b == 0) = false := by simpa using hb
  simp [run, hpk, h, hb', lastOr]

/-- a redo chain in front of the run: the byte is re-dispatched in the new state -/
theorem run_redo (lc : Libc) (t : Tok) (l : Loc) (b : UInt8) (t' : Tok) (l' : Loc) (hwf : WF t)
    (hv : t.validateUtf8 = false) (hv' : t'.validateUtf8 = false) (h : disp lc t l b = .redo t' l')
    (c : UInt8) (off : Nat) (rest : Bytes) :
    run lc t l c off (b :: rest) = run lc t' l' c off (b :: rest) := by
  have hpk : peek t l b = some l := by simp [peek, hv]
  have hpk' : peek t' l' b = some l' := by simp [peek, hv']
  have hok := disp_ok lc t l b hwf
  rw [h] at hok
  have hf := feed_ok lc t' l' b hok.1
  simp only [run, hpk, hpk', feed_redo lc t l b t' l' hwf h]
  cases hfd : feed lc t' l' b with
  | fault w => rw [hfd] at hf; exact hf.elim
  | _ => rfl

end JsonC.Tokener
