/-
  Helper lemmas for C03: the number scanner's flags are a function of the saved text (`NumInv`),
  so re-deriving them at the start of a call changes nothing; the loop over `A ++ B` is the loop over
  `A` continued over `B`.
-/
import JsonC.Lemmas.TokenerLoc
namespace JsonC.Tokener
open JsonC

/-- the live scanner flags are a function of the saved text: what resuming re-derives is what a
single call would have at that point -/
def NumInv (t : Tok) (l : Loc) : Prop :=
  match l.num with
  | none => True
  | some nl => (topState t).1 = .number ∧ nl = deriveNum t.pb

theorem anyE_snoc (pb : Bytes) (c : UInt8) :
    (pb ++ [c]).any (fun b => b == 101 || b == 69) = (pb.any (fun b => b == 101 || b == 69) || (c == 101 || c == 69)) := by
  simp [List.any_append]

/-- accepting `c` in the scanning loop updates the flags to what re-derivation from `pb ++ [c]` gives -/
theorem deriveNum_snoc (t : Tok) (c : UInt8) (h : numAccepts t (deriveNum t.pb) c = true) :
    numNext (deriveNum t.pb) c = deriveNum (t.pb ++ [c]) := by
  unfold numNext
  have hl : (t.pb ++ [c]).getLast? = some c := by simp
  simp only [deriveNum, hl, anyE_snoc]
  by_cases h46 : c = 46
  · subst h46; simp
    cases hp : t.pb.getLast? with
    | none => simp [List.getLast?_eq_none_iff.mp hp]
    | some x => simp
  · by_cases he : c = 101 ∨ c = 69
    · rcases he with he | he <;> subst he <;> simp
    · have h1 : (c == 46) = false := by simpa using h46
      have h2 : (c == 101 || c == 69) = false := by simpa using he
      simp [h1, h2]
      cases hp : t.pb.getLast? with
      | none => simp [List.getLast?_eq_none_iff.mp hp]
      | some x => simp

theorem loc_eta_none (l : Loc) (h : l.num = none) : ({ l with num := none } : Loc) = l := by
  cases l; simp_all

/-- **re-derivation is invisible**: with the invariant, dispatching with the live flags or with freshly
re-derived ones (`num := none`) is the same -/
theorem disp_fresh (lc : Libc) (t : Tok) (l : Loc) (c : UInt8) (h : NumInv t l) :
    disp lc t l c = disp lc t { l with num := none } c := by
  unfold NumInv at h
  cases hn : l.num with
  | none => rw [loc_eta_none l hn]
  | some nl =>
    rw [hn] at h
    obtain ⟨hst, hnl⟩ := h
    unfold disp
    cases hs : t.stack with
    | nil => rfl
    | cons top rest =>
      have : top.state = .number := by simpa [topState, hs] using hst
      simp only [this]
      unfold dNumber numFlags
      simp only [hn, hnl]
      rfl

def ActLocNone : Act → Prop
  | .consume _ l' => l'.num = none
  | .redo _ l' => l'.num = none
  | .err _ _ l' => l'.num = none
  | .done _ l' => l'.num = none
  | .fault _ => True

def ActNumInv : Act → Prop
  | .consume t' l' => NumInv t' l'
  | .redo t' l' => NumInv t' l'
  | .err _ t' l' => NumInv t' l'
  | .done t' l' => NumInv t' l'
  | .fault _ => True

theorem numInv_of_none (t : Tok) (l : Loc) (h : l.num = none) : NumInv t l := by
  unfold NumInv; rw [h]; trivial

theorem actNumInv_of_locNone (a : Act) (h : ActLocNone a) : ActNumInv a := by
  cases a <;> simp only [ActLocNone, ActNumInv] at * <;> first | exact numInv_of_none _ _ h | trivial

theorem dNumberCore_exit (lc : Libc) (t : Tok) (l : Loc) (top : Level) (rest : List Level) (c : UInt8) (nl : NumLoc)
    (hacc : ¬ numAccepts t nl c = true) : ActLocNone (dNumberCore lc t l top rest c nl) := by
  unfold dNumberCore
  rw [if_neg hacc]
  split
  · simp [ActLocNone]
  · split
    · simp [ActLocNone]
    · simp only
      cases classifyNum lc _ _ <;> simp [ActLocNone]

/-- the invariant is kept by every dispatch -/
theorem disp_numInv (lc : Libc) (t : Tok) (l : Loc) (c : UInt8) (h : NumInv t l) :
    ActNumInv (disp lc t l c) := by
  by_cases hnum : (topState t).1 = .number
  · -- scanning a number
    unfold disp
    cases hs : t.stack with
    | nil => simp [topState, hs] at hnum
    | cons top rest =>
      have hst : top.state = .number := by simpa [topState, hs] using hnum
      simp only [hst]
      have hfl : numFlags t l = deriveNum t.pb := by
        unfold numFlags
        cases hn : l.num with
        | none => rfl
        | some nl => unfold NumInv at h; rw [hn] at h; exact h.2
      unfold dNumber
      rw [hfl]
      by_cases hacc : numAccepts t (deriveNum t.pb) c = true
      · unfold dNumberCore
        rw [if_pos hacc]
        simp only [ActNumInv, NumInv]
        exact ⟨by simpa [topState, hs] using hst, deriveNum_snoc t c hacc⟩
      · exact actNumInv_of_locNone _ (dNumberCore_exit lc t l top rest c _ hacc)
  · -- elsewhere the locals pass through, and `num` is `none` already
    have hnone : l.num = none := by
      unfold NumInv at h
      cases hn : l.num with
      | none => rfl
      | some nl => rw [hn] at h; exact absurd h.1 hnum
    have := disp_loc lc t l c hnum
    have hl : ∀ l', (l' = l ∨ l' = { l with num := none }) → l'.num = none := by
      intro l' h'; rcases h' with h' | h' <;> subst h' <;> simp [hnone]
    apply actNumInv_of_locNone
    cases hd : disp lc t l c <;> rw [hd] at this <;> simp only [ActLocNone, LocStep] at * <;>
      first | exact hl _ this | trivial

theorem feed_fresh (lc : Libc) (t : Tok) (l : Loc) (c : UInt8) (h : NumInv t l) :
    feed lc t l c = feed lc t { l with num := none } c := by
  unfold feed fuel
  simp only [feedN]
  rw [disp_fresh lc t l c h]

theorem feedN_numInv (lc : Libc) : ∀ (n : Nat) (t : Tok) (l : Loc) (c : UInt8), NumInv t l →
    ActNumInv (feedN lc n t l c) := by
  intro n
  induction n with
  | zero => intro t l c h; simpa [feedN, ActNumInv] using h
  | succ n ih =>
    intro t l c h
    have hd := disp_numInv lc t l c h
    simp only [feedN]
    cases hdd : disp lc t l c with
    | redo t' l' => rw [hdd] at hd; exact ih t' l' c hd
    | consume t' l' => rw [hdd] at hd; exact hd
    | err e t' l' => rw [hdd] at hd; exact hd
    | done t' l' => rw [hdd] at hd; exact hd
    | fault w => trivial

theorem feed_numInv (lc : Libc) (t : Tok) (l : Loc) (c : UInt8) (h : NumInv t l) : ActNumInv (feed lc t l c) :=
  feedN_numInv lc fuel t l c h

/-! ### the loop -/

/-- the loop over `A ++ B` is the loop over `A`, continued over `B` if `A` was used up -/
theorem run_append (lc : Libc) (A B : Bytes) : ∀ (t : Tok) (l : Loc) (c : UInt8) (off : Nat),
    run lc t l c off (A ++ B) =
      (if (run lc t l c off A).stop = .endOfChunk then
        run lc (run lc t l c off A).tok (run lc t l c off A).loc (run lc t l c off A).c (run lc t l c off A).offset B
       else run lc t l c off A) := by
  induction A with
  | nil => intro t l c off; simp [run]
  | cons b bs ih =>
    intro t l c off
    cases hpk : peek t l b with
    | none => simp [run, hpk]
    | some l1 =>
      cases hfd : feed lc t l1 b with
      | consume t' l' =>
        by_cases hb : (b == 0) = true
        · simp [run, hpk, hfd, hb]
        · simp only [List.cons_append, run, hpk, hfd, if_neg hb]; exact ih t' l' b (off + 1)
      | err e t' l' => simp [run, hpk, hfd]
      | done t' l' => simp [run, hpk, hfd]
      | redo t' l' => simp [run, hpk, hfd]
      | fault w => simp [run, hpk, hfd]

/-- the byte counter only passes through -/
theorem run_offset (lc : Libc) (B : Bytes) : ∀ (t : Tok) (l : Loc) (c : UInt8) (off : Nat),
    run lc t l c off B = { run lc t l c 0 B with offset := (run lc t l c 0 B).offset + off } := by
  induction B with
  | nil => intro t l c off; simp [run]
  | cons b bs ih =>
    intro t l c off
    cases hpk : peek t l b with
    | none => simp [run, hpk]
    | some l1 =>
      cases hfd : feed lc t l1 b with
      | consume t' l' =>
        by_cases hb : (b == 0) = true
        · simp [run, hpk, hfd, hb]; omega
        · simp only [run, hpk, hfd, if_neg hb]
          rw [ih t' l' b (off + 1), ih t' l' b (0 + 1)]
          simp; omega
      | err e t' l' => simp [run, hpk, hfd]
      | done t' l' => simp [run, hpk, hfd]
      | redo t' l' => simp [run, hpk, hfd]
      | fault w => simp [run, hpk, hfd]

theorem peek_numInv (t : Tok) (l l1 : Loc) (b : UInt8) (h : NumInv t l) (hpk : peek t l b = some l1) : NumInv t l1 := by
  unfold peek at hpk
  split at hpk
  · cases hv : validateUtf8 b l.nBytes with
    | none => simp [hv] at hpk
    | some nb => simp [hv] at hpk; subst hpk; exact h
  · cases hpk; exact h

/-- facts about a loop that ran out of input -/
theorem run_chunkEnd (lc : Libc) (A : Bytes) : ∀ (t : Tok) (l : Loc) (c : UInt8) (off : Nat),
    NumInv t l → c ≠ 0 → (run lc t l c off A).stop = .endOfChunk →
    (run lc t l c off A).offset = off + A.length ∧ (run lc t l c off A).c ≠ 0 ∧
    NumInv (run lc t l c off A).tok (run lc t l c off A).loc := by
  induction A with
  | nil => intro t l c off h hc _; simp [run, h, hc]
  | cons b bs ih =>
    intro t l c off h hc
    cases hpk : peek t l b with
    | none => simp [run, hpk]
    | some l1 =>
      have hf := feed_numInv lc t l1 b (peek_numInv t l l1 b h hpk)
      cases hfd : feed lc t l1 b with
      | consume t' l' =>
        rw [hfd] at hf
        by_cases hb : (b == 0) = true
        · simp [run, hpk, hfd, hb]
        · simp only [run, hpk, hfd, if_neg hb]
          intro hstop
          have := ih t' l' b (off + 1) hf (by simpa using hb) hstop
          exact ⟨by rw [this.1]; simp; omega, this.2.1, this.2.2⟩
      | err e t' l' => simp [run, hpk, hfd]
      | done t' l' => simp [run, hpk, hfd]
      | redo t' l' => simp [run, hpk, hfd]
      | fault w => simp [run, hpk, hfd]

end JsonC.Tokener
