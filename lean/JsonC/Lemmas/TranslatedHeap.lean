/-
  Reference counting as the code does it: `json_object_get` and `json_object_put` (json_object.c, non-threaded build) as translated
  from the current C source.  C05's clauses "get/put adjust the count", "the destruction callback runs exactly once and exactly at
  the call that releases the last reference", "put reports 'freed' exactly then" as theorems about the code itself, for every
  count, type and callback:
   * get on NULL is NULL; on a node it returns the node and the count goes up by exactly one (the assert guards UINT32_MAX);
   * put on NULL is 0; with other owners left (count > 1) it returns 0, the count goes down by one, no callback runs and
     nothing is torn down; releasing the last reference returns 1, runs the user's delete callback first (exactly once, with
     the node and its userdata) when one is installed, then exactly one teardown function - the one for the node's type.
-/
import JsonC.Lemmas.TranslatedPb
namespace JsonC.TranslatedHeap
open JsonC JsonC.Generated JsonC.CSem JsonC.TranslatedPb

theorem get_null (rc : Int) :
    Translated.json_object_get 0 rc = .ok { ret := 0, jso__ref_count := rc, calls := [] } := by
  unfold Translated.json_object_get; simp

theorem get_counts (jso rc : Int) (hj : jso ≠ 0) (h0 : 0 ≤ rc) (h1 : rc < 4294967295) :
    Translated.json_object_get jso rc = .ok { ret := jso, jso__ref_count := rc + 1, calls := [] } := by
  unfold Translated.json_object_get
  rw [if_pos hj, if_pos h1]
  have : (rc + 1) % 4294967296 = rc + 1 := by omega
  simp [this]

/-- the teardown function `json_object_put` calls for a node of type `ty` -/
def teardownOf (ty : Int) : String :=
  if ty = (typeObject : Nat) then "json_object_object_delete"
  else if ty = (typeArray : Nat) then "json_object_array_delete"
  else if ty = (typeString : Nat) then "json_object_string_delete"
  else "json_object_generic_delete"

theorem put_null (rc ty ud udata h3 h4 h5 h6 h7 h8 h9 h10 h11 h12 h13 h14 h15 h16 h17 h18 h19 h20 h21 h22 : Int) :
    Translated.json_object_put 0 rc ty ud udata h3 h4 h5 h6 h7 h8 h9 h10 h11 h12 h13 h14 h15 h16 h17 h18 h19 h20 h21 h22 =
      .ok { ret := 0, jso__ref_count := rc, jso_o_type := ty, jso__user_delete := ud, jso__userdata := udata, calls := [] } := by
  unfold Translated.json_object_put; simp

/-- other owners remain -/
theorem put_keeps (jso rc ty ud udata h3 h4 h5 h6 h7 h8 h9 h10 h11 h12 h13 h14 h15 h16 h17 h18 h19 h20 h21 h22 : Int)
    (hj : jso ≠ 0) (h1 : 1 < rc) (h2 : rc ≤ 4294967295) :
    Translated.json_object_put jso rc ty ud udata h3 h4 h5 h6 h7 h8 h9 h10 h11 h12 h13 h14 h15 h16 h17 h18 h19 h20 h21 h22 =
      .ok { ret := 0, jso__ref_count := rc - 1, jso_o_type := ty, jso__user_delete := ud, jso__userdata := udata, calls := [] } := by
  unfold Translated.json_object_put
  have : (rc + -1) % 4294967296 = rc - 1 := by omega
  rw [if_pos hj, if_pos (by omega)]
  simp only [this]
  rw [if_pos (by omega)]
  rfl

/-- the last reference: 1 is returned; the user's callback (if any) runs first, once, with the node and its userdata; then
exactly the teardown function of the node's type.  (`ty'` is the type field as the callback leaves it: the node's type when the
callback does not overwrite it.) -/
theorem put_last (jso ty ud udata h3 h4 h5 h6 h7 h8 h9 h10 h11 h12 h13 h14 h15 h16 h17 h18 h19 h21 h22 : Int) (hj : jso ≠ 0) :
    ∃ out, Translated.json_object_put jso 1 ty ud udata h3 h4 h5 h6 h7 h8 h9 h10 h11 h12 h13 h14 h15 h16 h17 h18 h19 ty h21 h22 = .ok out ∧
      out.ret = 1 ∧
      out.calls = (if ud ≠ 0 then [("via__user_delete", [ud, jso, udata])] else []) ++ [(teardownOf ty, [jso])] := by
  unfold Translated.json_object_put Translated.json_object_put.j2 Translated.json_object_put.j1 teardownOf
  rw [if_pos hj, if_pos (by omega)]
  have : ((1 : Int) + -1) % 4294967296 = 0 := by decide
  simp only [this]
  rw [if_neg (by omega)]
  have h4v : ((typeObject : Nat) : Int) = 4 := by decide
  have h5v : ((typeArray : Nat) : Int) = 5 := by decide
  have h6v : ((typeString : Nat) : Int) = 6 := by decide
  rw [h4v, h5v, h6v]
  by_cases hu : ud ≠ 0 <;> by_cases t4 : ty = 4 <;> by_cases t5 : ty = 5 <;> by_cases t6 : ty = 6 <;>
    simp [hu, t4, t5, t6] <;> omega
end JsonC.TranslatedHeap
