/-
  Helper lemmas for C08, serializers (Model/AllocSer.lean): every emitter appends exactly its complete
  text (`emit`) unless an append was dropped — by induction over the value, for every oracle and heap.
-/
import JsonC.Lemmas.Alloc
import JsonC.Model.AllocSer

namespace JsonC.Alloc
open JsonC Generated


theorem bind_ok_inv {α β : Type} {x : A α} {f : α → A β} {g : Oracle} {h : Heap} {r : β × Heap}
    (e : (x >>= f) g h = .ok r) : ∃ a h1, x g h = .ok (a, h1) ∧ f a g h1 = .ok r := by
  rw [bind_run] at e
  cases hx : x g h with
  | fault w => rw [hx] at e; cases e
  | ok v =>
    obtain ⟨a, h1⟩ := v
    rw [hx] at e
    exact ⟨a, h1, rfl, e⟩

theorem pure_ok_inv {α : Type} {a : α} {g : Oracle} {h : Heap} {r : α × Heap}
    (e : (pure a : A α) g h = .ok r) : r = (a, h) := by
  rw [pure_run] at e
  cases e; rfl

/-- `f` appends exactly `X`, or drops something (and then says so) -/
def Emits (f : PbT → A PbT) (X : Bytes) : Prop :=
  ∀ p g h q h', f p g h = .ok (q, h') → q.dropped = false → p.dropped = false ∧ q.text = p.text ++ X

theorem appendT_inv {p : PbT} {bs : Bytes} {g : Oracle} {h : Heap} {q : PbT} {rc : Int} {h' : Heap}
    (e : appendT p bs g h = .ok ((q, rc), h')) (hd : q.dropped = false) :
    p.dropped = false ∧ q.text = p.text ++ bs ∧ 0 ≤ rc := by
  unfold appendT at e
  obtain ⟨⟨q0, rc0⟩, h1, e1, e2⟩ := bind_ok_inv e
  dsimp only at e2
  by_cases hrc : rc0 < 0
  · rw [if_pos hrc] at e2
    have := pure_ok_inv e2
    simp only [Prod.mk.injEq] at this
    obtain ⟨⟨hq, _⟩, _⟩ := this
    rw [hq] at hd
    simp at hd
  · rw [if_neg hrc] at e2
    have := pure_ok_inv e2
    simp only [Prod.mk.injEq] at this
    obtain ⟨⟨hq, hr⟩, _⟩ := this
    rw [hq] at hd ⊢
    exact ⟨hd, rfl, by omega⟩

theorem Emits.lit (bs : Bytes) : Emits (fun p => lit p bs) bs := by
  intro p g h q h' e hd
  change Alloc.lit p bs g h = .ok (q, h') at e
  unfold Alloc.lit at e
  obtain ⟨⟨q0, rc0⟩, h1, e1, e2⟩ := bind_ok_inv e
  have := pure_ok_inv e2
  simp only [Prod.mk.injEq] at this
  obtain ⟨hq, _⟩ := this
  subst hq
  obtain ⟨h1', h2', _⟩ := appendT_inv e1 hd
  exact ⟨h1', h2'⟩

theorem Emits.id : Emits (fun p => pure p) [] := by
  intro p g h q h' e hd
  have := pure_ok_inv e
  simp only [Prod.mk.injEq] at this
  obtain ⟨hq, _⟩ := this
  subst hq
  exact ⟨hd, by simp⟩

theorem Emits.litIf (c : Bool) (bs : Bytes) : Emits (fun p => litIf c p bs) (if c then bs else []) := by
  cases c with
  | true => exact Emits.lit bs
  | false => exact Emits.id

theorem Emits.seq {f k : PbT → A PbT} {X Y : Bytes} (hf : Emits f X) (hk : Emits k Y) :
    Emits (fun p => f p >>= k) (X ++ Y) := by
  intro p g h q h' e hd
  obtain ⟨p1, h1, e1, e2⟩ := bind_ok_inv e
  obtain ⟨hd1, ht1⟩ := hk p1 g h1 q h' e2 hd
  obtain ⟨hd0, ht0⟩ := hf p g h p1 h1 e1 hd1
  exact ⟨hd0, by rw [ht1, ht0, List.append_assoc]⟩


/-- an append whose result is ignored, followed by `k` -/
theorem Emits.app {k : PbT → A PbT} {Y : Bytes} (bs : Bytes) (hk : Emits k Y) :
    Emits (fun p => appendT p bs >>= fun x => k x.1) (bs ++ Y) := by
  intro p g h q h' e hd
  obtain ⟨⟨p1, rc⟩, h1, e1, e2⟩ := bind_ok_inv e
  obtain ⟨hd1, ht1⟩ := hk p1 g h1 q h' e2 hd
  obtain ⟨hd0, ht0, _⟩ := appendT_inv e1 hd1
  exact ⟨hd0, by rw [ht1, ht0, List.append_assoc]⟩

theorem Emits.appendFast (bs : Bytes) : Emits (fun p => appendFastT p bs) bs := by
  intro p g h q h' e hd
  change appendFastT p bs g h = .ok (q, h') at e
  unfold appendFastT at e
  by_cases hc : (p.pa.size : Int) - p.pa.bpos > bs.length
  · rw [if_pos hc] at e
    have := pure_ok_inv e
    simp only [Prod.mk.injEq] at this
    obtain ⟨hq, _⟩ := this
    rw [hq] at hd ⊢
    exact ⟨hd, rfl⟩
  · rw [if_neg hc] at e
    obtain ⟨⟨q0, rc0⟩, h1, e1, e2⟩ := bind_ok_inv e
    have := pure_ok_inv e2
    simp only [Prod.mk.injEq] at this
    obtain ⟨hq, _⟩ := this
    subst hq
    obtain ⟨h1', h2', _⟩ := appendT_inv e1 hd
    exact ⟨h1', h2'⟩

theorem memsetEndT_inv {p : PbT} {ch : UInt8} {len : Int} {g : Oracle} {h : Heap} {q : PbT} {rc : Int} {h' : Heap}
    (e : memsetEndT p ch len g h = .ok ((q, rc), h')) (hd : q.dropped = false) :
    p.dropped = false ∧ q.text = p.text ++ List.replicate len.toNat ch := by
  unfold memsetEndT at e
  dsimp only at e
  by_cases h0 : len < 0 ∨ len > INT_MAX - (p.pa.bpos : Int)
  · rw [if_pos h0] at e
    obtain ⟨_, h1, _, e2⟩ := bind_ok_inv e
    have := pure_ok_inv e2
    simp only [Prod.mk.injEq] at this
    obtain ⟨⟨hq, _⟩, _⟩ := this
    rw [hq] at hd; simp at hd
  · rw [if_neg h0] at e
    obtain ⟨r0, h1, e1, e2⟩ := bind_ok_inv e
    by_cases hrc : r0.2 < 0
    · rw [if_pos hrc] at e2
      have := pure_ok_inv e2
      simp only [Prod.mk.injEq] at this
      obtain ⟨⟨hq, _⟩, _⟩ := this
      rw [hq] at hd; simp at hd
    · rw [if_neg hrc] at e2
      have := pure_ok_inv e2
      simp only [Prod.mk.injEq] at this
      obtain ⟨⟨hq, _⟩, _⟩ := this
      rw [hq] at hd ⊢
      exact ⟨hd, rfl⟩

theorem Emits.indent (level flags : Nat) : Emits (fun p => indentT p level flags) (indentText level flags) := by
  intro p g h q h' e hd
  change indentT p level flags g h = .ok (q, h') at e
  unfold indentT at e
  unfold indentText
  by_cases hp : hasFlag flags toStringPretty = true
  · rw [if_pos hp] at e
    rw [if_pos hp]
    obtain ⟨⟨q0, rc0⟩, h1, e1, e2⟩ := bind_ok_inv e
    have := pure_ok_inv e2
    simp only [Prod.mk.injEq] at this
    obtain ⟨hq, _⟩ := this
    subst hq
    by_cases ht : hasFlag flags toStringPrettyTab = true
    · rw [if_pos ht] at e1 ⊢
      have := memsetEndT_inv e1 hd
      simpa using this
    · rw [if_neg ht] at e1 ⊢
      have := memsetEndT_inv e1 hd
      have hcast : ((level : Int) * 2).toNat = level * 2 := by omega
      simpa [hcast] using this
  · rw [if_neg hp] at e
    rw [if_neg hp]
    exact Emits.id p g h q h' e hd

theorem Emits.flush (run : Bytes) : Emits (fun p => flushRun p run) run.reverse := by
  intro p g h q h' e hd
  change flushRun p run g h = .ok (q, h') at e
  unfold flushRun at e
  by_cases hr : run.isEmpty = true
  · rw [if_pos hr] at e
    have hnil : run = [] := by simpa using hr
    subst hnil
    exact Emits.id p g h q h' e hd
  · rw [if_neg hr] at e
    obtain ⟨⟨q0, rc0⟩, h1, e1, e2⟩ := bind_ok_inv e
    have := pure_ok_inv e2
    simp only [Prod.mk.injEq] at this
    obtain ⟨hq, _⟩ := this
    subst hq
    obtain ⟨h1', h2', _⟩ := appendT_inv e1 hd
    exact ⟨h1', h2'⟩

/-- json_escape_str: the pending run, then the escaped rest -/
theorem Emits.escape (flags : Nat) : ∀ (cs run : Bytes), Emits (escapeStrT flags cs run) (run.reverse ++ escText flags cs) := by
  intro cs
  induction cs with
  | nil =>
    intro run
    have := Emits.flush run
    simpa [escapeStrT, escText] using this
  | cons c cs ih =>
    intro run p g h q h' e hd
    rw [escapeStrT] at e
    rw [escText]
    cases hs : shortEscape c with
    | some esc =>
      rw [hs] at e
      dsimp only at e ⊢
      by_cases hn : hasFlag flags toStringNoSlashEscape = true ∧ c = 47
      · rw [if_pos hn] at e
        rw [if_pos hn]
        have := ih (c :: run) p g h q h' e hd
        simpa using this
      · rw [if_neg hn] at e
        rw [if_neg hn]
        have h1 : Emits (fun p => flushRun p run >>= fun p1 => (appendT p1 esc >>= fun x => escapeStrT flags cs [] x.1))
            (run.reverse ++ (esc ++ ([].reverse ++ escText flags cs))) :=
          Emits.seq (Emits.flush run) (Emits.app esc (ih []))
        have := h1 p g h q h' e hd
        simpa using this
    | none =>
      rw [hs] at e
      dsimp only at e ⊢
      by_cases hl : c < 32
      · rw [if_pos hl] at e
        rw [if_pos hl]
        have h1 : Emits (fun p => flushRun p run >>= fun p1 =>
            (appendFastT p1 ([92, 117, 48, 48] ++ [hexLower (c.toNat / 16), hexLower (c.toNat % 16)]) >>= escapeStrT flags cs []))
            (run.reverse ++ (([92, 117, 48, 48] ++ [hexLower (c.toNat / 16), hexLower (c.toNat % 16)]) ++ ([].reverse ++ escText flags cs))) :=
          Emits.seq (Emits.flush run) (Emits.seq (Emits.appendFast _) (ih []))
        have := h1 p g h q h' e hd
        simpa using this
      · rw [if_neg hl] at e
        rw [if_neg hl]
        have := ih (c :: run) p g h q h' e hd
        simpa using this


theorem Emits.quoted (flags : Nat) (color s : Bytes) : Emits (quotedT flags color s) (quotedText flags color s) := by
  have hchain := Emits.seq (Emits.litIf (hasFlag flags toStringColor) color)
    (Emits.seq (Emits.lit [34]) (Emits.seq (Emits.escape flags s [])
      (Emits.seq (Emits.lit [34]) (Emits.litIf (hasFlag flags toStringColor) colorReset))))
  intro p g h q h' e hd
  have := hchain p g h q h' e hd
  simpa [quotedText, colorIf] using this

theorem Emits.null (flags : Nat) : Emits (nullT flags) (nullText flags) := by
  have hchain := Emits.seq (Emits.litIf (hasFlag flags toStringColor) colorMagenta)
    (Emits.seq (Emits.lit bytesNull) (Emits.litIf (hasFlag flags toStringColor) colorReset))
  intro p g h q h' e hd
  have := hchain p g h q h' e hd
  simpa [nullText, colorIf] using this

theorem Emits.sep (flags : Nat) (had : Bool) (level : Nat) : Emits (sepT flags had level) (sepText flags had level) := by
  have hchain := Emits.seq (Emits.litIf had [44]) (Emits.seq (Emits.litIf (hasFlag flags toStringPretty) [10])
    (Emits.seq (Emits.litIf (spacedOnly flags) [32]) (Emits.indent (level + 1) flags)))
  intro p g h q h' e hd
  have := hchain p g h q h' e hd
  simpa [sepText] using this

theorem closeT_inv {flags : Nat} {had : Bool} {level : Nat} {c : UInt8} {p : PbT} {g : Oracle} {h : Heap}
    {q : PbT} {rc : Int} {h' : Heap}
    (e : closeT flags had level c p g h = .ok ((q, rc), h')) (hd : q.dropped = false) :
    p.dropped = false ∧ 0 ≤ rc ∧ q.text = p.text ++ closeText flags had level c := by
  unfold closeT at e
  obtain ⟨p1, h1, e1, e2⟩ := bind_ok_inv e
  have hfirst : p1.dropped = false → p.dropped = false ∧
      p1.text = p.text ++ (if hasFlag flags toStringPretty = true ∧ had = true then [10] ++ indentText level flags else []) := by
    intro hd1
    by_cases hc : hasFlag flags toStringPretty = true ∧ had = true
    · rw [if_pos hc] at e1
      rw [if_pos hc]
      exact Emits.seq (Emits.lit [10]) (Emits.indent level flags) p g h p1 h1 e1 hd1
    · rw [if_neg hc] at e1
      rw [if_neg hc]
      exact Emits.id p g h p1 h1 e1 hd1
  unfold closeText
  by_cases hs : spacedOnly flags = true
  · rw [if_pos hs] at e2
    rw [if_pos hs]
    obtain ⟨hd1, ht, hr⟩ := appendT_inv e2 hd
    obtain ⟨hd0, ht0⟩ := hfirst hd1
    exact ⟨hd0, hr, by rw [ht, ht0, List.append_assoc]⟩
  · rw [if_neg hs] at e2
    rw [if_neg hs]
    obtain ⟨hd1, ht, hr⟩ := appendT_inv e2 hd
    obtain ⟨hd0, ht0⟩ := hfirst hd1
    exact ⟨hd0, hr, by rw [ht, ht0, List.append_assoc]⟩


/-- structural induction on `JVal` with membership-style hypotheses for the children -/
theorem JVal.induct' {P : JVal → Prop}
    (hnull : P .null) (hbool : ∀ b, P (.bool b)) (hint : ∀ s v, P (.int s v))
    (hdbl : ∀ b t, P (.dbl b t)) (hstr : ∀ s, P (.str s))
    (harr : ∀ xs, (∀ x ∈ xs, P x) → P (.arr xs))
    (hobj : ∀ kvs, (∀ kv ∈ kvs, P kv.2) → P (.obj kvs)) : ∀ v, P v := by
  intro v
  refine JVal.rec (motive_1 := P) (motive_2 := fun xs => ∀ x ∈ xs, P x)
    (motive_3 := fun kvs => ∀ kv ∈ kvs, P kv.2) (motive_4 := fun kv => P kv.2)
    hnull hbool hint hdbl hstr (fun xs ih => harr xs ih) (fun kvs ih => hobj kvs ih)
    ?_ ?_ ?_ ?_ ?_ v
  · intro x h; cases h
  · intro hd tl h1 h2 x hx
    cases hx with
    | head => exact h1
    | tail _ h => exact h2 x h
  · intro x h; cases h
  · intro hd tl h1 h2 x hx
    cases hx with
    | head => exact h1
    | tail _ h => exact h2 x h
  · intro k v h; exact h

/-- the emitter returns ≥ 0 having appended exactly `spec`, or something was dropped -/
def EmitsR (f : PbT → A (Option (PbT × Int))) (spec : Option Bytes) : Prop :=
  ∀ p g h q rc h', f p g h = .ok (some (q, rc), h') → q.dropped = false →
    p.dropped = false ∧ 0 ≤ rc ∧ ∃ t, spec = some t ∧ q.text = p.text ++ t

def EmitsL (f : PbT → A (Option (PbT × Bool × Bool))) (spec : Option (Bytes × Bool)) : Prop :=
  ∀ p g h q failed had' h', f p g h = .ok (some (q, failed, had'), h') → q.dropped = false →
    p.dropped = false ∧ failed = false ∧ ∃ t, spec = some (t, had') ∧ q.text = p.text ++ t

theorem serElems_emits (flags : Nat) (xs : List JVal)
    (ih : ∀ x ∈ xs, ∀ level, EmitsR (serT flags x level) (emit flags x level)) :
    ∀ level had, EmitsL (serElemsT flags xs level had) (emitElems flags xs level had) := by
  induction xs with
  | nil =>
    intro level had p g h q failed had' h' e hd
    rw [serElemsT] at e
    have := pure_ok_inv e
    simp only [Prod.mk.injEq, Option.some.injEq] at this
    obtain ⟨⟨hq, hf, hh⟩, _⟩ := this
    subst hq; subst hf; subst hh
    exact ⟨hd, rfl, [], by rw [emitElems], by simp⟩
  | cons x xs ihl =>
    intro level had p g h q failed had' h' e hd
    rw [serElemsT] at e
    rw [emitElems]
    obtain ⟨p1, h1, e1, e2⟩ := bind_ok_inv e
    by_cases hn : isNullV x = true
    · rw [if_pos hn] at e2
      rw [if_pos hn]
      obtain ⟨p2, h2, e2a, e2b⟩ := bind_ok_inv e2
      obtain ⟨hd2, hf, t, hspec, ht⟩ := ihl (fun y hy => ih y (by simp [hy])) level true p2 g h2 q failed had' h' e2b hd
      obtain ⟨hd1, ht1⟩ := Emits.null flags p1 g h1 p2 h2 e2a hd2
      obtain ⟨hd0, ht0⟩ := Emits.sep flags had level p g h p1 h1 e1 hd1
      refine ⟨hd0, hf, sepText flags had level ++ (nullText flags ++ t), ?_, ?_⟩
      · simp only [hspec]
      · rw [ht, ht1, ht0]; simp [List.append_assoc]
    · rw [if_neg hn] at e2
      rw [if_neg hn]
      obtain ⟨r, h2, e2a, e2b⟩ := bind_ok_inv e2
      cases r with
      | none =>
        have := pure_ok_inv e2b
        simp at this
      | some r =>
        obtain ⟨p2, rc⟩ := r
        dsimp only at e2b
        by_cases hrc : rc < 0
        · rw [if_pos hrc] at e2b
          have := pure_ok_inv e2b
          simp only [Prod.mk.injEq, Option.some.injEq] at this
          obtain ⟨⟨hq, _, _⟩, _⟩ := this
          have := (ih x (by simp) (level + 1) p1 g h1 p2 rc h2 e2a (hq ▸ hd)).2.1
          omega
        · rw [if_neg hrc] at e2b
          obtain ⟨hd2, hf, t, hspec, ht⟩ := ihl (fun y hy => ih y (by simp [hy])) level true p2 g h2 q failed had' h' e2b hd
          obtain ⟨hd1, _, c, hc, ht1⟩ := ih x (by simp) (level + 1) p1 g h1 p2 rc h2 e2a hd2
          obtain ⟨hd0, ht0⟩ := Emits.sep flags had level p g h p1 h1 e1 hd1
          refine ⟨hd0, hf, sepText flags had level ++ (c ++ t), ?_, ?_⟩
          · simp only [hc, hspec]
          · rw [ht, ht1, ht0]; simp [List.append_assoc]


theorem serMembers_emits (flags : Nat) (kvs : List (Bytes × JVal))
    (ih : ∀ kv ∈ kvs, ∀ level, EmitsR (serT flags kv.2 level) (emit flags kv.2 level)) :
    ∀ level had, EmitsL (serMembersT flags kvs level had) (emitMembers flags kvs level had) := by
  induction kvs with
  | nil =>
    intro level had p g h q failed had' h' e hd
    rw [serMembersT] at e
    have := pure_ok_inv e
    simp only [Prod.mk.injEq, Option.some.injEq] at this
    obtain ⟨⟨hq, hf, hh⟩, _⟩ := this
    subst hq; subst hf; subst hh
    exact ⟨hd, rfl, [], by rw [emitMembers], by simp⟩
  | cons kv kvs ihl =>
    obtain ⟨k, v⟩ := kv
    intro level had p g h q failed had' h' e hd
    simp only [serMembersT] at e
    simp only [emitMembers]
    obtain ⟨p1, h1, e1, e2⟩ := bind_ok_inv e
    obtain ⟨p1a, h1a, e1a, e2'⟩ := bind_ok_inv e2
    obtain ⟨p1b, h1b, e1b, e2''⟩ := bind_ok_inv e2'
    have hpre : p1b.dropped = false → p.dropped = false ∧ p1b.text = p.text ++ (sepText flags had level ++
        (quotedText flags colorBlue (cstr k) ++ (if hasFlag flags toStringSpaced = true then [58, 32] else [58]))) := by
      intro hdb
      obtain ⟨hda, hta⟩ := Emits.lit _ p1a g h1a p1b h1b e1b hdb
      obtain ⟨hd1, ht1⟩ := Emits.quoted flags colorBlue (cstr k) p1 g h1 p1a h1a e1a hda
      obtain ⟨hd0, ht0⟩ := Emits.sep flags had level p g h p1 h1 e1 hd1
      exact ⟨hd0, by rw [hta, ht1, ht0]; simp [List.append_assoc]⟩
    by_cases hn : isNullV v = true
    · rw [if_pos hn] at e2''
      rw [if_pos hn]
      obtain ⟨p2, h2, e2a, e2b⟩ := bind_ok_inv e2''
      obtain ⟨hd2, hf, t, hspec, ht⟩ := ihl (fun y hy => ih y (by simp [hy])) level true p2 g h2 q failed had' h' e2b hd
      obtain ⟨hd1, ht1⟩ := Emits.null flags p1b g h1b p2 h2 e2a hd2
      obtain ⟨hd0, ht0⟩ := hpre hd1
      refine ⟨hd0, hf, sepText flags had level ++ (quotedText flags colorBlue (cstr k) ++
        ((if hasFlag flags toStringSpaced = true then [58, 32] else [58]) ++ (nullText flags ++ t))), ?_, ?_⟩
      · simp only [hspec]
      · rw [ht, ht1, ht0]; simp [List.append_assoc]
    · rw [if_neg hn] at e2''
      rw [if_neg hn]
      obtain ⟨r, h2, e2a, e2b⟩ := bind_ok_inv e2''
      cases r with
      | none =>
        have := pure_ok_inv e2b
        simp at this
      | some r =>
        obtain ⟨p2, rc⟩ := r
        dsimp only at e2b
        by_cases hrc : rc < 0
        · rw [if_pos hrc] at e2b
          have := pure_ok_inv e2b
          simp only [Prod.mk.injEq, Option.some.injEq] at this
          obtain ⟨⟨hq, _, _⟩, _⟩ := this
          have := (ih (k, v) (by simp) (level + 1) p1b g h1b p2 rc h2 e2a (hq ▸ hd)).2.1
          omega
        · rw [if_neg hrc] at e2b
          obtain ⟨hd2, hf, t, hspec, ht⟩ := ihl (fun y hy => ih y (by simp [hy])) level true p2 g h2 q failed had' h' e2b hd
          obtain ⟨hd1, _, c, hc, ht1⟩ := ih (k, v) (by simp) (level + 1) p1b g h1b p2 rc h2 e2a hd2
          obtain ⟨hd0, ht0⟩ := hpre hd1
          refine ⟨hd0, hf, sepText flags had level ++ (quotedText flags colorBlue (cstr k) ++
            ((if hasFlag flags toStringSpaced = true then [58, 32] else [58]) ++ (c ++ t))), ?_, ?_⟩
          · simp only [hc, hspec]
          · rw [ht, ht1, ht0]; simp [List.append_assoc]

/-- every emitter: if nothing was dropped, it appended exactly its complete text and returned ≥ 0 -/
theorem serT_emits (flags : Nat) : ∀ (v : JVal) (level : Nat), EmitsR (serT flags v level) (emit flags v level) := by
  intro v
  induction v using JVal.induct' with
  | hnull =>
    intro level p g h q rc h' e hd
    rw [serT] at e
    have := pure_ok_inv e
    simp only [Prod.mk.injEq, Option.some.injEq] at this
    obtain ⟨⟨hq, hr⟩, _⟩ := this
    subst hq; subst hr
    exact ⟨hd, by omega, [], by rw [emit], by simp⟩
  | hbool b =>
    intro level p g h q rc h' e hd
    rw [serT] at e
    rw [emit]
    obtain ⟨p1, h1, e1, e2⟩ := bind_ok_inv e
    obtain ⟨r, h2, e2a, e2b⟩ := bind_ok_inv e2
    obtain ⟨p2, ret⟩ := r
    dsimp only at e2b
    by_cases hc : ret > -1 ∧ hasFlag flags toStringColor = true
    · rw [if_pos hc] at e2b
      obtain ⟨r2, h3, e3a, e3b⟩ := bind_ok_inv e2b
      obtain ⟨p3, rc3⟩ := r2
      have := pure_ok_inv e3b
      simp only [Prod.mk.injEq, Option.some.injEq] at this
      obtain ⟨⟨hq, hr⟩, _⟩ := this
      subst hq; subst hr
      obtain ⟨hd2, ht2, hr2⟩ := appendT_inv e3a hd
      obtain ⟨hd1, ht1, _⟩ := appendT_inv e2a hd2
      obtain ⟨hd0, ht0⟩ := Emits.litIf _ colorMagenta p g h p1 h1 e1 hd1
      refine ⟨hd0, hr2, _, rfl, ?_⟩
      rw [ht2, ht1, ht0]
      simp [colorIf, hc.2, List.append_assoc]
    · rw [if_neg hc] at e2b
      have := pure_ok_inv e2b
      simp only [Prod.mk.injEq, Option.some.injEq] at this
      obtain ⟨⟨hq, hr⟩, _⟩ := this
      subst hq; subst hr
      obtain ⟨hd1, ht1, hr1⟩ := appendT_inv e2a hd
      obtain ⟨hd0, ht0⟩ := Emits.litIf _ colorMagenta p g h p1 h1 e1 hd1
      have hnc : hasFlag flags toStringColor = false := by
        cases hcol : hasFlag flags toStringColor with
        | false => rfl
        | true => exact absurd ⟨by omega, hcol⟩ hc
      refine ⟨hd0, hr1, _, rfl, ?_⟩
      rw [ht1, ht0]
      simp [colorIf, hnc]
  | hint sg v =>
    intro level p g h q rc h' e hd
    rw [serT] at e
    rw [emit]
    obtain ⟨r, h1, e1, e2⟩ := bind_ok_inv e
    obtain ⟨p1, rc1⟩ := r
    have := pure_ok_inv e2
    simp only [Prod.mk.injEq, Option.some.injEq] at this
    obtain ⟨⟨hq, hr⟩, _⟩ := this
    subst hq; subst hr
    obtain ⟨hd0, ht0, hr0⟩ := appendT_inv e1 hd
    exact ⟨hd0, hr0, _, rfl, ht0⟩
  | hdbl bits t =>
    intro level p g h q rc h' e hd
    cases t with
    | none =>
      rw [serT] at e
      have := pure_ok_inv e
      simp at this
    | some t =>
      rw [serT] at e
      rw [emit]
      obtain ⟨r, h1, e1, e2⟩ := bind_ok_inv e
      obtain ⟨p1, rc1⟩ := r
      have := pure_ok_inv e2
      simp only [Prod.mk.injEq, Option.some.injEq] at this
      obtain ⟨⟨hq, hr⟩, _⟩ := this
      subst hq; subst hr
      obtain ⟨hd0, ht0, _⟩ := appendT_inv e1 hd
      exact ⟨hd0, by omega, _, rfl, ht0⟩
  | hstr s =>
    intro level p g h q rc h' e hd
    rw [serT] at e
    rw [emit]
    obtain ⟨p1, h1, e1, e2⟩ := bind_ok_inv e
    have := pure_ok_inv e2
    simp only [Prod.mk.injEq, Option.some.injEq] at this
    obtain ⟨⟨hq, hr⟩, _⟩ := this
    subst hq; subst hr
    obtain ⟨hd0, ht0⟩ := Emits.quoted flags colorGreen s p g h q h1 e1 hd
    exact ⟨hd0, by omega, _, rfl, ht0⟩
  | harr xs ih =>
    intro level p g h q rc h' e hd
    rw [serT] at e
    rw [emit]
    obtain ⟨p1, h1, e1, e2⟩ := bind_ok_inv e
    obtain ⟨r, h2, e2a, e2b⟩ := bind_ok_inv e2
    cases r with
    | none =>
      have := pure_ok_inv e2b
      simp at this
    | some r =>
      obtain ⟨p2, failed, had⟩ := r
      cases failed with
      | true =>
        dsimp only at e2b
        have := pure_ok_inv e2b
        simp only [Prod.mk.injEq, Option.some.injEq] at this
        obtain ⟨⟨hq, _⟩, _⟩ := this
        have := (serElems_emits flags xs ih level false p1 g h1 p2 true had h2 e2a (hq ▸ hd)).2.1
        cases this
      | false =>
        dsimp only at e2b
        obtain ⟨r3, h3, e3a, e3b⟩ := bind_ok_inv e2b
        obtain ⟨p3, rc3⟩ := r3
        have := pure_ok_inv e3b
        simp only [Prod.mk.injEq, Option.some.injEq] at this
        obtain ⟨⟨hq, hr⟩, _⟩ := this
        subst hq; subst hr
        obtain ⟨hd2, hr2, ht2⟩ := closeT_inv e3a hd
        obtain ⟨hd1, _, t, hspec, ht1⟩ := serElems_emits flags xs ih level false p1 g h1 p2 false had h2 e2a hd2
        obtain ⟨hd0, ht0⟩ := Emits.lit [91] p g h p1 h1 e1 hd1
        refine ⟨hd0, hr2, _, by simp only [hspec]; rfl, ?_⟩
        rw [ht2, ht1, ht0]; simp [List.append_assoc]
  | hobj kvs ih =>
    intro level p g h q rc h' e hd
    rw [serT] at e
    rw [emit]
    obtain ⟨p1, h1, e1, e2⟩ := bind_ok_inv e
    obtain ⟨r, h2, e2a, e2b⟩ := bind_ok_inv e2
    cases r with
    | none =>
      have := pure_ok_inv e2b
      simp at this
    | some r =>
      obtain ⟨p2, failed, had⟩ := r
      cases failed with
      | true =>
        dsimp only at e2b
        have := pure_ok_inv e2b
        simp only [Prod.mk.injEq, Option.some.injEq] at this
        obtain ⟨⟨hq, _⟩, _⟩ := this
        have := (serMembers_emits flags kvs ih level false p1 g h1 p2 true had h2 e2a (hq ▸ hd)).2.1
        cases this
      | false =>
        dsimp only at e2b
        obtain ⟨r3, h3, e3a, e3b⟩ := bind_ok_inv e2b
        obtain ⟨p3, rc3⟩ := r3
        have := pure_ok_inv e3b
        simp only [Prod.mk.injEq, Option.some.injEq] at this
        obtain ⟨⟨hq, hr⟩, _⟩ := this
        subst hq; subst hr
        obtain ⟨hd2, hr2, ht2⟩ := closeT_inv e3a hd
        obtain ⟨hd1, _, t, hspec, ht1⟩ := serMembers_emits flags kvs ih level false p1 g h1 p2 false had h2 e2a hd2
        obtain ⟨hd0, ht0⟩ := Emits.lit [123] p g h p1 h1 e1 hd1
        refine ⟨hd0, hr2, _, by simp only [hspec]; rfl, ?_⟩
        rw [ht2, ht1, ht0]; simp [List.append_assoc]


/-- json_object_to_json_string_ext: unless an append was dropped (the known finding) the text returned
is the complete text -/
theorem serialize_complete_spec (v : JVal) (flags : Nat) (g : Oracle) (h : Heap) (r : SerRes) (h' : Heap)
    (e : serialize v flags g h = .ok (some r, h')) (hd : r.dropped = false) :
    r.text = none ∨ r.text = fullText v flags := by
  have hbody : ∀ v, isNullV v = false → serializeBody v flags g h = .ok (some r, h') →
      r.text = none ∨ r.text = emit flags v 0 := by
    intro v _ e
    unfold serializeBody at e
    obtain ⟨pb, h1, e1, e2⟩ := bind_ok_inv e
    cases pb with
    | none =>
      have := pure_ok_inv e2
      simp only [Prod.mk.injEq, Option.some.injEq] at this
      obtain ⟨hr, _⟩ := this
      subst hr; exact Or.inl rfl
    | some pa =>
      dsimp only at e2
      obtain ⟨sr, h2, e2a, e2b⟩ := bind_ok_inv e2
      cases sr with
      | none =>
        have := pure_ok_inv e2b
        simp at this
      | some sr =>
        obtain ⟨p, rc⟩ := sr
        dsimp only at e2b
        by_cases hrc : rc ≥ 0
        · rw [if_pos hrc] at e2b
          have := pure_ok_inv e2b
          simp only [Prod.mk.injEq, Option.some.injEq] at this
          obtain ⟨hr, _⟩ := this
          subst hr
          obtain ⟨_, _, t, hspec, ht⟩ := serT_emits flags v 0 _ g h1 p rc h2 e2a hd
          right
          dsimp only at ht ⊢
          rw [hspec, ht]; simp
        · rw [if_neg hrc] at e2b
          have := pure_ok_inv e2b
          simp only [Prod.mk.injEq, Option.some.injEq] at this
          obtain ⟨hr, _⟩ := this
          subst hr; exact Or.inl rfl
  cases v with
  | null =>
    have := pure_ok_inv e
    simp only [Prod.mk.injEq, Option.some.injEq] at this
    obtain ⟨hr, _⟩ := this
    subst hr; exact Or.inr rfl
  | bool b => exact hbody _ rfl e
  | int s i => exact hbody _ rfl e
  | dbl b t => exact hbody _ rfl e
  | str s => exact hbody _ rfl e
  | arr xs => exact hbody _ rfl e
  | obj kvs => exact hbody _ rfl e

end JsonC.Alloc
