/-
  Specification for C17: the documented tree traversal (json_visit.h), written without reference
  to the recursive structure of json_visit.c.

  1. `events t` flattens the tree to its arrival/departure event list in depth-first document
     order: a scalar contributes one arrival; a container contributes its arrival, then the events
     of its members in insertion order / elements in index order, then its departure.  Nodes are
     labelled 0,1,2,… by a counter threaded through the flattening (pre-order numbers).
  2. `step` is a small machine run over that list (`List.foldl`): an arrival is a call of the user
     function with flags 0, a departure a call with JSON_C_VISIT_SECOND; the returned code selects
     the documented reaction:
       continue  go on with the next event
       skip      (arrival of a container) omit everything up to and including its departure;
                 on a scalar, and on a departure, same as continue
       pop       (arrival) omit the remaining events of the containing node, go on at the
                 containing node's departure; at the root: nothing is left, success;
                 on a departure same as continue
       stop      end, success
       error     end, failure
       other     end, failure
     The end of the list is success.

  This file also fixes the interface shared with the model: what a call of the user function
  carries (`Call`) and what a callback is (`Cb`).
-/
import JsonC.Base.Basic
import JsonC.Generated.Consts
import JsonC.Model.Value

namespace JsonC.Traversal
open JsonC Generated

/-- `jso_key` / `jso_index` of a call: the root has neither. -/
inductive Slot where
  | root
  | key (k : Bytes)
  | idx (i : Nat)
  deriving Repr, DecidableEq

/-- One call `userfunc(jso, flags, parent_jso, jso_key, jso_index, userarg)`.
`node` identifies `jso` (pre-order number in the visited tree), `val` is the subtree it points to,
`parent` identifies `parent_jso` (`none` = NULL). `userarg` is the threaded state. -/
structure Call where
  node : Nat
  val : JVal
  flags : Nat
  parent : Option Nat
  slot : Slot
  deriving Repr

/-- A user function: any function of its own state (`userarg` and whatever else it can see) and the
call, yielding any `int` and a new state. -/
abbrev Cb (σ : Type) := σ → Call → Int × σ

inductive Result where
  | success
  | failure
  deriving Repr, DecidableEq

/-- "Returns 0 if nodes were visited successfully …, <0 if an error occurred" -/
def Result.toInt : Result → Int
  | .success => 0
  | .failure => visitError

def isContainer : JVal → Bool
  | .arr _ => true
  | .obj _ => true
  | _ => false

/-- An arrival (`second = false`) at / departure (`second = true`) from a node at nesting `depth`. -/
structure Ev where
  second : Bool
  depth : Nat
  node : Nat
  val : JVal
  parent : Option Nat
  slot : Slot
  deriving Repr

mutual
  /-- events of the subtree `v` whose root gets label `n`; also returns the next free label -/
  def flatten (v : JVal) (depth : Nat) (parent : Option Nat) (slot : Slot) (n : Nat) : List Ev × Nat :=
    match v with
    | .arr xs =>
      let r := flattenElems xs (depth + 1) n 0 (n + 1)
      (⟨false, depth, n, .arr xs, parent, slot⟩ :: r.1 ++ [⟨true, depth, n, .arr xs, parent, slot⟩], r.2)
    | .obj kvs =>
      let r := flattenMembers kvs (depth + 1) n (n + 1)
      (⟨false, depth, n, .obj kvs, parent, slot⟩ :: r.1 ++ [⟨true, depth, n, .obj kvs, parent, slot⟩], r.2)
    | v => ([⟨false, depth, n, v, parent, slot⟩], n + 1)
  /-- elements `xs` of the array labelled `pid`, the first of them having index `i` -/
  def flattenElems (xs : List JVal) (depth : Nat) (pid : Nat) (i : Nat) (n : Nat) : List Ev × Nat :=
    match xs with
    | [] => ([], n)
    | x :: xs =>
      let a := flatten x depth (some pid) (.idx i) n
      let b := flattenElems xs depth pid (i + 1) a.2
      (a.1 ++ b.1, b.2)
  /-- members `kvs` of the object labelled `pid`, in insertion order -/
  def flattenMembers (kvs : List (Bytes × JVal)) (depth : Nat) (pid : Nat) (n : Nat) : List Ev × Nat :=
    match kvs with
    | [] => ([], n)
    | (k, v) :: kvs =>
      let a := flatten v depth (some pid) (.key k) n
      let b := flattenMembers kvs depth pid a.2
      (a.1 ++ b.1, b.2)
end

/-- the event list of a whole tree -/
def events (t : JVal) : List Ev := (flatten t 0 none .root 0).1

/-- the call an event stands for -/
def Ev.call (e : Ev) : Call :=
  ⟨e.node, e.val, if e.second then visitSecond else 0, e.parent, e.slot⟩

inductive Mode where
  | run
  | skip (d : Nat)      -- omitting the inside of the container at depth d, through its departure
  | pop (d : Nat)       -- omitting the rest of the node that contains the depth-d node just left
  | halted (r : Result)
  deriving Repr, DecidableEq

/-- the documented reaction to the code `r` returned for event `e` -/
def react (e : Ev) (r : Int) : Mode :=
  if e.second then
    if r = visitContinue ∨ r = visitSkip ∨ r = visitPop then .run
    else if r = visitStop then .halted .success
    else .halted .failure
  else
    if r = visitContinue then .run
    else if r = visitSkip then (if isContainer e.val then .skip e.depth else .run)
    else if r = visitPop then .pop e.depth
    else if r = visitStop then .halted .success
    else .halted .failure

structure MSt (σ : Type) where
  mode : Mode
  st : σ

/-- make the call for `e` and react -/
def fire {σ : Type} (cb : Cb σ) (s : σ) (e : Ev) : MSt σ :=
  let r := cb s e.call
  ⟨react e r.1, r.2⟩

def step {σ : Type} (cb : Cb σ) (m : MSt σ) (e : Ev) : MSt σ :=
  match m.mode with
  | .halted _ => m
  | .skip d => if e.depth > d then m else { m with mode := .run }
  | .pop d => if e.depth ≥ d then m else fire cb m.st e
  | .run => fire cb m.st e

def Mode.result : Mode → Result
  | .halted r => r
  | _ => .success

/-- the reference traversal: final result and final user state -/
def traverse {σ : Type} (cb : Cb σ) (s : σ) (t : JVal) : Result × σ :=
  let m := (events t).foldl (step cb) ⟨.run, s⟩
  (m.mode.result, m.st)

/-- the same user function, also recording every call made together with the code it returned
(how a traversal is observed: the recorded list is the call log) -/
def withLog {σ : Type} (cb : Cb σ) : Cb (σ × List (Call × Int)) :=
  fun s c => let r := cb s.1 c; (r.1, (r.2, s.2 ++ [(c, r.1)]))

/-! ### the nodes of a tree in document order (used to say what the labels mean) -/

mutual
  /-- all subtrees in depth-first document (pre-)order -/
  def preorder : JVal → List JVal
    | .arr xs => .arr xs :: preorderElems xs
    | .obj kvs => .obj kvs :: preorderMembers kvs
    | v => [v]
  def preorderElems : List JVal → List JVal
    | [] => []
    | x :: xs => preorder x ++ preorderElems xs
  def preorderMembers : List (Bytes × JVal) → List JVal
    | [] => []
    | (_, v) :: kvs => preorder v ++ preorderMembers kvs
end

/-- the arrivals (first visits) of an event list -/
def arrivals (l : List Ev) : List Ev := l.filter (fun e => !e.second)

/-- what `parent` and `slot` of the node labelled `n` with value `v` must mean, relative to the table `L`
of all nodes in document order: the root has neither; otherwise `parent` names an earlier node that is an
array holding `v` at index `i`, or an object holding `v` under key `k` -/
def SlotSound (L : List JVal) (n : Nat) (v : JVal) (parent : Option Nat) : Slot → Prop
  | .root => parent = none ∧ n = 0
  | .idx i => ∃ (p : Nat) (xs : List JVal), parent = some p ∧ p < n ∧ L[p]? = some (.arr xs) ∧ xs[i]? = some v
  | .key k => ∃ (p : Nat) (kvs : List (Bytes × JVal)) (j : Nat), parent = some p ∧ p < n ∧
      L[p]? = some (.obj kvs) ∧ kvs[j]? = some (k, v)

/-- an event names its node, parent and key/index correctly -/
def Ev.Sound (L : List JVal) (e : Ev) : Prop :=
  L[e.node]? = some e.val ∧ SlotSound L e.node e.val e.parent e.slot

end JsonC.Traversal
