/-
  Specification for C20, written without reference to json_util.c (no wpos, no printbuf, no
  message formats): what a descriptor must have received after a write, what a read must hand to
  the parser, for a given sequence of operating-system answers.

  An answer of write(2) is `some k` (k bytes accepted; the OS cannot accept more than it is offered)
  or `none` (the call failed).  An answer of read(2) is `some piece` (`some []` = end of file) or
  `none`.  A finite list of answers is a finite prefix of what the OS does.
-/
import JsonC.Base.Basic

namespace JsonC.FdSpec
open JsonC

/-- the counts accepted before the first failing call -/
def okPrefix : List (Option Nat) → List Nat
  | some k :: r => k :: okPrefix r
  | _ => []

/-- Writing the text `c`: return value (`none` = the caller cannot have returned yet) and the bytes
the descriptor has received.  The text is complete (and the call returns 0) as soon as the counts
accepted reach its length; a failure before that point makes the call return -1 with exactly the
bytes accepted so far delivered; otherwise the writer must still be trying. -/
def specWrite (c : Bytes) (ans : List (Option Nat)) : Option Int × Bytes :=
  let pre := okPrefix ans
  if c.length ≤ pre.sum then (some 0, c)
  else if pre.length < ans.length then (some (-1), c.take pre.sum)
  else (none, c.take pre.sum)

/-- what a read must amount to -/
inductive RVerdict where
  | pending                  -- neither end of file nor a failure seen yet
  | ioError                  -- a read failed before end of file: failure, nothing is parsed
  | parse (data : Bytes)     -- the result is whatever parsing `data` from memory in one call gives
  deriving Repr, DecidableEq

def specRead : List (Option Bytes) → Bytes → RVerdict
  | [], _ => .pending
  | none :: _, _ => .ioError
  | some [] :: _, acc => .parse acc
  | some (b :: p) :: r, acc => specRead r (acc ++ b :: p)

/-- A byte source (file, pipe) holding `data`, asked for `req` bytes per call, answering according to
a size schedule (`some k` = hand over at most k bytes, `none` = fail).  At the end of the data every
successful answer is the empty piece (end of file). -/
def serve (req : Nat) : Bytes → List (Option Nat) → List (Option Bytes)
  | _, [] => []
  | data, none :: r => none :: serve req data r
  | data, some k :: r => some (data.take (min k req)) :: serve req (data.drop (min k req)) r

end JsonC.FdSpec
