/-
  Specification for C13: RFC 6902 (JSON Patch) over JSON values, with the part of RFC 6901
  (JSON Pointer) it needs.  Written from the RFC texts, without reference to json_patch.c /
  json_pointer.c: no C strings, no errno, no in-place mutation.

  Conventions fixed here (the RFCs leave them open):
  * JSON objects are unordered in the RFC; values here are `JVal`s whose members are in insertion
    order, so the specification fixes an order: a new member goes to the end, a replaced member
    keeps its place, and an operation that the RFC defines as not changing the document
    (`move` with `from` = `path`) does not change the order either.
  * "remove" of the whole document (`path` = "") leaves no document; this is represented by JSON
    null (json-c represents "no document" and JSON null by the same NULL pointer).
  * `test` (section 4.6): numbers are equal when numerically equal, whatever their representation
    (an integer and a double denoting the same number are equal); NaN and the infinities, which no
    JSON text denotes, equal nothing.
-/
import JsonC.Model.Value

namespace JsonC.Rfc6902
open JsonC

/-- an (unescaped) reference token -/
abbrev Token := Bytes
/-- a JSON Pointer after parsing: its reference tokens, unescaped -/
abbrev Pointer := List Token

/-! ### RFC 6901 section 3 (syntax) and 4 (evaluation) -/

/-- `escaped = "~" ( "0" / "1" )`; `~0` is `~`, `~1` is `/`; any other use of `~` is a syntax error -/
def unescape : Bytes → Option Token
  | [] => some []
  | c :: r =>
    if c = 0x7e then
      match r with
      | [] => none
      | d :: r' =>
        if d = 0x30 then (unescape r').map (0x7e :: ·)
        else if d = 0x31 then (unescape r').map (0x2f :: ·)
        else none
    else (unescape r).map (c :: ·)

def unescapeAll : List Bytes → Option Pointer
  | [] => some []
  | t :: ts =>
    match unescape t, unescapeAll ts with
    | some u, some us => some (u :: us)
    | _, _ => none

/-- the pieces between the `/` separators (always at least one piece) -/
def splitSlash : Bytes → List Bytes
  | [] => [[]]
  | c :: r =>
    if c = 0x2f then [] :: splitSlash r
    else
      match splitSlash r with
      | t :: ts => (c :: t) :: ts
      | [] => [[c]]

/-- `json-pointer = *( "/" reference-token )` -/
def parsePointer : Bytes → Option Pointer
  | [] => some []
  | c :: r => if c = 0x2f then unescapeAll (splitSlash r) else none

def isDigit (c : UInt8) : Bool := 0x30 ≤ c && c ≤ 0x39

def decVal (ds : Bytes) : Nat := ds.foldl (fun a c => a * 10 + (c.toNat - 48)) 0

/-- `array-index = %x30 / ( %x31-39 *(%x30-39) )`: "0", or digits without a leading "0" -/
def arrayIndex (t : Token) : Option Nat :=
  match t with
  | [] => none
  | c :: r =>
    if t.all isDigit && (c != 0x30 || r.isEmpty) then some (decVal t) else none

/-- the token "-": the (nonexistent) member after the last array element -/
def dash : Token := [0x2d]

def lookup (k : Token) : List (Token × JVal) → Option JVal
  | [] => none
  | (k', v) :: r => if k' = k then some v else lookup k r

/-- replace the value of member `k` where it stands -/
def setMember (k : Token) (v : JVal) : List (Token × JVal) → List (Token × JVal)
  | [] => []
  | (k', v') :: r => if k' = k then (k', v) :: r else (k', v') :: setMember k v r

/-- add member `k`, or replace its value if it exists -/
def putMember (kvs : List (Token × JVal)) (k : Token) (v : JVal) : List (Token × JVal) :=
  match lookup k kvs with
  | some _ => setMember k v kvs
  | none => kvs ++ [(k, v)]

def eraseMember (k : Token) : List (Token × JVal) → List (Token × JVal)
  | [] => []
  | (k', v') :: r => if k' = k then r else (k', v') :: eraseMember k r

/-- one evaluation step (RFC 6901 section 4): the value referenced by `t` inside `v` -/
def child (v : JVal) (t : Token) : Option JVal :=
  match v with
  | .arr xs => match arrayIndex t with
    | some i => xs[i]?
    | none => none
  | .obj kvs => lookup t kvs
  | _ => none

/-- put `c` in the place of the existing child `t` of `v` -/
def setChild (v : JVal) (t : Token) (c : JVal) : JVal :=
  match v with
  | .arr xs => match arrayIndex t with
    | some i => .arr (xs.set i c)
    | none => v
  | .obj kvs => .obj (setMember t c kvs)
  | _ => v

/-- the value a pointer references; `none` = it references nothing -/
def get : JVal → Pointer → Option JVal
  | v, [] => some v
  | v, t :: ts => match child v t with
    | some c => get c ts
    | none => none

/-- evaluate `ptr` from `v`, apply `f` to the value reached, and put the result in its place -/
def modify : JVal → Pointer → (JVal → Option JVal) → Option JVal
  | v, [], f => f v
  | v, t :: ts, f => match child v t with
    | some c => match modify c ts f with
      | some c' => some (setChild v t c')
      | none => none
    | none => none

/-! ### RFC 6902 section 4: the operations, on the parent of the target location -/

def insertAt (xs : List JVal) (i : Nat) (v : JVal) : List JVal := xs.take i ++ v :: xs.drop i

/-- 4.1 add: array → insert before index (≤ length) or append for "-"; object → add or replace member -/
def addLeaf (t : Token) (val : JVal) (parent : JVal) : Option JVal :=
  match parent with
  | .arr xs =>
    if t = dash then some (.arr (xs ++ [val]))
    else match arrayIndex t with
      | some i => if i ≤ xs.length then some (.arr (insertAt xs i val)) else none
      | none => none
  | .obj kvs => some (.obj (putMember kvs t val))
  | _ => none

/-- 4.2 remove: the target must exist; later array elements shift left -/
def removeLeaf (t : Token) (parent : JVal) : Option JVal :=
  match parent with
  | .arr xs => match arrayIndex t with
    | some i => if i < xs.length then some (.arr (xs.eraseIdx i)) else none
    | none => none
  | .obj kvs => match lookup t kvs with
    | some _ => some (.obj (eraseMember t kvs))
    | none => none
  | _ => none

/-- 4.3 replace: the target must exist -/
def replaceLeaf (t : Token) (val : JVal) (parent : JVal) : Option JVal :=
  match child parent t with
  | some _ => some (setChild parent t val)
  | none => none

def add (doc : JVal) (ptr : Pointer) (val : JVal) : Option JVal :=
  match ptr.getLast? with
  | none => some val                                   -- "" : the whole document
  | some last => modify doc ptr.dropLast (addLeaf last val)

def remove (doc : JVal) (ptr : Pointer) : Option JVal :=
  match ptr.getLast? with
  | none => some .null                                 -- no document left (see the header)
  | some last => modify doc ptr.dropLast (removeLeaf last)

def replace (doc : JVal) (ptr : Pointer) (val : JVal) : Option JVal :=
  match ptr.getLast? with
  | none => some val
  | some last => modify doc ptr.dropLast (replaceLeaf last val)

/-! ### RFC 6902 section 4.6: equality -/

/-- does the IEEE-754 double with bit pattern `bits` denote exactly the integer `n`? -/
def dblIsInt (bits : UInt64) (n : Int) : Bool :=
  let b := bits.toNat
  let neg := b / 9223372036854775808 == 1
  let e := (b / 4503599627370496) % 2048
  let m := b % 4503599627370496
  if e == 2047 then false                          -- infinity, NaN
  else if e == 0 then m == 0 && n == 0             -- zero (either sign); subnormals are not integers
  else
    let mant := 4503599627370496 + m               -- value = mant * 2^(e - 1075)
    let mag : Option Nat :=
      if e ≥ 1075 then some (mant * 2 ^ (e - 1075))
      else if mant % 2 ^ (1075 - e) == 0 then some (mant / 2 ^ (1075 - e)) else none
    match mag with
    | some k => n == (if neg then -(k : Int) else (k : Int))
    | none => false

/-- two doubles denote the same number -/
def dblEq (a b : UInt64) : Bool :=
  let isNaN (x : UInt64) : Bool := (x.toNat / 4503599627370496) % 2048 == 2047 && x.toNat % 4503599627370496 != 0
  let isZero (x : UInt64) : Bool := x.toNat % 9223372036854775808 == 0
  if isNaN a || isNaN b then false
  else if isZero a && isZero b then true
  else a == b

mutual
  /-- strings: same characters; numbers: numerically equal; arrays: same length, equal element by
  element; objects: same member names with equal values (in any order); literals: the same -/
  def valEq : JVal → JVal → Bool
    | .null, .null => true
    | .bool a, .bool b => a == b
    | .int _ a, .int _ b => a == b
    | .dbl a _, .dbl b _ => dblEq a b
    | .int _ a, .dbl b _ => dblIsInt b a
    | .dbl a _, .int _ b => dblIsInt a b
    | .str a, .str b => a == b
    | .arr xs, .arr ys => valEqList xs ys
    | .obj a, .obj b => membersIn a b && (b.all fun p => (lookup p.1 a).isSome)
    | _, _ => false
  def valEqList : List JVal → List JVal → Bool
    | [], [] => true
    | x :: xs, y :: ys => valEq x y && valEqList xs ys
    | _, _ => false
  /-- every member of the first object is a member of `b` with an equal value -/
  def membersIn : List (Token × JVal) → List (Token × JVal) → Bool
    | [], _ => true
    | (k, v) :: r, b =>
      (match lookup k b with
       | some w => valEq v w
       | none => false) && membersIn r b
end

inductive Op where
  | add (path : Pointer) (value : JVal)
  | remove (path : Pointer)
  | replace (path : Pointer) (value : JVal)
  | move (frm path : Pointer)
  | copy (frm path : Pointer)
  | test (path : Pointer) (value : JVal)
  deriving Repr

inductive Err where
  | notAnArray            -- section 3: a JSON Patch document is an array of objects
  | malformed             -- an element is not an operation object (section 4: members, types)
  | noSuchLocation        -- the target / "from" location does not exist
  | cannotAdd             -- parent missing or not a container, index out of range
  | intoOwnChild          -- 4.4: "from" is a proper prefix of "path"
  | testFailed            -- 4.6
  deriving Repr, DecidableEq

/-- is `a` a proper prefix of `b` (a location strictly above `b`)? -/
def properPrefix (a b : Pointer) : Bool := a.isPrefixOf b && a.length != b.length

def applyOp (doc : JVal) : Op → Except Err JVal
  | .add p v => match add doc p v with
    | some d => .ok d
    | none => .error .cannotAdd
  | .remove p => match remove doc p with
    | some d => .ok d
    | none => .error .noSuchLocation
  | .replace p v => match replace doc p v with
    | some d => .ok d
    | none => .error .noSuchLocation
  | .move f p =>
    -- 4.4: remove at "from", then add the removed value at "path"; a location cannot be moved
    -- into one of its children
    if properPrefix f p then .error .intoOwnChild
    else match get doc f with
      | none => .error .noSuchLocation
      | some v =>
        if f = p then .ok doc
        else match remove doc f with
          | none => .error .noSuchLocation
          | some d1 => match add d1 p v with
            | some d2 => .ok d2
            | none => .error .cannotAdd
  | .copy f p =>
    -- 4.5: identical to "add" at "path" with the value found at "from"
    match get doc f with
    | none => .error .noSuchLocation
    | some v => match add doc p v with
      | some d => .ok d
      | none => .error .cannotAdd
  | .test p v => match get doc p with
    | none => .error .noSuchLocation
    | some w => if valEq v w then .ok doc else .error .testFailed

/-- sequential application from operation number `i`; the first failing operation's index -/
def applyFrom : Nat → JVal → List Op → Except (Nat × Err) JVal
  | _, doc, [] => .ok doc
  | i, doc, op :: ops => match applyOp doc op with
    | .ok d => applyFrom (i + 1) d ops
    | .error e => .error (i, e)

/-- RFC 6902 section 3: operations are applied sequentially in the order they appear; evaluation
stops at the first operation that fails. -/
def apply (doc : JVal) (ops : List Op) : Except (Nat × Err) JVal :=
  applyFrom 0 doc ops

/-! ### RFC 6902 section 4: the patch document -/

def kOp : Bytes := [0x6f, 0x70]
def kPath : Bytes := [0x70, 0x61, 0x74, 0x68]
def kFrom : Bytes := [0x66, 0x72, 0x6f, 0x6d]
def kValue : Bytes := [0x76, 0x61, 0x6c, 0x75, 0x65]
def sAdd : Bytes := [0x61, 0x64, 0x64]
def sRemove : Bytes := [0x72, 0x65, 0x6d, 0x6f, 0x76, 0x65]
def sReplace : Bytes := [0x72, 0x65, 0x70, 0x6c, 0x61, 0x63, 0x65]
def sMove : Bytes := [0x6d, 0x6f, 0x76, 0x65]
def sCopy : Bytes := [0x63, 0x6f, 0x70, 0x79]
def sTest : Bytes := [0x74, 0x65, 0x73, 0x74]

/-- a string member holding a JSON Pointer -/
def pointerMember (kvs : List (Token × JVal)) (k : Bytes) : Option Pointer :=
  match lookup k kvs with
  | some (.str s) => parsePointer s
  | _ => none

/-- an operation object: exactly one "op" member with one of the six names, "path" a JSON Pointer
string, and the members the operation needs ("value" any JSON value including null; "from" a
JSON Pointer string); other members are ignored -/
def decodeOp : JVal → Option Op
  | .obj kvs =>
    match lookup kOp kvs, pointerMember kvs kPath with
    | some (.str o), some path =>
      if o = sAdd then (lookup kValue kvs).map (.add path)
      else if o = sRemove then some (.remove path)
      else if o = sReplace then (lookup kValue kvs).map (.replace path)
      else if o = sMove then (pointerMember kvs kFrom).map (.move · path)
      else if o = sCopy then (pointerMember kvs kFrom).map (.copy · path)
      else if o = sTest then (lookup kValue kvs).map (.test path)
      else none
    | _, _ => none
  | _ => none

def decodeAll : List JVal → Option (List Op)
  | [] => some []
  | e :: es => match decodeOp e, decodeAll es with
    | some o, some os => some (o :: os)
    | _, _ => none

/-- elements are decoded and applied one after the other: the error index is that of the first
element that is not an operation object or whose operation fails -/
def applyElems : Nat → JVal → List JVal → Except (Nat × Err) JVal
  | _, doc, [] => .ok doc
  | i, doc, e :: es => match decodeOp e with
    | none => .error (i, .malformed)
    | some op => match applyOp doc op with
      | .ok d => applyElems (i + 1) d es
      | .error err => .error (i, err)

/-- the whole patch document; `none` index = the document as a whole is not a patch -/
def applyPatch (doc patch : JVal) : Except (Option Nat × Err) JVal :=
  match patch with
  | .arr elems => match applyElems 0 doc elems with
    | .ok d => .ok d
    | .error (i, e) => .error (some i, e)
  | _ => .error (none, .notAnArray)

end JsonC.Rfc6902
