/-
  The documented extensions of json-c's parser as a datatype (for C16): an `XDoc` is an RFC 8259
  document (`Rfc8259.Doc`) in which any of the following value-neutral non-standard forms may occur,
  each any number of times and at every position where it is syntactically possible:

    * comments (`/* … */`, `// … \n`) wherever white space may stand (`Gap`);
    * a trailing comma (followed by a gap) before the `]` of a non-empty array / the `}` of a
      non-empty object;
    * single-quoted strings and member names;
    * raw control characters (U+0001 .. U+001F) inside strings and member names;
    * literals `null` / `true` / `false` with any letters in upper case.

    * numbers with superfluous leading zeros (`007`, `-01.5`) and / or an exponent without digits
      (`1e`, `2.5E+`): `XNum`.

  `XDoc.text` renders it, `XDoc.erase` is the RFC 8259 document it stands for (the "original
  document" of the property), `XDoc.plain` says that no extension occurs, `XDoc.denote` is the value
  default mode returns for it.  `XDoc.denote` and the value of the original document differ only at
  numbers: a double keeps the text it was read from (so `01.5` is the double 1.5 retaining "01.5"),
  and an integer followed by a digit-less exponent (`1e`) is read as a double (`denote_eq_erase`,
  `denote_same_numbers`).  The remaining form of the property (trailing bytes after the value) is
  `trailing_bytes` in Props/C16.lean.
-/
import JsonC.Spec.Rfc8259

namespace JsonC.Rfc8259X
open JsonC Rfc8259

/-- what may stand where RFC 8259 allows white space -/
inductive GapItem where
  | ws (c : WsChar)
  | block (body : Bytes)     -- /* body */
  | line (body : Bytes)      -- // body \n
  deriving Repr, DecidableEq

abbrev Gap := List GapItem

/-- `*/` does not occur in the body -/
def noClose : Bytes → Bool
  | 42 :: 47 :: _ => false
  | _ :: r => noClose r
  | [] => true

def GapItem.ok : GapItem → Bool
  | .ws _ => true
  | .block b => noClose b && !b.contains 0
  | .line b => !b.contains 10 && !b.contains 0

def GapItem.text : GapItem → Bytes
  | .ws c => [c.byte]
  | .block b => [47, 42] ++ b ++ [42, 47]
  | .line b => [47, 47] ++ b ++ [10]

def GapItem.plain : GapItem → Bool
  | .ws _ => true
  | _ => false

def Gap.text (g : Gap) : Bytes := g.flatMap GapItem.text
def Gap.ok (g : Gap) : Bool := g.all GapItem.ok
def Gap.plain (g : Gap) : Bool := g.all GapItem.plain
/-- the white space that remains when the comments are removed -/
def Gap.erase : Gap → Ws
  | [] => []
  | .ws c :: r => c :: Gap.erase r
  | _ :: r => Gap.erase r

inductive Quote where | dq | sq
  deriving Repr, DecidableEq
def Quote.byte : Quote → UInt8
  | .dq => 34 | .sq => 39

inductive LitKind where | null | true_ | false_
  deriving Repr, DecidableEq
def LitKind.word : LitKind → Bytes
  | .null => [110, 117, 108, 108] | .true_ => [116, 114, 117, 101] | .false_ => [102, 97, 108, 115, 101]

/-- the literal with the flagged letters in upper case -/
def capsText : Bytes → List Bool → Bytes
  | b :: bs, c :: cs => (if c then b - 32 else b) :: capsText bs cs
  | _, _ => []

/-- string body between quotes `q`: the items' text (a raw byte may not be the quote itself) -/
def qText (q : Quote) (items : List StrItem) : Bytes := q.byte :: (items.flatMap StrItem.text) ++ [q.byte]
def itemsOkFor (q : Quote) (items : List StrItem) : Bool :=
  items.all (fun i => i.ok && i != .raw 39) || (q == .dq && items.all StrItem.ok)

/-- an item of a string with extensions: an RFC 8259 item, or a raw control character (U+0001..U+001F) -/
def itemOkX : StrItem → Bool
  | .raw b => (StrItem.raw b).ok || (b != 0 && b < 0x20)
  | i => i.ok
/-- items admissible between quotes `q` when extensions are allowed -/
def itemsOkX (q : Quote) (items : List StrItem) : Bool :=
  items.all (fun i => itemOkX i && (q == .dq || i != .raw 39))

/-- a number with the number extensions: `zeros` superfluous '0's between the sign and the integer
digits, and `bare` = an exponent marker (upper case?) with an optional sign (`some true` = '-') but no
digits, possible only when the number has no exponent of its own -/
structure XNum where
  base : Num
  zeros : Nat
  bare : Option (Bool × Option Bool)
  deriving Repr, DecidableEq

def XNum.ofNum (n : Num) : XNum := ⟨n, 0, none⟩

def bareText : Option (Bool × Option Bool) → Bytes
  | none => []
  | some (up, sg) => (if up then (69 : UInt8) else 101) :: signText sg

/-- the number without the digit-less exponent: what default mode keeps as the text of a double -/
def XNum.lit (x : XNum) : Bytes :=
  signByte x.base.neg ++ List.replicate x.zeros 48 ++ digitsText x.base.int ++ fracText x.base.frac ++ expText x.base.exp
def XNum.text (x : XNum) : Bytes := x.lit ++ bareText x.bare
def XNum.ok (x : XNum) : Bool := x.base.ok && (x.bare.isNone || x.base.exp.isNone)
def XNum.plain (x : XNum) : Bool := x.zeros == 0 && x.bare.isNone
/-- read as a double: a fraction, an exponent, or a digit-less exponent -/
def XNum.isDouble (x : XNum) : Bool := x.base.frac.isSome || x.base.exp.isSome || x.bare.isSome
/-- the value default mode returns: the integer of the original number, or the double of the original
number retaining the text as written (without the digit-less exponent) -/
def XNum.denote (x : XNum) : JVal :=
  if x.isDouble then .dbl (Dbl.strtod x.base.text).1 (some x.lit) else x.base.denote

inductive XDoc where
  | lit (k : LitKind) (caps : List Bool)
  | num (n : XNum)
  | str (q : Quote) (items : List StrItem)
  /-- `[` gap `]`, or `[` elems (`,` gap)? `]` -/
  | arr (gapEmpty : Gap) (elems : List (Gap × XDoc × Gap)) (trail : Option Gap)
  | obj (gapEmpty : Gap) (members : List (Gap × Quote × List StrItem × Gap × Gap × XDoc × Gap)) (trail : Option Gap)
  deriving Repr

def trailText : Option Gap → Bytes
  | none => []
  | some g => 44 :: g.text

mutual
  def XDoc.text : XDoc → Bytes
    | .lit k caps => capsText k.word caps
    | .num n => n.text
    | .str q items => qText q items
    | .arr g [] _ => 91 :: g.text ++ [93]
    | .arr _ es tr => 91 :: intercalateB 44 (xelemsText es) ++ trailText tr ++ [93]
    | .obj g [] _ => 123 :: g.text ++ [125]
    | .obj _ ms tr => 123 :: intercalateB 44 (xmembersText ms) ++ trailText tr ++ [125]
  def xelemsText : List (Gap × XDoc × Gap) → List Bytes
    | [] => []
    | (g1, d, g2) :: r => (g1.text ++ XDoc.text d ++ g2.text) :: xelemsText r
  def xmembersText : List (Gap × Quote × List StrItem × Gap × Gap × XDoc × Gap) → List Bytes
    | [] => []
    | (g1, q, k, g2, g3, d, g4) :: r =>
      (g1.text ++ qText q k ++ g2.text ++ 58 :: g3.text ++ XDoc.text d ++ g4.text) :: xmembersText r
end

def LitKind.doc : LitKind → Doc
  | .null => .null | .true_ => .true_ | .false_ => .false_

mutual
  /-- the RFC 8259 document this stands for: comments removed, trailing commas removed, double
  quotes, lower-case literals -/
  def XDoc.erase : XDoc → Doc
    | .lit k _ => k.doc
    | .num n => .num n.base
    | .str _ items => .str items
    | .arr g es _ => .arr g.erase (xelemsErase es)
    | .obj g ms _ => .obj g.erase (xmembersErase ms)
  def xelemsErase : List (Gap × XDoc × Gap) → List (Ws × Doc × Ws)
    | [] => []
    | (g1, d, g2) :: r => (g1.erase, XDoc.erase d, g2.erase) :: xelemsErase r
  def xmembersErase : List (Gap × Quote × List StrItem × Gap × Gap × XDoc × Gap) →
      List (Ws × List StrItem × Ws × Ws × Doc × Ws)
    | [] => []
    | (g1, _, k, g2, g3, d, g4) :: r => (g1.erase, k, g2.erase, g3.erase, XDoc.erase d, g4.erase) :: xmembersErase r
end

mutual
  /-- well-formed pieces -/
  def XDoc.ok : XDoc → Bool
    | .lit k caps => caps.length == k.word.length
    | .num n => n.ok
    | .str q items => itemsOkX q items
    | .arr g es tr => g.ok && xelemsOk es && (match tr with | none => true | some t => t.ok && !es.isEmpty)
    | .obj g ms tr => g.ok && xmembersOk ms && (match tr with | none => true | some t => t.ok && !ms.isEmpty)
  def xelemsOk : List (Gap × XDoc × Gap) → Bool
    | [] => true
    | (g1, d, g2) :: r => g1.ok && XDoc.ok d && g2.ok && xelemsOk r
  def xmembersOk : List (Gap × Quote × List StrItem × Gap × Gap × XDoc × Gap) → Bool
    | [] => true
    | (g1, q, k, g2, g3, d, g4) :: r =>
      g1.ok && itemsOkX q k && g2.ok && g3.ok && XDoc.ok d && g4.ok && xmembersOk r
end

mutual
  /-- no extension occurs: the text is an RFC 8259 text -/
  def XDoc.plain : XDoc → Bool
    | .lit _ caps => caps.all (· == false)
    | .num n => n.plain
    | .str q items => q == .dq && items.all StrItem.ok
    | .arr g [] tr => g.plain && tr.isNone
    | .arr _ es tr => xelemsPlain es && tr.isNone          -- (the gap of the empty form is not rendered)
    | .obj g [] tr => g.plain && tr.isNone
    | .obj _ ms tr => xmembersPlain ms && tr.isNone
  def xelemsPlain : List (Gap × XDoc × Gap) → Bool
    | [] => true
    | (g1, d, g2) :: r => g1.plain && XDoc.plain d && g2.plain && xelemsPlain r
  def xmembersPlain : List (Gap × Quote × List StrItem × Gap × Gap × XDoc × Gap) → Bool
    | [] => true
    | (g1, q, k, g2, g3, d, g4) :: r =>
      g1.plain && (q == .dq && k.all StrItem.ok) && g2.plain && g3.plain && XDoc.plain d && g4.plain && xmembersPlain r
end

mutual
  /-- the value default mode returns (same shape as `Doc.denote`; numbers by `XNum.denote`) -/
  def XDoc.denote : XDoc → JVal
    | .lit k _ => k.doc.denote
    | .num n => n.denote
    | .str _ items => .str (decodeItems items)
    | .arr _ es _ => .arr (xelemsDenote es)
    | .obj _ ms _ => .obj (xmembersDenote ms [])
  def xelemsDenote : List (Gap × XDoc × Gap) → List JVal
    | [] => []
    | (_, d, _) :: r => XDoc.denote d :: xelemsDenote r
  def xmembersDenote : List (Gap × Quote × List StrItem × Gap × Gap × XDoc × Gap) → List (Bytes × JVal) → List (Bytes × JVal)
    | [], acc => acc
    | (_, _, k, _, _, d, _) :: r, acc => xmembersDenote r (addOrReplace acc (decodeItems k) (XDoc.denote d))
end

mutual
  /-- no number of the document is written with a number extension -/
  def XDoc.numsPlain : XDoc → Bool
    | .num n => n.plain
    | .arr _ es _ => xelemsNumsPlain es
    | .obj _ ms _ => xmembersNumsPlain ms
    | _ => true
  def xelemsNumsPlain : List (Gap × XDoc × Gap) → Bool
    | [] => true
    | (_, d, _) :: r => XDoc.numsPlain d && xelemsNumsPlain r
  def xmembersNumsPlain : List (Gap × Quote × List StrItem × Gap × Gap × XDoc × Gap) → Bool
    | [] => true
    | (_, _, _, _, _, d, _) :: r => XDoc.numsPlain d && xmembersNumsPlain r
end

/-- a whole text: gap value gap -/
structure XText where
  lead : Gap
  doc : XDoc
  trail : Gap
  deriving Repr

def XText.text (x : XText) : Bytes := x.lead.text ++ x.doc.text ++ x.trail.text
def XText.erase (x : XText) : Text := ⟨x.lead.erase, x.doc.erase, x.trail.erase⟩
def XText.ok (x : XText) : Bool := x.lead.ok && x.doc.ok && x.trail.ok
def XText.plain (x : XText) : Bool := x.lead.plain && x.doc.plain && x.trail.plain

end JsonC.Rfc8259X
