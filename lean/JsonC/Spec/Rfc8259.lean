/-
  RFC 8259 as a datatype.  A `Doc` *is* a JSON text with its layout made explicit: insignificant
  whitespace at every position the grammar allows it, strings as lists of items (a raw scalar value,
  one of the eight two-character escapes, or a \uXXXX escape with the case of each hex digit), numbers
  as (sign, integer digits without superfluous leading zero, optional fraction, optional exponent).
  `Doc.text` renders it, `Doc.denote` is the value the property says the parser must return,
  `Doc.nest` the number of containers enclosing the most deeply nested value.

  Written from the RFC, not from json_tokener.c.  That `Doc.text` ranges over exactly the RFC's texts
  is by inspection of this file (trusted).  `Doc.ofText` is an (untrusted) reader used by the driver:
  its answer `d` is only used after checking `d.text = input`.
-/
import JsonC.Model.Value
import JsonC.Libc.Dbl

namespace JsonC.Rfc8259
open JsonC

inductive WsChar where | sp | tab | lf | cr
  deriving Repr, DecidableEq

def WsChar.byte : WsChar → UInt8
  | .sp => 32 | .tab => 9 | .lf => 10 | .cr => 13

abbrev Ws := List WsChar
def Ws.text (w : Ws) : Bytes := w.map WsChar.byte

/-- the eight two-character escapes -/
inductive Esc where | quote | backslash | slash | b | f | n | r | t
  deriving Repr, DecidableEq

def Esc.letter : Esc → UInt8
  | .quote => 34 | .backslash => 92 | .slash => 47 | .b => 98 | .f => 102 | .n => 110 | .r => 114 | .t => 116
def Esc.value : Esc → UInt8
  | .quote => 34 | .backslash => 92 | .slash => 47 | .b => 8 | .f => 12 | .n => 10 | .r => 13 | .t => 9

/-- a hex digit as written: value 0..15 and, for a..f, whether it is upper case -/
structure HexDigit where
  val : Nat
  upper : Bool
  deriving Repr, DecidableEq

def HexDigit.byte (h : HexDigit) : UInt8 :=
  if h.val < 10 then UInt8.ofNat (48 + h.val) else UInt8.ofNat ((if h.upper then 55 else 87) + h.val)
def HexDigit.ok (h : HexDigit) : Bool := h.val < 16

inductive StrItem where
  | raw (b : UInt8)                      -- one unescaped byte (of the UTF-8 form of a scalar value)
  | esc (e : Esc)
  | u (d0 d1 d2 d3 : HexDigit)           -- \uXXXX
  deriving Repr, DecidableEq

/-- UTF-8 (RFC 3629) of a scalar value -/
def utf8 (u : Nat) : Bytes := utf8Encode u

/-- RFC 8259 `unescaped`: %x20-21 / %x23-5B / %x5D-10FFFF, byte by byte: an unescaped byte is neither a
control character nor `"` nor `\`; that the unescaped bytes of a text form well-formed UTF-8 is the
separate predicate `utf8Valid` on the whole text (json-c copies them verbatim either way) -/
def StrItem.ok : StrItem → Bool
  | .raw b => 0x20 ≤ b && b != 0x22 && b != 0x5C
  | .esc _ => true
  | .u d0 d1 d2 d3 => d0.ok && d1.ok && d2.ok && d3.ok

def StrItem.text : StrItem → Bytes
  | .raw b => [b]
  | .esc e => [92, e.letter]
  | .u d0 d1 d2 d3 => [92, 117, d0.byte, d1.byte, d2.byte, d3.byte]

def unitOf (d0 d1 d2 d3 : HexDigit) : Nat := d0.val * 4096 + d1.val * 256 + d2.val * 16 + d3.val

def replacement : Bytes := [0xEF, 0xBF, 0xBD]

/-- the bytes a string denotes: escapes decoded, surrogate pairs combined, unpaired surrogates
replaced by U+FFFD -/
def isHigh (u : Nat) : Bool := 0xD800 ≤ u && u < 0xDC00
def isLow (u : Nat) : Bool := 0xDC00 ≤ u && u < 0xE000

def decodeItems : List StrItem → Bytes
  | [] => []
  | .raw b :: r => b :: decodeItems r
  | .esc e :: r => e.value :: decodeItems r
  | .u a b c d :: .u a' b' c' d' :: r' =>
    let hi := unitOf a b c d
    let lo := unitOf a' b' c' d'
    if isHigh hi then
      if isLow lo then utf8 (0x10000 + (hi - 0xD800) * 1024 + (lo - 0xDC00)) ++ decodeItems r'
      else replacement ++ decodeItems (.u a' b' c' d' :: r')
    else if isLow hi then replacement ++ decodeItems (.u a' b' c' d' :: r')
    else utf8 hi ++ decodeItems (.u a' b' c' d' :: r')
  | .u a b c d :: r =>
    let hi := unitOf a b c d
    if isHigh hi || isLow hi then replacement ++ decodeItems r else utf8 hi ++ decodeItems r

def strText (items : List StrItem) : Bytes := 34 :: (items.flatMap StrItem.text) ++ [34]

/-- number = [ minus ] int [ frac ] [ exp ] -/
structure Num where
  neg : Bool
  int : List Nat                 -- digits; "0" or a non-zero digit followed by digits
  frac : Option (List Nat)       -- "." 1*DIGIT
  exp : Option (Bool × Option Bool × List Nat)   -- (upper-case E?, sign: some true = '-', some false = '+', digits)
  deriving Repr, DecidableEq

def digitsOk (ds : List Nat) : Bool := !ds.isEmpty && ds.all (· < 10)
def Num.ok (n : Num) : Bool :=
  digitsOk n.int && (n.int.length == 1 || n.int.head? != some 0) &&
  (match n.frac with | none => true | some f => digitsOk f) &&
  (match n.exp with | none => true | some (_, _, e) => digitsOk e)

def digitByte (d : Nat) : UInt8 := UInt8.ofNat (48 + d)
def digitsText (ds : List Nat) : Bytes := ds.map digitByte
def fracText : Option (List Nat) → Bytes
  | none => []
  | some f => 46 :: digitsText f
def signText : Option Bool → Bytes
  | none => []
  | some true => [45]
  | some false => [43]
def expText : Option (Bool × Option Bool × List Nat) → Bytes
  | none => []
  | some (up, sg, e) => (if up then (69 : UInt8) else 101) :: (signText sg ++ digitsText e)
def signByte (neg : Bool) : Bytes := if neg then [45] else []
def Num.text (n : Num) : Bytes := signByte n.neg ++ digitsText n.int ++ fracText n.frac ++ expText n.exp

def natOfDigits (ds : List Nat) : Nat := ds.foldl (fun a d => a * 10 + d) 0

/-- what the property demands of numbers: integers exact (saturating outside
[INT64_MIN, UINT64_MAX], which the property calls "default mode"), typed int64 when they fit and
uint64 above; anything with a fraction or exponent is the correctly rounded double, and keeps its
source text (json-c serialises a parsed double with the text it was read from). -/
def Num.denote (n : Num) : JVal :=
  match n.frac, n.exp with
  | none, none =>
    let m : Int := natOfDigits n.int
    if n.neg then .int true (if -m < INT64_MIN then INT64_MIN else -m)
    else if m ≤ INT64_MAX then .int true m
    else .int false (if m > UINT64_MAX then UINT64_MAX else m)
  | _, _ => .dbl (Dbl.strtod n.text).1 (some n.text)

/-- does the integer fit 64 bits (the property's proviso for strict mode)? -/
def Num.fits64 (n : Num) : Bool :=
  match n.frac, n.exp with
  | none, none => let m : Int := natOfDigits n.int; if n.neg then -m ≥ INT64_MIN else m ≤ UINT64_MAX
  | _, _ => true

inductive Doc where
  | null | true_ | false_
  | num (n : Num)
  | str (items : List StrItem)
  /-- `[` ws `]`  or  `[` ws v ws (`,` ws v ws)* `]` : elements with the whitespace around them -/
  | arr (wsEmpty : Ws) (elems : List (Ws × Doc × Ws))
  /-- members: ws name ws `:` ws value ws -/
  | obj (wsEmpty : Ws) (members : List (Ws × List StrItem × Ws × Ws × Doc × Ws))
  deriving Repr

def intercalateB (sep : UInt8) : List Bytes → Bytes
  | [] => []
  | [x] => x
  | x :: xs => x ++ sep :: intercalateB sep xs

mutual
  def Doc.text : Doc → Bytes
    | .null => [110, 117, 108, 108]        -- null
    | .true_ => [116, 114, 117, 101]       -- true
    | .false_ => [102, 97, 108, 115, 101]  -- false
    | .num n => n.text
    | .str items => strText items
    | .arr w [] => 91 :: w.text ++ [93]
    | .arr _ es => 91 :: intercalateB 44 (elemsText es) ++ [93]
    | .obj w [] => 123 :: w.text ++ [125]
    | .obj _ ms => 123 :: intercalateB 44 (membersText ms) ++ [125]
  def elemsText : List (Ws × Doc × Ws) → List Bytes
    | [] => []
    | (w1, d, w2) :: r => (w1.text ++ Doc.text d ++ w2.text) :: elemsText r
  def membersText : List (Ws × List StrItem × Ws × Ws × Doc × Ws) → List Bytes
    | [] => []
    | (w1, k, w2, w3, d, w4) :: r =>
      (w1.text ++ strText k ++ w2.text ++ 58 :: w3.text ++ Doc.text d ++ w4.text) :: membersText r
end

/-- add-or-replace: a duplicate name keeps the first occurrence's position and takes the last value -/
def addOrReplace (kvs : List (Bytes × JVal)) (k : Bytes) (v : JVal) : List (Bytes × JVal) :=
  if kvs.any (·.1 == k) then kvs.map (fun kv => if kv.1 == k then (k, v) else kv) else kvs ++ [(k, v)]

mutual
  def Doc.denote : Doc → JVal
    | .null => .null
    | .true_ => .bool true
    | .false_ => .bool false
    | .num n => n.denote
    | .str items => .str (decodeItems items)
    | .arr _ es => .arr (elemsDenote es)
    | .obj _ ms => .obj (membersDenote ms [])
  def elemsDenote : List (Ws × Doc × Ws) → List JVal
    | [] => []
    | (_, d, _) :: r => Doc.denote d :: elemsDenote r
  def membersDenote : List (Ws × List StrItem × Ws × Ws × Doc × Ws) → List (Bytes × JVal) → List (Bytes × JVal)
    | [], acc => acc
    | (_, k, _, _, d, _) :: r, acc => membersDenote r (addOrReplace acc (decodeItems k) (Doc.denote d))
end

mutual
  /-- well-formedness of the pieces (digits are digits, scalars are scalars, …) -/
  def Doc.ok : Doc → Bool
    | .num n => n.ok
    | .str items => items.all StrItem.ok
    | .arr _ es => elemsOk es
    | .obj _ ms => membersOk ms
    | _ => true
  def elemsOk : List (Ws × Doc × Ws) → Bool
    | [] => true
    | (_, d, _) :: r => Doc.ok d && elemsOk r
  def membersOk : List (Ws × List StrItem × Ws × Ws × Doc × Ws) → Bool
    | [] => true
    | (_, k, _, _, d, _) :: r => k.all StrItem.ok && Doc.ok d && membersOk r
end

mutual
  /-- number of containers enclosing the most deeply nested value (a scalar: 0; `[]`: 0; `[1]`: 1) -/
  def Doc.nest : Doc → Nat
    | .arr _ es => elemsNest es
    | .obj _ ms => membersNest ms
    | _ => 0
  def elemsNest : List (Ws × Doc × Ws) → Nat
    | [] => 0
    | (_, d, _) :: r => max (Doc.nest d + 1) (elemsNest r)
  def membersNest : List (Ws × List StrItem × Ws × Ws × Doc × Ws) → Nat
    | [] => 0
    | (_, _, _, _, d, _) :: r => max (Doc.nest d + 1) (membersNest r)
end

mutual
  def Doc.intsFit : Doc → Bool
    | .num n => n.fits64
    | .arr _ es => elemsFit es
    | .obj _ ms => membersFit ms
    | _ => true
  def elemsFit : List (Ws × Doc × Ws) → Bool
    | [] => true
    | (_, d, _) :: r => Doc.intsFit d && elemsFit r
  def membersFit : List (Ws × List StrItem × Ws × Ws × Doc × Ws) → Bool
    | [] => true
    | (_, _, _, _, d, _) :: r => Doc.intsFit d && membersFit r
end

mutual
  /-- no member name decodes to bytes containing NUL (json-c keys are C strings) -/
  def Doc.keysNulFree : Doc → Bool
    | .arr _ es => elemsKNF es
    | .obj _ ms => membersKNF ms
    | _ => true
  def elemsKNF : List (Ws × Doc × Ws) → Bool
    | [] => true
    | (_, d, _) :: r => Doc.keysNulFree d && elemsKNF r
  def membersKNF : List (Ws × List StrItem × Ws × Ws × Doc × Ws) → Bool
    | [] => true
    | (_, k, _, _, d, _) :: r => !(decodeItems k).contains 0 && Doc.keysNulFree d && membersKNF r
end


mutual
  /-- byte offset (from `off`, where `d.text` starts) of the first value, in document order, that is
  enclosed by `limit` or more containers, given that `d` itself is enclosed by `depth`; `none` if there is none -/
  def Doc.firstDeep (limit depth : Nat) (d : Doc) (off : Nat) : Option Nat :=
    if depth ≥ limit then some off
    else match d with
      | .arr _ es => elemsFirstDeep limit (depth + 1) es (off + 1)
      | .obj _ ms => membersFirstDeep limit (depth + 1) ms (off + 1)
      | _ => none
  def elemsFirstDeep (limit depth : Nat) : List (Ws × Doc × Ws) → Nat → Option Nat
    | [], _ => none
    | (w1, d, w2) :: r, off =>
      match Doc.firstDeep limit depth d (off + w1.length) with
      | some o => some o
      | none => elemsFirstDeep limit depth r (off + w1.length + (Doc.text d).length + w2.length + 1)
  def membersFirstDeep (limit depth : Nat) : List (Ws × List StrItem × Ws × Ws × Doc × Ws) → Nat → Option Nat
    | [], _ => none
    | (w1, k, w2, w3, d, w4) :: r, off =>
      let o := off + w1.length + (strText k).length + w2.length + 1 + w3.length
      match Doc.firstDeep limit depth d o with
      | some x => some x
      | none => membersFirstDeep limit depth r (o + (Doc.text d).length + w4.length + 1)
end

/-- well-formed UTF-8 (RFC 3629: no overlong forms, no surrogates, at most U+10FFFF) -/
def utf8Valid : Bytes → Bool
  | [] => true
  | b0 :: r =>
    if b0 < 0x80 then utf8Valid r
    else if 0xC2 ≤ b0 && b0 ≤ 0xDF then
      match r with
      | b1 :: r1 => (0x80 ≤ b1 && b1 ≤ 0xBF) && utf8Valid r1
      | _ => false
    else if 0xE0 ≤ b0 && b0 ≤ 0xEF then
      match r with
      | b1 :: b2 :: r2 =>
        let lo : UInt8 := if b0 == 0xE0 then 0xA0 else 0x80
        let hi : UInt8 := if b0 == 0xED then 0x9F else 0xBF
        (lo ≤ b1 && b1 ≤ hi) && (0x80 ≤ b2 && b2 ≤ 0xBF) && utf8Valid r2
      | _ => false
    else if 0xF0 ≤ b0 && b0 ≤ 0xF4 then
      match r with
      | b1 :: b2 :: b3 :: r3 =>
        let lo : UInt8 := if b0 == 0xF0 then 0x90 else 0x80
        let hi : UInt8 := if b0 == 0xF4 then 0x8F else 0xBF
        (lo ≤ b1 && b1 ≤ hi) && (0x80 ≤ b2 && b2 ≤ 0xBF) && (0x80 ≤ b3 && b3 ≤ 0xBF) && utf8Valid r3
      | _ => false
    else false

/-- JSON-text = ws value ws -/
structure Text where
  lead : Ws
  doc : Doc
  trail : Ws
  deriving Repr

def Text.text (t : Text) : Bytes := t.lead.text ++ t.doc.text ++ t.trail.text

/-! ### reader (untrusted; the driver checks `d.text = input`) -/

def readWs : Bytes → Ws × Bytes
  | 32 :: r => let (w, r') := readWs r; (.sp :: w, r')
  | 9 :: r => let (w, r') := readWs r; (.tab :: w, r')
  | 10 :: r => let (w, r') := readWs r; (.lf :: w, r')
  | 13 :: r => let (w, r') := readWs r; (.cr :: w, r')
  | r => ([], r)

def readHex (b : UInt8) : Option HexDigit :=
  if 48 ≤ b && b ≤ 57 then some ⟨b.toNat - 48, false⟩
  else if 97 ≤ b && b ≤ 102 then some ⟨b.toNat - 87, false⟩
  else if 65 ≤ b && b ≤ 70 then some ⟨b.toNat - 55, true⟩
  else none

/-- items up to the closing quote; returns the rest after the quote -/
def readItems : Nat → Bytes → Option (List StrItem × Bytes)
  | 0, _ => none
  | fuel + 1, bs =>
    match bs with
    | 34 :: r => some ([], r)
    | 92 :: 117 :: a :: b :: c :: d :: r => do
      let a ← readHex a; let b ← readHex b; let c ← readHex c; let d ← readHex d
      let (is, r') ← readItems fuel r
      pure (.u a b c d :: is, r')
    | 92 :: e :: r => do
      let e ← (match e with
        | 34 => some Esc.quote | 92 => some Esc.backslash | 47 => some Esc.slash | 98 => some Esc.b
        | 102 => some Esc.f | 110 => some Esc.n | 114 => some Esc.r | 116 => some Esc.t | _ => none)
      let (is, r') ← readItems fuel r
      pure (.esc e :: is, r')
    | b0 :: r => do
      let (is, r') ← readItems fuel r
      pure (.raw b0 :: is, r')
    | [] => none

def readDigits (bs : Bytes) : List Nat × Bytes :=
  let ds := bs.takeWhile (fun b => 48 ≤ b && b ≤ 57)
  (ds.map (fun b => b.toNat - 48), bs.drop ds.length)

def readNum (bs : Bytes) : Option (Num × Bytes) :=
  let (neg, r) := match bs with | 45 :: r => (true, r) | r => (false, r)
  let (ip, r) := readDigits r
  if ip.isEmpty then none else
  let (frac, r) := match r with
    | 46 :: r' => let (f, r'') := readDigits r'; (some f, r'')
    | r => (none, r)
  let (ex, r) := match r with
    | 101 :: r' | 69 :: r' =>
      let up := r.head? == some 69
      let (sg, r'') := match r' with | 45 :: x => (some true, x) | 43 :: x => (some false, x) | x => (none, x)
      let (e, r3) := readDigits r''
      (some (up, sg, e), r3)
    | r => (none, r)
  some (⟨neg, ip, frac, ex⟩, r)

def startsWith (p : Bytes) (bs : Bytes) : Option Bytes := if bs.take p.length == p then some (bs.drop p.length) else none

def readDoc : Nat → Bytes → Option (Doc × Bytes)
  | 0, _ => none
  | fuel + 1, bs =>
    match bs with
    | 110 :: _ => (startsWith [110, 117, 108, 108] bs).map (Doc.null, ·)
    | 116 :: _ => (startsWith [116, 114, 117, 101] bs).map (Doc.true_, ·)
    | 102 :: _ => (startsWith [102, 97, 108, 115, 101] bs).map (Doc.false_, ·)
    | 34 :: r => (readItems (r.length + 1) r).map fun (is, r') => (Doc.str is, r')
    | 91 :: r =>
      let (w0, r0) := readWs r
      match r0 with
      | 93 :: r' => some (.arr w0 [], r')
      | _ =>
        let rec elems (f : Nat) (bs : Bytes) (acc : List (Ws × Doc × Ws)) : Option (Doc × Bytes) :=
          match f with
          | 0 => none
          | f + 1 =>
            let (w1, b1) := readWs bs
            match readDoc fuel b1 with
            | none => none
            | some (d, b2) =>
              let (w2, b3) := readWs b2
              match b3 with
              | 44 :: b4 => elems f b4 ((w1, d, w2) :: acc)
              | 93 :: b4 => some (.arr [] ((w1, d, w2) :: acc).reverse, b4)
              | _ => none
        elems fuel r []
    | 123 :: r =>
      let (w0, r0) := readWs r
      match r0 with
      | 125 :: r' => some (.obj w0 [], r')
      | _ =>
        let rec members (f : Nat) (bs : Bytes) (acc : List (Ws × List StrItem × Ws × Ws × Doc × Ws)) : Option (Doc × Bytes) :=
          match f with
          | 0 => none
          | f + 1 =>
            let (w1, b1) := readWs bs
            match b1 with
            | 34 :: b2 =>
              match readItems (b2.length + 1) b2 with
              | none => none
              | some (k, b3) =>
                let (w2, b4) := readWs b3
                match b4 with
                | 58 :: b5 =>
                  let (w3, b6) := readWs b5
                  match readDoc fuel b6 with
                  | none => none
                  | some (d, b7) =>
                    let (w4, b8) := readWs b7
                    match b8 with
                    | 44 :: b9 => members f b9 ((w1, k, w2, w3, d, w4) :: acc)
                    | 125 :: b9 => some (.obj [] ((w1, k, w2, w3, d, w4) :: acc).reverse, b9)
                    | _ => none
                | _ => none
            | _ => none
        members fuel r []
    | _ => (readNum bs).map fun (n, r) => (Doc.num n, r)

/-- read a whole JSON text; answers only with a `Text` whose rendering is the input and whose pieces are well-formed -/
def Text.ofBytes (bs : Bytes) : Option Text :=
  let (w0, r0) := readWs bs
  match readDoc (bs.length + 1) r0 with
  | none => none
  | some (d, r1) =>
    let (w1, r2) := readWs r1
    let t : Text := ⟨w0, d, w1⟩
    if r2.isEmpty && d.ok && t.text == bs && utf8Valid bs then some t else none

end JsonC.Rfc8259
