/-
  Specification for C12: RFC 6901 (JSON Pointer) evaluation over `JVal` trees, written from the
  RFC text, not from json_pointer.c: no buffers, no offsets, no errno.

  §3  json-pointer    = *( "/" reference-token )
      reference-token = *( unescaped / escaped )        escaped = "~" ( "0" / "1" )
  §4  each token is decoded by "first transforming any occurrence of the sequence '~1' to '/', and
      then transforming any occurrence of the sequence '~0' to '~'";
      object: "the new referenced value is the object member with the name identified by the
      reference token"; array: the token is `array-index = %x30 / ( %x31-39 *(%x30-39) )` and names
      the element with that zero-based index, or it is "-" (the nonexistent element after the last
      one: an error for a lookup).
  A JSON null member or element is a value like any other: it IS a valid target.

  A node is reported as its position (child indices from the root) together with its value.

  `set` is not part of RFC 6901; its meaning here is json-c's documented one (json_pointer.h,
  json_object_array_put_idx): the parent must resolve; object parent: add-or-replace the member
  named by the unescaped last token (an existing member keeps its position, a new one goes to the
  end); array parent: "-" appends, an index below the length replaces that element, an index at or
  beyond the length extends the array, the gap (if any) being filled with JSON nulls — provided the
  array can be grown that far (`fits`).
-/
import JsonC.Base.Basic
import JsonC.Generated.Consts
import JsonC.Model.Value
import JsonC.Spec.OrdMap

namespace JsonC.Rfc6901
open JsonC

/-! ### syntax -/

/-- split at every `/` (always at least one piece) -/
def splitSlash : Bytes → List Bytes
  | [] => [[]]
  | c :: cs =>
    if c = 47 then [] :: splitSlash cs
    else match splitSlash cs with
      | t :: ts => (c :: t) :: ts
      | [] => [[c]]

/-- the reference tokens of a pointer; `none`: not of the form *( "/" token ) -/
def tokens : Bytes → Option (List Bytes)
  | [] => some []
  | c :: rest => if c = 47 then some (splitSlash rest) else none

/-- replace every occurrence of the two-byte sequence `a b` by `r`, left to right, without
rescanning replaced text -/
def subst2 (a b r : UInt8) : Bytes → Bytes
  | x :: y :: rest => if x = a ∧ y = b then r :: subst2 a b r rest else x :: subst2 a b r (y :: rest)
  | l => l

/-- §4: "~1" → "/" first, then "~0" → "~" -/
def unescape (tok : Bytes) : Bytes := subst2 126 48 126 (subst2 126 49 47 tok)

/-- the ABNF of §3 read strictly: every `~` is followed by `0` or `1` -/
def escapesWellFormed : Bytes → Bool
  | [] => true
  | x :: rest =>
    if x = 126 then
      match rest with
      | y :: rest' => (y = 48 || y = 49) && escapesWellFormed rest'
      | [] => false
    else escapesWellFormed rest

/-! ### one step -/

def isDigit (c : UInt8) : Bool := 48 ≤ c && c ≤ 57

def decimal (ds : Bytes) : Nat := ds.foldl (fun a d => 10 * a + (d.toNat - 48)) 0

/-- `array-index = %x30 / ( %x31-39 *(%x30-39) )` and its value -/
def arrayIndex : Bytes → Option Nat
  | [] => none
  | [c] => if isDigit c then some (c.toNat - 48) else none
  | c :: rest => if c ≠ 48 ∧ (c :: rest).all isDigit then some (decimal (c :: rest)) else none

/-- the object member named `k`: its position among the members and its value -/
def member (k : Bytes) : List (Bytes × JVal) → Option (Nat × JVal)
  | [] => none
  | (k', v) :: rest => if k' = k then some (0, v) else (member k rest).map (fun p => (p.1 + 1, p.2))

/-- the child of `t` that reference token `tok` names: its child index and its value -/
def step (t : JVal) (tok : Bytes) : Option (Nat × JVal) :=
  match t with
  | .obj kvs => member (unescape tok) kvs
  | .arr xs =>
    match arrayIndex (unescape tok) with
    | some i => xs[i]?.map (fun c => (i, c))
    | none => none                                   -- includes "-"
  | _ => none

/-! ### evaluation -/

/-- walk the tokens: position and value of the node reached -/
def evalTokens : JVal → List Bytes → Option (List Nat × JVal)
  | t, [] => some ([], t)
  | t, tok :: rest =>
    match step t tok with
    | none => none
    | some (i, c) => (evalTokens c rest).map (fun r => (i :: r.1, r.2))

/-- RFC 6901 evaluation of pointer `p` against document `t` (a `~` not followed by `0`/`1` is
taken literally, as every "~1 then ~0" decoder does) -/
def eval (t : JVal) (p : Bytes) : Option (List Nat × JVal) :=
  match tokens p with
  | some toks => evalTokens t toks
  | none => none

/-- the strict reading: a pointer that does not conform to the ABNF is an error -/
def evalStrict (t : JVal) (p : Bytes) : Option (List Nat × JVal) :=
  if escapesWellFormed p then eval t p else none

/-! ### set (json-c semantics, see the header) -/

/-- put at index: replace inside, extend (null-filled) at or beyond the end -/
def putIdx (xs : List JVal) (i : Nat) (v : JVal) : List JVal :=
  if i < xs.length then xs.set i v else xs ++ List.replicate (i - xs.length) .null ++ [v]

/-- more than SIZE_MAX / sizeof(void *) elements cannot exist; below that, memory decides -/
def fits (mem : Nat → Bool) (n : Nat) : Bool :=
  decide (n ≤ Generated.sizeMax / Generated.sizeofPtr) && mem n

/-- `parent` with the child named by the last token `tok` set to `v`, and that child's index -/
def setLast (mem : Nat → Bool) (parent : JVal) (tok : Bytes) (v : JVal) : Option (JVal × Nat) :=
  match parent with
  | .obj kvs =>
    let m := OrdMap.add kvs (unescape tok) v
    (member (unescape tok) m).map (fun p => (.obj m, p.1))
  | .arr xs =>
    if unescape tok = [45] then
      if fits mem (xs.length + 1) then some (.arr (xs ++ [v]), xs.length) else none
    else
      match arrayIndex (unescape tok) with
      | some i => if fits mem (i + 1) then some (.arr (putIdx xs i v), i) else none
      | none => none
  | _ => none

/-- `t` with its `i`-th child replaced -/
def withChild (t : JVal) (i : Nat) (c : JVal) : JVal :=
  match t with
  | .arr xs => .arr (xs.set i c)
  | .obj kvs => .obj (match kvs[i]? with | some (k, _) => kvs.set i (k, c) | none => kvs)
  | t => t

/-- the document after setting the location named by the tokens to `v`, and that location -/
def setTokens (mem : Nat → Bool) : JVal → List Bytes → JVal → Option (JVal × List Nat)
  | _, [], v => some (v, [])
  | t, [tok], v => (setLast mem t tok v).map (fun r => (r.1, [r.2]))
  | t, tok :: rest, v =>
    match step t tok with
    | none => none
    | some (i, c) => (setTokens mem c rest v).map (fun r => (withChild t i r.1, i :: r.2))

def set (mem : Nat → Bool) (t : JVal) (p : Bytes) (v : JVal) : Option (JVal × List Nat) :=
  match tokens p with
  | some toks => setTokens mem t toks v
  | none => none

end JsonC.Rfc6901
