/-
  Specification for C10: what reading a node as int32 / int64 / uint64 / double / boolean means,
  written on exact integers and exact dyadic rationals, without reference to json_object.c's
  control flow.  Source: the property text and the header documentation of json_object.h
  (json_object_get_int, _get_int64, _get_uint64, _get_double, _get_boolean, _int_inc).

  * a number is coerced to an integer type [lo, hi] by `clamp lo hi (truncToZero v)`;
    errno = ERANGE exactly when the number itself lies outside [lo, hi] ("Sets errno to ERANGE if
    the value exceeds the range of ..."), otherwise errno stays 0;
  * NaN gives the documented sentinel (INT32_MIN / INT64_MIN / 0) with EINVAL;
  * strings are converted by the strtoll grammar ("Strings will be parsed as an integer"): the
    exact integer denoted by the longest prefix `isspace* [+-]? digit+`, then coerced as above;
    no such prefix: 0 with EINVAL;
  * NULL is 0 without error, booleans are 0/1.
  Where the documentation leaves a choice (or contradicts itself) the answer lists every allowed
  value / errno class; `[]` for errno means "not specified".
-/
import JsonC.Base.Basic
import JsonC.Model.Value
import JsonC.Libc.Dbl
import JsonC.Libc.DblDecode
import JsonC.Libc.Strtoll
import JsonC.Libc.StrtodRef

namespace JsonC.Coerce
open JsonC JsonC.Dbl JsonC.Libc

/-- nearest value of the interval [lo, hi] -/
def clamp (lo hi x : Int) : Int := if x < lo then lo else if hi < x then hi else x

/-- the integer part of ±num/den (rounding toward zero) -/
def truncToZero (neg : Bool) (num den : Nat) : Int :=
  if neg then -((num / den : Nat) : Int) else ((num / den : Nat) : Int)

/-- an integer target type: its range and the value documented for NaN -/
structure IntTy where
  lo : Int
  hi : Int
  nanRet : Int
  deriving Repr, DecidableEq

def int32 : IntTy := ⟨INT32_MIN, INT32_MAX, INT32_MIN⟩
def int64 : IntTy := ⟨INT64_MIN, INT64_MAX, INT64_MIN⟩
def uint64 : IntTy := ⟨0, UINT64_MAX, 0⟩

/-- the documented answer: the value and the errno classes allowed after the call when errno was 0
before it (`[]` = the documentation does not say) -/
structure Ans where
  val : Int
  errno : List Errno
  deriving Repr, DecidableEq

def Ans.allows (a : Ans) (v : Int) (e : Errno) : Prop := v = a.val ∧ (a.errno = [] ∨ e ∈ a.errno)

instance (a : Ans) (v : Int) (e : Errno) : Decidable (a.allows v e) := by unfold Ans.allows; infer_instance

/-- an exact integer read as type `t` -/
def ofInt (t : IntTy) (v : Int) : Ans :=
  ⟨clamp t.lo t.hi v, if t.lo ≤ v ∧ v ≤ t.hi then [.none] else [.ERANGE]⟩

/-- a double (bit pattern) read as type `t` -/
def ofDouble (t : IntTy) (bits : Nat) : Ans :=
  match decode bits with
  | .nan => ⟨t.nanRet, [.EINVAL]⟩
  | .inf neg => ⟨if neg then t.lo else t.hi, [.ERANGE]⟩
  | .fin neg num den =>
    let sn : Int := if neg then -(num : Int) else num
    ⟨clamp t.lo t.hi (truncToZero neg num den),
     if t.lo * den ≤ sn ∧ sn ≤ t.hi * den then [.none] else [.ERANGE]⟩

/-- text read as a signed type -/
def ofTextSigned (t : IntTy) (s : Bytes) : Ans :=
  match scanInt (cstr s) with
  | none => ⟨0, [.EINVAL]⟩
  | some r => ofInt t r.value

/-- text read as uint64: a negative number has no unsigned conversion (json_parse_uint64 reports
failure) and lies below the range; either documented class is accepted for it, the value is 0 -/
def ofTextUnsigned (s : Bytes) : Ans :=
  match scanInt (cstr s) with
  | none => ⟨0, [.EINVAL]⟩
  | some r =>
    if r.neg then (if r.mag = 0 then ⟨0, [.none, .EINVAL]⟩ else ⟨0, [.ERANGE, .EINVAL]⟩)
    else ofInt uint64 r.mag

/-- json_object_get_int / _get_int64 : `t` = int32 / int64.  Arrays and objects: 0, errno not specified. -/
def toSigned (t : IntTy) : JVal → Ans
  | .null => ⟨0, [.none]⟩
  | .bool b => ⟨if b then 1 else 0, [.none]⟩
  | .int _ v => ofInt t v
  | .dbl bits _ => ofDouble t bits.toNat
  | .str s => ofTextSigned t s
  | .arr _ => ⟨0, []⟩
  | .obj _ => ⟨0, []⟩

/-- json_object_get_uint64 -/
def toUnsigned : JVal → Ans
  | .null => ⟨0, [.none]⟩
  | .bool b => ⟨if b then 1 else 0, [.none]⟩
  | .int _ v => ofInt uint64 v
  | .dbl bits _ => ofDouble uint64 bits.toNat
  | .str s => ofTextUnsigned s
  | .arr _ => ⟨0, []⟩
  | .obj _ => ⟨0, []⟩

/-- json_object_get_boolean: numbers are true iff non-zero (NaN and infinities are not zero),
strings iff non-empty, everything else false -/
def toBool : JVal → Bool
  | .null => false
  | .bool b => b
  | .int _ v => v ≠ 0
  | .dbl bits _ => (match decode bits.toNat with | .fin _ num _ => num ≠ 0 | _ => true)
  | .str s => s.length ≠ 0
  | .arr _ => false
  | .obj _ => false

/-! ### double -/

/-- `x` is the integer nearest to `a` among those representable with 53 significant bits, ties to
the even mantissa (IEEE-754 round-to-nearest-even of an integer below 2^64 never overflows):
below 2^53 every integer is representable; in the binade [2^(52+k), 2^(53+k)) the representable
integers are the multiples of 2^k. -/
def IsRNE (a x : Nat) : Prop :=
  if a < 2 ^ 53 then x = a
  else
    let k := Nat.log2 a - 52
    x % 2 ^ k = 0 ∧ 2 * (x - a) ≤ 2 ^ k ∧ 2 * (a - x) ≤ 2 ^ k ∧
      ((2 * (x - a) = 2 ^ k ∨ 2 * (a - x) = 2 ^ k) → x / 2 ^ k % 2 = 0)

instance (a x : Nat) : Decidable (IsRNE a x) := by unfold IsRNE; infer_instance

/-- `b` is the bit pattern of the double nearest to the integer `v` -/
def isNearestBits (v : Int) (b : Nat) : Bool :=
  match decode b with
  | .fin neg num den => neg == decide (v < 0) && num % den == 0 && decide (IsRNE v.natAbs (num / den))
  | _ => false

/-- an allowed double result: one bit pattern, the double nearest to an integer, or any NaN -/
inductive DPat where
  | bits (b : Nat)
  | rne (v : Int)
  | anyNaN
  deriving Repr, DecidableEq

def DPat.matches (p : DPat) (b : Nat) : Bool :=
  match p with
  | .bits x => x == b
  | .rne v => isNearestBits v b
  | .anyNaN => decode b == .nan

structure DAns where
  vals : List DPat
  errno : List Errno
  deriving Repr, DecidableEq

def DAns.allows (a : DAns) (b : Nat) (e : Errno) : Prop :=
  a.vals.any (·.matches b) = true ∧ (a.errno = [] ∨ e ∈ a.errno)

instance (a : DAns) (b : Nat) (e : Errno) : Decidable (a.allows b e) := by unfold DAns.allows; infer_instance

/-- the double nearest to an integer (ties to even), computed by the independent reference
`roundNE`; the driver prints it as the expected pattern for `DPat.rne` -/
def nearestDouble (v : Int) : Nat :=
  (if v < 0 then 2 ^ 63 else 0) + (roundNE v.natAbs 1).toNat

def isInfBits (b : Nat) : Bool := b % 2 ^ 63 == posInf

/-- text read as a double, `strtod` being the C library's conversion: the whole text (after
leading white space) must be a floating literal, otherwise 0.0 (or NaN: the header says both)
with EINVAL; a value too big for a double is the closest infinity with ERANGE. -/
def ofTextDouble (strtod : Bytes → DRes) (s : Bytes) : DAns :=
  let r := strtod (cstr s)
  if r.consumed = 0 ∨ r.consumed ≠ (cstr s).length then ⟨[.bits 0, .anyNaN], [.EINVAL]⟩
  else if isInfBits r.bits ∧ r.errno = .ERANGE then ⟨[.bits r.bits], [.ERANGE]⟩
  else ⟨[.bits r.bits], [r.errno]⟩

/-- json_object_get_double, as documented (including the paragraph on arrays) -/
def toDouble (strtod : Bytes → DRes) : JVal → DAns
  | .null => ⟨[.bits 0], [.none]⟩
  | .bool b => ⟨[.bits (if b then 0x3FF0000000000000 else 0)], [.none]⟩
  | .int _ v => ⟨[.rne v], [.none]⟩
  | .dbl bits _ => ⟨[.bits bits.toNat], [.none]⟩
  | .str s => ofTextDouble strtod s
  | .arr [] => ⟨[.bits 0], [.none]⟩
  | .arr [x] => toDouble strtod x
  | .arr _ => ⟨[.anyNaN], [.EINVAL]⟩
  | .obj _ => ⟨[.bits 0], [.EINVAL]⟩

/-! ### increment -/

/-- json_object_int_inc: exact addition, saturating at the ends of [INT64_MIN, UINT64_MAX] -/
def incValue (cur v : Int) : Int := clamp INT64_MIN UINT64_MAX (cur + v)

/-- representation after the increment: a node keeps its representation whenever that can hold the
sum; an int64 node that overflows upward becomes uint64, a uint64 node that goes negative int64 -/
def incSigned (wasSigned : Bool) (cur v : Int) : Bool :=
  if wasSigned then decide (cur + v ≤ INT64_MAX) else decide (cur + v < 0)

end JsonC.Coerce
