/-
  Specification vocabulary for C14 (locale independence), independent of the C representation.

  * `SepOnly c k` – the hypothesis about libc that no proof can discharge: the text `k` that
    snprintf produces under a comma-decimal locale differs from the text `c` it produces under the
    "C" locale only in the decimal separator (the radix character is the single byte `,` instead
    of `.`; digits, sign, exponent are the same; no grouping characters).
  * `SameLocale` – what "leaves the caller's locale untouched and releases what it created" means
    for an observation (thread handle, live locale objects, global numeric conventions) taken
    before and after a call.
-/
import JsonC.Base.Basic

namespace JsonC.Locale
open JsonC

/-- `k` is `c` with its decimal point (the first `.`, if any) written as `,`; `c` has no comma. -/
def SepOnly (c k : Bytes) : Prop :=
  (44 : UInt8) ∉ c ∧
    (((46 : UInt8) ∉ c ∧ k = c) ∨
     ∃ pre suf, c = pre ++ (46 : UInt8) :: suf ∧ (46 : UInt8) ∉ pre ∧ k = pre ++ (44 : UInt8) :: suf)

/-- an observation of the locale state of a thread: (current handle, live locale objects, global numeric) -/
structure Obs (H O N : Type) where
  handle : H
  liveObjects : List O
  globalNumeric : N

/-- the call left everything as it found it -/
def SameLocale {H O N : Type} (before after : Obs H O N) : Prop :=
  after.handle = before.handle ∧ after.liveObjects = before.liveObjects ∧
    after.globalNumeric = before.globalNumeric

end JsonC.Locale
