/-
  Ownership specification for C05, independent of reference counts.

  The world is a graph of nodes (leaf / sequence with null gaps / insertion-ordered map) plus, for
  every node, the number of references the *caller* holds (`ext`).  An API call edits the graph and
  `ext` according to the documented ownership rules; then exactly the nodes that are no longer
  reachable from a caller-held reference are destroyed ("a node is destroyed exactly when its last
  owner releases it" = it dies when, and only when, no chain of owners leads to it any more).
  `put` reports "freed" iff its node is among them; a destroyed node's delete callback runs then,
  and only then, or when set_userdata / set_serializer replaces it.

  No reference counts, no work list, no teardown order: a tracing collector run after every call.
-/
import JsonC.Base.Basic

namespace JsonC.Ownership
open JsonC

abbrev Id := Nat
abbrev Key := Bytes
abbrev Val := Option Id          -- none = JSON null (no node)

inductive Shape where
  | leaf
  | seq (xs : List Val)
  | map (kvs : List (Key × Val))
  deriving Repr, DecidableEq

def Shape.children : Shape → List Id
  | .leaf => []
  | .seq xs => xs.filterMap id
  | .map kvs => kvs.filterMap (·.2)

structure SNode where
  shape : Shape
  cb : Option Nat                -- delete callback installed (with its token)
  deriving Repr, DecidableEq

structure World where
  nodes : List (Id × SNode) := []
  ext : Id → Nat := fun _ => 0
  next : Id := 0

def World.find (w : World) (i : Id) : Option SNode := (w.nodes.find? (·.1 == i)).map (·.2)

def World.update (w : World) (i : Id) (n : SNode) : World :=
  { w with nodes := w.nodes.map (fun p => if p.1 == i then (i, n) else p) }

def World.kids (w : World) (i : Id) : List Id :=
  match w.find i with
  | some n => n.shape.children
  | none => []

/-- ids reachable from `todo` (depth-first marking; `fuel` ≥ number of edges + |todo|) -/
def mark (w : World) : Nat → List Id → List Id → List Id
  | 0, _, seen => seen
  | _ + 1, [], seen => seen
  | fuel + 1, i :: todo, seen =>
    if seen.contains i then mark w fuel todo seen else mark w fuel (w.kids i ++ todo) (i :: seen)

def World.reachable (w : World) : List Id :=
  let roots := (w.nodes.map (·.1)).filter (fun i => w.ext i > 0)
  let edges := (w.nodes.map (fun p => p.2.shape.children.length)).sum
  mark w (edges + roots.length + 1) roots []

/-- what one call did, as the property sees it -/
structure Effect where
  ret : Int := 0
  made : Option Id := none
  destroyed : List Id := []                 -- as a set
  callbacks : List (Id × Nat × Bool) := []  -- (node, token, because-destroyed), as a set
  deriving Repr, DecidableEq

/-- destroy what no owner chain reaches any more -/
def collect (w : World) (ret : Int) (pre : List (Id × Nat × Bool) := []) (made : Option Id := none) :
    World × Effect :=
  let keep := w.reachable
  let gone := w.nodes.filter (fun p => !keep.contains p.1)
  let cbs := gone.filterMap (fun p => p.2.cb.map (fun t => (p.1, t, true)))
  ({ w with nodes := w.nodes.filter (fun p => keep.contains p.1) },
   { ret := ret, made := made, destroyed := gone.map (·.1), callbacks := pre ++ cbs })

def give (ext : Id → Nat) : Val → Id → Nat
  | none => ext
  | some j => fun x => if x = j then ext x - 1 else ext x

def mapSet : List (Key × Val) → Key → Val → List (Key × Val)
  | [], k, v => [(k, v)]
  | (k', v') :: rest, k, v => if k' = k then (k', v) :: rest else (k', v') :: mapSet rest k v

inductive Call where
  | new (shape : Shape)
  | get (i : Id)
  | put (i : Id)
  | mapAdd (p : Id) (k : Key) (v : Val)
  | mapDel (p : Id) (k : Key)
  | seqAdd (p : Id) (v : Val)
  | seqPut (p : Id) (idx : Nat) (v : Val)
  | seqIns (p : Id) (idx : Nat) (v : Val)
  | seqDel (p : Id) (idx count : Nat)
  | setCb (i : Id) (tok : Option Nat)
  deriving Repr, DecidableEq

/-- index requests the library must refuse whatever the sequence holds (idx + 1 not addressable) -/
def idxImpossible (idx : Nat) : Bool := idx + 1 > 2 ^ 61 - 1

/-- `none`: the call is outside the documented rules (or not specified here) -/
def World.call (w : World) : Call → Option (World × Effect)
  | .new shape =>
    let i := w.next
    some ({ nodes := w.nodes ++ [(i, ⟨shape, some i⟩)], next := i + 1,
            ext := fun x => if x = i then 1 else w.ext x }, { made := some i })
  | .get i => (w.find i).map fun _ =>
      ({ w with ext := fun x => if x = i then w.ext x + 1 else w.ext x }, {})
  | .put i =>
    if w.ext i = 0 then none
    else
      let (w', e) := collect { w with ext := give w.ext (some i) } 0
      some (w', { e with ret := if e.destroyed.contains i then 1 else 0 })
  | .mapAdd p k v => do
    let n ← w.find p
    match n.shape with
    | .map kvs =>
      if v = some p then some (w, { ret := -1 })
      else
        some (collect { w.update p { n with shape := .map (mapSet kvs k v) } with ext := give w.ext v } 0)
    | _ => none
  | .mapDel p k => do
    let n ← w.find p
    match n.shape with
    | .map kvs => some (collect (w.update p { n with shape := .map (kvs.filter (·.1 ≠ k)) }) 0)
    | _ => none
  | .seqAdd p v => do
    let n ← w.find p
    match n.shape with
    | .seq xs => some (collect { w.update p { n with shape := .seq (xs ++ [v]) } with ext := give w.ext v } 0)
    | _ => none
  | .seqPut p idx v => do
    let n ← w.find p
    match n.shape with
    | .seq xs =>
      if idxImpossible idx then some (w, { ret := -1 })
      else
        let xs' := if idx < xs.length then xs.set idx v else xs ++ List.replicate (idx - xs.length) none ++ [v]
        some (collect { w.update p { n with shape := .seq xs' } with ext := give w.ext v } 0)
    | _ => none
  | .seqIns p idx v => do
    let n ← w.find p
    match n.shape with
    | .seq xs =>
      if idxImpossible idx then some (w, { ret := -1 })
      else
        let xs' := if idx < xs.length then xs.take idx ++ v :: xs.drop idx
                   else xs ++ List.replicate (idx - xs.length) none ++ [v]
        some (collect { w.update p { n with shape := .seq xs' } with ext := give w.ext v } 0)
    | _ => none
  | .seqDel p idx count => do
    let n ← w.find p
    match n.shape with
    | .seq xs =>
      if idx ≥ xs.length ∨ idx + count > xs.length then some (w, { ret := -1 })
      else some (collect (w.update p { n with shape := .seq (xs.take idx ++ xs.drop (idx + count)) }) 0)
    | _ => none
  | .setCb i tok => do
    let n ← w.find i
    let pre := match n.cb with | some t => [(i, t, false)] | none => []
    some (w.update i { n with cb := tok }, { callbacks := pre })

/-- deep copy that succeeds: a fresh, disjoint tree of the same shape, numbered in pre-order;
the caller receives one reference to its root, every other new node is owned by its new parent -/
def cloneKids (rec : World → Id → Option (World × Id)) : World → List Val → Option (World × List Val)
  | w, [] => some (w, [])
  | w, none :: rest => do
    let (w', vs) ← cloneKids rec w rest
    pure (w', none :: vs)
  | w, some c :: rest => do
    let (w1, d) ← rec w c
    let (w2, vs) ← cloneKids rec w1 rest
    pure (w2, some d :: vs)

def clone : Nat → World → Id → Option (World × Id)
  | 0, _, _ => none
  | fuel + 1, w, src => do
    let n ← w.find src
    let d := w.next
    -- reserve the id first (pre-order numbering), fill the shape afterwards
    let w0 : World := { w with nodes := w.nodes ++ [(d, ⟨.leaf, some d⟩)], next := d + 1 }
    match n.shape with
    | .leaf => pure (w0, d)
    | .seq xs => do
      let (w1, vs) ← cloneKids (clone fuel) w0 xs
      pure (w1.update d ⟨.seq vs, some d⟩, d)
    | .map kvs => do
      let (w1, vs) ← cloneKids (clone fuel) w0 (kvs.map (·.2))
      pure (w1.update d ⟨.map ((kvs.map (·.1)).zip vs), some d⟩, d)

def World.deepCopy (w : World) (src : Id) : Option (World × Effect) := do
  let (w1, d) ← clone (w.nodes.length + 1) w src
  pure ({ w1 with ext := fun x => if x = d then 1 else w1.ext x }, { ret := 0, made := some d })

end JsonC.Ownership
