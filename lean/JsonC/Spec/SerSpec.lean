/-
  Specification side of C02 (serialization): what the property demands of the text, stated on
  the RFC 8259 datatype `Rfc8259.Doc`, independently of printbufs, buffers and escape loops.

  * `stripColor`  : the text with the ANSI colour escapes (ESC … 'm') removed.
  * `docOf`       : the RFC 8259 document, *with the layout the flags prescribe*, that the tree
                    must be rendered as; `none` exactly when the tree has no such rendering
                    (NaN/Infinity, retained number text or libc `%.17g` output that is not an RFC
                    number).  String bytes ≥ 0x80 are `raw` items: the rendering is RFC 8259 text
                    (which must be UTF-8) exactly when every string and key is UTF-8 (`utf8Tree`).
  * `valEq`       : the equality of the property: same shape, integers by value (whatever the C
                    type), doubles by IEEE bit pattern (retained text ignored), strings and keys by
                    bytes, members in the same order.
  * `docTokens`   : the token sequence of a document (all insignificant whitespace dropped).
-/
import JsonC.Spec.Rfc8259
import JsonC.Model.Serialize

namespace JsonC.SerSpec
open JsonC Rfc8259 Serialize

/-! ### colour -/

/-- remove every `ESC … m` sequence (`inEsc` = inside one) -/
def strip : Bool → Bytes → Bytes
  | _, [] => []
  | true, c :: r => if c == 109 then strip false r else strip true r
  | false, c :: r => if c == 27 then strip true r else c :: strip false r

def stripColor (t : Bytes) : Bytes := strip false t

/-! ### strings -/

/-- What the serializer emits for one byte of a string (any byte string, UTF-8 or not):
the two-character escapes, `\u00XX` (lower-case hex) for the other control bytes, `\/` unless
NOSLASHESCAPE, and **every other byte verbatim — in particular every byte ≥ 0x80**.  So the emitted
string body is UTF-8 exactly when the string is (`ser_utf8_iff` in Props/C02). -/
def escByte (noSlash : Bool) (c : UInt8) : Bytes :=
  if c == 8 then [92, 98]
  else if c == 10 then [92, 110]
  else if c == 13 then [92, 114]
  else if c == 9 then [92, 116]
  else if c == 12 then [92, 102]
  else if c == 34 then [92, 34]
  else if c == 92 then [92, 92]
  else if c == 47 then (if noSlash then [47] else [92, 47])
  else if c < 32 then [92, 117, 48, 48, (if c < 16 then 48 else 49), hexLower (c.toNat % 16)]
  else [c]
where
  hexLower (n : Nat) : UInt8 := if n < 10 then UInt8.ofNat (48 + n) else UInt8.ofNat (87 + n)

def escBytes (noSlash : Bool) (s : Bytes) : Bytes := s.flatMap (escByte noSlash)

def hexDigitOf (n : Nat) : HexDigit := ⟨n, false⟩

/-- the item json_escape_str must emit for one byte of the string -/
def itemOf (noSlash : Bool) (c : UInt8) : StrItem :=
  if c == 8 then .esc .b
  else if c == 10 then .esc .n
  else if c == 13 then .esc .r
  else if c == 9 then .esc .t
  else if c == 12 then .esc .f
  else if c == 34 then .esc .quote
  else if c == 92 then .esc .backslash
  else if c == 47 then (if noSlash then .raw 47 else .esc .slash)
  else if c < 32 then .u (hexDigitOf 0) (hexDigitOf 0) (hexDigitOf (c.toNat / 16)) (hexDigitOf (c.toNat % 16))
  else .raw c

/-- the string items for a byte string (UTF-8 or not: RFC 8259's requirement that the text be UTF-8
is `Rfc8259.utf8Valid` on the whole text, see `utf8Tree`) -/
def itemsOf (noSlash : Bool) (s : Bytes) : List StrItem := s.map (itemOf noSlash)

/-! ### numbers -/

/-- decimal digits, most significant first -/
def natDigs (n : Nat) : List Nat :=
  if _h : n < 10 then [n] else natDigs (n / 10) ++ [n % 10]
termination_by n
decreasing_by omega

def numOfInt (v : Int) : Num := ⟨v < 0, natDigs v.natAbs, none, none⟩

/-- the number token a text spells, if the text is exactly one RFC 8259 number -/
def numOfText (t : Bytes) : Option Num :=
  match readNum t with
  | some (n, []) => if n.ok && n.text == t then some n else none
  | _ => none

/-- … and has a fraction or an exponent: the tokens that denote (and re-parse as) a double.  This is the
retained text the tokener attaches to a parsed double, and what json_object_new_double_s is meant for. -/
def dblTokenOfText (t : Bytes) : Option Num :=
  match numOfText t with
  | some n => if n.frac.isSome || n.exp.isSome then some n else none
  | none => none

def lastNonZeroOrSingle (f : List Nat) : Bool := f.length == 1 || f.getLast? != some 0

/-- The shape of `%.17g` output the serializer's post-processing relies on (checked against
glibc and the reference `fmtG17` on every double of the correspondence run): an RFC number of
fewer than 126 bytes, exponent (if any) written with a lower-case `e`, and no removable trailing
zero in the fraction. -/
def g17Shape (t : Bytes) : Bool :=
  match numOfText t with
  | some n =>
    decide (t.length + 2 < Generated.serDblBuf) &&
    (match n.exp with | some (up, _, _) => !up | none => true) &&
    (match n.frac with | some f => lastNonZeroOrSingle f | none => true)
  | none => false

/-- the number token emitted for a finite double whose `%.17g` text is `t`: `.0` is appended when
the text has neither fraction nor exponent -/
def numOfG17 (t : Bytes) : Option Num :=
  if g17Shape t then
    (numOfText t).map fun n => if n.frac.isNone && n.exp.isNone then { n with frac := some [0] } else n
  else none

/-! ### layout -/

def indentWs (f : Fl) (level : Nat) : Ws :=
  if f.pretty then (if f.prettyTab then List.replicate level .tab else List.replicate (level * 2) .sp) else []

/-- whitespace before a member / element -/
def leadWs (f : Fl) (level : Nat) : Ws :=
  (if f.pretty then [WsChar.lf] else []) ++ (if f.spacedOnly then [WsChar.sp] else []) ++ indentWs f level

/-- whitespace between the last member / element and the closing bracket (`level` = the container's) -/
def closeWs (f : Fl) (level : Nat) : Ws :=
  (if f.pretty then WsChar.lf :: indentWs f level else []) ++ (if f.spacedOnly then [WsChar.sp] else [])

/-- whitespace inside an empty container -/
def emptyWs (f : Fl) : Ws := if f.spacedOnly then [WsChar.sp] else []

def colonWs (f : Fl) : Ws := if f.spaced then [WsChar.sp] else []

def setLastElem (w : Ws) : List (Ws × Doc × Ws) → List (Ws × Doc × Ws)
  | [] => []
  | [(w1, d, _)] => [(w1, d, w)]
  | e :: es => e :: setLastElem w es

def setLastMember (w : Ws) : List (Ws × List StrItem × Ws × Ws × Doc × Ws) → List (Ws × List StrItem × Ws × Ws × Doc × Ws)
  | [] => []
  | [(w1, k, w2, w3, d, _)] => [(w1, k, w2, w3, d, w)]
  | m :: ms => m :: setLastMember w ms

variable (fmt : UInt64 → Bytes)

mutual
  /-- the document a child slot at nesting `level` must be rendered as under flags `f` -/
  def docOf (f : Fl) (level : Nat) : JVal → Option Doc
    | .null => some .null
    | .bool b => some (if b then .true_ else .false_)
    | .int _ v => some (.num (numOfInt v))
    | .dbl bits none => if isNaN bits || isInf bits then none else (numOfG17 (fmt bits)).map .num
    | .dbl _ (some t) => (dblTokenOfText t).map .num
    | .str s => some (.str (itemsOf f.noSlash s))
    | .arr xs => (elemsOf f (level + 1) xs).map fun es => .arr (emptyWs f) (setLastElem (closeWs f level) es)
    | .obj kvs => (membersOf f (level + 1) kvs).map fun ms => .obj (emptyWs f) (setLastMember (closeWs f level) ms)
  def elemsOf (f : Fl) (level : Nat) : List JVal → Option (List (Ws × Doc × Ws))
    | [] => some []
    | x :: xs =>
      match docOf f level x, elemsOf f level xs with
      | some d, some es => some ((leadWs f level, d, []) :: es)
      | _, _ => none
  def membersOf (f : Fl) (level : Nat) : List (Bytes × JVal) → Option (List (Ws × List StrItem × Ws × Ws × Doc × Ws))
    | [] => some []
    | (k, x) :: kvs =>
      match docOf f level x, membersOf f level kvs with
      | some d, some ms => some ((leadWs f level, itemsOf f.noSlash k, [], colonWs f, d, []) :: ms)
      | _, _ => none
end

/-! ### the equality of the property -/

mutual
  def valEq : JVal → JVal → Bool
    | .null, b => (match b with | .null => true | _ => false)
    | .bool x, b => (match b with | .bool y => x == y | _ => false)
    | .int _ x, b => (match b with | .int _ y => x == y | _ => false)
    | .dbl x _, b => (match b with | .dbl y _ => x == y | _ => false)
    | .str x, b => (match b with | .str y => x == y | _ => false)
    | .arr xs, b => (match b with | .arr ys => valEqList xs ys | _ => false)
    | .obj m1, b => (match b with | .obj m2 => valEqMembers m1 m2 | _ => false)
  def valEqList : List JVal → List JVal → Bool
    | [], ys => ys.isEmpty
    | x :: xs, ys => (match ys with | y :: ys' => valEq x y && valEqList xs ys' | [] => false)
  def valEqMembers : List (Bytes × JVal) → List (Bytes × JVal) → Bool
    | [], m2 => m2.isEmpty
    | (k, x) :: m1, m2 => (match m2 with | (k', y) :: m2' => k == k' && valEq x y && valEqMembers m1 m2' | [] => false)
end

/-! ### tokens -/

inductive Token where
  | punct (c : UInt8)                 -- [ ] { } , :
  | lit (d : Doc)                     -- null / true / false
  | num (n : Num)
  | str (items : List StrItem)

/-- the value of a token: a string token stands for the bytes it denotes, whatever its spelling -/
inductive TokVal where
  | punct (c : UInt8)
  | null | bool (b : Bool)
  | num (n : Num)
  | str (s : Bytes)
  deriving DecidableEq

def Token.value : Token → TokVal
  | .punct c => .punct c
  | .lit .true_ => .bool true
  | .lit .false_ => .bool false
  | .lit _ => .null
  | .num n => .num n
  | .str items => .str (decodeItems items)

def commaSep {α : Type} (sep : α) : List (List α) → List α
  | [] => []
  | [x] => x
  | x :: y :: xs => x ++ sep :: commaSep sep (y :: xs)

mutual
  /-- the tokens of a document, in order; whitespace is not a token -/
  def docTokens : Doc → List Token
    | .null => [.lit .null]
    | .true_ => [.lit .true_]
    | .false_ => [.lit .false_]
    | .num n => [.num n]
    | .str items => [.str items]
    | .arr _ es => .punct 91 :: commaSep (.punct 44) (elemsTokens es) ++ [.punct 93]
    | .obj _ ms => .punct 123 :: commaSep (.punct 44) (membersTokens ms) ++ [.punct 125]
  def elemsTokens : List (Ws × Doc × Ws) → List (List Token)
    | [] => []
    | (_, d, _) :: r => docTokens d :: elemsTokens r
  def membersTokens : List (Ws × List StrItem × Ws × Ws × Doc × Ws) → List (List Token)
    | [] => []
    | (_, k, _, _, d, _) :: r => (.str k :: .punct 58 :: docTokens d) :: membersTokens r
end

/-! ### trees the property quantifies over -/

def nulFree (b : Bytes) : Bool := !b.contains 0

def keysNodup : List Bytes → Bool
  | [] => true
  | k :: ks => !ks.contains k && keysNodup ks

mutual
  /-- A tree built through the API inside the property's quantifier: integers in the range of their
  C type; doubles finite, with `%.17g` output of the expected shape or with retained text that is
  an RFC number with a fraction or an exponent; strings any bytes; keys NUL-free C strings, each
  once per object. -/
  def treeOk : JVal → Bool
    | .null => true
    | .bool _ => true
    | .int true v => decide (INT64_MIN ≤ v) && decide (v ≤ INT64_MAX)
    | .int false v => decide (0 ≤ v) && decide (v ≤ UINT64_MAX)
    | .dbl bits none => !isNaN bits && !isInf bits && g17Shape (fmt bits)
    | .dbl bits (some t) => !isNaN bits && !isInf bits && (dblTokenOfText t).isSome && decide (t.length ≤ Generated.intMax)
    | .str _ => true
    | .arr xs => treeOkList xs
    | .obj kvs => treeOkMembers kvs && keysNodup (keysOf kvs)
  def treeOkList : List JVal → Bool
    | [] => true
    | x :: xs => treeOk x && treeOkList xs
  def treeOkMembers : List (Bytes × JVal) → Bool
    | [] => true
    | (k, v) :: kvs => nulFree k && treeOk v && treeOkMembers kvs
  def keysOf : List (Bytes × JVal) → List Bytes
    | [] => []
    | (k, _) :: kvs => k :: keysOf kvs
end

mutual
  /-- every string and every key is well-formed UTF-8 -/
  def utf8Tree : JVal → Bool
    | .str s => utf8Valid s
    | .arr xs => utf8List xs
    | .obj kvs => utf8Members kvs
    | _ => true
  def utf8List : List JVal → Bool
    | [] => true
    | x :: xs => utf8Tree x && utf8List xs
  def utf8Members : List (Bytes × JVal) → Bool
    | [] => true
    | (k, v) :: kvs => utf8Valid k && utf8Tree v && utf8Members kvs
end

mutual
  /-- number of containers enclosing the most deeply nested value (a scalar: 0; `[]`: 0; `[1]`: 1):
  the largest `level` any child slot is serialized at, and `Doc.nest` of the rendering -/
  def nest : JVal → Nat
    | .arr xs => nestList xs
    | .obj kvs => nestMembers kvs
    | _ => 0
  def nestList : List JVal → Nat
    | [] => 0
    | x :: xs => max (nest x + 1) (nestList xs)
  def nestMembers : List (Bytes × JVal) → Nat
    | [] => 0
    | (_, v) :: kvs => max (nest v + 1) (nestMembers kvs)
end

/-- the text the serializer emits for a finite double without retained text (flags do not matter
when the libc output has the `%.17g` shape): `fmt bits`, with `.0` appended when it has neither
fraction nor exponent -/
def emittedDouble (bits : UInt64) : Bytes :=
  match numOfG17 (fmt bits) with
  | some n => n.text
  | none => []

mutual
  /-- the named libc hypothesis of `ser_denotes` / `roundtrip`: reading the emitted text of every
  finite double of the tree back with `strtod` gives the double (`%.17g` round-trips) -/
  def roundTrips (strtod : Bytes → UInt64 × Nat) : JVal → Bool
    | .dbl bits none => (strtod (emittedDouble fmt bits)).1 == bits
    | .dbl bits (some t) => (strtod t).1 == bits
    | .arr xs => roundTripsList strtod xs
    | .obj kvs => roundTripsMembers strtod kvs
    | _ => true
  def roundTripsList (strtod : Bytes → UInt64 × Nat) : List JVal → Bool
    | [] => true
    | x :: xs => roundTrips strtod x && roundTripsList strtod xs
  def roundTripsMembers (strtod : Bytes → UInt64 × Nat) : List (Bytes × JVal) → Bool
    | [] => true
    | (_, v) :: kvs => roundTrips strtod v && roundTripsMembers strtod kvs
end

end JsonC.SerSpec
