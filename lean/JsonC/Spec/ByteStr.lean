/-
  Specification for C11: a string value is a byte sequence with an explicit length.
  Written without reference to json_object.c's representation (no inline/pointer union, no
  signed length).  Second part: what "no leak, no use after release" means for a log of
  allocator events, independent of who produced the log.
-/
import JsonC.Base.Basic
import JsonC.Generated.Consts

namespace JsonC.ByteStr
open JsonC

/-- the value of a string node: any bytes (NUL and non-UTF-8 included); its length is `List.length` -/
abbrev Str := Bytes

def INT_MAX : Int := (Generated.intMax : Int)

/-- what a `strlen`-based entry point receives from a caller holding the bytes `s` followed by a
NUL: the bytes before the first NUL (the C-string contract). -/
def cPrefix (s : Bytes) : Bytes := s.takeWhile (· != 0)

/-- what a reader sees at the returned pointer: the bytes, then a NUL -/
def view (s : Str) : Bytes := s ++ [0]

/-- what `strlen` on the returned pointer reports -/
def cLength (s : Str) : Nat := (cPrefix s).length

/-- storing a new value replaces the old one entirely -/
def store (_old : Str) (new : Bytes) : Str := new

def equal (a b : Str) : Bool := a == b

def copy (a : Str) : Str := a

/-- May a request to hold `n` bytes be refused?  The length is reported through an `int`, so a
count that is negative or exceeds INT_MAX must be refused; a count that leaves the documented
slack below INT_MAX must be served when storage is available; when the allocator fails the
request may be refused (a constructor then must be). -/
inductive Verdict where
  | mustServe | mustRefuse | either
  deriving Repr, DecidableEq

def setVerdict (n : Int) (allocOk : Bool) : Verdict :=
  if n < 0 ∨ n > INT_MAX then .mustRefuse
  else if allocOk = false then .either
  else if n ≥ INT_MAX - 1 then .either
  else .mustServe

def newVerdict (n : Int) (allocOk : Bool) : Verdict :=
  if n < 0 ∨ n > INT_MAX then .mustRefuse
  else if allocOk = false then .mustRefuse
  else if n ≥ INT_MAX - 1 then .either
  else .mustServe

/-! ### allocator discipline over an event log -/

/-- events of one execution, in program order; `id` names an allocation -/
inductive Ev where
  | malloc (id size : Nat)
  | mallocFail (size : Nat)
  | free (id : Nat)
  | read (id : Nat)
  | write (id : Nat)
  deriving Repr, DecidableEq

/-- every allocation made is released exactly once (no leak, no double free) -/
def FreedOnce (t : List Ev) : Prop :=
  ∀ id size, Ev.malloc id size ∈ t → t.count (Ev.free id) = 1

def Ev.isMallocOf (id : Nat) : Ev → Bool
  | .malloc i _ => i == id
  | _ => false

/-- allocation ids are not reused -/
def FreshIds (t : List Ev) : Prop :=
  ∀ id, (t.filter (Ev.isMallocOf id)).length ≤ 1

/-- after the release of an allocation it is neither read, written nor released again -/
def NoUseAfterFree (t : List Ev) : Prop :=
  ∀ t1 t2 id, t = t1 ++ Ev.free id :: t2 → Ev.read id ∉ t2 ∧ Ev.write id ∉ t2 ∧ Ev.free id ∉ t2

/-- nothing is released, read or written that was not allocated before -/
def OnlyAllocated (t : List Ev) : Prop :=
  ∀ t1 t2 e id, t = t1 ++ e :: t2 → (e = Ev.free id ∨ e = Ev.read id ∨ e = Ev.write id) →
    ∃ size, Ev.malloc id size ∈ t1

end JsonC.ByteStr
