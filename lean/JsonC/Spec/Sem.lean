/-
  Specification for C09: the value a json_object tree denotes.

  * an integer denotes its `Int` value, whatever C type stores it;
  * a double denotes its IEEE-754 value class: every NaN pattern is "a NaN", +0 and -0 are one
    value, every other pattern is its own value (binary64 has one pattern per non-zero value);
  * a string denotes its bytes (NUL included), an array the list of its elements' denotations;
  * an object denotes a finite map from key to denotation: the association list sorted by key
    (byte-lexicographic), so member order has disappeared;
  * different kinds denote different values (an integer is never a double).

  Two trees are *equal as values* (`SemEq`) when they denote the same `Sem` and contain no NaN:
  a NaN compares unequal to everything, itself included.
  Nothing here refers to the C representation or to Model/Equal.lean.
-/
import JsonC.Model.Value

namespace JsonC
namespace Sem

/-- IEEE-754 value class of a binary64 pattern -/
inductive DClass where
  | nan
  | zero
  | val (bits : UInt64)
  deriving Repr, DecidableEq

def expField (b : UInt64) : Nat := b.toNat / 2 ^ 52 % 2048
def mantField (b : UInt64) : Nat := b.toNat % 2 ^ 52

/-- exponent field all ones, fraction non-zero -/
def isNaN (b : UInt64) : Bool := expField b == 2047 && mantField b != 0
/-- exponent and fraction zero (either sign) -/
def isZero (b : UInt64) : Bool := expField b == 0 && mantField b == 0

def dclass (b : UInt64) : DClass :=
  if isNaN b then .nan else if isZero b then .zero else .val b

end Sem

/-- denotation of a tree -/
inductive Sem where
  | null
  | bool (b : Bool)
  | num (v : Int)
  | dbl (c : Sem.DClass)
  | str (s : Bytes)
  | arr (xs : List Sem)
  | obj (m : List (Bytes × Sem))
  deriving Repr, Inhabited

namespace Sem

/-! ### finite maps as key-sorted association lists -/

/-- byte-lexicographic `≤` on keys -/
def keyLe : Bytes → Bytes → Bool
  | [], _ => true
  | _ :: _, [] => false
  | a :: as, b :: bs => if a.toNat < b.toNat then true else if a = b then keyLe as bs else false

def insertKV {β : Type} (k : Bytes) (v : β) : List (Bytes × β) → List (Bytes × β)
  | [] => [(k, v)]
  | (k', v') :: r => if keyLe k k' then (k, v) :: (k', v') :: r else (k', v') :: insertKV k v r

/-- insertion sort by key -/
def sortKV {β : Type} : List (Bytes × β) → List (Bytes × β)
  | [] => []
  | (k, v) :: r => insertKV k v (sortKV r)

/-- value bound to `k` (first binding) -/
def lookupKV {β : Type} (k : Bytes) : List (Bytes × β) → Option β
  | [] => none
  | (k', v) :: r => if k' = k then some v else lookupKV k r

end Sem

namespace JVal

mutual
  /-- the value a tree denotes -/
  def sem : JVal → Sem
    | null => .null
    | bool b => .bool b
    | int _ v => .num v
    | dbl bits _ => .dbl (Sem.dclass bits)
    | str s => .str s
    | arr xs => .arr (semList xs)
    | obj kvs => .obj (Sem.sortKV (semMembers kvs))
  def semList : List JVal → List Sem
    | [] => []
    | x :: xs => sem x :: semList xs
  def semMembers : List (Bytes × JVal) → List (Bytes × Sem)
    | [] => []
    | (k, v) :: kvs => (k, sem v) :: semMembers kvs
end

mutual
  /-- no double node of the tree is a NaN -/
  def nanFree : JVal → Bool
    | dbl bits _ => !Sem.isNaN bits
    | arr xs => nanFreeList xs
    | obj kvs => nanFreeMembers kvs
    | _ => true
  def nanFreeList : List JVal → Bool
    | [] => true
    | x :: xs => nanFree x && nanFreeList xs
  def nanFreeMembers : List (Bytes × JVal) → Bool
    | [] => true
    | (_, v) :: kvs => nanFree v && nanFreeMembers kvs
end

/-- equality of denoted values: same denotation, and no NaN (a NaN is unequal even to itself) -/
def SemEq (a b : JVal) : Prop := sem a = sem b ∧ nanFree a = true

end JVal

/-! ### executable equality on `Sem` (the driver's oracle); `Sem.beq_iff` relates it to `=` -/
namespace Sem

mutual
  def beq : Sem → Sem → Bool
    | .null, .null => true
    | .bool x, .bool y => x == y
    | .num x, .num y => x == y
    | .dbl x, .dbl y => x == y
    | .str x, .str y => x == y
    | .arr xs, .arr ys => beqList xs ys
    | .obj m1, .obj m2 => beqMembers m1 m2
    | _, _ => false
  def beqList : List Sem → List Sem → Bool
    | [], [] => true
    | x :: xs, y :: ys => beq x y && beqList xs ys
    | _, _ => false
  def beqMembers : List (Bytes × Sem) → List (Bytes × Sem) → Bool
    | [], [] => true
    | (k1, v1) :: r1, (k2, v2) :: r2 => k1 == k2 && beq v1 v2 && beqMembers r1 r2
    | _, _ => false
end

end Sem

namespace JVal
/-- decision procedure for `SemEq` (see `Sem.beq_iff`) -/
def semEqB (a b : JVal) : Bool := Sem.beq (sem a) (sem b) && nanFree a
end JVal

end JsonC
