/-
  Specification for C19: a print buffer is a plain byte array.
  Written without reference to printbuf.c's representation (no capacity, no cells).
-/
import JsonC.Base.Basic
import JsonC.Generated.Consts

namespace JsonC.ByteBuf
open JsonC

abbrev Buf := Bytes

def INT_MAX : Int := (Generated.intMax : Int)

/-- append `bs` -/
def append (b : Buf) (bs : Bytes) : Buf := b ++ bs

/-- fill `len` bytes of value `ch` at `off`, padding with NUL bytes when `off` is beyond the end;
the result is at least `off + len` long and keeps whatever lay beyond the filled range. -/
def fill (b : Buf) (off : Nat) (ch : UInt8) (len : Nat) : Buf :=
  let padded := b ++ List.replicate (off - b.length) 0
  padded.take off ++ List.replicate len ch ++ padded.drop (off + len)

/-- What the property allows a call to report, given the resulting length `n` the request
would produce: a request that cannot fit a non-negative `int` (with its NUL) must be refused;
a request that fits with the documented slack must be served; in the 8-byte band in between
either answer is permitted (the buffer may or may not need to grow). -/
inductive Verdict where
  | mustServe | mustRefuse | either
  deriving Repr, DecidableEq

def appendVerdict (b : Buf) (size : Int) : Verdict :=
  if size < 0 then .mustRefuse
  else if (b.length : Int) + size + 1 > INT_MAX then .mustRefuse
  else if (b.length : Int) + size + 1 ≤ INT_MAX - 8 then .mustServe
  else .either

def fillVerdict (b : Buf) (off : Int) (len : Int) : Verdict :=
  let off := if off = -1 then (b.length : Int) else off
  if len < 0 ∨ off < -1 then .mustRefuse
  else if off + len > INT_MAX then .mustRefuse
  else if off + len ≤ INT_MAX - 8 then .mustServe
  else .either

end JsonC.ByteBuf
