/-
  Specification for C07: a JSON array is a plain sequence of elements with null gaps.
  Written without reference to arraylist.c's representation (no capacity, no slots).
  An element is an opaque handle (`some id`) or null (`none`).
-/
import JsonC.Base.Basic
import JsonC.Generated.Consts

namespace JsonC.Seq
open JsonC

abbrev Id := Nat
abbrev Elem := Option Id
abbrev Seq := List Elem

/-- the longest array of pointers the address space can hold: SIZE_MAX / sizeof(void *) -/
def maxLen : Nat := Generated.sizeMax / Generated.sizeofPtr

/-- read at an index: past the end the answer is null -/
def get (s : Seq) (i : Nat) : Elem :=
  match s[i]? with
  | some e => e
  | none => none

/-- the non-null elements of a list of elements, in order (each is a `free_fn` call when released) -/
def nonNull (es : List Elem) : List Id := es.filterMap id

/-- append -/
def add (s : Seq) (v : Elem) : Seq := s ++ [v]

/-- put at index: overwrite inside, extend with nulls beyond the end -/
def put (s : Seq) (i : Nat) (v : Elem) : Seq :=
  if i < s.length then s.set i v else s ++ List.replicate (i - s.length) none ++ [v]

/-- what put-at-index releases: the overwritten element, if there is one and it is not null -/
def putReleased (s : Seq) (i : Nat) : List Id :=
  match s[i]? with
  | some (some x) => [x]
  | _ => []

/-- insert at index: shift the tail up; at or beyond the end it behaves like put -/
def insert (s : Seq) (i : Nat) (v : Elem) : Seq :=
  if i < s.length then s.take i ++ v :: s.drop i else put s i v

/-- is `[i, i+n)` a range of the sequence that starts at an existing element? -/
def delOk (s : Seq) (i n : Nat) : Bool := decide (i < s.length) && decide (i + n ≤ s.length)

/-- delete the range `[i, i+n)` -/
def del (s : Seq) (i n : Nat) : Seq := s.take i ++ s.drop (i + n)

/-- what delete-range releases: the non-null elements of the range, in index order -/
def delReleased (s : Seq) (i n : Nat) : List Id := nonNull ((s.drop i).take n)

/-- what destroying the whole array releases -/
def freeReleased (s : Seq) : List Id := nonNull s

/-- What the property allows a request to report, given the length `n` the array would have (or
must be able to hold) afterwards: more than `maxLen` elements cannot exist, so the request must be
refused; up to `maxLen / 2` it must be served (given memory); in between either answer is allowed
(the implementation may refuse when doubling its capacity would not fit). -/
inductive Verdict where
  | mustServe | mustRefuse | either
  deriving Repr, DecidableEq

def fits (n : Nat) : Verdict :=
  if n > maxLen then .mustRefuse else if 2 * n ≤ maxLen then .mustServe else .either

/-! ### ordering: the comparator handed to sort / bsearch -/

/-- `le` is a total preorder (what `qsort`/`bsearch` require of `compar`) -/
structure TotalPreorder (le : Elem → Elem → Bool) : Prop where
  total : ∀ a b, le a b = true ∨ le b a = true
  trans : ∀ a b c, le a b = true → le b c = true → le a c = true

def Sorted (le : Elem → Elem → Bool) (s : Seq) : Prop := s.Pairwise (fun a b => le a b = true)

/-- `compar(key, x) == 0` -/
def equiv (le : Elem → Elem → Bool) (a b : Elem) : Bool := le a b && le b a

/-- the comparator of the correspondence run: NULL first, then by handle id -/
def leId : Elem → Elem → Bool
  | none, _ => true
  | some _, none => false
  | some a, some b => decide (a ≤ b)

/-- executable reference sort (core's verified merge sort): for a total order the ordered
permutation is unique, so this is *the* sorted sequence -/
def sort (le : Elem → Elem → Bool) (s : Seq) : Seq := s.mergeSort le

/-- executable reference binary search, the loop of glibc's `bsearch`:
`l = 0; u = nmemb; while (l < u) { idx = (l + u) / 2; c = compar(key, base[idx]); … }`;
`fuel` bounds the number of iterations (the interval halves every time). -/
def bsearchLoop (le : Elem → Elem → Bool) (key : Elem) (s : Seq) : Nat → Nat → Nat → Option Nat
  | 0, _, _ => none
  | fuel + 1, l, u =>
    if l < u then
      let idx := (l + u) / 2
      match s[idx]? with
      | none => none
      | some e =>
        if le key e && le e key then some idx
        else if le key e then bsearchLoop le key s fuel l idx
        else bsearchLoop le key s fuel (idx + 1) u
    else none

def bsearch (le : Elem → Elem → Bool) (key : Elem) (s : Seq) : Option Nat :=
  bsearchLoop le key s (s.length + 1) 0 s.length

end JsonC.Seq
