/-
  Specification for C06: a JSON object is an insertion-ordered map.
  Written without reference to linkhash.c's representation (no slots, no hash, no links):
  a plain association list in order of first insertion, keys pairwise distinct.
-/
namespace JsonC.OrdMap

abbrev OrdMap (K V : Type) := List (K × V)

variable {K V : Type} [DecidableEq K]

def keys (m : OrdMap K V) : List K := m.map (·.1)

/-- the value stored under `k` -/
def lookup (m : OrdMap K V) (k : K) : Option V :=
  match m with
  | [] => none
  | (k', v) :: rest => if k' = k then some v else lookup rest k

def contains (m : OrdMap K V) (k : K) : Bool := (lookup m k).isSome

/-- replace the value of `k` where it stands (the key keeps its position) -/
def replace (m : OrdMap K V) (k : K) (v : V) : OrdMap K V :=
  match m with
  | [] => []
  | (k', v') :: rest => if k' = k then (k', v) :: rest else (k', v') :: replace rest k v

/-- add: a new key goes to the end, an existing key keeps its position and gets the new value -/
def add (m : OrdMap K V) (k : K) (v : V) : OrdMap K V :=
  if contains m k then replace m k v else m ++ [(k, v)]

/-- delete: the key disappears, everything else keeps its relative order -/
def del (m : OrdMap K V) (k : K) : OrdMap K V := m.filter (fun p => ¬ p.1 = k)

def length (m : OrdMap K V) : Nat := List.length m

/-- well-formed maps: no key twice -/
def WF (m : OrdMap K V) : Prop := (keys m).Nodup

end JsonC.OrdMap
