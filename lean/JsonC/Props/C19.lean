/-
  C19  The print buffer holds exactly what was written, NUL-terminated, in bounds.

  Property theorems only.  Model: JsonC/Model/Printbuf.lean (transcription of printbuf.c with every
  int operation range-checked and every buffer access bounds-checked).  Spec: JsonC/Spec/ByteBuf.lean.
  `Inv` is the representation invariant, `contents` the abstraction map, `Term` the "followed by a
  NUL inside the allocation" clause.  "No fault" (= no signed overflow, no access outside the
  allocation, no read of uninitialised bytes below bpos) is the `∃ r, … = .ok r` in every statement.
-/
import JsonC.Lemmas.TranslatedCtor
import JsonC.Lemmas.Printbuf
import JsonC.Lemmas.TranslatedPb

namespace JsonC.Printbuf
open JsonC Generated

/-- printbuf_new: empty, terminated, invariant established. -/
theorem new_refines : ∃ p, new = .ok p ∧ Inv p ∧ Term p ∧ contents p = [] := by
  unfold new
  have h := init_pos
  rw [if_pos h]
  refine ⟨_, rfl, ⟨?_, h, init_le_intMax, Nat.zero_le _, ?_⟩, ⟨h, ?_⟩, ?_⟩
  · simp
  · intro i hi; dsimp only at hi; omega
  · dsimp only; rw [List.getElem?_set_self (by simpa using h)]
  · simp [contents]

/-- printbuf_memappend: for every buffer state and every request, the call does not fault and
either appends exactly the requested bytes (result terminated) or refuses with EFBIG leaving the
buffer unchanged; it refuses only when the request is negative or the result would come within
`pbExtendGuard` bytes of INT_MAX. -/
theorem memappend_refines (p : Pb) (h : Inv p) (data : Bytes) (size : Int)
    (hsrc : size ≤ data.length ∨ size ≥ INT_MAX) :
    ∃ r, memappend p data size = .ok r ∧ Inv r.pb ∧
      ((r.ret = size ∧ 0 ≤ size ∧ r.errno = .none ∧
          contents r.pb = contents p ++ data.take size.toNat ∧ Term r.pb ∧
          r.pb.bpos = p.bpos + size.toNat) ∨
       (r.ret = -1 ∧ r.errno = .EFBIG ∧ r.pb = p ∧
          (size < 0 ∨ (p.bpos : Int) + size + 1 > INT_MAX - pbExtendGuard))) := by
  have hI : INT_MAX = (intMax : Int) := rfl
  have hg := guard_le_8
  unfold memappend
  by_cases h0 : size < 0 ∨ size > INT_MAX - p.bpos - 1
  · rw [if_pos h0]
    refine ⟨_, rfl, h, Or.inr ⟨rfl, rfl, rfl, ?_⟩⟩
    rcases h0 with h0 | h0
    · exact Or.inl h0
    · right; omega
  · rw [if_neg h0]
    have hb := h.bpos_le
    have hm := h.le_max
    have hsrc : size ≤ data.length := by omega
    have hck : ckInt (p.bpos + size + 1) "memappend: p->bpos + size + 1" = .ok (p.bpos + size + 1) := by
      unfold ckInt; rw [if_pos]; omega
    rw [hck]; simp only [Outcome.bind_ok]
    -- after the (possible) extension
    have key : ∀ q : Pb, Inv q → q.bpos = p.bpos → (p.bpos : Int) + size + 1 ≤ q.size →
        (∀ i, i < p.bpos → q.cells[i]? = p.cells[i]?) →
        ∃ r, (if (⟨q, 0, .none⟩ : Res).ret < 0 then (Outcome.ok ⟨q, -1, Errno.none⟩ : Outcome Res) else
          let p := (⟨q, 0, .none⟩ : Res).pb
          let n := size.toNat
          if n > data.length then .fault "memappend: memcpy reads past the source object"
          else if p.bpos + n > p.size ∨ p.size ≠ p.cells.length then .fault "memappend: memcpy writes past the allocation"
          else
            let cells := writeAt p.cells p.bpos (data.take n)
            let bpos := p.bpos + n
            if bpos ≥ p.size then .fault "memappend: terminating NUL outside the allocation"
            else .ok ⟨{ cells := cells.set bpos (some 0), bpos := bpos, size := p.size }, size, .none⟩) = .ok r ∧
          Inv r.pb ∧ r.ret = size ∧ r.errno = .none ∧
          contents r.pb = contents p ++ data.take size.toNat ∧ Term r.pb ∧
          r.pb.bpos = p.bpos + size.toNat := by
      intro q hq hqb hqs hqc
      have hlen := hq.len
      have hn : size.toNat ≤ data.length := by omega
      have htl : (data.take size.toNat).length = size.toNat := by simp; omega
      dsimp only
      rw [if_neg (by omega), if_neg (by omega), if_neg (by omega), if_neg (by omega)]
      have hw : q.bpos + (data.take size.toNat).length ≤ q.cells.length := by rw [htl]; omega
      refine ⟨_, rfl, ⟨?_, hq.pos, hq.le_max, ?_, ?_⟩, rfl, rfl, ?_, ⟨?_, ?_⟩, by dsimp only; rw [hqb]⟩
      · dsimp only; rw [List.length_set, writeAt_length _ _ _ hw]; exact hlen
      · dsimp only; omega
      · intro i hi
        dsimp only at hi ⊢
        rw [List.getElem?_set_ne (by omega)]
        by_cases hi2 : i < q.bpos
        · rw [writeAt_get_lt _ _ _ _ hw hi2]; exact hq.init i hi2
        · rw [writeAt_get_mid _ _ _ _ hw (by omega) (by omega)]
          have : i - q.bpos < (data.take size.toNat).length := by omega
          rw [List.getElem?_eq_getElem this]
          exact ⟨_, rfl⟩
      · unfold contents
        dsimp only
        rw [List.take_set_of_le (Nat.le_refl _)]
        have : q.bpos + size.toNat = q.bpos + (data.take size.toNat).length := by rw [htl]
        rw [this, writeAt_take _ _ _ hw]
        rw [List.map_append]
        congr 1
        · rw [hqb]
          apply List.ext_getElem?
          intro i
          simp only [List.getElem?_map, List.getElem?_take]
          by_cases hi : i < p.bpos
          · simp only [hi, if_true]; rw [hqc i hi]
          · simp only [hi, if_false]
        · have hf : ((fun x : Option UInt8 => x.getD 0) ∘ some) = id := by funext x; rfl
          simp [hf]
      · dsimp only; omega
      · dsimp only
        rw [List.getElem?_set_self]
        rw [writeAt_length _ _ _ hw]; omega
    by_cases h1 : (p.size : Int) ≤ p.bpos + size + 1
    · rw [if_pos h1]
      obtain ⟨r, hr, hcase⟩ := extend_spec p h (p.bpos + size + 1) (by omega)
      rw [hr]; simp only [Outcome.bind_ok]
      rcases hcase with ⟨hret, herr, hinv, hbp, hsz, _, hcells, _⟩ | ⟨hret, herr, hpb, hbig⟩
      · have : r = ⟨r.pb, 0, .none⟩ := by cases r; simp_all
        rw [this]
        obtain ⟨r', hr', hi', h1', h2', h3', h4', h5'⟩ := key r.pb hinv hbp hsz (fun i hi => hcells i (by omega))
        exact ⟨r', hr', hi', Or.inl ⟨h1', by omega, h2', h3', h4', h5'⟩⟩
      · rw [if_pos (by omega)]
        refine ⟨_, rfl, by dsimp only; rw [hpb]; exact h, Or.inr ⟨rfl, herr, hpb, Or.inr hbig⟩⟩
    · rw [if_neg h1]
      simp only [Outcome.pure_eq, Outcome.bind_ok]
      obtain ⟨r', hr', hi', h1', h2', h3', h4', h5'⟩ := key p h rfl (by omega) (fun _ _ => rfl)
      exact ⟨r', hr', hi', Or.inl ⟨h1', by omega, h2', h3', h4', h5'⟩⟩

/-- the printbuf_memappend_fast macro (call sites pass a non-negative size) -/
theorem memappendFast_refines (p : Pb) (h : Inv p) (data : Bytes) (size : Int)
    (hsrc : size ≤ data.length) (hpos : 0 ≤ size) :
    ∃ r, memappendFast p data size = .ok r ∧ Inv r.pb ∧
      ((contents r.pb = contents p ++ data.take size.toNat ∧ Term r.pb) ∨
       (r.pb = p ∧ (p.bpos : Int) + size + 1 > INT_MAX - pbExtendGuard)) := by
  unfold memappendFast
  have hlen := h.len
  by_cases h1 : (p.size : Int) - p.bpos > size
  · rw [if_pos h1]
    dsimp only
    rw [if_neg (by omega), if_neg (by omega), if_neg (by omega)]
    have core := append_core p p h h rfl (fun _ _ => rfl) data size.toNat (by omega) (by omega)
    dsimp only at core
    exact ⟨_, rfl, core.1, Or.inl core.2⟩
  · rw [if_neg h1]
    obtain ⟨r, hr, hinv, hcase⟩ := memappend_refines p h data size (Or.inl hsrc)
    rw [hr]; simp only [Outcome.bind_ok, Outcome.pure_eq]
    refine ⟨_, rfl, hinv, ?_⟩
    rcases hcase with ⟨_, _, _, hc, ht, _⟩ | ⟨_, _, hpb, hbig⟩
    · exact Or.inl ⟨hc, ht⟩
    · right; refine ⟨hpb, ?_⟩; rcases hbig with hb | hb
      · omega
      · exact hb


/-- printbuf_memset: any offset (−1 = end, beyond the end = NUL padding), any fill byte, any length:
no fault; the result is the specification's `fill`, or EFBIG with the buffer unchanged. -/
theorem memset_refines (p : Pb) (h : Inv p) (offset ch len : Int) :
    ∃ r, memset p offset ch len = .ok r ∧ Inv r.pb ∧
      ((r.ret = 0 ∧ r.errno = .none ∧ 0 ≤ len ∧ 0 ≤ effOffset p offset ∧
          contents r.pb = ByteBuf.fill (contents p) (effOffset p offset).toNat
            (UInt8.ofNat (ch % 256).toNat) len.toNat) ∨
       (r.ret = -1 ∧ r.errno = .EFBIG ∧ r.pb = p ∧
          (len < 0 ∨ effOffset p offset < -1 ∨ effOffset p offset + len > INT_MAX - pbExtendGuard))) := by
  have hI : INT_MAX = (intMax : Int) := rfl
  have hg := guard_le_8
  have hb := h.bpos_le
  have hm := h.le_max
  unfold memset
  simp only []
  have hoff : (if offset = -1 then (p.bpos : Int) else offset) = effOffset p offset := rfl
  simp only [hoff]
  generalize hE : effOffset p offset = off
  have hoff1 : off ≠ -1 := by
    rw [← hE]; unfold effOffset; split <;> omega
  by_cases h0 : len < 0 ∨ off < -1 ∨ len > INT_MAX - off
  · rw [if_pos h0]
    refine ⟨_, rfl, h, Or.inr ⟨rfl, rfl, rfl, ?_⟩⟩
    rcases h0 with h0 | h0 | h0
    · exact Or.inl h0
    · exact Or.inr (Or.inl h0)
    · right; right; omega
  · rw [if_neg h0]
    have hck : ckInt (off + len) "memset: offset + len" = .ok (off + len) := by
      unfold ckInt; rw [if_pos]; omega
    rw [hck]; simp only [Outcome.bind_ok]
    have hoff0 : 0 ≤ off := by omega
    have key : ∀ q : Pb, Inv q → q.bpos = p.bpos → off + len ≤ q.size →
        (∀ i, i < p.bpos → q.cells[i]? = p.cells[i]?) →
        ∃ r, (if (⟨q, 0, .none⟩ : Res).ret < 0 then (Outcome.ok ⟨q, -1, Errno.none⟩ : Outcome Res) else
          let p := (⟨q, 0, .none⟩ : Res).pb
          if off < 0 then .fault "memset: negative offset reaches memset"
          else
            let off' := off.toNat
            let n := len.toNat
            if p.size ≠ p.cells.length then .fault "memset: size field does not describe the allocation"
            else if p.bpos < off' ∧ off' > p.size then .fault "memset: zero fill past the allocation"
            else
              let cells := if p.bpos < off' then writeAt p.cells p.bpos (List.replicate (off' - p.bpos) 0) else p.cells
              if off' + n > p.size then .fault "memset: fill past the allocation"
              else
                let cells := writeAt cells off' (List.replicate n (UInt8.ofNat (ch % 256).toNat))
                let bpos := if (p.bpos : Int) < off + len then (off + len).toNat else p.bpos
                .ok ⟨{ cells := cells, bpos := bpos, size := p.size }, 0, .none⟩) = .ok r ∧
          Inv r.pb ∧ r.ret = 0 ∧ r.errno = .none ∧
          contents r.pb = ByteBuf.fill (contents p) off.toNat (UInt8.ofNat (ch % 256).toNat) len.toNat := by
      intro q hq hqb hqs hqc
      have hlen := hq.len
      dsimp only
      rw [if_neg (by omega), if_neg (by omega), if_neg (by omega), if_neg (by omega), if_neg (by omega)]
      have core := memset_core p q hq hqb hqc h off.toNat len.toNat (UInt8.ofNat (ch % 256).toNat) (by omega)
      dsimp only at core
      have hbp : (if (q.bpos : Int) < off + len then (off + len).toNat else q.bpos) =
          (if q.bpos < off.toNat + len.toNat then off.toNat + len.toNat else q.bpos) := by
        split <;> split <;> omega
      rw [hbp]
      exact ⟨_, rfl, core.1, rfl, rfl, core.2⟩
    by_cases h1 : (p.size : Int) < off + len
    · rw [if_pos h1]
      obtain ⟨r, hr, hcase⟩ := extend_spec p h (off + len) (by omega)
      rw [hr]; simp only [Outcome.bind_ok]
      rcases hcase with ⟨hret, herr, hinv, hbp, hsz, _, hcells, _⟩ | ⟨hret, herr, hpb, hbig⟩
      · have : r = ⟨r.pb, 0, .none⟩ := by cases r; simp_all
        rw [this]
        obtain ⟨r', hr', hi', h1', h2', h3'⟩ := key r.pb hinv hbp hsz (fun i hi => hcells i (by omega))
        exact ⟨r', hr', hi', Or.inl ⟨h1', h2', by omega, hoff0, h3'⟩⟩
      · rw [if_pos (by omega)]
        refine ⟨_, rfl, by dsimp only; rw [hpb]; exact h, Or.inr ⟨rfl, herr, hpb, Or.inr (Or.inr hbig)⟩⟩
    · rw [if_neg h1]
      simp only [Outcome.pure_eq, Outcome.bind_ok]
      obtain ⟨r', hr', hi', h1', h2', h3'⟩ := key p h rfl (by omega) (fun _ _ => rfl)
      exact ⟨r', hr', hi', Or.inl ⟨h1', h2', by omega, hoff0, h3'⟩⟩

/-- sprintbuf: whatever the formatted output (short → 128-byte stack buffer, long → heap copy),
exactly its bytes are appended, or the call refuses like memappend. -/
theorem sprintbuf_refines (p : Pb) (h : Inv p) (out : Bytes) :
    ∃ r, sprintbuf p out = .ok r ∧ Inv r.pb ∧
      ((r.ret = out.length ∧ contents r.pb = contents p ++ out ∧ Term r.pb) ∨
       (r.ret = -1 ∧ r.pb = p ∧ (p.bpos : Int) + out.length + 1 > INT_MAX - pbExtendGuard)) := by
  unfold sprintbuf
  dsimp only
  have hb := h.bpos_le
  have hm := h.le_max
  have hI : INT_MAX = (intMax : Int) := rfl
  by_cases h0 : (out.length : Int) > INT_MAX
  · rw [if_pos h0]
    exact ⟨_, rfl, h, Or.inr ⟨rfl, rfl, by omega⟩⟩
  · rw [if_neg h0]
    by_cases h1 : (out.length : Int) > sprintbufHeapAbove
    · rw [if_pos h1]
      obtain ⟨r, hr, hinv, hcase⟩ := memappend_refines p h out out.length (Or.inl (by omega))
      refine ⟨r, hr, hinv, ?_⟩
      rcases hcase with ⟨h1', _, _, hc, ht, _⟩ | ⟨h1', _, hpb, hbig⟩
      · left; refine ⟨h1', ?_, ht⟩; rw [hc]; simp
      · right; exact ⟨h1', hpb, by omega⟩
    · rw [if_neg h1]
      have hst := stackImage_take out out.length rfl (by omega)
      obtain ⟨r, hr, hinv, hcase⟩ := memappend_refines p h (stackImage out) out.length (Or.inl (by omega))
      refine ⟨r, hr, hinv, ?_⟩
      rcases hcase with ⟨h1', _, _, hc, ht, _⟩ | ⟨h1', _, hpb, hbig⟩
      · left; refine ⟨h1', ?_, ht⟩; rw [hc]; simp [hst.1]
      · right; exact ⟨h1', hpb, by omega⟩

theorem reset_refines (p : Pb) (h : Inv p) :
    ∃ q, reset p = .ok q ∧ Inv q ∧ Term q ∧ contents q = [] ∧ q.size = p.size := by
  unfold reset
  have hlen := h.len
  rw [if_pos ⟨h.pos, h.len.symm⟩]
  refine ⟨_, rfl, ⟨?_, h.pos, h.le_max, Nat.zero_le _, ?_⟩, ⟨h.pos, ?_⟩, ?_, rfl⟩
  · simp [hlen]
  · intro i hi; dsimp only at hi; omega
  · dsimp only; rw [List.getElem?_set_self (by have := h.pos; omega)]
  · simp [contents]

/-! ## All histories -/

/-- Requests a C caller may make: the claimed size of an append never exceeds the source object.
`appendClaim n` (8-byte source object) is only issued with an `n` the first range check refuses. -/
def Op.WF : Op → Prop
  | .appendClaim n => n < 0 ∨ n ≥ INT_MAX
  | _ => True

/-- What the specification (a plain byte array, `ByteBuf`) allows one call to do:
`b` contents before, `ret` the C return value, `b'` contents after. -/
def OpSpec (b : Bytes) : Op → Int → Bytes → Prop
  | .append d, ret, b' =>
      (ret = d.length ∧ b' = ByteBuf.append b d ∧ ByteBuf.appendVerdict b d.length ≠ .mustRefuse) ∨
      (ret = -1 ∧ b' = b ∧ ByteBuf.appendVerdict b d.length ≠ .mustServe)
  | .appendClaim _, ret, b' => ret = -1 ∧ b' = b
  | .fast d, _, b' =>
      (b' = ByteBuf.append b d ∧ ByteBuf.appendVerdict b d.length ≠ .mustRefuse) ∨
      (b' = b ∧ ByteBuf.appendVerdict b d.length ≠ .mustServe)
  | .memset o c l, ret, b' =>
      (ret = 0 ∧ ByteBuf.fillVerdict b o l ≠ .mustRefuse ∧
        b' = ByteBuf.fill b (if o = -1 then b.length else o.toNat) (UInt8.ofNat (c % 256).toNat) l.toNat) ∨
      (ret = -1 ∧ b' = b ∧ ByteBuf.fillVerdict b o l ≠ .mustServe)
  | .sprintbuf out, ret, b' =>
      (ret = out.length ∧ b' = ByteBuf.append b out ∧ ByteBuf.appendVerdict b out.length ≠ .mustRefuse) ∨
      (ret = -1 ∧ b' = b ∧ ByteBuf.appendVerdict b out.length ≠ .mustServe)
  | .reset, _, b' => b' = []

/-- ops after which the text must be NUL-terminated inside the allocation when they succeed -/
def Op.appends : Op → Bool
  | .append _ | .fast _ | .sprintbuf _ | .reset => true
  | _ => false

/-- One call, any state satisfying the invariant, any well-formed request: no fault, invariant
kept, behaviour allowed by the byte-array specification, text terminated after append-like ops. -/
theorem step_refines (p : Pb) (h : Inv p) (op : Op) (hwf : op.WF) :
    ∃ r, step p op = .ok r ∧ Inv r.pb ∧ OpSpec (contents p) op r.ret (contents r.pb) ∧
      (op.appends = true → contents r.pb ≠ contents p ∨ op = .reset → Term r.pb) := by
  have hI : INT_MAX = (intMax : Int) := rfl
  have hcl := contents_length p h
  cases op with
  | append d =>
    obtain ⟨r, hr, hinv, hcase⟩ := memappend_refines p h d d.length (Or.inl (by omega))
    refine ⟨r, hr, hinv, ?_, ?_⟩
    · rcases hcase with ⟨h1, _, _, hc, ht, _⟩ | ⟨h1, _, hpb, hbig⟩
      · have hc' : contents r.pb = contents p ++ d := by rw [hc]; simp
        left; refine ⟨h1, hc', ?_⟩
        exact verdict_served _ _ (by omega) (served_fits p r.pb hinv ht d hc' h)
      · right; refine ⟨h1, by rw [hpb], ?_⟩
        apply verdict_refused; rw [hcl]; omega
    · intro _ hne
      rcases hcase with ⟨_, _, _, _, ht, _⟩ | ⟨_, _, hpb, _⟩
      · exact ht
      · rw [hpb] at hne; simp at hne
  | appendClaim n =>
    obtain ⟨r, hr, hinv, hcase⟩ := memappend_refines p h claimSource n (by
      rcases hwf with hw | hw
      · left; omega
      · right; exact hw)
    refine ⟨r, hr, hinv, ?_, by simp [Op.appends]⟩
    rcases hcase with ⟨h1, h2, _, hc, ht, hb⟩ | ⟨h1, _, hpb, _⟩
    · exfalso
      rcases hwf with hw | hw
      · omega
      · have := hinv.le_max; have := ht.1
        omega
    · exact ⟨h1, by rw [hpb]⟩
  | fast d =>
    obtain ⟨r, hr, hinv, hcase⟩ := memappendFast_refines p h d d.length (by omega) (by omega)
    refine ⟨r, hr, hinv, ?_, ?_⟩
    · rcases hcase with ⟨hc, ht⟩ | ⟨hpb, hbig⟩
      · have hc' : contents r.pb = contents p ++ d := by rw [hc]; simp
        left; refine ⟨hc', ?_⟩
        exact verdict_served _ _ (by omega) (served_fits p r.pb hinv ht d hc' h)
      · right; refine ⟨by rw [hpb], ?_⟩
        apply verdict_refused; rw [hcl]; omega
    · intro _ hne
      rcases hcase with ⟨_, ht⟩ | ⟨hpb, _⟩
      · exact ht
      · rw [hpb] at hne; simp at hne
  | memset o c l =>
    obtain ⟨r, hr, hinv, hcase⟩ := memset_refines p h o c l
    refine ⟨r, hr, hinv, ?_, by simp [Op.appends]⟩
    have hg := guard_le_8
    have hE : ByteBuf.INT_MAX = INT_MAX := rfl
    rcases hcase with ⟨h1, _, hl, ho, hc⟩ | ⟨h1, _, hpb, hbig⟩
    · left
      have hoff : (if o = -1 then (contents p).length else o.toNat) = (effOffset p o).toNat := by
        unfold effOffset; split
        · rw [hcl]; simp
        · rfl
      refine ⟨h1, ?_, by rw [hoff]; exact hc⟩
      have hlen := contents_length r.pb hinv
      rw [hc, fill_length] at hlen
      have := hinv.le_max; have := hinv.bpos_le
      unfold ByteBuf.fillVerdict
      simp only [hcl]
      have hoff2 : (if o = -1 then (p.bpos : Int) else o) = effOffset p o := rfl
      rw [hoff2, if_neg (by omega), if_neg (by omega)]
      split <;> simp
    · right
      refine ⟨h1, by rw [hpb], ?_⟩
      unfold ByteBuf.fillVerdict
      simp only [hcl]
      have hoff2 : (if o = -1 then (p.bpos : Int) else o) = effOffset p o := rfl
      rw [hoff2]
      split
      · simp
      · split
        · simp
        · rw [if_neg (by omega)]; simp
  | sprintbuf out =>
    obtain ⟨r, hr, hinv, hcase⟩ := sprintbuf_refines p h out
    refine ⟨r, hr, hinv, ?_, ?_⟩
    · rcases hcase with ⟨h1, hc, ht⟩ | ⟨h1, hpb, hbig⟩
      · left; refine ⟨h1, hc, ?_⟩
        exact verdict_served _ _ (by omega) (served_fits p r.pb hinv ht out hc h)
      · right; refine ⟨h1, by rw [hpb], ?_⟩
        apply verdict_refused; rw [hcl]; omega
    · intro _ hne
      rcases hcase with ⟨_, _, ht⟩ | ⟨_, hpb, _⟩
      · exact ht
      · rw [hpb] at hne; simp at hne
  | reset =>
    obtain ⟨q, hq, hinv, ht, hc, _⟩ := reset_refines p h
    refine ⟨⟨q, 0, .none⟩, ?_, hinv, hc, fun _ _ => ht⟩
    simp [step, hq]

/-- what the specification allows a whole history to do -/
def RunSpec : Bytes → List Op → List Int → Bytes → Prop
  | b, [], [], b' => b' = b
  | b, op :: ops, ret :: rets, b' => ∃ b1, OpSpec b op ret b1 ∧ RunSpec b1 ops rets b'
  | _, _, _, _ => False

/-- C19, lifted to every finite history of well-formed requests from every state satisfying the
invariant (in particular from `printbuf_new`): the run never faults, the invariant holds at the
end, and returns/contents are those the byte-array specification allows. -/
theorem run_refines (ops : List Op) : ∀ (p : Pb), Inv p → (∀ op ∈ ops, op.WF) →
    ∃ q rs, run p ops = .ok (q, rs) ∧ Inv q ∧ RunSpec (contents p) ops (rs.map (·.ret)) (contents q) := by
  induction ops with
  | nil => intro p h _; exact ⟨p, [], rfl, h, rfl⟩
  | cons op ops ih =>
    intro p h hwf
    obtain ⟨r, hr, hinv, hspec, _⟩ := step_refines p h op (hwf op (by simp))
    obtain ⟨q, rs, hrun, hq, hrs⟩ := ih r.pb hinv (fun o ho => hwf o (by simp [ho]))
    refine ⟨q, r :: rs, ?_, hq, ?_⟩
    · simp [run, hr, hrun]
    · exact ⟨contents r.pb, hspec, hrs⟩

/-- from a fresh buffer -/
theorem run_from_new (ops : List Op) (hwf : ∀ op ∈ ops, op.WF) :
    ∃ p q rs, new = .ok p ∧ run p ops = .ok (q, rs) ∧ Inv q ∧
      RunSpec [] ops (rs.map (·.ret)) (contents q) := by
  obtain ⟨p, hp, hinv, _, hc⟩ := new_refines
  obtain ⟨q, rs, hrun, hq, hrs⟩ := run_refines ops p hinv hwf
  exact ⟨p, q, rs, hp, hrun, hq, by rw [← hc]; exact hrs⟩

/-- non-vacuity: a concrete history that crosses the first capacity doubling, fills beyond the
end, and resets, meets the hypotheses and is computed by the model. -/
example : ∃ p, new = .ok p ∧
    (run p [.append (List.replicate 40 65), .memset 50 66 3, .sprintbuf [67, 68], .reset, .append [69]]).isOk = true := by
  refine ⟨_, rfl, ?_⟩
  decide


/-- every source fact this property's model consumes was located in the current source by tools/extract (a fact that is not
found is emitted with a placeholder value; this obligation then fails and the check uses the reference model) -/
theorem source_facts_located_c19 : JsonC.Generated.factsFound_pb = true := by decide

end JsonC.Printbuf
