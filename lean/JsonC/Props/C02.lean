/-
  C02  Serialization emits valid JSON denoting the tree; parse(serialize(T)) = T.

  Property theorems only.
    Model : JsonC/Model/Serialize.lean   (transcription of the serializer of json_object.c: escape loop with
            start_offset batching, int formatting in sbuf[21], the 128-byte double buffer with comma→point,
            looks_numeric, ".0", NOZERO trimming, truncation; layout; colour; every array access and `int`
            computation checked = `Outcome.fault`).  libc's `snprintf("%.17g")` is the parameter `fmt`.
    Spec  : JsonC/Spec/Rfc8259.lean (RFC 8259 as the datatype `Doc`: `text`, `denote`, `ok`, `utf8Valid`) and
            JsonC/Spec/SerSpec.lean (`docOf` = the explicit document a tree must be rendered as under given
            flags, `escByte` = what is emitted per string byte, `valEq`, `docTokens`, `treeOk`, `roundTrips`).

  Quantifiers: `flags : Nat` is any `int` flag word (the six JSON_C_TO_STRING_* bits are decoded by `Fl.ofNat`
  with the constants regenerated from json_object.h; all 64 combinations are covered because the statements hold
  for every `flags`); `v` is any tree with `treeOk fmt v` (= built through the API: any byte strings incl. NUL
  and invalid UTF-8, any int64/uint64, any finite double, any nesting); `fmt` is any libc `%.17g` whose output
  on the doubles of the tree has the shape `g17Shape` — a hypothesis on libc inside `treeOk`, checked against
  glibc and against the exact reference `Dbl.fmtG17` on every double of every correspondence run.
-/
import JsonC.Lemmas.SerializeSem
import JsonC.Props.C01

namespace JsonC.Serialize
open JsonC Generated SerSpec Rfc8259

/-- the statements of json_object.c whose exact form the model transcribes are still there, and the
128-byte buffer / ".0" guard / sbuf sizes have the values the proofs use -/
theorem src_shape :
    serEscHexIdx = true ∧ serEscCtlBelowSpace = true ∧ serEscUnsignedChar = true ∧ serEscCases = [8, 10, 13, 9, 12, 34, 92, 47] ∧
    serIntBySignedness = true ∧ serLooksNumericFromText = true ∧ serNoZeroStopsAtExp = true ∧ serNoZeroMove = true ∧
    serCommaToPoint = true ∧ serDblTruncates = true ∧ serStringUsesStoredLen = true ∧ serUserdataStrlen = true ∧
    serKeyStrlen = true ∧ serTopLevel = true ∧ serIndentShape = true ∧ serStdFormat = [37, 46, 49, 55, 103] ∧
    serDblBuf = 128 ∧ serDotZeroSlack = 2 ∧ serIntBuf = 21 ∧ serEscBuf = 7 := by
  decide

variable (fmt : UInt64 → Bytes)

/-! ## every byte of every string -/

/-- **json_escape_str, all byte strings** (control bytes, NUL, DEL, invalid UTF-8 …), both values of
NOSLASHESCAPE: the batching loop never faults (no out-of-bounds read of `json_hex_chars`, `sbuf` large
enough) and emits exactly one piece per input byte, in order: `escByte` — `\b \n \r \t \f \" \\`, `\/`
unless NOSLASHESCAPE, `\u00XX` (lower-case hex) for the other bytes below 0x20 (NUL included), and
**every other byte verbatim, in particular every byte ≥ 0x80** (`escByte_high`). -/
theorem ser_escape_bytes (noSlash : Bool) (s : Bytes) : escapeStr noSlash s = .ok (s.flatMap (escByte noSlash)) :=
  escapeStr_eq noSlash s

/-- the pieces are the RFC 8259 string items `itemsOf` (`raw` byte, two-character escape, `\u00XX`), each
well-formed, and they denote exactly the string's bytes -/
theorem ser_escape_items (noSlash : Bool) (s : Bytes) :
    s.flatMap (escByte noSlash) = (itemsOf noSlash s).flatMap StrItem.text ∧
    (itemsOf noSlash s).all StrItem.ok = true ∧ decodeItems (itemsOf noSlash s) = s :=
  ⟨(items_text noSlash s).symm, items_ok noSlash s, decodeItems_itemsOf noSlash s⟩

/-! ## the text -/

/-- **No fault**: for every tree of the property, every flag word and nesting below 2^30, serialization
performs no out-of-bounds access and no `int` overflow (`strcat(buf, ".0")` stays inside the 128-byte
buffer, `level * 2` and `level + 1` stay in range, `int userdata_len` holds the length). -/
theorem ser_no_fault (flags : Nat) (v : JVal) (hok : treeOk fmt v = true) (hn : 2 * nest v ≤ intMax) :
    ∃ t, serialize fmt flags v = .ok t := by
  cases v with
  | null => exact ⟨_, rfl⟩
  | bool b => obtain ⟨_, t, _, h, _⟩ := (render_all fmt).1 (.bool b) (Fl.ofNat flags) 0 hok (by omega); exact ⟨t, h⟩
  | int s x => obtain ⟨_, t, _, h, _⟩ := (render_all fmt).1 (.int s x) (Fl.ofNat flags) 0 hok (by omega); exact ⟨t, h⟩
  | dbl b x => obtain ⟨_, t, _, h, _⟩ := (render_all fmt).1 (.dbl b x) (Fl.ofNat flags) 0 hok (by omega); exact ⟨t, h⟩
  | str s => obtain ⟨_, t, _, h, _⟩ := (render_all fmt).1 (.str s) (Fl.ofNat flags) 0 hok (by omega); exact ⟨t, h⟩
  | arr xs => obtain ⟨_, t, _, h, _⟩ := (render_all fmt).1 (.arr xs) (Fl.ofNat flags) 0 hok (by omega); exact ⟨t, h⟩
  | obj kvs => obtain ⟨_, t, _, h, _⟩ := (render_all fmt).1 (.obj kvs) (Fl.ofNat flags) 0 hok (by omega); exact ⟨t, h⟩

/-- **ser_no_nul**: whatever the tree (any bytes, NaN/Infinity, junk retained text), whatever libc formats
and whatever the flags, a returned text contains no NUL byte … -/
theorem ser_no_nul (flags : Nat) (v : JVal) (t : Bytes) (h : serialize fmt flags v = .ok t) : 0 ∉ t := by
  cases v with
  | null => cases h; decide
  | bool b => exact (no_nul_all fmt).1 _ _ _ _ h
  | int s x => exact (no_nul_all fmt).1 _ _ _ _ h
  | dbl b x => exact (no_nul_all fmt).1 _ _ _ _ h
  | str s => exact (no_nul_all fmt).1 _ _ _ _ h
  | arr xs => exact (no_nul_all fmt).1 _ _ _ _ h
  | obj kvs => exact (no_nul_all fmt).1 _ _ _ _ h

/-- … so `strlen` of the returned buffer is the reported length (`*length = bpos` = number of bytes appended) -/
theorem ser_strlen_eq_length (flags : Nat) (v : JVal) (t : Bytes) (h : serialize fmt flags v = .ok t) :
    (t.takeWhile (· != 0)).length = t.length := by
  have h0 := ser_no_nul fmt flags v t h
  rw [takeWhile_all]
  intro x hx
  simp only [bne_iff_ne, ne_eq]; intro e; subst e; exact h0 hx

/-- the document a whole tree must be rendered as (a NULL `jso` and a null child are both `null`) -/
def docOfTop (flags : Nat) (v : JVal) : Option Doc := docOf fmt (Fl.ofNat flags) 0 v

/-- **ser_is_doc**: for every tree of the property (strings are *any* bytes) and every flag word the
colour-stripped output is the rendering `Doc.text` of the explicitly constructed document `docOfTop`,
whose pieces are well-formed (`Doc.ok`: digits are digits, no superfluous leading zero, unescaped bytes
are neither control characters nor `"` nor `\`, hex digits are hex digits).  RFC 8259 additionally
requires the text to be UTF-8: string bytes ≥ 0x80 are copied verbatim (`ser_escape_bytes`,
`escByte_high`), so the text is RFC 8259 exactly when every string and key of the tree is UTF-8:
that is `ser_utf8_iff` below. -/
theorem ser_is_doc (flags : Nat) (v : JVal) (hok : treeOk fmt v = true) (hn : 2 * nest v ≤ intMax) :
    ∃ d t, serialize fmt flags v = .ok t ∧ docOfTop fmt flags v = some d ∧ d.ok = true ∧ stripColor t = d.text := by
  have key : ∀ v, treeOk fmt v = true → 2 * nest v ≤ intMax →
      ∃ d t, serChild fmt (Fl.ofNat flags) 0 v = .ok t ∧ docOf fmt (Fl.ofNat flags) 0 v = some d ∧ d.ok = true ∧
        stripColor t = d.text := by
    intro v hok hn
    obtain ⟨d, t, hd, ht, hdok, _, hs⟩ := (render_all fmt).1 v (Fl.ofNat flags) 0 hok (by omega)
    refine ⟨d, t, ht, hd, hdok, ?_⟩
    have := hs []
    simpa [stripColor, strip] using this
  cases v with
  | null => exact ⟨.null, nullBytes, rfl, rfl, rfl, by decide⟩
  | bool b => exact key _ hok hn
  | int s x => exact key _ hok hn
  | dbl b x => exact key _ hok hn
  | str s => exact key _ hok hn
  | arr xs => exact key _ hok hn
  | obj kvs => exact key _ hok hn

/-- **ser_utf8_iff**: the rendering is well-formed UTF-8 (`Rfc8259.utf8Valid`, RFC 3629: shortest form, no
surrogates, ≤ U+10FFFF) **exactly when** every string and every key of the tree is (`utf8Tree`) — for
every tree with a rendering, every flag word.  Together with `ser_is_doc`: for trees whose strings are
UTF-8 the colour-stripped output *is* RFC 8259 text (`d.ok ∧ utf8Valid d.text`); for a tree holding a
non-UTF-8 string it is not, and the only reason is those string bytes, emitted verbatim. -/
theorem ser_utf8_iff (flags : Nat) (v : JVal) (d : Doc) (hd : docOfTop fmt flags v = some d) :
    utf8Valid d.text = utf8Tree v :=
  piece_acc ((utf8_all fmt).1 v (Fl.ofNat flags) 0 d hd)

/-- … stated on the serializer's output itself -/
theorem ser_rfc8259 (flags : Nat) (v : JVal) (hok : treeOk fmt v = true) (hn : 2 * nest v ≤ intMax) :
    ∃ (d : Doc) (t : Bytes), serialize fmt flags v = .ok t ∧ stripColor t = d.text ∧ d.ok = true ∧
      utf8Valid (stripColor t) = utf8Tree v := by
  obtain ⟨d, t, h1, h2, h3, h4⟩ := ser_is_doc fmt flags v hok hn
  exact ⟨d, t, h1, h4, h3, by rw [h4]; exact ser_utf8_iff fmt flags v d h2⟩

/-- **ser_denotes**: that document denotes the tree, up to the equality of the property (`valEq`: integers
by value whatever the C type, doubles by IEEE bit pattern, strings/keys by bytes, members in order).
Named libc hypothesis `roundTrips fmt Dbl.strtod v`: reading the emitted text of each finite double of
the tree back (correctly rounded) gives that double — true of `%.17g`, checked on every double of every
correspondence run (`g17` / `rt` ops), never an axiom. -/
theorem ser_denotes (flags : Nat) (v : JVal) (d : Doc) (hok : treeOk fmt v = true)
    (hrt : roundTrips fmt Dbl.strtod v = true) (hd : docOfTop fmt flags v = some d) : valEq d.denote v = true :=
  (denote_all fmt).1 v (Fl.ofNat flags) 0 d hok hrt hd

/-- **ser_flags_ws_only**: for any two flag words the two renderings have the same token values, token by
token — flags change only insignificant whitespace (the `Ws` fields of `Doc`, which `docTokens` drops)
and colour (already stripped).  NOSLASHESCAPE changes the *spelling* of string tokens (`/` vs `\/`), never
their value; with equal NOSLASHESCAPE bits the token sequences are identical, spelling included.
NOZERO changes nothing at all on `%.17g` output (`doublePost_shape`: the trailing-zero scan stops at the
exponent and `%.17g` leaves no removable zero). -/
theorem ser_flags_ws_only (flags1 flags2 : Nat) (v : JVal) (d1 d2 : Doc)
    (h1 : docOfTop fmt flags1 v = some d1) (h2 : docOfTop fmt flags2 v = some d2) :
    (docTokens d1).map Token.value = (docTokens d2).map Token.value ∧
    ((Fl.ofNat flags1).noSlash = (Fl.ofNat flags2).noSlash → docTokens d1 = docTokens d2) :=
  (tokens_all fmt).1 v (Fl.ofNat flags1) (Fl.ofNat flags2) 0 0 d1 d2 h1 h2

/-- the double post-processing, for every libc output of the `%.17g` shape and both values of NOZERO: no
fault; the bytes appended are the number `numOfG17 t` — `t`, or `t ++ ".0"` when `t` has neither fraction
nor exponent (so `-0` is printed `-0.0` and re-parses as a double) -/
theorem ser_double_post (noZero : Bool) (t : Bytes) (h : g17Shape t = true) :
    ∃ n, numOfG17 t = some n ∧ n.ok = true ∧ (n.frac.isSome || n.exp.isSome) = true ∧ doublePost noZero t = .ok n.text :=
  doublePost_shape noZero t h

/-! ## the round trip -/

section roundtrip
open Tokener

/-- C01's theorem in the form used here (`Props.C01.parse_valid` proves it from the libc hypotheses
`LibcSpec lc`, see `roundtrip`): json_tokener_parse_ex on the NUL-terminated text of a well-formed RFC 8259
document returns what the document denotes -/
def ParseValidHyp (lc : Libc) : Prop :=
  ∀ (depth : Int) (flags : Nat) (t : Tok) (x : Rfc8259.Text), Tokener.new depth flags = some t → (flags = 0 ∨ flags = 1) →
    x.doc.ok = true → x.doc.keysNulFree = true → (flags = 1 → x.doc.intsFit = true) → x.doc.nest + 1 ≤ depth.toNat →
    let f := parseEx lc t (x.text ++ [0])
    f.err = .success ∧ f.value = some x.doc.denote ∧ f.offset = x.text.length ∧ f.stuck = false ∧ f.fault = none

/-- **roundtrip**, full statement: for every tree of the property nested less than the tokener's depth
(32), and every flag word without COLOR (coloured text is not JSON), `json_tokener_parse_ex(new_ex(32),
text, -1)` succeeds at the end of the text, without fault, with a tree equal to the original — `valEq`
(same shape, integers by value, doubles by bit pattern, members in order), hence `JVal.SemEq`, the relation
json_object_equal decides on API-built trees (Props/C09 `equal_iff_sem`) — and serializing that tree with
the same flags reproduces the text byte for byte. -/
def RoundtripStatement (lc : Libc) : Prop :=
  ∀ (flags : Nat) (v : JVal), (Fl.ofNat flags).color = false → treeOk fmt v = true →
    roundTrips fmt Dbl.strtod v = true → nest v < 32 →
    ∃ t tok p, serialize fmt flags v = .ok t ∧ Tokener.new 32 0 = some tok ∧
      (parseExZ lc tok t).err = .success ∧ (parseExZ lc tok t).value = some p ∧
      (parseExZ lc tok t).offset = t.length ∧ (parseExZ lc tok t).fault = none ∧ (parseExZ lc tok t).stuck = false ∧
      valEq p v = true ∧ JVal.SemEq v p ∧ serialize fmt flags p = .ok t

/-- `roundtrip` as the corollary of `ser_is_doc` and C01 it is: nothing else is needed — the document's
nesting is the tree's, its integers fit 64 bits, its names are NUL-free, it denotes the tree, the text has
no NUL (so len = -1 reads all of it), and what the document denotes serializes to the same bytes. -/
theorem roundtrip_of_parse_valid (lc : Libc) (hpv : ParseValidHyp lc) : RoundtripStatement fmt lc := by
  intro flags v hc hok hrt hnest
  have hlvl : 2 * (0 + nest v) ≤ intMax := by have : intMax = 2147483647 := rfl; omega
  obtain ⟨d, t, hd, ht, hdok, hesc, hs⟩ := (render_all fmt).1 v (Fl.ofNat flags) 0 hok hlvl
  have htext : t = d.text := by
    have h1 := hs []
    have h2 := strip_noesc' t (hesc hc)
    simp only [List.append_nil] at h1
    rw [h2] at h1; simpa [strip] using h1
  obtain ⟨hn, hfit, hknf⟩ := (shape_all fmt).1 v (Fl.ofNat flags) 0 d hok hd
  obtain ⟨tok, hnew⟩ : ∃ tok, Tokener.new 32 0 = some tok := ⟨_, rfl⟩
  have hp := hpv 32 0 tok ⟨[], d, []⟩ hnew (Or.inl rfl) hdok hknf (fun _ => hfit) (by rw [hn]; simp; omega)
  have hxt : (⟨[], d, []⟩ : Rfc8259.Text).text = d.text := by simp [Rfc8259.Text.text, Ws.text]
  simp only [hxt] at hp
  obtain ⟨p1, p2, p3, p4, p5⟩ := hp
  -- len = -1: the C string is the whole text
  have hser : serialize fmt flags v = .ok t := by rw [serialize_eq_child fmt flags v hc]; exact ht
  have h0 : 0 ∉ t := ser_no_nul fmt flags v t hser
  have hz : parseExZ lc tok t = parseEx lc tok (d.text ++ [0]) := by
    unfold parseExZ
    have hc0 : cstr t = t := by
      unfold cstr; apply takeWhile_all; intro x hx
      simp only [bne_iff_ne, ne_eq]; intro e; subst e; exact h0 hx
    rw [hc0, htext]
    simp only [p1]
  have hveq := (denote_all fmt).1 v (Fl.ofNat flags) 0 d hok hrt hd
  refine ⟨t, tok, d.denote, hser, hnew, ?_, ?_, ?_, ?_, ?_, hveq, ?_, ?_⟩
  · rw [hz]; exact p1
  · rw [hz]; exact p2
  · rw [hz, htext]; exact p3
  · rw [hz]; exact p5
  · rw [hz]; exact p4
  · exact ⟨(valEq_sem_all.1 d.denote v hveq).symm, (nanFree_all fmt).1 v hok⟩
  · rw [serialize_eq_child fmt flags d.denote hc]
    exact (reser_all fmt).1 v (Fl.ofNat flags) 0 d t hok hd ht

/-- **roundtrip**: `RoundtripStatement` holds for every libc meeting the named hypotheses `LibcSpec lc`
(strtoll / strtoull exact-or-saturating on digit strings, strtod consuming the whole number text and
correctly rounded; compared with glibc on every number of the C01 and C02 correspondence runs), by C01's
`parse_valid`.  Nothing is left partial. -/
theorem roundtrip (lc : Libc) (hl : LibcSpec lc) : RoundtripStatement fmt lc :=
  roundtrip_of_parse_valid fmt lc (fun depth flags t x hnew hf hok hknf hfit hd =>
    JsonC.Props.C01.parse_valid lc hl depth flags hf t hnew x hok hknf hfit hd)

/-- a libc-hypothesis-free instance, evaluated on the tokener machine with the reference libc `refLibc`:
`null`, `true`, `false` under every flag word without COLOR round-trip (non-vacuity of `roundtrip`'s
conclusion; for everything else `refLibc`/glibc meet `LibcSpec` as far as the correspondence runs can tell) -/
theorem roundtrip_literals (flags : Nat) (v : JVal) (hv : v = .null ∨ v = .bool true ∨ v = .bool false)
    (hc : (Fl.ofNat flags).color = false) :
    ∃ t tok p, serialize fmt flags v = .ok t ∧ Tokener.new 32 0 = some tok ∧
      (parseExZ refLibc tok t).err = .success ∧ (parseExZ refLibc tok t).value = some p ∧
      (parseExZ refLibc tok t).fault = none ∧ (parseExZ refLibc tok t).stuck = false ∧
      valEq p v = true ∧ serialize fmt flags p = .ok t := by
  rcases hv with rfl | rfl | rfl
  · exact ⟨nullBytes, _, .null, rfl, rfl, by decide, rfl, by decide, by decide, rfl, rfl⟩
  · refine ⟨trueBytes, _, .bool true, ?_, rfl, by decide, rfl, by decide, by decide, rfl, ?_⟩ <;>
      simp [serialize, serChild, boolText, withColor, hc]
  · refine ⟨falseBytes, _, .bool false, ?_, rfl, by decide, rfl, by decide, by decide, rfl, ?_⟩ <;>
      simp [serialize, serChild, boolText, withColor, hc]

end roundtrip

/-! ## non-vacuity and counter-examples outside the hypotheses -/

/-- the reference `%.17g` shapes used below (the real `Dbl.fmtG17` is too heavy for kernel evaluation; the
driver runs it, compiled, on every double) -/
def fmtDemo (b : UInt64) : Bytes :=
  if b = 0x8000000000000000 then [45, 48]                     -- -0
  else if b = 0x4415AF1D78B58C40 then [49, 101, 43, 50, 48]   -- 1e+20
  else [49, 46, 53]                                           -- 1.5

/-- a non-trivial tree meeting every hypothesis: control bytes, NUL, DEL, invalid UTF-8, `/`, both integer
types at their bounds, -0.0 and 1e+20, retained text, nested containers, a key with an escape -/
def demoTree : JVal :=
  .obj [([97, 47], .arr [.str [0, 8, 31, 34, 47, 92, 127, 195, 255], .int true (-9223372036854775808),
          .int false 18446744073709551615, .dbl 0x8000000000000000 none, .dbl 0x4415AF1D78B58C40 none]),
        ([], .arr []), ([10], .obj [([107], .dbl 0x3FF8000000000000 (some [49, 46, 53, 48])), ([108], .null)])]

example : treeOk fmtDemo demoTree = true ∧ 2 * nest demoTree ≤ intMax ∧ nest demoTree < 32 := by
  refine ⟨by decide, by decide, by decide⟩

/-- … and what the model emits for it with PRETTY|SPACED|NOZERO|COLOR resp. PLAIN: `-0.0`, `1e+20` (NOZERO keeps the
exponent), `\u0000`, `\/`, raw 0xC3 0xFF -/
example : serialize fmtDemo 0 (.arr [.dbl 0x8000000000000000 none, .dbl 0x4415AF1D78B58C40 none, .str [0, 47, 255]]) =
    .ok [91, 45, 48, 46, 48, 44, 49, 101, 43, 50, 48, 44, 34, 92, 117, 48, 48, 48, 48, 92, 47, 255, 34, 93] := by
  decide

example : serialize fmtDemo 4 (.dbl 0x4415AF1D78B58C40 none) = .ok [49, 101, 43, 50, 48] := by decide

/-- outside the property: NaN has no RFC 8259 rendering (`docOf` is `none`) although the model still emits text -/
example : docOfTop fmtDemo 0 (.dbl 0x7FF8000000000000 none) = none ∧
    serialize fmtDemo 0 (.dbl 0x7FF8000000000000 none) = .ok [78, 97, 78] := by
  refine ⟨by decide, by decide⟩

/-- outside `g17Shape`: a libc printing an upper-case exponent without fraction would get ".0" appended after
the exponent (`1E5.0`), which is why the shape is a hypothesis and is checked against glibc on every run -/
example : doublePost false [49, 69, 53] = .ok [49, 69, 53, 46, 48] := by decide


/-- every source fact this property's model consumes was located in the current source by tools/extract (a fact that is not
found is emitted with a placeholder value; this obligation then fails and the check uses the reference model) -/
theorem source_facts_located_c02 : JsonC.Generated.factsFound_ser = true := by decide

end JsonC.Serialize
