/-
  C02  Serialization emits valid JSON denoting the tree; parse(serialize(T)) = T.
  (work in progress: theorems are added below as they are proved)
-/
import JsonC.Spec.SerSpec

namespace JsonC.Serialize
open JsonC Generated

/-- the statements of json_object.c whose exact form the model transcribes are still there -/
theorem src_shape :
    serEscHexIdx = true ∧ serEscCtlBelowSpace = true ∧ serEscUnsignedChar = true ∧ serEscCases = [8, 10, 13, 9, 12, 34, 92, 47] ∧
    serIntBySignedness = true ∧ serLooksNumericFromText = true ∧ serNoZeroStopsAtExp = true ∧ serNoZeroMove = true ∧
    serCommaToPoint = true ∧ serDblTruncates = true ∧ serStringUsesStoredLen = true ∧ serUserdataStrlen = true ∧
    serKeyStrlen = true ∧ serTopLevel = true ∧ serIndentShape = true ∧ serStdFormat = [37, 46, 49, 55, 103] := by
  decide

end JsonC.Serialize
