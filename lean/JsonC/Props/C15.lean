/-
  C15  The nesting limit is exact and enforced for every configured depth.

  Property theorems only (model: JsonC/Model/Tokener.lean; specification of "enclosed by n
  containers": JsonC/Spec/Rfc8259.lean, `Doc.nest` / `Doc.firstDeep`).

  Proved here, for every depth limit, every flag word, every libc and arbitrary (hostile) bytes:
  * a limit below 1 is refused;
  * the level stack of every reachable tokener has between 1 and D levels - the parser keeps one
    record per open container in a pre-allocated array of D records and never recurses, so neither
    that array nor the call stack can be overrun whatever the input;
  * the nesting error is raised by exactly one test, `depth >= max_depth - 1`, made when a value
    starts inside a container (array element or member value): it fires iff the container already
    sits on the last level; no other state of the machine produces it.
  * `depth_exact` / `accepted_iff_nest_below`: on every RFC 8259 document (any shape, layout, size)
    and every D >= 1: accepted, with the denoted value, iff `nest < D`; otherwise the nesting error
    at `firstDeep` - the first value enclosed by D containers.  Proved by two inductions over `Doc`
    (Lemmas/TokenerDoc1-10 for the accept half, shared with C01; Lemmas/TokenerDeep1-4 for the
    reject half).  The differential run additionally compares implementation, model and
    `Doc.nest` / `Doc.firstDeep` for D = 1..40.
-/
import JsonC.Lemmas.TranslatedCtor
import JsonC.Lemmas.TokenerDepth
import JsonC.Lemmas.TokenerLoc
import JsonC.Props.C04
import JsonC.Spec.Rfc8259
import JsonC.Lemmas.TokenerDeep4
import JsonC.Props.C01

namespace JsonC.Tokener
open JsonC

/-- D < 1 is refused -/
theorem depth_below_one_refused (d : Int) (f : Nat) (h : d < 1) : Tokener.new d f = none :=
  new_refuses d f h

/-- D ≥ 1 gives a tokener whose level array has exactly D records -/
theorem depth_accepted (d : Int) (f : Nat) (h : 1 ≤ d) :
    ∃ t, Tokener.new d f = some t ∧ t.maxDepth = d.toNat ∧ t.stack.length = 1 := by
  refine ⟨{ stack := [freshLevel], maxDepth := d.toNat, pb := [], stPos := 0, isDouble := false,
            ucs := 0, hs := 0, quote := 0, flags := f }, ?_, rfl, rfl⟩
  unfold Tokener.new
  rw [if_neg (by omega)]

/-- **the level stack never overflows**: for every tokener reachable by any parse / reset /
set_flags history over arbitrary bytes, the index `depth` into `stack[]` satisfies 0 ≤ depth < D -/
theorem level_stack_bounded (lc : Libc) (t : Tok) (h : Reachable lc t) :
    1 ≤ t.stack.length ∧ t.stack.length ≤ t.maxDepth :=
  stack_in_bounds lc t h

/-- the configured limit never changes during the life of a tokener -/
theorem limit_constant (lc : Libc) (t : Tok) (data : Bytes) : (parseEx lc t data).tok.maxDepth = t.maxDepth := by
  have : ∀ (A : Bytes) (t : Tok) (l : Loc) (c : UInt8) (off : Nat), (run lc t l c off A).tok.maxDepth = t.maxDepth := by
    intro A
    induction A with
    | nil => intro t l c off; simp [run]
    | cons b bs ih =>
      intro t l c off
      cases hpk : peek t l b with
      | none => simp [run, hpk]
      | some l1 =>
        have hfr := feed_frame lc t l1 b
        cases hfd : feed lc t l1 b with
        | consume t' l' =>
          rw [hfd] at hfr; simp only [Frame] at hfr
          by_cases hb : (b == 0) = true
          · simp [run, hpk, hfd, hb, hfr]
          · simp only [run, hpk, hfd, if_neg hb]; rw [ih t' l' b (off + 1)]; exact hfr.2.1
        | err e t' l' => rw [hfd] at hfr; simp only [Frame] at hfr; simp [run, hpk, hfd, hfr]
        | done t' l' => rw [hfd] at hfr; simp only [Frame] at hfr; simp [run, hpk, hfd, hfr]
        | redo t' l' => rw [hfd] at hfr; simp only [Frame] at hfr; simp [run, hpk, hfd, hfr]
        | fault w => simp [run, hpk, hfd]
  unfold parseEx epilogue
  simp only
  split <;> simp [this]

/-- **only the push test raises the nesting error**: a dispatch that ends in `error_depth` was made
in one of the three states that open a child level (array, array_after_sep, object_value) with the
stack full (depth = D - 1), and - for the array states - on a byte other than `]` -/
theorem depth_error_only_when_full (lc : Libc) (t : Tok) (l : Loc) (c : UInt8) (t' : Tok) (l' : Loc)
    (h : disp lc t l c = .err .depth t' l') :
    ∃ top rest, t.stack = top :: rest ∧ t.maxDepth ≤ rest.length + 1 ∧
      ((top.state = .array ∨ top.state = .arrayAfterSep) ∧ c ≠ 93 ∨ top.state = .objectValue) := by
  unfold disp at h
  cases hs : t.stack with
  | nil => rw [hs] at h; cases h
  | cons top rest =>
    rw [hs] at h
    simp only at h
    refine ⟨top, rest, rfl, ?_⟩
    have push : ∀ st, pushLevel t l top rest st = .err .depth t' l' → t.maxDepth ≤ rest.length + 1 := by
      intro st hp
      unfold pushLevel at hp
      split at hp
      · omega
      · split at hp <;> cases hp
    have nd : ∀ a : Act, NoDepthErr a → a = .err .depth t' l' → False := by
      intro a ha he; subst he; exact ha rfl
    cases hst : top.state <;> rw [hst] at h <;> simp only at h
    · exact (nd _ (dEatws_nd ..) h).elim
    · exact (nd _ (dStart_nd ..) h).elim
    · exact (nd _ (dFinish_nd ..) h).elim
    · exact (nd _ (dNull_nd ..) h).elim
    · exact (nd _ (dCommentStart_nd ..) h).elim
    · exact (nd _ (dComment_nd ..) h).elim
    · exact (nd _ (dCommentEol_nd ..) h).elim
    · exact (nd _ (dCommentEnd_nd ..) h).elim
    · exact (nd _ (dString_nd ..) h).elim
    · exact (nd _ (dStringEscape_nd ..) h).elim
    · exact (nd _ (dEscapeUnicode_nd ..) h).elim
    · exact (nd _ (dNeedEscape_nd ..) h).elim
    · exact (nd _ (dNeedU_nd ..) h).elim
    · exact (nd _ (dBoolean_nd ..) h).elim
    · exact (nd _ (dNumber_nd ..) h).elim
    · -- array
      unfold dArray at h
      split at h
      · split at h <;> cases h
      · rename_i hc
        exact ⟨push _ h, Or.inl ⟨Or.inl rfl, by simpa using hc⟩⟩
    · cases h
    · exact (nd _ (dArraySep_nd ..) h).elim
    · exact (nd _ (dObjectFieldStart_nd ..) h).elim
    · exact (nd _ (dObjectField_nd ..) h).elim
    · exact (nd _ (dObjectFieldEnd_nd ..) h).elim
    · exact ⟨push _ h, Or.inr rfl⟩
    · cases h
    · exact (nd _ (dObjectSep_nd ..) h).elim
    · -- array_after_sep
      unfold dArray at h
      split at h
      · split at h <;> cases h
      · rename_i hc
        exact ⟨push _ h, Or.inl ⟨Or.inr rfl, by simpa using hc⟩⟩
    · exact (nd _ (dObjectFieldStart_nd ..) h).elim
    · exact (nd _ (dInf_nd ..) h).elim

/-- **and it is raised whenever the stack is full**: a value starting inside an array / as a member
value when the container occupies level D-1 gets the nesting error, otherwise a fresh level is pushed -/
theorem depth_error_when_full (t : Tok) (l : Loc) (top : Level) (rest : List Level) (st : St) (hm : 1 ≤ t.maxDepth) :
    (pushLevel t l top rest st = .err .depth t l ↔ t.maxDepth ≤ rest.length + 1) ∧
    (rest.length + 1 < t.maxDepth →
      pushLevel t l top rest st = .redo { t with stack := freshLevel :: { top with state := st } :: rest } l) :=
  pushLevel_depth t l top rest st hm

/-- **C15 on documents**: with limit D (any D ≥ 1, flags 0 or STRICT), a valid text is accepted - with
exactly the value it denotes - iff its nesting is below D; otherwise the call fails with the nesting
error, returns no value, and reports as position the first value (in document order) that is enclosed
by D containers (`Doc.firstDeep`, Spec/Rfc8259.lean).  Every document, every layout, every D. -/
theorem depth_exact (lc : Libc) (hl : LibcSpec lc) (d : Int) (f : Nat) (hf : f = 0 ∨ f = 1) (t : Tok)
    (hnew : Tokener.new d f = some t) (x : Rfc8259.Text)
    (hok : x.doc.ok = true) (hknf : x.doc.keysNulFree = true) (hfit : f = 1 → x.doc.intsFit = true) :
    (x.doc.nest < d.toNat →
      (parseEx lc t (x.text ++ [0])).err = .success ∧ (parseEx lc t (x.text ++ [0])).value = some x.doc.denote ∧
      (parseEx lc t (x.text ++ [0])).offset = x.text.length ∧ (parseEx lc t (x.text ++ [0])).fault = none) ∧
    (d.toNat ≤ x.doc.nest →
      ∃ k, Rfc8259.Doc.firstDeep d.toNat 0 x.doc x.lead.length = some k ∧
        (parseEx lc t (x.text ++ [0])).err = .depth ∧ (parseEx lc t (x.text ++ [0])).value = none ∧
        (parseEx lc t (x.text ++ [0])).offset = k ∧ (parseEx lc t (x.text ++ [0])).stuck = false ∧
        (parseEx lc t (x.text ++ [0])).fault = none) := by
  constructor
  · intro hn
    have := Props.C01.parse_valid lc hl d f hf t hnew x hok hknf hfit (by omega)
    exact ⟨this.1, this.2.1, this.2.2.1, this.2.2.2.2⟩
  · intro hn
    obtain ⟨hv, hhs, hst, hmd, hstrict⟩ := noVal_of_flags d f t hnew hf
    have hwf := new_wf d f t hnew
    cases hk : Rfc8259.Doc.firstDeep d.toNat 0 x.doc x.lead.length with
    | none =>
      have := fits_of_firstDeep_none d.toNat x.doc 0 _ hk
      omega
    | some k =>
      refine ⟨k, rfl, ?_⟩
      exact top_level_deep lc hl t hwf hst hv hhs x hok (fun h => hfit (hstrict.mp h)) hknf k (by rw [hmd]; exact hk)

/-- acceptance is exactly "nesting below D" -/
theorem accepted_iff_nest_below (lc : Libc) (hl : LibcSpec lc) (d : Int) (f : Nat) (hf : f = 0 ∨ f = 1) (t : Tok)
    (hnew : Tokener.new d f = some t) (x : Rfc8259.Text)
    (hok : x.doc.ok = true) (hknf : x.doc.keysNulFree = true) (hfit : f = 1 → x.doc.intsFit = true) :
    (parseEx lc t (x.text ++ [0])).err = .success ↔ x.doc.nest < d.toNat := by
  have h := depth_exact lc hl d f hf t hnew x hok hknf hfit
  constructor
  · intro hs
    cases Nat.lt_or_ge x.doc.nest d.toNat with
    | inl hlt => exact hlt
    | inr hge =>
      obtain ⟨k, _, he, _⟩ := h.2 hge
      rw [he] at hs
      cases hs
  · intro hlt
    exact (h.1 hlt).1

/-- non-vacuity / the model exhibits both verdicts: with D = 2, `[[]]` is accepted and `[[1]]`
fails with the nesting error at offset 2 (the `1`) -/
example : ∃ t, Tokener.new 2 0 = some t ∧
    (parseExZ refLibc t [91, 91, 93, 93]).err = .success ∧
    (parseExZ refLibc t [91, 91, 49, 93, 93]).err = .depth ∧ (parseExZ refLibc t [91, 91, 49, 93, 93]).offset = 2 := by
  refine ⟨_, rfl, ?_, ?_, ?_⟩ <;> decide


/-- every source fact this property's model consumes was located in the current source by tools/extract (a fact that is not
found is emitted with a placeholder value; this obligation then fails and the check uses the reference model) -/
theorem source_facts_located_c15 : JsonC.Generated.factsFound_tok = true := by decide

end JsonC.Tokener
