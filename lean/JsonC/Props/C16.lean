/-
  C16  Strict mode rejects every documented extension anywhere; default mode accepts it.

  Property theorems only (model: JsonC/Model/Tokener.lean).  One theorem per extension form and
  parser state that can meet it, each for *every* tokener state of that shape, every enclosing stack
  of levels and every libc:

    comment ........ `eatws` on '/': default enters comment_start; strict hands the byte to the saved
                     state (where it is a syntax error: `strict_slash_*`)
    single quote ... `start` / `object_field_start[_after_sep]` on '\''
    trailing comma . `array_after_sep` on ']' , `object_field_start_after_sep` on '}'
    control byte ... `string` / `object_field` on a byte ≤ 0x1f
    leading zero ... the number classification on saved text "0d…" / "-0d…"
    bare exponent .. scanning accepts it; default mode trims it before strtod, strict mode does not
    trailing bytes . the epilogue when the top-level value is complete and a byte follows

  The lifting to documents is `default_accepts_extensions` / `strict_rejects_extensions` at the end
  of this file: for every RFC 8259 document with any number of comments, trailing commas, single-
  quoted strings / member names, raw control characters in strings / names, non-lowercase
  literals, superfluous leading zeros and digit-less exponents at any admissible positions
  (`Spec/Rfc8259X.lean`), default mode succeeds with `XDoc.denote` - which IS the value of the original
  document when no number carries a number extension (`default_value_is_original`), and is that value up
  to the source text a double retains when numbers do (`default_value_same_numbers`; a digit-less
  exponent on an integer, `1e`, turns it into a double: not value-neutral, and excluded there) - and
  strict mode fails: two inductions over the extended document type (Lemmas/TokenerXDoc1-4,
  TokenerXRej1-5; number tokens: Lemmas/TokenerXNum).  What is assumed of strtod on such numbers is the
  named hypothesis `LibcSpecX` (proved for the reference conversion: `refLibc_x`).
  Trailing bytes are `trailing_bytes` (whole documents, three modes).  The differential run decides all
  eight forms on every admissible position of every generated document.
-/
import JsonC.Props.C04
import JsonC.Spec.Rfc8259
import JsonC.Lemmas.TokenerXRej5
import JsonC.Lemmas.TokenerXTrail
import JsonC.Lemmas.TokenerXVal
import JsonC.Props.C01

namespace JsonC.Tokener
open JsonC

/-! ### comments -/

/-- default mode: '/' after optional whitespace opens a comment -/
theorem default_slash_opens_comment (t : Tok) (l : Loc) (top : Level) (rest : List Level) (h : t.strict = false) :
    dEatws t l top rest 47 = .consume { setTop t { top with state := .commentStart } rest with pb := [47] } l := by
  unfold dEatws; simp [isWs, h]

/-- strict mode: '/' is never taken as a comment opener; it is handed to the saved state -/
theorem strict_slash_not_comment (t : Tok) (l : Loc) (top : Level) (rest : List Level) (h : t.strict = true) :
    dEatws t l top rest 47 = .redo (setTop t { top with state := top.saved } rest) l := by
  unfold dEatws; simp [isWs, h]

/-- …and every state a level can be resumed in rejects '/' (value start, after an element, after a
member, where a member name or a ':' is expected), so a comment at any whitespace position is a
syntax error in strict mode -/
theorem strict_slash_rejected_start (t : Tok) (l : Loc) (top : Level) (rest : List Level) :
    dStart t l top rest 47 = .err .unexpected t l := by
  unfold dStart; simp [isDigit]

theorem strict_slash_rejected_arraySep (t : Tok) (l : Loc) (top : Level) (rest : List Level) :
    dArraySep t l top rest 47 = .err .array t l := by unfold dArraySep; simp
theorem strict_slash_rejected_objectSep (t : Tok) (l : Loc) (top : Level) (rest : List Level) :
    dObjectSep t l top rest 47 = .err .valueSep t l := by unfold dObjectSep; simp
theorem strict_slash_rejected_fieldStart (t : Tok) (l : Loc) (top : Level) (rest : List Level) (b : Bool) :
    dObjectFieldStart t l top rest 47 b = .err .keyName t l := by unfold dObjectFieldStart; simp
theorem strict_slash_rejected_fieldEnd (t : Tok) (l : Loc) (top : Level) (rest : List Level) :
    dObjectFieldEnd t l top rest 47 = .err .keySep t l := by unfold dObjectFieldEnd; simp

/-! ### single quotes -/

theorem strict_single_quote_value (t : Tok) (l : Loc) (top : Level) (rest : List Level) (h : t.strict = true) :
    dStart t l top rest 39 = .err .unexpected t l := by
  unfold dStart; simp [h]

theorem default_single_quote_value (t : Tok) (l : Loc) (top : Level) (rest : List Level) (h : t.strict = false) :
    dStart t l top rest 39 = .consume { setTop t { top with state := .string } rest with pb := [], quote := 39 } l := by
  unfold dStart; simp [h]

theorem strict_single_quote_name (t : Tok) (l : Loc) (top : Level) (rest : List Level) (b : Bool) (h : t.strict = true) :
    dObjectFieldStart t l top rest 39 b = .err .keyName t l := by
  unfold dObjectFieldStart; simp [h]

theorem default_single_quote_name (t : Tok) (l : Loc) (top : Level) (rest : List Level) (b : Bool) (h : t.strict = false) :
    dObjectFieldStart t l top rest 39 b =
      .consume { setTop t { top with state := .objectField } rest with quote := 39, pb := [] } l := by
  unfold dObjectFieldStart; simp [h]

/-! ### trailing commas -/

theorem strict_trailing_comma_array (t : Tok) (l : Loc) (top : Level) (rest : List Level) (h : t.strict = true) :
    dArray t l top rest 93 true = .err .unexpected t l := by
  unfold dArray; simp [h]

theorem default_trailing_comma_array (t : Tok) (l : Loc) (top : Level) (rest : List Level) (h : t.strict = false) :
    dArray t l top rest 93 true = .consume (setTop t { top with state := .eatws, saved := .finish } rest) l := by
  unfold dArray; simp [h]

theorem strict_trailing_comma_object (t : Tok) (l : Loc) (top : Level) (rest : List Level) (h : t.strict = true) :
    dObjectFieldStart t l top rest 125 true = .err .unexpected t l := by
  unfold dObjectFieldStart; simp [h]

theorem default_trailing_comma_object (t : Tok) (l : Loc) (top : Level) (rest : List Level) (h : t.strict = false) :
    dObjectFieldStart t l top rest 125 true = .consume (setTop t { top with state := .eatws, saved := .finish } rest) l := by
  unfold dObjectFieldStart; simp [h]

/-! ### raw control characters in strings and member names -/

theorem strict_control_in_string (t : Tok) (l : Loc) (top : Level) (rest : List Level) (c : UInt8)
    (h : t.strict = true) (hc : c ≤ 0x1f) (hq : c ≠ t.quote) : dString t l top rest c = .err .string t l := by
  unfold dString
  have h92 : (c == 92) = false := by
    have : c ≠ 92 := by intro h'; subst h'; exact absurd hc (by decide)
    simpa using this
  simp [h, hc, hq, h92]

theorem default_control_in_string (t : Tok) (l : Loc) (top : Level) (rest : List Level) (c : UInt8)
    (h : t.strict = false) (hc : c ≤ 0x1f) (hq : c ≠ t.quote) :
    dString t l top rest c = .consume { t with pb := t.pb ++ [c] } l := by
  unfold dString
  have h92 : (c == 92) = false := by
    have : c ≠ 92 := by intro h'; subst h'; exact absurd hc (by decide)
    simpa using this
  simp [h, hq, h92]

theorem strict_control_in_name (t : Tok) (l : Loc) (top : Level) (rest : List Level) (c : UInt8)
    (h : t.strict = true) (hc : c ≤ 0x1f) (hq : c ≠ t.quote) : dObjectField t l top rest c = .err .string t l := by
  unfold dObjectField
  have h92 : (c == 92) = false := by
    have : c ≠ 92 := by intro h'; subst h'; exact absurd hc (by decide)
    simpa using this
  simp [h, hc, hq, h92]

/-! ### superfluous leading zeros -/

/-- strict mode: whatever libc's conversions say, a saved number text whose digits start with a
'0' followed by another digit - `00`, `-01`, `01.5`, integer or not - is rejected -/
theorem strict_leading_zero_rejected (lc : Libc) (t : Tok) (pb : Bytes) (d : UInt8) (more : Bytes) (neg : Bool)
    (h : t.strict = true) (hd : isDigit d = true)
    (hpb : pb = (if neg then [45] else []) ++ 48 :: d :: more) :
    classifyNum lc t pb = .error .number := by
  unfold classifyNum
  subst hpb
  cases neg <;> simp [h, hd, startsWithDigit]

/-! ### trailing bytes after the value -/

/-- the top-level value is complete (`finish` at depth 0) and a byte `c ≠ 0` follows: strict mode
without ALLOW_TRAILING_CHARS turns the call into "unexpected character" -/
theorem strict_trailing_rejected (e : LoopEnd) (top : Level) (hst : e.tok.stack = [top]) (hfin : top.state = .finish)
    (hc : e.c ≠ 0) (hs : e.tok.strict = true) (ha : e.tok.allowTrailing = false) :
    finalErr e = .unexpected := by
  unfold finalErr
  simp [topState, hst, hfin, hc, hs, ha]

/-- with ALLOW_TRAILING_CHARS (or in default mode) the same situation is a success: the call
returns the value and `offset` is where the parser stopped, before the trailing byte -/
theorem trailing_accepted (e : LoopEnd) (top : Level) (hst : e.tok.stack = [top]) (hfin : top.state = .finish)
    (hc : e.c ≠ 0) (hd : e.stop = .done) (hok : e.tok.strict = false ∨ e.tok.allowTrailing = true)
    (hu : e.tok.validateUtf8 = false) :
    (epilogue e).err = .success ∧ (epilogue e).value = some top.current ∧ (epilogue e).offset = e.offset := by
  have hfe : finalErr e = .success := by
    unfold finalErr loopErr
    rcases hok with h | h <;> simp [topState, hst, hfin, hc, h, hu, hd]
  unfold epilogue
  simp [hfe, topCurrent, hst]

/-! ### documents with extensions (Spec/Rfc8259X.lean)

`XText` = an RFC 8259 text in which comments (in every gap), trailing commas, single-quoted strings
and member names, raw control characters inside strings and member names, and literals with
upper-case letters may occur, any number of times, at every
position where they are syntactically possible; `erase` is the original RFC 8259 text. -/

open Rfc8259X in
/-- **default mode accepts every such text**: any depth limit, any document, any combination of the
extensions (comments, trailing commas, single quotes, control characters, literal case, leading zeros,
digit-less exponents) at any positions; the value returned is `XDoc.denote` - see the next two
theorems for how it relates to the value of the original document. -/
theorem default_accepts_extensions (lc : Libc) (hl : LibcSpec lc) (hx : LibcSpecX lc) (depth : Int) (t : Tok)
    (hnew : Tokener.new depth 0 = some t)
    (x : XText) (hok : x.ok = true) (hknf : x.doc.erase.keysNulFree = true) (hdepth : x.doc.erase.nest + 1 ≤ depth.toNat) :
    let f := parseEx lc t (x.text ++ [0])
    f.err = .success ∧ f.value = some x.doc.denote ∧ f.offset = x.text.length ∧ f.stuck = false ∧ f.fault = none := by
  obtain ⟨hv, hhs, hst, hmd, hstrict⟩ := noVal_of_flags depth 0 t hnew (Or.inl rfl)
  have hns : t.strict = false := by
    cases h : t.strict with
    | false => rfl
    | true => have := hstrict.mp h; cases this
  exact xtop_level lc hl hx t (new_wf depth 0 t hnew) hst hv hhs hns x hok hknf (by rw [hmd]; omega)

open Rfc8259X in
/-- **the value is the value of the original document** for every combination of comments, trailing
commas, single quotes, control characters and literal case (no number extension) -/
theorem default_value_is_original (x : XDoc) (hp : x.numsPlain = true) : x.denote = x.erase.denote :=
  denote_eq_erase x hp

open Rfc8259X in
/-- **…and with leading zeros / digit-less exponents it is the same value up to the source text a
double retains** (`[01.5, 007]` is `[1.5, 7]`, the double keeping "01.5" for re-serialization), as long
as no digit-less exponent turns an integer into a double -/
theorem default_value_same_numbers (x : XDoc) (hk : x.kindsKept = true) : dropText x.denote = dropText x.erase.denote :=
  denote_same_numbers x hk

open Rfc8259X in
/-- the value returned for the text with extensions is the value returned for the original text
(when that one is well-formed RFC 8259: `parse_valid`) -/
theorem default_same_value_as_original (lc : Libc) (hl : LibcSpec lc) (hx : LibcSpecX lc) (depth : Int) (t : Tok)
    (hnew : Tokener.new depth 0 = some t)
    (x : XText) (hok : x.ok = true) (hok' : x.erase.doc.ok = true) (hknf : x.doc.erase.keysNulFree = true)
    (hdepth : x.doc.erase.nest + 1 ≤ depth.toNat) (hnp : x.doc.numsPlain = true) :
    (parseEx lc t (x.text ++ [0])).value = (parseEx lc t (x.erase.text ++ [0])).value ∧
    (parseEx lc t (x.text ++ [0])).err = (parseEx lc t (x.erase.text ++ [0])).err := by
  have h1 := default_accepts_extensions lc hl hx depth t hnew x hok hknf hdepth
  have h2 := Props.C01.parse_valid lc hl depth 0 (Or.inl rfl) t hnew x.erase hok' hknf (fun h => by cases h) hdepth
  refine ⟨?_, h1.1.trans h2.1.symm⟩
  rw [h1.2.1, h2.2.1, denote_eq_erase x.doc hnp]; rfl

open Rfc8259X in
/-- …and with number extensions that keep every number's kind, the two values are the same up to the
source text doubles retain -/
theorem default_same_numbers_as_original (lc : Libc) (hl : LibcSpec lc) (hx : LibcSpecX lc) (depth : Int) (t : Tok)
    (hnew : Tokener.new depth 0 = some t)
    (x : XText) (hok : x.ok = true) (hok' : x.erase.doc.ok = true) (hknf : x.doc.erase.keysNulFree = true)
    (hdepth : x.doc.erase.nest + 1 ≤ depth.toNat) (hk : x.doc.kindsKept = true) :
    ∃ v w, (parseEx lc t (x.text ++ [0])).value = some v ∧ (parseEx lc t (x.erase.text ++ [0])).value = some w ∧
      dropText v = dropText w := by
  have h1 := default_accepts_extensions lc hl hx depth t hnew x hok hknf hdepth
  have h2 := Props.C01.parse_valid lc hl depth 0 (Or.inl rfl) t hnew x.erase hok' hknf (fun h => by cases h) hdepth
  exact ⟨_, _, h1.2.1, h2.2.1, denote_same_numbers x.doc hk⟩

open Rfc8259X in
/-- **strict mode rejects every such text that contains at least one extension**, whatever else
it contains and wherever the extension stands: the call ends with an error status (never success,
never "continue"), returns no value, and no step of the run is undefined.  (Integers of the
original document within 64 bits and nesting within the limit: otherwise strict mode fails for
those reasons.) -/
theorem strict_rejects_extensions (lc : Libc) (hl : LibcSpec lc) (hx : LibcSpecX lc) (depth : Int) (t : Tok)
    (hnew : Tokener.new depth 1 = some t)
    (x : XText) (hok : x.ok = true) (hfit : x.doc.erase.intsFit = true) (hknf : x.doc.erase.keysNulFree = true)
    (hdepth : x.doc.erase.nest + 1 ≤ depth.toNat) (hext : x.plain = false) :
    let f := parseEx lc t (x.text ++ [0])
    f.err ≠ .success ∧ f.err ≠ .continue_ ∧ f.value = none ∧ f.stuck = false ∧ f.fault = none := by
  obtain ⟨hv, hhs, hst, hmd, hstrict⟩ := noVal_of_flags depth 1 t hnew (Or.inr rfl)
  have hland : (1 &&& Generated.tokenerAllowTrailing) = 0 := by decide
  have hat : t.allowTrailing = false := by rw [new_eq_fresh hnew]; simp [Tok.allowTrailing, freshTok, hland]
  exact xtop_level_strict lc hl hx t (new_wf depth 1 t hnew) hst hv hhs (hstrict.mpr rfl) hat x hok hfit hknf
    (by rw [hmd]; omega) hext

/-- **trailing non-whitespace after the value, on whole documents**: any RFC 8259 text followed by a
byte that is neither white space, NUL nor '/' (separated from the value by white space, or one of
`,` `]` `}`), and then anything: STRICT alone fails with "unexpected character"; default mode and
STRICT|ALLOW_TRAILING_CHARS (flag words 0, 2, 3) succeed with the document's value and report the
end of the text as the end position. -/
theorem trailing_bytes (lc : Libc) (hl : LibcSpec lc) (depth : Int) (f : Nat) (hf : f = 0 ∨ f = 1 ∨ f = 2 ∨ f = 3) (t : Tok)
    (hnew : Tokener.new depth f = some t) (x : Rfc8259.Text) (hok : x.doc.ok = true) (hknf : x.doc.keysNulFree = true)
    (hfit : (f = 1 ∨ f = 3) → x.doc.intsFit = true) (hdepth : x.doc.nest + 1 ≤ depth.toNat)
    (g : UInt8) (hg0 : g ≠ 0) (hgw : isWs g = false) (hg47 : g ≠ 47) (hsep : x.trail ≠ [] ∨ Follow g) (more : Bytes) :
    let r := parseEx lc t (x.text ++ g :: more)
    (f = 1 → r.err = .unexpected ∧ r.value = none) ∧
    (f ≠ 1 → r.err = .success ∧ r.value = some x.doc.denote ∧ r.offset = x.text.length) ∧
    r.stuck = false ∧ r.fault = none :=
  trailing_bytes_top lc hl depth f hf t hnew x hok hknf hfit hdepth g hg0 hgw hg47 hsep more

open Rfc8259X in
/-- a text without extensions is the RFC 8259 text it stands for (those are C01's) -/
theorem plain_is_rfc8259 (x : XText) (hok : x.ok = true) (hp : x.plain = true) : x.text = x.erase.text := by
  simp only [XText.ok, XText.plain, Bool.and_eq_true] at hok hp
  simp only [XText.text, XText.erase, Rfc8259.Text.text]
  rw [gap_plain_text x.lead hp.1.1, gap_plain_text x.trail hp.2, xdoc_plain_text x.doc hok.1.2 hp.1.2]

open Rfc8259X in
/-- non-vacuity: `[1, /*c*/ 'a', TRUE,]` is such a text, it is not plain, and its original is `[1, "a", true]` -/
def sampleX : XText :=
  ⟨[], .arr [] [([], .num (.ofNum ⟨false, [1], none, none⟩), []),
               ([.ws .sp, .block [99], .ws .sp], .str .sq [.raw 97], []),
               ([.ws .sp], .lit .true_ [true, true, true, true], [])] (some []), []⟩

open Rfc8259X in
/-- a string and a member name with raw control characters: `{"a\x01":"\x1f"}` -/
def sampleCtl : XText := ⟨[], .obj [] [([], .dq, [.raw 97, .raw 1], [], [], .str .dq [.raw 31], [])] none, []⟩

open Rfc8259X in
example : sampleCtl.ok = true ∧ sampleCtl.plain = false ∧ sampleCtl.text = [123, 34, 97, 1, 34, 58, 34, 31, 34, 125] := by
  refine ⟨?_, ?_, ?_⟩ <;> decide

open Rfc8259X in
example : sampleX.ok = true ∧ sampleX.plain = false ∧ sampleX.doc.erase.keysNulFree = true ∧ sampleX.doc.erase.intsFit = true ∧
    sampleX.doc.erase.nest = 1 ∧
    sampleX.text = [91, 49, 44, 32, 47, 42, 99, 42, 47, 32, 39, 97, 39, 44, 32, 84, 82, 85, 69, 44, 93] := by
  refine ⟨?_, ?_, ?_, ?_, ?_, ?_⟩ <;> decide

open Rfc8259X in
/-- numbers with number extensions: `[007,-01.5e1,2.5E-,1e+]` -/
def sampleNums : XText :=
  ⟨[], .arr [] [([], .num ⟨⟨false, [7], none, none⟩, 2, none⟩, []),
               ([], .num ⟨⟨true, [1], some [5], some (false, none, [1])⟩, 1, none⟩, []),
               ([], .num ⟨⟨false, [2], some [5], none⟩, 0, some (true, some true)⟩, []),
               ([], .num ⟨⟨false, [1], none, none⟩, 0, some (false, some false)⟩, [])] none, []⟩

open Rfc8259X in
example : sampleNums.ok = true ∧ sampleNums.plain = false ∧ sampleNums.doc.kindsKept = false ∧
    sampleNums.text = [91, 48, 48, 55, 44, 45, 48, 49, 46, 53, 101, 49, 44, 50, 46, 53, 69, 45, 44, 49, 101, 43, 93] ∧
    sampleNums.erase.text = [91, 55, 44, 45, 49, 46, 53, 101, 49, 44, 50, 46, 53, 44, 49, 93] := by
  refine ⟨?_, ?_, ?_, ?_, ?_⟩ <;> decide

open Rfc8259X in
/-- the hypotheses about libc are satisfiable: the reference conversions meet both, so the two
document theorems hold outright for the reference libc -/
theorem extensions_reference (depth : Int) (x : XText) (hok : x.ok = true) (hknf : x.doc.erase.keysNulFree = true)
    (hdepth : x.doc.erase.nest + 1 ≤ depth.toNat) :
    (∀ t, Tokener.new depth 0 = some t → (parseEx refLibc t (x.text ++ [0])).err = .success ∧
      (parseEx refLibc t (x.text ++ [0])).value = some x.doc.denote) ∧
    (∀ t, Tokener.new depth 1 = some t → x.doc.erase.intsFit = true → x.plain = false →
      (parseEx refLibc t (x.text ++ [0])).err ≠ .success ∧ (parseEx refLibc t (x.text ++ [0])).value = none) := by
  refine ⟨fun t hnew => ?_, fun t hnew hfit hnp => ?_⟩
  · have := default_accepts_extensions refLibc refLibc_ok refLibc_x depth t hnew x hok hknf hdepth
    exact ⟨this.1, this.2.1⟩
  · have := strict_rejects_extensions refLibc refLibc_ok refLibc_x depth t hnew x hok hfit hknf hdepth hnp
    exact ⟨this.1, this.2.2.1⟩

/-- non-vacuity: the model rejects `[1e]` and `[2.5E-]` in strict mode and accepts them in default mode -/
example : ∃ s d, Tokener.new 32 1 = some s ∧ Tokener.new 32 0 = some d ∧
    (parseExZ refLibc s [91, 49, 101, 93]).err = .number ∧ (parseExZ refLibc d [91, 49, 101, 93]).err = .success ∧
    (parseExZ refLibc s [91, 50, 46, 53, 69, 45, 93]).err = .number ∧ (parseExZ refLibc d [91, 50, 46, 53, 69, 45, 93]).err = .success := by
  refine ⟨_, _, rfl, rfl, ?_, ?_, ?_, ?_⟩ <;> decide

/-- non-vacuity: the model rejects `[1,]`, `{'a':1}`, `01`, `1 x`, `[1 /*c*/]` in strict mode and accepts them in default mode -/
example : ∃ s d, Tokener.new 32 1 = some s ∧ Tokener.new 32 0 = some d ∧
    (parseExZ refLibc s [91, 49, 44, 93]).err = .unexpected ∧ (parseExZ refLibc d [91, 49, 44, 93]).err = .success ∧
    (parseExZ refLibc s [123, 39, 97, 39, 58, 49, 125]).err = .keyName ∧
    (parseExZ refLibc d [123, 39, 97, 39, 58, 49, 125]).err = .success ∧
    (parseExZ refLibc s [91, 48, 49, 93]).err = .number ∧ (parseExZ refLibc d [91, 48, 49, 93]).err = .success ∧
    (parseExZ refLibc s [49, 32, 120]).err = .unexpected ∧ (parseExZ refLibc d [49, 32, 120]).err = .success ∧
    (parseExZ refLibc s [91, 49, 32, 47, 42, 99, 42, 47, 93]).err = .array ∧
    (parseExZ refLibc d [91, 49, 32, 47, 42, 99, 42, 47, 93]).err = .success := by
  refine ⟨_, _, rfl, rfl, ?_, ?_, ?_, ?_, ?_, ?_, ?_, ?_, ?_, ?_⟩ <;> decide


/-- every source fact this property's model consumes was located in the current source by tools/extract (a fact that is not
found is emitted with a placeholder value; this obligation then fails and the check uses the reference model) -/
theorem source_facts_located_c16 : JsonC.Generated.factsFound_tok = true := by decide

end JsonC.Tokener
