/-
  C14  Parse/serialize are locale-independent and leave the caller's locale untouched (partial).

  Property theorems only.  Model: JsonC/Model/Locale.lean; vocabulary: JsonC/Spec/Locale.lean;
  helper lemmas: JsonC/Lemmas/Locale.lean.

  What is proved here is about the *code's own* handling of the locale: on every return path of
  json_tokener_parse_ex the calling thread's locale handle and the set of live locale objects are
  what they were (`locale_restored`), the body runs under LC_NUMERIC = "C" (same theorem), and the
  serializer's `,` → `.` fix-up turns the comma-locale text into the C-locale text
  (`comma_fixup`).  What glibc's strtod/snprintf/newlocale actually do under a locale cannot be
  proved: it enters as the hypothesis `SepOnly` (and as the harness run, tools/props/c14.py).

  The theorems rest on facts read off the *current* source (Generated/Structure.lean, section
  st_locale.py): each is restated below by `rfl`/`decide`, so a source change that alters one makes
  this file stop compiling at the named fact.
-/
import JsonC.Lemmas.Locale

namespace JsonC.Locale
open JsonC Generated

/-! ## Structural facts of the current source -/

/-- No `return` between `uselocale(newloc)` and the `out:` label of json_tokener_parse_ex: every
path that has switched the locale reaches the common exit. -/
theorem no_early_return : earlyReturnsAfterSwitch = 0 := rfl

/-- Nothing jumps to `out:` (which frees `newloc`) before `newloc` has been set. -/
theorem no_goto_out_before_switch : gotoOutBeforeSwitch = 0 := rfl

/-- The parsing loop between the switch and `out:` makes no locale call of its own. -/
theorem body_makes_no_locale_call : localeCallsInBody = 0 := rfl

/-- The prologue of the source is the one the model transcribes (calls, their arguments by role,
the three conditional returns, the unconditional switch). -/
theorem prologue_shape : prologueLocaleEvents = prologueAsModelled := by decide

/-- After `out:` the source restores first and frees second, unconditionally. -/
theorem epilogue_shape : epilogueLocaleCalls = ["uselocale(oldlocale)", "freelocale(newloc)"] := by decide

/-- The `goto out` exit class exists (so `Exit.gotoOut` is not vacuous). -/
theorem goto_out_exists : 0 < gotoOutAfterSwitch := by decide

/-- all of the above, in the form `parseEx` checks -/
theorem source_skeleton : skeletonOk = true := by decide

/-- json_object_double_to_json_string_format: the `strchr(buf, ',')` fix-up is there, the function
makes no locale call (it neither switches nor caches anything locale dependent), `char buf[128]`. -/
theorem serializer_shape : serFixupCommaToPoint = true ∧ serLocaleCalls = 0 ∧ serBufSize = 128 :=
  ⟨rfl, rfl, rfl⟩

/-! ## The parser leaves the locale as it found it -/

/-- what a caller can observe of the locale state -/
def obs (s : LState) : Obs Handle (Nat × Numeric) Numeric := ⟨s.cur, s.live, s.globalNum⟩

/-- **locale_restored.**  For every well-formed locale state (the thread uses the global locale or a
live object, of any numeric conventions; any set of live objects), every size-check result, every
result of duplocale (success, ENOMEM) and newlocale (success, failure), every way the body can be
left in the current source (`exit.feasible`: loop end, `goto out`; a `return` only if the source had
one) and every `tok->err`: the call does not fault (no use of a dead locale object, no double free,
no free of the installed locale), the thread's locale handle, the live locale objects and the
global numeric conventions afterwards are exactly those before, the call did not return from inside
the switched region, and if the body ran it ran under LC_NUMERIC = "C".
`hposix` excludes only duplocale failing with an errno other than ENOMEM *and* newlocale failing
too (see `dup_failure_other_errno_then_newlocale_failure` below). -/
theorem locale_restored (s : LState) (hwf : WF s) (sizeOk : Bool) (inj : Inj) (exit : Exit) (err : Nat)
    (hexit : exit.feasible) (hposix : ¬ (inj.dup = .failOther ∧ inj.newOk = false)) :
    ∃ r, parseEx s sizeOk inj exit err = .ok r ∧ SameLocale (obs s) (obs r.ctx.st) ∧
      r.via ≠ .earlyReturn ∧ (r.bodyNumeric = none ∨ r.bodyNumeric = some .C) := by
  show ∃ r, parseEx s sizeOk inj exit err = .ok r ∧ (r.ctx.st.cur = s.cur ∧ r.ctx.st.live = s.live ∧
      r.ctx.st.globalNum = s.globalNum) ∧ r.via ≠ .earlyReturn ∧ (r.bodyNumeric = none ∨ r.bodyNumeric = some .C)
  obtain ⟨cur, live, next, g⟩ := s
  have hb := hwf.bound
  have hc := hwf.curLive
  dsimp only at hb hc
  have hv : Valid ⟨cur, live, next, g⟩ cur := by
    cases cur with
    | global => trivial
    | obj i => exact hc i rfl
  obtain ⟨dup, newOk⟩ := inj
  unfold parseEx
  rw [source_skeleton]
  dsimp only
  simp only [Bool.not_true, Bool.false_eq_true, if_false]
  rw [uselocale_query, Outcome.bind_ok]
  dsimp only
  cases sizeOk with
  | false => exact ⟨_, rfl, ⟨rfl, rfl, rfl⟩, by simp, Or.inl rfl⟩
  | true =>
    cases dup with
    | enomem =>
      simp only [Bool.not_true, Bool.false_eq_true, if_false]
      rw [show (DupRes.enomem == DupRes.ok) = false from rfl, duplocale_fail _ _ hv, Outcome.bind_ok]
      exact ⟨_, rfl, ⟨rfl, rfl, rfl⟩, by simp, Or.inl rfl⟩
    | ok =>
      simp only [Bool.not_true, Bool.false_eq_true, if_false]
      rw [show (DupRes.ok == DupRes.ok) = true from rfl, duplocale_ok _ _ hv, Outcome.bind_ok]
      dsimp only
      rw [if_neg (by simp)]
      cases newOk with
      | false =>
        rw [newlocale_base_fail _ _ (isLive_snoc_self _ _ _ _ _ _), Outcome.bind_ok]
        dsimp only
        rw [freelocale_ok _ next (isLive_snoc_self _ _ _ _ _ _)]
        · rw [Outcome.bind_ok]
          dsimp only
          rw [removeObj_append_self live next next _ hb (Nat.le_refl _)]
          exact ⟨_, rfl, ⟨rfl, rfl, rfl⟩, by simp, Or.inl rfl⟩
        · intro he
          dsimp only at he
          subst he
          have := any_lt live next next hb (hc next rfl)
          omega
      | true =>
        rw [newlocale_base_ok _ _ (isLive_snoc_self _ _ _ _ _ _), Outcome.bind_ok]
        dsimp only
        rw [removeObj_append_self live next next _ hb (Nat.le_refl _)]
        generalize ([] ++ [Ev.uselocale none cur] ++ [Ev.duplocale cur (some (Handle.obj next))] ++
          [Ev.newlocale (some (Handle.obj next)) (some (Handle.obj (next + 1)))]) = t0
        obtain ⟨h1, h2, h3⟩ := switch_and_restore cur live next g hwf t0 (next + 1) (Nat.le_succ _) (next + 1 + 1)
        rw [h1, Outcome.bind_ok]
        dsimp only
        cases exit with
        | earlyReturn => exact absurd hexit (by simp [Exit.feasible, no_early_return])
        | loopEnd | gotoOut =>
          dsimp only
          rw [h3, Outcome.bind_ok]
          exact ⟨_, rfl, ⟨rfl, rfl, rfl⟩, by simp, Or.inr (by rw [h2])⟩
    | failOther =>
      simp only [Bool.not_true, Bool.false_eq_true, if_false]
      rw [show (DupRes.failOther == DupRes.ok) = false from rfl, duplocale_fail _ _ hv, Outcome.bind_ok]
      dsimp only
      rw [if_neg (by simp)]
      cases newOk with
      | false => exact absurd ⟨rfl, rfl⟩ hposix
      | true =>
        rw [newlocale_null_ok, Outcome.bind_ok]
        dsimp only
        generalize ([] ++ [Ev.uselocale none cur] ++ [Ev.duplocale cur none] ++
          [Ev.newlocale none (some (Handle.obj next))]) = t0
        obtain ⟨h1, h2, h3⟩ := switch_and_restore cur live next g hwf t0 next (Nat.le_refl _) (next + 1)
        rw [h1, Outcome.bind_ok]
        dsimp only
        cases exit with
        | earlyReturn => exact absurd hexit (by simp [Exit.feasible, no_early_return])
        | loopEnd | gotoOut =>
          dsimp only
          rw [h3, Outcome.bind_ok]
          exact ⟨_, rfl, ⟨rfl, rfl, rfl⟩, by simp, Or.inr (by rw [h2])⟩

/-- duplocale failing with an errno other than ENOMEM (POSIX allows only ENOMEM for a valid handle)
is not treated as a failure by the source; if newlocale then fails as well, `freelocale(duploc)` is
called with a null handle.  The model faults there; `locale_restored` excludes exactly this case. -/
theorem dup_failure_other_errno_then_newlocale_failure (s : LState) (hwf : WF s) (exit : Exit) (err : Nat) :
    parseEx s true ⟨.failOther, false⟩ exit err = .fault "freelocale: null handle" := by
  have hv : Valid s s.cur := by
    cases h : s.cur with
    | global => trivial
    | obj i => exact hwf.curLive i h
  unfold parseEx
  rw [source_skeleton]
  dsimp only
  simp only [Bool.not_true, Bool.false_eq_true, if_false]
  rw [uselocale_query, Outcome.bind_ok]
  dsimp only
  rw [show (DupRes.failOther == DupRes.ok) = false from rfl, duplocale_fail _ _ hv, Outcome.bind_ok]
  dsimp only
  rw [if_neg (by simp)]
  rfl

/-- what a finished call shows: (thread handle, live objects, libc calls made, numeric conventions during the body) -/
def shown : Outcome PRes → Option (Handle × List (Nat × Numeric) × List Ev × Option Numeric)
  | .ok r => some (r.ctx.st.cur, r.ctx.st.live, r.ctx.trace, r.bodyNumeric)
  | .fault _ => none

/-- Why `no_early_return` matters: were there a `return` inside the switched region, the model's call
would come back with the thread still on the temporary locale and that locale still live. -/
theorem early_return_would_leak :
    shown (parseEx ⟨.global, [], 0, .comma⟩ true ⟨.ok, true⟩ .earlyReturn 7) =
      some (.obj 1, [(1, .C)],
        [.uselocale none .global, .duplocale .global (some (.obj 0)),
         .newlocale (some (.obj 0)) (some (.obj 1)), .uselocale (some (.obj 1)) .global], some .C) := by
  decide

/-- non-vacuity: a thread running under its own comma-decimal locale object (id 0) beside another live
object, global locale comma as well; a parse that ends in `goto out` with error "number".  The
hypotheses of `locale_restored` hold and the model computes the six libc calls. -/
example : WF ⟨.obj 0, [(0, .comma), (1, .C)], 2, .comma⟩ ∧ Exit.gotoOut.feasible ∧
    shown (parseEx ⟨.obj 0, [(0, .comma), (1, .C)], 2, .comma⟩ true ⟨.ok, true⟩ .gotoOut errParseNumber) =
      some (.obj 0, [(0, .comma), (1, .C)],
        [.uselocale none (.obj 0), .duplocale (.obj 0) (some (.obj 2)),
         .newlocale (some (.obj 2)) (some (.obj 3)), .uselocale (some (.obj 3)) (.obj 0),
         .uselocale (some (.obj 0)) (.obj 3), .freelocale (some (.obj 3))], some .C) := by
  refine ⟨⟨?_, ?_⟩, by decide, by decide⟩
  · intro i h; cases h; decide
  · decide

/-! ## The serializer's separator fix-up -/

/-- **comma_fixup.**  If the comma locale's snprintf output `k` differs from the C locale's `c` only
in the decimal separator (`SepOnly`, the hypothesis about libc), then everything
json_object_double_to_json_string_format does after snprintf – separator fix-up, `.0` completion,
NOZERO trimming, truncation to the 128-byte buffer – yields the same bytes for both, whatever the
flags (`nozero`), whatever the format class (`drops`), whatever the length of the output. -/
theorem comma_fixup (nozero drops : Bool) (c k : Bytes) (h : SepOnly c k) :
    post nozero drops k = post nozero drops c := by
  unfold post
  simp only [sepOnly_length c k h, fixSep_sepOnly _ _ (sepOnly_take c k (serBufSize - 1) h)]

/-- The same for all doubles and both NOZERO settings, with the two libc formatters as parameters:
`fmtC d` / `fmtComma d` = what snprintf(buf, 128, "%.17g", d) produces under the C / the comma locale. -/
theorem comma_fixup_all_doubles (fmtC fmtComma : UInt64 → Bytes)
    (hComma : ∀ d, SepOnly (fmtC d) (fmtComma d)) :
    ∀ (d : UInt64) (nozero : Bool), post nozero true (fmtComma d) = post nozero true (fmtC d) :=
  fun d nozero => comma_fixup nozero true _ _ (hComma d)

/-- …and the result is the C-locale text with the separator in place: under the comma locale the
bytes appended for 1.5 (`1,5`) are `1.5`, for 2 (`2`) are `2.0`, with NOZERO `1,2500` gives `1.25` and
`-1,50e+300` gives `-1.5e+300`; the last pair meets `SepOnly`. -/
example : post false true [49, 44, 53] = .ok [49, 46, 53] ∧
    post false true [50] = .ok [50, 46, 48] ∧
    post true true [49, 44, 50, 53, 48, 48] = .ok [49, 46, 50, 53] ∧
    post true true [45, 49, 44, 53, 48, 101, 43, 51, 48, 48] = .ok [45, 49, 46, 53, 101, 43, 51, 48, 48] ∧
    SepOnly [45, 49, 46, 53, 48, 101, 43, 51, 48, 48] [45, 49, 44, 53, 48, 101, 43, 51, 48, 48] := by
  refine ⟨by decide, by decide, by decide, by decide, ?_⟩
  exact ⟨by decide, Or.inr ⟨[45, 49], [53, 48, 101, 43, 51, 48, 48], by decide, by decide, by decide⟩⟩

/-- The post-processing never leaves `char buf[128]` and never hands printbuf_memappend more bytes
than the string has, for every snprintf output (any length, any bytes) and every flag. -/
theorem post_in_bounds (nozero drops : Bool) (out : Bytes) : ∃ r, post nozero drops out = .ok r := by
  have hcap : serBufSize = 128 := rfl
  unfold post
  dsimp only
  have h1 := fixSep_length (out.take (serBufSize - 1))
  generalize fixSep (out.take (serBufSize - 1)) = fs at h1
  obtain ⟨b1, p⟩ := fs
  dsimp only at h1 ⊢
  rw [List.length_take, hcap] at h1
  -- after the ".0" completion: the text and `size` agree unless the output was truncated
  have h2 : ∃ b2 s2, addPointZero drops b1 p out.length = (b2, s2) ∧ b2.length ≤ 127 ∧
      (s2 = b2.length ∨ (128 ≤ s2 ∧ b2.length = 127)) := by
    unfold addPointZero
    rw [hcap]
    split
    · rename_i h
      simp only [Bool.and_eq_true, decide_eq_true_eq] at h
      refine ⟨_, _, rfl, ?_, Or.inl ?_⟩ <;> simp <;> omega
    · refine ⟨_, _, rfl, by omega, ?_⟩
      by_cases hl : out.length ≤ 127
      · left; omega
      · right; omega
  obtain ⟨b2, s2, e2, hb2, hs2⟩ := h2
  rw [e2]
  dsimp only
  have h3 : ∃ b3 s3, nozeroStep nozero b2 p s2 = (b3, s3) ∧ b3.length ≤ 127 ∧
      (s3 = b3.length ∨ (128 ≤ s3 ∧ b3.length = 127)) := by
    unfold nozeroStep
    split
    · split
      · have := trimZeros_length b2 ‹Nat›
        exact ⟨_, _, rfl, by omega, Or.inl rfl⟩
      · exact ⟨_, _, rfl, hb2, hs2⟩
    · exact ⟨_, _, rfl, hb2, hs2⟩
  obtain ⟨b3, s3, e3, hb3, hs3⟩ := h3
  rw [e3]
  dsimp only
  unfold finish
  rw [hcap, if_neg (by omega)]
  dsimp only
  split
  · rw [if_neg (by omega)]; exact ⟨_, rfl⟩
  · rw [if_neg (by omega)]; exact ⟨_, rfl⟩


/-- every source fact this property's model consumes was located in the current source by tools/extract (a fact that is not
found is emitted with a placeholder value; this obligation then fails and the check uses the reference model) -/
theorem source_facts_located_c14 : JsonC.Generated.factsFound_locale = true := by decide

end JsonC.Locale
