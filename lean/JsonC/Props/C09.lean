/-
  C09  Equality is a structural equivalence and deep copy gives an equal, disjoint tree.

  Property theorems only.  Model: JsonC/Model/Equal.lean (json_object_equal with the pointer test as
  an explicit same-node oracle, json_object_deep_copy with the default shallow copy).
  Spec: JsonC/Spec/Sem.lean (`sem`, `SemEq`).  `JVal.WF` = a tree the public API can build
  (`wf_iff_built`).  `equal a b` is json_object_equal on two trees without a common node,
  `equalP same a b` the general case, `equalSelf a` = json_object_equal(a, a).
-/
import JsonC.Lemmas.Equal

namespace JsonC.Equal
open JsonC JVal Sem Generated

/-! ## the tie to the source text (regenerated on every run into Generated/Structure.lean) -/

/-- the statements of json_object.c that the model transcribes are the ones found in the current
source (each fact is described in tools/extract/st_eq.py) -/
theorem source_shape :
    eqPtrShortcutFirst = true ∧ eqNullThenTypeCheck = true ∧ eqBoolCase = true ∧ eqDoubleCase = true ∧
    eqIntFourCases = true ∧ eqStringLenMemcmp = true ∧ strLenIsAbs = true ∧ eqDispatch = true ∧
    eqArrayLenThenElems = true ∧ eqObjTwoWalks = true ∧
    copyArgCheck = true ∧ copyShallowFirst = true ∧ copyObjLoopAdds = true ∧ copyArrLoopAppends = true ∧
    copySerializerDataLast = true ∧ shallowLeafKinds = true ∧ shallowIntKeepsType = true ∧
    shallowStringByLen = true ∧ shallowCopiesSerializerFn = true ∧ serDataStrdup = true := by
  decide

/-! ## well-formedness is exactly "built through the API" -/

/-- `JVal.WF` (integers in range, C-string keys and number texts, every key once per object) holds of
exactly the trees that json_object_new_* / json_object_array_add / json_object_object_add build. -/
theorem wf_iff_built (v : JVal) : WF v ↔ Built v := ⟨wf_built v, built_wf⟩

/-! ## equality = equality of denoted values -/

/-- the driver's executable oracle decides the specification relation -/
theorem semEqB_iff (a b : JVal) : semEqB a b = true ↔ SemEq a b := by
  unfold semEqB SemEq
  rw [Bool.and_eq_true, Sem.beq_iff]

/-- **json_object_equal on two trees without a common node** (e.g. built or parsed separately)
holds exactly when they denote the same value and contain no NaN. -/
theorem equal_iff_sem (a b : JVal) (ha : WF a) (hb : WF b) : equal a b = true ↔ SemEq a b := by
  constructor
  · intro h
    exact ⟨equalP_sound a b Same.none (sound_none a b) ha hb h, equal_nanFree a b h⟩
  · intro h
    exact equalP_complete a b Same.none ha hb h.1 h.2

/-- the identical node equals itself, NaN or not (`jso1 == jso2` is tested first) -/
theorem equal_same_node (same : Same) (a : JVal) (h : same [] [] = true) : equalP same a a = true := by
  cases a <;> simp [equalP, ptrEq, h]

theorem equalSelf_true (a : JVal) : equalSelf a = true := equal_same_node _ a rfl

/-- json_object_equal(jso1, jso2) where the two arguments are either one node (`sameNode`) or trees
without a common node: equal ↔ same node ∨ equal values (NaN-respecting). -/
def equalTop (sameNode : Bool) (a b : JVal) : Bool :=
  equalP (if sameNode then Same.diag else Same.none) a b

theorem equalTop_iff_sem (sameNode : Bool) (a b : JVal) (hnode : sameNode = true → a = b)
    (ha : WF a) (hb : WF b) : equalTop sameNode a b = true ↔ sameNode = true ∨ SemEq a b := by
  unfold equalTop
  cases sameNode with
  | true =>
    have := hnode rfl
    subst this
    simp only [if_true, true_or, iff_true]
    exact equalSelf_true a
  | false =>
    simp only [Bool.false_eq_true, if_false, false_or]
    exact equal_iff_sem a b ha hb

/-- arbitrary sharing between the two arguments (any oracle): equal values are found equal … -/
theorem equalP_of_semEq (same : Same) (a b : JVal) (ha : WF a) (hb : WF b) (h : SemEq a b) :
    equalP same a b = true :=
  equalP_complete a b same ha hb h.1 h.2

/-- … and whatever is found equal denotes the same value (a NaN read as "some NaN"), provided the
oracle describes a heap: one node, one value. -/
theorem equalP_sem (same : Same) (a b : JVal) (hs : same.Sound a b) (ha : WF a) (hb : WF b)
    (h : equalP same a b = true) : sem a = sem b :=
  equalP_sound a b same hs ha hb h

/-- so on NaN-free trees the pointer tests are invisible, whatever nodes the arguments share -/
theorem equalP_iff_sem_of_nanFree (same : Same) (a b : JVal) (hs : same.Sound a b) (ha : WF a)
    (hb : WF b) (hn : nanFree a = true) : equalP same a b = true ↔ sem a = sem b :=
  ⟨equalP_sem same a b hs ha hb, fun h => equalP_of_semEq same a b ha hb ⟨h, hn⟩⟩

/-- reflexivity, stated precisely: a tree equals a separately built twin iff it has no NaN;
it always equals itself (`equalSelf_true`). -/
theorem equal_refl (a : JVal) (ha : WF a) : equal a a = true ↔ nanFree a = true := by
  rw [equal_iff_sem a a ha ha]
  exact ⟨fun h => h.2, fun h => ⟨rfl, h⟩⟩

/-- the NaN caveat is real: a NaN does not equal a distinct node holding the same pattern -/
theorem nan_twin_not_equal :
    equal (.dbl 0x7ff8000000000000 none) (.dbl 0x7ff8000000000000 none) = false ∧
    equalSelf (.dbl 0x7ff8000000000000 none) = true := by
  decide

/-- symmetry: json_object_equal(a, b) = json_object_equal(b, a) -/
theorem equal_symm (a b : JVal) (ha : WF a) (hb : WF b) : equal a b = equal b a := by
  rw [Bool.eq_iff_iff, equal_iff_sem a b ha hb, equal_iff_sem b a hb ha]
  exact ⟨semEq_symm a b, semEq_symm b a⟩

/-- transitivity (no NaN hypothesis needed: `equal a b` already excludes a NaN) -/
theorem equal_trans (a b c : JVal) (ha : WF a) (hb : WF b) (hc : WF c)
    (h1 : equal a b = true) (h2 : equal b c = true) : equal a c = true := by
  rw [equal_iff_sem _ _ ha hb] at h1
  rw [equal_iff_sem _ _ hb hc] at h2
  rw [equal_iff_sem _ _ ha hc]
  exact ⟨h1.1.trans h2.1, h1.2⟩

/-- on NaN-free well-formed trees, `equal` is an equivalence relation (the three laws together) -/
theorem equal_equivalence_nanFree :
    (∀ a, WF a → nanFree a = true → equal a a = true) ∧
    (∀ a b, WF a → WF b → equal a b = true → equal b a = true) ∧
    (∀ a b c, WF a → WF b → WF c → equal a b = true → equal b c = true → equal a c = true) :=
  ⟨fun a ha hn => (equal_refl a ha).2 hn,
   fun a b ha hb h => by rw [← equal_symm a b ha hb]; exact h,
   equal_trans⟩

/-- nodes of different kinds are never equal (an integer never equals a double, NULL only NULL),
whatever nodes the arguments share -/
theorem kinds_never_equal (same : Same) (a b : JVal) (hs : same.Sound a b) (hk : kind a ≠ kind b) :
    equalP same a b = false := by
  cases hp : ptrEq same a b with
  | true => exact absurd (congrArg kind (ptrEq_sound same a b hs hp)) hk
  | false =>
    unfold equalP
    rw [hp, Bool.false_or]
    cases a <;> cases b <;> first | rfl | exact absurd rfl hk

/-- integers compare by numeric value across the two C representations -/
theorem int_equal_by_value (s1 s2 : Bool) (v1 v2 : Int) (h1 : WF (.int s1 v1)) (h2 : WF (.int s2 v2)) :
    equal (.int s1 v1) (.int s2 v2) = true ↔ v1 = v2 := by
  rw [equal_iff_sem _ _ h1 h2]
  simp [SemEq, sem, nanFree]

/-- the 2^63 boundary: INT64_MAX as int64 ≠ 2^63 as uint64, and 2^63 - 1 in both types is equal -/
theorem int_boundary :
    equal (.int true INT64_MAX) (.int false (INT64_MAX + 1)) = false ∧
    equal (.int true INT64_MAX) (.int false INT64_MAX) = true ∧
    equal (.int false INT64_MAX) (.int true INT64_MAX) = true ∧
    equal (.int true (-1)) (.int false UINT64_MAX) = false := by
  decide

/-- member order is irrelevant: permuting the members of an object changes no comparison result,
on either side -/
theorem equal_ignores_member_order (m1 m2 : List (Bytes × JVal)) (hp : m1.Perm m2) (h : WF (.obj m1))
    (c : JVal) (hc : WF c) :
    equal (.obj m1) c = equal (.obj m2) c ∧ equal c (.obj m1) = equal c (.obj m2) := by
  have h2 := wf_obj_perm m1 m2 hp h
  have hs := sem_obj_perm m1 m2 hp h
  have hn := nanFree_of_sem_eq _ _ hs
  constructor
  · rw [Bool.eq_iff_iff, equal_iff_sem _ _ h hc, equal_iff_sem _ _ h2 hc]
    unfold SemEq; rw [hs, hn]
  · rw [Bool.eq_iff_iff, equal_iff_sem _ _ hc h, equal_iff_sem _ _ hc h2]
    unfold SemEq; rw [hs]

/-- in particular an object equals each of its member permutations (NaN-free) -/
theorem equal_perm (m1 m2 : List (Bytes × JVal)) (hp : m1.Perm m2) (h : WF (.obj m1))
    (hn : nanFree (.obj m1) = true) : equal (.obj m1) (.obj m2) = true := by
  rw [equal_iff_sem _ _ h (wf_obj_perm m1 m2 hp h)]
  exact ⟨sem_obj_perm m1 m2 hp h, hn⟩

/-- a key bound to null is not an absent key -/
theorem null_member_vs_absent :
    equal (.obj [([120], .null)]) (.obj [([121], .null)]) = false ∧
    equal (.obj [([120], .null)]) (.obj []) = false ∧
    equal (.obj []) (.obj [([120], .null)]) = false ∧
    equal (.arr [.int true 1, .null]) (.arr [.int true 1]) = false := by
  decide

/-! ## deep copy -/

/-- json_object_deep_copy(src, &dst, NULL) with `dst == NULL` on a tree the API can build: no fault
(no NULL dereference), returns 0, and `*dst` is node for node the source: same kinds, same integer
representation (int64/uint64), same double pattern and retained text, same bytes, same members in
the same order, null elements and members included. -/
theorem copy_identical (v : JVal) (hv : WF v) (hnn : v ≠ .null) :
    ∃ r, deepCopy v (some .null) = .ok r ∧ r.rc = 0 ∧ r.dst = some v ∧ r.errno = .none := by
  unfold deepCopy
  have : v.isNull = false := by cases v <;> first | rfl | exact absurd rfl hnn
  have h0 : JVal.null.isNull = true := rfl
  simp only [this, h0, Bool.not_true, Bool.or_self, Bool.false_eq_true, if_false]
  rw [copyRec_id v hv hnn]
  exact ⟨_, rfl, rfl, rfl, rfl⟩

/-- hence the typed dump of the copy (which the serializer is a function of) is the source's:
"serializes identically under every flag, retained number text and signedness included" -/
theorem copy_dump_identical (v : JVal) (hv : WF v) (hnn : v ≠ .null) :
    ∃ r c, deepCopy v (some .null) = .ok r ∧ r.dst = some c ∧ c.dump = v.dump := by
  obtain ⟨r, h1, _, h2, _⟩ := copy_identical v hv hnn
  exact ⟨r, v, h1, h2, rfl⟩

/-- the copy equals its source, both ways round, exactly when the source is NaN-free -/
theorem copy_equal (v : JVal) (hv : WF v) (hnn : v ≠ .null) :
    ∃ r c, deepCopy v (some .null) = .ok r ∧ r.dst = some c ∧
      (equal c v = true ↔ nanFree v = true) ∧ (equal v c = true ↔ nanFree v = true) := by
  obtain ⟨r, h1, _, h2, _⟩ := copy_identical v hv hnn
  exact ⟨r, v, h1, h2, equal_refl v hv, equal_refl v hv⟩

/-- argument checks: NULL source, NULL `dst`, or `*dst` already holding an object → -1/EINVAL and
`*dst` is left as it was -/
theorem copy_arg_checks (src : JVal) (dst : Option JVal)
    (h : src = .null ∨ dst = none ∨ ∃ cur, dst = some cur ∧ cur ≠ .null) :
    deepCopy src dst = .ok ⟨-1, dst, .EINVAL⟩ := by
  unfold deepCopy
  cases dst with
  | none => rfl
  | some cur =>
    rcases h with h | h | ⟨c, h, hc⟩
    · subst h; simp [JVal.isNull]
    · cases h
    · cases h
      have : cur.isNull = false := by cases cur <;> first | rfl | exact absurd rfl hc
      simp [this]

/-- Full clause of the property (heap level): "no `struct json_object *`, key, string buffer or userdata
pointer reachable from the copy is reachable from the source".  It needs a heap with addresses
(DESIGN.md 6/C05 `Model/Heap.lean`), which the value model deliberately does not have; it is checked
on every run by the harness (`copy`: pointer-set walk over both trees, `shared=0`, `aux=0`, and the copy
re-read after the source and its key arena are freed, under ASan).
Proved part, value level: the copy's root is a node that json_object_new_* has just created
(`rc ≠ rs`), every node of the copy lies below it, so no node identity (root, position) of the copy
occurs in the source. -/
theorem copy_fresh_partial (v c : JVal) (rs rc : Nat) (h : rs ≠ rc) :
    ∀ id ∈ nodeIds rc c, id ∉ nodeIds rs v := by
  intro id h1 h2
  exact h ((nodeIds_root rs v id h2).symm.trans (nodeIds_root rc c id h1))

/-- source and copy as the two independent values the caller holds after json_object_deep_copy -/
structure Pair where
  src : JVal
  cpy : JVal

/-- a mutation through the API on a node of one side (`onCopy`) at position `p` -/
def Pair.mutate (s : Pair) (onCopy : Bool) (m : Mut) (p : Pos) : Pair :=
  if onCopy then { s with cpy := (mutAt m p s.cpy).getD s.cpy }
  else { s with src := (mutAt m p s.src).getD s.src }

/-- Full clause (heap level): "an API mutation of a node of one tree, or json_object_put of one tree,
changes no byte reachable from the other".  Like `copy_fresh_partial` it needs the heap model; the
harness checks it (`copymut`: mutate one side through the API, dump both, destroy either side, re-read
the other under ASan).
Proved part, as far as a value model expresses it: with source and copy as the two values the caller
holds (`copy_identical`), any sequence of API mutations — refused ones included — on one side leaves the
other side's tree (hence its dump, denotation and every comparison result) unchanged. -/
theorem mutate_independent_partial (v : JVal) (muts : List (Mut × Pos)) :
    (muts.foldl (fun (s : Pair) mp => s.mutate true mp.1 mp.2) (⟨v, v⟩ : Pair)).src = v ∧
    (muts.foldl (fun (s : Pair) mp => s.mutate false mp.1 mp.2) (⟨v, v⟩ : Pair)).cpy = v := by
  constructor
  · suffices h : ∀ s : Pair, (muts.foldl (fun (s : Pair) mp => s.mutate true mp.1 mp.2) s).src = s.src
      from h ⟨v, v⟩
    induction muts with
    | nil => intro s; rfl
    | cons mp muts ih => intro s; simp only [List.foldl_cons]; rw [ih]; simp [Pair.mutate]
  · suffices h : ∀ s : Pair, (muts.foldl (fun (s : Pair) mp => s.mutate false mp.1 mp.2) s).cpy = s.cpy
      from h ⟨v, v⟩
    induction muts with
    | nil => intro s; rfl
    | cons mp muts ih => intro s; simp only [List.foldl_cons]; rw [ih]; simp [Pair.mutate]

/-! ## non-vacuity -/

/-- a concrete pair meeting every hypothesis: nested object and array, member order permuted,
2^63-1 stored as int64 on one side and uint64 on the other, -0.0 vs +0.0, a string with an embedded
NUL, a null member, a retained number text on one side only; the trees are well-formed, different as
trees, equal for json_object_equal in both directions, and the copy of one is identical to it. -/
example :
    let a : JVal := .obj [([97], .arr [.int true 9223372036854775807, .null, .str [120, 0, 121]]),
                          ([98], .dbl 0x8000000000000000 none), ([99], .null)]
    let b : JVal := .obj [([99], .null), ([98], .dbl 0 (some [48, 46, 48])),
                          ([97], .arr [.int false 9223372036854775807, .null, .str [120, 0, 121]])]
    WF a ∧ WF b ∧ a.dump ≠ b.dump ∧ equal a b = true ∧ equal b a = true ∧ nanFree a = true ∧
    (∃ r, deepCopy b (some .null) = .ok r ∧ r.dst = some b) := by
  refine ⟨by decide, by decide, by decide, by decide, by decide, by decide, ?_⟩
  obtain ⟨r, h1, _, h2, _⟩ := copy_identical _ (by decide : WF (.obj [([99], .null),
    ([98], .dbl 0 (some [48, 46, 48])),
    ([97], .arr [.int false 9223372036854775807, .null, .str [120, 0, 121]])])) (by simp)
  exact ⟨r, h1, h2⟩


/-- every source fact this property's model consumes was located in the current source by tools/extract (a fact that is not
found is emitted with a placeholder value; this obligation then fails and the check uses the reference model) -/
theorem source_facts_located_c09 : JsonC.Generated.factsFound_eq = true := by decide

end JsonC.Equal
