/-
  C04  The parser is total and memory-safe on arbitrary bytes and reusable after reset.

  Property theorems only.  Model: JsonC/Model/Tokener.lean (json_tokener_parse_ex as a byte-driven
  machine, one dispatch per peeked byte, `goto redo_char` followed on fuel).  `WF` (Lemmas/TokenerWF)
  is the representation invariant of `struct json_tokener`: the level stack is non-empty and within
  `max_depth`, every level below the top waits for its child in array_add / object_value_add with a
  container of the right kind (and a pending member name), saved states are resumable states, and
  `st_pos` is in range in the \u escape states.

  Every statement below quantifies over *all* byte strings, all flag words, all depth limits and all
  well-formed tokener states (in particular every state reachable from json_tokener_new_ex by any
  sequence of parse / reset / set_flags calls - `reachable_wf`).  libc (`strtoll`, `strtoull`,
  `strtod`) is an arbitrary parameter `lc`: nothing here depends on what it returns.

  Partial by nature: a theorem cannot exhibit a wild pointer in C.  What is proved is the *logic* of
  memory safety - stack index, bytes read, shift counts, container kinds, termination of the redo
  chain; that the C code computes these the way the model does is the correspondence run (ASan/UBSan,
  exact-size input blocks), which compares every public tokener field after every call.
-/
import JsonC.Lemmas.TokenerStep
import JsonC.Lemmas.TranslatedTok
import JsonC.Lemmas.TranslatedReset
import JsonC.Lemmas.TokenerScrub2
import JsonC.Lemmas.TokenerTable
import JsonC.Generated.Structure

namespace JsonC.Tokener
open JsonC

/-- the model's enumerators are those of the current json_tokener.h (regenerated on every run) -/
theorem state_codes_match :
    [St.eatws, .start, .finish, .null, .commentStart, .comment, .commentEol, .commentEnd, .string,
     .stringEscape, .escapeUnicode, .needEscape, .needU, .boolean, .number, .array, .arrayAdd, .arraySep,
     .objectFieldStart, .objectField, .objectFieldEnd, .objectValue, .objectValueAdd, .objectSep,
     .arrayAfterSep, .objectFieldStartAfterSep, .inf].map St.code =
    [Generated.stEatws, Generated.stStart, Generated.stFinish, Generated.stNull, Generated.stCommentStart,
     Generated.stComment, Generated.stCommentEol, Generated.stCommentEnd, Generated.stString,
     Generated.stStringEscape, Generated.stEscapeUnicode, Generated.stEscapeUnicodeNeedEscape,
     Generated.stEscapeUnicodeNeedU, Generated.stBoolean, Generated.stNumber, Generated.stArray,
     Generated.stArrayAdd, Generated.stArraySep, Generated.stObjectFieldStart, Generated.stObjectField,
     Generated.stObjectFieldEnd, Generated.stObjectValue, Generated.stObjectValueAdd, Generated.stObjectSep,
     Generated.stArrayAfterSep, Generated.stObjectFieldStartAfterSep, Generated.stInf] := by decide

theorem error_codes_match :
    [Err.success, .continue_, .depth, .eof, .unexpected, .null, .boolean, .number, .array, .keyName, .keySep,
     .valueSep, .string, .comment, .utf8, .size, .memory].map Err.code =
    [Generated.errSuccess, Generated.errContinue, Generated.errDepth, Generated.errParseEof,
     Generated.errParseUnexpected, Generated.errParseNull, Generated.errParseBoolean, Generated.errParseNumber,
     Generated.errParseArray, Generated.errParseObjectKeyName, Generated.errParseObjectKeySep,
     Generated.errParseObjectValueSep, Generated.errParseString, Generated.errParseComment,
     Generated.errParseUtf8String, Generated.errSize, Generated.errMemory] := by decide

/-- the three flag bits are distinct single bits, so `strict` / `allowTrailing` / `validateUtf8` are independent -/
theorem flag_bits : Generated.tokenerStrict = 1 ∧ Generated.tokenerAllowTrailing = 2 ∧ Generated.tokenerValidateUtf8 = 16 := by
  decide

/-- json_tokener_new_ex(depth): refused below 1, otherwise a well-formed tokener -/
theorem new_refuses (d : Int) (f : Nat) (h : d < 1) : new d f = none := by simp [new, h]

theorem new_wf (d : Int) (f : Nat) (t : Tok) (h : new d f = some t) : WF t := by
  unfold new at h
  split at h
  · cases h
  · cases h
    rename_i hd
    refine ⟨⟨freshLevel, [], rfl, ?_, ?_, posOk_of_ne (by simp [freshLevel]) (by simp [freshLevel]) (by simp [freshLevel]), by simp⟩⟩
    · simp; omega
    · simp [Level.topOk, freshLevel, isArrV, isObjV]; exact shape_fresh

theorem reset_wf (t : Tok) (h : WF t) : WF (reset t) := by
  obtain ⟨top, rest, hs, hd, _, _, _⟩ := h.ex
  refine ⟨⟨freshLevel, [], rfl, ?_, ?_, posOk_of_ne (by simp [freshLevel]) (by simp [freshLevel]) (by simp [freshLevel]), by simp⟩⟩
  · simp [reset]; omega
  · simp [Level.topOk, freshLevel, isArrV, isObjV]; exact shape_fresh

theorem setFlags_wf (t : Tok) (f : Nat) (h : WF t) : WF (setFlags t f) := by
  obtain ⟨top, rest, hs, hd, hok, hp, hb⟩ := h.ex
  exact ⟨⟨top, rest, hs, hd, hok, hp, hb⟩⟩

/-- **Termination of the redo chain / no invalid operation, one byte.**  From a well-formed tokener,
processing any byte ends in `consume`, an error, or `done`: the fuel (16) is never exhausted, no
shift count is negative, the level stack is never indexed outside `[0, max_depth)`, no level is
asked to attach a child to something that is not a container; and the tokener stays well-formed. -/
theorem feed_total (lc : Libc) (t : Tok) (l : Loc) (c : UInt8) (h : WF t) : FeedOK (feed lc t l c) :=
  feed_ok lc t l c h

/-- what the loop guarantees -/
structure RunOK (off : Nat) (data : Bytes) (e : LoopEnd) : Prop where
  wf : WF e.tok
  notFault : ∀ w, e.stop ≠ .fault w
  notStuck : e.stop ≠ .stuck
  bound : off ≤ e.offset ∧ e.offset ≤ off + data.length
  /-- the call runs out of input only after consuming all of it -/
  chunkEnd : e.stop = .endOfChunk → e.offset = off + data.length

/-- **Totality, bounds.**  The `while (PEEK_CHAR)` loop over any bytes from any well-formed tokener
terminates (structural recursion on the input: each byte is peeked once), never gets stuck, never
faults, reads at most the bytes it was given (`offset ≤ off + len`) and leaves a well-formed tokener. -/
theorem run_total (lc : Libc) (data : Bytes) : ∀ (t : Tok) (l : Loc) (c : UInt8) (off : Nat), WF t →
    RunOK off data (run lc t l c off data) := by
  induction data with
  | nil => intro t l c off h; exact ⟨h, by simp [run], by simp [run], by simp [run], by simp [run]⟩
  | cons b bs ih =>
    intro t l c off h
    cases hpk : peek t l b with
    | none => simp only [run, hpk]; exact ⟨h, by simp, by simp, by simp, by simp⟩
    | some l1 =>
      have hf := feed_ok lc t l1 b h
      cases hfd : feed lc t l1 b with
      | consume t' l' =>
        rw [hfd] at hf
        simp only [run, hpk, hfd]
        by_cases hb : (b == 0) = true
        · rw [if_pos hb]; exact ⟨hf, by simp, by simp, by simp, by simp⟩
        · rw [if_neg hb]
          have := ih t' l' b (off + 1) hf
          exact ⟨this.wf, this.notFault, this.notStuck, by have := this.bound; simp; omega,
            fun hh => by have := this.chunkEnd hh; simp; omega⟩
      | err e t' l' => rw [hfd] at hf; simp only [run, hpk, hfd]; exact ⟨hf, by simp, by simp, by simp, by simp⟩
      | done t' l' => rw [hfd] at hf; simp only [run, hpk, hfd]; exact ⟨hf, by simp, by simp, by simp, by simp⟩
      | redo t' l' => rw [hfd] at hf; exact hf.elim
      | fault w => rw [hfd] at hf; exact hf.elim

/-- **Exactly one of three outcomes**: a value with status success, or no value with status continue
or an error status. (Immediate from the epilogue; holds for every call, well-formed or not.) -/
theorem outcome_trichotomy (lc : Libc) (t : Tok) (data : Bytes) :
    ((parseEx lc t data).value.isSome ↔ (parseEx lc t data).err = .success) := by
  unfold parseEx epilogue
  simp only
  split <;> simp_all

theorem fresh_wf (t : Tok) (h : WF t) : WF { t with stack := [freshLevel] } := by
  obtain ⟨top, rest, hst, hd, _, _, _⟩ := h.ex
  refine ⟨⟨freshLevel, [], rfl, ?_, ?_, posOk_of_ne (by simp [freshLevel]) (by simp [freshLevel]) (by simp [freshLevel]), by simp⟩⟩
  · simp; omega
  · simp [Level.topOk, freshLevel, isArrV, isObjV]; exact shape_fresh

/-- **One call, explicit length**: total, in bounds, end position ≤ length, tokener stays well-formed. -/
theorem parseEx_total (lc : Libc) (t : Tok) (data : Bytes) (h : WF t) :
    (parseEx lc t data).stuck = false ∧ (parseEx lc t data).fault = none ∧
    (parseEx lc t data).offset ≤ data.length ∧ WF (parseEx lc t data).tok := by
  have r := run_total lc data t {} 1 0 h
  have hb := r.bound
  have hns := r.notStuck
  have hnf := r.notFault
  unfold parseEx epilogue
  generalize run lc t {} 1 0 data = e at *
  simp only
  have h1 : (match e.stop with | Stop.stuck => true | _ => false) = false := by
    cases hs : e.stop <;> simp_all
  have h2 : (match e.stop with | Stop.fault w => some w | _ => none) = none := by
    cases hs : e.stop <;> simp_all
  split
  · exact ⟨by simp [h1], by simp [h2], by simpa using hb.2, fresh_wf _ r.wf⟩
  · exact ⟨by simp [h1], by simp [h2], by simpa using hb.2, r.wf⟩

/-- a run over bytes ending in NUL never runs off the end: it has stopped by the time the NUL is consumed -/
theorem run_nul_terminated (lc : Libc) (s : Bytes) : ∀ (t : Tok) (l : Loc) (c : UInt8) (off : Nat), WF t →
    (run lc t l c off (s ++ [0])).stop ≠ .endOfChunk := by
  induction s with
  | nil =>
    intro t l c off h
    simp only [List.nil_append]
    cases hpk : peek t l 0 with
    | none => simp [run, hpk]
    | some l1 =>
      have hf := feed_ok lc t l1 0 h
      cases hfd : feed lc t l1 0 with
      | consume t' l' => simp [run, hpk, hfd]
      | err e t' l' => simp [run, hpk, hfd]
      | done t' l' => simp [run, hpk, hfd]
      | redo t' l' => rw [hfd] at hf; exact hf.elim
      | fault w => rw [hfd] at hf; exact hf.elim
  | cons b bs ih =>
    intro t l c off h
    simp only [List.cons_append]
    cases hpk : peek t l b with
    | none => simp [run, hpk]
    | some l1 =>
      have hf := feed_ok lc t l1 b h
      cases hfd : feed lc t l1 b with
      | consume t' l' =>
        rw [hfd] at hf
        simp only [run, hpk, hfd]
        by_cases hb : (b == 0) = true
        · rw [if_pos hb]; simp
        · rw [if_neg hb]; exact ih t' l' b (off + 1) hf
      | err e t' l' => simp [run, hpk, hfd]
      | done t' l' => simp [run, hpk, hfd]
      | redo t' l' => rw [hfd] at hf; exact hf.elim
      | fault w => rw [hfd] at hf; exact hf.elim

/-- the status is `continue` only when the loop ran out of input -/
theorem continue_only_at_chunk_end (e : LoopEnd) (h : finalErr e = .continue_) : e.stop = .endOfChunk := by
  unfold finalErr at h
  simp only at h
  split at h
  · cases h
  · split at h
    · cases h
    · split at h
      · cases h
      · unfold loopErr at h
        cases hs : e.stop with
        | endOfChunk => rfl
        | err x => rw [hs] at h; simp only at h; cases x <;> cases h
        | done => rw [hs] at h; cases h
        | nul => rw [hs] at h; cases h
        | stuck => rw [hs] at h; cases h
        | fault w => rw [hs] at h; cases h

/-- **len = -1 reads nothing after the first NUL**: the call on a NUL-terminated string stops at or
before its terminator - the model's "read past the terminating NUL" fault is unreachable - and the
reported end position is at most strlen + 1. -/
theorem parseExZ_in_bounds (lc : Libc) (t : Tok) (str : Bytes) (h : WF t) :
    (parseExZ lc t str).fault = none ∧ (parseExZ lc t str).stuck = false ∧
    (parseExZ lc t str).offset ≤ (cstr str).length + 1 ∧ WF (parseExZ lc t str).tok := by
  have hp := parseEx_total lc t (cstr str ++ [0]) h
  have hne := run_nul_terminated lc (cstr str) t {} 1 0 h
  have hcont : (parseEx lc t (cstr str ++ [0])).err ≠ .continue_ := by
    intro hc
    unfold parseEx epilogue at hc
    simp only at hc
    split at hc
    · cases hc
    · exact hne (continue_only_at_chunk_end _ hc)
  have hz : parseExZ lc t str = parseEx lc t (cstr str ++ [0]) := by
    unfold parseExZ
    simp only   -- the `continue` branch is excluded by `hcont`
  rw [hz]
  exact ⟨hp.2.1, hp.1, by simpa using hp.2.2.1, hp.2.2.2⟩

/-- every tokener a caller can hold: obtained from json_tokener_new_ex by parse / reset / set_flags calls -/
inductive Reachable (lc : Libc) : Tok → Prop where
  | new (d : Int) (f : Nat) (t : Tok) : Tokener.new d f = some t → Reachable lc t
  | parse (t : Tok) (data : Bytes) : Reachable lc t → Reachable lc (parseEx lc t data).tok
  | parseZ (t : Tok) (str : Bytes) : Reachable lc t → Reachable lc (parseExZ lc t str).tok
  | reset (t : Tok) : Reachable lc t → Reachable lc (Tokener.reset t)
  | setFlags (t : Tok) (f : Nat) : Reachable lc t → Reachable lc (Tokener.setFlags t f)

/-- every reachable tokener is well-formed, so all of the above applies to every call a program can make
(including calls made after an error without resetting, and whatever libc returns) -/
theorem reachable_wf (lc : Libc) (t : Tok) (h : Reachable lc t) : WF t := by
  induction h with
  | new d f t h => exact new_wf d f t h
  | parse t data _ ih => exact (parseEx_total lc t data ih).2.2.2
  | parseZ t str _ ih => exact (parseExZ_in_bounds lc t str ih).2.2.2
  | reset t _ ih => exact reset_wf t ih
  | setFlags t f _ ih => exact setFlags_wf t f ih

/-- the level stack never exceeds the configured depth, whatever bytes arrive (also C15's
"hostile input can never overflow the parser's level stack") -/
theorem stack_in_bounds (lc : Libc) (t : Tok) (h : Reachable lc t) : 1 ≤ t.stack.length ∧ t.stack.length ≤ t.maxDepth := by
  obtain ⟨top, rest, hs, hd, _, _, _⟩ := (reachable_wf lc t h).ex
  rw [hs]; simp; omega

/-- **the state machine in the current source has the transition structure the model was written
against**: per `case json_tokener_state_…` group the same successor states, saved states and error
codes (extracted from /repo's json_tokener.c on every run), and the same three error overrides after
`out:` -/
theorem tok_structure_as_modelled :
    Generated.tokCases = expectedTokCases ∧ Generated.tokEpilogueErrs = expectedTokEpilogueErrs := by
  constructor <;> decide

/-- no surrogate is pending outside the three `\\u` states, for every reachable tokener -/
theorem reachable_hsInv (lc : Libc) (t : Tok) (h : Reachable lc t) : HsInv t := by
  induction h with
  | new d f t h => exact hsInv_new h
  | parse t data hr ih => exact parseEx_hsInv lc t data (reachable_wf lc t hr) ih
  | parseZ t str hr ih => exact parseExZ_hsInv lc t str (reachable_wf lc t hr) ih
  | reset t _ _ => exact hsInv_reset t
  | setFlags t f _ ih => exact hsInv_setFlags ih f

/-- **a reset parser behaves exactly like a new one**: whatever happened to `t` before (any history,
any leftover scratch state - `t` need not even be reachable), after `json_tokener_reset` every later
sequence of calls returns, call by call, the status, value, end position (and absence of faults) that
the same calls return on a tokener fresh from `json_tokener_new_ex` with the same depth and flags.
(`Lemmas/TokenerScrub`: the fields reset does not clear - `pb`, `st_pos`, `is_double`, `ucs_char`,
`quote_char` - are dead whenever a level is waiting for a value; `Eqv` is the simulation relation.) -/
theorem reset_behaves_like_new (lc : Libc) (t n : Tok) (d : Int) (fl : Nat) (hn : Tokener.new d fl = some n)
    (hd : t.maxDepth = d.toNat) (hf : t.flags = fl) (calls : List Bytes) :
    runCalls lc (reset t) calls = runCalls lc n calls :=
  reset_like_new_calls' lc t n d fl hn hd hf calls

/-- the single-call form, with the resulting tokeners again equivalent -/
theorem reset_behaves_like_new_one_call (lc : Libc) (t n : Tok) (d : Int) (fl : Nat) (hn : Tokener.new d fl = some n)
    (hd : t.maxDepth = d.toNat) (hf : t.flags = fl) (data : Bytes) :
    let f := parseEx lc (reset t) data; let g := parseEx lc n data
    f.err = g.err ∧ f.value = g.value ∧ f.offset = g.offset ∧ f.stuck = g.stuck ∧ f.fault = g.fault ∧ Eqv f.tok g.tok :=
  reset_like_new' lc t n d fl hn hd hf data

/-- non-vacuity: a depth-3 strict tokener fed a chunked document is reachable, and the model computes
its (successful) result -/
example : ∃ t, Tokener.new 3 1 = some t ∧
    -- chunks: {"a":[1,   and   "x\u00e9"]}
    (parseEx refLibc (parseEx refLibc t [123, 34, 97, 34, 58, 91, 49, 44]).tok [34, 120, 92, 117, 48, 48, 101, 57, 34, 93, 125]).err = .success := by
  refine ⟨_, rfl, ?_⟩
  decide


/-- every source fact this property's model consumes was located in the current source by tools/extract (a fact that is not
found is emitted with a placeholder value; this obligation then fails and the check uses the reference model) -/
theorem source_facts_located_c04 : JsonC.Generated.factsFound_tok = true := by decide

end JsonC.Tokener
