/-
  C05  Every node is destroyed exactly once, exactly when its last owner releases it.

  Property theorems only.  Model: JsonC/Model/Heap.lean (reference counts, container slots, the
  teardown work list, user delete callbacks, deep copy; ghost `ext` = references held by the caller).
  `History.WF ops` (decidable) = the history follows the documented ownership rules = the model never
  answers `misuse`.  `Reachable s` = `s` is the state after some well-formed history.  Every theorem
  quantifies over all finite well-formed histories (through `Reachable`) and, where it speaks about one
  call, over every operation and every argument.  "No C-level fault" (`assert(_ref_count > 0)`, a put on
  freed memory, running out of fuel) is the `∃ …, … = .ok …` of `no_fault`.
-/
import JsonC.Lemmas.TranslatedHeap
import JsonC.Lemmas.HeapRun

namespace JsonC.Heap
open JsonC Generated

/-- `s` is what some well-formed history leaves behind -/
def Reachable (s : State) : Prop := ∃ ops rs, History.WF ops ∧ run init ops = .ok (s, rs)

/-- number of owners of node `i`: references held by the caller + container slots referring to it -/
def State.owners (s : State) (i : Id) : Nat := s.ext i + s.heap.indeg i

/-- `i` is allocated (not yet destroyed) -/
def State.isLive (s : State) (i : Id) : Prop := (s.heap.get? i).isSome = true

/-- Facts the ownership model rests on, regenerated from the current source on every run
(Generated/Structure.lean, tools/extract/st_heap.py): a new node starts with one reference; put
reports 1 after the teardown and runs the user callback before it; the replace path of
json_object_object_add_ex puts the old value, with no return before the new one is stored;
set_userdata invokes the previous callback; put_idx clears the gap it creates. -/
theorem structure_tie :
    heapNewRefCount = 1 ∧ heapPutReturnsFreed = 1 ∧ heapPutCallbackFirst = true ∧
    heapAddExPutsExisting = true ∧ heapAddExReturnsBeforeSet = 0 ∧ heapSetUserdataCallsOld = true ∧
    heapPutIdxClearsGap = true := by
  decide

/-- A well-formed history never reaches a C-level fault: no `assert(_ref_count > 0)` failure, no put
on a freed node, no teardown / deep-copy recursion beyond its bound. -/
theorem no_fault (ops : List Op) (hwf : History.WF ops) : ∃ s rs, run init ops = .ok (s, rs) := by
  obtain ⟨s, rs, h, _⟩ := run_spec ops init inv_init hwf
  exact ⟨s, rs, h⟩

theorem reachable_inv {s : State} (h : Reachable s) : Inv s := by
  obtain ⟨ops, rs, hwf, hrun⟩ := h
  obtain ⟨s', rs', h', hinv, _⟩ := run_spec ops init inv_init hwf
  rw [hrun] at h'
  cases h'
  exact hinv

/-- **rc_accurate.** In every reachable heap, for every live node, the reference count is exactly
the number of references held by the caller plus the number of container slots referring to it. -/
theorem rc_accurate {s : State} (h : Reachable s) (i : Id) (n : Node) (hg : s.heap.get? i = some n) :
    n.rc = s.ext i + s.heap.indeg i := by
  have := (reachable_inv h).h.rc i n hg
  simpa [Heap.indeg] using this

/-- the same, in the middle of a teardown: with `w` the `json_object_put` calls still pending,
`rc = ext + in-degree + occurrences in w` (clause `rc` of `HInv`) holds before the loop, is what the
loop maintains, and the loop ends, without fault, with nothing pending. -/
theorem rc_accurate_mid (ext : Id → Nat) (h : Heap) (w : List Id) (hinv : HInv h ext w) :
    (∀ i n, h.get? i = some n → n.rc = ext i + h.indeg i + w.count i) ∧
    ∃ r, release (relFuel h w) h w = .ok r ∧ HInv r.heap ext [] ∧
      (∀ i n, r.heap.get? i = some n → n.rc = ext i + r.heap.indeg i) := by
  refine ⟨fun i n hg => hinv.rc i n hg, ?_⟩
  obtain ⟨r, hr, hri, _⟩ := release_spec ext _ h w hinv (Nat.le_refl _)
  exact ⟨r, hr, hri, fun i n hg => by simpa [Heap.indeg] using hri.rc i n hg⟩

/-- every live node has at least one owner, every owned node is live, every slot refers to a live node -/
theorem owners_pos {s : State} (h : Reachable s) (i : Id) :
    (s.isLive i → 1 ≤ s.owners i) ∧ (1 ≤ s.owners i → s.isLive i) := by
  have hs := reachable_inv h
  constructor
  · intro hl
    obtain ⟨n, hn⟩ := Option.isSome_iff_exists.mp hl
    have h1 := hs.h.rc i n hn
    have h2 := hs.h.pos i n hn
    simp only [State.owners, Heap.indeg]
    simp only [List.count_nil, Nat.add_zero] at h1
    omega
  · intro ho
    simp only [State.owners, Heap.indeg] at ho
    by_cases he : 0 < s.ext i
    · exact hs.h.extLive i he
    · exact hs.h.closed i (by simp only [List.count_nil, Nat.add_zero]; omega)

/-- **destroy_once.** The destruction log of a well-formed history is the concatenation of what each
call destroyed, contains no id twice, and no destroyed id is live. -/
theorem destroy_once (ops : List Op) (hwf : History.WF ops) (s : State) (rs : List Res)
    (hrun : run init ops = .ok (s, rs)) :
    s.log = rs.flatMap (·.dead) ∧ s.log.Nodup ∧ ∀ i ∈ s.log, ¬ s.isLive i := by
  obtain ⟨s', rs', h', hinv, _, hlog, _⟩ := run_spec ops init inv_init hwf
  rw [hrun] at h'
  cases h'
  refine ⟨by simpa [init] using hlog, hinv.logNodup, ?_⟩
  intro i hi hl
  have := (hinv.logDead i hi).1
  simp [State.isLive, this] at hl

/-- … and a destroyed id never reappears: whatever well-formed continuation follows, it stays in the
log and is never live again (ids are not reused). -/
theorem destroyed_never_reappears (a b : List Op) (_hwf : History.WF (a ++ b)) (s s' : State)
    (rs rs' : List Res) (ha : run init a = .ok (s, rs)) (hab : run init (a ++ b) = .ok (s', rs')) :
    ∀ i ∈ s.log, i ∈ s'.log ∧ ¬ s'.isLive i := by
  have hwfa : History.WF a := by unfold History.WF; rw [ha]; rfl
  obtain ⟨s1, rs1, h1, hinv1, _⟩ := run_spec a init inv_init hwfa
  rw [ha] at h1; cases h1
  rw [run_append, ha] at hab
  simp only [Step.bind_ok] at hab
  have hwfb : (run s b).isMisuse = false := by
    cases hr : run s b with
    | ok y => rfl
    | misuse w => rw [hr] at hab; cases hab
    | fault w => rfl
  obtain ⟨s2, rs2, h2, hinv2, _, hlog2, _⟩ := run_spec b s hinv1 hwfb
  rw [h2] at hab
  simp only [Step.bind_ok, Step.pure_eq] at hab
  cases hab
  intro i hi
  have hmem : i ∈ s'.log := by rw [hlog2]; exact List.mem_append_left _ hi
  refine ⟨hmem, ?_⟩
  intro hl
  have := (hinv2.logDead i hmem).1
  simp [State.isLive, this] at hl

/-- **destroyed_iff_last.** One call from a reachable state: a node that existed before the call is
destroyed by it exactly when it was live and the call leaves it without any owner (no caller
reference, no slot of a live container) - i.e. exactly at the call that releases its last reference,
not earlier (it still had an owner: `owners_pos`) and not later (it is gone when the call returns). -/
theorem destroyed_iff_last {s : State} (h : Reachable s) (op : Op) (s' : State) (r : Res)
    (hstep : step s op = .ok (s', r)) (i : Id) (hi : i < s.next) :
    i ∈ r.dead ↔ s.isLive i ∧ s'.owners i = 0 := by
  have hs := reachable_inv h
  rcases step_spec s hs op with ⟨why, hm⟩ | ⟨s1, r1, hst, hok⟩
  · rw [hm] at hstep; cases hstep
  · rw [hst] at hstep; cases hstep
    constructor
    · intro hd
      have hlive : s.isLive i := by
        rcases hok.deadWas i hd with h1 | h1
        · exact h1
        · exact absurd hi (Nat.not_lt.mpr h1)
      refine ⟨hlive, ?_⟩
      have hnl : ¬ (s'.heap.get? i).isSome = true := fun hl => ((hok.liveIff i hi).mp hl).2 hd
      simp only [State.owners, Heap.indeg]
      have h1 : s'.ext i = 0 := by
        cases he : s'.ext i with
        | zero => rfl
        | succ k => exact absurd (hok.inv.h.extLive i (by omega)) hnl
      have h2 : (Heap.edges s'.heap).count i = 0 := by
        cases hc : (Heap.edges s'.heap).count i with
        | zero => rfl
        | succ k => exact absurd (hok.inv.h.closed i (by omega)) hnl
      omega
    · intro ⟨hlive, hown⟩
      cases Classical.em (i ∈ r.dead) with
      | inl hd => exact hd
      | inr hnd =>
        exfalso
        have hl' := (hok.liveIff i hi).mpr ⟨hlive, hnd⟩
        obtain ⟨n', hn'⟩ := Option.isSome_iff_exists.mp hl'
        have h1 := hok.inv.h.rc i n' hn'
        have h2 := hok.inv.h.pos i n' hn'
        simp only [State.owners, Heap.indeg] at hown
        simp only [List.count_nil, Nat.add_zero] at h1
        omega

/-- `json_object_put` reports "freed" (1) exactly when the reference released was the node's last
one (`ext + in-degree = 1` before the call), which is exactly when the node is destroyed by this
call; otherwise it returns 0.  The delete callbacks that run are those of the destroyed nodes, once
each, in destruction order. -/
theorem put_returns_freed_iff {s : State} (h : Reachable s) (i : Id) (s' : State) (r : Res)
    (hstep : step s (.put i) = .ok (s', r)) :
    (r.ret = 1 ∨ r.ret = 0) ∧ (r.ret = 1 ↔ s.owners i = 1) ∧ (r.ret = 1 ↔ i ∈ r.dead) ∧
      r.cbs = cbsOf s.heap r.dead := by
  have hs := reachable_inv h
  rcases put_spec s hs i with ⟨why, hm⟩ | ⟨s1, r1, hst, _, _, _, _, h1, h2, h3, h4⟩
  · simp only [step] at hstep; rw [hm] at hstep; cases hstep
  · simp only [step] at hstep
    rw [hst] at hstep; cases hstep
    exact ⟨h1, h3, h2, h4⟩

/-- a delete callback marked final (it ran with `_ref_count == 0`) belongs to a node destroyed by the
same call; since the log has no duplicates, a node's final callback runs at most once in a history -/
theorem final_callback_only_when_destroyed {s : State} (h : Reachable s) (op : Op) (s' : State) (r : Res)
    (hstep : step s op = .ok (s', r)) : ∀ c ∈ r.cbs, c.final = true → c.id ∈ r.dead := by
  rcases step_spec s (reachable_inv h) op with ⟨why, hm⟩ | ⟨s1, r1, hst, hok⟩
  · rw [hm] at hstep; cases hstep
  · rw [hst] at hstep; cases hstep; exact hok.cbFinal

/-- **survivor_usable.** A node to which the caller still holds a reference after the call is live
after it; so is everything below it; and every node other than the call's own target that is live
after the call - in particular a survivor whose former parent was just destroyed, and its whole
subtree - has exactly the payload and user data it had before. -/
theorem survivor_usable {s : State} (h : Reachable s) (op : Op) (s' : State) (r : Res)
    (hstep : step s op = .ok (s', r)) :
    (∀ j, 0 < s'.ext j → s'.isLive j) ∧
    (∀ j k, s'.isLive j → Reach s'.heap j k → s'.isLive k) ∧
    (∀ j n', j < s.next → targetOf s op ≠ some j → s'.heap.get? j = some n' →
      ∃ n, s.heap.get? j = some n ∧ n'.body = n.body ∧ n'.ud = n.ud) ∧
    (∀ j, j < s.next → s.isLive j → j ∉ r.dead → s'.isLive j) := by
  rcases step_spec s (reachable_inv h) op with ⟨why, hm⟩ | ⟨s1, r1, hst, hok⟩
  · rw [hm] at hstep; cases hstep
  · rw [hst] at hstep; cases hstep
    refine ⟨hok.inv.h.extLive, ?_, hok.frame, fun j hj hl hd => (hok.liveIff j hj).mpr ⟨hl, hd⟩⟩
    intro j k hl hr
    induction hr with
    | refl => exact hl
    | @step a c b hc _ ih =>
      apply ih
      obtain ⟨n, hn, hcn⟩ := (mem_childrenOf s'.heap a c).mp hc
      apply hok.inv.h.closed
      have h1 := Heap.count_edges_of_get? s'.heap a n hn c
      have h2 : 0 < n.body.children.count c := List.count_pos_iff.mpr hcn
      simp only [List.count_nil, Nat.add_zero]
      exact Nat.lt_of_lt_of_le h2 h1

/-- **failed_keeps_ownership.** A call that reports failure (negative return) changes nothing:
every node - count, payload, user data - and every caller-held reference is as before (whatever a
failing deep copy had built is gone again). -/
theorem failed_keeps_ownership {s : State} (h : Reachable s) (op : Op) (s' : State) (r : Res)
    (hstep : step s op = .ok (s', r)) (hfail : r.ret < 0) :
    (∀ i, s'.heap.get? i = s.heap.get? i) ∧ (∀ i, s'.ext i = s.ext i) := by
  rcases step_spec s (reachable_inv h) op with ⟨why, hm⟩ | ⟨s1, r1, hst, hok⟩
  · rw [hm] at hstep; cases hstep
  · rw [hst] at hstep; cases hstep; exact hok.failed hfail

/-- **all_released_empty.** After any well-formed history, once the caller holds no reference any
more, nothing is left: the heap is empty and no allocator block is accounted for.
(General DAG case; acyclicity is an invariant of well-formed histories, `reachable_acyclic`.) -/
theorem all_released_empty {s : State} (h : Reachable s) (hext : ∀ i, s.ext i = 0) :
    s.heap = [] ∧ s.heap.blocks = 0 := by
  have := heap_empty_of_no_ext s (reachable_inv h) hext
  rw [this]
  exact ⟨rfl, rfl⟩

/-- The reference counts implement exactly the ownership specification (Spec/Ownership.lean: "a node
lives as long as some chain of owners leads to it from a reference the caller holds"): in every
reachable state the live nodes are precisely those reachable, through container slots, from a node
with a caller-held reference.  So a node is destroyed when, and only when, the last such chain is cut. -/
theorem live_iff_owner_chain {s : State} (h : Reachable s) (i : Id) :
    s.isLive i ↔ ∃ root, 0 < s.ext root ∧ Reach s.heap root i := by
  have hs := reachable_inv h
  constructor
  · exact live_has_root s hs i
  · intro ⟨root, hroot, hreach⟩
    have hl : s.isLive root := hs.h.extLive root hroot
    clear hroot
    induction hreach with
    | refl => exact hl
    | @step a c b hc _ ih =>
      apply ih
      obtain ⟨n, hn, hcn⟩ := (mem_childrenOf s.heap a c).mp hc
      apply hs.h.closed
      have h1 := Heap.count_edges_of_get? s.heap a n hn c
      have h2 : 0 < n.body.children.count c := List.count_pos_iff.mpr hcn
      simp only [List.count_nil, Nat.add_zero]
      exact Nat.lt_of_lt_of_le h2 h1

/-- well-formed histories never build a cycle -/
theorem reachable_acyclic {s : State} (h : Reachable s) : Acyclic s.heap ∧ ∀ i, ¬ ∃ j, j ∈ s.heap.childrenOf i ∧ Reach s.heap j i := by
  have hs := reachable_inv h
  refine ⟨hs.acyclic, ?_⟩
  intro i ⟨j, hj, hr⟩
  obtain ⟨rk, hrk⟩ := hs.acyclic
  obtain ⟨n, hn, hjn⟩ := (mem_childrenOf s.heap i j).mp hj
  have h1 := hrk i n hn j hjn
  have h2 := Reach.rank_le hrk hr
  omega

/-- non-vacuity: a concrete history (replace a key, re-add the same node under the same key after an
extra get, delete with an extra reference held, use the survivor, deep copy, failing calls, release
everything) is well-formed, is run by the model, and ends with an empty heap. -/
example :
    let ops : List Op :=
      [.newObject, .newArray, .newScalar .string, .arrAdd 1 (some 2), .objAdd 0 [107] (some 1) false,
       .get 1, .objAdd 0 [107] (some 1) false, .get 2, .arrPut 1 3 (some 2), .arrDel 1 0 1,
       .arrDel 1 7 1, .objAdd 0 [107] (some 0) false, .deepCopy 0 none, .deepCopy 0 (some 2),
       .get 1, .objDel 0 [107], .put 0, .setUserdata 1 (some 9), .put 1, .put 3]
    History.WF ops ∧ (∃ s rs, run init ops = .ok (s, rs) ∧ s.heap = [] ∧ s.log.length = 7) := by
  refine ⟨by decide, ?_⟩
  exact ⟨_, _, rfl, by decide, by decide⟩


/-- every source fact this property's model consumes was located in the current source by tools/extract (a fact that is not
found is emitted with a placeholder value; this obligation then fails and the check uses the reference model) -/
theorem source_facts_located_c05 : JsonC.Generated.factsFound_heap = true := by decide

end JsonC.Heap
