import JsonC.Model.Linkhash
import JsonC.Spec.OrdMap
namespace JsonC.Linkhash
theorem placeholder_c06 : True := trivial
end JsonC.Linkhash
