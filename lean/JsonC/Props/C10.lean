/-
  C10  Numeric accessors and mutators are exact when representable, else saturating.

  Property theorems only.  Model: JsonC/Model/Num.lean (transcription of json_object_get_boolean /
  _get_int / _get_int64 / _get_uint64 / _get_double, the five setters, json_object_int_inc and
  json_parse_int64 / json_parse_uint64; every double → integer cast range-checked, every signed
  operation overflow-checked; a violated check is `Outcome.fault`).  Spec: JsonC/Spec/Coerce.lean
  (`clamp lo hi (truncToZero v)`, the NaN rule, the errno table of json_object.h).

  Quantification: every node kind (`JVal`), every int64 / uint64 value (`JVal.NumWF`), every 64-bit
  double pattern (`bits : UInt64`, decoded exactly), every byte string.  "No fault" is the
  `∃ r, … = .ok r` of each statement.  libc enters as the parameter `L : LibcNum`; where a statement
  needs to know what strtoll / strtoull compute it carries the hypothesis that `L` agrees with the
  reference semantics (Libc/Strtoll.lean), which the correspondence run compares with the real libc.
  `r.err.after .none` is errno after the call when it was 0 before (as the header prescribes).

  Two deviations of json_object_get_double from json_object.h (recorded as known findings) are
  modelled faithfully and tagged (`R.tags`); the statement they break is kept at full strength as
  `getDoubleSpecStatement`, proved under "no tag fired" (`getDouble_spec_partial`), and refuted on
  the current code by decided counter-examples.
-/
import JsonC.Lemmas.NumMut
import JsonC.Lemmas.TranslatedNum

set_option exponentiation.threshold 2000

namespace JsonC.Num
open JsonC JsonC.Dbl JsonC.Libc Generated JsonC.Coerce

/-- `L.strtoll` / `L.strtoull` have the C-standard semantics -/
def LibcNum.IntRef (L : LibcNum) : Prop :=
  (∀ t, L.strtoll t = Libc.strtoll t) ∧ (∀ t, L.strtoull t = Libc.strtoull t)

/-- `strtod` leaves its end pointer inside the string it was given -/
def LibcNum.EndInside (L : LibcNum) : Prop := ∀ t, (L.strtod t).consumed ≤ t.length

/-! ## The tie to the source: facts regenerated from json_object.c / json_util.c on every run -/

/-- The comparison operators guarding the double → integer casts are consulted by the model
(`numI64DblHiIncl` …); the rest of the shape the model transcribes is asserted here. -/
theorem src_shape :
    numCastGuardsFound = true ∧ numGetIntShape = true ∧ numGetInt64Shape = true ∧ numGetUint64Shape = true ∧
    numIncShape = true ∧ numParseInt64Shape = true ∧ numParseUint64Shape = true := by decide

/-! ## No undefined conversion, no overflow -/

theorem getBoolean_no_fault (n : JVal) : ∃ r, getBoolean n = .ok r :=
  ⟨_, getBoolean_eq n⟩

/-- for every libc whatsoever -/
theorem getInt_no_fault (L : LibcNum) (n : JVal) (hn : n.NumWF) : ∃ r, getInt L n = .ok r := by
  cases n with
  | int s v => obtain ⟨r, h, _⟩ := getInt_int L s v hn; exact ⟨r, h⟩
  | dbl b t => obtain ⟨r, h, _⟩ := getInt_dbl L b t; exact ⟨r, h⟩
  | str s =>
    simp only [getInt]
    split
    · exact ⟨_, rfl⟩
    · unfold clampInt32; split
      · exact ⟨_, rfl⟩
      · split <;> exact ⟨_, rfl⟩
  | _ => exact ⟨_, rfl⟩

theorem getInt64_no_fault (L : LibcNum) (n : JVal) (hn : n.NumWF) : ∃ r, getInt64 L n = .ok r := by
  cases n with
  | int s v => obtain ⟨r, h, _⟩ := getInt64_int L s v hn; exact ⟨r, h⟩
  | dbl b t => obtain ⟨r, h, _⟩ := getInt64_dbl L b t; exact ⟨r, h⟩
  | str s => exact useParsed_parseTail_ok _ _ _
  | _ => exact ⟨_, rfl⟩

theorem getUint64_no_fault (L : LibcNum) (n : JVal) (hn : n.NumWF) : ∃ r, getUint64 L n = .ok r := by
  cases n with
  | int s v => obtain ⟨r, h, _⟩ := getUint64_int L s v hn; exact ⟨r, h⟩
  | dbl b t => obtain ⟨r, h, _⟩ := getUint64_dbl L b t; exact ⟨r, h⟩
  | str s =>
    simp only [getUint64, parseUint64]
    split
    · exact ⟨_, rfl⟩
    · exact useParsed_parseTail_ok _ _ _
  | _ => exact ⟨_, rfl⟩

theorem getDouble_no_fault (L : LibcNum) (hEnd : L.EndInside) (n : JVal) (hn : n.NumWF) :
    ∃ r, getDouble L n = .ok r := by
  obtain ⟨r, h, _⟩ := getDouble_partial L hEnd n hn; exact ⟨r, h⟩

/-! ## The documented coercion -/

/-- json_object_get_boolean, every node. -/
theorem getBoolean_spec (n : JVal) : getBoolean n = .ok ⟨Coerce.toBool n, .keep, []⟩ :=
  getBoolean_eq n

/-- json_object_get_int, every node: the value is `clamp INT32_MIN INT32_MAX (truncToZero v)`
(NaN: INT32_MIN), errno is ERANGE exactly when `v` is outside int32, EINVAL for NaN and for text
without a conversion, 0 otherwise; no tag fires. -/
theorem getInt_spec (L : LibcNum) (hL : L.IntRef) (n : JVal) (hn : n.NumWF) :
    ∃ r, getInt L n = .ok r ∧ r.tags = [] ∧ (toSigned int32 n).allows r.val (r.err.after .none) := by
  cases n with
  | int s v => exact getInt_int L s v hn
  | dbl b t => exact getInt_dbl L b t
  | str s => exact getInt_str L hL.1 s
  | bool b => cases b <;> exact ⟨_, rfl, rfl, by decide⟩
  | null => exact ⟨_, rfl, rfl, by decide⟩
  | arr xs => exact ⟨_, rfl, rfl, rfl, Or.inl rfl⟩
  | obj kvs => exact ⟨_, rfl, rfl, rfl, Or.inl rfl⟩

/-- json_object_get_int64, every node. -/
theorem getInt64_spec (L : LibcNum) (hL : L.IntRef) (n : JVal) (hn : n.NumWF) :
    ∃ r, getInt64 L n = .ok r ∧ r.tags = [] ∧ (toSigned int64 n).allows r.val (r.err.after .none) := by
  cases n with
  | int s v => exact getInt64_int L s v hn
  | dbl b t => exact getInt64_dbl L b t
  | str s => exact getInt64_str L hL.1 s
  | bool b => cases b <;> exact ⟨_, rfl, rfl, by decide⟩
  | null => exact ⟨_, rfl, rfl, by decide⟩
  | arr xs => exact ⟨_, rfl, rfl, rfl, Or.inl rfl⟩
  | obj kvs => exact ⟨_, rfl, rfl, rfl, Or.inl rfl⟩

/-- json_object_get_uint64, every node: `clamp 0 UINT64_MAX (truncToZero v)` (NaN: 0 with EINVAL),
ERANGE exactly when `v` is outside uint64; text denoting a negative number reads as 0 with EINVAL
(never as a wrapped value), whatever white space precedes the sign. -/
theorem getUint64_spec (L : LibcNum) (hL : L.IntRef) (n : JVal) (hn : n.NumWF) :
    ∃ r, getUint64 L n = .ok r ∧ r.tags = [] ∧ (toUnsigned n).allows r.val (r.err.after .none) := by
  cases n with
  | int s v => exact getUint64_int L s v hn
  | dbl b t => exact getUint64_dbl L b t
  | str s => exact getUint64_str L hL.2 s
  | bool b => cases b <;> exact ⟨_, rfl, rfl, by decide⟩
  | null => exact ⟨_, rfl, rfl, by decide⟩
  | arr xs => exact ⟨_, rfl, rfl, rfl, Or.inl rfl⟩
  | obj kvs => exact ⟨_, rfl, rfl, rfl, Or.inl rfl⟩

/-- json_object_get_double at full strength (fails on the current code, see below). -/
def getDoubleSpecStatement : Prop :=
  ∀ (L : LibcNum), L.EndInside → ∀ (n : JVal), n.NumWF →
    ∃ r, getDouble L n = .ok r ∧ (toDouble L.strtod n).allows r.val (r.err.after .none)

/-- json_object_get_double, every node: a double node returns its own bit pattern, an integer the
nearest double (ties to even; exact below 2^53), a boolean 0.0/1.0, NULL 0.0 without error, text
what `strtod` yields when it consumes the whole text and 0.0 with EINVAL otherwise, an object 0.0
with EINVAL - whenever neither known-defect clause fired (`num.get_double.string-overflow-zero`,
`num.get_double.array-doc`). -/
theorem getDouble_spec_partial (L : LibcNum) (hEnd : L.EndInside) (n : JVal) (hn : n.NumWF) :
    ∃ r, getDouble L n = .ok r ∧
      (r.tags = [] → (toDouble L.strtod n).allows r.val (r.err.after .none)) :=
  getDouble_partial L hEnd n hn

/-- counter-example 1 (deviation from json_object.h): "1e999" reads as 0.0 with ERANGE; the header
documents the closest infinity. -/
theorem getDouble_string_overflow_zero :
    getDouble refLibc (.str [49, 101, 57, 57, 57]) =
      .ok ⟨0, .set .ERANGE, ["num.get_double.string-overflow-zero"]⟩ ∧
    ¬ (toDouble refLibc.strtod (.str [49, 101, 57, 57, 57])).allows 0 .ERANGE := by decide

/-- counter-example 2 (deviation from json_object.h): the empty array reads as 0.0 with EINVAL; the
header documents 0 with no error (and [x] as x, longer arrays as NaN). -/
theorem getDouble_array_doc :
    getDouble refLibc (.arr []) = .ok ⟨0, .set .EINVAL, ["num.get_double.array-doc"]⟩ ∧
    ¬ (toDouble refLibc.strtod (.arr [])).allows 0 .EINVAL := by decide

theorem getDoubleSpecStatement_fails : ¬ getDoubleSpecStatement := by
  intro h
  obtain ⟨r, hr, ha⟩ := h ⟨fun _ => ⟨0, 0, .none⟩, fun _ => ⟨0, 0, .none⟩, fun _ => ⟨0, 0, .none⟩⟩
    (fun _ => Nat.zero_le _) (.arr []) trivial
  cases hr
  revert ha
  decide

/-- (double)integer: exact whenever the integer has at most 53 significant bits. -/
theorem getDouble_int_exact (L : LibcNum) (s : Bool) (v : Int) (hv : v.natAbs < 2 ^ 53) :
    ∃ r neg num den, getDouble L (.int s v) = .ok r ∧ r.tags = [] ∧ r.err = .keep ∧
      decode r.val = .fin neg num den ∧ num = v.natAbs * den ∧ (v ≠ 0 → neg = decide (v < 0)) := by
  have h := intToDbl_rne v (by omega) (by omega)
  unfold isNearestBits at h
  refine ⟨⟨intToDbl v, .keep, []⟩, ?_⟩
  cases hd : decode (intToDbl v) with
  | nan => rw [hd] at h; simp at h
  | inf n => rw [hd] at h; simp at h
  | fin neg num den =>
    rw [hd] at h
    simp only [Bool.and_eq_true, beq_iff_eq, decide_eq_true_eq] at h
    obtain ⟨⟨h1, h2⟩, h3⟩ := h
    unfold IsRNE at h3
    rw [if_pos hv] at h3
    refine ⟨neg, num, den, rfl, rfl, rfl, (by first | exact hd | rfl), ?_, fun _ => h1⟩
    have := Nat.div_add_mod num den
    rw [h2, h3] at this
    rw [Nat.mul_comm]; omega

/-! ## Never wrapped, never sign-flipped: consequences for integer nodes, in words of the property -/

/-- an integer that fits the target type is returned unchanged with errno 0 -/
theorem ofInt_exact (t : IntTy) (v : Int) (h1 : t.lo ≤ v) (h2 : v ≤ t.hi) : ofInt t v = ⟨v, [.none]⟩ :=
  ofInt_in t v h1 h2

/-- one that does not is replaced by the nearest bound, with ERANGE -/
theorem ofInt_saturates (t : IntTy) (v : Int) (hh : t.lo ≤ t.hi) :
    (v < t.lo → ofInt t v = ⟨t.lo, [.ERANGE]⟩) ∧ (t.hi < v → ofInt t v = ⟨t.hi, [.ERANGE]⟩) :=
  ⟨fun h => ofInt_below t v h hh, fun h => ofInt_above t v h hh⟩

/-- whatever a double holds, the documented answer lies inside the target type and has the sign of
the double (a negative value never reads as a positive one and vice versa) -/
theorem ofDouble_in_range_same_sign (t : IntTy) (hh : t.lo ≤ 0 ∧ 0 ≤ t.hi) (hn : t.lo ≤ t.nanRet ∧ t.nanRet ≤ t.hi)
    (bits : Nat) :
    t.lo ≤ (ofDouble t bits).val ∧ (ofDouble t bits).val ≤ t.hi ∧
    (∀ neg num den, decode bits = .fin neg num den →
      (neg = false → 0 ≤ (ofDouble t bits).val) ∧ (neg = true → (ofDouble t bits).val ≤ 0)) := by
  unfold ofDouble
  cases hd : decode bits with
  | nan => exact ⟨hn.1, hn.2, fun _ _ _ h => by cases h⟩
  | inf neg =>
    cases neg
    · exact ⟨by simp only [Bool.false_eq_true, if_false]; omega, by simp only [Bool.false_eq_true, if_false]; omega,
        fun _ _ _ h => by cases h⟩
    · exact ⟨by simp only [if_true]; omega, by simp only [if_true]; omega, fun _ _ _ h => by cases h⟩
  | fin neg num den =>
    have hm := @clamp_mem t.lo t.hi (truncToZero neg num den) (by omega)
    refine ⟨hm.1, hm.2, ?_⟩
    intro neg' num' den' he
    cases he
    simp only []
    have hq : (0 : Int) ≤ ((num / den : Nat) : Int) := Int.natCast_nonneg _
    unfold clamp truncToZero
    generalize ((num / den : Nat) : Int) = q at hq ⊢
    cases neg
    · refine ⟨fun _ => ?_, fun h => by cases h⟩
      simp only [Bool.false_eq_true, if_false]
      split
      · omega
      · split <;> omega
    · refine ⟨fun h => (by cases h), fun _ => ?_⟩
      simp only [if_true]
      split
      · omega
      · split <;> omega

/-! ## json_parse_int64 / json_parse_uint64 -/

/-- json_parse_int64 over a reference strtoll: no digits → 1 with EINVAL and nothing stored; otherwise
0, the exact value clamped to int64, errno ERANGE exactly when it was clamped. -/
theorem parseInt64_spec (L : LibcNum) (hL : L.IntRef) (t : Bytes) :
    parseInt64 L t =
      match scanInt t with
      | none => ⟨1, none, .EINVAL, []⟩
      | some r => ⟨0, some (clamp INT64_MIN INT64_MAX r.value),
                   if INT64_MIN ≤ r.value ∧ r.value ≤ INT64_MAX then .none else .ERANGE, []⟩ :=
  parseInt64_eq L hL.1 t

/-- the white-space-and-minus rule of json_parse_uint64: any run of isspace characters followed by
'-' is refused - return 1, nothing stored, errno EINVAL - for every libc (strtoull is not reached). -/
theorem parseUint64_rejects_ws_minus (L : LibcNum) (buf rest : Bytes)
    (h : buf.dropWhile isSpace = 45 :: rest) : parseUint64 L buf = ⟨1, none, .EINVAL, []⟩ := by
  unfold parseUint64
  simp only [h]

/-- json_parse_uint64 over a reference strtoull never yields a wrapped value: whenever it reports
success the stored value is the exact non-negative number of the text, clamped to uint64. -/
theorem parseUint64_success_exact (L : LibcNum) (hL : L.IntRef) (buf : Bytes) (v : Int)
    (h : (parseUint64 L buf).rc = 0) (hv : (parseUint64 L buf).retval = some v) :
    ∃ r, scanInt buf = some r ∧ r.neg = false ∧ v = clamp 0 UINT64_MAX r.mag := by
  have e3 : UINT64_MAX = 18446744073709551615 := rfl
  unfold parseUint64 at h hv
  simp only [hL.2] at h hv
  generalize hb : buf.dropWhile isSpace = b at h hv
  split at h
  · cases h
  · rename_i hnot
    cases hsc : scanInt b with
    | none =>
      have hr : Libc.strtoull b = ⟨0, 0, .none⟩ := by unfold Libc.strtoull; rw [hsc]
      rw [hr, parseTail_noconv _ _ rfl] at h; cases h
    | some sc =>
      have hne : sc.consumed ≠ 0 := by have := scanInt_consumed_pos hsc; omega
      have hnh := scanInt_neg_head hsc
      have hidem : b.dropWhile isSpace = b := by rw [← hb]; exact dropWhile_isSpace_idem _
      have hng : sc.neg = false := by
        cases hsn : sc.neg with
        | false => rfl
        | true =>
          rw [hsn, hidem] at hnh
          have h45 := hnh.mp rfl
          cases b with
          | nil => cases h45
          | cons c t =>
            simp only [List.head?_cons, Option.some.injEq] at h45
            exact absurd (by rw [h45]) (hnot t)
      have hsc' := hsc
      rw [← hb] at hsc'
      obtain ⟨r, hr, hn, hm⟩ := scanInt_of_spaces hsc'
      refine ⟨r, hr, by rw [hn, hng], ?_⟩
      rw [strtoull_some hsc] at hv
      simp only [hng, Bool.false_eq_true, false_and, if_false] at hv
      by_cases h1 : (sc.mag : Int) > UINT64_MAX
      · rw [if_pos h1, parseTail_conv _ _ hne (Or.inl (by simp [e3]))] at hv
        cases hv
        rw [hm, clamp_hi (by omega) (by omega)]
      · rw [if_neg h1, parseTail_conv _ _ hne (Or.inr rfl)] at hv
        cases hv
        rw [hm, clamp_id (by omega) (by omega)]

/-! ## Setters: set, then get in the own type -/

/-- a setter applied to a node of another type does nothing and returns 0 -/
theorem set_wrong_type (n : JVal) :
    ((∀ s c, n ≠ .int s c) → ∀ v, setInt64 n v = (0, n) ∧ setUint64 n v = (0, n) ∧ setInt n v = (0, n)) ∧
    ((∀ b t, n ≠ .dbl b t) → ∀ v, setDouble n v = (0, n)) ∧
    ((∀ b, n ≠ .bool b) → ∀ v, setBoolean n v = (0, n)) := by
  refine ⟨fun h v => ?_, fun h v => ?_, fun h v => ?_⟩
  · cases n <;> simp [setInt64, setUint64, setInt] at h ⊢
  · cases n <;> simp [setDouble] at h ⊢
  · cases n <;> simp [setBoolean] at h ⊢

/-- json_object_set_int64 / _set_uint64 / _set_int / _set_double / _set_boolean on a node of the right
type succeed, and reading the node back in that type returns exactly what was stored, without error
(for doubles: the identical bit pattern, NaN payloads and the sign of zero included). -/
theorem set_get_roundtrip (L : LibcNum) :
    (∀ s c v, IsI64 v → (setInt64 (.int s c) v).1 = 1 ∧
        getInt64 L (setInt64 (.int s c) v).2 = .ok ⟨v, .set .none, []⟩) ∧
    (∀ s c v, IsU64 v → (setUint64 (.int s c) v).1 = 1 ∧
        getUint64 L (setUint64 (.int s c) v).2 = .ok ⟨v, .set .none, []⟩) ∧
    (∀ s c v, INT32_MIN ≤ v ∧ v ≤ INT32_MAX → (setInt (.int s c) v).1 = 1 ∧
        getInt L (setInt (.int s c) v).2 = .ok ⟨v, .set .none, []⟩) ∧
    (∀ b t (bits : UInt64), (setDouble (.dbl b t) bits).1 = 1 ∧
        getDouble L (setDouble (.dbl b t) bits).2 = .ok ⟨bits.toNat, .keep, []⟩) ∧
    (∀ b v, (setBoolean (.bool b) v).1 = 1 ∧
        getBoolean (setBoolean (.bool b) v).2 = .ok ⟨v, .keep, []⟩) := by
  have e4 : INT32_MAX = 2147483647 := rfl
  have e5 : INT32_MIN = -2147483648 := rfl
  refine ⟨fun s c v _ => ⟨rfl, rfl⟩, fun s c v _ => ⟨rfl, rfl⟩, fun s c v hv => ⟨rfl, ?_⟩,
    fun b t bits => ⟨rfl, rfl⟩, fun b v => ⟨rfl, rfl⟩⟩
  simp only [setInt, setInt64, getInt, clampInt32]
  rw [if_neg (by omega), if_neg (by omega)]

/-! ## Increment -/

theorem inc_no_fault (n : JVal) (hn : n.NumWF) (v : Int) (hv : IsI64 v) : ∃ r, intInc n v = .ok r := by
  cases n with
  | int s c => exact ⟨_, inc_int s c v hn hv⟩
  | _ => exact ⟨_, rfl⟩

/-- json_object_int_inc adds exactly, saturating at INT64_MIN / UINT64_MAX; the result is again a
well-formed int node; representation rule: an int64 node stays int64 unless the sum exceeds
INT64_MAX (then it becomes uint64), a uint64 node stays uint64 unless the sum is negative (then it
becomes int64). -/
theorem inc_exact (s : Bool) (c v : Int) (hc : (JVal.int s c).NumWF) (hv : IsI64 v) :
    ∃ n', intInc (.int s c) v = .ok (1, n') ∧
      intValue n' = some (clamp INT64_MIN UINT64_MAX (c + v)) ∧
      n' = .int (incSigned s c v) (incValue c v) ∧ n'.NumWF := by
  have e1 : INT64_MAX = 9223372036854775807 := rfl
  have e2 : INT64_MIN = -9223372036854775808 := rfl
  have e3 : UINT64_MAX = 18446744073709551615 := rfl
  refine ⟨_, inc_int s c v hc hv, rfl, rfl, ?_⟩
  unfold IsI64 at hv
  have hm := @clamp_mem INT64_MIN UINT64_MAX (c + v) (by omega)
  unfold incSigned incValue
  cases s
  · simp only [JVal.NumWF] at hc
    simp only [Bool.false_eq_true, if_false]
    by_cases h : c + v < 0
    · simp only [h, decide_true, JVal.NumWF]
      rw [clamp_id (by omega) (by omega)]; omega
    · simp only [h, decide_false, JVal.NumWF]
      refine ⟨?_, hm.2⟩
      by_cases h2 : c + v > UINT64_MAX
      · rw [clamp_hi (by omega) (by omega)]; omega
      · rw [clamp_id (by omega) (by omega)]; omega
  · simp only [JVal.NumWF] at hc
    simp only [if_true]
    by_cases h : c + v ≤ INT64_MAX
    · simp only [h, decide_true, JVal.NumWF]
      exact ⟨hm.1, by
        by_cases h2 : c + v < INT64_MIN
        · rw [clamp_lo (by omega) (by omega)]; omega
        · rw [clamp_id (by omega) (by omega)]; exact h⟩
    · simp only [h, decide_false, JVal.NumWF]
      refine ⟨?_, hm.2⟩
      by_cases h2 : c + v > UINT64_MAX
      · rw [clamp_hi (by omega) (by omega)]; omega
      · rw [clamp_id (by omega) (by omega)]; omega

/-- nodes of any other type are left alone and 0 is returned -/
theorem inc_other_type (n : JVal) (v : Int) (h : ∀ s c, n ≠ .int s c) : intInc n v = .ok (0, n) :=
  inc_other n v h

/-! ## Non-vacuity: concrete instances meeting the hypotheses, computed by the model -/

/-- the reference libc meets `IntRef`; doubles at the bounds: 2^63 and 2^64 saturate instead of being
cast, -2^63 is exact, 2147483647.5 clamps with ERANGE; "\t-1" read as uint64 is 0 with EINVAL;
UINT64_MAX + (-1) stays unsigned. -/
example : refLibc.IntRef ∧
    getInt64 refLibc (.dbl 0x43E0000000000000 none) = .ok ⟨INT64_MAX, .set .ERANGE, []⟩ ∧
    getUint64 refLibc (.dbl 0x43F0000000000000 none) = .ok ⟨UINT64_MAX, .set .ERANGE, []⟩ ∧
    getInt64 refLibc (.dbl 0xC3E0000000000000 none) = .ok ⟨INT64_MIN, .set .none, []⟩ ∧
    getInt refLibc (.dbl 0x41DFFFFFFFE00000 none) = .ok ⟨INT32_MAX, .set .ERANGE, []⟩ ∧
    getInt64 refLibc (.str [32, 45, 52, 50, 120]) = .ok ⟨-42, .set .none, []⟩ ∧
    getUint64 refLibc (.str [9, 45, 49]) = .ok ⟨0, .set .EINVAL, []⟩ ∧
    intInc (.int false UINT64_MAX) (-1) = .ok (1, .int false 18446744073709551614) ∧
    intInc (.int true INT64_MAX) 1 = .ok (1, .int false 9223372036854775808) := by
  refine ⟨⟨fun _ => rfl, fun _ => rfl⟩, by decide, by decide, by decide, by decide, by decide, by decide, rfl, rfl⟩


/-- every source fact this property's model consumes was located in the current source by tools/extract (a fact that is not
found is emitted with a placeholder value; this obligation then fails and the check uses the reference model) -/
theorem source_facts_located_c10 : JsonC.Generated.factsFound_num = true := by decide

end JsonC.Num
