/-
  C12  JSON Pointer get/set resolve exactly per RFC 6901.

  Property theorems only.  Model: JsonC/Model/Pointer.lean (transcription of json_pointer.c: the
  path is a C string in an allocation, every read/write bounds-checked, every size_t subtraction
  wrap-checked).  Spec: JsonC/Spec/Rfc6901.lean (written from the RFC: `eval`, and json-c's documented
  `set`).  A node is identified by its position (child indices from the root).

  Conventions of the statements:
  * "no fault" (all string indexing inside the allocation, no size_t wrap, loops within their bound)
    is the `∃ r, f … = .ok r` of every statement;
  * `0 ∉ p`: pointers are C strings; `Sized t`: every array length fits `size_t`;
  * lookups need a document: `json_pointer_get(NULL, …)` is EINVAL (`get_null_document`), so a JSON
    null *document* cannot be handed to a lookup (a null member or element is a valid target);
  * `mem n`: "growing the target array so that it holds `n` slots succeeds" (realloc).

  Definitions used in the statements that live next to the lemmas about them:
  * `Sized t` (Lemmas/PointerTok.lean): every array node of `t` has length ≤ SIZE_MAX;
  * `nodeAt t pos`, `replaceAt`, `liveNodes` (Model/Pointer.lean): node at a position; tree with the
    node at a position replaced; number of `struct json_object`s of a subtree (null = none);
  * `AppendsToArray t p` (Lemmas/PointerSpec.lean): `p`'s last token is "-" and the tokens before it
    resolve to an array in `t`;
  * `displaced t p` (Lemmas/PointerSpec.lean): `liveNodes` of what RFC evaluation of `p` reaches in `t`
    (the whole of `t` for ""; 0 when `p` does not resolve);
  * `subst2`, `unescape`, `arrayIndex`, `eval`, `evalStrict`, `set`, `escapesWellFormed`: Spec/Rfc6901.lean.
-/
import JsonC.Lemmas.PointerSpec
import JsonC.Lemmas.TranslatedPtr

namespace JsonC.Pointer
open JsonC Generated Rfc6901

/-! ## The tie: facts regenerated from json_pointer.c on every run -/

/-- the unescape calls in source order ("~1" → '/' first, then "~0" → '~'), the index guards, the
strtoull conversion, the NULL-element path, vasprintf in the printf-style variants, and the widths
the model relies on.  A source change that alters one of them stops this theorem from checking. -/
theorem source_facts :
    ptrGetUnescape = [([126, 49], 47), ([126, 48], 126)] ∧
    ptrSetUnescape = [([126, 49], 47), ([126, 48], 126)] ∧
    ptrSetUnescapesCopy = true ∧ ptrIndexRejectsEmpty = true ∧ ptrIndexRejectsLeadingZero = true ∧
    ptrIndexUsesStrtoull = true ∧ ptrNullElementIsTarget = true ∧ ptrFmtViaVasprintf = true ∧
    sizeMax = ullongMax ∧ sizeofSizeT = sizeofUnsignedLongLong ∧ ptrIndexFieldBytes = 4 := by
  decide

/-! ## string_replace_all_occurrences_with_char -/

/-- The strstr/memmove loop, run on the C string `str` that sits at offset `pre.length` of an
allocation `pre ++ str ++ NUL ++ post`, for any two-byte pattern `a b` and replacement `r`: it does
not fault, the string becomes the left-to-right non-overlapping replacement `subst2 a b r str`
(NUL-terminated), the allocation keeps its size and nothing before the string or after its old
terminator is touched. -/
theorem replaceAll_correct (a b r : UInt8) (pre str post : Bytes) (h0 : (0 : UInt8) ∉ str) :
    ∃ junk, replaceC (pre ++ str ++ 0 :: post) pre.length [a, b] r
        = .ok (pre ++ subst2 a b r str ++ 0 :: (junk ++ post)) ∧
      junk.length + (subst2 a b r str).length = str.length :=
  replaceC_spec a b r pre str post h0 pre.length rfl

/-- The replace calls json_pointer_get_single_path / json_pointer_set_single_path make (as read off
the source) decode a token exactly as RFC 6901 §4 prescribes. -/
theorem unescape_correct (pre tok post : Bytes) (h0 : (0 : UInt8) ∉ tok) :
    (∃ junk, unescapeC ptrGetUnescape (pre ++ tok ++ 0 :: post) pre.length
        = .ok (pre ++ unescape tok ++ 0 :: (junk ++ post)) ∧ junk.length + (unescape tok).length = tok.length) ∧
    (∃ junk, unescapeC ptrSetUnescape (pre ++ tok ++ 0 :: post) pre.length
        = .ok (pre ++ unescape tok ++ 0 :: (junk ++ post)) ∧ junk.length + (unescape tok).length = tok.length) :=
  ⟨unescapeC_spec ptrGetUnescape rfl pre tok post h0 pre.length rfl,
   unescapeC_spec ptrSetUnescape rfl pre tok post h0 pre.length rfl⟩

/-- is_valid_index against the RFC's `array-index`: exactly the same tokens are accepted ("0" or a
digit string without leading zero; not "", not "-"), and the index is the token's value saturated at
SIZE_MAX (strtoull), never a wrapped one. -/
theorem index_iff_rfc (tok : Bytes) :
    (arrayIndex tok = none → isValidIndex tok = none) ∧
    (∀ v, arrayIndex tok = some v → ∃ e, isValidIndex tok = some (min v sizeMax, e) ∧ (e = true ↔ v > sizeMax)) :=
  ⟨isValidIndex_of_arrayIndex_none tok, isValidIndex_of_arrayIndex_some tok⟩

/-! ## Lookup -/

/-- json_pointer_get: for every document, every array-length-sane tree and every pointer byte string,
the call does not fault and succeeds exactly when RFC 6901 evaluation succeeds, then reporting the
very node (same position, same value — a JSON null member or element included); otherwise it fails
with ENOENT or EINVAL and `*res` is not written. -/
theorem get_iff_rfc (t : JVal) (p : Bytes) (ht : t ≠ .null) (hs : Sized t) (h0 : (0 : UInt8) ∉ p) :
    ∃ g, get t p = .ok g ∧
      match eval t p with
      | some (pos, v) => g.rc = 0 ∧ g.node = some (pos, v)
      | none => g.rc = -1 ∧ (g.errno = .ENOENT ∨ g.errno = .EINVAL) ∧ g.node = none := by
  obtain ⟨e1, e2⟩ := getTok_eval t p hs
  simp only [get, getInternal_eq t p ht h0, Outcome.bind_ok]
  cases he : eval t p with
  | none =>
    obtain ⟨e, hf, hee⟩ := e2 he
    rw [hf]
    exact ⟨_, rfl, rfl, hee, rfl⟩
  | some q =>
    obtain ⟨pos, v⟩ := q
    obtain ⟨h1, h2, h3⟩ := e1 pos v he
    have : ¬ (getTok t p).rc ≠ 0 := by rw [h1]; decide
    rw [if_neg this, h2, h3]
    exact ⟨_, rfl, rfl, rfl⟩

/-- json_pointer_get_internal: as `get_iff_rfc`, and on failure no field of the caller's result
record is written. -/
theorem getInternal_iff_rfc (t : JVal) (p : Bytes) (ht : t ≠ .null) (hs : Sized t) (h0 : (0 : UInt8) ∉ p) :
    ∃ r, getInternal t p = .ok r ∧
      match eval t p with
      | some (pos, v) => r.rc = 0 ∧ r.pos = pos ∧ r.val = v
      | none => ∃ e, r = GetRes.fail e ∧ (e = .ENOENT ∨ e = .EINVAL) := by
  obtain ⟨e1, e2⟩ := getTok_eval t p hs
  refine ⟨_, getInternal_eq t p ht h0, ?_⟩
  cases he : eval t p with
  | none => exact e2 he
  | some q => obtain ⟨pos, v⟩ := q; exact e1 pos v he

/-- The result record of a successful non-root lookup: `parent` is the node one step above the
target; for an array parent `index_in_parent` is the element's index truncated to the field's width
(32 bits) and `key_in_parent` is not written; for an object parent `key_in_parent` is the unescaped
last token and `index_in_parent` is not written. -/
theorem getInternal_record (t : JVal) (body : Bytes) (ht : t ≠ .null) (hs : Sized t)
    (h0 : (0 : UInt8) ∉ 47 :: body) (pos : List Nat) (v : JVal) (he : eval t (47 :: body) = some (pos, v)) :
    ∃ r ppos par i, getInternal t (47 :: body) = .ok r ∧ pos = ppos ++ [i] ∧ nodeAt t ppos = some par ∧
      r.parent = .set (some ppos) ∧
      ((∃ xs, par = .arr xs ∧ r.index = .set (toIndexField i) ∧ r.key = .unset) ∨
       (∃ kvs, par = .obj kvs ∧ r.key = .set (some (unescape ((splitSlash body).getLast?.getD []))) ∧
          r.index = .unset)) := by
  obtain ⟨ppos, par, i, hev, hst, hpos, hrec⟩ := getTok_record t body hs pos v he
  have hnode : nodeAt t ppos = some par := evalTokens_nodeAt _ t ppos par hev
  refine ⟨_, ppos, par, i, getInternal_eq t _ ht h0, hpos, hnode, ?_, ?_⟩
  · rw [hrec]; cases par <;> rfl
  · rw [hrec]
    cases par with
    | arr xs => exact Or.inl ⟨xs, rfl, rfl, rfl⟩
    | obj kvs =>
      refine Or.inr ⟨kvs, rfl, ?_, rfl⟩
      simp only [step, member_eq_lookupIdx] at hst
      simp only [finalRes, hst, Option.map_some]
    | _ => simp [step] at hst

/-- the index field is exact for every array of fewer than 2^32 elements … -/
theorem index_field_exact (i : Nat) (h : i < 4294967296) : toIndexField i = i := by
  unfold toIndexField
  have : 2 ^ (8 * ptrIndexFieldBytes) = 4294967296 := by decide
  rw [this]; exact Nat.mod_eq_of_lt h

/-- … and wraps beyond (clause `ptr.result.index-u32`: `uint32_t index_in_parent`, `size_t idx`). -/
theorem index_field_wraps : toIndexField 4294967297 = 1 := by decide

/-- json_pointer_get(NULL, path, …) is EINVAL whatever the path: the API has no way to pass a JSON
null document. -/
theorem get_null_document (p : Bytes) : get .null p = .ok { rc := -1, errno := .EINVAL } := rfl

/-- json_pointer_getf behaves as json_pointer_get on the formatted string (`out` = what vasprintf
produced), for every document, formatted string of any length, and outcome. -/
theorem getf_eq_get (t : JVal) (out : Bytes) (h0 : (0 : UInt8) ∉ out) : getf t out = get t out := by
  by_cases ht : t = .null
  · subst ht; rfl
  · have hg : getf t out = getfBody t out := by cases t <;> first | rfl | exact absurd rfl ht
    rw [hg, getfBody_eq t out h0]
    simp only [get, getInternal_eq t out ht h0, Outcome.bind_ok]
    split <;> rfl

/-! ## Set -/

/-- json_pointer_set: for every document (NULL included), pointer and value, the call does not fault
and agrees with the specification's set: it succeeds exactly when the location can be set (parent
resolves; member add-or-replace / index / "-" append; the array can grow), and then the document is
exactly the specification's (value at that location, an existing member keeping its position, a gap
filled with nulls) and `loc` is that location; otherwise rc = -1 and the document is unchanged. -/
theorem set_spec (mem : Nat → Bool) (t : JVal) (p : Bytes) (v : JVal) (hs : Sized t) (h0 : (0 : UInt8) ∉ p) :
    ∃ r, Pointer.set mem t p v = .ok r ∧
      match Rfc6901.set mem t p v with
      | some (t', loc) => r.rc = 0 ∧ r.tree = t' ∧ r.loc = some loc ∧ r.owned = true
      | none => r.rc = -1 ∧ r.tree = t ∧ r.loc = none ∧ r.owned = false ∧ r.freed = 0 := by
  refine ⟨_, set_eq mem t p v h0, ?_⟩
  have := setTok_spec mem t p v hs
  cases hsp : Rfc6901.set mem t p v with
  | none => rw [hsp] at this; exact this
  | some q => obtain ⟨t', loc⟩ := q; rw [hsp] at this; exact this

/-- Frame: a successful set puts the value at its location and changes nothing else — every node of
the old document that is neither on the path to the location nor inside the replaced subtree is
still there, at the same position, with the same value (so siblings keep their order and position). -/
theorem set_frame (mem : Nat → Bool) (t : JVal) (p : Bytes) (v : JVal) (hs : Sized t) (h0 : (0 : UInt8) ∉ p)
    (r : SetRes) (hr : Pointer.set mem t p v = .ok r) (hrc : r.rc = 0) :
    ∃ loc, r.loc = some loc ∧ nodeAt r.tree loc = some v ∧
      ∀ q x, nodeAt t q = some x → ¬ loc <+: q → ¬ q <+: loc → nodeAt r.tree q = some x := by
  rw [set_eq mem t p v h0] at hr
  injection hr with hr
  subst hr
  exact setTok_frame mem t p v hs hrc

/-- A lookup of the same pointer after a successful set returns the value just set (the very
location) — except for the append token "-" on an array, which names no element. -/
theorem set_then_get (mem : Nat → Bool) (t : JVal) (p : Bytes) (v : JVal) (hs : Sized t) (h0 : (0 : UInt8) ∉ p)
    (r : SetRes) (hr : Pointer.set mem t p v = .ok r) (hrc : r.rc = 0) (hdoc : r.tree ≠ .null)
    (hnd : ¬ AppendsToArray t p) :
    ∃ loc, r.loc = some loc ∧ get r.tree p = .ok { rc := 0, node := some (loc, v) } := by
  rw [set_eq mem t p v h0] at hr
  injection hr with hr
  subst hr
  obtain ⟨loc, hl, g1, g2, g3⟩ := setTok_then_get mem t p v hs hrc hnd
  refine ⟨loc, hl, ?_⟩
  simp only [get, getInternal_eq _ p hdoc h0, Outcome.bind_ok]
  have : ¬ (getTok (setTok mem t p v).tree p).rc ≠ 0 := by rw [g1]; decide
  rw [if_neg this, g2, g3]
  rfl

/-- Ownership: the tree owns the value exactly when the call returned 0.  On failure nothing is
released and the document is untouched (the caller still owns the value); on success exactly the
nodes of the displaced subtree are released (the node RFC evaluation of the pointer reached in the
old document; the whole old document for ""; nothing when a member or element is created) and the
value sits in the document at `loc`. -/
theorem set_ownership (mem : Nat → Bool) (t : JVal) (p : Bytes) (v : JVal) (hs : Sized t) (h0 : (0 : UInt8) ∉ p) :
    ∃ r, Pointer.set mem t p v = .ok r ∧ (r.rc = 0 ∨ r.rc = -1) ∧ (r.owned = true ↔ r.rc = 0) ∧
      (r.rc ≠ 0 → r.tree = t ∧ r.freed = 0 ∧ r.loc = none) ∧
      (r.rc = 0 → r.freed = displaced t p ∧ ∃ loc, r.loc = some loc ∧ nodeAt r.tree loc = some v) := by
  refine ⟨_, set_eq mem t p v h0, ?_⟩
  have hag := setTok_spec mem t p v hs
  have hfr := setTok_freed mem t p v hs
  have hfm := setTok_frame mem t p v hs
  cases hsp : Rfc6901.set mem t p v with
  | none =>
    rw [hsp] at hag
    obtain ⟨a1, a2, a3, a4, a5⟩ := hag
    refine ⟨Or.inr a1, ?_, fun _ => ⟨a2, a5, a3⟩, fun h => ?_⟩
    · rw [a1, a4]; decide
    · rw [a1] at h; cases h
  | some q =>
    obtain ⟨t', loc⟩ := q
    rw [hsp] at hag
    obtain ⟨a1, a2, a3, a4⟩ := hag
    refine ⟨Or.inl a1, ?_, fun h => absurd a1 h, fun _ => ?_⟩
    · rw [a1, a4]; decide
    · obtain ⟨loc', l1, l2, _⟩ := hfm a1
      exact ⟨hfr a1, loc', l1, l2⟩

/-- json_pointer_setf behaves as json_pointer_set on the formatted string. -/
theorem setf_eq_set (mem : Nat → Bool) (t : JVal) (out : Bytes) (v : JVal) (h0 : (0 : UInt8) ∉ out) :
    setf mem t out v = Pointer.set mem t out v := by
  rw [setf_eq mem t out v h0, set_eq mem t out v h0]

/-! ## Strict reading of the RFC's ABNF (`~` must be followed by `0` or `1`) -/

/-- On every pointer whose escapes conform to the ABNF, the evaluation used above is the strict RFC
evaluation; so `get_iff_rfc` holds for `evalStrict` on those pointers … -/
theorem get_iff_rfc_strict_partial (t : JVal) (p : Bytes) (ht : t ≠ .null) (hs : Sized t) (h0 : (0 : UInt8) ∉ p)
    (hwf : escapesWellFormed p = true) :
    ∃ g, get t p = .ok g ∧
      match evalStrict t p with
      | some (pos, v) => g.rc = 0 ∧ g.node = some (pos, v)
      | none => g.rc = -1 ∧ (g.errno = .ENOENT ∨ g.errno = .EINVAL) ∧ g.node = none := by
  have : evalStrict t p = eval t p := by simp [evalStrict, hwf]
  rw [this]; exact get_iff_rfc t p ht hs h0

/-- the full-strength statement for the strict reading (not proved: see the counter-example) -/
def getIffRfcStrictStatement : Prop :=
  ∀ (t : JVal) (p : Bytes), t ≠ .null → Sized t → (0 : UInt8) ∉ p →
    ∃ g, get t p = .ok g ∧
      match evalStrict t p with
      | some (pos, v) => g.rc = 0 ∧ g.node = some (pos, v)
      | none => g.rc = -1 ∧ (g.errno = .ENOENT ∨ g.errno = .EINVAL) ∧ g.node = none

/-- … while on a non-conformant pointer the code is lenient (clause `ptr.escape.tilde-literal`):
`get {"a~2": true} "/a~2"` succeeds although the pointer is not a JSON Pointer by the ABNF. -/
theorem strict_counterexample :
    evalStrict (.obj [([97, 126, 50], .bool true)]) [47, 97, 126, 50] = none ∧
    (match get (.obj [([97, 126, 50], .bool true)]) [47, 97, 126, 50] with
     | .ok g => g.rc
     | .fault _ => 1) = 0 := by
  decide

/-! ## Non-vacuity -/

/-- observable summary of a lookup: return code, errno, position reported -/
def gotSummary (o : Outcome Got) : Option (Int × Errno × Option (List Nat)) :=
  match o with
  | .ok g => some (g.rc, g.errno, g.node.map (·.1))
  | .fault _ => none

/-- observable summary of a set: return code, location, nodes released -/
def setSummary (o : Outcome SetRes) : Option (Int × Option (List Nat) × Nat) :=
  match o with
  | .ok r => some (r.rc, r.loc, r.freed)
  | .fault _ => none

/-- the follow-up lookup of `p` in the document a set left behind -/
def followSummary (p : Bytes) (o : Outcome SetRes) : Option (Int × Errno × Option (List Nat)) :=
  match o with
  | .ok r => gotSummary (get r.tree p)
  | .fault _ => none

/-- `{"a/b": [null, {"~": 7}], "": 1}` -/
def exDoc : JVal := .obj [([97, 47, 98], .arr [.null, .obj [([126], .int true 7)]]), ([], .int true 1)]

/-- a concrete instance on `exDoc`: the pointer "/a~1b/1/~0" reaches the 7
at position [0,1,0]; "/a~1b/0" reaches the null element; setting "/a~1b/1/~0" replaces it in place
(one node released) and the follow-up lookup finds the new value; the append token after "/a~1b"
appends at [0,2] (and does not resolve afterwards); "/a~1b/01" is refused with EINVAL. -/
example :
    gotSummary (get exDoc [47, 97, 126, 49, 98, 47, 49, 47, 126, 48]) = some (0, .none, some [0, 1, 0]) ∧
    gotSummary (get exDoc [47, 97, 126, 49, 98, 47, 48]) = some (0, .none, some [0, 0]) ∧
    setSummary (Pointer.set (fun _ => true) exDoc [47, 97, 126, 49, 98, 47, 49, 47, 126, 48] (.bool false))
      = some (0, some [0, 1, 0], 1) ∧
    followSummary [47, 97, 126, 49, 98, 47, 49, 47, 126, 48]
        (Pointer.set (fun _ => true) exDoc [47, 97, 126, 49, 98, 47, 49, 47, 126, 48] (.bool false))
      = some (0, .none, some [0, 1, 0]) ∧
    setSummary (Pointer.set (fun _ => true) exDoc [47, 97, 126, 49, 98, 47, 45] .null) = some (0, some [0, 2], 0) ∧
    followSummary [47, 97, 126, 49, 98, 47, 45] (Pointer.set (fun _ => true) exDoc [47, 97, 126, 49, 98, 47, 45] .null)
      = some (-1, .EINVAL, none) ∧
    gotSummary (get exDoc [47, 97, 126, 49, 98, 47, 48, 49]) = some (-1, .EINVAL, none) := by
  refine ⟨?_, ?_, ?_, ?_, ?_, ?_, ?_⟩ <;> decide


/-- every source fact this property's model consumes was located in the current source by tools/extract (a fact that is not
found is emitted with a placeholder value; this obligation then fails and the check uses the reference model) -/
theorem source_facts_located_c12 : JsonC.Generated.factsFound_ptr = true := by decide

end JsonC.Pointer
