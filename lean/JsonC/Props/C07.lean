import JsonC.Model.Arraylist
import JsonC.Spec.Seq
namespace JsonC.Arraylist
theorem stub : True := trivial
end JsonC.Arraylist
