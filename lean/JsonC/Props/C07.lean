/-
  C07  A JSON array behaves as a sequence with null gaps under any operation history.

  Property theorems only.  Model: JsonC/Model/Arraylist.lean (transcription of arraylist.c over
  `size_t` with every wrap, bounds and initialisation check explicit; `free_fn` calls logged; the
  allocator, qsort and bsearch are parameters).  Spec: JsonC/Spec/Seq.lean (a plain `List (Option Id)`).
  `Rep a s` (Lemmas) = "list state `a` represents sequence `s`" is both the representation invariant
  and the abstraction relation.  "No fault" (= no size_t wrap, no access outside the allocation, no
  read of an uninitialised slot) is the `∃ r, … = .ok r` in every statement.  Nothing is assumed of
  the allocator: a refused request is one of the ways a call may fail (leaving everything unchanged).
-/
import JsonC.Lemmas.TranslatedCtor
import JsonC.Lemmas.Arraylist
import JsonC.Lemmas.TranslatedAl

namespace JsonC.Arraylist
open JsonC Generated
open JsonC.Seq (Seq maxLen)

/-! ## Each function refines the list specification -/

theorem putIdx_refines (alloc : Alloc) (a : Al) (s : Seq) (h : Rep a s) (idx : Nat)
    (hidx : idx ≤ SIZE_T_MAX) (data : Elem) :
    ∃ r, putIdx alloc a idx data = .ok r ∧
      ((r.ret = 0 ∧ Rep r.al (Seq.put s idx data) ∧ r.released = Seq.putReleased s idx ∧
          Seq.fits (idx + 1) ≠ .mustRefuse) ∨
       (r.ret = -1 ∧ r.al = a ∧ r.released = [] ∧
          (Seq.fits (idx + 1) ≠ .mustServe ∨ ∃ b, alloc b = false))) := by
  obtain ⟨-, -, hPG, hPN, -⟩ := consts
  have hdbl := maxLen_double
  unfold putIdx
  rw [hPG, hPN]
  by_cases h0 : idx > SIZE_T_MAX - 1
  · rw [if_pos h0]
    exact ⟨_, rfl, Or.inr ⟨rfl, rfl, rfl, Or.inl (fits_gt _ (by omega))⟩⟩
  · rw [if_neg h0, ckSize_ok _ _ (by omega)]
    simp only [Outcome.bind_ok]
    obtain ⟨a1, rc, he, hcase⟩ := expand_spec alloc a s h (idx + 1) (by omega)
    rw [he]; simp only [Outcome.bind_ok]
    rcases hcase with ⟨hrc, h1, hsz, hlen, -, -⟩ | ⟨hrc, ha1, hge, hwhy⟩
    · subst hrc
      rw [if_neg (by simp)]
      obtain ⟨t, ht⟩ := h1.slots
      have hl1 := h1.length
      have hs1 := h1.size
      have hc1 := h1.cap
      by_cases hin : idx < s.length
      · -- overwrite
        rw [if_pos (by omega), h1.read idx hin]
        simp only [Outcome.bind_ok, Outcome.pure_eq]
        unfold writeSlot
        rw [if_pos (by omega)]
        simp only [Outcome.bind_ok]
        rw [if_neg (by omega), if_neg (by simp; omega)]
        refine ⟨_, rfl, Or.inl ⟨rfl, ?_, ?_, fits_le _ (by omega)⟩⟩
        · unfold Seq.put; rw [if_pos hin]
          refine ⟨⟨t, ?_⟩, ?_, ?_, ?_⟩
          · simp only []
            rw [ht, List.set_append, if_pos (by simpa using hin), List.map_set]
          · simp only []; rw [hl1]; simp
          · simp only []; rw [hs1]; simp
          · exact hc1
        · exact (putReleased_eq s idx hin).symm
      · -- at or beyond the end
        rw [if_neg (by omega)]
        simp only [Outcome.bind_ok, Outcome.pure_eq]
        unfold writeSlot
        rw [if_pos (by omega)]
        simp only [Outcome.bind_ok]
        have hset : a1.slots.set idx (Slot.val data) =
            s.map Slot.val ++ t.set (idx - s.length) (Slot.val data) := by
          rw [ht, List.set_append, if_neg (by simp; omega)]; simp
        have htl : idx - s.length < t.length := by
          have : a1.slots.length = s.length + t.length := by rw [ht]; simp
          omega
        have hfinal : ∀ slots' : List Slot,
            slots' = s.map Slot.val ++ List.replicate (idx - s.length) (Slot.val none) ++
              Slot.val data :: t.drop (idx - s.length + 1) →
            Rep { slots := slots', length := idx + 1, size := a1.size } (Seq.put s idx data) := by
          intro slots' hs'
          unfold Seq.put; rw [if_neg hin]
          refine ⟨⟨t.drop (idx - s.length + 1), ?_⟩, ?_, ?_, hc1⟩
          · simp only []; rw [hs']; simp
          · simp; omega
          · simp only []; rw [hs', hs1, ht]; simp; omega
        by_cases hgap : idx > s.length
        · rw [if_pos (by simp; omega)]
          rw [ckSub_ok _ _ _ (by omega)]
          simp only [Outcome.bind_ok]
          rw [ckSize_ok _ _ (mul_ptr_le _ (by omega))]
          simp only [Outcome.bind_ok]
          unfold memsetNull
          rw [if_pos (by simp; omega)]
          simp only [Outcome.bind_ok]
          rw [if_pos (by omega), ckSize_ok _ _ (by omega)]
          simp only [Outcome.bind_ok]
          refine ⟨_, rfl, Or.inl ⟨rfl, ?_, (putReleased_ge s idx (by omega)).symm, fits_le _ (by omega)⟩⟩
          apply hfinal
          rw [hset, hl1]
          have := put_shape (s.map Slot.val) t (idx - s.length) (Slot.val data) htl
          simp only [List.length_map] at this
          exact this
        · rw [if_neg (by simp; omega)]
          try simp only [Outcome.bind_ok, Outcome.pure_eq]
          rw [if_pos (by first | omega | (simp; omega)), ckSize_ok _ _ (by omega)]
          simp only [Outcome.bind_ok]
          refine ⟨_, rfl, Or.inl ⟨rfl, ?_, (putReleased_ge s idx (by omega)).symm, fits_le _ (by omega)⟩⟩
          apply hfinal
          rw [hset]
          have e : idx - s.length = 0 := by omega
          rw [e]
          have := drop_set_self t 0 (Slot.val data) (by omega)
          simp only [List.drop_zero] at this
          rw [this]; simp
    · subst hrc; subst ha1
      rw [if_pos (by simp)]
      refine ⟨_, rfl, Or.inr ⟨rfl, rfl, rfl, ?_⟩⟩
      rcases hwhy with hw | hw | hw
      · exact Or.inl (fits_gt _ (by omega))
      · exact Or.inl (fits_gt _ (by omega))
      · exact Or.inr hw

theorem add_refines (alloc : Alloc) (a : Al) (s : Seq) (h : Rep a s) (data : Elem) :
    ∃ r, add alloc a data = .ok r ∧
      ((r.ret = 0 ∧ Rep r.al (Seq.add s data) ∧ r.released = [] ∧
          Seq.fits (s.length + 1) ≠ .mustRefuse) ∨
       (r.ret = -1 ∧ r.al = a ∧ r.released = [] ∧
          (Seq.fits (s.length + 1) ≠ .mustServe ∨ ∃ b, alloc b = false))) := by
  obtain ⟨-, -, -, -, hAG, hAN, -⟩ := consts
  have hdbl := maxLen_double
  have hle := h.le
  have hcap := h.cap
  have hlen := h.length
  unfold add
  simp only []
  rw [hAG, hAN, if_neg (by omega), ckSize_ok _ _ (by omega)]
  simp only [Outcome.bind_ok]
  obtain ⟨a1, rc, he, hcase⟩ := expand_spec alloc a s h (a.length + 1) (by omega)
  rw [he]; simp only [Outcome.bind_ok]
  rcases hcase with ⟨hrc, h1, hsz, hlen1, -, -⟩ | ⟨hrc, ha1, hge, hwhy⟩
  · subst hrc
    rw [if_neg (by simp)]
    obtain ⟨t, ht⟩ := h1.slots
    have hs1 := h1.size
    have hc1 := h1.cap
    have htl : 0 < t.length := by
      have : a1.slots.length = s.length + t.length := by rw [ht]; simp
      omega
    unfold writeSlot
    rw [if_pos (by omega)]
    simp only [Outcome.bind_ok]
    rw [ckSize_ok _ _ (by omega)]
    simp only [Outcome.bind_ok]
    refine ⟨_, rfl, Or.inl ⟨rfl, ?_, rfl, fits_le _ (by omega)⟩⟩
    refine ⟨⟨t.drop 1, ?_⟩, ?_, ?_, hc1⟩
    · simp only []
      rw [ht, hlen, List.set_append, if_neg (by simp)]
      have := drop_set_self t 0 (Slot.val data) htl
      simp only [List.drop_zero] at this
      simp [Seq.add, this]
    · simp [Seq.add]; omega
    · simp only []; rw [hs1]; simp
  · subst hrc; subst ha1
    rw [if_pos (by simp)]
    refine ⟨_, rfl, Or.inr ⟨rfl, rfl, rfl, ?_⟩⟩
    rcases hwhy with hw | hw | hw
    · exact Or.inl (fits_gt _ (by omega))
    · exact Or.inl (fits_gt _ (by omega))
    · exact Or.inr hw

theorem insertIdx_refines (alloc : Alloc) (a : Al) (s : Seq) (h : Rep a s) (idx : Nat)
    (hidx : idx ≤ SIZE_T_MAX) (data : Elem) :
    ∃ r, insertIdx alloc a idx data = .ok r ∧
      ((r.ret = 0 ∧ Rep r.al (Seq.insert s idx data) ∧ r.released = [] ∧
          Seq.fits (max (idx + 1) (s.length + 1)) ≠ .mustRefuse) ∨
       (r.ret = -1 ∧ r.al = a ∧ r.released = [] ∧
          (Seq.fits (max (idx + 1) (s.length + 1)) ≠ .mustServe ∨ ∃ b, alloc b = false))) := by
  obtain ⟨-, -, -, -, -, -, hIN, -⟩ := consts
  have hdbl := maxLen_double
  have hle := h.le
  have hcap := h.cap
  have hlen := h.length
  unfold insertIdx
  by_cases hin : idx ≥ a.length
  · rw [if_pos hin]
    obtain ⟨r, hr, hcase⟩ := putIdx_refines alloc a s h idx hidx data
    have hmax : max (idx + 1) (s.length + 1) = idx + 1 := by omega
    have hins : Seq.insert s idx data = Seq.put s idx data := by
      unfold Seq.insert; rw [if_neg (by omega)]
    rw [hmax, hins]
    refine ⟨r, hr, ?_⟩
    rcases hcase with ⟨h1, h2, h3, h4⟩ | hc
    · exact Or.inl ⟨h1, h2, by rw [h3, putReleased_ge s idx (by omega)], h4⟩
    · exact Or.inr hc
  · rw [if_neg hin, if_neg (by omega), hIN, ckSize_ok _ _ (by omega)]
    have hmax : max (idx + 1) (s.length + 1) = s.length + 1 := by omega
    rw [hmax]
    simp only [Outcome.bind_ok]
    obtain ⟨a1, rc, he, hcase⟩ := expand_spec alloc a s h (a.length + 1) (by omega)
    rw [he]; simp only [Outcome.bind_ok]
    rcases hcase with ⟨hrc, h1, hsz, hlen1, -, -⟩ | ⟨hrc, ha1, hge, hwhy⟩
    · subst hrc
      rw [if_neg (by simp)]
      obtain ⟨t, ht⟩ := h1.slots
      have hs1 := h1.size
      have hc1 := h1.cap
      have htl : 0 < t.length := by
        have : a1.slots.length = s.length + t.length := by rw [ht]; simp
        omega
      rw [ckSub_ok _ _ _ (by omega)]
      simp only [Outcome.bind_ok]
      rw [ckSize_ok _ _ (mul_ptr_le _ (by omega))]
      simp only [Outcome.bind_ok]
      unfold memmoveSlots
      rw [if_pos (by omega)]
      simp only [Outcome.bind_ok]
      -- the allocation as prefix ++ shifted part ++ tail
      have hsplit : a1.slots = (s.take idx).map Slot.val ++ (s.drop idx).map Slot.val ++ t := by
        rw [ht, ← List.map_append, List.take_append_drop]
      have hP : ((s.take idx).map Slot.val).length = idx := by simp; omega
      have hR : ((s.drop idx).map Slot.val).length = a1.length - idx := by simp; omega
      have hshape := insert_shape ((s.take idx).map Slot.val) ((s.drop idx).map Slot.val) t (Slot.val data) htl
      rw [hP, hR, ← hsplit] at hshape
      unfold writeSlot
      rw [if_pos (by simp; omega)]
      simp only [Outcome.bind_ok]
      rw [ckSize_ok _ _ (by first | omega | (simp; omega))]
      simp only [Outcome.bind_ok]
      refine ⟨_, rfl, Or.inl ⟨rfl, ?_, rfl, fits_le _ (by omega)⟩⟩
      refine ⟨⟨t.drop 1, ?_⟩, ?_, ?_, hc1⟩
      · simp only []
        rw [hshape]
        unfold Seq.insert; rw [if_pos (by omega)]
        simp
      · simp only []
        unfold Seq.insert; rw [if_pos (by omega)]
        simp; omega
      · simp only []
        rw [hshape, hs1, hsplit]; simp; omega
    · subst hrc; subst ha1
      rw [if_pos (by simp)]
      refine ⟨_, rfl, Or.inr ⟨rfl, rfl, rfl, ?_⟩⟩
      rcases hwhy with hw | hw | hw
      · exact Or.inl (fits_gt _ (by omega))
      · exact Or.inl (fits_gt _ (by omega))
      · exact Or.inr hw

theorem delIdx_refines (a : Al) (s : Seq) (h : Rep a s) (idx count : Nat)
    (hcount : count ≤ SIZE_T_MAX) :
    ∃ r, delIdx a idx count = .ok r ∧
      ((Seq.delOk s idx count = true ∧ r.ret = 0 ∧ Rep r.al (Seq.del s idx count) ∧
          r.released = Seq.delReleased s idx count ∧ r.al.size = a.size) ∨
       (Seq.delOk s idx count = false ∧ r.ret = -1 ∧ r.al = a ∧ r.released = [])) := by
  have hdbl := maxLen_double
  have hle := h.le
  have hcap := h.cap
  have hlen := h.length
  unfold delIdx
  rw [ckSub_ok _ _ _ hcount]
  simp only [Outcome.bind_ok]
  by_cases h0 : idx > SIZE_T_MAX - count
  · rw [if_pos h0]
    refine ⟨_, rfl, Or.inr ⟨?_, rfl, rfl, rfl⟩⟩
    simp [Seq.delOk]; omega
  · rw [if_neg h0, ckSize_ok _ _ (by omega)]
    simp only [Outcome.bind_ok]
    by_cases h1 : idx ≥ a.length ∨ idx + count > a.length
    · rw [if_pos h1]
      refine ⟨_, rfl, Or.inr ⟨?_, rfl, rfl, rfl⟩⟩
      simp [Seq.delOk]; omega
    · rw [if_neg h1]
      have hok : Seq.delOk s idx count = true := by simp [Seq.delOk]; omega
      have e1 : idx + count - idx = count := by omega
      rw [e1, h.releaseLoop count idx (by omega)]
      simp only [Outcome.bind_ok]
      rw [ckSub_ok _ _ _ (by omega)]
      simp only [Outcome.bind_ok]
      rw [ckSize_ok _ _ (mul_ptr_le _ (by omega))]
      simp only [Outcome.bind_ok]
      unfold memmoveSlots
      rw [if_pos (by rw [← h.size]; omega)]
      simp only [Outcome.bind_ok]
      rw [ckSub_ok _ _ _ (by omega)]
      simp only [Outcome.bind_ok]
      obtain ⟨t, ht⟩ := h.slots
      -- the allocation as kept prefix ++ deleted ++ moved ++ tail
      have hsplit : a.slots = (s.take idx).map Slot.val ++ ((s.drop idx).take count).map Slot.val ++
          (s.drop (idx + count)).map Slot.val ++ t := by
        rw [ht, ← List.map_append, ← List.map_append]
        congr 2
        rw [List.append_assoc]
        have : (s.drop idx).take count ++ s.drop (idx + count) = s.drop idx := by
          rw [← List.drop_drop, List.take_append_drop]
        rw [this, List.take_append_drop]
      have hP : ((s.take idx).map Slot.val).length = idx := by simp; omega
      have hD : (((s.drop idx).take count).map Slot.val).length = count := by simp; omega
      have hR : ((s.drop (idx + count)).map Slot.val).length = a.length - (idx + count) := by simp; omega
      have hshape := delete_shape ((s.take idx).map Slot.val) (((s.drop idx).take count).map Slot.val)
        ((s.drop (idx + count)).map Slot.val) t
      rw [hP, hD, hR, ← hsplit] at hshape
      refine ⟨_, rfl, Or.inl ⟨hok, rfl, ?_, rfl, rfl⟩⟩
      refine ⟨⟨List.drop (a.length - (idx + count)) (((s.drop idx).take count).map Slot.val ++
          (s.drop (idx + count)).map Slot.val ++ t), ?_⟩, ?_, ?_, hcap⟩
      · simp only []
        rw [hshape]
        unfold Seq.del
        rw [List.map_append]
      · simp only []
        unfold Seq.del
        simp; omega
      · simp only []
        rw [hshape, h.size, hsplit]
        simp; omega

theorem getIdx_refines (a : Al) (s : Seq) (h : Rep a s) (i : Nat) :
    getIdx a i = .ok (Seq.get s i) := by
  unfold getIdx Seq.get
  by_cases hi : i ≥ a.length
  · rw [if_pos hi, List.getElem?_eq_none (by rw [← h.length]; exact hi)]
  · rw [if_neg hi, h.read i (by rw [← h.length]; omega), List.getElem?_eq_getElem (by rw [← h.length]; omega)]

theorem free_refines (a : Al) (s : Seq) (h : Rep a s) :
    free a = .ok (Seq.freeReleased s) := by
  unfold free
  rw [h.readRange]
  simp only [Outcome.bind_ok, Outcome.pure_eq]
  rw [flatMap_releaseOf]; rfl

theorem sort_refines (qs : List Elem → List Elem) (a : Al) (s : Seq) (h : Rep a s)
    (hq : (qs s).length = s.length) :
    ∃ r, sort qs a = .ok r ∧ r.ret = 0 ∧ Rep r.al (qs s) ∧ r.released = [] ∧ r.al.size = a.size := by
  unfold sort
  rw [h.readRange]
  simp only [Outcome.bind_ok]
  rw [if_neg (by simpa using hq)]
  refine ⟨_, rfl, rfl, ?_, rfl, rfl⟩
  obtain ⟨t, ht⟩ := h.slots
  refine ⟨⟨t, ?_⟩, ?_, ?_, h.cap⟩
  · simp only []
    rw [ht, h.length, List.drop_left' (by simp)]
  · simp only []; rw [hq, h.length]
  · simp only []
    rw [h.size, ht, h.length, List.drop_left' (by simp)]
    simp [hq]

theorem shrink_refines (alloc : Alloc) (a : Al) (s : Seq) (h : Rep a s) (n : Nat) :
    ∃ r, shrink alloc a n = .ok r ∧ Rep r.al s ∧ r.released = [] ∧
      ((r.ret = 0 ∧ s.length + n ≤ r.al.size ∧ Seq.fits (s.length + n) ≠ .mustRefuse) ∨
       (r.ret = -1 ∧ r.al = a ∧ (Seq.fits (s.length + n) ≠ .mustServe ∨ ∃ b, alloc b = false))) := by
  obtain ⟨-, -, -, -, -, -, -, hSM⟩ := consts
  have hdbl := maxLen_double
  have hpos := maxLen_pos
  have hle := h.le
  have hcap := h.cap
  have hlen := h.length
  unfold shrink
  rw [← maxLen_def, ckSub_ok _ _ _ (by omega)]
  simp only [Outcome.bind_ok]
  by_cases h0 : n ≥ maxLen - a.length
  · rw [if_pos h0]
    exact ⟨_, rfl, h, rfl, Or.inr ⟨rfl, rfl, Or.inl (fits_gt _ (by omega))⟩⟩
  · rw [if_neg h0, ckSize_ok _ _ (by omega)]
    simp only [Outcome.bind_ok]
    by_cases h1 : a.length + n = a.size
    · rw [if_pos h1]
      exact ⟨_, rfl, h, rfl, Or.inl ⟨rfl, by simp only []; omega, fits_le _ (by omega)⟩⟩
    · rw [if_neg h1]
      by_cases h2 : a.length + n > a.size
      · rw [if_pos h2]
        obtain ⟨a1, rc, he, hcase⟩ := expand_spec alloc a s h (a.length + n) (by omega)
        rw [he]; simp only [Outcome.bind_ok, Outcome.pure_eq]
        rcases hcase with ⟨hrc, h1', hsz, -, -, -⟩ | ⟨hrc, ha1, hge, hwhy⟩
        · subst hrc
          exact ⟨_, rfl, h1', rfl, Or.inl ⟨rfl, by simp only []; omega, fits_le _ (by omega)⟩⟩
        · subst hrc; subst ha1
          refine ⟨_, rfl, h, rfl, Or.inr ⟨rfl, rfl, ?_⟩⟩
          rcases hwhy with hw | hw | hw
          · exact Or.inl (fits_gt _ (by omega))
          · exact Or.inl (fits_gt _ (by omega))
          · exact Or.inr hw
      · rw [if_neg h2, hSM]
        generalize hns : (if a.length + n = 0 then 1 else a.length + n) = ns
        have hns1 : a.length + n ≤ ns ∧ 1 ≤ ns ∧ ns ≤ a.size := by rw [← hns]; split <;> omega
        rw [ckSize_ok _ _ (mul_ptr_le _ (by omega))]
        simp only [Outcome.bind_ok]
        rw [if_neg (mul_ptr_pos _ (by omega))]
        by_cases h3 : alloc (ns * PTR) = true
        · rw [if_pos h3]
          refine ⟨_, rfl, ?_, rfl, Or.inl ⟨rfl, by simp only []; omega, fits_le _ (by omega)⟩⟩
          obtain ⟨t, ht⟩ := h.slots
          have hsz := h.size
          have hre : reallocSlots a.slots ns = a.slots.take ns := by
            unfold reallocSlots
            have : ns - a.slots.length = 0 := by omega
            rw [this]; simp
          refine ⟨⟨t.take (ns - s.length), ?_⟩, hlen, ?_, by simp only []; omega⟩
          · simp only []
            rw [hre, ht, List.take_append, List.take_of_length_le (by simp; omega)]
            simp
          · simp only []
            rw [hre]; simp; omega
        · rw [if_neg h3]
          exact ⟨_, rfl, h, rfl, Or.inr ⟨rfl, rfl, Or.inr ⟨_, by simpa using h3⟩⟩⟩

theorem new2_refines (alloc : Alloc) (cap : Int) :
    ∃ r, new2 alloc cap = .ok r ∧
      ((∃ a, r = some a ∧ Rep a [] ∧ a.size = cap.toNat ∧ 0 ≤ cap) ∨
       (r = none ∧ (cap < 0 ∨ cap.toNat ≥ maxLen ∨ ∃ b, alloc b = false))) := by
  unfold new2
  rw [← maxLen_def]
  by_cases h0 : cap < 0 ∨ cap.toNat ≥ maxLen
  · rw [if_pos h0]
    refine ⟨_, rfl, Or.inr ⟨rfl, ?_⟩⟩
    rcases h0 with h0 | h0
    · exact Or.inl h0
    · exact Or.inr (Or.inl h0)
  · rw [if_neg h0]
    simp only []
    rw [ckSize_ok _ _ (mul_ptr_le _ (by omega))]
    simp only [Outcome.bind_ok]
    by_cases h3 : alloc (cap.toNat * PTR) = true
    · rw [if_pos h3]
      refine ⟨_, rfl, Or.inl ⟨_, rfl, ⟨⟨List.replicate cap.toNat .uninit, by simp⟩, rfl, by simp, by simp only []; omega⟩, rfl, by omega⟩⟩
    · rw [if_neg h3]
      exact ⟨_, rfl, Or.inr ⟨rfl, Or.inr (Or.inr ⟨_, by simpa using h3⟩)⟩⟩

/-- the ISO C contract of `bsearch` for the comparator `le`, plus memory safety of the result
on any array (every real `bsearch` returns NULL or the address of an element it looked at) -/
structure BsearchContract (le : Elem → Elem → Bool) (bs : Elem → List Elem → Option Nat) : Prop where
  inRange : ∀ k xs i, bs k xs = some i → i < xs.length
  sound : ∀ k xs i, Seq.Sorted le xs → bs k xs = some i → ∃ e, xs[i]? = some e ∧ Seq.equiv le k e = true
  complete : ∀ k xs, Seq.Sorted le xs → bs k xs = none → ∀ e ∈ xs, Seq.equiv le k e = false

theorem bsearch_refines (le : Elem → Elem → Bool) (bs : Elem → List Elem → Option Nat)
    (hb : BsearchContract le bs) (key : Elem) (a : Al) (s : Seq) (h : Rep a s) :
    ∃ r, bsearch bs key a = .ok r ∧ r.al = a ∧ r.released = [] ∧
      ((r.ret = 1 ∧ ∃ i, r.pos = some i ∧ s[i]? = some r.val ∧ (Seq.Sorted le s → Seq.equiv le key r.val = true)) ∨
       (r.ret = 0 ∧ r.val = none ∧ r.pos = none ∧ (Seq.Sorted le s → ∀ e ∈ s, Seq.equiv le key e = false))) := by
  unfold bsearch
  rw [h.readRange]
  simp only [Outcome.bind_ok]
  cases hbs : bs key s with
  | none =>
    simp only []
    exact ⟨_, rfl, rfl, rfl, Or.inr ⟨rfl, rfl, rfl, fun hs => hb.complete key s hs hbs⟩⟩
  | some i =>
    simp only []
    have hi := hb.inRange key s i hbs
    rw [List.getElem?_eq_getElem hi]
    simp only []
    refine ⟨_, rfl, rfl, rfl, Or.inl ⟨rfl, i, rfl, List.getElem?_eq_getElem hi, fun hs => ?_⟩⟩
    obtain ⟨e, he, heq⟩ := hb.sound key s i hs hbs
    rw [List.getElem?_eq_getElem hi] at he
    cases he
    exact heq

/-! ## Every operation, every history -/

/-- the ISO C contract of `qsort` for the comparator `le`: when `le` is a total preorder the result
is a permutation of the input ordered by `le` -/
structure QsortContract (le : Elem → Elem → Bool) (qs : List Elem → List Elem) : Prop where
  perm : ∀ xs, (qs xs).Perm xs
  sorted : Seq.TotalPreorder le → ∀ xs, Seq.Sorted le (qs xs)

/-- what the theorems assume of the environment of a run: the comparator handed to sort/bsearch is
a total preorder and libc's `qsort`/`bsearch` honour their contracts.  Nothing is assumed of the
allocator. -/
structure EnvOK (le : Elem → Elem → Bool) (env : Env) : Prop where
  le_ok : Seq.TotalPreorder le
  qs : QsortContract le env.qs
  bs : BsearchContract le env.bs

/-- arguments are `size_t` values -/
def Op.WF : Op → Prop
  | .put i _ => i ≤ SIZE_T_MAX
  | .ins i _ => i ≤ SIZE_T_MAX
  | .del i n => i ≤ SIZE_T_MAX ∧ n ≤ SIZE_T_MAX
  | .shrink n => n ≤ SIZE_T_MAX
  | .get i => i ≤ SIZE_T_MAX
  | _ => True

/-- What the specification (a plain list, `Seq`) allows one call to do: `s` the sequence before,
`ret`/`val` the C results, `rel` the `free_fn` calls, `s'` the sequence after.  `oom` = "the
allocator refuses some request": a request the specification wants served may then be refused
(and only then, outside the `Seq.fits` band), leaving everything unchanged. -/
def OpSpec (le : Elem → Elem → Bool) (oom : Prop) (s : Seq) : Op → Int → Elem → List Id → Seq → Prop
  | .add v, ret, _, rel, s' =>
      (ret = 0 ∧ s' = Seq.add s v ∧ rel = [] ∧ Seq.fits (s.length + 1) ≠ .mustRefuse) ∨
      (ret = -1 ∧ s' = s ∧ rel = [] ∧ (Seq.fits (s.length + 1) ≠ .mustServe ∨ oom))
  | .put i v, ret, _, rel, s' =>
      (ret = 0 ∧ s' = Seq.put s i v ∧ rel = Seq.putReleased s i ∧ Seq.fits (i + 1) ≠ .mustRefuse) ∨
      (ret = -1 ∧ s' = s ∧ rel = [] ∧ (Seq.fits (i + 1) ≠ .mustServe ∨ oom))
  | .ins i v, ret, _, rel, s' =>
      (ret = 0 ∧ s' = Seq.insert s i v ∧ rel = [] ∧ Seq.fits (max (i + 1) (s.length + 1)) ≠ .mustRefuse) ∨
      (ret = -1 ∧ s' = s ∧ rel = [] ∧ (Seq.fits (max (i + 1) (s.length + 1)) ≠ .mustServe ∨ oom))
  | .del i n, ret, _, rel, s' =>
      (Seq.delOk s i n = true ∧ ret = 0 ∧ s' = Seq.del s i n ∧ rel = Seq.delReleased s i n) ∨
      (Seq.delOk s i n = false ∧ ret = -1 ∧ s' = s ∧ rel = [])
  | .shrink n, ret, _, rel, s' =>
      s' = s ∧ rel = [] ∧
      ((ret = 0 ∧ Seq.fits (s.length + n) ≠ .mustRefuse) ∨
       (ret = -1 ∧ (Seq.fits (s.length + n) ≠ .mustServe ∨ oom)))
  | .get i, ret, val, rel, s' => ret = 0 ∧ val = Seq.get s i ∧ s' = s ∧ rel = []
  | .len, ret, _, rel, s' => ret = s.length ∧ s' = s ∧ rel = []
  | .sort, ret, _, rel, s' => ret = 0 ∧ s'.Perm s ∧ Seq.Sorted le s' ∧ rel = []
  | .bsearch k, ret, val, rel, s' =>
      s' = s ∧ rel = [] ∧
      ((ret = 1 ∧ val ∈ s ∧ (Seq.Sorted le s → Seq.equiv le k val = true)) ∨
       (ret = 0 ∧ (Seq.Sorted le s → ∀ e ∈ s, Seq.equiv le k e = false)))

/-- One call, any state representing a sequence, any `size_t` arguments, any allocator:
**no fault** (no `size_t` wrap, no access outside the allocation, no uninitialised read), the
result again represents a sequence (**refinement**: by `getIdx_refines` its length and every index
agree with it), and results, release log and new sequence are what `Seq` allows. -/
theorem step_refines (le : Elem → Elem → Bool) (env : Env) (henv : EnvOK le env) (a : Al) (s : Seq)
    (h : Rep a s) (op : Op) (hwf : op.WF) :
    ∃ r, step env a op = .ok r ∧
      ∃ s', Rep r.al s' ∧ OpSpec le (∃ b, env.alloc b = false) s op r.ret r.val r.released s' := by
  cases op with
  | add v =>
    obtain ⟨r, hr, hc⟩ := add_refines env.alloc a s h v
    refine ⟨r, hr, ?_⟩
    rcases hc with ⟨h1, h2, h3, h4⟩ | ⟨h1, h2, h3, h4⟩
    · exact ⟨_, h2, Or.inl ⟨h1, rfl, h3, h4⟩⟩
    · exact ⟨s, h2 ▸ h, Or.inr ⟨h1, rfl, h3, h4⟩⟩
  | put i v =>
    obtain ⟨r, hr, hc⟩ := putIdx_refines env.alloc a s h i hwf v
    refine ⟨r, hr, ?_⟩
    rcases hc with ⟨h1, h2, h3, h4⟩ | ⟨h1, h2, h3, h4⟩
    · exact ⟨_, h2, Or.inl ⟨h1, rfl, h3, h4⟩⟩
    · exact ⟨s, h2 ▸ h, Or.inr ⟨h1, rfl, h3, h4⟩⟩
  | ins i v =>
    obtain ⟨r, hr, hc⟩ := insertIdx_refines env.alloc a s h i hwf v
    refine ⟨r, hr, ?_⟩
    rcases hc with ⟨h1, h2, h3, h4⟩ | ⟨h1, h2, h3, h4⟩
    · exact ⟨_, h2, Or.inl ⟨h1, rfl, h3, h4⟩⟩
    · exact ⟨s, h2 ▸ h, Or.inr ⟨h1, rfl, h3, h4⟩⟩
  | del i n =>
    obtain ⟨r, hr, hc⟩ := delIdx_refines a s h i n hwf.2
    refine ⟨r, hr, ?_⟩
    rcases hc with ⟨h0, h1, h2, h3, _⟩ | ⟨h0, h1, h2, h3⟩
    · exact ⟨_, h2, Or.inl ⟨h0, h1, rfl, h3⟩⟩
    · exact ⟨s, h2 ▸ h, Or.inr ⟨h0, h1, rfl, h3⟩⟩
  | shrink n =>
    obtain ⟨r, hr, h2, h3, hc⟩ := shrink_refines env.alloc a s h n
    refine ⟨r, hr, s, h2, rfl, h3, ?_⟩
    rcases hc with ⟨h1, _, h4⟩ | ⟨h1, _, h4⟩
    · exact Or.inl ⟨h1, h4⟩
    · exact Or.inr ⟨h1, h4⟩
  | get i =>
    refine ⟨⟨a, 0, Seq.get s i, none, []⟩, ?_, s, h, rfl, rfl, rfl, rfl⟩
    simp [step, getIdx_refines a s h i]
  | len =>
    exact ⟨_, rfl, s, h, by simp [lengthOf, h.length], rfl, rfl⟩
  | sort =>
    have hp := henv.qs.perm s
    obtain ⟨r, hr, h1, h2, h3, _⟩ := sort_refines env.qs a s h hp.length_eq
    exact ⟨r, hr, _, h2, h1, hp, henv.qs.sorted henv.le_ok s, h3⟩
  | bsearch k =>
    obtain ⟨r, hr, h1, h2, hc⟩ := bsearch_refines le env.bs henv.bs k a s h
    refine ⟨r, hr, s, h1 ▸ h, rfl, h2, ?_⟩
    rcases hc with ⟨h3, i, _, h5, h6⟩ | ⟨h3, _, _, h6⟩
    · exact Or.inl ⟨h3, List.mem_of_getElem? h5, h6⟩
    · exact Or.inr ⟨h3, h6⟩

/-- calls that may fail: they report failure by a non-zero return -/
def Op.updates : Op → Bool
  | .add _ | .put .. | .ins .. | .del .. | .shrink _ => true
  | _ => false

/-- **Failed operations leave everything unchanged** (the whole state, capacity included, and nothing
is released); so do the read-only calls. -/
theorem al_fail_unchanged (le : Elem → Elem → Bool) (env : Env) (henv : EnvOK le env) (a : Al) (s : Seq)
    (h : Rep a s) (op : Op) (hwf : op.WF) (r : Res) (hr : step env a op = .ok r) :
    (op.updates = true → r.ret ≠ 0 → r.al = a ∧ r.released = []) ∧
    (op.updates = false → op ≠ .sort → r.al = a ∧ r.released = []) := by
  cases op with
  | add v =>
    obtain ⟨r', hr', hc⟩ := add_refines env.alloc a s h v
    rw [show step env a (.add v) = add env.alloc a v from rfl] at hr
    rw [hr] at hr'; cases hr'
    refine ⟨fun _ hne => ?_, fun hu => by simp [Op.updates] at hu⟩
    rcases hc with ⟨h1, _⟩ | ⟨_, h2, h3, _⟩
    · exact absurd h1 hne
    · exact ⟨h2, h3⟩
  | put i v =>
    obtain ⟨r', hr', hc⟩ := putIdx_refines env.alloc a s h i hwf v
    rw [show step env a (.put i v) = putIdx env.alloc a i v from rfl] at hr
    rw [hr] at hr'; cases hr'
    refine ⟨fun _ hne => ?_, fun hu => by simp [Op.updates] at hu⟩
    rcases hc with ⟨h1, _⟩ | ⟨_, h2, h3, _⟩
    · exact absurd h1 hne
    · exact ⟨h2, h3⟩
  | ins i v =>
    obtain ⟨r', hr', hc⟩ := insertIdx_refines env.alloc a s h i hwf v
    rw [show step env a (.ins i v) = insertIdx env.alloc a i v from rfl] at hr
    rw [hr] at hr'; cases hr'
    refine ⟨fun _ hne => ?_, fun hu => by simp [Op.updates] at hu⟩
    rcases hc with ⟨h1, _⟩ | ⟨_, h2, h3, _⟩
    · exact absurd h1 hne
    · exact ⟨h2, h3⟩
  | del i n =>
    obtain ⟨r', hr', hc⟩ := delIdx_refines a s h i n hwf.2
    rw [show step env a (.del i n) = delIdx a i n from rfl] at hr
    rw [hr] at hr'; cases hr'
    refine ⟨fun _ hne => ?_, fun hu => by simp [Op.updates] at hu⟩
    rcases hc with ⟨_, h1, _⟩ | ⟨_, _, h2, h3⟩
    · exact absurd h1 hne
    · exact ⟨h2, h3⟩
  | shrink n =>
    obtain ⟨r', hr', _, h3, hc⟩ := shrink_refines env.alloc a s h n
    rw [show step env a (.shrink n) = shrink env.alloc a n from rfl] at hr
    rw [hr] at hr'; cases hr'
    refine ⟨fun _ hne => ?_, fun hu => by simp [Op.updates] at hu⟩
    rcases hc with ⟨h1, _⟩ | ⟨_, h2, _⟩
    · exact absurd h1 hne
    · exact ⟨h2, h3⟩
  | get i =>
    refine ⟨fun hu => by simp [Op.updates] at hu, fun _ _ => ?_⟩
    simp [step, getIdx_refines a s h i] at hr
    cases hr; exact ⟨rfl, rfl⟩
  | len =>
    refine ⟨fun hu => by simp [Op.updates] at hu, fun _ _ => ?_⟩
    simp [step] at hr
    cases hr; exact ⟨rfl, rfl⟩
  | sort => exact ⟨fun hu => by simp [Op.updates] at hu, fun _ hne => absurd rfl hne⟩
  | bsearch k =>
    obtain ⟨r', hr', h1, h2, _⟩ := bsearch_refines le env.bs henv.bs k a s h
    rw [show step env a (.bsearch k) = bsearch env.bs k a from rfl] at hr
    rw [hr] at hr'; cases hr'
    exact ⟨fun hu => by simp [Op.updates] at hu, fun _ _ => ⟨h1, h2⟩⟩

/-- what the specification says a call releases, given its return value -/
def specReleased (s : Seq) : Op → Int → List Id
  | .put i _, 0 => Seq.putReleased s i
  | .del i n, 0 => Seq.delReleased s i n
  | _, _ => []

/-- **The release log is exact**: a call hands to `free_fn` exactly the element overwritten by a
successful put (if not null) resp. the non-null elements of a successfully deleted range, each once,
in index order, and nothing else — in particular nothing when it fails. -/
theorem al_release_log (le : Elem → Elem → Bool) (oom : Prop) (s s' : Seq) (op : Op) (ret : Int) (val : Elem)
    (rel : List Id) (h : OpSpec le oom s op ret val rel s') : rel = specReleased s op ret := by
  cases op with
  | add v => rcases h with ⟨_, _, h3, _⟩ | ⟨_, _, h3, _⟩ <;> simp [specReleased, h3]
  | put i v =>
    rcases h with ⟨h1, _, h3, _⟩ | ⟨h1, _, h3, _⟩
    · subst h1; exact h3
    · subst h1; exact h3
  | ins i v => rcases h with ⟨_, _, h3, _⟩ | ⟨_, _, h3, _⟩ <;> simp [specReleased, h3]
  | del i n =>
    rcases h with ⟨_, h1, _, h3⟩ | ⟨_, h1, _, h3⟩
    · subst h1; exact h3
    · subst h1; exact h3
  | shrink n => simp [specReleased, h.2.1]
  | get i => simp [specReleased, h.2.2.2]
  | len => simp [specReleased, h.2.2]
  | sort => simp [specReleased, h.2.2.2]
  | bsearch k => simp [specReleased, h.2.1]

/-- what the specification allows a whole history to do -/
def RunSpec (le : Elem → Elem → Bool) (oom : Prop) : Seq → List Op → List Res → Seq → Prop
  | s, [], [], s' => s' = s
  | s, op :: ops, r :: rs, s' =>
      ∃ s1, OpSpec le oom s op r.ret r.val r.released s1 ∧ RunSpec le oom s1 ops rs s'
  | _, _, _, _ => False

/-- C07 lifted to **every finite history** of `size_t`-argument calls from every state representing
a sequence: the run never faults, the final state represents a sequence, and every return value,
every value read, every release and every intermediate sequence are those `Seq` allows. -/
theorem run_refines (le : Elem → Elem → Bool) (env : Env) (henv : EnvOK le env) (ops : List Op) :
    ∀ (a : Al) (s : Seq), Rep a s → (∀ op ∈ ops, op.WF) →
      ∃ q rs s', run env a ops = .ok (q, rs) ∧ Rep q s' ∧
        RunSpec le (∃ b, env.alloc b = false) s ops rs s' := by
  induction ops with
  | nil => intro a s h _; exact ⟨a, [], s, rfl, h, rfl⟩
  | cons op ops ih =>
    intro a s h hwf
    obtain ⟨r, hr, s1, h1, hspec⟩ := step_refines le env henv a s h op (hwf op (by simp))
    obtain ⟨q, rs, s', hrun, hq, hrs⟩ := ih r.al s1 h1 (fun o ho => hwf o (by simp [ho]))
    refine ⟨q, r :: rs, s', ?_, hq, s1, hspec, hrs⟩
    simp [run, hr, hrun]

/-- **From every initial capacity, zero included** (`array_list_new2(free_fn, cap)` for any `int`):
the constructor either refuses (negative capacity or allocator) or yields the empty sequence, and
every history from there refines `Seq`. -/
theorem run_from_new (le : Elem → Elem → Bool) (env : Env) (henv : EnvOK le env) (cap : Int)
    (hint : cap ≤ (intMax : Int)) (ops : List Op) (hwf : ∀ op ∈ ops, op.WF) :
    ∃ r, new2 env.alloc cap = .ok r ∧
      ((r = none ∧ (cap < 0 ∨ ∃ b, env.alloc b = false)) ∨
       (∃ a q rs s', r = some a ∧ a.size = cap.toNat ∧ run env a ops = .ok (q, rs) ∧ Rep q s' ∧
          RunSpec le (∃ b, env.alloc b = false) [] ops rs s')) := by
  obtain ⟨r, hr, hc⟩ := new2_refines env.alloc cap
  refine ⟨r, hr, ?_⟩
  rcases hc with ⟨a, ha, hrep, hsz, _⟩ | ⟨hn, hwhy⟩
  · obtain ⟨q, rs, s', hrun, hq, hrs⟩ := run_refines le env henv ops a [] hrep hwf
    exact Or.inr ⟨a, q, rs, s', ha, hsz, hrun, hq, hrs⟩
  · refine Or.inl ⟨hn, ?_⟩
    rcases hwhy with hw | hw | hw
    · exact Or.inl hw
    · -- an `int` capacity is always below SIZE_MAX / sizeof(void *)
      exact absurd hw (by have := intMax_lt_maxLen; omega)
    · exact Or.inr hw

/-- **No fault**: no history reaches undefined behaviour, an out-of-bounds or uninitialised read,
or a `size_t` wrap. -/
theorem al_no_fault (le : Elem → Elem → Bool) (env : Env) (henv : EnvOK le env) (a : Al) (s : Seq)
    (h : Rep a s) (ops : List Op) (hwf : ∀ op ∈ ops, op.WF) : (run env a ops).isOk = true := by
  obtain ⟨q, rs, s', hrun, _⟩ := run_refines le env henv ops a s h hwf
  rw [hrun]; rfl

/-- **Refinement, observably**: whenever a state represents `s` (so after every operation of every
history), `array_list_length` is the length of `s`, `array_list_get_idx` at every index — inside
or past the end, up to SIZE_MAX and beyond — returns what `Seq.get` does (null past the end),
without fault, and destroying the list releases exactly the non-null elements still in it. -/
theorem al_refines (a : Al) (s : Seq) (h : Rep a s) :
    lengthOf a = s.length ∧ (∀ i, getIdx a i = .ok (Seq.get s i)) ∧
      (∀ i, s.length ≤ i → getIdx a i = .ok none) ∧ free a = .ok (Seq.freeReleased s) := by
  refine ⟨h.length, fun i => getIdx_refines a s h i, fun i hi => ?_, free_refines a s h⟩
  rw [getIdx_refines a s h i]; unfold Seq.get; rw [List.getElem?_eq_none hi]

/-! ## Sort and binary search under the libc contracts -/

/-- **Sorting yields a permutation ordered by the comparator** (given qsort's contract), releases
nothing, never fails, and keeps the capacity. -/
theorem sort_perm_sorted (le : Elem → Elem → Bool) (hle : Seq.TotalPreorder le)
    (qs : List Elem → List Elem) (hq : QsortContract le qs) (a : Al) (s : Seq) (h : Rep a s) :
    ∃ r s', sort qs a = .ok r ∧ r.ret = 0 ∧ Rep r.al s' ∧ s'.Perm s ∧ Seq.Sorted le s' ∧
      r.released = [] ∧ r.al.size = a.size := by
  have hp := hq.perm s
  obtain ⟨r, hr, h1, h2, h3, h4⟩ := sort_refines qs a s h hp.length_eq
  exact ⟨r, _, hr, h1, h2, hp, hq.sorted hle s, h3, h4⟩

/-- **Binary search finds an element iff the sequence holds one equivalent to the key** (given
bsearch's contract, on a sequence ordered by the comparator), and what it returns is such an element. -/
theorem bsearch_iff (le : Elem → Elem → Bool) (bs : Elem → List Elem → Option Nat)
    (hb : BsearchContract le bs) (key : Elem) (a : Al) (s : Seq) (h : Rep a s) (hs : Seq.Sorted le s) :
    ∃ r, bsearch bs key a = .ok r ∧ r.al = a ∧
      (r.ret = 1 ↔ ∃ e ∈ s, Seq.equiv le key e = true) ∧
      (r.ret = 1 → r.val ∈ s ∧ Seq.equiv le key r.val = true) ∧ (r.ret = 1 ∨ r.ret = 0) := by
  obtain ⟨r, hr, h1, _, hc⟩ := bsearch_refines le bs hb key a s h
  refine ⟨r, hr, h1, ?_⟩
  rcases hc with ⟨h3, i, _, h5, h6⟩ | ⟨h3, _, _, h6⟩
  · have hm := List.mem_of_getElem? h5
    exact ⟨⟨fun _ => ⟨r.val, hm, h6 hs⟩, fun _ => h3⟩, fun _ => ⟨hm, h6 hs⟩, Or.inl h3⟩
  · refine ⟨⟨fun h1' => by rw [h3] at h1'; simp at h1', fun ⟨e, he, heq⟩ => ?_⟩,
      fun h1' => by rw [h3] at h1'; simp at h1', Or.inr h3⟩
    rw [h6 hs e he] at heq; simp at heq

/-- after a sort, a search sees an ordered sequence: sort-then-search finds `key` iff present -/
theorem sort_then_bsearch (le : Elem → Elem → Bool) (env : Env) (henv : EnvOK le env) (key : Elem)
    (a : Al) (s : Seq) (h : Rep a s) :
    ∃ q rs, run env a [.sort, .bsearch key] = .ok (q, rs) ∧
      ∃ r1 r2, rs = [r1, r2] ∧ (r2.ret = 1 ↔ ∃ e ∈ s, Seq.equiv le key e = true) := by
  obtain ⟨r1, s1, hr1, _, hrep1, hperm, hsorted, _, _⟩ :=
    sort_perm_sorted le henv.le_ok env.qs henv.qs a s h
  obtain ⟨r2, hr2, hal, hiff, _, _⟩ := bsearch_iff le env.bs henv.bs key r1.al s1 hrep1 hsorted
  refine ⟨r2.al, [r1, r2], ?_, r1, r2, rfl, ?_⟩
  · simp [run, step, hr1, hr2]
  · rw [hiff]
    constructor
    · rintro ⟨e, he, heq⟩; exact ⟨e, hperm.mem_iff.mp he, heq⟩
    · rintro ⟨e, he, heq⟩; exact ⟨e, hperm.mem_iff.mpr he, heq⟩

/-! ## The contracts are satisfiable: the reference implementations honour them -/

/-- core's verified merge sort (the driver's stand-in for qsort) honours the qsort contract -/
theorem refSort_contract (le : Elem → Elem → Bool) : QsortContract le (Seq.sort le) where
  perm := fun xs => List.mergeSort_perm xs le
  sorted := fun hle xs =>
    List.pairwise_mergeSort hle.trans (fun a b => by
      rcases hle.total a b with h | h <;> simp [h]) xs

/-- the loop of glibc's bsearch (the driver's stand-in) honours the bsearch contract -/
theorem refBsearch_contract (le : Elem → Elem → Bool) (hle : Seq.TotalPreorder le) :
    BsearchContract le (Seq.bsearch le) where
  inRange := fun k xs i h => by
    obtain ⟨e, he, _⟩ := bsearchLoop_some le k xs _ _ _ _ h
    cases hi : decide (i < xs.length) with
    | true => simpa using hi
    | false => rw [List.getElem?_eq_none (by simpa using hi)] at he; simp at he
  sound := fun k xs i _ h => bsearchLoop_some le k xs _ _ _ _ h
  complete := fun k xs hs h =>
    bsearchLoop_none le hle k xs hs _ 0 xs.length (Nat.le_refl _) (by omega)
      (fun j e hj _ => by omega) (fun j e hj he => by
        rw [List.getElem?_eq_none hj] at he; simp at he) h

theorem leId_totalPreorder : Seq.TotalPreorder Seq.leId where
  total := fun a b => by
    cases a <;> cases b <;> simp [Seq.leId]
    exact Nat.le_total _ _
  trans := fun a b c => by
    cases a <;> cases b <;> cases c <;> simp [Seq.leId]
    exact fun h1 h2 => Nat.le_trans h1 h2

/-- the environment of the correspondence run (allocator with a byte limit, reference sort and
search, comparator "NULL first, then by id") meets `EnvOK` -/
theorem refEnv_ok (limit : Nat) :
    EnvOK Seq.leId { alloc := fun b => decide (b ≤ limit), qs := Seq.sort Seq.leId, bs := Seq.bsearch Seq.leId } where
  le_ok := leId_totalPreorder
  qs := refSort_contract Seq.leId
  bs := refBsearch_contract Seq.leId leId_totalPreorder

/-! ## Conservation: every element handed over is live or was released, exactly once -/

/-- the element a successful call takes over from the caller -/
def handedOver : Op → Int → List Id
  | .add v, 0 => Seq.nonNull [v]
  | .put _ v, 0 => Seq.nonNull [v]
  | .ins _ v, 0 => Seq.nonNull [v]
  | _, _ => []

/-- One call: for every handle `x`, copies live afterwards + releases = copies live before +
copies handed over.  (So an overwritten or deleted element is released exactly once, an element
still in the sequence is not released, and a failing call releases and takes over nothing.) -/
theorem op_conserves (le : Elem → Elem → Bool) (oom : Prop) (s s' : Seq) (op : Op) (ret : Int) (val : Elem)
    (rel : List Id) (h : OpSpec le oom s op ret val rel s') (x : Id) :
    (Seq.nonNull s').count x + rel.count x = (Seq.nonNull s).count x + (handedOver op ret).count x := by
  cases op with
  | add v =>
    rcases h with ⟨h1, h2, h3, _⟩ | ⟨h1, h2, h3, _⟩
    · subst h1 h2 h3; simp [handedOver, Seq.add, nonNull_append]
    · subst h1 h2 h3; simp [handedOver]
  | put i v =>
    rcases h with ⟨h1, h2, h3, _⟩ | ⟨h1, h2, h3, _⟩
    · subst h1 h2 h3
      simp only [handedOver]
      unfold Seq.put
      by_cases hi : i < s.length
      · rw [if_pos hi, putReleased_eq s i hi, ← nonNull_singleton]
        have hs : s = s.take i ++ [s[i]] ++ s.drop (i + 1) := by simp
        have hs' : s.set i v = s.take i ++ [v] ++ s.drop (i + 1) := by
          rw [List.set_eq_take_append_cons_drop, if_pos hi]; simp
        rw [hs']
        conv => rhs; rw [hs]
        simp only [nonNull_append, List.count_append]
        omega
      · rw [if_neg hi, putReleased_ge s i (by omega)]
        simp [nonNull_append, nonNull_replicate_none]
    · subst h1 h2 h3; simp [handedOver]
  | ins i v =>
    rcases h with ⟨h1, h2, h3, _⟩ | ⟨h1, h2, h3, _⟩
    · subst h1 h2 h3
      simp only [handedOver]
      unfold Seq.insert
      by_cases hi : i < s.length
      · rw [if_pos hi]
        have hs : s = s.take i ++ s.drop i := by simp
        have e : s.take i ++ v :: s.drop i = s.take i ++ [v] ++ s.drop i := by simp
        rw [e]
        conv => rhs; rw [hs]
        simp only [nonNull_append, List.count_append, List.count_nil]
        omega
      · rw [if_neg hi]; unfold Seq.put; rw [if_neg hi]
        simp [nonNull_append, nonNull_replicate_none]
    · subst h1 h2 h3; simp [handedOver]
  | del i n =>
    rcases h with ⟨_, h1, h2, h3⟩ | ⟨_, h1, h2, h3⟩
    · subst h1 h2 h3
      simp only [handedOver, Seq.del, Seq.delReleased]
      have hs : s = s.take i ++ ((s.drop i).take n ++ s.drop (i + n)) := by
        rw [← List.drop_drop, List.take_append_drop, List.take_append_drop]
      conv => rhs; rw [hs]
      simp only [nonNull_append, List.count_append, List.count_nil]
      omega
    · subst h1 h2 h3; simp [handedOver]
  | shrink n => obtain ⟨h1, h2, _⟩ := h; subst h1 h2; simp [handedOver]
  | get i => obtain ⟨_, _, h1, h2⟩ := h; subst h1 h2; simp [handedOver]
  | len => obtain ⟨_, h1, h2⟩ := h; subst h1 h2; simp [handedOver]
  | sort =>
    obtain ⟨_, h1, _, h2⟩ := h; subst h2
    have := (h1.filterMap id).count_eq x
    simp only [Seq.nonNull, handedOver, List.count_nil]
    omega
  | bsearch k => obtain ⟨h1, h2, _⟩ := h; subst h1 h2; simp [handedOver]

/-- **Conservation over every history**: with `released` the concatenated release logs and
`handed` the elements taken over by the successful calls, every handle satisfies
live-at-the-end + released = live-at-the-start + handed-over. -/
theorem run_conserves (le : Elem → Elem → Bool) (oom : Prop) (ops : List Op) :
    ∀ (s s' : Seq) (rs : List Res), RunSpec le oom s ops rs s' → rs.length = ops.length ∧ ∀ x : Id,
      (Seq.nonNull s').count x + (rs.flatMap (·.released)).count x =
        (Seq.nonNull s).count x +
          ((ops.zip rs).flatMap (fun p => handedOver p.1 p.2.ret)).count x := by
  induction ops with
  | nil =>
    intro s s' rs h
    cases rs with
    | nil => simp only [RunSpec] at h; subst h; simp
    | cons r rs => simp [RunSpec] at h
  | cons op ops ih =>
    intro s s' rs h
    cases rs with
    | nil => simp [RunSpec] at h
    | cons r rs =>
      obtain ⟨s1, hop, hrest⟩ := h
      obtain ⟨hl, hcount⟩ := ih s1 s' rs hrest
      refine ⟨by simp [hl], fun x => ?_⟩
      have h1 := op_conserves le oom s s1 op r.ret r.val r.released hop x
      have h2 := hcount x
      simp only [List.flatMap_cons, List.zip_cons_cons, List.count_append]
      omega

/-! ## Non-vacuity -/

/-- a concrete history from capacity 0 that grows the array, leaves and fills gaps, shifts,
deletes a range and tries a wrapping range, shrinks, reads past the end, searches and asks for an
index no allocation can hold — it meets every hypothesis above (`refEnv_ok`) and is computed by
the model without fault. -/
example :
    let env : Env := { alloc := fun b => decide (b ≤ 4096), qs := Seq.sort Seq.leId, bs := Seq.bsearch Seq.leId }
    ∃ a, new2 env.alloc 0 = .ok (some a) ∧
      ((run env a [.add (some 7), .put 4 (some 3), .ins 1 (some 9), .put 0 (some 5), .del 1 2,
          .del 1 SIZE_T_MAX, .shrink 0, .get 9, .bsearch (some 3), .put (SIZE_T_MAX - 1) none]).isOk = true) := by
  refine ⟨_, rfl, ?_⟩
  decide

/-- the hypotheses of the sort/search theorems are met by the reference environment on a concrete
state: capacity 4 holding `[7, null, 3]` -/
example : ∃ q rs, run { alloc := fun b => decide (b ≤ 4096), qs := Seq.sort Seq.leId, bs := Seq.bsearch Seq.leId }
      ⟨[.val (some 7), .val none, .val (some 3), .uninit], 3, 4⟩ [.sort, .bsearch (some 3)] = .ok (q, rs) ∧
    ∃ r1 r2, rs = [r1, r2] ∧ (r2.ret = 1 ↔ ∃ e ∈ [some 7, none, some 3], Seq.equiv Seq.leId (some 3) e = true) :=
  sort_then_bsearch Seq.leId _ (refEnv_ok 4096) (some 3) _ [some 7, none, some 3]
    ⟨⟨[.uninit], rfl⟩, rfl, rfl, by decide⟩


/-- every source fact this property's model consumes was located in the current source by tools/extract (a fact that is not
found is emitted with a placeholder value; this obligation then fails and the check uses the reference model) -/
theorem source_facts_located_c07 : JsonC.Generated.factsFound_al = true := by decide

end JsonC.Arraylist
