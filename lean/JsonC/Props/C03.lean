/-
  C03  Incremental parsing is independent of how the input is split into calls.

  Property theorems only.  Model: JsonC/Model/Tokener.lean.  The per-call locals of
  json_tokener_parse_ex are `Loc` (number-scanner flags, UTF-8 continuation counter) and `c`; a second
  call starts with fresh locals.  The theorems say that this is invisible:

  * `split_two`  - whenever the call on A reports `continue`, calling on B afterwards gives the same
    status, value, tokener state and (shifted by |A|) end position as one call on A ++ B;
  * `split_many` - the same for any partition into chunks, by induction;
  for every byte string (valid or not), every flag word, every tokener state, every libc.

  The heart is `NumInv` (Lemmas/TokenerSplit): the scanner flags the C code keeps in locals are a
  function of the saved number text, so what the next call re-derives from `tok->pb` is what a single
  call would hold at that point.  (This is exactly what failed before the fixes 8d4b… "number split
  across calls accepted a sign after a digit" and "-1 followed by Infinity": see KNOWN_FINDINGS.json.)
-/
import JsonC.Lemmas.TokenerSplit
import JsonC.Props.C04

namespace JsonC.Tokener
open JsonC

/-- the result of a call, with its end position counted from `k` bytes earlier -/
def Final.shift (k : Nat) (f : Final) : Final := { f with offset := f.offset + k }

/-- the epilogue looks only at the tokener, the stop reason, the UTF-8 counter and whether `c` is NUL -/
theorem epilogue_congr (e1 e2 : LoopEnd) (ht : e1.tok = e2.tok) (hs : e1.stop = e2.stop)
    (hn : e1.loc.nBytes = e2.loc.nBytes) (hc : (e1.c == 0) = (e2.c == 0)) :
    epilogue e1 = { epilogue e2 with offset := e1.offset } := by
  have hfe : finalErr e1 = finalErr e2 := by
    unfold finalErr loopErr
    simp only [ht, hs, hn, hc, bne]
  unfold epilogue
  simp only [hfe, ht, hs]
  split <;> rfl

theorem epilogue_offset (e : LoopEnd) : (epilogue e).offset = e.offset := by
  unfold epilogue; simp only; split <;> rfl

/-- the UTF-8 counter is only touched when validating -/
theorem run_nbytes_noval (lc : Libc) (A : Bytes) : ∀ (t : Tok) (l : Loc) (c : UInt8) (off : Nat),
    t.validateUtf8 = false → l.nBytes = 0 →
    (run lc t l c off A).loc.nBytes = 0 ∧ (run lc t l c off A).tok.flags = t.flags := by
  induction A with
  | nil => intro t l c off _ h; simp [run, h]
  | cons b bs ih =>
    intro t l c off hv h
    have hpk : peek t l b = some l := by simp [peek, hv]
    have hfr := feed_frame lc t l b
    cases hfd : feed lc t l b with
    | consume t' l' =>
      rw [hfd] at hfr; simp only [Frame] at hfr
      by_cases hb : (b == 0) = true
      · simp [run, hpk, hfd, hb, hfr, h]
      · simp only [run, hpk, hfd, if_neg hb]
        have hv' : t'.validateUtf8 = false := by simpa [Tok.validateUtf8, hfr.1] using hv
        have := ih t' l' b (off + 1) hv' (by rw [hfr.2.2, h])
        exact ⟨this.1, this.2.trans hfr.1⟩
    | err e t' l' => rw [hfd] at hfr; simp only [Frame] at hfr; simp [run, hpk, hfd, hfr, h]
    | done t' l' => rw [hfd] at hfr; simp only [Frame] at hfr; simp [run, hpk, hfd, hfr, h]
    | redo t' l' => rw [hfd] at hfr; simp only [Frame] at hfr; simp [run, hpk, hfd, hfr, h]
    | fault w => simp [run, hpk, hfd, h]

/-- the flag word never changes during a call -/
theorem run_nbytes_flags (lc : Libc) (A : Bytes) : ∀ (t : Tok) (l : Loc) (c : UInt8) (off : Nat),
    (run lc t l c off A).tok.flags = t.flags := by
  induction A with
  | nil => intro t l c off; simp [run]
  | cons b bs ih =>
    intro t l c off
    cases hpk : peek t l b with
    | none => simp [run, hpk]
    | some l1 =>
      have hfr := feed_frame lc t l1 b
      cases hfd : feed lc t l1 b with
      | consume t' l' =>
        rw [hfd] at hfr; simp only [Frame] at hfr
        by_cases hb : (b == 0) = true
        · simp [run, hpk, hfd, hb, hfr]
        · simp only [run, hpk, hfd, if_neg hb]; rw [ih t' l' b (off + 1)]; exact hfr.1
      | err e t' l' => rw [hfd] at hfr; simp only [Frame] at hfr; simp [run, hpk, hfd, hfr]
      | done t' l' => rw [hfd] at hfr; simp only [Frame] at hfr; simp [run, hpk, hfd, hfr]
      | redo t' l' => rw [hfd] at hfr; simp only [Frame] at hfr; simp [run, hpk, hfd, hfr]
      | fault w => simp [run, hpk, hfd]

/-- two loop results that the epilogue cannot tell apart, `off` bytes apart -/
structure Sim (e1 e2 : LoopEnd) (off : Nat) : Prop where
  tok : e1.tok = e2.tok
  stop : e1.stop = e2.stop
  nb : e1.loc.nBytes = e2.loc.nBytes
  c : (e1.c == 0) = (e2.c == 0)
  offset : e1.offset = e2.offset + off

theorem run_sim (lc : Libc) (t : Tok) (l : Loc) (c : UInt8) (off : Nat) (B : Bytes)
    (hinv : NumInv t l) (hnb : l.nBytes = 0) (hc : c ≠ 0) :
    Sim (run lc t l c off B) (run lc t {} 1 0 B) off := by
  cases B with
  | nil => exact ⟨rfl, rfl, by simp [run, hnb], by simp [run, hc], by simp [run]⟩
  | cons b bs =>
    have hl : ({ l with num := none } : Loc) = {} := by cases l; simp_all
    cases hp : peek t l b with
    | none =>
      have hp' : peek t {} b = none := by
        unfold peek at hp ⊢
        split at hp
        · rename_i hv; rw [if_pos hv]; simp only [hnb] at hp
          cases hvv : validateUtf8 b 0 with
          | none => simp
          | some nb => simp [hvv] at hp
        · cases hp
      simp only [run, hp, hp']
      exact ⟨rfl, rfl, by simp [hnb], by simp [hc], by simp⟩
    | some l1 =>
      have hp' : peek t {} b = some { l1 with num := none } := by
        unfold peek at hp ⊢
        split at hp
        · rename_i hv; rw [if_pos hv]; simp only [hnb] at hp
          cases hvv : validateUtf8 b 0 with
          | none => simp [hvv] at hp
          | some nb => simp [hvv] at hp; subst hp; simp
        · rename_i hv; rw [if_neg hv]; cases hp; simp [hl]
      have hfeed := feed_fresh lc t l1 b (peek_numInv t l l1 b hinv hp)
      simp only [run, hp, hp', ← hfeed]
      cases hfd : feed lc t l1 b with
      | consume t' l' =>
        simp only
        by_cases hb : (b == 0) = true
        · simp only [if_pos hb]; exact ⟨rfl, rfl, rfl, rfl, by simp; omega⟩
        · simp only [if_neg hb]
          rw [run_offset lc bs t' l' b (off + 1), run_offset lc bs t' l' b (0 + 1)]
          exact ⟨rfl, rfl, rfl, rfl, by simp; omega⟩
      | err e t' l' => exact ⟨rfl, rfl, rfl, rfl, by simp⟩
      | done t' l' => exact ⟨rfl, rfl, rfl, rfl, by simp⟩
      | redo t' l' => exact ⟨rfl, rfl, rfl, rfl, by simp⟩
      | fault w => exact ⟨rfl, rfl, rfl, rfl, by simp⟩

/-- **Resuming with fresh locals is invisible.**  From any tokener and locals satisfying `NumInv`
with no UTF-8 sequence pending, the rest of the loop and the epilogue come out the same whether the
locals are kept or re-initialised (as the next call does), up to where the byte counter started. -/
theorem resume_fresh (lc : Libc) (t : Tok) (l : Loc) (c : UInt8) (off : Nat) (B : Bytes)
    (hinv : NumInv t l) (hnb : l.nBytes = 0) (hc : c ≠ 0) :
    epilogue (run lc t l c off B) = (epilogue (run lc t {} 1 0 B)).shift off := by
  have s := run_sim lc t l c off B hinv hnb hc
  rw [epilogue_congr _ _ s.tok s.stop s.nb s.c, s.offset]
  simp only [Final.shift, epilogue_offset]

/-- what the status `continue` tells about the loop that produced it -/
theorem continue_facts (lc : Libc) (t : Tok) (A : Bytes) (h : (parseEx lc t A).err = .continue_) :
    let e := run lc t {} 1 0 A
    e.stop = .endOfChunk ∧ (parseEx lc t A).tok = e.tok ∧ e.offset = A.length ∧ e.c ≠ 0 ∧
    NumInv e.tok e.loc ∧ e.loc.nBytes = 0 := by
  intro e
  have hfe : finalErr e = .continue_ := by
    unfold parseEx epilogue at h
    simp only at h
    split at h
    · cases h
    · exact h
  have hstop := continue_only_at_chunk_end e hfe
  have hce := run_chunkEnd lc A t {} 1 0 (by simp [NumInv]) (by decide) hstop
  have htok : (parseEx lc t A).tok = e.tok := by
    unfold parseEx epilogue
    simp only
    rw [if_neg (by rw [hfe]; decide)]
  refine ⟨hstop, htok, by simpa using hce.1, hce.2.1, hce.2.2, ?_⟩
  by_cases hv : t.validateUtf8 = true
  · -- validating: a pending sequence would have turned the status into the UTF-8 error
    unfold finalErr at hfe
    simp only at hfe
    split at hfe
    · cases hfe
    · split at hfe
      · cases hfe
      · split at hfe
        · cases hfe
        · rename_i hnb
          have hfl := (run_nbytes_flags lc A t {} 1 0)
          have hv' : e.tok.validateUtf8 = true := by
            have : e.tok.flags = t.flags := hfl
            simpa [Tok.validateUtf8, this] using hv
          simpa [hv'] using hnb
  · exact (run_nbytes_noval lc A t {} 1 0 (by simpa using hv) rfl).1

/-- **C03, two calls.**  If the call on `A` reports that more input is needed, the call on `B` that
follows is observationally identical to one call on `A ++ B`: same status and error code, same
value, same tokener state afterwards, and the one-shot end position is `|A|` plus the end position
the second call reports. For all bytes, flags, tokener states and libc behaviours. -/
theorem split_two (lc : Libc) (t : Tok) (A B : Bytes) (h : (parseEx lc t A).err = .continue_) :
    parseEx lc t (A ++ B) = (parseEx lc (parseEx lc t A).tok B).shift A.length := by
  obtain ⟨hstop, htok, hoff, hc, hinv, hnb⟩ := continue_facts lc t A h
  rw [htok]
  unfold parseEx
  rw [run_append, if_pos hstop, resume_fresh lc _ _ _ _ B hinv hnb hc, hoff]

/-- sequential calls on a list of chunks: stop at the first call that does not ask for more -/
def parseChunks (lc : Libc) (t : Tok) : List Bytes → Final
  | [] => parseEx lc t []
  | [c] => parseEx lc t c
  | c :: cs =>
    let f := parseEx lc t c
    if f.err = .continue_ then (parseChunks lc f.tok cs).shift c.length else f

/-- **C03, any number of calls.**  Feeding any partition of the input chunk by chunk (each later
chunk only after the previous call asked for more, as the API prescribes) yields exactly the result
of one call on the concatenation - whenever every call but the last reports `continue`; and when an
earlier call already ends the parse (success or error), that is also what the one-shot call on the
bytes up to and including that chunk reports. -/
theorem split_many (lc : Libc) : ∀ (chunks : List Bytes) (t : Tok),
    (∀ k, k + 1 < chunks.length → (parseEx lc t (chunks.take (k + 1)).flatten).err = .continue_) →
    parseChunks lc t chunks = parseEx lc t chunks.flatten := by
  intro chunks
  induction chunks with
  | nil => intro t _; simp [parseChunks]
  | cons c cs ih =>
    intro t hall
    cases cs with
    | nil => simp [parseChunks]
    | cons c2 cs2 =>
      have h0 : (parseEx lc t c).err = .continue_ := by
        have := hall 0 (by simp)
        simpa using this
      simp only [parseChunks, h0, if_true]
      have ih' := ih (parseEx lc t c).tok (by
        intro k hk
        have := hall (k + 1) (by simp at hk ⊢; omega)
        simp only [List.take_succ_cons, List.flatten_cons] at this
        rw [split_two lc t c _ h0] at this
        simpa [Final.shift] using this)
      rw [ih']
      simp only [List.flatten_cons]
      rw [split_two lc t c _ h0]

/-- **streams of concatenated documents**: after a call that returned a value (status success, end
position k inside or at the end of A), the tokener is as good as new - every later sequence of calls
(e.g. on `A.drop k`, the rest of the stream, in any chunking) returns call by call what a tokener fresh
from `json_tokener_new_ex` with the same depth and flags returns.  For every reachable tokener, any
bytes, any flags, any libc. -/
theorem stream_resume_like_new (lc : Libc) (t : Tok) (hr : Reachable lc t) (A : Bytes)
    (h : (parseEx lc t A).err = .success) (calls : List Bytes) :
    runCalls lc (parseEx lc t A).tok calls = runCalls lc (freshTok t.maxDepth t.flags) calls :=
  next_calls_like_new lc t A calls (reachable_wf lc t hr) (reachable_hsInv lc t hr) h

/-- the next document alone, with the resulting tokeners again equivalent -/
theorem stream_next_document (lc : Libc) (t : Tok) (hr : Reachable lc t) (A B : Bytes)
    (h : (parseEx lc t A).err = .success) :
    let f := parseEx lc (parseEx lc t A).tok B; let g := parseEx lc (freshTok t.maxDepth t.flags) B
    f.err = g.err ∧ f.value = g.value ∧ f.offset = g.offset ∧ f.stuck = g.stuck ∧ f.fault = g.fault ∧ Eqv f.tok g.tok :=
  next_doc_like_new lc t A B (reachable_wf lc t hr) (reachable_hsInv lc t hr) h

/-- non-vacuity: a number split inside its exponent, in strict mode at depth 1: the first call asks
for more and the pair of calls agrees with the single call (both computed by the model) -/
example : ∃ t, Tokener.new 32 1 = some t ∧
    -- chunks:  [1e   and   -5]
    (parseEx refLibc t [91, 49, 101]).err = .continue_ ∧
    (parseEx refLibc (parseEx refLibc t [91, 49, 101]).tok [45, 53, 93]).err = .success ∧
    (parseEx refLibc t [91, 49, 101, 45, 53, 93]).offset = 6 := by
  refine ⟨_, rfl, ?_, ?_, ?_⟩ <;> decide


/-- every source fact this property's model consumes was located in the current source by tools/extract (a fact that is not
found is emitted with a placeholder value; this obligation then fails and the check uses the reference model) -/
theorem source_facts_located_c03 : JsonC.Generated.factsFound_tok = true := by decide

end JsonC.Tokener
