/-
  C20  File-descriptor I/O is complete and exact under arbitrary short reads and writes.

  Property theorems only.  Model: JsonC/Model/FdIO.lean (json_util.c: _json_object_to_fd,
  json_object_to_fd, json_object_to_file_ext, json_object_from_fd_ex, json_object_from_fd,
  json_object_from_file, the last-error buffer).  Spec: JsonC/Spec/FdIO.lean.
  The serializer (`ser`) and the tokener (`Env`) are parameters: every theorem holds for all of
  them.  The operating system is an explicit list of per-call answers; every theorem quantifies
  over all such lists.  "No fault" (`∃ o, … = .ok o`) = no access outside the serialization buffer,
  the 4096-byte stack buffer or the print buffer, no int overflow, the parser is never handed
  unwritten bytes.

  Assumption stated once, used by `write_exact` only: a write(2) call that does not fail accepts at
  least one byte (`WRes.Progress`).  Without it the C loop need not terminate:
  `write_zero_never_returns`.
-/
import JsonC.Lemmas.FdIO
import JsonC.Lemmas.TranslatedFd
import JsonC.Lemmas.TranslatedFdRead

namespace JsonC.FdIO
open JsonC Generated FdSpec
open JsonC.Printbuf (Inv contents new_refines contents_length)

/-! ## Writing -/

/-- For *every* serialization and *every* finite sequence of write(2) answers (counts of any size,
zero included, failures anywhere): `_json_object_to_fd`'s loop does not fault, and its return value
and the bytes the descriptor received are exactly what the specification says (`specWrite`: return 0
with the whole C string delivered once the accepted counts reach its length; -1 with exactly the bytes
accepted so far if a call fails before that; otherwise still writing).  The calls are chained: each
starts where the previous stopped and carries the bytes of the string at that offset — nothing is
sent twice, skipped or reordered. -/
theorem write_refines_spec (s fn le : Bytes) (sched : List WRes) :
    ∃ o, writeLoop s (strlen s) fn le sched 0 = .ok o ∧
      (o.ret, delivered o) = specWrite (cstr s) (sched.map WRes.ans) ∧
      Chained (cstr s) 0 o.calls ∧ o.fdsLeft = 0 := by
  obtain ⟨o, ho, hret, hdel, hch, hfd, _⟩ := writeLoop_sound s (strlen s) fn le (strlen_le s) sched 0 (Nat.zero_le _)
  refine ⟨o, ho, ?_, by rw [← take_strlen]; exact hch, hfd⟩
  have hlen : (cstr s).length = strlen s := rfl
  simp only [Nat.sub_zero, List.drop_zero] at hret hdel
  unfold specWrite
  simp only [hlen]
  by_cases h1 : strlen s ≤ (okPrefix (sched.map WRes.ans)).sum
  · simp only [h1, if_true] at hret ⊢
    rw [hret, hdel, Nat.min_eq_right h1, take_strlen]
  · simp only [h1, if_false] at hret ⊢
    have hd : delivered o = (cstr s).take (okPrefix (sched.map WRes.ans)).sum := by
      rw [hdel, ← take_strlen, List.take_take]
    split <;> simp_all

/-- C20, writing.  For every tree `obj`, flag set, serialization `s = ser obj flags`, file name, and
every sequence of write(2) answers in which each successful call accepts at least one byte
(`Progress`) and which is long enough not to be used up (`strlen s` answers always suffice):
the loop terminates after at most `strlen s` calls, the calls are chained, and either
* no call failed before completion: the return value is 0, the descriptor received exactly the
  serialization (once, in order), the message buffer is untouched; or
* call number k (0-based) failed, all earlier calls having succeeded: the return value is -1,
  exactly k+1 calls were made, the descriptor received a proper prefix of the serialization, and
  `json_util_get_last_err` returns a non-empty message. -/
theorem write_exact {τ : Type} (ser : τ → Int → Option Bytes) (obj : τ) (flags : Int) (s : Bytes)
    (hser : ser obj flags = some s) (le : Bytes) (fn : Option Bytes) (sched : List WRes)
    (hp : ∀ r ∈ sched, r.Progress) (hlen : strlen s ≤ sched.length) :
    ∃ o, toFdCore ser le obj flags fn sched = .ok o ∧
      Chained (cstr s) 0 o.calls ∧ o.calls.length ≤ strlen s ∧
      ((o.ret = some 0 ∧ delivered o = cstr s ∧ (∀ c ∈ o.calls, c.got ≠ none) ∧ o.lastErr = le) ∨
       (o.ret = some (-1) ∧ ∃ k e, sched[k]? = some (.err e) ∧ (∀ j, j < k → ∃ n, sched[j]? = some (.n n)) ∧
          o.calls.length = k + 1 ∧
          delivered o = (cstr s).take (delivered o).length ∧ (delivered o).length < strlen s ∧
          getLastErr o.lastErr ≠ none)) := by
  unfold toFdCore
  simp only [hser]
  obtain ⟨o, ho, hret, hdel, hch, _, h0, hn, he, hb⟩ :=
    writeLoop_sound s (strlen s) (match fn with | some f => f | none => fdDefaultName) le (strlen_le s) sched 0
      (Nat.zero_le _)
  have hpre := okPrefix_progress sched hp
  have hple := okPrefix_length_le sched
  simp only [Nat.sub_zero, List.drop_zero] at hret hdel hb
  refine ⟨o, ho, by rw [← take_strlen]; exact hch, hb hp, ?_⟩
  by_cases h1 : strlen s ≤ (okPrefix (sched.map WRes.ans)).sum
  · left
    simp only [h1, if_true] at hret
    obtain ⟨hle, hgot⟩ := h0 hret
    refine ⟨hret, ?_, hgot, hle⟩
    rw [hdel, Nat.min_eq_right h1, take_strlen]
  · right
    simp only [h1, if_false] at hret
    have hlt : (okPrefix (sched.map WRes.ans)).length < sched.length := by omega
    simp only [hlt, if_true] at hret
    obtain ⟨hcalls, e, hek, hmsg⟩ := he hret
    have hdl : delivered o = s.take (okPrefix (sched.map WRes.ans)).sum := by
      rw [hdel]; congr 1; omega
    have hdlen : (delivered o).length = (okPrefix (sched.map WRes.ans)).sum := by
      rw [hdl, List.length_take]; have := strlen_le s; omega
    refine ⟨hret, _, e, hek, fun j hj => okPrefix_get sched j hj, hcalls, ?_, by omega, ?_⟩
    · rw [hdlen, hdl, ← take_strlen, List.take_take]; congr 1; omega
    · rw [hmsg]
      exact getLastErr_fmt _ fmtToFdWrite_lit _

/-- Why `Progress` is assumed: against an OS whose write(2) keeps returning 0 the loop is still
running after any number m of calls, having delivered nothing — in C it never returns. -/
theorem write_zero_never_returns (s fn le : Bytes) (hs : 0 < strlen s) (m : Nat) :
    ∃ o, writeLoop s (strlen s) fn le (List.replicate m (.n 0)) 0 = .ok o ∧
      o.ret = none ∧ delivered o = [] ∧ o.calls.length = m := by
  obtain ⟨o, ho, hret, hdel, _, _, _, hn, _⟩ :=
    writeLoop_sound s (strlen s) fn le (strlen_le s) (List.replicate m (.n 0)) 0 (Nat.zero_le _)
  have hz := okPrefix_zeros m
  simp only [List.map_replicate, WRes.ans, hz.1, hz.2, Nat.sub_zero, List.length_replicate,
    Nat.lt_irrefl, if_false, List.drop_zero, Nat.zero_min, List.take_zero] at hret hdel
  have h1 : ¬ strlen s ≤ 0 := by omega
  simp only [h1, if_false] at hret
  exact ⟨o, ho, hret, hdel, by simpa using (hn hret).2⟩

/-- `json_object_to_fd` on a non-NULL object is `_json_object_to_fd` with the default file name;
`json_object_to_file_ext` on an opened file is the same loop, and the descriptor is closed whenever
the call returns. -/
theorem to_fd_and_to_file_are_the_loop {τ : Type} (ser : τ → Int → Option Bytes) (le : Bytes) (obj : τ)
    (flags : Int) (sched : List WRes) (filename : Bytes) (n : Int) :
    toFd ser le (some obj) flags sched = toFdCore ser le obj flags none sched ∧
    ∀ o, toFdCore ser le obj flags (some filename) sched = .ok o →
      toFileExt ser le filename (some obj) flags (.fd n) sched =
        .ok { o with fdsLeft := if o.ret.isSome then 0 else 1 } := by
  refine ⟨rfl, ?_⟩
  intro o ho
  simp [toFileExt, ho]

/-! ## Reading -/

/-- what "parsing the same bytes from memory in one call, with a tokener of that depth" gives -/
def memParse {ρ : Type} (env : Env ρ) (depth : Int) (data : Bytes) : Option (PRes ρ) :=
  match env.tokNew depth with
  | .ok => some (env.parse depth data)
  | .fail _ => none

/-- The accumulated buffer is the concatenation of the pieces (induction over the schedule, in
`readLoop_sound`): for every schedule below the print buffer's INT_MAX band in which the OS stores at
most the sizeof(buf) bytes it is asked for, the read loop does not fault, issues exactly the calls
`readLog` lists (each asking for sizeof(buf) bytes), and agrees with the specification `specRead`:
still reading / failure and *nothing parsed* / the parser is handed all pieces up to end of file,
concatenated, once. -/
theorem read_buffer_is_concatenation {ρ : Type} (env : Env ρ) (le : Bytes) (fd depth : Int)
    (sched : List RRes) (hsz : PiecesOk sched)
    (hcap : (totalData sched : Int) + 1 ≤ Printbuf.INT_MAX - pbExtendGuard) :
    ∃ pb o, Printbuf.new = .ok pb ∧ readLoop env le fd depth sched pb initBuf = .ok o ∧
      o.reads = readLog sched ∧
      match specRead (sched.map RRes.ans) [] with
      | .pending => o.done = false ∧ o.parsed = none
      | .ioError => o.done = true ∧ o.obj = none ∧ o.parsed = none
      | .parse data => o.done = true ∧ o.parsed = some (depth, data) := by
  obtain ⟨pb, hpb, hinv, _, hc⟩ := new_refines
  have hb : pb.bpos = 0 := by have := contents_length pb hinv; rw [hc] at this; simpa using this.symm
  obtain ⟨o, ho, hreads, _, hspec⟩ := readLoop_sound env le fd depth sched pb initBuf hinv
    (by simp [initBuf]) hsz (by rw [hb]; simpa using hcap)
  refine ⟨pb, o, hpb, ho, hreads, ?_⟩
  rw [hc] at hspec
  cases hs : specRead (sched.map RRes.ans) [] with
  | pending => rw [hs] at hspec; exact ⟨hspec.1, hspec.2.2.1⟩
  | ioError => rw [hs] at hspec; exact ⟨hspec.1, hspec.2.1, hspec.2.2.1⟩
  | parse data => rw [hs] at hspec; exact ⟨hspec.1, hspec.2.1⟩

/-- C20, reading.  For every tokener/parser, every descriptor, every depth argument, every data
delivered in pieces of 1 .. JSON_FILE_BUF_SIZE bytes (`ps`, any number, any sizes) followed by end of
file — whatever the OS would have answered afterwards (`rest`) — with less than INT_MAX-8 bytes in
total: `json_object_from_fd_ex` does not fault, returns, has released its buffer and tokener, and
* the result is the result of parsing `ps.flatten` from memory in one call with a tokener created
  with the effective depth (`in_depth`, or JSON_TOKENER_DEFAULT_DEPTH for -1): same object / NULL;
* the parser was handed exactly `ps.flatten`, once; `|ps|+1` reads of sizeof(buf) bytes were issued;
* the error channel: untouched on success; the tokener's error description when the parser returned
  NULL; the allocation message when the tokener could not be created (then nothing is read). -/
theorem read_eq_memory_parse {ρ : Type} (env : Env ρ) (le : Bytes) (fd inDepth : Int)
    (ps : List Bytes) (hps : ∀ p ∈ ps, Piece p) (rest : List RRes)
    (hsmall : (ps.flatten.length : Int) + 1 ≤ Printbuf.INT_MAX - pbExtendGuard) :
    ∃ o, fromFdEx env le fd inDepth (ps.map .data ++ .data [] :: rest) = .ok o ∧
      o.done = true ∧ o.live = [] ∧ o.fdsLeft = 0 ∧
      o.obj = (match memParse env (effDepth inDepth) ps.flatten with
               | some r => r.obj
               | none => none) ∧
      match env.tokNew (effDepth inDepth) with
      | .ok =>
        o.parsed = some (effDepth inDepth, ps.flatten) ∧
        o.reads = ps.map (fun p => (fileBufSize, (p.length : Int))) ++ [(fileBufSize, 0)] ∧
        o.lastErr = (match (env.parse (effDepth inDepth) ps.flatten).obj with
          | none => setLastErr (fmt fmtFromFdParse
              [.s (env.errDesc (env.parse (effDepth inDepth) ps.flatten).err)])
          | some _ => le)
      | .fail e =>
        o.parsed = none ∧ o.reads = [] ∧
        o.lastErr = setLastErr (fmt fmtFromFdTokNew [.d (effDepth inDepth), .s e]) := by
  obtain ⟨pb, hpb, hinv, _, hc⟩ := new_refines
  have hb : pb.bpos = 0 := by have := contents_length pb hinv; rw [hc] at this; simpa using this.symm
  have hps1 : ∀ p ∈ ps, 1 ≤ p.length := fun p hp => (hps p hp).1
  unfold fromFdEx memParse
  simp only [hpb]
  cases htn : env.tokNew (effDepth inDepth) with
  | fail e => exact ⟨_, rfl, rfl, rfl, rfl, rfl, rfl, rfl, rfl⟩
  | ok =>
    simp only
    obtain ⟨o, ho, hreads, hfd, hspec⟩ := readLoop_sound env le fd (effDepth inDepth)
      (ps.map .data ++ .data [] :: rest) pb initBuf hinv (by simp [initBuf])
      (piecesOk_pieces ps hps _ rest (Or.inl rfl))
      (by rw [hb, totalData_pieces ps hps1 _ rest (Or.inl rfl)]; simpa using hsmall)
    have hsr : specRead ((ps.map RRes.data ++ RRes.data [] :: rest).map RRes.ans) (contents pb) = .parse ps.flatten := by
      have := specRead_pieces ps hps1 (rest.map RRes.ans) (contents pb)
      rw [hc] at this
      simpa [RRes.ans, List.map_append, Function.comp_def, hc] using this
    rw [hsr] at hspec
    obtain ⟨h1, h2, h3, h4, h5⟩ := hspec
    refine ⟨o, ho, h1, h4, hfd, h3, h2, ?_, h5⟩
    rw [hreads, readLog_pieces ps hps1 _ rest (Or.inl rfl)]
    simp [readLog]

/-- "with the configured depth limit applied": -1 selects JSON_TOKENER_DEFAULT_DEPTH, anything else is
passed to json_tokener_new_ex unchanged (`read_eq_memory_parse` then says the parser runs with it). -/
theorem depth_applied (d : Int) :
    effDepth (-1) = tokenerDefaultDepth ∧ (d ≠ -1 → effDepth d = d) := by
  constructor
  · simp [effDepth]
  · intro h; simp [effDepth, h]

/-- The same, stated for a byte source: whatever `data` a file or pipe holds and however many bytes
(≥ 1 each) it chooses to hand over per call — `sizes`, any list long enough to reach the end —
reading it through the descriptor gives the in-memory parse of `data`. -/
theorem read_eq_memory_parse_source {ρ : Type} (env : Env ρ) (le : Bytes) (fd inDepth : Int) (data e : Bytes)
    (sizes : List (Option Nat)) (hpos : ∀ x ∈ sizes, ∃ k, x = some k ∧ 1 ≤ k)
    (hlen : data.length < sizes.length)
    (hsmall : (data.length : Int) + 1 ≤ Printbuf.INT_MAX - pbExtendGuard) :
    ∃ o, fromFdEx env le fd inDepth (serveR e fileBufSize data sizes) = .ok o ∧
      o.done = true ∧ o.live = [] ∧
      o.obj = (match memParse env (effDepth inDepth) data with
               | some r => r.obj
               | none => none) ∧
      (env.tokNew (effDepth inDepth) = .ok → o.parsed = some (effDepth inDepth, data)) := by
  obtain ⟨ps, rest, hs, hflat, hpieces⟩ := serve_pieces fileBufSize fileBuf_pos sizes data hpos hlen
  have hsr : serveR e fileBufSize data sizes =
      ps.map .data ++ .data [] :: rest.map (toRRes e) := by
    unfold serveR
    rw [hs]
    simp [List.map_append, Function.comp_def, toRRes]
  obtain ⟨o, ho, h1, h2, _, h3, h4⟩ := read_eq_memory_parse env le fd inDepth ps
    (fun p hp => hpieces p hp) (rest.map (toRRes e))
    (by rw [hflat]; exact hsmall)
  rw [hflat] at h3 h4
  refine ⟨o, by rw [hsr]; exact ho, h1, h2, h3, ?_⟩
  intro hok
  rw [hok] at h4
  exact h4.1

/-! ## Failures are reported, nothing is leaked -/

/-- A read(2) failure after any number of delivered pieces: NULL, the "error reading fd" message
(non-empty), the partial text is *not* parsed, buffer and tokener are released. -/
theorem read_error_reported {ρ : Type} (env : Env ρ) (le : Bytes) (fd inDepth : Int)
    (ps : List Bytes) (hps : ∀ p ∈ ps, Piece p) (e : Bytes) (rest : List RRes)
    (htok : env.tokNew (effDepth inDepth) = .ok)
    (hsmall : (ps.flatten.length : Int) + 1 ≤ Printbuf.INT_MAX - pbExtendGuard) :
    ∃ o, fromFdEx env le fd inDepth (ps.map .data ++ .err e :: rest) = .ok o ∧
      o.done = true ∧ o.obj = none ∧ o.parsed = none ∧ o.live = [] ∧
      o.reads = ps.map (fun p => (fileBufSize, (p.length : Int))) ++ [(fileBufSize, -1)] ∧
      o.lastErr = setLastErr (fmt fmtFromFdRead [.d fd, .s e]) ∧ getLastErr o.lastErr ≠ none := by
  obtain ⟨pb, hpb, hinv, _, hc⟩ := new_refines
  have hb : pb.bpos = 0 := by have := contents_length pb hinv; rw [hc] at this; simpa using this.symm
  have hps1 : ∀ p ∈ ps, 1 ≤ p.length := fun p hp => (hps p hp).1
  unfold fromFdEx
  simp only [hpb, htok]
  obtain ⟨o, ho, hreads, _, hspec⟩ := readLoop_sound env le fd (effDepth inDepth)
    (ps.map .data ++ .err e :: rest) pb initBuf hinv (by simp [initBuf])
    (piecesOk_pieces ps hps _ rest (Or.inr ⟨e, rfl⟩))
    (by rw [hb, totalData_pieces ps hps1 _ rest (Or.inr ⟨e, rfl⟩)]; simpa using hsmall)
  have hsr : specRead ((ps.map RRes.data ++ RRes.err e :: rest).map RRes.ans) (contents pb) = .ioError := by
    have := specRead_pieces_err ps hps1 (rest.map RRes.ans) (contents pb)
    simpa [RRes.ans, List.map_append, Function.comp_def] using this
  rw [hsr] at hspec
  obtain ⟨h1, h2, h3, h4, _⟩ := hspec
  -- the message: the first failing answer is `e` (re-run the loop over the pieces)
  have hmsg : o.lastErr = setLastErr (fmt fmtFromFdRead [.d fd, .s e]) := by
    clear hsr h1 h2 h3 h4 hreads hc
    have key : ∀ (ps : List Bytes), (∀ p ∈ ps, Piece p) → ∀ (pb : Printbuf.Pb) (buf : Bytes) (o : ROut ρ),
        Inv pb → buf.length = fileBufSize →
        (pb.bpos : Int) + ps.flatten.length + 1 ≤ Printbuf.INT_MAX - pbExtendGuard →
        readLoop env le fd (effDepth inDepth) (ps.map .data ++ .err e :: rest) pb buf = .ok o →
        o.lastErr = setLastErr (fmt fmtFromFdRead [.d fd, .s e]) := by
      intro ps
      induction ps with
      | nil =>
        intro _ pb buf o _ _ _ ho
        simp only [List.map_nil, List.nil_append, readLoop] at ho
        cases ho; rfl
      | cons p ps ih =>
        intro hps pb buf o hinv hbuf hcap ho
        cases p with
        | nil => have := (hps [] (by simp)).1; simp at this
        | cons b t =>
          rcases readLoop_data_step env le fd (effDepth inDepth) b t (ps.map .data ++ .err e :: rest) pb buf hinv hbuf
            (hps _ (by simp)).2 with ⟨pb', hinv', _, hb', heq⟩ | ⟨hbig, _⟩
          · simp only [List.map_cons, List.cons_append] at ho
            rw [heq] at ho
            cases hrl : readLoop env le fd (effDepth inDepth) (ps.map .data ++ .err e :: rest) pb' (bufAfter buf (b :: t)) with
            | fault w => rw [hrl] at ho; simp [addReads] at ho
            | ok o' =>
              rw [hrl] at ho
              simp only [addReads] at ho
              cases ho
              exact ih (fun q hq => hps q (by simp [hq])) pb' _ o' hinv'
                (by rw [bufAfter_length _ _ (by have := (hps _ (List.mem_cons_self)).2; omega)]; exact hbuf)
                (by rw [hb']; simp only [List.flatten_cons, List.length_append] at hcap; push_cast at hcap ⊢; omega)
                hrl
          · exfalso
            simp only [List.flatten_cons, List.length_append] at hcap
            push_cast at hcap
            omega
    exact key ps hps pb initBuf o hinv (by simp [initBuf]) (by rw [hb]; simpa using hsmall) ho
  refine ⟨o, ho, h1, h2, h3, h4, ?_, hmsg, ?_⟩
  · rw [hreads, readLog_pieces ps hps1 _ rest (Or.inr ⟨e, rfl⟩)]
    simp [readLog]
  · rw [hmsg]
    exact getLastErr_fmt _ fmtFromFdRead_lit _

/-- C20, failure reporting and leak freedom, for *every* sequence of read(2) answers (any length, any
piece sizes up to sizeof(buf), failures and end of file anywhere, no size limit — beyond INT_MAX-8
bytes the print buffer refuses and that is reported like any other failure) and every answer of
open(2):
* `json_object_from_fd_ex` / `json_object_from_file` never fault; when they return, the print buffer
  and the tokener have been released and the descriptor opened by `from_file` is closed;
* a NULL result — read error, unopenable file, parser returned NULL (parse error), tokener could not be
  created, buffer refused to grow — always comes with a non-empty `json_util_get_last_err()`;
* `json_object_to_file_ext` on an unopenable file, and both writers on a NULL object, return -1 with a
  non-empty message and write nothing. -/
theorem io_errors_reported {ρ τ : Type} (env : Env ρ) (ser : τ → Int → Option Bytes) (le : Bytes)
    (fd inDepth : Int) (filename : Bytes) (op : OpenRes) (sched : List RRes) (hsz : PiecesOk sched) :
    (∃ o, fromFdEx env le fd inDepth sched = .ok o ∧
        (o.done = true → o.live = [] ∧ o.fdsLeft = 0 ∧ (o.obj = none → getLastErr o.lastErr ≠ none))) ∧
    (∃ o, fromFile env le filename op sched = .ok o ∧
        (o.done = true → o.live = [] ∧ o.fdsLeft = 0 ∧ (o.obj = none → getLastErr o.lastErr ≠ none)) ∧
        (∀ e, op = .err e → o.done = true ∧ o.obj = none ∧ o.reads = [] ∧
          o.lastErr = setLastErr (fmt fmtFromFileOpen [.s filename, .s e]))) ∧
    (∀ (obj : Option τ) (flags : Int) (ws : List WRes) (e : Bytes),
      ∃ o, toFileExt ser le filename obj flags (.err e) ws = .ok o ∧
        o.ret = some (-1) ∧ o.calls = [] ∧ o.fdsLeft = 0 ∧ getLastErr o.lastErr ≠ none) ∧
    (∀ (flags : Int) (ws : List WRes) (op' : OpenRes),
      (∃ o, toFd ser le none flags ws = .ok o ∧ o.ret = some (-1) ∧ o.calls = [] ∧ getLastErr o.lastErr ≠ none) ∧
      (∃ o, toFileExt ser le filename none flags op' ws = .ok o ∧ o.ret = some (-1) ∧ o.calls = [] ∧
        getLastErr o.lastErr ≠ none)) := by
  have hne : ∀ l : Bytes, l ≠ [] → getLastErr l ≠ none := by
    intro l hl; simp [getLastErr, hl]
  -- json_object_from_fd_ex with any depth argument
  have hfd : ∀ (fd' d : Int), ∃ o, fromFdEx env le fd' d sched = .ok o ∧
      (o.done = true → o.live = [] ∧ o.fdsLeft = 0 ∧ (o.obj = none → getLastErr o.lastErr ≠ none)) := by
    intro fd' d
    obtain ⟨pb, hpb, hinv, _, _⟩ := new_refines
    unfold fromFdEx
    simp only [hpb]
    cases env.tokNew (effDepth d) with
    | fail e =>
      refine ⟨_, rfl, fun _ => ⟨rfl, rfl, fun _ => hne _ (setLastErr_fmt_ne _ fmtFromFdTokNew_lit _)⟩⟩
    | ok =>
      obtain ⟨o, ho, hfd0, h1, _⟩ := readLoop_total env le fd' (effDepth d) sched pb initBuf hinv
        (by simp [initBuf]) hsz
      exact ⟨o, ho, fun hd => ⟨(h1 hd).1, hfd0, fun hn => hne _ ((h1 hd).2 hn)⟩⟩
  refine ⟨hfd fd inDepth, ?_, ?_, ?_⟩
  · cases op with
    | err e =>
      refine ⟨_, rfl, fun _ => ⟨rfl, rfl, fun _ => hne _ (setLastErr_fmt_ne _ fmtFromFileOpen_lit _)⟩, ?_⟩
      intro e' he; cases he; exact ⟨rfl, rfl, rfl, rfl⟩
    | fd n =>
      obtain ⟨o, ho, h1⟩ := hfd n (-1)
      refine ⟨{ o with fdsLeft := if o.done then 0 else 1 }, by simp [fromFile, fromFd, ho], ?_, ?_⟩
      · intro hd
        simp only at hd
        obtain ⟨h2, _, h4⟩ := h1 hd
        exact ⟨h2, by simp [hd], h4⟩
      · intro e he; cases he
  · intro obj flags ws e
    cases obj with
    | none => exact ⟨_, rfl, rfl, rfl, rfl, hne _ (setLastErr_fmt_ne _ fmtToFileNull_lit _)⟩
    | some o => exact ⟨_, rfl, rfl, rfl, rfl, hne _ (setLastErr_fmt_ne _ fmtToFileOpen_lit _)⟩
  · intro flags ws op'
    exact ⟨⟨_, rfl, rfl, rfl, hne _ (setLastErr_fmt_ne _ fmtToFdNull_lit _)⟩,
      ⟨_, rfl, rfl, rfl, hne _ (setLastErr_fmt_ne _ fmtToFileNull_lit _)⟩⟩

/-- a parse error in particular: the parser returning NULL makes the call return NULL with the
tokener's error description as message -/
theorem parse_error_reported {ρ : Type} (env : Env ρ) (le : Bytes) (fd inDepth : Int)
    (ps : List Bytes) (hps : ∀ p ∈ ps, Piece p) (rest : List RRes)
    (hsmall : (ps.flatten.length : Int) + 1 ≤ Printbuf.INT_MAX - pbExtendGuard)
    (htok : env.tokNew (effDepth inDepth) = .ok)
    (hnull : (env.parse (effDepth inDepth) ps.flatten).obj = none) :
    ∃ o, fromFdEx env le fd inDepth (ps.map .data ++ .data [] :: rest) = .ok o ∧ o.obj = none ∧
      o.lastErr = setLastErr (fmt fmtFromFdParse [.s (env.errDesc (env.parse (effDepth inDepth) ps.flatten).err)]) ∧
      getLastErr o.lastErr ≠ none := by
  obtain ⟨o, ho, _, _, _, hobj, h⟩ := read_eq_memory_parse env le fd inDepth ps hps rest hsmall
  rw [htok] at h
  obtain ⟨_, _, hle⟩ := h
  simp only [memParse, htok, hnull] at hobj
  simp only [hnull] at hle
  refine ⟨o, ho, hobj, hle, ?_⟩
  rw [hle]
  exact getLastErr_fmt _ fmtFromFdParse_lit _

/-! ## Non-vacuity -/

/-- a 5-byte serialization written against answers 1, 2, 100: three chained calls, everything delivered -/
example :
    (match toFd (fun (_ : Unit) _ => some [91, 49, 44, 50, 93]) [] (some ()) 0 [.n 1, .n 2, .n 100] with
     | .ok o => o.ret == some 0 && delivered o == [91, 49, 44, 50, 93] && o.calls.length == 3
     | .fault _ => false) = true := by decide

/-- the same with a failure at the third call: -1, the 3-byte prefix delivered, a message is set -/
example :
    (match toFd (fun (_ : Unit) _ => some [91, 49, 44, 50, 93]) [] (some ()) 0 [.n 1, .n 2, .err [69]] with
     | .ok o => o.ret == some (-1) && delivered o == [91, 49, 44] && (getLastErr o.lastErr).isSome
     | .fault _ => false) = true := by decide

/-- a toy parser (the "tree" is the number of bytes it was given); three pieces then end of file -/
def exEnv : Env Nat :=
  { tokNew := fun d => if d < 1 then .fail [] else .ok
    parse := fun _ data => ⟨some data.length, 0⟩
    errDesc := fun _ => []
    strerror := fun _ => [] }

set_option maxRecDepth 20000 in
example :
    (match fromFdEx exEnv [] 5 (-1) [.data [91], .data [49, 44], .data [50, 93], .data [], .err [69]] with
     | .ok o => o.done && o.obj == some 5 && o.parsed == some (32, [91, 49, 44, 50, 93]) && o.reads.length == 4
     | .fault _ => false) = true := by decide


/-- every source fact this property's model consumes was located in the current source by tools/extract (a fact that is not
found is emitted with a placeholder value; this obligation then fails and the check uses the reference model) -/
theorem source_facts_located_c20 : JsonC.Generated.factsFound_fdio = true := by decide

end JsonC.FdIO
