/-
  C18  Threaded build: shared reference counts are atomic; the hash seed is set once.   (partial)

  Property theorems only.  Model: JsonC/Model/Threads.lean - an interleaving semantics over per-thread
  programs of json_object_get / json_object_put / other uses of shared nodes (`step`, `run`; a schedule is
  any list of thread ids, so "for every schedule" = "for every interleaving of any number of threads"),
  and of the seed protocol of lh_char_hash (`sstep`, `seedRun`).

  Tie to the source (regenerated on every run into Generated/Structure.lean from the text preprocessed
  with -DENABLE_THREADING): `thrGetRefAccesses`, `thrPutRefAccesses`, `thrSeedAccesses` list EVERY access to
  `_ref_count` in json_object_get/put and to `random_seed` in lh_char_hash with its kind; `refUpdateKind`,
  `seedShapeOk`, `thrSeedLoopPresent`, `thrSeedRereadAfterCas` are computed from them.  The theorems are
  stated for the semantics those facts select (`refSem`, `seedStep`) and discharge `refSem = atomic`
  etc. by `decide` - a source change that turns the update into a plain `++`, a load + CAS, or hashes with a
  local copy of the seed makes this file stop compiling at `refUpdate_atomic` / `seed_protocol`.

  PARTIAL, by nature: that `__sync_*` / `__atomic_*` builtins are indivisible on the hardware, and that no
  code outside the three anchored functions writes the two locations while threads run, cannot be proved
  here; they are the assumptions under which the model is the code (supporting run: ThreadSanitizer +
  stress harness, tools/props/c18.py).
-/
import JsonC.Lemmas.ThreadsRef
import JsonC.Lemmas.ThreadsSeed
import JsonC.Lemmas.ThreadsDisjoint

namespace JsonC.Threads
open JsonC Generated

/-! ### the tie: what the current source does -/

/-- json_object_get and json_object_put each update `_ref_count` with exactly one atomic
read-modify-write (+1 / -1), and put tears the node down iff the value it wrote is 0. -/
theorem refUpdate_atomic : refUpdateKind = AccessKind.atomicRMW := by decide

theorem refSem_atomic : refSem = Sem.atomic := by decide

/-- lh_char_hash follows the modelled protocol: test for -1, generator inside the retry loop,
compare-and-swap from -1 to the candidate, and the seed handed to hashlittle is read again afterwards. -/
theorem seed_protocol : seedShapeOk = true ∧ seedStep = sstep true true := by
  refine ⟨by decide, rfl⟩

/-! ### reference counts -/

/-- No update is lost, under every interleaving: at every moment of every schedule the counter equals
its initial value plus the gets minus the puts completed so far, and the run never faults (no assertion
failure, no access to a freed node, no counter wrap-around). -/
theorem no_lost_update {c0 : Cfg} {H0 : Nat → Nat → Nat} (hs : Start c0 H0) (sched : List Nat)
    (n : Nat) (hn : n < c0.nodes.length) :
    (run refSem c0 sched).fault = none ∧
    cntAt (run refSem c0 sched) n + putsOn (run refSem c0 sched).trace n
      = cntAt c0 n + getsOn (run refSem c0 sched).trace n := by
  rw [refSem_atomic]
  obtain ⟨H, h⟩ := inv_run (inv_start hs) sched
  exact ⟨h.nofault, h.acct n hn⟩

/-- The node is destroyed exactly once and only after the last release, under every interleaving:
the number of teardowns equals the number of `__sync_sub_and_fetch` calls that observed 0, that number is
at most 1, it is 1 exactly when the counter has reached 0 - i.e. when every reference ever handed out or
acquired has been released - and (`okTrace`) no operation on the node follows the put that observed 0. -/
theorem destroy_once_after_last {c0 : Cfg} {H0 : Nat → Nat → Nat} (hs : Start c0 H0) (sched : List Nat)
    (n : Nat) (hn : n < c0.nodes.length) :
    destroyedAt (run refSem c0 sched) n = zeroPutsOn (run refSem c0 sched).trace n ∧
    destroyedAt (run refSem c0 sched) n ≤ 1 ∧
    (0 < cntAt c0 n → (destroyedAt (run refSem c0 sched) n = 1 ↔ cntAt (run refSem c0 sched) n = 0)) ∧
    (destroyedAt (run refSem c0 sched) n = 1 →
      putsOn (run refSem c0 sched).trace n = cntAt c0 n + getsOn (run refSem c0 sched).trace n) ∧
    okTrace (run refSem c0 sched).trace := by
  rw [refSem_atomic]
  obtain ⟨H, h⟩ := inv_run (inv_start hs) sched
  have hd1 := h.d1 n hn
  have hdead := h.dead n hn
  have halive := h.alive n hn
  have hacct := h.acct n hn
  refine ⟨h.dz n hn, hd1, ?_, ?_, h.tr⟩
  · intro hpos
    constructor
    · intro h1; exact hdead (by omega)
    · intro h0
      by_cases hz : destroyedAt (run Sem.atomic c0 sched) n = 0
      · have := halive hz h0; omega
      · omega
  · intro h1
    have := hdead (by omega)
    omega

/-- `okTrace` spelled out: whatever was executed after a put that observed 0 (`newer`) does not touch that
node - the destroying put is the last operation on the node, in every schedule. -/
theorem destroying_put_is_last {c0 : Cfg} {H0 : Nat → Nat → Nat} (hs : Start c0 H0) (sched : List Nat)
    (newer older : List Ev) (e : Ev) (n : Nat)
    (htr : (run refSem c0 sched).trace = newer ++ e :: older) (hp : e.op = .put n) (hz : e.new = 0) :
    ∀ e', e' ∈ newer → e'.op.node ≠ n := by
  rw [refSem_atomic] at htr
  obtain ⟨H, h⟩ := inv_run (inv_start hs) sched
  have := h.tr
  rw [htr] at this
  exact okTrace_last this hp hz

/-- The prediction the stress harness is compared with: when all programs have run to completion the
counter of every node is the same for every schedule, namely initial + all gets - all puts of the programs. -/
theorem final_count_schedule_independent {c0 : Cfg} {H0 : Nat → Nat → Nat} (hs : Start c0 H0) (sched : List Nat)
    (hfin : finished (run refSem c0 sched)) (n : Nat) (hn : n < c0.nodes.length) :
    cntAt (run refSem c0 sched) n + sumTo c0.threads.length (fun t => putsIn (progAt c0 t) n)
      = cntAt c0 n + sumTo c0.threads.length (fun t => getsIn (progAt c0 t) n) := by
  rw [refSem_atomic] at hfin ⊢
  obtain ⟨H, h⟩ := inv_run (inv_start hs) sched
  have hg := h.remG n
  have hp := h.remP n
  rw [sumTo_eq_zero (fun s _ => by rw [hfin s]; rfl)] at hg hp
  have := h.acct n hn
  omega

/-- Threads working on disjoint trees never interfere (any update semantics): whatever the threads of a
schedule do, a node none of their programs mentions keeps its counter and is not destroyed. -/
theorem disjoint_trees_do_not_interfere (sem : Sem) (c : Cfg) (sched : List Nat) (n : Nat)
    (h : ∀ t, t ∈ sched → ∀ o, o ∈ progAt c t → o.node ≠ n) :
    (run sem c sched).nodes[n]? = c.nodes[n]? :=
  run_other_node sem c sched n h

/-! #### the model can exhibit the failure: plain (`++` / `--`) updates lose references -/

/-- two threads, each owning one reference to node 0 (counter 2), each doing get; put; put -/
def lostCfg : Cfg :=
  { nodes := [⟨2, 0⟩],
    threads := [⟨[.get 0, .put 0, .put 0], .start⟩, ⟨[.get 0, .put 0, .put 0], .start⟩] }

def lostOwn : Nat → Nat → Nat := fun t n => if n = 0 ∧ t < 2 then 1 else 0

/-- both threads pass the assert and load 2, then both store 3 -/
def lostSched1 : List Nat := [0, 0, 1, 1, 0, 1]
/-- ... thread 0 releases its two references (3 -> 1), thread 1 releases one (1 -> 0: teardown) and then
uses its second reference -/
def lostSched2 : List Nat := lostSched1 ++ [0, 0, 0, 0, 0, 0] ++ [1, 1, 1] ++ [1]

/-- the hypotheses of the theorems above are satisfiable: a concrete well-formed start -/
theorem start_nonvacuous : Start lostCfg lostOwn where
  nofault := rfl
  notrace := rfl
  pcs := fun t th h => by
    rcases t with _ | _ | t <;> simp [lostCfg] at h <;> subst h <;> rfl
  ok := fun t ht => by
    have : t = 0 ∨ t = 1 := by simp [lostCfg] at ht; omega
    rcases this with rfl | rfl <;> simp [progAt, lostCfg, OkProg, upd, lostOwn]
  dom := fun t n h => by
    simp only [lostOwn] at h
    split at h
    · rename_i hc; simp [lostCfg]; omega
    · omega
  cnt := fun n hn => by
    have : n = 0 := by simp [lostCfg] at hn; omega
    subst this; simp [cntAt, lostCfg, sumTo, lostOwn]
  fresh := fun n hn => by
    have : n = 0 := by simp [lostCfg] at hn; omega
    subst this; rfl
  bound := fun n hn => by
    have : n = 0 := by simp [lostCfg] at hn; omega
    subst this
    have : sumTo lostCfg.threads.length (fun t => lostOwn t 0 + getsIn (progAt lostCfg t) 0) = 4 := by
      simp [lostCfg, sumTo, lostOwn, progAt, getsIn]
    rw [this]; decide

/-- Under the load/store semantics of a plain `++jso->_ref_count` the same well-formed start loses an
update (four references owned, counter 3) and the node is torn down while thread 1 still owns a reference,
which it then uses (access to freed memory).  By `no_lost_update` no schedule does this under `refSem`. -/
theorem plain_update_loses_reference :
    Start lostCfg lostOwn ∧
    cntAt (run .split lostCfg lostSched1) 0 = 3 ∧
    destroyedAt (run .split lostCfg lostSched2) 0 = 1 ∧
    progAt (run .split lostCfg lostSched2) 1 = [.put 0] ∧
    (run .split lostCfg lostSched2).fault.isSome = true :=
  ⟨start_nonvacuous, by decide, by decide, by decide, by decide⟩

/-! ### the hash seed -/

/-- The seed is fixed exactly once per process, under every interleaving of any number of threads entering
lh_char_hash: at any moment (`s1`) and any later moment (`s1 ++ s2`)
 * `random_seed` has been written at most once, from the unset value -1 to a value different from -1;
 * once set it never changes;
 * every hash computed so far, by any thread, used a value that is not -1, equals the published seed, and
   equals the seed at every later time - so a key hashes identically in every thread at every time. -/
theorem seed_stable {c0 : SCfg} (hs : SStart c0) (s1 s2 : List Nat) :
    (seedRun c0 (s1 ++ s2)).writes.length ≤ 1 ∧
    (∀ w, w ∈ (seedRun c0 (s1 ++ s2)).writes → w.1 = -1 ∧ w.2 ≠ -1 ∧ w.2 = (seedRun c0 (s1 ++ s2)).seed) ∧
    ((seedRun c0 s1).seed ≠ -1 → (seedRun c0 (s1 ++ s2)).seed = (seedRun c0 s1).seed) ∧
    (∀ e, e ∈ (seedRun c0 s1).hashes →
      e.used ≠ -1 ∧ e.used = (seedRun c0 s1).seed ∧ e.used = (seedRun c0 (s1 ++ s2)).seed) := by
  simp only [seedRun_eq seed_protocol.2]
  have h1 := sinv_run (sinv_start hs) s1
  have h2 := sinv_run (sinv_start hs) (s1 ++ s2)
  have happ := srun_append true true c0 s1 s2
  have hfix : (srun true true c0 s1).seed ≠ -1 → (srun true true c0 (s1 ++ s2)).seed = (srun true true c0 s1).seed := by
    intro hne; rw [happ]; exact srun_seed_fixed true true hne s2
  refine ⟨?_, ?_, hfix, ?_⟩
  · by_cases hz : (srun true true c0 (s1 ++ s2)).seed = -1
    · rw [(h2.unset hz).2]; simp
    · rw [(h2.set hz).1]; simp
  · intro w hw
    by_cases hz : (srun true true c0 (s1 ++ s2)).seed = -1
    · rw [(h2.unset hz).2] at hw; cases hw
    · rw [(h2.set hz).1] at hw
      cases hw with
      | head => exact ⟨rfl, hz, rfl⟩
      | tail _ h => cases h
  · intro e he
    by_cases hz : (srun true true c0 s1).seed = -1
    · rw [(h1.unset hz).1] at he; cases he
    · have hu := (h1.set hz).2 e he
      exact ⟨by rw [hu]; exact hz, hu, by rw [hfix hz]; exact hu⟩

/-- two threads race on the first hash with candidates 5 and 7 -/
def seedRace : SCfg := { seed := -1, threads := [⟨1, [5], .idle⟩, ⟨1, [7], .idle⟩] }
/-- both enter, both see -1, both generate, both CAS (thread 0 wins), both hash -/
def seedRaceSched : List Nat := [0, 1, 0, 1, 0, 1, 0, 1, 0, 1]

/-- The "re-read after the CAS" fact is needed: hashing with a local copy (first read, or the thread's own
candidate) lets the thread that loses the compare-and-swap hash with its discarded candidate. -/
theorem seed_local_copy_unstable :
    (srun true false seedRace seedRaceSched).seed = 5 ∧
    (srun true false seedRace seedRaceSched).hashes = [⟨1, 7⟩, ⟨0, 5⟩] ∧
    (srun true true seedRace seedRaceSched).hashes = [⟨1, 5⟩, ⟨0, 5⟩] := by decide

/-- The retry loop is needed: a generator result of -1 would be "published" as still-unset, hashed with,
and then replaced by another thread's candidate. -/
theorem seed_without_retry_loop_unstable :
    (srun false true { seed := -1, threads := [⟨1, [-1], .idle⟩, ⟨1, [5], .idle⟩] }
      [0, 0, 0, 0, 0, 1, 1, 1, 1, 1]).hashes = [⟨1, 5⟩, ⟨0, -1⟩] := by decide

/-! ### freedom from data races, over the extracted access lists -/

/-- No plain access to `_ref_count` in json_object_get/put, nor to `random_seed` in lh_char_hash, can be
concurrent with a write to the same location: every pair of accesses of which one writes consists of two
atomic accesses; and each of the three functions contains exactly one writing access (so none was missed
by an empty extraction). -/
def RaceFreeStatement : Prop :=
  conflictFree (thrGetRefAccesses ++ thrPutRefAccesses) = true ∧ conflictFree thrSeedAccesses = true ∧
  (updatesOf thrGetRefAccesses).length = 1 ∧ (updatesOf thrPutRefAccesses).length = 1 ∧
  (updatesOf thrSeedAccesses).length = 1

theorem race_free : RaceFreeStatement := by
  unfold RaceFreeStatement
  decide

/-- what `conflictFree` says, access by access -/
theorem race_free_meaning (l : List AccessKind) (h : conflictFree l = true) (a b : AccessKind)
    (ha : a ∈ l) (hb : b ∈ l) (hw : isWrite a = true ∨ isWrite b = true) :
    isAtomic a = true ∧ isAtomic b = true := by
  simp only [conflictFree, List.all_eq_true] at h
  have := h a ha b hb
  rcases hw with hw | hw <;> simp [hw] at this <;> exact this

/-- the definition is not vacuous: it rejects the shape the code had before the atomic loads were
introduced (`assert(jso->_ref_count ..)` / `if (random_seed == -1)` read plainly next to the atomic update) -/
theorem race_free_rejects_plain_read_next_to_atomic_update :
    conflictFree [AccessKind.plainRead, AccessKind.atomicRMW] = false ∧
    conflictFree [AccessKind.plainRead, AccessKind.cas, AccessKind.plainRead] = false := by decide

/-! ### non-vacuity -/

/-- a concrete instance of the hypotheses (`Start`), run to completion by one particular schedule: nothing
is lost (2 + 2 gets - 4 puts = 0), the node is destroyed exactly once, by the last put -/
example :
    Start lostCfg lostOwn ∧
    finished (run refSem lostCfg [0, 0, 1, 1, 1, 1, 0, 0, 1, 1, 0, 0]) ∧
    cntAt (run refSem lostCfg [0, 0, 1, 1, 1, 1, 0, 0, 1, 1, 0, 0]) 0 = 0 ∧
    destroyedAt (run refSem lostCfg [0, 0, 1, 1, 1, 1, 0, 0, 1, 1, 0, 0]) 0 = 1 ∧
    ((run refSem lostCfg [0, 0, 1, 1, 1, 1, 0, 0, 1, 1, 0, 0]).trace.head?.map (·.new)) = some 0 := by
  refine ⟨start_nonvacuous, ?_, by decide, by decide, by decide⟩
  intro t
  rcases t with _ | _ | t
  · decide
  · decide
  · rfl

example : SStart seedRace := ⟨rfl, rfl, rfl, fun t th h => by
  rcases t with _ | _ | t <;> simp [seedRace] at h <;> subst h <;> rfl⟩


/-- every source fact this property's model consumes was located in the current source by tools/extract (a fact that is not
found is emitted with a placeholder value; this obligation then fails and the check uses the reference model) -/
theorem source_facts_located_c18 : JsonC.Generated.factsFound_thr = true := by decide

end JsonC.Threads
