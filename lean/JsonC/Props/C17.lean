/-
  C17  The tree visitor performs the documented traversal for any tree and callback.

  Property theorems only.  Model: JsonC/Model/Visit.lean (`visit`, `visitNode`, `visitElems`,
  `visitMembers` = json_c_visit / _json_c_visit and its two child loops, statement by statement).
  Spec: JsonC/Spec/Traversal.lean (`events` = the tree flattened to arrivals/departures in depth-first
  document order, `step` = the documented reaction to each return code, `traverse` = the machine
  folded over the event list).  A user function is any `cb : σ → Call → Int × σ`; `withLog cb`
  is the same function that also records every call with the code it returned, so statements
  about "the sequence of calls" are statements about the second component of the final state.
  The five codes are the generated constants of `Generated/Consts.lean`; every theorem uses only
  that they are pairwise distinct (`codes_distinct`).
-/
import JsonC.Lemmas.Visit

namespace JsonC.Visit
open JsonC Generated Traversal

/-! ### the codes -/

/-- the five return codes of json_visit.h are pairwise distinct, the flag is not 0, the error result
is negative -/
theorem codes_distinct :
    [visitContinue, visitSkip, visitPop, visitStop, visitError].Pairwise (· ≠ ·) ∧
    visitSecond ≠ 0 ∧ visitError < 0 := by decide

/-! ### the visitor is the reference traversal -/

/-- json_c_visit = the reference traversal: same result and same final user state, for every tree,
every user function (any return values, valid or not) and every initial state. -/
theorem visit_eq_reference {σ : Type} (cb : Cb σ) (s : σ) (t : JVal) (futureFlags : Int) :
    visit cb s t futureFlags = ((traverse cb s t).1.toInt, (traverse cb s t).2) := by
  unfold visit traverse events
  have h := (sim_all cb).1 t s 0 none .root 0
  unfold run at h
  rw [h]
  dsimp only
  rcases visitNode_valid cb s t 0 none .root with h | h | h | h | h <;> rw [h] <;> simp [Mode.result, Result.toInt]

/-- … in particular the sequence of calls (each with the code returned) and the result are equal. -/
theorem visit_log_eq_reference {σ : Type} (cb : Cb σ) (s : σ) (t : JVal) (futureFlags : Int) :
    (visit (withLog cb) (s, []) t futureFlags).2.2 = (traverse (withLog cb) (s, []) t).2.2 ∧
    (visit (withLog cb) (s, []) t futureFlags).1 = (traverse (withLog cb) (s, []) t).1.toInt := by
  rw [visit_eq_reference]; exact ⟨rfl, rfl⟩

/-! ### depth-first document order, parent, key / index -/

/-- Whatever the user function returns, the calls made are calls of the event list, in its order,
none twice (the log is a sublist of the arrival/departure sequence). -/
theorem calls_in_document_order {σ : Type} (cb : Cb σ) (s : σ) (t : JVal) (futureFlags : Int) :
    ((visit (withLog cb) (s, []) t futureFlags).2.2.map (·.1)).Sublist ((events t).map Ev.call) := by
  rw [visit_eq_reference]
  obtain ⟨l', h1, h2⟩ := run_log_sublist cb (events t) ⟨.run, (s, [])⟩
  unfold traverse
  dsimp only at h1 ⊢
  unfold run at h1
  rw [h1]; simpa using h2

/-- If the user function always returns CONTINUE, every event is called, in order, and the result is 0:
every node once on arrival, every container once more on departure. -/
theorem continue_visits_every_node {σ : Type} (cb : Cb σ) (hc : ∀ s c, (cb s c).1 = visitContinue)
    (s : σ) (t : JVal) (futureFlags : Int) :
    (visit (withLog cb) (s, []) t futureFlags).1 = 0 ∧
    (visit (withLog cb) (s, []) t futureFlags).2.2 = (events t).map (fun e => (e.call, visitContinue)) := by
  rw [visit_eq_reference]
  obtain ⟨h1, h2⟩ := run_log_continue cb hc (events t) s []
  unfold traverse
  unfold run at h1 h2
  dsimp only
  rw [h1, h2]
  exact ⟨rfl, by simp⟩

/-- The arrivals of the event list are exactly the nodes of the tree in depth-first document order
(`preorder`), labelled 0, 1, 2, … in that order. -/
theorem first_visits_are_document_order (t : JVal) :
    (arrivals (events t)).map (·.val) = preorder t ∧
    (arrivals (events t)).map (·.node) = List.range t.size := by
  have h := flatten_arrivals_all.1 t 0 none .root 0
  rw [List.range_eq_range']
  exact h

/-- Every event carries the right node, parent and key / index: the node labelled `e.node` is `e.val`;
the root has no parent, key or index; otherwise the parent label names an earlier node which is an array
holding `e.val` at the reported index, or an object holding `e.val` under the reported key. -/
theorem events_name_parent_and_slot (t : JVal) : ∀ e ∈ events t, Ev.Sound (preorder t) e :=
  flatten_sound_all.1 t 0 none .root 0 (preorder t) [] [] (by simp) rfl ⟨rfl, rfl⟩

/-- A container's events are its arrival, then events of nodes strictly inside it, then its departure
(same node, parent and key / index, flagged JSON_C_VISIT_SECOND); a scalar has a single arrival. -/
theorem events_second_visit_after_children (v : JVal) (d : Nat) (p : Option Nat) (sl : Slot) (n : Nat) :
    (isContainer v = true →
      ∃ inner, (flatten v d p sl n).1 = ⟨false, d, n, v, p, sl⟩ :: inner ++ [⟨true, d, n, v, p, sl⟩] ∧
        (∀ e ∈ inner, n < e.node ∧ e.node < n + v.size ∧ e.depth > d) ∧
        (⟨true, d, n, v, p, sl⟩ : Ev).call = ⟨n, v, visitSecond, p, sl⟩ ∧
        (⟨false, d, n, v, p, sl⟩ : Ev).call = ⟨n, v, 0, p, sl⟩) ∧
    (isContainer v = false → (flatten v d p sl n).1 = [⟨false, d, n, v, p, sl⟩]) := by
  refine ⟨fun hv => ?_, fun hv => by rw [flatten_leaf v hv]⟩
  cases v with
  | arr xs =>
    refine ⟨(flattenElems xs (d + 1) n 0 (n + 1)).1, by simp [flatten], ?_, by simp [Ev.call], by simp [Ev.call]⟩
    intro e he
    have h1 := flatten_range_all.2.1 xs (d + 1) n 0 (n + 1) e he
    have h2 := flatten_depth_all.2.1 xs (d + 1) n 0 (n + 1) e he
    simp [JVal.size]; omega
  | obj kvs =>
    refine ⟨(flattenMembers kvs (d + 1) n (n + 1)).1, by simp [flatten], ?_, by simp [Ev.call], by simp [Ev.call]⟩
    intro e he
    have h1 := flatten_range_all.2.2 kvs (d + 1) n (n + 1) e he
    have h2 := flatten_depth_all.2.2 kvs (d + 1) n (n + 1) e he
    simp [JVal.size]; omega
  | _ => simp [isContainer] at hv

/-- … and so does the visitor: with a user function that always continues, the calls for a container
(anywhere in a tree) are its first call, then calls on nodes strictly inside it, then its second call
with JSON_C_VISIT_SECOND and the same parent and key / index; a scalar is called exactly once. -/
theorem second_visit_after_children {σ : Type} (cb : Cb σ) (hc : ∀ s c, (cb s c).1 = visitContinue)
    (s : σ) (log : List (Call × Int)) (v : JVal) (id : Nat) (p : Option Nat) (sl : Slot) :
    (isContainer v = true → ∃ inner,
      (visitNode (withLog cb) (s, log) v id p sl).2.2 =
        log ++ (⟨id, v, 0, p, sl⟩, visitContinue) :: inner ++ [(⟨id, v, visitSecond, p, sl⟩, visitContinue)] ∧
      ∀ x ∈ inner, id < x.1.node ∧ x.1.node < id + v.size) ∧
    (isContainer v = false →
      (visitNode (withLog cb) (s, log) v id p sl).2.2 = log ++ [(⟨id, v, 0, p, sl⟩, visitContinue)]) := by
  have hsim := (sim_all (withLog cb)).1 v (s, log) 0 p sl id
  have hlog := (run_log_continue cb hc (flatten v 0 p sl id).1 s log).2
  rw [hsim] at hlog
  dsimp only at hlog
  obtain ⟨hcont, hleaf⟩ := events_second_visit_after_children v 0 p sl id
  refine ⟨fun hv => ?_, fun hv => ?_⟩
  · obtain ⟨inner, hfl, hin, hc2, hc1⟩ := hcont hv
    refine ⟨inner.map (fun e => (e.call, visitContinue)), ?_, ?_⟩
    · rw [hlog, hfl]; simp [hc1, hc2]
    · intro x hx
      obtain ⟨e, he, rfl⟩ := List.mem_map.1 hx
      have := hin e he
      exact ⟨this.1, this.2.1⟩
  · rw [hlog, hleaf hv]; simp [Ev.call]

/-! ### skip -/

/-- SKIP returned on the first call for a node: nothing inside the node is visited and (for a container)
there is no second call — the whole visit of the subtree consists of that one call — … -/
theorem skip_omits_children {σ : Type} (cb : Cb σ) (s : σ) (v : JVal) (id : Nat) (p : Option Nat) (sl : Slot)
    (h : (cb s ⟨id, v, 0, p, sl⟩).1 = visitSkip) :
    visitNode cb s v id p sl = (visitSkip, (cb s ⟨id, v, 0, p, sl⟩).2) :=
  visitNode_first_some cb s v id p sl visitSkip (by rw [h]; simp)

/-- … and the traversal goes on with the next element / member of the containing node. -/
theorem skip_resumes_with_next_sibling {σ : Type} (cb : Cb σ) (s : σ) (pid cid : Nat) :
    (∀ (x : JVal) (xs : List JVal) (ii : Nat), (cb s ⟨cid, x, 0, some pid, .idx ii⟩).1 = visitSkip →
      visitElems cb s (x :: xs) pid ii cid =
        visitElems cb (cb s ⟨cid, x, 0, some pid, .idx ii⟩).2 xs pid (ii + 1) (cid + x.size)) ∧
    (∀ (k : Bytes) (v : JVal) (kvs : List (Bytes × JVal)), (cb s ⟨cid, v, 0, some pid, .key k⟩).1 = visitSkip →
      visitMembers cb s ((k, v) :: kvs) pid cid =
        visitMembers cb (cb s ⟨cid, v, 0, some pid, .key k⟩).2 kvs pid (cid + v.size)) := by
  refine ⟨fun x xs ii h => ?_, fun k v kvs h => ?_⟩
  · have hn := skip_omits_children cb s x cid (some pid) (.idx ii) h
    rw [visitElems_cons_next cb s x xs pid ii cid (by rw [hn]; simp), hn]
  · have hn := skip_omits_children cb s v cid (some pid) (.key k) h
    rw [visitMembers_cons_next cb s k v kvs pid cid (by rw [hn]; simp), hn]

/-- the user function that answers CONTINUE wherever `cb` answers SKIP on the first call for a scalar -/
def skipScalarAsContinue {σ : Type} (cb : Cb σ) : Cb σ := fun s c =>
  if isContainer c.val = false ∧ c.flags = 0 ∧ (cb s c).1 = visitSkip then (visitContinue, (cb s c).2) else cb s c

/-- "If the current object isn't a container, this is no different than JSON_C_VISIT_RETURN_CONTINUE." -/
theorem skip_on_scalar_is_continue {σ : Type} (cb : Cb σ) (s : σ) (t : JVal) (futureFlags : Int) :
    visit (skipScalarAsContinue cb) s t futureFlags = visit cb s t futureFlags := by
  rw [visit_eq_reference, visit_eq_reference]
  have : ∀ m, run (skipScalarAsContinue cb) m (events t) = run cb m (events t) := by
    intro m
    apply run_congr
    intro s e
    unfold fire skipScalarAsContinue
    by_cases hcond : isContainer e.call.val = false ∧ e.call.flags = 0 ∧ (cb s e.call).1 = visitSkip
    · rw [if_pos hcond]
      obtain ⟨h1, h2, h3⟩ := hcond
      have hs : e.second = false := by
        cases hsec : e.second
        · rfl
        · simp [Ev.call, hsec] at h2; exact absurd h2 codes_distinct.2.1
      have hv : isContainer e.val = false := h1
      simp [h3, react, hs, hv]
    · rw [if_neg hcond]
  unfold traverse
  unfold run at this
  rw [this]

/-! ### pop -/

/-- POP returned on the first call for a node: nothing inside the node is visited and there is no second
call for it, … -/
theorem pop_omits_own_children {σ : Type} (cb : Cb σ) (s : σ) (v : JVal) (id : Nat) (p : Option Nat) (sl : Slot)
    (h : (cb s ⟨id, v, 0, p, sl⟩).1 = visitPop) :
    visitNode cb s v id p sl = (visitPop, (cb s ⟨id, v, 0, p, sl⟩).2) :=
  visitNode_first_some cb s v id p sl visitPop (by rw [h]; simp)

/-- … the remaining siblings `post` are abandoned and the very next call is the JSON_C_VISIT_SECOND call
for the parent (here an array; `s2` is the state after the earlier elements `pre` were visited normally), … -/
theorem pop_resumes_after_parent {σ : Type} (cb : Cb σ) (s s2 : σ) (pre post : List JVal) (x : JVal)
    (id : Nat) (p : Option Nat) (sl : Slot)
    (h1 : (cb s ⟨id, .arr (pre ++ x :: post), 0, p, sl⟩).1 = visitContinue)
    (hpre : visitElems cb (cb s ⟨id, .arr (pre ++ x :: post), 0, p, sl⟩).2 pre id 0 (id + 1) = (.fin, s2))
    (hpop : (cb s2 ⟨id + 1 + JVal.sizeList pre, x, 0, some id, .idx pre.length⟩).1 = visitPop) :
    visitNode cb s (.arr (pre ++ x :: post)) id p sl =
      let s3 := (cb s2 ⟨id + 1 + JVal.sizeList pre, x, 0, some id, .idx pre.length⟩).2
      let r := cb s3 ⟨id, .arr (pre ++ x :: post), visitSecond, p, sl⟩
      (secondSwitch r.1, r.2) := by
  rw [visitNode_arr_continue cb s _ id p sl h1, visitElems_append cb (x :: post) pre _ s2 id 0 (id + 1) hpre]
  have hx := pop_omits_own_children cb s2 x (id + 1 + JVal.sizeList pre) (some id) (.idx (0 + pre.length))
    (by simpa using hpop)
  rw [visitElems_cons_brk cb s2 x post id _ _ (by rw [hx]; simp), hx]
  rw [afterLoop_not_ret _ _ _ (by intro c; simp)]
  simp

/-- … likewise for a member of an object, … -/
theorem pop_resumes_after_parent_obj {σ : Type} (cb : Cb σ) (s s2 : σ) (pre post : List (Bytes × JVal))
    (k : Bytes) (v : JVal) (id : Nat) (p : Option Nat) (sl : Slot)
    (h1 : (cb s ⟨id, .obj (pre ++ (k, v) :: post), 0, p, sl⟩).1 = visitContinue)
    (hpre : visitMembers cb (cb s ⟨id, .obj (pre ++ (k, v) :: post), 0, p, sl⟩).2 pre id (id + 1) = (.fin, s2))
    (hpop : (cb s2 ⟨id + 1 + JVal.sizeMembers pre, v, 0, some id, .key k⟩).1 = visitPop) :
    visitNode cb s (.obj (pre ++ (k, v) :: post)) id p sl =
      let s3 := (cb s2 ⟨id + 1 + JVal.sizeMembers pre, v, 0, some id, .key k⟩).2
      let r := cb s3 ⟨id, .obj (pre ++ (k, v) :: post), visitSecond, p, sl⟩
      (secondSwitch r.1, r.2) := by
  rw [visitNode_obj_continue cb s _ id p sl h1, visitMembers_append cb ((k, v) :: post) pre _ s2 id (id + 1) hpre]
  have hx := pop_omits_own_children cb s2 v (id + 1 + JVal.sizeMembers pre) (some id) (.key k) hpop
  rw [visitMembers_cons_brk cb s2 k v post id _ (by rw [hx]; simp), hx]
  rw [afterLoop_not_ret _ _ _ (by intro c; simp)]

/-- … and POP for the root (which has no parent to resume in) ends the traversal with success. -/
theorem pop_at_root_is_success {σ : Type} (cb : Cb σ) (s : σ) (t : JVal) (futureFlags : Int)
    (h : (cb s ⟨0, t, 0, none, .root⟩).1 = visitPop) :
    visit cb s t futureFlags = (0, (cb s ⟨0, t, 0, none, .root⟩).2) := by
  unfold visit
  rw [pop_omits_own_children cb s t 0 none .root h]; simp

/-! ### stop, error, invalid codes -/

/-- STOP, returned on any call (first or second, root or nested), ends the whole traversal at once —
that call is the last one — with result 0. -/
theorem stop_is_success {σ : Type} (cb : Cb σ) (s : σ) (t : JVal) (futureFlags : Int) (c : Call)
    (h : (c, visitStop) ∈ (visit (withLog cb) (s, []) t futureFlags).2.2) :
    (visit (withLog cb) (s, []) t futureFlags).1 = 0 ∧
    (visit (withLog cb) (s, []) t futureFlags).2.2.getLast? = some (c, visitStop) := by
  have hng : ¬ GoesOn visitStop := by unfold GoesOn; codes
  rw [visit_eq_reference] at h ⊢
  dsimp only at h ⊢
  rcases traverse_log_cases cb s t with ⟨_, h2⟩ | ⟨init, c', r, h1, h2, h3, h4⟩
  · exact absurd (h2 _ h) hng
  · rw [h1] at h ⊢
    rcases List.mem_append.1 h with h | h
    · exact absurd (h2 _ h) hng
    · simp at h; obtain ⟨rfl, rfl⟩ := h
      exact ⟨by rw [h4]; simp, by simp⟩

/-- ERROR, returned on any call, ends the whole traversal at once with the (negative) error result. -/
theorem error_is_failure {σ : Type} (cb : Cb σ) (s : σ) (t : JVal) (futureFlags : Int) (c : Call)
    (h : (c, visitError) ∈ (visit (withLog cb) (s, []) t futureFlags).2.2) :
    (visit (withLog cb) (s, []) t futureFlags).1 = visitError ∧
    (visit (withLog cb) (s, []) t futureFlags).1 < 0 ∧
    (visit (withLog cb) (s, []) t futureFlags).2.2.getLast? = some (c, visitError) := by
  have hng : ¬ GoesOn visitError := by unfold GoesOn; codes
  rw [visit_eq_reference] at h ⊢
  dsimp only at h ⊢
  rcases traverse_log_cases cb s t with ⟨_, h2⟩ | ⟨init, c', r, h1, h2, h3, h4⟩
  · exact absurd (h2 _ h) hng
  · rw [h1] at h ⊢
    rcases List.mem_append.1 h with h | h
    · exact absurd (h2 _ h) hng
    · simp at h; obtain ⟨rfl, rfl⟩ := h
      have : (traverse (withLog cb) (s, []) t).1.toInt = visitError := by rw [h4]; codes
      exact ⟨this, by rw [this]; exact codes_distinct.2.2, by simp⟩

/-- Any value other than the five documented codes, returned on any call (first or second, root or nested),
is an error: it ends the whole traversal at once with the error result. -/
theorem invalid_code_is_error {σ : Type} (cb : Cb σ) (s : σ) (t : JVal) (futureFlags : Int) (c : Call) (r : Int)
    (h : (c, r) ∈ (visit (withLog cb) (s, []) t futureFlags).2.2)
    (hr : r ≠ visitContinue ∧ r ≠ visitSkip ∧ r ≠ visitPop ∧ r ≠ visitStop ∧ r ≠ visitError) :
    (visit (withLog cb) (s, []) t futureFlags).1 = visitError ∧
    (visit (withLog cb) (s, []) t futureFlags).2.2.getLast? = some (c, r) := by
  have hng : ¬ GoesOn r := by unfold GoesOn; simp [hr.1, hr.2.1, hr.2.2.1]
  rw [visit_eq_reference] at h ⊢
  dsimp only at h ⊢
  rcases traverse_log_cases cb s t with ⟨_, h2⟩ | ⟨init, c', r', h1, h2, h3, h4⟩
  · exact absurd (h2 _ h) hng
  · rw [h1] at h ⊢
    rcases List.mem_append.1 h with h | h
    · exact absurd (h2 _ h) hng
    · simp at h; obtain ⟨rfl, rfl⟩ := h
      exact ⟨by rw [h4]; simp [hr.2.2.2.1], by simp⟩

/-- The result is 0 or the error code, and it is 0 exactly when no call returned ERROR or an invalid value
("Returns 0 if nodes were visited successfully, even if some were intentionally skipped"). -/
theorem result_zero_iff_no_error {σ : Type} (cb : Cb σ) (s : σ) (t : JVal) (futureFlags : Int) :
    ((visit (withLog cb) (s, []) t futureFlags).1 = 0 ∨ (visit (withLog cb) (s, []) t futureFlags).1 = visitError) ∧
    ((visit (withLog cb) (s, []) t futureFlags).1 = 0 ↔
      ∀ x ∈ (visit (withLog cb) (s, []) t futureFlags).2.2,
        x.2 = visitContinue ∨ x.2 = visitSkip ∨ x.2 = visitPop ∨ x.2 = visitStop) := by
  have hne : visitError ≠ 0 := by have := codes_distinct.2.2; omega
  rw [visit_eq_reference]
  dsimp only
  rcases traverse_log_cases cb s t with ⟨h1, h2⟩ | ⟨init, c', r, h1, h2, h3, h4⟩
  · refine ⟨Or.inl h1, fun _ x hx => ?_, fun _ => h1⟩
    rcases h2 x hx with h | h | h
    · exact Or.inl h
    · exact Or.inr (Or.inl h)
    · exact Or.inr (Or.inr (Or.inl h))
  · by_cases hs : r = visitStop
    · rw [if_pos hs] at h4
      refine ⟨Or.inl h4, fun _ x hx => ?_, fun _ => h4⟩
      rw [h1] at hx
      rcases List.mem_append.1 hx with hx | hx
      · rcases h2 x hx with h | h | h
        · exact Or.inl h
        · exact Or.inr (Or.inl h)
        · exact Or.inr (Or.inr (Or.inl h))
      · simp at hx; subst hx; exact Or.inr (Or.inr (Or.inr hs))
    · rw [if_neg hs] at h4
      refine ⟨Or.inr h4, fun h0 => absurd (h4 ▸ h0) hne, fun hall => ?_⟩
      have := hall (c', r) (by rw [h1]; simp)
      dsimp only at this
      rcases this with h | h | h | h
      · exact absurd (Or.inl h) h3
      · exact absurd (Or.inr (Or.inl h)) h3
      · exact absurd (Or.inr (Or.inr h)) h3
      · exact absurd h hs

/-! ### codes returned on the second (JSON_C_VISIT_SECOND) call -/

/-- SKIP or POP returned on the second call for a container is treated as CONTINUE: `_json_c_visit`
returns CONTINUE to its caller (whose loop therefore goes on with the next sibling, `afterChild`), … -/
theorem second_visit_maps_skip_pop {σ : Type} (cb : Cb σ) (s : σ) (id : Nat) (p : Option Nat) (sl : Slot) :
    (∀ (xs : List JVal) (l : LoopEnd × σ) (r2 : Int × σ),
      (cb s ⟨id, .arr xs, 0, p, sl⟩).1 = visitContinue →
      l = visitElems cb (cb s ⟨id, .arr xs, 0, p, sl⟩).2 xs id 0 (id + 1) →
      r2 = cb l.2 ⟨id, .arr xs, visitSecond, p, sl⟩ →
      (∀ c, l.1 ≠ .ret c) → (r2.1 = visitSkip ∨ r2.1 = visitPop) →
      visitNode cb s (.arr xs) id p sl = (visitContinue, r2.2)) ∧
    (∀ (kvs : List (Bytes × JVal)) (l : LoopEnd × σ) (r2 : Int × σ),
      (cb s ⟨id, .obj kvs, 0, p, sl⟩).1 = visitContinue →
      l = visitMembers cb (cb s ⟨id, .obj kvs, 0, p, sl⟩).2 kvs id (id + 1) →
      r2 = cb l.2 ⟨id, .obj kvs, visitSecond, p, sl⟩ →
      (∀ c, l.1 ≠ .ret c) → (r2.1 = visitSkip ∨ r2.1 = visitPop) →
      visitNode cb s (.obj kvs) id p sl = (visitContinue, r2.2)) ∧
    afterChild visitContinue = .next ∧ finalSwitch visitContinue = 0 := by
  refine ⟨?_, ?_, by simp, by simp⟩
  · intro xs l r2 h1 hl hr2 hnr hr
    rw [visitNode_arr_continue cb s xs id p sl h1, ← hl, afterLoop_not_ret _ _ _ hnr, ← hr2]
    rcases hr with hr | hr <;> rw [hr] <;> simp
  · intro kvs l r2 h1 hl hr2 hnr hr
    rw [visitNode_obj_continue cb s kvs id p sl h1, ← hl, afterLoop_not_ret _ _ _ hnr, ← hr2]
    rcases hr with hr | hr <;> rw [hr] <;> simp

/-- the user function that answers CONTINUE wherever `cb` answers SKIP or POP on a flagged call -/
def secondSkipPopAsContinue {σ : Type} (cb : Cb σ) : Cb σ := fun s c =>
  if c.flags = visitSecond ∧ ((cb s c).1 = visitSkip ∨ (cb s c).1 = visitPop) then (visitContinue, (cb s c).2)
  else cb s c

/-- … so that for the traversal as a whole it makes no difference whether a flagged call answers SKIP, POP or
CONTINUE: same calls, same result. -/
theorem second_visit_skip_pop_is_continue {σ : Type} (cb : Cb σ) (s : σ) (t : JVal) (futureFlags : Int) :
    visit (secondSkipPopAsContinue cb) s t futureFlags = visit cb s t futureFlags := by
  rw [visit_eq_reference, visit_eq_reference]
  have : ∀ m, run (secondSkipPopAsContinue cb) m (events t) = run cb m (events t) := by
    intro m
    apply run_congr
    intro s e
    unfold fire secondSkipPopAsContinue
    by_cases hcond : e.call.flags = visitSecond ∧ ((cb s e.call).1 = visitSkip ∨ (cb s e.call).1 = visitPop)
    · rw [if_pos hcond]
      obtain ⟨h1, h2⟩ := hcond
      have hs : e.second = true := by
        cases hsec : e.second
        · simp [Ev.call, hsec] at h1; exact absurd h1.symm codes_distinct.2.1
        · rfl
      rcases h2 with h2 | h2 <;> simp [h2, react, hs]
    · rw [if_neg hcond]
  unfold traverse
  unfold run at this
  rw [this]

/-! ### non-vacuity: the tree {"a":[1,[2,3],{"x":null,"y":[]}],"b":{"c":{},"d":4},"e":5} -/

/-- keys are single bytes here -/
private def demoTree : JVal :=
  .obj [([97], .arr [.int true 1, .arr [.int true 2, .int true 3], .obj [([120], .null), ([121], .arr [])]]),
        ([98], .obj [([99], .obj []), ([100], .int true 4)]),
        ([101], .int true 5)]

/-- a user function scripted by call number (the state counts the calls) -/
private def scripted (script : List (Nat × Int)) : Cb Nat := fun n _ =>
  (((script.find? (·.1 == n + 1)).map (·.2)).getD visitContinue, n + 1)

private def observe (r : Int × Nat × List (Call × Int)) : Int × List (Nat × Nat × Int) :=
  (r.1, r.2.2.map (fun x => (x.1.node, x.1.flags, x.2)))

/-- all-continue: 13 nodes, 7 of them containers, 20 calls in document order -/
example : observe (visit (withLog (scripted [])) (0, []) demoTree) =
    (0, [(0,0,0),(1,0,0),(2,0,0),(3,0,0),(4,0,0),(5,0,0),(3,visitSecond,0),(6,0,0),(7,0,0),(8,0,0),(8,visitSecond,0),(6,visitSecond,0),(1,visitSecond,0),
         (9,0,0),(10,0,0),(10,visitSecond,0),(11,0,0),(9,visitSecond,0),(12,0,0),(0,visitSecond,0)]) := by decide

/-- POP on the second call for "a" (call 13) is CONTINUE: "b" and "e" are still visited; an invalid code (100) on the
first call for the nested scalar "d" (call 17) ends the traversal with the error result -/
example : observe (visit (withLog (scripted [(13, visitPop), (17, 100)])) (0, []) demoTree) =
    (visitError, [(0,0,0),(1,0,0),(2,0,0),(3,0,0),(4,0,0),(5,0,0),(3,visitSecond,0),(6,0,0),(7,0,0),(8,0,0),(8,visitSecond,0),(6,visitSecond,0),
         (1,visitSecond,visitPop),(9,0,0),(10,0,0),(10,visitSecond,0),(11,0,100)]) := by decide

/-- SKIP on the array [2,3] (call 4), POP on "x" (call 6, resumes at the second call for its object), STOP on the
second call for "a" -/
example : observe (visit (withLog (scripted [(4, visitSkip), (6, visitPop), (8, visitStop)])) (0, []) demoTree) =
    (0, [(0,0,0),(1,0,0),(2,0,0),(3,0,visitSkip),(6,0,0),(7,0,visitPop),(6,visitSecond,0),(1,visitSecond,visitStop)]) := by decide

end JsonC.Visit
