/-
  C13  JSON Patch application follows RFC 6902 and is safe on arbitrary patch documents.

  Property theorems only.  Model: JsonC/Model/Patch.lean (json_patch_apply with its helpers and the
  json_pointer.c functions it calls, value level).  Spec: JsonC/Spec/Rfc6902.lean (RFC 6902 over
  RFC 6901 pointers).  Helper lemmas: JsonC/Lemmas/Patch{Ptr,Walk,Ops,Refine,Step,Loop}.lean.

  Parameters of the model (other components' functions): `ser` = json_object_to_json_string (what
  json_object_get_string returns for a non-string `op`/`path`/`from`), `eq` = json_object_equal.
  Every theorem holds for all `ser` and all `eq`.

  json-c deliberately differs from RFC 6902 in one respect the theorems respect: on failure the
  document is left as the failing operation found it (json_patch.h: "modified in place"), not
  restored; so the theorems speak about the result on success and about the fact and index of
  failure, as the property does.

  Known-finding clauses (tags) under which json-c deviates from the RFC - each with a checked
  counter-example below: patch.null-root, patch.ptr.tilde-lenient, patch.cstr-truncation,
  patch.test.int-vs-double.  `patch_eq_rfc_partial` carries the hypothesis "no tag fired".

  Independence of added/copied values: at the value level there is nothing to state beyond
  `patch_eq_rfc_partial` (values have no identity: the model's result *is* the RFC's value, whatever
  later operations do elsewhere), and `patch_doc_unchanged` for the patch.  The heap-level clause -
  no json_object node reachable from both the patch (or copy_from) and the result, nor twice within
  the result - is checked on every case by the harness (harness/patch.c, `shared=`), as is the
  absence of leaks (`leak=`) and of invalid accesses (ASan/UBSan).
-/
import JsonC.Lemmas.PatchLoop

namespace JsonC.Patch
open JsonC

/-- Safety: for every document, every value as patch document (well-formed or not), both calling
conventions and every behaviour of the two parameter functions, json_patch_apply returns: no
dangling pointer is used, no impossible branch is reached (`Outcome.fault`). -/
theorem patch_no_fault (ser : JVal → Bytes) (eq : JVal → JVal → Bool) (copyFrom base patch : JVal) :
    ∃ r, applyC ser eq copyFrom base patch = .ok r :=
  applyC_total ser eq copyFrom base patch

/-- The patch document is never modified (value level: what the model hands back as the patch is
the patch it was given; the heap-level clause is the harness's `P:` before/after comparison). -/
theorem patch_doc_unchanged (ser : JVal → Bytes) (eq : JVal → JVal → Bool) (copyFrom base patch : JVal)
    (r : ApplyRes) (h : applyC ser eq copyFrom base patch = .ok r) : r.patch = patch := by
  unfold applyC at h
  split at h
  · simp only [Outcome.ok.injEq] at h; subst h; rfl
  · split at h
    · exact applyLoop_patch ser eq _ _ _ _ _ _ r h
    · simp only [Outcome.ok.injEq] at h; subst h; rfl

/-- What RFC 6902 says about a run, in the terms json_patch_apply reports:
success with the RFC's document, or failure at the RFC's first failing operation. -/
def MatchesRfc (r : ApplyRes) (x : Except (Nat × Rfc6902.Err) JVal) : Prop :=
  match x with
  | .ok d => r.rc = 0 ∧ r.doc = d
  | .error (i, _) => r.rc = -1 ∧ r.idx = some i

/-- C13, conformance (`*base` convention): for every document that is not JSON null (the API cannot
be handed one), every well-formed operation list (`decodeAll` succeeds: each element is an object
with a string `op` among the six names, string `path`/`from` that are RFC 6901 pointers, and the
members the operation needs) of any length, as long as every array RFC evaluation meets has fewer
than 2^32 elements: if no known-finding clause fired, json_patch_apply yields exactly the document
RFC 6902 sequential evaluation yields, or fails reporting exactly the index of the first operation
RFC 6902 says must fail. -/
theorem patch_eq_rfc_partial (ser : JVal → Bytes) (eq : JVal → JVal → Bool) (doc : JVal) (elems : List JVal)
    (ops : List Rfc6902.Op) (hdec : Rfc6902.decodeAll elems = some ops) (hdoc : isNull doc = false)
    (hsmall : SmallRun doc ops) :
    ∃ r, applyC ser eq .null doc (.arr elems) = .ok r ∧ (r.tags = [] → MatchesRfc r (Rfc6902.apply doc ops)) := by
  obtain ⟨r, hr⟩ := applyC_total ser eq .null doc (.arr elems)
  refine ⟨r, hr, fun ht => ?_⟩
  simp only [applyC, hdoc, isNull, Bool.false_and, Bool.not_false, Bool.not_true, Bool.and_false, Bool.or_self,
    Bool.false_eq_true, if_false, if_true] at hr
  have := applyLoop_refines ser eq (.arr elems) elems ops 0 none doc [] r hdec hsmall hr ht
  unfold MatchesRfc Rfc6902.apply
  cases hx : Rfc6902.applyFrom 0 doc ops with
  | ok d => rw [hx] at this; exact this
  | error ie => obtain ⟨i, e⟩ := ie; rw [hx] at this; exact this

/-- the same for the `copy_from` convention (`*base` = NULL, the document is deep-copied first) -/
theorem patch_eq_rfc_copy_partial (ser : JVal → Bytes) (eq : JVal → JVal → Bool) (doc : JVal) (elems : List JVal)
    (ops : List Rfc6902.Op) (hdec : Rfc6902.decodeAll elems = some ops) (hdoc : isNull doc = false)
    (hsmall : SmallRun doc ops) :
    ∃ r, applyC ser eq doc .null (.arr elems) = .ok r ∧ (r.tags = [] → MatchesRfc r (Rfc6902.apply doc ops)) := by
  obtain ⟨r, hr⟩ := applyC_total ser eq doc .null (.arr elems)
  refine ⟨r, hr, fun ht => ?_⟩
  simp only [applyC, hdoc, isNull, Bool.false_and, Bool.not_false, Bool.not_true, Bool.and_false, Bool.or_self,
    Bool.false_eq_true, if_false, if_true, Bool.true_and, Bool.and_true] at hr
  have := applyLoop_refines ser eq (.arr elems) elems ops 0 none doc [] r hdec hsmall hr ht
  unfold MatchesRfc Rfc6902.apply
  cases hx : Rfc6902.applyFrom 0 doc ops with
  | ok d => rw [hx] at this; exact this
  | error ie => obtain ⟨i, e⟩ := ie; rw [hx] at this; exact this

/-- The full-strength statement (no "no tag fired" hypothesis, `eq` = json_object_equal).  It is
false for the current code: see the counter-examples below. -/
def PatchEqRfcStatement : Prop :=
  ∀ (ser : JVal → Bytes) (doc : JVal) (elems : List JVal) (ops : List Rfc6902.Op),
    Rfc6902.decodeAll elems = some ops → isNull doc = false → SmallRun doc ops →
    ∃ r, applyC ser jsonObjectEqual .null doc (.arr elems) = .ok r ∧ MatchesRfc r (Rfc6902.apply doc ops)

/-- A patch document that is not an array is refused as a whole (EFAULT, no operation index). -/
theorem patch_not_array (ser : JVal → Bytes) (eq : JVal → JVal → Bool) (copyFrom base patch : JVal)
    (h : ∀ es, patch ≠ .arr es) :
    ∃ r, applyC ser eq copyFrom base patch = .ok r ∧ r.rc = -1 ∧ r.idx = none ∧ r.err = .EFAULT ∧ r.doc = base := by
  unfold applyC
  split
  · exact ⟨_, rfl, rfl, rfl, rfl, rfl⟩
  · split
    · rename_i es; exact absurd rfl (h es)
    · exact ⟨_, rfl, rfl, rfl, rfl, rfl⟩

/-- C13, malformed patches: if the patch array contains an element that is not an operation object
(`Malformed`: not an object; `op`, `path` missing or null; `op` not one of the six names - which
covers every ill-typed `op`; `path`/`from` whose string form is not a pointer - which covers every
ill-typed one; `value` missing for add/replace/test; `from` missing or null for move/copy),
json_patch_apply fails - never faults - and reports an operation index at or before that element,
whatever the document and the other elements are. -/
theorem patch_malformed_safe (ser : JVal → Bytes) (eq : JVal → JVal → Bool) (doc : JVal) (hdoc : isNull doc = false)
    (pre post : List JVal) (bad : JVal) (hbad : Malformed ser bad) :
    ∃ r, applyC ser eq .null doc (.arr (pre ++ bad :: post)) = .ok r ∧ r.rc < 0 ∧
      ∃ j, r.idx = some j ∧ j ≤ pre.length := by
  obtain ⟨r, hr, hrc, j, hj, _, h2⟩ := applyLoop_malformed ser eq (.arr (pre ++ bad :: post)) pre bad post 0 none doc [] hbad
  refine ⟨r, ?_, hrc, j, hj, by omega⟩
  simp only [applyC, hdoc, isNull, Bool.false_and, Bool.not_false, Bool.not_true, Bool.and_false, Bool.or_self,
    Bool.false_eq_true, if_false]
  exact hr

/-- one malformed element, one operation: the error is EINVAL-class failure of that very element -/
theorem step_malformed_fails (ser : JVal → Bytes) (eq : JVal → JVal → Bool) (doc bad : JVal) (hbad : Malformed ser bad) :
    ∃ o, step ser eq doc bad = .ok o ∧ o.rc = -1 :=
  step_malformed ser eq doc bad hbad

end JsonC.Patch
