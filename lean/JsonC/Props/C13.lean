/-
  C13  JSON Patch application follows RFC 6902 and is safe on arbitrary patch documents.

  Property theorems only.  Model: JsonC/Model/Patch.lean (json_patch_apply with its helpers and the
  json_pointer.c functions it calls, value level).  Spec: JsonC/Spec/Rfc6902.lean (RFC 6902 over
  RFC 6901 pointers).  Helper lemmas: JsonC/Lemmas/Patch{Ptr,Walk,Ops,Refine,Step,Loop}.lean.

  Parameters of the model (other components' functions): `ser` = json_object_to_json_string (what
  json_object_get_string returns for a non-string `op`/`path`/`from`), `eq` = json_object_equal.
  Every theorem holds for all `ser` and all `eq`.

  json-c deliberately differs from RFC 6902 in one respect the theorems respect: on failure the
  document is left as the failing operation found it (json_patch.h: "modified in place"), not
  restored; so the theorems speak about the result on success and about the fact and index of
  failure, as the property does.

  Known-finding clauses (tags) under which json-c deviates from the RFC - each with a checked
  counter-example below: patch.null-root, patch.ptr.tilde-lenient, patch.cstr-truncation,
  patch.test.int-vs-double.  `patch_eq_rfc_partial` carries the hypothesis "no tag fired".

  Independence of added/copied values: at the value level there is nothing to state beyond
  `patch_eq_rfc_partial` (values have no identity: the model's result *is* the RFC's value, whatever
  later operations do elsewhere), and `patch_doc_unchanged` for the patch.  The heap-level clause -
  no json_object node reachable from both the patch (or copy_from) and the result, nor twice within
  the result - is checked on every case by the harness (harness/patch.c, `shared=`), as is the
  absence of leaks (`leak=`) and of invalid accesses (ASan/UBSan).
-/
import JsonC.Lemmas.PatchLoop
import JsonC.Generated.Structure

namespace JsonC.Patch
open JsonC

/-- ASCII text of a byte string -/
def asString (b : Bytes) : String := String.ofList (b.map fun c => Char.ofNat c.toNat)

/-- The literals and structural facts of json_patch.c / json_pointer.c the model is written
against, as regenerated from the current source on every run (tools/extract/st_patch.py): the
dispatch chain and its order, the member names, two deep copies (add/replace value, copy source),
the `idx > length` guards of both array callbacks, the prefix rule (by reference token, only for
move), the NULL checks on op/from/path, strtoull in is_valid_index, the 32-bit index_in_parent
behind the `SmallRun` hypothesis, the `!obj` test behind patch.null-root, key_in_parent being the
stored key. -/
theorem source_facts :
    Generated.patchDispatch = [sTest, sRemove, sAdd, sReplace, sMove, sCopy].map asString ∧
    Generated.patchFields = [kValue, kFrom, kOp, kPath].map asString ∧
    Generated.patchCopyValueCalls = 2 ∧
    Generated.patchArrayGuards = true ∧
    Generated.patchPrefixRuleMoveOnly = true ∧
    Generated.patchPrefixByToken = true ∧
    Generated.patchNullFieldChecks = true ∧
    Generated.ptrIndexStrtoull = true ∧
    2 ^ Generated.ptrIndexInParentBits = UINT32_MOD ∧
    Generated.ptrGetRejectsNullObj = true ∧
    Generated.ptrKeyInParentStored = true ∧
    ULLONG_MAX = 2 ^ (8 * Generated.sizeofSizeT) - 1 := by
  decide

/-- Safety: for every document, every value as patch document (well-formed or not), both calling
conventions and every behaviour of the two parameter functions, json_patch_apply returns: no
dangling pointer is used, no impossible branch is reached (`Outcome.fault`). -/
theorem patch_no_fault (ser : JVal → Bytes) (eq : JVal → JVal → Bool) (copyFrom base patch : JVal) :
    ∃ r, applyC ser eq copyFrom base patch = .ok r :=
  applyC_total ser eq copyFrom base patch

/-- The patch document is never modified (value level: what the model hands back as the patch is
the patch it was given; the heap-level clause is the harness's `P:` before/after comparison). -/
theorem patch_doc_unchanged (ser : JVal → Bytes) (eq : JVal → JVal → Bool) (copyFrom base patch : JVal)
    (r : ApplyRes) (h : applyC ser eq copyFrom base patch = .ok r) : r.patch = patch := by
  unfold applyC at h
  split at h
  · simp only [Outcome.ok.injEq] at h; subst h; rfl
  · split at h
    · exact applyLoop_patch ser eq _ _ _ _ _ _ r h
    · simp only [Outcome.ok.injEq] at h; subst h; rfl

/-- What RFC 6902 says about a run, in the terms json_patch_apply reports:
success with the RFC's document, or failure at the RFC's first failing operation. -/
def MatchesRfc (r : ApplyRes) (x : Except (Nat × Rfc6902.Err) JVal) : Prop :=
  match x with
  | .ok d => r.rc = 0 ∧ r.doc = d
  | .error (i, _) => r.rc = -1 ∧ r.idx = some i

/-- C13, conformance (`*base` convention): for every document that is not JSON null (the API cannot
be handed one), every well-formed operation list (`decodeAll` succeeds: each element is an object
with a string `op` among the six names, string `path`/`from` that are RFC 6901 pointers, and the
members the operation needs) of any length, as long as every array RFC evaluation meets has fewer
than 2^32 elements: if no known-finding clause fired, json_patch_apply yields exactly the document
RFC 6902 sequential evaluation yields, or fails reporting exactly the index of the first operation
RFC 6902 says must fail. -/
theorem patch_eq_rfc_partial (ser : JVal → Bytes) (eq : JVal → JVal → Bool) (doc : JVal) (elems : List JVal)
    (ops : List Rfc6902.Op) (hdec : Rfc6902.decodeAll elems = some ops) (hdoc : isNull doc = false)
    (hsmall : SmallRun doc ops) :
    ∃ r, applyC ser eq .null doc (.arr elems) = .ok r ∧ (r.tags = [] → MatchesRfc r (Rfc6902.apply doc ops)) := by
  obtain ⟨r, hr⟩ := applyC_total ser eq .null doc (.arr elems)
  refine ⟨r, hr, fun ht => ?_⟩
  rw [applyC_base ser eq doc elems hdoc] at hr
  have := applyLoop_refines ser eq (.arr elems) elems ops 0 none doc [] r hdec hsmall hr ht
  unfold MatchesRfc Rfc6902.apply
  cases hx : Rfc6902.applyFrom 0 doc ops with
  | ok d => rw [hx] at this; exact this
  | error ie => obtain ⟨i, e⟩ := ie; rw [hx] at this; exact this

/-- the same for the `copy_from` convention (`*base` = NULL, the document is deep-copied first) -/
theorem patch_eq_rfc_copy_partial (ser : JVal → Bytes) (eq : JVal → JVal → Bool) (doc : JVal) (elems : List JVal)
    (ops : List Rfc6902.Op) (hdec : Rfc6902.decodeAll elems = some ops) (hdoc : isNull doc = false)
    (hsmall : SmallRun doc ops) :
    ∃ r, applyC ser eq doc .null (.arr elems) = .ok r ∧ (r.tags = [] → MatchesRfc r (Rfc6902.apply doc ops)) := by
  obtain ⟨r, hr⟩ := applyC_total ser eq doc .null (.arr elems)
  refine ⟨r, hr, fun ht => ?_⟩
  rw [applyC_copy ser eq doc elems hdoc] at hr
  have := applyLoop_refines ser eq (.arr elems) elems ops 0 none doc [] r hdec hsmall hr ht
  unfold MatchesRfc Rfc6902.apply
  cases hx : Rfc6902.applyFrom 0 doc ops with
  | ok d => rw [hx] at this; exact this
  | error ie => obtain ⟨i, e⟩ := ie; rw [hx] at this; exact this

/-- The full-strength statement (no "no tag fired" hypothesis, `eq` = json_object_equal).  It is
false for the current code: see the counter-examples below. -/
def PatchEqRfcStatement : Prop :=
  ∀ (ser : JVal → Bytes) (doc : JVal) (elems : List JVal) (ops : List Rfc6902.Op),
    Rfc6902.decodeAll elems = some ops → isNull doc = false → SmallRun doc ops →
    ∃ r, applyC ser jsonObjectEqual .null doc (.arr elems) = .ok r ∧ MatchesRfc r (Rfc6902.apply doc ops)

/-- A patch document that is not an array is refused as a whole (EFAULT, no operation index). -/
theorem patch_not_array (ser : JVal → Bytes) (eq : JVal → JVal → Bool) (copyFrom base patch : JVal)
    (h : ∀ es, patch ≠ .arr es) :
    ∃ r, applyC ser eq copyFrom base patch = .ok r ∧ r.rc = -1 ∧ r.idx = none ∧ r.err = .EFAULT ∧ r.doc = base := by
  unfold applyC
  split
  · exact ⟨_, rfl, rfl, rfl, rfl, rfl⟩
  · split
    · rename_i es; exact absurd rfl (h es)
    · exact ⟨_, rfl, rfl, rfl, rfl, rfl⟩

/-- C13, malformed patches: if the patch array contains an element that is not an operation object
(`Malformed`: not an object; `op`, `path` missing or null; `op` not one of the six names - which
covers every ill-typed `op`; `path`/`from` whose string form is not a pointer - which covers every
ill-typed one; `value` missing for add/replace/test; `from` missing or null for move/copy),
json_patch_apply fails - never faults - and reports an operation index at or before that element,
whatever the document and the other elements are. -/
theorem patch_malformed_safe (ser : JVal → Bytes) (eq : JVal → JVal → Bool) (doc : JVal) (hdoc : isNull doc = false)
    (pre post : List JVal) (bad : JVal) (hbad : Malformed ser bad) :
    ∃ r, applyC ser eq .null doc (.arr (pre ++ bad :: post)) = .ok r ∧ r.rc < 0 ∧
      ∃ j, r.idx = some j ∧ j ≤ pre.length := by
  obtain ⟨r, hr, hrc, j, hj, _, h2⟩ := applyLoop_malformed ser eq (.arr (pre ++ bad :: post)) pre bad post 0 none doc [] hbad
  refine ⟨r, ?_, hrc, j, hj, by omega⟩
  rw [applyC_base ser eq doc _ hdoc]
  exact hr

/-- one malformed element, one operation: the error is EINVAL-class failure of that very element -/
theorem step_malformed_fails (ser : JVal → Bytes) (eq : JVal → JVal → Bool) (doc bad : JVal) (hbad : Malformed ser bad) :
    ∃ o, step ser eq doc bad = .ok o ∧ o.rc = -1 :=
  step_malformed ser eq doc bad hbad

/-! ## Counter-examples to the full-strength statements (one per known-finding clause) -/

/-- `{"op": op, "path": path, ...extra}` -/
def mkOp (op path : Bytes) (extra : List (Bytes × JVal)) : JVal :=
  .obj ([(kOp, .str op), (kPath, .str path)] ++ extra)

def int1 : JVal := .int true 1

/-- patch.null-root: `[{add "" null},{test "" null}]` on `{}`: RFC 6902 succeeds with the document
null; json_patch_apply fails at operation 1 (json_pointer_get_internal rejects the NULL document). -/
theorem null_root_counterexample :
    ∃ r, applyC (fun _ => []) jsonObjectEqual .null (.obj [])
        (.arr [mkOp sAdd [] [(kValue, .null)], mkOp sTest [] [(kValue, .null)]]) = .ok r ∧
      r.rc = -1 ∧ r.idx = some 1 ∧ r.tags = [tagNullRoot] ∧
      Rfc6902.decodeAll [mkOp sAdd [] [(kValue, .null)], mkOp sTest [] [(kValue, .null)]] =
        some [.add [] .null, .test [] .null] ∧
      (∃ d, Rfc6902.apply (.obj []) [.add [] .null, .test [] .null] = .ok d) :=
  ⟨_, rfl, rfl, rfl, rfl, rfl, _, rfl⟩

/-- hence the statement without the "no tag fired" hypothesis does not hold for the current code -/
theorem patch_eq_rfc_fails : ¬ PatchEqRfcStatement := by
  intro h
  have hs : SmallRun (.obj []) [.add [] .null, .test [] .null] :=
    smallRun_cons _ _ _ _ rfl rfl (smallRun_cons _ _ _ _ rfl rfl trivial)
  obtain ⟨r, hr, hm⟩ := h (fun _ => []) (.obj [])
    [mkOp sAdd [] [(kValue, .null)], mkOp sTest [] [(kValue, .null)]] [.add [] .null, .test [] .null] rfl rfl hs
  obtain ⟨r', hr', hrc, _⟩ := null_root_counterexample
  rw [hr] at hr'
  simp only [Outcome.ok.injEq] at hr'
  subst hr'
  have hx : Rfc6902.apply (.obj []) [.add [] .null, .test [] .null] = .ok .null := rfl
  rw [hx] at hm
  unfold MatchesRfc at hm
  omega

/-- patch.test.int-vs-double: `test "/a" 1.0` on `{"a":1}`: equal by RFC 6902 4.6, unequal for
json_object_equal. -/
theorem int_vs_double_counterexample :
    ∃ r, applyC (fun _ => []) jsonObjectEqual .null (.obj [([0x61], int1)])
        (.arr [mkOp sTest [0x2f, 0x61] [(kValue, .dbl 0x3ff0000000000000 none)]]) = .ok r ∧
      r.rc = -1 ∧ r.idx = some 0 ∧ r.tags = [tagIntDouble] ∧
      Rfc6902.decodeAll [mkOp sTest [0x2f, 0x61] [(kValue, .dbl 0x3ff0000000000000 none)]] =
        some [.test [[0x61]] (.dbl 0x3ff0000000000000 none)] ∧
      (∃ d, Rfc6902.apply (.obj [([0x61], int1)]) [.test [[0x61]] (.dbl 0x3ff0000000000000 none)] = .ok d) :=
  ⟨_, rfl, rfl, rfl, rfl, rfl, _, rfl⟩

/-- patch.cstr-truncation: `add "/a\u0000b" 7` on `{"a":1}`: RFC 6902 adds the member "a\u0000b";
json_patch_apply replaces the member "a". -/
theorem cstr_truncation_counterexample :
    ∃ r, applyC (fun _ => []) jsonObjectEqual .null (.obj [([0x61], int1)])
        (.arr [mkOp sAdd [0x2f, 0x61, 0, 0x62] [(kValue, .int true 7)]]) = .ok r ∧
      r.rc = 0 ∧ r.tags = [tagNul] ∧ r.doc.dump = "{61:i7}" ∧
      (∃ d, Rfc6902.applyPatch (.obj [([0x61], int1)]) (.arr [mkOp sAdd [0x2f, 0x61, 0, 0x62] [(kValue, .int true 7)]]) = .ok d ∧
        d.dump = "{61:i1,610062:i7}") :=
  ⟨_, rfl, rfl, rfl, by decide, _, rfl, by decide⟩

/-- The full-strength statement about patches that are not RFC 6902 patch documents: every such
patch is refused.  `patch_malformed_safe` proves it for the causes listed in `Malformed`; it is
false in general for the current code (a `path` that is not an RFC 6901 pointer because of a stray
`~` is accepted: next theorem). -/
def PatchRejectsNonRfcStatement : Prop :=
  ∀ (ser : JVal → Bytes) (doc : JVal) (elems : List JVal), isNull doc = false →
    (∃ i e, Rfc6902.applyPatch doc (.arr elems) = .error (some i, e)) →
    ∃ r, applyC ser jsonObjectEqual .null doc (.arr elems) = .ok r ∧ r.rc < 0

/-- patch.ptr.tilde-lenient: `add "/~2" 1` on `{}`: "/~2" is not a JSON Pointer (RFC 6901 section 3),
the operation must fail; json_patch_apply adds the member "~2". -/
theorem tilde_lenient_counterexample :
    ∃ r, applyC (fun _ => []) jsonObjectEqual .null (.obj []) (.arr [mkOp sAdd [0x2f, 0x7e, 0x32] [(kValue, int1)]]) = .ok r ∧
      r.rc = 0 ∧ r.tags = [tagTilde] ∧ r.doc.dump = "{7e32:i1}" ∧
      Rfc6902.applyPatch (.obj []) (.arr [mkOp sAdd [0x2f, 0x7e, 0x32] [(kValue, int1)]]) = .error (some 0, .malformed) :=
  ⟨_, rfl, rfl, rfl, by decide, rfl⟩

theorem patch_rejects_non_rfc_fails : ¬ PatchRejectsNonRfcStatement := by
  intro h
  obtain ⟨r, hr, hneg⟩ := h (fun _ => []) (.obj []) [mkOp sAdd [0x2f, 0x7e, 0x32] [(kValue, int1)]] rfl
    ⟨0, .malformed, rfl⟩
  obtain ⟨r', hr', hrc, _⟩ := tilde_lenient_counterexample
  rw [hr] at hr'
  simp only [Outcome.ok.injEq] at hr'
  subst hr'
  omega

/-! ## Non-vacuity -/

/-- a five-operation patch (add into an array, move between containers with an escaped key, copy
onto an ancestor of nothing, test, remove) on `{"a":[1,2],"b":{}}` meets every hypothesis of
`patch_eq_rfc_partial`, fires no tag, and is computed by the model to the RFC's result. -/
example :
    let doc : JVal := .obj [([0x61], .arr [int1, .int true 2]), ([0x62], .obj [])]
    let elems : List JVal := [
      mkOp sAdd [0x2f, 0x61, 0x2f, 0x31] [(kValue, .int true 9)],                       -- add /a/1 9
      mkOp sMove [0x2f, 0x62, 0x2f, 0x78, 0x7e, 0x31, 0x79] [(kFrom, .str [0x2f, 0x61, 0x2f, 0x30])], -- move /a/0 -> /b/x~1y
      mkOp sCopy [0x2f, 0x63] [(kFrom, .str [0x2f, 0x62])],                             -- copy /b -> /c
      mkOp sTest [0x2f, 0x63, 0x2f, 0x78, 0x7e, 0x31, 0x79] [(kValue, .int false 1)],   -- test /c/x~1y 1 (uint64-typed)
      mkOp sRemove [0x2f, 0x61, 0x2f, 0x30] []]                                         -- remove /a/0
    ∃ ops r, Rfc6902.decodeAll elems = some ops ∧ isNull doc = false ∧ SmallRun doc ops ∧
      applyC (fun _ => []) jsonObjectEqual .null doc (.arr elems) = .ok r ∧ r.tags = [] ∧ r.rc = 0 ∧
      Rfc6902.apply doc ops = .ok r.doc ∧ r.doc.dump = "{61:[i2],62:{782f79:i1},63:{782f79:i1}}" := by
  refine ⟨_, _, rfl, rfl, ?_, rfl, rfl, rfl, rfl, by decide⟩
  exact smallRun_cons _ _ _ _ rfl rfl (smallRun_cons _ _ _ _ rfl rfl (smallRun_cons _ _ _ _ rfl rfl
    (smallRun_cons _ _ _ _ rfl rfl (smallRun_cons _ _ _ _ rfl rfl trivial))))

/-- a malformed element (null `op`) meets the hypothesis of `patch_malformed_safe` -/
example : Malformed (fun _ => []) (.obj [(kOp, .null), (kPath, .str [])]) := Malformed.opNull _ rfl


/-- every source fact this property's model consumes was located in the current source by tools/extract (a fact that is not
found is emitted with a placeholder value; this obligation then fails and the check uses the reference model) -/
theorem source_facts_located_c13 : JsonC.Generated.factsFound_patch = true ∧ JsonC.Generated.factsFound_ptr = true := by decide

end JsonC.Patch
