/-
  C11  Strings are length-counted byte sequences preserved through any mutation history.

  Property theorems only.  Model: JsonC/Model/StrStore.lean (transcription of the string node of
  json_object.c: signed-length inline/pointer union, _json_object_new_string, set_string(_len),
  accessors, delete, the string cases of equal / shallow copy / serializer reads, over a block
  memory whose every access is bounds-, liveness- and initialisation-checked and whose allocator
  traffic is logged).  Spec: JsonC/Spec/ByteStr.lean (a byte list; the allocator discipline on an
  event log).  `WInv w v` is the representation invariant ("the node of world `w` holds the value
  `v`, and the live blocks are exactly the node's"), `Desc` the model-level description of one step
  (Lemmas/StrStore.lean).  "No fault" (= no size_t/ssize_t overflow, no write outside the inline room
  or the heap buffer, no read of freed or indeterminate bytes, no double free) is the
  `∃ …, run … = .ok …` in the statements.

  Both ways of giving a node a value (`_json_object_new_string`, `_json_object_set_string_len`) refuse
  lengths `>= INT_MAX - 1`, so every value held can be reported by `json_object_get_string_len` (an
  `int`); this bound is part of the representation invariant and all four theorems hold at full strength.
-/
import JsonC.Lemmas.TranslatedStr
import JsonC.Lemmas.StrStore

namespace JsonC.StrStore
open JsonC Generated
open JsonC.ByteStr (Ev)

/-! ## what the specification says about one call -/

/-- what a caller must read from a node holding `s`: its length, exactly its bytes, a NUL behind them,
`strlen` up to the first NUL -/
def specView (s : Bytes) : View :=
  { len := s.length, bytes := s, term := some 0, strlen := ByteStr.cLength s, wrapped := false }

/-- a constructor asked for the `n` bytes `val` -/
def CtorSpec (val : Bytes) (n : Int) (ok : Bool) (r : Res) (v' : Option Bytes) : Prop :=
  (r = .made true (some (specView val)) ∧ v' = some val ∧ ByteStr.newVerdict n ok ≠ .mustRefuse) ∨
  (r = .made false none ∧ v' = none ∧ ByteStr.newVerdict n ok ≠ .mustServe)

/-- a setter asked to store the `n` bytes `val` over `s`: all of them or nothing -/
def SetSpec (s val : Bytes) (n : Int) (ok : Bool) (r : Res) (v' : Option Bytes) : Prop :=
  (r = .did 1 (specView val) ∧ v' = some (ByteStr.store s val) ∧ ByteStr.setVerdict n ok ≠ .mustRefuse) ∨
  (r = .did 0 (specView s) ∧ v' = some s ∧ ByteStr.setVerdict n ok ≠ .mustServe)

/-- What the byte-string specification allows one call to return (`r`) and to leave behind (`v'`),
given the value `v` held before (`none`: there is no node). -/
def OpSpec (v : Option Bytes) (op : Op) (r : Res) (v' : Option Bytes) : Prop :=
  match v, op with
  | some _, .new _ _ => r = .busy ∧ v' = v
  | some _, .newn _ => r = .busy ∧ v' = v
  | some _, .newz _ _ => r = .busy ∧ v' = v
  | none, .new obj ok => CtorSpec obj obj.length ok r v'
  | none, .newn k => CtorSpec (claimSource.take k.toNat) k true r v'
  | none, .newz obj ok => CtorSpec (ByteStr.cPrefix obj) (ByteStr.cPrefix obj).length ok r v'
  | none, _ => r = .noNode ∧ v' = none
  | some s, .set obj ok => SetSpec s obj obj.length ok r v'
  | some s, .setn k => SetSpec s (claimSource.take k.toNat) k true r v'
  | some s, .setz obj ok => SetSpec s (ByteStr.cPrefix obj) (ByteStr.cPrefix obj).length ok r v'
  | some s, .get => r = .saw (specView s) ∧ v' = v
  | some s, .eq a b =>
      (∀ other, other = (match b with | none => a | some b' => ByteStr.store a b') →
        r = .cmp (ByteStr.equal s other) (ByteStr.equal other s)) ∧ v' = v
  | some s, .copy ok =>
      (ok = true → r = .copied (some (specView (ByteStr.copy s))) true true) ∧
      (ok = false → r = .copied none false false) ∧ v' = v
  | some s, .ser => r = .payload s ∧ v' = v
  | some _, .del => r = .deleted ∧ v' = none

def RunSpec : Option Bytes → List Op → List Res → Option Bytes → Prop
  | v, [], [], v' => v' = v
  | v, op :: ops, r :: rs, v' => ∃ v1, OpSpec v op r v1 ∧ RunSpec v1 ops rs v'
  | _, _, _, _ => False

/-! ## str_refines -/

/-- One call: whatever the model does (`Desc`) is what the specification allows; `hv`: the value held
before is one a node can hold (part of the invariant, `WInv.small`). -/
theorem desc_refines (v : Option Bytes) (op : Op) (r : Res) (v' : Option Bytes)
    (hd : Desc v op r v') (hwf : op.WF)
    (hv : ∀ s, v = some s → (s.length : Int) < INT_MAX - strSetGuardSlack) : OpSpec v op r v' := by
  have hI : INT_MAX = (intMax : Int) := rfl
  have hIb : ByteStr.INT_MAX = (intMax : Int) := rfl
  have hZ : SIZE_MAX = (sizeMax : Int) := rfl
  obtain ⟨f1, f2, f3, f4, f5, f6, f7⟩ := hdr_facts
  obtain ⟨k1, k2⟩ := copy_facts
  have hg := set_guard_le_one
  have hng := new_int_guard
  have specView_eq : ∀ (s : Bytes), (s.length : Int) ≤ INT_MAX → viewOf s = specView s := by
    intro s h; rw [viewOf_small s h]; rfl
  have h8 : claimSource.length ≤ intMax := by decide
  rw [claim_len] at h8
  -- constructors
  have ctor : ∀ (val : Bytes) (ok : Bool), NewDesc val val.length ok r v' → CtorSpec val val.length ok r v' := by
    intro val ok hnd
    by_cases hb : bigLen val.length
    · obtain ⟨hr, hv'⟩ := hnd.1 (Or.inl hb)
      refine Or.inr ⟨hr, hv', ?_⟩
      have hge : (val.length : Int) ≥ INT_MAX - 1 := by unfold bigLen at hb; omega
      unfold ByteStr.newVerdict
      split
      · decide
      · split
        · decide
        · rw [if_pos (by omega)]; decide
    · have hlt : (val.length : Int) < INT_MAX - strNewIntGuardSlack := by unfold bigLen at hb; omega
      cases ok with
      | true =>
        obtain ⟨hr, hv'⟩ := hnd.2 hb rfl
        refine Or.inl ⟨by rw [hr, specView_eq val (by omega)], hv', ?_⟩
        unfold ByteStr.newVerdict; rw [if_neg (by omega), if_neg (by simp)]
        split <;> decide
      | false =>
        obtain ⟨hr, hv'⟩ := hnd.1 (Or.inr rfl)
        refine Or.inr ⟨hr, hv', ?_⟩
        unfold ByteStr.newVerdict; rw [if_neg (by omega), if_pos rfl]; decide
  -- setters
  have setter : ∀ (s val : Bytes) (ok : Bool), (s.length : Int) ≤ INT_MAX → SetDesc s val val.length ok r v' →
      SetSpec s val val.length ok r v' := by
    intro s val ok hsl hsd
    rcases hsd with ⟨hr, hv', hfit, _⟩ | ⟨hr, hv', hor⟩
    · unfold fitsSet at hfit
      have hval : (val.length : Int) ≤ INT_MAX := by omega
      refine Or.inl ⟨by rw [hr, specView_eq val hval], hv', ?_⟩
      unfold ByteStr.setVerdict; rw [if_neg (by omega)]
      split
      · decide
      · split <;> decide
    · refine Or.inr ⟨by rw [hr, specView_eq s hsl], hv', ?_⟩
      unfold ByteStr.setVerdict
      split
      · decide
      · split
        · decide
        · rename_i hok
          rcases hor with h | h
          · unfold fitsSet at h; rw [if_pos (by omega)]; decide
          · exact absurd h.1 hok
  cases v with
  | none =>
    cases op with
    | new obj ok => exact ctor obj ok hd
    | newn k =>
      obtain ⟨hk1, hk2, hk3⟩ := hwf
      rw [claim_len] at hk3
      unfold Desc at hd; unfold OpSpec; dsimp only at hd ⊢
      by_cases hneg : k < 0
      · have hbig : bigLen (toSizeT k) := by
          unfold bigLen toSizeT; rw [if_pos hneg]
          have : INT_MIN = -(intMax : Int) - 1 := rfl
          omega
        obtain ⟨hr, hv'⟩ := hd.1 (Or.inl hbig)
        refine Or.inr ⟨hr, hv', ?_⟩
        unfold ByteStr.newVerdict; rw [if_pos (Or.inl hneg)]; decide
      · have hts : toSizeT k = k.toNat := by unfold toSizeT; rw [if_neg hneg]
        rw [hts] at hd
        by_cases hbigk : k ≥ INT_MAX - strNewIntGuardSlack
        · have hbig : bigLen k.toNat := by unfold bigLen; omega
          obtain ⟨hr, hv'⟩ := hd.1 (Or.inl hbig)
          refine Or.inr ⟨hr, hv', ?_⟩
          unfold ByteStr.newVerdict
          rw [if_neg (by omega), if_neg (by simp), if_pos (by omega)]; decide
        · have hlen : (claimSource.take k.toNat).length = k.toNat := by simp [claim_len]; omega
          have := ctor (claimSource.take k.toNat) true (by rw [hlen]; exact hd)
          rw [hlen] at this
          have hkk : ((k.toNat : Nat) : Int) = k := by omega
          rw [hkk] at this
          exact this
    | newz obj ok => exact ctor (ByteStr.cPrefix obj) ok hd
    | set _ _ => exact hd
    | setn _ => exact hd
    | setz _ _ => exact hd
    | get => exact hd
    | eq _ _ => exact hd
    | copy _ => exact hd
    | ser => exact hd
    | del => exact hd
  | some s =>
    have hsl : (s.length : Int) ≤ INT_MAX := by have := hv s rfl; omega
    cases op with
    | new _ _ => exact hd
    | newn _ => exact hd
    | newz _ _ => exact hd
    | set obj ok => exact setter s obj ok hsl hd
    | setn k =>
      obtain ⟨hk1, hk2, hk3⟩ := hwf
      rw [claim_len] at hk3
      unfold Desc at hd; unfold OpSpec; dsimp only at hd ⊢
      by_cases hneg : k < 0
      · have hnf : ¬ fitsSet (toSizeT k) := by
          unfold fitsSet toSizeT; rw [if_pos hneg]
          have : INT_MIN = -(intMax : Int) - 1 := rfl
          omega
        rcases hd with ⟨_, _, hfit, _⟩ | ⟨hr, hv', _⟩
        · exact absurd hfit hnf
        · refine Or.inr ⟨by rw [hr, specView_eq s hsl], hv', ?_⟩
          unfold ByteStr.setVerdict; rw [if_pos (Or.inl hneg)]; decide
      · have hts : toSizeT k = k.toNat := by unfold toSizeT; rw [if_neg hneg]
        rw [hts] at hd
        by_cases hbigk : k ≥ INT_MAX - strSetGuardSlack
        · have hnf : ¬ fitsSet k.toNat := by unfold fitsSet; omega
          rcases hd with ⟨_, _, hfit, _⟩ | ⟨hr, hv', _⟩
          · exact absurd hfit hnf
          · refine Or.inr ⟨by rw [hr, specView_eq s hsl], hv', ?_⟩
            unfold ByteStr.setVerdict
            rw [if_neg (by omega), if_neg (by simp), if_pos (by omega)]; decide
        · have hlen : (claimSource.take k.toNat).length = k.toNat := by simp [claim_len]; omega
          have := setter s (claimSource.take k.toNat) true hsl (by rw [hlen]; exact hd)
          rw [hlen] at this
          have hkk : ((k.toNat : Nat) : Int) = k := by omega
          rw [hkk] at this
          exact this
    | setz obj ok => exact setter s (ByteStr.cPrefix obj) ok hsl hd
    | get =>
      obtain ⟨hr, hv'⟩ := hd
      exact ⟨by rw [hr, specView_eq s hsl], hv'⟩
    | eq a b =>
      obtain ⟨hr, hv'⟩ := hd
      refine ⟨?_, hv'⟩
      intro other ho
      have : eqOther a b = other := by
        subst ho
        cases b with
        | none => rfl
        | some b' =>
          unfold eqOther; dsimp only
          rw [if_pos (hwf.2 b' rfl)]; rfl
      rw [← this]; exact hr
    | copy ok =>
      obtain ⟨h1, h2, hv'⟩ := hd
      have hti : toInt (s.length : Int) = ((s.length : Int), false) := toInt_small _ (by omega) hsl
      rw [hti] at h1 h2
      dsimp only at h1 h2
      refine ⟨?_, ?_, hv'⟩
      · intro hok
        have := h2 (by intro hc; rcases hc with hc | hc; omega; rw [hok] at hc; simp at hc)
        rw [this]
        have ht : s.take (s.length : Int).toNat = s := by
          have : (s.length : Int).toNat = s.length := by omega
          rw [this, List.take_length]
        rw [ht, specView_eq s hsl]
        unfold ByteStr.equal ByteStr.copy
        simp
      · intro hok; exact h1 (Or.inr hok)
    | ser => exact hd
    | del => exact hd

/-- One call from any world satisfying the invariant: no fault, invariant kept, result allowed by the
byte-string specification (the bytes read are exactly the last ones successfully stored, the length
is their count, a NUL sits at `[len]`, equality / copy / serializer use all of them). -/
theorem step_refines (w : World) (v : Option Bytes) (op : Op) (hw : WInv w v) (hwf : op.WF) :
    ∃ w' r v', step w op = .ok (w', r) ∧ WInv w' v' ∧ OpSpec v op r v' := by
  obtain ⟨w', r, v', h1, h2, h3⟩ := step_gen w v op hw hwf
  exact ⟨w', r, v', h1, h2, desc_refines v op r v' h3 hwf (fun s hs => by subst hs; exact hw.small)⟩

theorem run_refines (ops : List Op) : ∀ (w : World) (v : Option Bytes), WInv w v → (∀ op ∈ ops, op.WF) →
    ∃ w' rs v', run w ops = .ok (w', rs) ∧ WInv w' v' ∧ RunSpec v ops rs v' := by
  induction ops with
  | nil => intro w v hw _; exact ⟨w, [], v, rfl, hw, rfl⟩
  | cons op ops ih =>
    intro w v hw hwf
    obtain ⟨w1, r, v1, h1, hw1, hsp⟩ := step_refines w v op hw (hwf op (by simp))
    obtain ⟨w2, rs, v2, h2, hw2, hrs⟩ := ih w1 v1 hw1 (fun o ho => hwf o (by simp [ho]))
    refine ⟨w2, r :: rs, v2, ?_, hw2, v1, hsp, hrs⟩
    unfold run
    rw [h1]; ostep
    rw [h2]; ostep
    rfl

/-- C11 `str_refines`: every finite history of well-formed requests (new / set / set_len / failed set /
read / equal / copy / serialize / delete) from the empty world runs without fault and returns what the
byte-string specification allows: reading gives exactly the last bytes successfully stored, their
count, a NUL behind them; a refused request leaves the value as it was. -/
theorem str_refines (ops : List Op) (hwf : ∀ op ∈ ops, op.WF) :
    ∃ w' rs v', run {} ops = .ok (w', rs) ∧ WInv w' v' ∧ RunSpec none ops rs v' :=
  run_refines ops {} none WInv.empty hwf

/-! ## str_no_fault -/

/-- C11 `str_no_fault`: every finite history of well-formed requests from the empty world runs
without fault: every inline write stays inside the node's allocation, every heap write inside the
buffer, nothing freed or indeterminate is read, no `size_t` / `ssize_t` computation leaves its
range (the `int` conversions of `json_object_get_string_len` and of the deep copy are modelled as
written; they never lose a value, by `WInv.small`). -/
theorem str_no_fault (ops : List Op) (hwf : ∀ op ∈ ops, op.WF) :
    ∃ w' rs, run {} ops = .ok (w', rs) := by
  obtain ⟨w', rs, _, h, _, _⟩ := run_gen ops {} none WInv.empty hwf
  exact ⟨w', rs, h⟩

/-- the same from any world satisfying the invariant -/
theorem str_no_fault_from (w : World) (v : Option Bytes) (hw : WInv w v) (ops : List Op)
    (hwf : ∀ op ∈ ops, op.WF) : ∃ w' rs v', run w ops = .ok (w', rs) ∧ WInv w' v' := by
  obtain ⟨w', rs, v', h, hw', _⟩ := run_gen ops w v hw hwf
  exact ⟨w', rs, v', h, hw'⟩

/-! ## str_fail_intact -/

/-- C11 `str_fail_intact`: a set that reports failure (return 0) — `_json_object_set_string_len`, which
all three entry points call after computing `len` (`setStringZ`, `setStringLen`); whatever the
representation, the new length and the allocator's answer — leaves the node's
fields and every block of memory as they were, so the node still holds its previous value and a
reader sees exactly what it saw before; and it fails only because the length guard refused the
request or because it had to grow and `malloc` failed.  Conversely a set that must grow while
`malloc` fails does report failure. -/
theorem str_fail_intact (m : Mem) (n : Node) (s obj : Bytes) (len : Nat) (ok : Bool) (hm : MemInv m)
    (hr : Rep m.heap n s) (hsrc : fitsSet len → len ≤ obj.length) :
    ∃ m' n' ret, setString m n (.caller obj) len ok = .ok (m', n', ret) ∧
      (ret = 0 → n' = n ∧ m'.heap = m.heap ∧ Rep m'.heap n' s ∧
          (∃ m'', observe m' n' = .ok (m'', viewOf s)) ∧
          (¬ fitsSet len ∨ (ok = false ∧ s.length < len))) ∧
      (ok = false → fitsSet len → s.length < len → ret = 0) ∧
      (ret = 0 ∨ (ret = 1 ∧ Rep m'.heap n' (obj.take len))) := by
  obtain ⟨m', n', ret, h1, hm', _, hcase⟩ := setString_spec m n s obj len ok hm hr hsrc
  refine ⟨m', n', ret, h1, ?_, ?_, ?_⟩
  · intro h0
    rcases hcase with ⟨h, _⟩ | ⟨_, hn, hh, hor⟩
    · omega
    · have hrep : Rep m'.heap n' s := by rw [hn, hh]; exact hr
      obtain ⟨m'', ho, _, _⟩ := observe_spec hm' hrep
      refine ⟨hn, hh, hrep, ⟨m'', ho⟩, ?_⟩
      rcases hor with h | h
      · left; unfold fitsSet; omega
      · right; exact h
  · intro hok hfit hlt
    rcases hcase with ⟨_, _, _, hor⟩ | ⟨h, _⟩
    · rcases hor with h | h
      · rw [hok] at h; simp at h
      · omega
    · exact h
  · rcases hcase with ⟨h, hrep, _⟩ | ⟨h, _⟩
    · exact Or.inr ⟨h, hrep⟩
    · exact Or.inl h

/-! ## str_no_leak_no_uaf -/

/-- C11 `str_no_leak_no_uaf`: for every finite history of well-formed requests from the empty
world, on the log of allocator events and accesses: nothing is read, written or freed after its
free (no use after free, no double free), nothing is touched that was not allocated before,
allocation ids are never reused; and when the history leaves no node behind (it ends in delete,
or every constructor was refused) every allocation made has been freed exactly once (no leak). -/
theorem str_no_leak_no_uaf (ops : List Op) (hwf : ∀ op ∈ ops, op.WF) :
    ∃ w' rs, run {} ops = .ok (w', rs) ∧
      ByteStr.NoUseAfterFree w'.mem.trace ∧ ByteStr.OnlyAllocated w'.mem.trace ∧
      ByteStr.FreshIds w'.mem.trace ∧
      (w'.node = none → ByteStr.FreedOnce w'.mem.trace) := by
  obtain ⟨w', rs, v', h, hw', _⟩ := run_gen ops {} none WInv.empty hwf
  obtain ⟨hm, hnode⟩ := hw'
  refine ⟨w', rs, h, hm.nouaf, hm.alloc, ?_, ?_⟩
  · intro id; rw [hm.mallocs id]; split <;> omega
  · intro hnone id sz hmem
    rw [hnone] at hnode
    cases v' with
    | some _ => exact absurd hnode (by simp)
    | none =>
      have hdead : ∀ (id : Nat) (b : Block), w'.mem.heap[id]? = some b → b.live = false := hnode
      have hlt : id < w'.mem.heap.length := by
        have := hm.mallocs id
        by_cases hlt : id < w'.mem.heap.length
        · exact hlt
        · rw [if_neg hlt] at this
          have hin : Ev.malloc id sz ∈ w'.mem.trace.filter (Ev.isMallocOf id) := by
            rw [List.mem_filter]; exact ⟨hmem, by simp [Ev.isMallocOf]⟩
          rw [List.length_eq_zero_iff.mp this] at hin; simp at hin
      have hget : w'.mem.heap[id]? = some w'.mem.heap[id] := List.getElem?_eq_getElem hlt
      have := hm.frees id
      rw [liveAt_some hget, hdead id _ hget] at this
      exact this

/-! ## non-vacuity -/

/-- a concrete history that crosses the inline threshold both ways (3 bytes with an embedded NUL
inline, grown to 20 bytes on the heap, a failing grow, shrunk in place, emptied back to inline,
compared, copied, deleted) meets the hypotheses and is computed by the model -/
example : (∀ op ∈ [Op.new [65, 0, 66] true, .set (List.replicate 20 67) true, .set (List.replicate 30 68) false,
      .set [69, 0] true, .get, .eq [69, 0] none, .copy true, .ser, .set [] true, .setz [70, 0, 71] true, .del],
      op.WF) ∧
    (run {} [Op.new [65, 0, 66] true, .set (List.replicate 20 67) true, .set (List.replicate 30 68) false,
      .set [69, 0] true, .get, .eq [69, 0] none, .copy true, .ser, .set [] true, .setz [70, 0, 71] true, .del]).isOk = true := by
  refine ⟨?_, by decide⟩
  intro op hop
  simp only [List.mem_cons, List.mem_nil_iff, or_false] at hop
  have hI : INT_MAX = (intMax : Int) := rfl
  rcases hop with h | h | h | h | h | h | h | h | h | h | h <;> subst h <;>
    simp [Op.WF, hI, intMax, strNewIntGuardSlack]


/-- every source fact this property's model consumes was located in the current source by tools/extract (a fact that is not
found is emitted with a placeholder value; this obligation then fails and the check uses the reference model) -/
theorem source_facts_located_c11 : JsonC.Generated.factsFound_str = true := by decide

end JsonC.StrStore
