/-
  C01 — parsing a valid JSON text yields exactly the value the text denotes.

  Specification: `Spec/Rfc8259.lean` — RFC 8259 as the inductive type `Doc` (with the white space
  around every token) and `Text = ws value ws`; `text` renders it, `denote` is the value it stands for
  (members in first-occurrence order with the last duplicate's value, escapes decoded with surrogate
  pairs combined and unpaired surrogates replaced by U+FFFD, integers exact with saturation outside
  [INT64_MIN, UINT64_MAX], non-integers the correctly rounded double).

  Model: `Model/Tokener.lean` — the byte-driven machine of `json_tokener_parse_ex`.

  `parse_valid` is the property at full strength for both modes the property names (flags 0 and
  JSON_TOKENER_STRICT): for EVERY `Text` — any nesting shape, any layout, every escape, every number —
  whose nesting fits the depth the tokener was created with.  It is proved by induction over `Doc`
  (Lemmas/TokenerDoc1 … TokenerDoc10), no bound on sizes or depths.
-/
import JsonC.Lemmas.TokenerDoc10
import JsonC.Props.C04
import JsonC.Lemmas.TokenerLibc
namespace JsonC.Props.C01
open JsonC JsonC.Tokener JsonC.Rfc8259

/-- what the tokener's three libc calls are assumed to do on the text of a JSON number (the
correspondence run compares them with glibc on every generated number) -/
abbrev LibcOk := LibcSpec

/-- **C01**.  A tokener created with nesting limit `depth` and flags 0 (default) or 1 (strict) is
handed the NUL-terminated text of any RFC 8259 document `x` — well-formed pieces, nesting below the
limit, member names free of U+0000, and (strict mode only) integers within 64 bits.  Then the call
succeeds, the returned tree is exactly `x.doc.denote`, the reported end position is the length of the
text, and no step of the run is undefined. -/
theorem parse_valid (lc : Libc) (hl : LibcOk lc) (depth : Int) (flags : Nat) (hf : flags = 0 ∨ flags = 1)
    (t : Tok) (hnew : Tokener.new depth flags = some t) (x : Text)
    (hok : x.doc.ok = true) (hknf : x.doc.keysNulFree = true) (hfit : flags = 1 → x.doc.intsFit = true)
    (hdepth : x.doc.nest + 1 ≤ depth.toNat) :
    let f := parseEx lc t (x.text ++ [0])
    f.err = .success ∧ f.value = some x.doc.denote ∧ f.offset = x.text.length ∧ f.stuck = false ∧ f.fault = none := by
  obtain ⟨hv, hhs, hst, hmd, hstrict⟩ := noVal_of_flags depth flags t hnew hf
  have hwf := new_wf depth flags t hnew
  apply top_level lc t hwf hst hv x x.doc.denote
  exact doc_goal lc hl x.doc t {} .null [] hwf hst hv hhs rfl hok (fun h => hfit (hstrict.mp h)) hknf
    (by rw [hmd]; simp only [List.length_nil]; omega)

/-- the same for a value nested anywhere: whatever levels are below, a level waiting for a value that
is fed the text of `d` ends up holding `d.denote` (the induction hypothesis of `parse_valid`, exported
because C15 and C03 reuse it) -/
theorem value_parsed (lc : Libc) (hl : LibcOk lc) (d : Doc) : DocGoal lc d := doc_goal lc hl d

/-- **Integers beyond 64 bits are rejected in strict mode**: the classification step (the only place
where the token's text is turned into a value) answers "number expected" -/
theorem strict_rejects_wide_integer (lc : Libc) (hl : LibcOk lc) (t : Tok) (n : Num) (hok : n.ok = true)
    (hstrict : t.strict = true) (hint : t.isDouble = false) (hfrac : n.frac = none) (hexp : n.exp = none)
    (hwide : n.fits64 = false) :
    classifyNum lc t n.text = .error .number := by
  have hlz := no_leading_zero n hok
  simp only at hlz
  unfold classifyNum
  simp only
  rw [show (t.strict && (if n.text.head? == some 45 then n.text.drop 1 else n.text).head? == some 48 &&
      startsWithDigit ((if n.text.head? == some 45 then n.text.drop 1 else n.text).drop 1)) = false from by
        rw [Bool.and_assoc, hlz]; simp]
  simp only [Bool.false_eq_true, if_false]
  obtain ⟨neg, ip, frac, ex⟩ := n
  simp only at hfrac hexp
  subst hfrac; subst hexp
  have hok' := hok
  simp only [Num.ok, Bool.and_eq_true] at hok'
  obtain ⟨⟨⟨hip, _⟩, _⟩, _⟩ := hok'
  have hipd := digitsOk_lt ip hip
  have htxt : Num.text ⟨neg, ip, none, none⟩ = signByte neg ++ digitsText ip := by simp [Num.text, fracText, expText]
  simp only [hint, Bool.not_false, Bool.true_and, htxt]
  cases ip with
  | nil => exact absurd rfl hipd.2
  | cons d r =>
    have hdl := hipd.1 d (by simp)
    cases neg with
    | true =>
      have hh : (signByte true ++ digitsText (d :: r)).head? == some 45 := by simp [signByte]
      simp only [hh, if_true]
      have hi := hl.int64 (d :: r) hip
      have : signByte true ++ digitsText (d :: r) = 45 :: digitsText (d :: r) := by simp [signByte]
      rw [this, hi]
      have hlt : -(natOfDigits (d :: r) : Int) < INT64_MIN := by
        simp [Num.fits64] at hwide; omega
      simp [hlt, hstrict]
    | false =>
      have hh : ((signByte false ++ digitsText (d :: r)).head? == some 45) = false := by
        simp [signByte, digitsText, digit_byte_ne45 d hdl]
      simp only [hh, Bool.false_eq_true, if_false]
      have hu := hl.uint64 (d :: r) hip
      have : signByte false ++ digitsText (d :: r) = digitsText (d :: r) := by simp [signByte]
      rw [this, hu]
      have hgt : (natOfDigits (d :: r) : Int) > UINT64_MAX := by
        simp [Num.fits64] at hwide; omega
      simp [hgt, hstrict]

/-- … and saturate in default mode: that is `parse_valid` at `flags = 0`, where `intsFit` is not
demanded and `Num.denote` is the saturated value; spelled out for the two boundary numbers -/
example : (Doc.num ⟨false, [1,8,4,4,6,7,4,4,0,7,3,7,0,9,5,5,1,6,1,6], none, none⟩).denote = .int false 18446744073709551615 := by
  rfl
example : (Doc.num ⟨true, [9,2,2,3,3,7,2,0,3,6,8,5,4,7,7,5,8,0,9], none, none⟩).denote = .int true (-9223372036854775808) := by
  rfl

/-- the libc hypothesis is satisfiable: the reference conversions the driver runs (`refLibc`: exact
strtoll/strtoull with ERANGE saturation, `Dbl.strtod` = exact round-to-nearest-even) meet it; the
correspondence run compares these reference conversions with glibc on every generated number -/
theorem libc_hypothesis_holds_for_reference : LibcOk refLibc := refLibc_ok

/-- `parse_valid` with the reference conversions plugged in: no hypothesis left but the document's -/
theorem parse_valid_reference (depth : Int) (flags : Nat) (hf : flags = 0 ∨ flags = 1)
    (t : Tok) (hnew : Tokener.new depth flags = some t) (x : Text)
    (hok : x.doc.ok = true) (hknf : x.doc.keysNulFree = true) (hfit : flags = 1 → x.doc.intsFit = true)
    (hdepth : x.doc.nest + 1 ≤ depth.toNat) :
    let f := parseEx refLibc t (x.text ++ [0])
    f.err = .success ∧ f.value = some x.doc.denote ∧ f.offset = x.text.length ∧ f.stuck = false ∧ f.fault = none :=
  parse_valid refLibc refLibc_ok depth flags hf t hnew x hok hknf hfit hdepth

/-! ### non-vacuity: the hypotheses of `parse_valid` are met by a concrete nested document, and the
reference libc satisfies nothing we cannot check — `LibcOk` is an assumption about glibc, stated as
data and compared with glibc on every generated number by the correspondence run -/

/-- `{"a":[1,"😀"]}` with spaces -/
def sample : Text :=
  ⟨[.sp], .obj [] [([], [.raw 97], [], [.sp],
      .arr [] [([], .num ⟨false, [1], none, none⟩, []),
               ([.sp], .str [.u ⟨13, true⟩ ⟨8, false⟩ ⟨3, false⟩ ⟨13, false⟩, .u ⟨13, false⟩ ⟨14, true⟩ ⟨0, false⟩ ⟨0, false⟩], [])], [])], [.lf]⟩

example : sample.doc.ok = true ∧ sample.doc.keysNulFree = true ∧ sample.doc.intsFit = true ∧ sample.doc.nest = 2 ∧
    (Tokener.new 32 0).isSome ∧ (Tokener.new 32 1).isSome := by
  refine ⟨?_, ?_, ?_, ?_, ?_, ?_⟩ <;> decide


/-- every source fact this property's model consumes was located in the current source by tools/extract (a fact that is not
found is emitted with a placeholder value; this obligation then fails and the check uses the reference model) -/
theorem source_facts_located_c01 : JsonC.Generated.factsFound_tok = true := by decide

end JsonC.Props.C01
