/-
  C08  One allocation failure gives a clean failure: no leak, crash or corruption.  (partial)

  Property theorems only.  Model: JsonC/Model/Alloc.lean (allocation monad: state = calls made, live
  blocks, errno; the oracle `g : Nat → Bool` says which allocator calls are granted — `failAt k` is the
  single fault of the property, `failAt2 k1 k2` the double fault; every theorem holds for EVERY oracle,
  hence for both) and JsonC/Model/AllocSer.lean (the serializers as append sequences).

  Reading a statement `Post (f ..) g h (fun r h' => ..)`:  from every well-formed heap `h` and for every
  oracle `g` the call does not fault (no free of a block that is not live, no integer overflow) and
  its result `r` and final heap `h'` satisfy the post-condition, which always has the shape
     success: the normal result, `h'.live` = `h.live` plus exactly the blocks the result owns
              (minus blocks the operation is documented to release), or
     failure: the documented failure value, the caller's objects unchanged, `h'.live = h.live`, and
              `Failed g h h'` (some call of the window was refused) or an argument-range refusal
              that performs no allocation.
  `Failed` can not hold when every call is granted (`not_failed_of_granted`), so a fault-free run
  takes the success branch.

  Definitions: `WF`, `Failed`, `Post` in Lemmas/Alloc.lean; `AlKeptOrMoved`, `LhOK`, `ObjAdded`, `keep` in
  Lemmas/AllocOps.lean; `OwnedIn` in Lemmas/AllocTree.lean; `srcOK` in Lemmas/AllocCopy.lean.  The proofs
  (weakest-precondition style, one lemma per allocator primitive) are in Lemmas/AllocSpec.lean and
  Lemmas/AllocCopy.lean; this file restates each result and instantiates it.

  What is NOT proved here (MANIFEST: fault enumeration): the allocation sequence of whole workloads
  (parse, serialize of an arbitrary tree, patch); the tie of this hand-written model to the C code is
  the correspondence run (request traces compared call by call) and the shape facts of st_alloc.py.
-/
import JsonC.Lemmas.AllocCopy
import JsonC.Lemmas.AllocSer

namespace JsonC.Alloc
open JsonC Generated

/-! ## printbuf.c -/

/-- printbuf_new: both blocks or none -/
theorem pbNew_clean (g : Oracle) (h : Heap) (hwf : WF h) :
    Post pbNew g h (fun r h' => WF h' ∧ h.next ≤ h'.next ∧
      ((∃ p, r = some p ∧ h'.live = h.live ++ [p.self, p.buf] ∧ p.size = pbInitSize ∧ p.bpos = 0 ∧ h'.errno = h.errno) ∨
       (r = none ∧ h'.live = h.live ∧ Failed g h h'))) :=
  pbNew_spec g h hwf

/-- printbuf_extend: nothing to do, or the buffer block replaced by a larger one, or -1 with the
printbuf and the heap unchanged (EFBIG without any allocation, or the realloc was refused) -/
theorem pbExtend_clean (g : Oracle) (h : Heap) (hwf : WF h) (p : PbA) (m : Int) (hb : p.buf ∈ h.live) (hm : 0 ≤ m) :
    Post (pbExtend p m) g h (fun r h' => WF h' ∧ h.next ≤ h'.next ∧
      ((r.2 = 0 ∧ r.1 = p ∧ (p.size : Int) ≥ m ∧ h'.live = h.live ∧ h'.next = h.next) ∨
       (r.2 = 0 ∧ r.1.self = p.self ∧ r.1.bpos = p.bpos ∧ m ≤ r.1.size ∧ p.size ≤ r.1.size ∧
          h'.live = h.live.filter (· != p.buf) ++ [r.1.buf] ∧ h'.next = h.next + 1 ∧ r.1.buf.id = h.next + 1) ∨
       (r.2 = -1 ∧ r.1 = p ∧ h'.live = h.live ∧
          ((h'.errno = .EFBIG ∧ m > INT_MAX - pbExtendGuard ∧ h'.next = h.next) ∨ Failed g h h')))) :=
  pbExtend_spec g h hwf p m hb hm

/-- printbuf_memappend (contents abstracted): served with the buffer kept or replaced, or refused with
the printbuf and the heap unchanged -/
theorem pbMemappend_clean (g : Oracle) (h : Heap) (hwf : WF h) (p : PbA) (size : Int) (hb : p.buf ∈ h.live) :
    Post (pbMemappend p size) g h (fun r h' => WF h' ∧ h.next ≤ h'.next ∧
      ((r.2 = size ∧ 0 ≤ size ∧ r.1.self = p.self ∧ r.1.bpos = p.bpos + size.toNat ∧ r.1.bpos < r.1.size ∧
          ((r.1.buf = p.buf ∧ r.1.size = p.size ∧ h'.live = h.live ∧ h'.next = h.next) ∨
           (h'.live = h.live.filter (· != p.buf) ++ [r.1.buf] ∧ h'.next = h.next + 1 ∧ r.1.buf.id = h.next + 1))) ∨
       (r.2 = -1 ∧ r.1 = p ∧ h'.live = h.live ∧ (h'.errno = .EFBIG ∨ Failed g h h')))) :=
  pbMemappend_spec g h hwf p size hb

/-- tie to the C19 model (Model/Printbuf.lean, which assumes the realloc succeeds): when printbuf_extend
has to grow, C19's `extend` produces exactly the size this model asks realloc for -/
theorem pbExtend_refines_C19 (p : Printbuf.Pb) (m : Int) (h1 : ¬ (p.size : Int) ≥ m)
    (h2 : ¬ m > Printbuf.INT_MAX - pbExtendGuard) :
    Printbuf.extend p m = (pbNewSize p.size m >>= fun n =>
      if n ≤ 0 then .fault "extend: realloc with non-positive size"
      else .ok ⟨{ p with cells := Printbuf.reallocCells p.cells n.toNat, size := n.toNat }, 0, .none⟩) := by
  unfold Printbuf.extend pbNewSize
  rw [if_neg h1, if_neg h2]
  have hI : INT_MAX = Printbuf.INT_MAX := rfl
  rw [hI]
  by_cases h3 : (p.size : Int) > Printbuf.INT_MAX / 2
  · simp only [if_pos h3]
  · simp only [if_neg h3]
    cases Printbuf.ckInt (↑p.size * 2) "extend: p->size * 2" with
    | fault w => rfl
    | ok d =>
      cases Printbuf.ckInt (m + ↑pbExtendSlack) "extend: min_size + 8" <;> rfl
/-! ## arraylist.c -/

/-- array_list_new2: both blocks or none -/
theorem alNew2_clean (g : Oracle) (h : Heap) (hwf : WF h) (n : Int) :
    Post (alNew2 n) g h (fun r h' => WF h' ∧ h.next ≤ h'.next ∧
      ((∃ a, r = some a ∧ h'.live = h.live ++ [a.self, a.array] ∧ a.size = n.toNat ∧ a.length = 0 ∧ 0 ≤ n) ∨
       (r = none ∧ h'.live = h.live ∧
          (Failed g h h' ∨ ((n < 0 ∨ n.toNat ≥ SIZE_T_MAX / PTR) ∧ h'.next = h.next))))) :=
  alNew2_spec g h hwf n

/-- array_list_expand_internal: capacity reached (array kept or replaced), or -1 with the list and the
heap unchanged.  (The realloc result goes through a temporary: `allocAlExpandChecksTemp`.) -/
theorem alExpand_clean (g : Oracle) (h : Heap) (hwf : WF h) (a : AlA) (max : Nat) (hb : a.array ∈ h.live) :
    Post (alExpand a max) g h (fun r h' => WF h' ∧ h.next ≤ h'.next ∧
      ((r.2 = 0 ∧ AlKeptOrMoved h a r.1 h' ∧ r.1.length = a.length ∧ max ≤ r.1.size ∧
          (r.1.size = a.size ∨ (a.size ≤ max ∧ (r.1.size = max ∨ r.1.size = a.size * 2)))) ∨
       (r.2 = -1 ∧ r.1 = a ∧ h'.live = h.live ∧
          (Failed g h h' ∨ (h'.next = h.next ∧ (max > SIZE_T_MAX / PTR ∨ a.size * 2 > SIZE_T_MAX / PTR)))))) :=
  alExpand_spec g h hwf a max hb

/-- array_list_shrink: same shape (a failed realloc leaves the larger array in place) -/
theorem alShrink_clean (g : Oracle) (h : Heap) (hwf : WF h) (a : AlA) (e : Nat) (hb : a.array ∈ h.live)
    (hlen : a.length ≤ SIZE_T_MAX / PTR) :
    Post (alShrink a e) g h (fun r h' => WF h' ∧ h.next ≤ h'.next ∧
      ((r.2 = 0 ∧ AlKeptOrMoved h a r.1 h' ∧ r.1.length = a.length) ∨
       (r.2 = -1 ∧ r.1 = a ∧ h'.live = h.live ∧ (Failed g h h' ∨ h'.next = h.next)))) :=
  alShrink_spec g h hwf a e hb hlen

/-- array_list_add: length + 1 inside the capacity, or -1 with the list and the heap unchanged -/
theorem alAdd_clean (g : Oracle) (h : Heap) (hwf : WF h) (a : AlA) (hb : a.array ∈ h.live) :
    Post (alAdd a) g h (fun r h' => WF h' ∧ h.next ≤ h'.next ∧
      ((r.2 = 0 ∧ AlKeptOrMoved h a r.1 h' ∧ r.1.length = a.length + 1 ∧ r.1.length ≤ r.1.size ∧
          (r.1.size = a.size ∨ (a.size ≤ a.length + 1 ∧ (r.1.size = a.length + 1 ∨ r.1.size = a.size * 2)))) ∨
       (r.2 = -1 ∧ r.1 = a ∧ h'.live = h.live ∧
          (Failed g h h' ∨ (h'.next = h.next ∧ (a.length + 1 > SIZE_T_MAX / PTR ∨ a.size * 2 > SIZE_T_MAX / PTR)))))) :=
  alAdd_spec g h hwf a hb

/-- array_list_put_idx (capacity and length): like add -/
theorem alPutIdx_clean (g : Oracle) (h : Heap) (hwf : WF h) (a : AlA) (idx : Nat) (hb : a.array ∈ h.live) :
    Post (alPutIdx a idx) g h (fun r h' => WF h' ∧ h.next ≤ h'.next ∧
      ((r.2 = 0 ∧ AlKeptOrMoved h a r.1 h' ∧ idx < r.1.size) ∨
       (r.2 = -1 ∧ r.1 = a ∧ h'.live = h.live))) :=
  alPutIdx_spec g h hwf a idx hb

/-! ## linkhash.c -/

/-- lh_table_new: both blocks or none -/
theorem lhNew_clean (g : Oracle) (h : Heap) (hwf : WF h) (size : Nat) (hs : 0 < size) :
    Post (lhNew size) g h (fun r h' => WF h' ∧ h.next ≤ h'.next ∧
      ((∃ t, r = some t ∧ h'.live = h.live ++ [t.self, t.table] ∧ t.size = size ∧ t.count = 0 ∧
          h'.next = h.next + 2 ∧ t.self.id = h.next + 1 ∧ t.table.id = h.next + 2) ∨
       (r = none ∧ h'.live = h.live ∧ Failed g h h'))) :=
  lhNew_spec g h hwf size hs

/-- lh_table_resize when re-filling the new table cannot itself trigger a resize (`new_size = 2 S`
with at most `S` entries; this is how lh_table_insert_w_hash calls it): the entry array is replaced,
or -1 with the table and the heap unchanged — the half-built new table is released. -/
theorem lhResizeWith_clean (g : Oracle) (h : Heap) (hwf : WF h) (f : Nat) (t : LhA) (S : Nat)
    (htab : t.table ∈ h.live) (hS : 0 < S) (hSm : S ≤ intMax) (hc : t.count ≤ S) :
    Post (lhResizeWith (lhInsertN f) t (S * 2)) g h (fun r h' => WF h' ∧ h.next ≤ h'.next ∧
      ((r.2 = 0 ∧ r.1.self = t.self ∧ r.1.count = t.count ∧ r.1.size = S * 2 ∧
          h'.live = h.live.filter (· != t.table) ++ [r.1.table] ∧ h'.next = h.next + 2 ∧ r.1.table.id = h.next + 2) ∨
       (r.2 = -1 ∧ r.1 = t ∧ h'.live = h.live ∧ Failed g h h'))) :=
  lhResizeWith_spec g h hwf f t S htab hS hSm hc

/-- lh_table_insert_w_hash (allocation behaviour): count + 1 with the entry array kept or doubled, or
-1 (the resize could not allocate) with the table and the heap unchanged -/
theorem lhInsert_clean (g : Oracle) (h : Heap) (hwf : WF h) (t : LhA) (htab : t.table ∈ h.live) (hok : LhOK t) :
    Post (lhInsert t) g h (fun r h' => WF h' ∧ h.next ≤ h'.next ∧
      ((r.2 = 0 ∧ r.1.self = t.self ∧ r.1.count = t.count + 1 ∧ r.1.count ≤ r.1.size ∧
          ((r.1.table = t.table ∧ r.1.size = t.size ∧ h'.live = h.live ∧ h'.next = h.next) ∨
           (r.1.size = t.size * 2 ∧ h'.live = h.live.filter (· != t.table) ++ [r.1.table] ∧
              h'.next = h.next + 2 ∧ r.1.table.id = h.next + 2 ∧ t.size ≤ 2 * t.count + 1))) ∨
       (r.2 = -1 ∧ r.1 = t ∧ h'.live = h.live ∧ Failed g h h'))) :=
  lhInsert_spec g h hwf t htab hok

/-! ## json_object.c: constructors -/

/-- json_object_new_boolean / _double / _int64 / _uint64: one block or NULL -/
theorem newPrim_clean (g : Oracle) (h : Heap) (hwf : WF h) (k : PrimKind) :
    Post (newPrim k) g h (fun r h' => WF h' ∧ h.next ≤ h'.next ∧ h'.live = h.live ++ owned r ∧
      ((∃ b, r = .prim k b ∧ b.id = h.next + 1 ∧ h'.errno = h.errno) ∨ (r = .null ∧ Failed g h h'))) :=
  newPrim_spec g h hwf k

/-- json_object_new_string_len: one block holding header and bytes, or NULL (refused length: no call) -/
theorem newStringLen_clean (g : Oracle) (h : Heap) (hwf : WF h) (s : Bytes) :
    Post (newStringLen s) g h (fun r h' => WF h' ∧ h.next ≤ h'.next ∧ h'.live = h.live ++ owned r ∧
      ((∃ b, r = .str b s none ∧ b.size = strObjSize s.length ∧ b.id = h.next + 1) ∨
       (r = .null ∧ (Failed g h h' ∨ (s.length ≥ intMax - strNewIntGuardSlack ∧ h'.next = h.next))))) :=
  newStringLen_spec g h hwf s

/-- json_object_new_double_s: node + copy of the text, or NULL with errno ENOMEM and nothing kept -/
theorem newDoubleS_clean (g : Oracle) (h : Heap) (hwf : WF h) (n : Nat) :
    Post (newDoubleS n) g h (fun r h' => WF h' ∧ h.next ≤ h'.next ∧ h'.live = h.live ++ owned r ∧
      ((∃ b ud, r = .dbls b ud ∧ ud.size = n + 1 ∧ b.id = h.next + 1 ∧ ud.id = h.next + 2) ∨
       (r = .null ∧ Failed g h h' ∧ h'.errno = .ENOMEM))) :=
  newDoubleS_spec g h hwf n

/-- json_object_new_array_ext: node + array_list + slot array, or NULL with nothing kept -/
theorem newArrayExt_clean (g : Oracle) (h : Heap) (hwf : WF h) (n : Int) :
    Post (newArrayExt n) g h (fun r h' => WF h' ∧ h.next ≤ h'.next ∧ h'.live = h.live ++ owned r ∧
      ((∃ b al, r = .arr b al [] ∧ al.size = n.toNat ∧ al.length = 0 ∧ 0 ≤ n) ∨
       (r = .null ∧ (Failed g h h' ∨ n < 0 ∨ n.toNat ≥ SIZE_T_MAX / PTR)))) :=
  newArrayExt_spec g h hwf n

/-- json_object_new_object: node + lh_table + entry array, or NULL with errno ENOMEM and nothing kept -/
theorem newObject_clean (g : Oracle) (h : Heap) (hwf : WF h) :
    Post newObject g h (fun r h' => WF h' ∧ h.next ≤ h'.next ∧ h'.live = h.live ++ owned r ∧
      ((∃ b lh, r = .obj b lh [] ∧ lh.size = objectDefHashEntries ∧ lh.count = 0) ∨
       (r = .null ∧ Failed g h h' ∧ h'.errno = .ENOMEM))) :=
  newObject_spec g h hwf

/-! ## json_tokener.c: constructor -/

/-- json_tokener_new_ex: tokener + stack + printbuf (4 blocks), or NULL with nothing kept -/
theorem tokenerNewEx_clean (g : Oracle) (h : Heap) (hwf : WF h) (depth : Int) :
    Post (tokenerNewEx depth) g h (fun r h' => WF h' ∧ h.next ≤ h'.next ∧
      ((∃ t, r = some t ∧ h'.live = h.live ++ [t.self, t.stack, t.pb.self, t.pb.buf] ∧ t.depth = depth.toNat) ∨
       (r = none ∧ h'.live = h.live ∧ (Failed g h h' ∨ (depth < 1 ∧ h'.next = h.next))))) :=
  tokenerNewEx_spec g h hwf depth

/-! ## json_object.c: mutators -/

/-- _json_object_set_string_len: the node takes the new bytes (storage kept, external buffer released
for the empty string, or a fresh buffer replacing the old one — the old one is freed only after the
malloc succeeded: `allocSetStrFreeAfterMalloc`), or returns 0 with the node and the heap unchanged -/
theorem setStringLen_clean (g : Oracle) (h : Heap) (hwf : WF h) (b : Blk) (old s : Bytes) (pd : Option Blk)
    (hpd : ∀ p, pd = some p → p ∈ h.live) :
    Post (setStringLen (.str b old pd) s) g h (fun r h' => WF h' ∧ h.next ≤ h'.next ∧
      ((r.2 = 1 ∧ ∃ pd', r.1 = .str b s pd' ∧
          ((pd' = pd ∧ h'.live = h.live ∧ h'.next = h.next) ∨
           (∃ p, pd = some p ∧ pd' = none ∧ s.length = 0 ∧ h'.live = h.live.filter (· != p) ∧ h'.next = h.next) ∨
           (∃ nb, pd' = some nb ∧ nb.size = s.length + strGrowNulRoom ∧ nb.id = h.next + 1 ∧
              h'.live = h.live.filter (keep pd.toList) ++ [nb] ∧ h'.next = h.next + 1))) ∨
       (r.2 = 0 ∧ r.1 = .str b old pd ∧ h'.live = h.live ∧
          (Failed g h h' ∨ (s.length ≥ intMax - strSetGuardSlack ∧ h'.next = h.next))))) :=
  setStringLen_spec g h hwf b old s pd hpd

/-- json_object_array_add: the value is appended (slot array kept or replaced), or -1 with the array
and the heap unchanged (the caller still owns the value) -/
theorem arrayAdd_clean (g : Oracle) (h : Heap) (hwf : WF h) (b : Blk) (al : AlA) (es : List Node) (val : Node)
    (hb : al.array ∈ h.live) :
    Post (arrayAdd (.arr b al es) val) g h (fun r h' => WF h' ∧ h.next ≤ h'.next ∧
      ((r.2 = 0 ∧ ∃ al', r.1 = .arr b al' (es ++ [val]) ∧ AlKeptOrMoved h al al' h' ∧ al'.length = al.length + 1 ∧
          (al'.size = al.size ∨ (al.size ≤ al.length + 1 ∧ (al'.size = al.length + 1 ∨ al'.size = al.size * 2)))) ∨
       (r.2 = -1 ∧ r.1 = .arr b al es ∧ h'.live = h.live ∧
          (Failed g h h' ∨ (h'.next = h.next ∧ (al.length + 1 > SIZE_T_MAX / PTR ∨ al.size * 2 > SIZE_T_MAX / PTR)))))) :=
  arrayAdd_spec g h hwf b al es val hb

/-- json_object_array_put_idx: the slot takes the value (the element it held is released), or -1 with
the array and the heap unchanged -/
theorem arrayPutIdx_clean (g : Oracle) (h : Heap) (hwf : WF h) (b : Blk) (al : AlA) (es : List Node) (idx : Nat)
    (val : Node) (ho : OwnedIn h (owned (.arr b al es))) :
    Post (arrayPutIdx (.arr b al es) idx val) g h (fun r h' => WF h' ∧ h.next ≤ h'.next ∧
      ((r.2 = 0 ∧ ∃ al', r.1 = .arr b al' (putElems es idx val).2 ∧ al'.self = al.self) ∨
       (r.2 = -1 ∧ r.1 = .arr b al es ∧ h'.live = h.live))) :=
  arrayPutIdx_spec g h hwf b al es idx val ho

/-- json_object_object_add_ex.
  * existing key: the old value is released and replaced, no allocation, rc 0;
  * new key: the key is copied (unless CONSTANT_KEY) and the entry inserted, the entry array kept or
    doubled, rc 0;
  * -1 with the object and the heap unchanged — in particular the key copy is freed when the insert
    fails (`allocObjAddFreesKeyOnFail`); the caller still owns the value. -/
theorem objectAddEx_clean (g : Oracle) (h : Heap) (hwf : WF h) (b : Blk) (lh : LhA)
    (ms : List (Bytes × Option Blk × Node)) (key : Bytes) (val : Node) (keyIsNew constKey : Bool)
    (htab : lh.table ∈ h.live) (hok : LhOK lh)
    (hold : ∀ i, keyIsNew = false → findKey key ms = some i → OwnedIn h (owned (memberVal ms i))) :
    Post (objectAddEx (.obj b lh ms) key val keyIsNew constKey) g h (fun r h' => WF h' ∧ h.next ≤ h'.next ∧
      ((r.2 = 0 ∧ ∃ i, keyIsNew = false ∧ findKey key ms = some i ∧ r.1 = .obj b lh (setMemberVal ms i val) ∧
          h'.live = h.live.filter (keep (owned (memberVal ms i))) ∧ h'.next = h.next) ∨
       (r.2 = 0 ∧ (keyIsNew = true ∨ findKey key ms = none) ∧ ObjAdded h b lh ms key val constKey r.1 h') ∨
       (r.2 = -1 ∧ r.1 = .obj b lh ms ∧ h'.live = h.live ∧ Failed g h h'))) :=
  objectAddEx_spec g h hwf b lh ms key val keyIsNew constKey htab hok hold

/-! ## json_object_put, json_object_deep_copy -/

/-- json_object_put of an unshared tree releases exactly the blocks the tree owns -/
theorem putNode_releases (t : Node) (g : Oracle) (h : Heap) (hwf : WF h) (ho : OwnedIn h (owned t)) :
    Post (putNode t) g h (fun _ h' => WF h' ∧ h'.next = h.next ∧ h'.errno = h.errno ∧
      h'.live = h.live.filter (keep (owned t))) :=
  putNode_spec t g h hwf ho

/-- json_object_deep_copy: returns 0 and a new tree whose blocks are exactly the blocks added to the
heap, or returns -1 with *dst == NULL and the heap exactly as before (the partial copy is released at
every level: `allocDeepCopyPutsChild`, `allocDeepCopyPutsPartial`); -1 only if an allocation was refused -/
theorem deepCopy_clean (g : Oracle) (h : Heap) (hwf : WF h) (src : Node) (hsrc : srcOK src) (hnn : src ≠ .null) :
    Post (deepCopy src) g h (fun r h' => WF h' ∧ h.next ≤ h'.next ∧
      ((r.1 = 0 ∧ ∃ N, h'.live = h.live ++ N ∧ N.Perm (owned r.2)) ∨
       (r.1 = -1 ∧ r.2 = .null ∧ h'.live = h.live ∧ Failed g h h'))) :=
  deepCopy_spec g h hwf src hsrc hnn

/-! ## json_pointer_set -/

/-- json_pointer_set_single_path: 0, or -1 with the parent and the heap unchanged (the working copy of
the key is freed on both paths: `allocPtrSetFreesKey`) -/
theorem ptrSetSingle_clean (g : Oracle) (h : Heap) (hwf : WF h) (parent : Node) (plan : PtrPlan) (value : Node)
    (ho : OwnedIn h (owned parent)) (hlh : ∀ b lh ms, parent = .obj b lh ms → LhOK lh) :
    Post (ptrSetSingle parent plan value) g h (fun r h' => WF h' ∧ h.next ≤ h'.next ∧
      (r.2 = 0 ∨ (r.2 = -1 ∧ r.1 = parent ∧ h'.live = h.live))) :=
  ptrSetSingle_spec g h hwf parent plan value ho hlh

/-- json_pointer_set: never faults; on failure (bad path, missing parent, refused allocation — the
working copy of the path is freed first: `allocPtrSetFreesPathCopy`) the tree and the heap are unchanged -/
theorem pointerSet_clean_partial (g : Oracle) (h : Heap) (hwf : WF h) (root value : Node) (plan : PtrPlan)
    (ho : OwnedIn h (owned root))
    (hlh : ∀ pos b lh ms, nodeAt root pos = some (.obj b lh ms) → LhOK lh)
    (hplan : ∀ pos, plan.parentPos = some pos → (nodeAt root pos).isSome) :
    Post (pointerSet root plan value) g h (fun r h' => WF h' ∧ h.next ≤ h'.next ∧
      (r.2 = 0 ∨ (r.2 = -1 ∧ r.1 = root ∧ h'.live = h.live))) :=
  pointerSet_partial_spec g h hwf root value plan ho hlh hplan

/-! ## json_tokener.c: attaching a completed child -/

/-- json_tokener_parse_ex, state array_add: the child is attached, or — memory error — the array and
everything else is unchanged and the child (which has no other owner) is released:
`allocTokAttachPutsChild` (the fix of the `obj` leak) -/
theorem tokAttachArray_clean (g : Oracle) (h : Heap) (hwf : WF h) (b : Blk) (al : AlA) (es : List Node) (child : Node)
    (hb : al.array ∈ h.live) (hc : OwnedIn h (owned child)) :
    Post (tokAttachArray (.arr b al es) child) g h (fun r h' => WF h' ∧ h.next ≤ h'.next ∧
      ((r.2 = false ∧ ∃ al', r.1 = .arr b al' (es ++ [child]) ∧ AlKeptOrMoved h al al' h') ∨
       (r.2 = true ∧ r.1 = .arr b al es ∧ h'.live = h.live.filter (keep (owned child))))) :=
  tokAttachArray_spec g h hwf b al es child hb hc

/-- json_tokener_parse_ex, state object_value_add: same for json_object_object_add (a repeated member
name replaces — and releases — the earlier value) -/
theorem tokAttachObject_clean (g : Oracle) (h : Heap) (hwf : WF h) (b : Blk) (lh : LhA)
    (ms : List (Bytes × Option Blk × Node)) (key : Bytes) (child : Node)
    (htab : lh.table ∈ h.live) (hok : LhOK lh) (hms : OwnedIn h (ownedMembers ms)) (hc : OwnedIn h (owned child)) :
    Post (tokAttachObject (.obj b lh ms) key child) g h (fun r h' => WF h' ∧ h.next ≤ h'.next ∧
      ((r.2 = false ∧ ((∃ i, findKey key ms = some i ∧ r.1 = .obj b lh (setMemberVal ms i child) ∧
              h'.live = h.live.filter (keep (owned (memberVal ms i)))) ∨
           (findKey key ms = none ∧ ObjAdded h b lh ms key child false r.1 h'))) ∨
       (r.2 = true ∧ r.1 = .obj b lh ms ∧ h'.live = h.live.filter (keep (owned child))))) :=
  tokAttachObject_spec g h hwf b lh ms key child htab hok hms hc

/-- the single fault of the property, instantiated for deep copy: a -1 return means call `k` fell
inside the window (and was the one refused), the heap is as before; a fault-free run returns 0 -/
theorem deepCopy_single_fault (k : Nat) (h : Heap) (hwf : WF h) (src : Node) (hsrc : srcOK src) (hnn : src ≠ .null) :
    Post (deepCopy src) (failAt k) h (fun r h' =>
      (r.1 = 0 ∧ ∃ N, h'.live = h.live ++ N ∧ N.Perm (owned r.2)) ∨
      (r.1 = -1 ∧ r.2 = .null ∧ h'.live = h.live ∧ h.next < k ∧ k ≤ h'.next)) := by
  apply Post.mono (deepCopy_clean (failAt k) h hwf src hsrc hnn)
  rintro r h' ⟨_, _, hc⟩
  rcases hc with hc | ⟨h1, h2, h3, hf⟩
  · exact Or.inl hc
  · exact Or.inr ⟨h1, h2, h3, failed_failAt hf⟩

theorem deepCopy_granted (g : Oracle) (h : Heap) (hwf : WF h) (src : Node) (hsrc : srcOK src) (hnn : src ≠ .null)
    (hall : ∀ k, h.next < k → g k = true) :
    Post (deepCopy src) g h (fun r h' => r.1 = 0 ∧ ∃ N, h'.live = h.live ++ N ∧ N.Perm (owned r.2)) := by
  apply Post.mono (deepCopy_clean g h hwf src hsrc hnn)
  rintro r h' ⟨_, _, hc⟩
  rcases hc with hc | ⟨_, _, _, hf⟩
  · exact hc
  · exact absurd hf (not_failed_of_granted hall)

/-! ## non-vacuity and the counter-example of the known finding -/

/-- a small tree: [7, "ab"] as jt_build leaves it -/
def exSrc : Node := .arr ⟨1, 48⟩ ⟨⟨2, 32⟩, ⟨3, 256⟩, 32, 2⟩ [.prim .int ⟨4, 56⟩, .str ⟨5, 57⟩ [97, 98] none]
def exHeap : Heap := { next := 5, live := [⟨1, 48⟩, ⟨2, 32⟩, ⟨3, 256⟩, ⟨4, 56⟩, ⟨5, 57⟩] }

def liveAfter {α : Type} (o : Outcome (α × Heap)) : Option (List Blk) :=
  match o with
  | .ok (_, h) => some h.live
  | .fault _ => none

def rcOf (o : Outcome ((Int × Node) × Heap)) : Option Int :=
  match o with
  | .ok ((rc, _), _) => some rc
  | .fault _ => none

/-- the hypotheses of `deepCopy_clean` are met by a concrete tree, and the model computes: the third
call of the copy refused ⇒ -1 and the live list exactly as before; no call refused ⇒ 0 -/
example : WF exHeap ∧ srcOK exSrc ∧ exSrc ≠ .null := by
  refine ⟨⟨by decide, by decide⟩, ?_, by intro h; cases h⟩
  simp only [exSrc, srcOK, srcOKList]
  decide
example : rcOf (deepCopy exSrc (failAt 8) exHeap) = some (-1) := by decide
example : liveAfter (deepCopy exSrc (failAt 8) exHeap) = some exHeap.live := by decide
example : rcOf (deepCopy exSrc (failAt 0) exHeap) = some 0 := by decide

def exVal : JVal := .arr [.int true 1, .str ([97, 98] ++ List.replicate 31 97)]

def serText (o : Outcome (Option SerRes × Heap)) : Option Bytes :=
  match o with
  | .ok (some r, _) => r.text
  | _ => none

/-- json_object_to_json_string_ext, for every value the model covers, every flag set, every oracle and
heap: unless an append was dropped on the way (`dropped`, the clause tagged `ser.unchecked-append`)
the call returns NULL or exactly the complete text `fullText v flags` (Model/AllocSer.lean: what the
emitters write when every append is served).  The unrestricted statement is false: `serialize_truncates`. -/
theorem serialize_complete_partial (v : JVal) (flags : Nat) (g : Oracle) (h : Heap) (r : SerRes) (h' : Heap)
    (e : serialize v flags g h = .ok (some r, h')) (hd : r.dropped = false) :
    r.text = none ∨ r.text = fullText v flags :=
  serialize_complete_spec v flags g h r h' e hd

/-- `ser.unchecked-append`, the known finding, at model level: json_object_to_json_string_ext of
[1,"ab" ++ 31 × "a"] with the third allocator call (the first printbuf_extend realloc) refused returns the
text [1,""] — neither NULL nor the complete text.  This is why no theorem "serialization returns the
complete text or nothing" is stated: it is false for the current code. -/
theorem serialize_truncates : serText (serialize exVal 0 (failAt 3) {}) = some [91, 49, 44, 34, 34, 93] := by decide



/-- every source fact this property's model consumes was located in the current source by tools/extract (a fact that is not
found is emitted with a placeholder value; this obligation then fails and the check uses the reference model) -/
theorem source_facts_located_c08 : JsonC.Generated.factsFound_alloc = true := by decide

end JsonC.Alloc
