/-
  C08  One allocation failure gives a clean failure: no leak, crash or corruption.  (partial)

  Property theorems only.  Model: JsonC/Model/Alloc.lean (allocation monad: state = calls made, live
  blocks, errno; the oracle `g : Nat → Bool` says which allocator calls are granted — `failAt k` is the
  single fault of the property, `failAt2 k1 k2` the double fault; every theorem holds for EVERY oracle,
  hence for both) and JsonC/Model/AllocSer.lean (the serializers as append sequences).

  Reading a statement `Post (f ..) g h (fun r h' => ..)`:  from every well-formed heap `h` and for every
  oracle `g` the call does not fault (no free of a block that is not live, no integer overflow) and
  its result `r` and final heap `h'` satisfy the post-condition, which always has the shape
     success: the normal result, `h'.live` = `h.live` plus exactly the blocks the result owns
              (minus blocks the operation is documented to release), or
     failure: the documented failure value, the caller's objects unchanged, `h'.live = h.live`, and
              `Failed g h h'` (some call of the window was refused) or an argument-range refusal
              that performs no allocation.
  `Failed` can not hold when every call is granted (`not_failed_of_granted`), so a fault-free run
  takes the success branch.

  What is NOT proved here (MANIFEST: fault enumeration): the allocation sequence of whole workloads
  (parse, serialize of an arbitrary tree, patch); the tie of this hand-written model to the C code is
  the correspondence run (request traces compared call by call) and the shape facts of st_alloc.py.
-/
import JsonC.Lemmas.AllocTree

namespace JsonC.Alloc
open JsonC Generated


/-! ## printbuf.c -/

/-- printbuf_new: both blocks or none -/
theorem pbNew_clean (g : Oracle) (h : Heap) (hwf : WF h) :
    Post pbNew g h (fun r h' => WF h' ∧ h.next ≤ h'.next ∧
      ((∃ p, r = some p ∧ h'.live = h.live ++ [p.self, p.buf] ∧ p.size = pbInitSize ∧ p.bpos = 0 ∧ h'.errno = h.errno) ∨
       (r = none ∧ h'.live = h.live ∧ Failed g h h'))) := by
  unfold pbNew calloc malloc
  apply Post.bind
  apply Post.alloc hwf
  · intro hg h1 hn hl he hwf1
    dsimp only
    apply Post.bind
    apply Post.alloc hwf1
    · intro hg2 h2 hn2 hl2 he2 hwf2
      dsimp only
      apply Post.pure
      refine ⟨hwf2, by omega, Or.inl ⟨_, rfl, ?_, rfl, rfl, by rw [he2, he]⟩⟩
      simp [hl2, hl, hn]
    · intro hg2 h2 hn2 hl2 he2 hwf2
      dsimp only
      apply Post.bind
      apply Post.free hwf2 (by simp [hl2, hl])
      intro h3 hn3 hl3 he3 hwf3
      apply Post.pure
      refine ⟨hwf3, by omega, Or.inr ⟨rfl, ?_, ?_⟩⟩
      · rw [hl3, hl2, hl, filter_append_self (fresh_not_mem hwf _)]
      · exact ⟨h1.next + 1, by omega, by omega, hg2⟩
  · intro hg h1 hn hl he hwf1
    dsimp only
    apply Post.pure
    exact ⟨hwf1, by omega, Or.inr ⟨rfl, hl, ⟨h.next + 1, by omega, by omega, hg⟩⟩⟩

/-- printbuf_extend: nothing to do, or the buffer block replaced by a larger one, or -1 with the
printbuf and the heap unchanged (EFBIG without any allocation, or the realloc was refused) -/
theorem pbExtend_clean (g : Oracle) (h : Heap) (hwf : WF h) (p : PbA) (m : Int) (hb : p.buf ∈ h.live) (hm : 0 ≤ m) :
    Post (pbExtend p m) g h (fun r h' => WF h' ∧ h.next ≤ h'.next ∧
      ((r.2 = 0 ∧ r.1 = p ∧ (p.size : Int) ≥ m ∧ h'.live = h.live ∧ h'.next = h.next) ∨
       (r.2 = 0 ∧ r.1.self = p.self ∧ r.1.bpos = p.bpos ∧ m ≤ r.1.size ∧ p.size ≤ r.1.size ∧
          h'.live = h.live.filter (· != p.buf) ++ [r.1.buf] ∧ h'.next = h.next + 1 ∧ r.1.buf.id = h.next + 1) ∨
       (r.2 = -1 ∧ r.1 = p ∧ h'.live = h.live ∧
          ((h'.errno = .EFBIG ∧ m > INT_MAX - pbExtendGuard ∧ h'.next = h.next) ∨ Failed g h h')))) := by
  obtain ⟨_, _, _, ht, _⟩ := shape_facts
  unfold pbExtend
  by_cases h1 : (p.size : Int) ≥ m
  · rw [if_pos h1]
    apply Post.pure
    exact ⟨hwf, Nat.le_refl _, Or.inl ⟨rfl, rfl, h1, rfl, rfl⟩⟩
  · rw [if_neg h1]
    by_cases h2 : m > INT_MAX - pbExtendGuard
    · rw [if_pos h2]
      apply Post.bind
      apply Post.setErrno
      intro h1' hn hl he
      apply Post.pure
      exact ⟨hwf.step (by omega) hl, by omega, Or.inr (Or.inr ⟨rfl, rfl, hl, Or.inl ⟨he, h2, hn⟩⟩)⟩
    · rw [if_neg h2, if_neg (by rw [ht]; decide)]
      obtain ⟨n, hn, hpos, hmn, hsn⟩ := pbNewSize_ok p.size m hm h2 (by omega)
      apply Post.bind
      apply Post.liftO hn
      rw [if_neg (by omega)]
      apply Post.bind
      apply Post.realloc hwf hb
      · intro hg h1' hn1 hl1 he1 hwf1
        dsimp only
        apply Post.pure
        refine ⟨hwf1, by omega, Or.inr (Or.inl ⟨rfl, rfl, rfl, ?_, ?_, hl1, hn1, rfl⟩)⟩
        · dsimp only; omega
        · dsimp only; omega
      · intro hg h1' hn1 hl1 he1 hwf1
        dsimp only
        apply Post.pure
        exact ⟨hwf1, by omega, Or.inr (Or.inr ⟨rfl, rfl, hl1, Or.inr ⟨h.next + 1, by omega, by omega, hg⟩⟩)⟩

/-- printbuf_memappend (contents abstracted): served with the buffer kept or replaced, or refused with
the printbuf and the heap unchanged -/
theorem pbMemappend_clean (g : Oracle) (h : Heap) (hwf : WF h) (p : PbA) (size : Int) (hb : p.buf ∈ h.live) :
    Post (pbMemappend p size) g h (fun r h' => WF h' ∧ h.next ≤ h'.next ∧
      ((r.2 = size ∧ 0 ≤ size ∧ r.1.self = p.self ∧ r.1.bpos = p.bpos + size.toNat ∧ r.1.bpos < r.1.size ∧
          ((r.1.buf = p.buf ∧ r.1.size = p.size ∧ h'.live = h.live ∧ h'.next = h.next) ∨
           (h'.live = h.live.filter (· != p.buf) ++ [r.1.buf] ∧ h'.next = h.next + 1 ∧ r.1.buf.id = h.next + 1))) ∨
       (r.2 = -1 ∧ r.1 = p ∧ h'.live = h.live ∧ (h'.errno = .EFBIG ∨ Failed g h h')))) := by
  unfold pbMemappend
  by_cases h0 : size < 0 ∨ size > INT_MAX - p.bpos - 1
  · rw [if_pos h0]
    apply Post.bind
    apply Post.setErrno
    intro h1 hn hl he
    apply Post.pure
    exact ⟨hwf.step (by omega) hl, by omega, Or.inr ⟨rfl, rfl, hl, Or.inl he⟩⟩
  · rw [if_neg h0]
    by_cases h1 : (p.size : Int) ≤ p.bpos + size + 1
    · rw [if_pos h1]
      apply Post.seq (pbExtend_clean g h hwf p _ hb (by omega))
      rintro ⟨q, rc⟩ h' ⟨hwf', hn', hcase⟩
      rcases hcase with ⟨hrc, hq, hge, hl, hnx⟩ | ⟨hrc, hs, hbp, hmq, hpq, hl, hnx, hid⟩ | ⟨hrc, hq, hl, herr⟩
      · simp only at hrc hq hge hl hnx
        subst hrc; subst hq
        dsimp only
        rw [if_neg (by decide)]
        apply Post.pure
        refine ⟨hwf', hn', Or.inl ⟨rfl, by omega, rfl, rfl, ?_, Or.inl ⟨rfl, rfl, hl, hnx⟩⟩⟩
        dsimp only; omega
      · simp only at hrc hs hbp hmq hpq hl hnx hid
        subst hrc
        dsimp only
        rw [if_neg (by decide)]
        apply Post.pure
        refine ⟨hwf', hn', Or.inl ⟨rfl, by omega, hs, ?_, ?_, Or.inr ⟨hl, hnx, hid⟩⟩⟩
        · dsimp only; rw [hbp]
        · dsimp only; omega
      · simp only at hrc hq hl
        subst hrc; subst hq
        dsimp only
        rw [if_pos (by decide)]
        apply Post.pure
        refine ⟨hwf', hn', Or.inr ⟨rfl, rfl, hl, ?_⟩⟩
        rcases herr with ⟨he, _, _⟩ | hf
        · exact Or.inl he
        · exact Or.inr hf
    · rw [if_neg h1]
      apply Post.bind
      apply Post.pure
      dsimp only
      rw [if_neg (by decide)]
      apply Post.pure
      refine ⟨hwf, Nat.le_refl _, Or.inl ⟨rfl, by omega, rfl, rfl, ?_, Or.inl ⟨rfl, rfl, rfl, rfl⟩⟩⟩
      dsimp only; omega


/-! ## arraylist.c -/

/-- array_list_new2: both blocks or none -/
theorem alNew2_clean (g : Oracle) (h : Heap) (hwf : WF h) (n : Int) :
    Post (alNew2 n) g h (fun r h' => WF h' ∧ h.next ≤ h'.next ∧
      ((∃ a, r = some a ∧ h'.live = h.live ++ [a.self, a.array] ∧ a.size = n.toNat ∧ a.length = 0 ∧ 0 ≤ n) ∨
       (r = none ∧ h'.live = h.live ∧
          (Failed g h h' ∨ ((n < 0 ∨ n.toNat ≥ SIZE_T_MAX / PTR) ∧ h'.next = h.next))))) := by
  unfold alNew2
  by_cases h0 : n < 0 ∨ n.toNat ≥ SIZE_T_MAX / PTR
  · rw [if_pos h0]
    apply Post.pure
    exact ⟨hwf, Nat.le_refl _, Or.inr ⟨rfl, rfl, Or.inr ⟨h0, rfl⟩⟩⟩
  · rw [if_neg h0]
    unfold malloc
    apply Post.bind
    apply Post.alloc hwf
    · intro hg h1 hn hl he hwf1
      dsimp only
      apply Post.bind
      apply Post.alloc hwf1
      · intro hg2 h2 hn2 hl2 he2 hwf2
        dsimp only
        apply Post.pure
        refine ⟨hwf2, by omega, Or.inl ⟨_, rfl, ?_, rfl, rfl, by omega⟩⟩
        simp [hl2, hl, hn]
      · intro hg2 h2 hn2 hl2 he2 hwf2
        dsimp only
        apply Post.bind
        apply Post.free hwf2 (by simp [hl2, hl])
        intro h3 hn3 hl3 he3 hwf3
        apply Post.pure
        refine ⟨hwf3, by omega, Or.inr ⟨rfl, ?_, Or.inl ⟨h1.next + 1, by omega, by omega, hg2⟩⟩⟩
        rw [hl3, hl2, hl, filter_append_self (fresh_not_mem hwf _)]
    · intro hg h1 hn hl he hwf1
      dsimp only
      apply Post.pure
      exact ⟨hwf1, by omega, Or.inr ⟨rfl, hl, Or.inl ⟨h.next + 1, by omega, by omega, hg⟩⟩⟩

/-- array_list_expand_internal: capacity reached (array kept or replaced), or -1 with the list and the
heap unchanged.  (The realloc result goes through a temporary: `allocAlExpandChecksTemp`.) -/
theorem alExpand_clean (g : Oracle) (h : Heap) (hwf : WF h) (a : AlA) (max : Nat) (hb : a.array ∈ h.live) :
    Post (alExpand a max) g h (fun r h' => WF h' ∧ h.next ≤ h'.next ∧
      ((r.2 = 0 ∧ AlKeptOrMoved h a r.1 h' ∧ r.1.length = a.length ∧ max ≤ r.1.size ∧
          (r.1.size = a.size ∨ (a.size ≤ max ∧ (r.1.size = max ∨ r.1.size = a.size * 2)))) ∨
       (r.2 = -1 ∧ r.1 = a ∧ h'.live = h.live ∧
          (Failed g h h' ∨ (h'.next = h.next ∧ (max > SIZE_T_MAX / PTR ∨ a.size * 2 > SIZE_T_MAX / PTR)))))) := by
  obtain ⟨_, hexp, _⟩ := shape_facts
  unfold alExpand
  by_cases h0 : max < a.size
  · rw [if_pos h0]
    apply Post.pure
    exact ⟨hwf, Nat.le_refl _, Or.inl ⟨rfl, ⟨rfl, Or.inl ⟨rfl, rfl, rfl, rfl⟩⟩, rfl, Nat.le_of_lt h0, Or.inl rfl⟩⟩
  · rw [if_neg h0]
    obtain ⟨n, hn, hmax, hnc⟩ := alNewSize_ok a.size max
    apply Post.bind
    apply Post.liftO hn
    by_cases h1 : n > SIZE_T_MAX / PTR
    · rw [if_pos h1]
      apply Post.pure
      refine ⟨hwf, Nat.le_refl _, Or.inr ⟨rfl, rfl, rfl, Or.inr ⟨rfl, ?_⟩⟩⟩
      rcases hnc with hnc | hnc
      · exact Or.inl (hnc ▸ h1)
      · exact Or.inr (hnc ▸ h1)
    · rw [if_neg h1, if_neg (by rw [hexp]; decide)]
      apply Post.bind
      apply Post.liftO (bytes_ok n _ h1)
      apply Post.bind
      apply Post.realloc hwf hb
      · intro hg h1' hn1 hl1 he1 hwf1
        dsimp only
        apply Post.pure
        exact ⟨hwf1, by omega, Or.inl ⟨rfl, ⟨rfl, Or.inr ⟨hl1, hn1, rfl⟩⟩, rfl, hmax, Or.inr ⟨by omega, hnc⟩⟩⟩
      · intro hg h1' hn1 hl1 he1 hwf1
        dsimp only
        apply Post.pure
        exact ⟨hwf1, by omega, Or.inr ⟨rfl, rfl, hl1, Or.inl ⟨h.next + 1, by omega, by omega, hg⟩⟩⟩

/-- array_list_shrink: same shape (a failed realloc leaves the larger array in place) -/
theorem alShrink_clean (g : Oracle) (h : Heap) (hwf : WF h) (a : AlA) (e : Nat) (hb : a.array ∈ h.live)
    (hlen : a.length ≤ SIZE_T_MAX / PTR) :
    Post (alShrink a e) g h (fun r h' => WF h' ∧ h.next ≤ h'.next ∧
      ((r.2 = 0 ∧ AlKeptOrMoved h a r.1 h' ∧ r.1.length = a.length) ∨
       (r.2 = -1 ∧ r.1 = a ∧ h'.live = h.live ∧ (Failed g h h' ∨ h'.next = h.next)))) := by
  obtain ⟨_, _, hshr, _⟩ := shape_facts
  obtain ⟨_, _, _, _, _, _, _, hmin⟩ := al_consts
  have hS := sizeMax_val
  have hP := ptr_val
  unfold alShrink
  apply Post.bind
  apply Post.liftO (Arraylist.ckSub_ok _ _ _ hlen)
  by_cases h0 : e ≥ SIZE_T_MAX / PTR - a.length
  · rw [if_pos h0]
    apply Post.pure
    exact ⟨hwf, Nat.le_refl _, Or.inr ⟨rfl, rfl, rfl, Or.inr rfl⟩⟩
  · rw [if_neg h0]
    apply Post.bind
    apply Post.liftO (ckSize_ok _ _ (by rw [hS, hP] at *; omega))
    by_cases h1 : a.length + e = a.size
    · rw [if_pos h1]
      apply Post.pure
      exact ⟨hwf, Nat.le_refl _, Or.inl ⟨rfl, ⟨rfl, Or.inl ⟨rfl, rfl, rfl, rfl⟩⟩, rfl⟩⟩
    · rw [if_neg h1]
      by_cases h2 : a.length + e > a.size
      · rw [if_pos h2]
        apply Post.mono (alExpand_clean g h hwf a _ hb)
        rintro r h' ⟨hwf', hn', hcase⟩
        refine ⟨hwf', hn', ?_⟩
        rcases hcase with ⟨h1', h2', h3', _⟩ | ⟨h1', h2', h3', hf⟩
        · exact Or.inl ⟨h1', h2', h3'⟩
        · refine Or.inr ⟨h1', h2', h3', ?_⟩
          rcases hf with hf | ⟨hf, _⟩
          · exact Or.inl hf
          · exact Or.inr hf
      · rw [if_neg h2, if_neg (by rw [hshr]; decide)]
        apply Post.bind
        apply Post.liftO (bytes_ok _ _ (by rw [hmin, hS, hP] at *; split <;> omega))
        apply Post.bind
        apply Post.realloc hwf hb
        · intro hg h1' hn1 hl1 he1 hwf1
          dsimp only
          apply Post.pure
          exact ⟨hwf1, by omega, Or.inl ⟨rfl, ⟨rfl, Or.inr ⟨hl1, hn1, rfl⟩⟩, rfl⟩⟩
        · intro hg h1' hn1 hl1 he1 hwf1
          dsimp only
          apply Post.pure
          exact ⟨hwf1, by omega, Or.inr ⟨rfl, rfl, hl1, Or.inl ⟨h.next + 1, by omega, by omega, hg⟩⟩⟩

/-- array_list_add: length + 1 inside the capacity, or -1 with the list and the heap unchanged -/
theorem alAdd_clean (g : Oracle) (h : Heap) (hwf : WF h) (a : AlA) (hb : a.array ∈ h.live) :
    Post (alAdd a) g h (fun r h' => WF h' ∧ h.next ≤ h'.next ∧
      ((r.2 = 0 ∧ AlKeptOrMoved h a r.1 h' ∧ r.1.length = a.length + 1 ∧ r.1.length ≤ r.1.size ∧
          (r.1.size = a.size ∨ (a.size ≤ a.length + 1 ∧ (r.1.size = a.length + 1 ∨ r.1.size = a.size * 2)))) ∨
       (r.2 = -1 ∧ r.1 = a ∧ h'.live = h.live ∧
          (Failed g h h' ∨ (h'.next = h.next ∧ (a.length + 1 > SIZE_T_MAX / PTR ∨ a.size * 2 > SIZE_T_MAX / PTR)))))) := by
  obtain ⟨_, _, hg1, hn1, _⟩ := al_consts
  have hS := sizeMax_val
  have hP := ptr_val
  unfold alAdd
  by_cases h0 : a.length > SIZE_T_MAX - alAddGuard
  · rw [if_pos h0]
    apply Post.pure
    refine ⟨hwf, Nat.le_refl _, Or.inr ⟨rfl, rfl, rfl, Or.inr ⟨rfl, Or.inl ?_⟩⟩⟩
    rw [hg1, hS] at h0; rw [hS, hP]; omega
  · rw [if_neg h0]
    apply Post.seq (alExpand_clean g h hwf a _ hb)
    rintro ⟨a1, rc⟩ h' ⟨hwf', hn', hcase⟩
    rcases hcase with ⟨hrc, hk, hlen, hcap, hsz⟩ | ⟨hrc, ha, hl, hf⟩
    · simp only at hrc hk hlen hcap hsz
      subst hrc
      dsimp only
      rw [if_neg (by decide)]
      apply Post.pure
      refine ⟨hwf', hn', Or.inl ⟨rfl, ⟨hk.1, ?_⟩, ?_, ?_, ?_⟩⟩
      · exact hk.2
      · dsimp only; rw [hlen]
      · dsimp only; rw [hlen]; rw [hn1] at hcap; exact hcap
      · dsimp only; rw [hn1] at hsz; exact hsz
    · simp only at hrc ha hl
      subst hrc; subst ha
      dsimp only
      rw [if_pos (by decide)]
      apply Post.pure
      refine ⟨hwf', hn', Or.inr ⟨rfl, rfl, hl, ?_⟩⟩
      rw [hn1] at hf; exact hf

/-! ## linkhash.c -/

/-- lh_table_new: both blocks or none -/
theorem lhNew_clean (g : Oracle) (h : Heap) (hwf : WF h) (size : Nat) (hs : 0 < size) :
    Post (lhNew size) g h (fun r h' => WF h' ∧ h.next ≤ h'.next ∧
      ((∃ t, r = some t ∧ h'.live = h.live ++ [t.self, t.table] ∧ t.size = size ∧ t.count = 0 ∧
          h'.next = h.next + 2 ∧ t.self.id = h.next + 1 ∧ t.table.id = h.next + 2) ∨
       (r = none ∧ h'.live = h.live ∧ Failed g h h'))) := by
  unfold lhNew
  rw [if_neg (by omega)]
  unfold calloc
  apply Post.bind
  apply Post.alloc hwf
  · intro hg h1 hn hl he hwf1
    dsimp only
    apply Post.bind
    apply Post.alloc hwf1
    · intro hg2 h2 hn2 hl2 he2 hwf2
      dsimp only
      apply Post.pure
      refine ⟨hwf2, by omega, Or.inl ⟨_, rfl, ?_, rfl, rfl, by omega, rfl, by dsimp only; omega⟩⟩
      simp [hl2, hl, hn]
    · intro hg2 h2 hn2 hl2 he2 hwf2
      dsimp only
      apply Post.bind
      apply Post.free hwf2 (by simp [hl2, hl])
      intro h3 hn3 hl3 he3 hwf3
      apply Post.pure
      refine ⟨hwf3, by omega, Or.inr ⟨rfl, ?_, ⟨h1.next + 1, by omega, by omega, hg2⟩⟩⟩
      rw [hl3, hl2, hl, filter_append_self (fresh_not_mem hwf _)]
  · intro hg h1 hn hl he hwf1
    dsimp only
    apply Post.pure
    exact ⟨hwf1, by omega, Or.inr ⟨rfl, hl, ⟨h.next + 1, by omega, by omega, hg⟩⟩⟩

/-- lh_table_resize when re-filling the new table cannot itself trigger a resize (`new_size = 2 S`
with at most `S` entries; this is how lh_table_insert_w_hash calls it): the entry array is replaced,
or -1 with the table and the heap unchanged — the half-built new table is released. -/
theorem lhResizeWith_clean (g : Oracle) (h : Heap) (hwf : WF h) (f : Nat) (t : LhA) (S : Nat)
    (htab : t.table ∈ h.live) (hS : 0 < S) (hSm : S ≤ intMax) (hc : t.count ≤ S) :
    Post (lhResizeWith (lhInsertN f) t (S * 2)) g h (fun r h' => WF h' ∧ h.next ≤ h'.next ∧
      ((r.2 = 0 ∧ r.1.self = t.self ∧ r.1.count = t.count ∧ r.1.size = S * 2 ∧
          h'.live = h.live.filter (· != t.table) ++ [r.1.table] ∧ h'.next = h.next + 2 ∧ r.1.table.id = h.next + 2) ∨
       (r.2 = -1 ∧ r.1 = t ∧ h'.live = h.live ∧ Failed g h h'))) := by
  unfold lhResizeWith
  apply Post.seq (lhNew_clean g h hwf (S * 2) (by omega))
  rintro r h1 ⟨hwf1, hn1, hcase⟩
  rcases hcase with ⟨nt, rfl, hl1, hsz, hcnt, hnx, hid1, hid2⟩ | ⟨rfl, hl1, hf⟩
  · dsimp only
    apply Post.bind
    apply Post.of_eq (lhRebuild_noalloc f S hSm t.count nt hsz (by omega) g h1)
    dsimp only
    have htab1 : t.table ∈ h1.live := by rw [hl1]; simp [htab]
    apply Post.bind
    apply Post.free hwf1 htab1
    intro h2 hn2 hl2 he2 hwf2
    apply Post.bind
    apply Post.free hwf2
    · rw [hl2, hl1]
      rw [mem_filter_ne]
      refine ⟨by simp, ?_⟩
      show nt.self ≠ t.table
      have : nt.self ≠ t.table := by
        intro e
        have := hwf.2 _ htab
        rw [← e, hid1] at this
        omega
      exact this
    · intro h3 hn3 hl3 he3 hwf3
      apply Post.pure
      refine ⟨hwf3, by omega, Or.inl ⟨rfl, rfl, rfl, ?_, ?_, by omega, hid2⟩⟩
      · dsimp only; split
        · rfl
        · exact hsz
      · rw [hl3, hl2, hl1]
        dsimp only
        apply resize_live
        · intro hm; have := hwf.2 _ hm; omega
        · intro e; have := hwf.2 _ htab; rw [← e, hid1] at this; omega
        · intro e; have := hwf.2 _ htab; rw [← e, hid2] at this; omega
        · intro e; rw [e] at hid2; omega
  · dsimp only
    apply Post.pure
    exact ⟨hwf1, hn1, Or.inr ⟨rfl, rfl, hl1, hf⟩⟩

/-- lh_table_insert_w_hash (allocation behaviour): count + 1 with the entry array kept or doubled, or
-1 (the resize could not allocate) with the table and the heap unchanged -/
theorem lhInsert_clean (g : Oracle) (h : Heap) (hwf : WF h) (t : LhA) (htab : t.table ∈ h.live) (hok : LhOK t) :
    Post (lhInsert t) g h (fun r h' => WF h' ∧ h.next ≤ h'.next ∧
      ((r.2 = 0 ∧ r.1.self = t.self ∧ r.1.count = t.count + 1 ∧ r.1.count ≤ r.1.size ∧
          ((r.1.table = t.table ∧ r.1.size = t.size ∧ h'.live = h.live ∧ h'.next = h.next) ∨
           (r.1.size = t.size * 2 ∧ h'.live = h.live.filter (· != t.table) ++ [r.1.table] ∧
              h'.next = h.next + 2 ∧ r.1.table.id = h.next + 2 ∧ t.size ≤ 2 * t.count + 1))) ∨
       (r.2 = -1 ∧ r.1 = t ∧ h'.live = h.live ∧ Failed g h h'))) := by
  obtain ⟨hpos, hcs, hsm⟩ := hok
  have hI := intMax_nat
  unfold lhInsert lhFuel
  show Post (lhInsertN (63 + 1) t) g h _
  unfold lhInsertN
  cases hlt : Linkhash.loadTest t.count t.size
  · simp only [Bool.false_eq_true, ↓reduceIte]
    apply Post.pure
    have := Linkhash.lt_size_of_loadTest_false t.count t.size (by omega) hlt
    exact ⟨hwf, Nat.le_refl _, Or.inl ⟨rfl, rfl, rfl, by dsimp only; omega, Or.inl ⟨rfl, rfl, rfl, rfl⟩⟩⟩
  · simp only [↓reduceIte]
    rw [if_neg (by omega)]
    rw [if_neg (by omega)]
    apply Post.seq (lhResizeWith_clean g h hwf 63 t t.size htab hpos (by omega) hcs)
    rintro ⟨t1, rc⟩ h' ⟨hwf', hn', hcase⟩
    rcases hcase with ⟨hrc, hs, hc, hsz, hl, hnx, hid⟩ | ⟨hrc, ht, hl, hf⟩
    · simp only at hrc hs hc hsz hl hnx hid
      subst hrc
      dsimp only
      rw [if_neg (by decide)]
      apply Post.pure
      refine ⟨hwf', hn', Or.inl ⟨rfl, hs, by dsimp only; rw [hc], by dsimp only; omega,
        Or.inr ⟨hsz, hl, hnx, hid, size_le_of_loadTest t.count t.size (by omega) hlt⟩⟩⟩
    · simp only at hrc ht hl
      subst hrc; subst ht
      dsimp only
      rw [if_pos (by decide)]
      apply Post.pure
      exact ⟨hwf', hn', Or.inr ⟨rfl, rfl, hl, hf⟩⟩

/-! ## json_object.c: constructors -/

/-- json_object_new_boolean / _double / _int64 / _uint64: one block or NULL -/
theorem newPrim_clean (g : Oracle) (h : Heap) (hwf : WF h) (k : PrimKind) :
    Post (newPrim k) g h (fun r h' => WF h' ∧ h.next ≤ h'.next ∧ h'.live = h.live ++ owned r ∧
      ((∃ b, r = .prim k b ∧ b.id = h.next + 1 ∧ h'.errno = h.errno) ∨ (r = .null ∧ Failed g h h'))) := by
  unfold newPrim malloc
  apply Post.bind
  apply Post.alloc hwf
  · intro hg h1 hn hl he hwf1
    dsimp only
    apply Post.pure
    exact ⟨hwf1, by omega, by simp [owned, hl], Or.inl ⟨_, rfl, rfl, he⟩⟩
  · intro hg h1 hn hl he hwf1
    dsimp only
    apply Post.pure
    exact ⟨hwf1, by omega, by simp [owned, hl], Or.inr ⟨rfl, ⟨h.next + 1, by omega, by omega, hg⟩⟩⟩

/-- json_object_new_string_len: one block holding header and bytes, or NULL (refused length: no call) -/
theorem newStringLen_clean (g : Oracle) (h : Heap) (hwf : WF h) (s : Bytes) :
    Post (newStringLen s) g h (fun r h' => WF h' ∧ h.next ≤ h'.next ∧ h'.live = h.live ++ owned r ∧
      ((∃ b, r = .str b s none ∧ b.size = strObjSize s.length ∧ b.id = h.next + 1) ∨
       (r = .null ∧ (Failed g h h' ∨ (s.length ≥ intMax - strNewIntGuardSlack ∧ h'.next = h.next))))) := by
  have hI := intMax_nat
  have hc : strNewIntGuardSlack = 1 ∧ strNewGuardSlack = 1 ∧ ssizeMax = 9223372036854775807 ∧
      sizeofJsonObjectString - sizeofStringUnion ≤ 1000 := by decide
  unfold newStringLen
  by_cases h0 : s.length > ssizeMax - (sizeofJsonObjectString - sizeofStringUnion) - strNewGuardSlack
  · rw [if_pos h0]
    apply Post.pure
    refine ⟨hwf, Nat.le_refl _, by simp [owned], Or.inr ⟨rfl, Or.inr ⟨?_, rfl⟩⟩⟩
    obtain ⟨c1, c2, c3, c4⟩ := hc
    rw [c2, c3] at h0; rw [c1, hI]; omega
  · rw [if_neg h0]
    by_cases h1 : s.length ≥ intMax - strNewIntGuardSlack
    · rw [if_pos h1]
      apply Post.pure
      exact ⟨hwf, Nat.le_refl _, by simp [owned], Or.inr ⟨rfl, Or.inr ⟨h1, rfl⟩⟩⟩
    · rw [if_neg h1]
      unfold malloc
      apply Post.bind
      apply Post.alloc hwf
      · intro hg h1' hn hl he hwf1
        dsimp only
        apply Post.pure
        exact ⟨hwf1, by omega, by simp [owned, hl], Or.inl ⟨_, rfl, rfl, rfl⟩⟩
      · intro hg h1' hn hl he hwf1
        dsimp only
        apply Post.pure
        exact ⟨hwf1, by omega, by simp [owned, hl], Or.inr ⟨rfl, Or.inl ⟨h.next + 1, by omega, by omega, hg⟩⟩⟩

/-- json_object_new_double_s: node + copy of the text, or NULL with errno ENOMEM and nothing kept -/
theorem newDoubleS_clean (g : Oracle) (h : Heap) (hwf : WF h) (n : Nat) :
    Post (newDoubleS n) g h (fun r h' => WF h' ∧ h.next ≤ h'.next ∧ h'.live = h.live ++ owned r ∧
      ((∃ b ud, r = .dbls b ud ∧ ud.size = n + 1 ∧ b.id = h.next + 1 ∧ ud.id = h.next + 2) ∨
       (r = .null ∧ Failed g h h' ∧ h'.errno = .ENOMEM))) := by
  unfold newDoubleS malloc strdup
  apply Post.bind
  apply Post.alloc hwf
  · intro hg h1 hn hl he hwf1
    dsimp only
    apply Post.bind
    apply Post.alloc hwf1
    · intro hg2 h2 hn2 hl2 he2 hwf2
      dsimp only
      apply Post.pure
      exact ⟨hwf2, by omega, by simp [owned, hl2, hl, hn], Or.inl ⟨_, _, rfl, rfl, rfl, by dsimp only; omega⟩⟩
    · intro hg2 h2 hn2 hl2 he2 hwf2
      dsimp only
      apply Post.bind
      apply Post.free hwf2 (by simp [hl2, hl])
      intro h3 hn3 hl3 he3 hwf3
      apply Post.bind
      apply Post.setErrno
      intro h4 hn4 hl4 he4
      apply Post.pure
      refine ⟨hwf3.step (by omega) hl4, by omega, ?_, Or.inr ⟨rfl, ⟨h1.next + 1, by omega, by omega, hg2⟩, he4⟩⟩
      rw [hl4, hl3, hl2, hl, filter_append_self (fresh_not_mem hwf _)]; simp [owned]
  · intro hg h1 hn hl he hwf1
    dsimp only
    apply Post.pure
    exact ⟨hwf1, by omega, by simp [owned, hl], Or.inr ⟨rfl, ⟨h.next + 1, by omega, by omega, hg⟩, he⟩⟩

/-- json_object_new_array_ext: node + array_list + slot array, or NULL with nothing kept -/
theorem newArrayExt_clean (g : Oracle) (h : Heap) (hwf : WF h) (n : Int) :
    Post (newArrayExt n) g h (fun r h' => WF h' ∧ h.next ≤ h'.next ∧ h'.live = h.live ++ owned r ∧
      ((∃ b al, r = .arr b al [] ∧ al.size = n.toNat ∧ al.length = 0 ∧ 0 ≤ n) ∨
       (r = .null ∧ (Failed g h h' ∨ n < 0 ∨ n.toNat ≥ SIZE_T_MAX / PTR)))) := by
  unfold newArrayExt malloc
  apply Post.bind
  apply Post.alloc hwf
  · intro hg h1 hn hl he hwf1
    dsimp only
    apply Post.seq (alNew2_clean g h1 hwf1 n)
    rintro r h2 ⟨hwf2, hn2, hcase⟩
    rcases hcase with ⟨a, rfl, hl2, hsz, hlen, hpos⟩ | ⟨rfl, hl2, hf⟩
    · dsimp only
      apply Post.pure
      exact ⟨hwf2, by omega, by simp [owned, ownedList, hl2, hl], Or.inl ⟨_, _, rfl, hsz, hlen, hpos⟩⟩
    · dsimp only
      apply Post.bind
      apply Post.free hwf2 (by simp [hl2, hl])
      intro h3 hn3 hl3 he3 hwf3
      apply Post.pure
      refine ⟨hwf3, by omega, ?_, Or.inr ⟨rfl, ?_⟩⟩
      · rw [hl3, hl2, hl, filter_append_self (fresh_not_mem hwf _)]; simp [owned]
      · rcases hf with hf | ⟨hr, _⟩
        · exact Or.inl (hf.widen (by omega) (by omega))
        · exact Or.inr hr
  · intro hg h1 hn hl he hwf1
    dsimp only
    apply Post.pure
    exact ⟨hwf1, by omega, by simp [owned, hl], Or.inr ⟨rfl, Or.inl ⟨h.next + 1, by omega, by omega, hg⟩⟩⟩

/-- json_object_new_object: node + lh_table + entry array, or NULL with errno ENOMEM and nothing kept -/
theorem newObject_clean (g : Oracle) (h : Heap) (hwf : WF h) :
    Post newObject g h (fun r h' => WF h' ∧ h.next ≤ h'.next ∧ h'.live = h.live ++ owned r ∧
      ((∃ b lh, r = .obj b lh [] ∧ lh.size = objectDefHashEntries ∧ lh.count = 0) ∨
       (r = .null ∧ Failed g h h' ∧ h'.errno = .ENOMEM))) := by
  unfold newObject malloc
  apply Post.bind
  apply Post.alloc hwf
  · intro hg h1 hn hl he hwf1
    dsimp only
    apply Post.seq (lhNew_clean g h1 hwf1 objectDefHashEntries (by decide))
    rintro r h2 ⟨hwf2, hn2, hcase⟩
    rcases hcase with ⟨t, rfl, hl2, hsz, hcnt, _⟩ | ⟨rfl, hl2, hf⟩
    · dsimp only
      apply Post.pure
      exact ⟨hwf2, by omega, by simp [owned, ownedMembers, hl2, hl], Or.inl ⟨_, _, rfl, hsz, hcnt⟩⟩
    · dsimp only
      apply Post.bind
      apply Post.free hwf2 (by simp [hl2, hl])
      intro h3 hn3 hl3 he3 hwf3
      apply Post.bind
      apply Post.setErrno
      intro h4 hn4 hl4 he4
      apply Post.pure
      refine ⟨hwf3.step (by omega) hl4, by omega, ?_, Or.inr ⟨rfl, hf.widen (by omega) (by omega), he4⟩⟩
      rw [hl4, hl3, hl2, hl, filter_append_self (fresh_not_mem hwf _)]; simp [owned]
  · intro hg h1 hn hl he hwf1
    dsimp only
    apply Post.pure
    exact ⟨hwf1, by omega, by simp [owned, hl], Or.inr ⟨rfl, ⟨h.next + 1, by omega, by omega, hg⟩, he⟩⟩

/-! ## json_tokener.c: constructor -/

/-- json_tokener_new_ex: tokener + stack + printbuf (4 blocks), or NULL with nothing kept -/
theorem tokenerNewEx_clean (g : Oracle) (h : Heap) (hwf : WF h) (depth : Int) :
    Post (tokenerNewEx depth) g h (fun r h' => WF h' ∧ h.next ≤ h'.next ∧
      ((∃ t, r = some t ∧ h'.live = h.live ++ [t.self, t.stack, t.pb.self, t.pb.buf] ∧ t.depth = depth.toNat) ∨
       (r = none ∧ h'.live = h.live ∧ (Failed g h h' ∨ (depth < 1 ∧ h'.next = h.next))))) := by
  unfold tokenerNewEx
  by_cases h0 : depth < 1
  · rw [if_pos h0]
    apply Post.pure
    exact ⟨hwf, Nat.le_refl _, Or.inr ⟨rfl, rfl, Or.inr ⟨h0, rfl⟩⟩⟩
  · rw [if_neg h0]
    unfold calloc
    apply Post.bind
    apply Post.alloc hwf
    · intro hg h1 hn hl he hwf1
      dsimp only
      apply Post.bind
      apply Post.alloc hwf1
      · intro hg2 h2 hn2 hl2 he2 hwf2
        dsimp only
        apply Post.seq (pbNew_clean g h2 hwf2)
        rintro r h3 ⟨hwf3, hn3, hcase⟩
        rcases hcase with ⟨p, rfl, hl3, _⟩ | ⟨rfl, hl3, hf⟩
        · dsimp only
          apply Post.pure
          exact ⟨hwf3, by omega, Or.inl ⟨_, rfl, by simp [hl3, hl2, hl, hn], rfl⟩⟩
        · dsimp only
          apply Post.bind
          apply Post.free hwf3 (by simp [hl3, hl2, hl])
          intro h4 hn4 hl4 he4 hwf4
          apply Post.bind
          apply Post.free hwf4
          · rw [hl4, hl3, hl2, hl, hn, mem_filter_ne]
            refine ⟨by simp, ?_⟩
            intro e
            have := congrArg Blk.id e
            simp at this
          · intro h5 hn5 hl5 he5 hwf5
            apply Post.pure
            refine ⟨hwf5, by omega, Or.inr ⟨rfl, ?_, Or.inl (hf.widen (by omega) (by omega))⟩⟩
            rw [hl5, hl4, hl3, hl2, hl, hn]
            have f1 := fresh_not_mem hwf (1 * sizeofJsonTokener)
            have hw1 : WF { h with next := h.next + 1, live := h.live ++ [⟨h.next + 1, 1 * sizeofJsonTokener⟩] } :=
              hwf.push _ rfl rfl
            have f2 := fresh_not_mem hw1 (depth.toNat * sizeofJsonTokenerSrec)
            rw [filter_append_self f2, filter_append_self f1]
      · intro hg2 h2 hn2 hl2 he2 hwf2
        dsimp only
        apply Post.bind
        apply Post.free hwf2 (by simp [hl2, hl])
        intro h3 hn3 hl3 he3 hwf3
        apply Post.pure
        refine ⟨hwf3, by omega, Or.inr ⟨rfl, ?_, Or.inl ⟨h1.next + 1, by omega, by omega, hg2⟩⟩⟩
        rw [hl3, hl2, hl, filter_append_self (fresh_not_mem hwf _)]
    · intro hg h1 hn hl he hwf1
      dsimp only
      apply Post.pure
      exact ⟨hwf1, by omega, Or.inr ⟨rfl, hl, Or.inl ⟨h.next + 1, by omega, by omega, hg⟩⟩⟩


/-! ## json_object.c: set_string -/


/-- _json_object_set_string_len: the node takes the new bytes (storage kept, external buffer released
for the empty string, or a fresh buffer replacing the old one — the old one is freed only after the
malloc succeeded: `allocSetStrFreeAfterMalloc`), or returns 0 with the node and the heap unchanged -/
theorem setStringLen_clean (g : Oracle) (h : Heap) (hwf : WF h) (b : Blk) (old s : Bytes) (pd : Option Blk)
    (hpd : ∀ p, pd = some p → p ∈ h.live) :
    Post (setStringLen (.str b old pd) s) g h (fun r h' => WF h' ∧ h.next ≤ h'.next ∧
      ((r.2 = 1 ∧ ∃ pd', r.1 = .str b s pd' ∧
          ((pd' = pd ∧ h'.live = h.live ∧ h'.next = h.next) ∨
           (∃ p, pd = some p ∧ pd' = none ∧ s.length = 0 ∧ h'.live = h.live.filter (· != p) ∧ h'.next = h.next) ∨
           (∃ nb, pd' = some nb ∧ nb.size = s.length + strGrowNulRoom ∧ nb.id = h.next + 1 ∧
              h'.live = h.live.filter (keep pd.toList) ++ [nb] ∧ h'.next = h.next + 1))) ∨
       (r.2 = 0 ∧ r.1 = .str b old pd ∧ h'.live = h.live ∧
          (Failed g h h' ∨ (s.length ≥ intMax - strSetGuardSlack ∧ h'.next = h.next))))) := by
  obtain ⟨hshape, _⟩ := shape_facts
  unfold setStringLen
  dsimp only
  by_cases h0 : s.length ≥ intMax - strSetGuardSlack
  · rw [if_pos h0]
    apply Post.pure
    exact ⟨hwf, Nat.le_refl _, Or.inr ⟨rfl, rfl, rfl, Or.inr ⟨h0, rfl⟩⟩⟩
  · rw [if_neg h0]
    cases pd with
    | none =>
      dsimp only
      apply Post.bind
      apply Post.pure
      dsimp only
      by_cases h1 : s.length > old.length
      · rw [if_pos h1, if_neg (by rw [hshape]; decide)]
        unfold malloc
        apply Post.bind
        apply Post.alloc hwf
        · intro hg h1' hn hl he hwf1
          dsimp only
          apply Post.pure
          refine ⟨hwf1, by omega, Or.inl ⟨rfl, _, rfl, Or.inr (Or.inr ⟨_, rfl, rfl, rfl, ?_, hn⟩)⟩⟩
          rw [hl]; simp [filter_keep_nil]
        · intro hg h1' hn hl he hwf1
          dsimp only
          apply Post.pure
          exact ⟨hwf1, by omega, Or.inr ⟨rfl, rfl, hl, Or.inl ⟨h.next + 1, by omega, by omega, hg⟩⟩⟩
      · rw [if_neg h1]
        apply Post.pure
        exact ⟨hwf, Nat.le_refl _, Or.inl ⟨rfl, _, rfl, Or.inl ⟨rfl, rfl, rfl⟩⟩⟩
    | some p =>
      have hp := hpd p rfl
      dsimp only
      by_cases hz : s.length = 0
      · rw [if_pos hz]
        apply Post.bind
        apply Post.free hwf hp
        intro h1 hn1 hl1 he1 hwf1
        apply Post.bind
        apply Post.pure
        dsimp only
        rw [if_neg (by omega)]
        apply Post.pure
        exact ⟨hwf1, by omega, Or.inl ⟨rfl, _, rfl, Or.inr (Or.inl ⟨p, rfl, rfl, hz, hl1, hn1⟩)⟩⟩
      · rw [if_neg hz]
        apply Post.bind
        apply Post.pure
        dsimp only
        by_cases h1 : s.length > old.length
        · rw [if_pos h1, if_neg (by rw [hshape]; decide)]
          unfold malloc
          apply Post.bind
          apply Post.alloc hwf
          · intro hg h1' hn hl he hwf1
            dsimp only
            apply Post.bind
            apply Post.free hwf1 (by rw [hl]; simp [hp])
            intro h2 hn2 hl2 he2 hwf2
            apply Post.pure
            refine ⟨hwf2, by omega, Or.inl ⟨rfl, _, rfl, Or.inr (Or.inr ⟨_, rfl, rfl, rfl, ?_, by omega⟩)⟩⟩
            rw [hl2, hl, List.filter_append]
            have hne : (⟨h.next + 1, s.length + strGrowNulRoom⟩ : Blk) ≠ p := ne_of_fresh hwf hp _ _ (by omega)
            simp [filter_ne_eq_keep, hne]
          · intro hg h1' hn hl he hwf1
            dsimp only
            apply Post.pure
            exact ⟨hwf1, by omega, Or.inr ⟨rfl, rfl, hl, Or.inl ⟨h.next + 1, by omega, by omega, hg⟩⟩⟩
        · rw [if_neg h1]
          apply Post.pure
          exact ⟨hwf, Nat.le_refl _, Or.inl ⟨rfl, _, rfl, Or.inl ⟨rfl, rfl, rfl⟩⟩⟩


/-! ## json_object.c: array add, member add -/

/-- json_object_array_add: the value is appended (slot array kept or replaced), or -1 with the array
and the heap unchanged (the caller still owns the value) -/
theorem arrayAdd_clean (g : Oracle) (h : Heap) (hwf : WF h) (b : Blk) (al : AlA) (es : List Node) (val : Node)
    (hb : al.array ∈ h.live) :
    Post (arrayAdd (.arr b al es) val) g h (fun r h' => WF h' ∧ h.next ≤ h'.next ∧
      ((r.2 = 0 ∧ ∃ al', r.1 = .arr b al' (es ++ [val]) ∧ AlKeptOrMoved h al al' h' ∧ al'.length = al.length + 1 ∧
          (al'.size = al.size ∨ (al.size ≤ al.length + 1 ∧ (al'.size = al.length + 1 ∨ al'.size = al.size * 2)))) ∨
       (r.2 = -1 ∧ r.1 = .arr b al es ∧ h'.live = h.live ∧
          (Failed g h h' ∨ (h'.next = h.next ∧ (al.length + 1 > SIZE_T_MAX / PTR ∨ al.size * 2 > SIZE_T_MAX / PTR)))))) := by
  unfold arrayAdd
  apply Post.seq (alAdd_clean g h hwf al hb)
  rintro ⟨al1, rc⟩ h' ⟨hwf', hn', hcase⟩
  rcases hcase with ⟨hrc, hk, hlen, _, hsz⟩ | ⟨hrc, ha, hl, hf⟩
  · simp only at hrc hk hlen hsz
    subst hrc
    dsimp only
    rw [if_neg (by decide)]
    apply Post.pure
    exact ⟨hwf', hn', Or.inl ⟨rfl, al1, rfl, hk, hlen, hsz⟩⟩
  · simp only at hrc ha hl
    subst hrc; subst ha
    dsimp only
    rw [if_pos (by decide)]
    apply Post.pure
    exact ⟨hwf', hn', Or.inr ⟨rfl, rfl, hl, hf⟩⟩

/-- what a successful insertion of a new member leaves -/
def ObjAdded (h : Heap) (b : Blk) (lh : LhA) (ms : List (Bytes × Option Blk × Node)) (key : Bytes) (val : Node)
    (constKey : Bool) (r : Node) (h' : Heap) : Prop :=
  ∃ kb lh', r = .obj b lh' (ms ++ [(key, kb, val)]) ∧ lh'.self = lh.self ∧ lh'.count = lh.count + 1 ∧
    lh'.count ≤ lh'.size ∧ (constKey = true ↔ kb = none) ∧ (∀ k, kb = some k → k.id = h.next + 1 ∧ k.size = key.length + 1) ∧
    ((lh'.table = lh.table ∧ lh'.size = lh.size ∧ h'.live = h.live ++ kb.toList ∧ h'.next = h.next + kb.toList.length) ∨
     (lh'.size = lh.size * 2 ∧ h'.live = h.live.filter (· != lh.table) ++ kb.toList ++ [lh'.table] ∧
        h'.next = h.next + kb.toList.length + 2 ∧ lh'.table.id = h'.next ∧ lh.size ≤ 2 * lh.count + 1))

theorem objectAddInsert_spec (g : Oracle) (h h1 : Heap) (hwf : WF h) (b : Blk) (lh : LhA)
    (ms : List (Bytes × Option Blk × Node)) (key : Bytes) (val : Node) (constKey : Bool)
    (htab : lh.table ∈ h.live) (hok : LhOK lh)
    (kb : Option Blk) (hwf1 : WF h1) (hl1 : h1.live = h.live ++ kb.toList)
    (hn1 : h1.next = h.next + kb.toList.length) (hck : constKey = true ↔ kb = none)
    (hkid : ∀ k, kb = some k → k.id = h.next + 1 ∧ k.size = key.length + 1) :
    Post (objectAddInsert b lh ms key kb val) g h1 (fun r h' => WF h' ∧ h.next ≤ h'.next ∧
      ((r.2 = 0 ∧ ObjAdded h b lh ms key val constKey r.1 h') ∨
       (r.2 = -1 ∧ r.1 = .obj b lh ms ∧ h'.live = h.live ∧ Failed g h1 h'))) := by
  obtain ⟨_, _, _, _, _, hfree, _⟩ := shape_facts
  have htab1 : lh.table ∈ h1.live := by rw [hl1]; simp [htab]
  unfold objectAddInsert
  apply Post.seq (lhInsert_clean g h1 hwf1 lh htab1 hok)
  rintro ⟨lh1, rc⟩ h2 ⟨hwf2, hn2, hcase⟩
  rcases hcase with ⟨hrc, hs, hc, hcs, hkm⟩ | ⟨hrc, ht, hl2, hf⟩
  · simp only at hrc hs hc hcs hkm
    subst hrc
    dsimp only
    rw [if_neg (by decide)]
    apply Post.pure
    refine ⟨hwf2, by omega, Or.inl ⟨rfl, kb, lh1, rfl, hs, hc, hcs, hck, hkid, ?_⟩⟩
    rcases hkm with ⟨ht, hsz, hl2, hnx⟩ | ⟨hsz, hl2, hnx, hid, hgrow⟩
    · exact Or.inl ⟨ht, hsz, by rw [hl2, hl1], by omega⟩
    · refine Or.inr ⟨hsz, ?_, by omega, by omega, hgrow⟩
      rw [hl2, hl1, List.filter_append]
      congr 2
      apply filter_ne_fresh
      intro hm
      cases kb with
      | none => simp at hm
      | some k =>
        simp only [Option.toList_some, List.mem_singleton] at hm
        have hk1 := (hkid k rfl).1
        have hk2 := hwf.2 _ htab
        rw [hm] at hk2
        omega
  · simp only at hrc ht hl2
    subst hrc; subst ht
    dsimp only
    rw [if_pos (by decide), hfree]
    simp only [↓reduceIte]
    cases kb with
    | none =>
      dsimp only
      apply Post.pure
      refine ⟨hwf2, by omega, Or.inr ⟨rfl, rfl, ?_, hf⟩⟩
      rw [hl2, hl1]; simp
    | some k =>
      dsimp only
      apply Post.bind
      apply Post.free hwf2 (by rw [hl2, hl1]; simp)
      intro h3 hn3 hl3 he3 hwf3
      apply Post.pure
      refine ⟨hwf3, by omega, Or.inr ⟨rfl, rfl, ?_, hf.widen (Nat.le_refl _) (by omega)⟩⟩
      rw [hl3, hl2, hl1]
      simp only [Option.toList_some]
      apply filter_append_self
      intro hm
      have hk1 := (hkid k rfl).1
      have hk2 := hwf.2 _ hm
      omega

/-- json_object_object_add_ex.
  * existing key: the old value is released and replaced, no allocation, rc 0;
  * new key: the key is copied (unless CONSTANT_KEY) and the entry inserted, the entry array kept or
    doubled, rc 0;
  * -1 with the object and the heap unchanged — in particular the key copy is freed when the insert
    fails (`allocObjAddFreesKeyOnFail`); the caller still owns the value. -/
theorem objectAddEx_clean (g : Oracle) (h : Heap) (hwf : WF h) (b : Blk) (lh : LhA)
    (ms : List (Bytes × Option Blk × Node)) (key : Bytes) (val : Node) (keyIsNew constKey : Bool)
    (htab : lh.table ∈ h.live) (hok : LhOK lh)
    (hold : ∀ i, keyIsNew = false → findKey key ms = some i → OwnedIn h (owned (memberVal ms i))) :
    Post (objectAddEx (.obj b lh ms) key val keyIsNew constKey) g h (fun r h' => WF h' ∧ h.next ≤ h'.next ∧
      ((r.2 = 0 ∧ ∃ i, keyIsNew = false ∧ findKey key ms = some i ∧ r.1 = .obj b lh (setMemberVal ms i val) ∧
          h'.live = h.live.filter (keep (owned (memberVal ms i))) ∧ h'.next = h.next) ∨
       (r.2 = 0 ∧ (keyIsNew = true ∨ findKey key ms = none) ∧ ObjAdded h b lh ms key val constKey r.1 h') ∨
       (r.2 = -1 ∧ r.1 = .obj b lh ms ∧ h'.live = h.live ∧ Failed g h h'))) := by
  obtain ⟨_, _, _, _, _, _, hchk, _⟩ := shape_facts
  unfold objectAddEx
  dsimp only
  cases hfk : (if keyIsNew = true then none else findKey key ms) with
  | some i =>
    have hnew : keyIsNew = false := by
      cases keyIsNew with
      | true => simp at hfk
      | false => rfl
    have hfind : findKey key ms = some i := by rw [hnew] at hfk; simpa using hfk
    dsimp only
    apply Post.seq (putNode_spec _ g h hwf (hold i hnew hfind))
    rintro _ h1 ⟨hwf1, hn1, he1, hl1⟩
    apply Post.pure
    exact ⟨hwf1, by omega, Or.inl ⟨rfl, i, hnew, hfind, rfl, hl1, hn1⟩⟩
  | none =>
    have hnone : keyIsNew = true ∨ findKey key ms = none := by
      cases keyIsNew with
      | true => exact Or.inl rfl
      | false => right; simpa using hfk
    dsimp only
    rw [if_neg (by rw [hchk]; decide)]
    cases constKey with
    | true =>
      rw [if_pos rfl]
      apply Post.mono (objectAddInsert_spec g h h hwf b lh ms key val true htab hok none hwf (by simp) (by simp) (by simp) (by simp))
      rintro r h' ⟨hw, hn, hc⟩
      refine ⟨hw, hn, ?_⟩
      rcases hc with ⟨h1', h2'⟩ | hc
      · exact Or.inr (Or.inl ⟨h1', hnone, h2'⟩)
      · exact Or.inr (Or.inr hc)
    | false =>
      rw [if_neg (by decide)]
      unfold strdup
      apply Post.bind
      apply Post.alloc hwf
      · intro hg h1 hn hl he hwf1
        dsimp only
        apply Post.mono (objectAddInsert_spec g h h1 hwf b lh ms key val false htab hok (some ⟨h.next + 1, key.length + 1⟩) hwf1
          (by simpa using hl) (by simpa using hn) (by simp) (by simp))
        rintro r h' ⟨hw, hn', hc⟩
        refine ⟨hw, hn', ?_⟩
        rcases hc with ⟨h1', h2'⟩ | ⟨h1', h2', h3', h4'⟩
        · exact Or.inr (Or.inl ⟨h1', hnone, h2'⟩)
        · exact Or.inr (Or.inr ⟨h1', h2', h3', h4'.widen (by omega) (Nat.le_refl _)⟩)
      · intro hg h1 hn hl he hwf1
        dsimp only
        apply Post.pure
        exact ⟨hwf1, by omega, Or.inr (Or.inr ⟨rfl, rfl, hl, ⟨h.next + 1, by omega, by omega, hg⟩⟩)⟩


end JsonC.Alloc
