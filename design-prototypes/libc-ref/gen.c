#include <stdio.h>
#include <stdlib.h>
#include <string.h>
#include <stdint.h>
#include <math.h>
static uint64_t s = 88172645463325252ULL;
static uint64_t rnd(void){ s ^= s << 13; s ^= s >> 7; s ^= s << 17; return s; }
int main(int argc, char **argv){ int n = atoi(argv[1]); FILE *in = fopen("in.txt","w"), *out = fopen("exp.txt","w");
  for (int i = 0; i < n; i++) { uint64_t b = rnd(); int k = i % 8;
    if (k == 1) b &= 0x800FFFFFFFFFFFFFULL;            /* subnormals */
    if (k == 2) { double d = (double)(int64_t)(rnd() % 2000001) - 1000000; memcpy(&b,&d,8);} /* small ints */
    if (k == 3) { double d = ldexp((double)(rnd() % 1000), (int)(rnd()%120) - 60); memcpy(&b,&d,8);} /* dyadic ties */
    if (k == 4) { double d = (double)(rnd()%100000) / 1000.0; memcpy(&b,&d,8);} /* short decimals */
    double d; memcpy(&d,&b,8); if (!isfinite(d)) { i--; continue; }
    char buf[64]; snprintf(buf, sizeof buf, "%.17g", d);
    fprintf(in, "g %016llx\n", (unsigned long long)b); fprintf(out, "%s\n", buf);
    /* strtod on the text, and on a perturbed decimal */
    fprintf(in, "s %s\n", buf); { char *e; double r = strtod(buf,&e); uint64_t rb; memcpy(&rb,&r,8); fprintf(out, "%llu %d\n", (unsigned long long)rb, (int)(e-buf)); }
    char t[96]; int nd = 1 + rnd()%25; int p = 0; if (rnd()&1) t[p++]='-'; for (int j=0;j<nd;j++) t[p++] = '0' + rnd()%10; if (rnd()%3) { t[p++]='.'; int nf = rnd()%25; for (int j=0;j<nf;j++) t[p++]='0'+rnd()%10; }
    if (rnd()%2) { p += sprintf(t+p, "e%+d", (int)(rnd()%700) - 350); } t[p]=0;
    fprintf(in, "s %s\n", t); { char *e; double r = strtod(t,&e); uint64_t rb; memcpy(&rb,&r,8); fprintf(out, "%llu %d\n", (unsigned long long)rb, (int)(e-t)); }
  }
  return 0; }
