/-! Prototype for C03: the number scanner of json_tokener_parse_ex keeps its sign/exponent
    permissions in locals and re-derives them from the saved text when a call resumes.
    `deriveCur` is what the code does today, `deriveFix` the planned repair. -/
namespace NumScan

structure Loc where
  isExp : Bool
  negOk : Bool
  posOk : Bool
deriving DecidableEq, Repr

structure S where
  pb : List UInt8        -- tok->pb (text of the token so far)
  isDouble : Bool        -- tok->is_double
  loc : Loc              -- locals of `case json_tokener_state_number`
deriving DecidableEq, Repr

def isDigit (c : UInt8) : Bool := 48 ≤ c && c ≤ 57
def isE (c : UInt8) : Bool := c == 101 || c == 69
def hasE (pb : List UInt8) : Bool := pb.any isE
def lastIsSep : List UInt8 → Bool
  | [] => false
  | [c] => isE c || c == 46
  | _ :: cs => lastIsSep cs

/-- entry with an empty buffer: `neg_sign_ok = 1, pos_sign_ok = 0, is_exponent = 0` -/
def locInit : Loc := ⟨false, true, false⟩

/-- what json_tokener.c:961-983 computes on resume -/
def deriveCur (pb : List UInt8) : Loc :=
  if pb = [] then locInit
  else if hasE pb then ⟨true, lastIsSep pb && isE (pb.getLast!), lastIsSep pb && isE (pb.getLast!)⟩
  else locInit

/-- the repair: permissions follow the last saved byte -/
def deriveFix (pb : List UInt8) : Loc :=
  if pb = [] then locInit else ⟨hasE pb, lastIsSep pb, lastIsSep pb⟩

def accepts (s : S) (c : UInt8) : Bool :=
  c != 0 && (isDigit c || (!s.loc.isExp && isE c) || (s.loc.negOk && c == 45) ||
             (s.loc.posOk && c == 43) || (!s.isDouble && c == 46))

def step (s : S) (c : UInt8) : S :=
  let l0 : Loc := { s.loc with negOk := false, posOk := false }
  if c == 46 then { pb := s.pb ++ [c], isDouble := true, loc := { l0 with negOk := true, posOk := true } }
  else if isE c then { pb := s.pb ++ [c], isDouble := true, loc := ⟨true, true, true⟩ }
  else { s with pb := s.pb ++ [c], loc := l0 }

/-- scan one chunk: consume while accepted; `none` rest = chunk exhausted (call returns `continue`) -/
def scan (s : S) : List UInt8 → S × Option (List UInt8)
  | [] => (s, none)
  | c :: cs => if accepts s c then scan (step s c) cs else (s, some (c :: cs))

/-- resume: locals are re-derived from the saved text -/
def resume (derive : List UInt8 → Loc) (s : S) : S := { s with loc := derive s.pb }

def start : S := ⟨[], false, locInit⟩

def Inv (s : S) : Prop := s.loc = deriveFix s.pb

theorem lastIsSep_snoc (pb : List UInt8) (c : UInt8) : lastIsSep (pb ++ [c]) = (isE c || c == 46) := by
  induction pb with
  | nil => rfl
  | cons a as ih =>
    cases as with
    | nil => simp [lastIsSep]
    | cons b bs => simpa [lastIsSep] using ih

theorem inv_start : Inv start := rfl

theorem hasE_snoc (pb : List UInt8) (c : UInt8) : hasE (pb ++ [c]) = (hasE pb || isE c) := by
  simp [hasE, List.any_append]

theorem isExp_of_inv (s : S) (h : Inv s) : s.loc.isExp = hasE s.pb := by
  unfold Inv deriveFix at h
  by_cases hp : s.pb = []
  · simp [hp] at h; simp [h, hp, locInit, hasE]
  · simp [hp] at h; simp [h]

theorem inv_step (s : S) (c : UInt8) (h : Inv s) : Inv (step s c) := by
  have hE := isExp_of_inv s h
  unfold Inv step deriveFix
  by_cases h46 : c = 46
  · subst h46
    have h46e : isE 46 = false := by decide
    simp [lastIsSep_snoc, hasE_snoc, hE, h46e]
  · by_cases he : isE c = true
    · have : (c == 46) = false := by simp [h46]
      simp [this, he, lastIsSep_snoc, hasE_snoc]
    · have : (c == 46) = false := by simp [h46]
      simp at he
      simp [this, he, lastIsSep_snoc, hasE_snoc, hE]

/-- after a chunk is exhausted, re-deriving the locals changes nothing -/
theorem scan_inv (s : S) (A : List UInt8) (h : Inv s) : Inv (scan s A).1 := by
  induction A generalizing s with
  | nil => exact h
  | cons c cs ih =>
    unfold scan
    split
    · exact ih _ (inv_step s c h)
    · exact h

theorem scan_append (s : S) (A B : List UInt8) (hA : (scan s A).2 = none) :
    scan s (A ++ B) = scan (scan s A).1 B := by
  induction A generalizing s with
  | nil => rfl
  | cons c cs ih =>
    cases hacc : accepts s c
    · simp [scan, hacc] at hA
    · have hA' : (scan (step s c) cs).2 = none := by simpa [scan, hacc] using hA
      have h1 : scan s (c :: cs) = scan (step s c) cs := by simp [scan, hacc]
      have h2 : scan s (c :: (cs ++ B)) = scan (step s c) (cs ++ B) := by simp [scan, hacc]
      simp only [List.cons_append]
      rw [h1, h2]
      exact ih _ hA'

/-- C03 for the number token, with the repaired resume: splitting anywhere is invisible -/
theorem split_invariant_fix (A B : List UInt8) (hA : (scan start A).2 = none) :
    scan (resume deriveFix (scan start A).1) B = scan start (A ++ B) := by
  rw [scan_append start A B hA]
  have : resume deriveFix (scan start A).1 = (scan start A).1 := by
    have h := scan_inv start A inv_start
    unfold Inv at h
    unfold resume
    rw [← h]
  rw [this]

/-- the code as it is today: "1" | "-2" — the one-shot scan stops before '-', the resumed scan eats it -/
theorem split_differs_cur :
    scan (resume deriveCur (scan start [49]).1) [45, 50] ≠ scan start ([49] ++ [45, 50]) := by
  decide

/-- "1." | "+5" — the other direction -/
theorem split_differs_cur' :
    scan (resume deriveCur (scan start [49, 46]).1) [43, 53] ≠ scan start ([49, 46] ++ [43, 53]) := by
  decide

/-- non-vacuity: the hypothesis of `split_invariant_fix` is met by a real split -/
example : (scan start [49, 101]).2 = none := by decide

end NumScan

#print axioms NumScan.split_invariant_fix
#print axioms NumScan.split_differs_cur
