import Tk.Doc
namespace Tk

/-- a byte that legally follows a value: terminates a number and is accepted afterwards -/
def follows (rest : List Level) (c : UInt8) : Prop :=
  isDigit c = false ∧ (rest ≠ [] → (c = 44 ∨ c = 93 ∨ isWs c = true))

theorem ws_not_special (c : UInt8) (h : isWs c = true) : isDigit c = false ∧ c ≠ 91 ∧ c ≠ 93 ∧ c ≠ 44 ∧ c ≠ 0 := by
  unfold isWs at h; unfold isDigit
  simp at h
  rcases h with ((h | h) | h) | h <;> subst h <;> decide

theorem digit_not_special (c : UInt8) (h : isDigit c = true) : isWs c = false ∧ c ≠ 91 ∧ c ≠ 93 ∧ c ≠ 44 ∧ c ≠ 0 := by
  unfold isDigit at h; unfold isWs
  simp at h
  obtain ⟨h1, h2⟩ := h
  refine ⟨?_, ?_, ?_, ?_, ?_⟩ <;> (try simp) <;> (try (refine ⟨⟨⟨?_, ?_⟩, ?_⟩, ?_⟩)) <;> intro hc <;> subst hc <;> revert h1 h2 <;> decide

/-- whitespace is skipped in state eatws -/
theorem run_ws (ws : List UInt8) (hws : allWs ws) (sv : St) (cur : Option JV) (rest : List Level)
    (pb : List UInt8) (md : Nat) (n : Nat) (tl : List UInt8) :
    run ⟨⟨.eatws, sv, cur⟩ :: rest, 0, pb, md, none⟩ n (ws ++ tl) =
    run ⟨⟨.eatws, sv, cur⟩ :: rest, 0, pb, md, none⟩ (n + ws.length) tl := by
  induction ws generalizing n with
  | nil => simp
  | cons c cs ih =>
    have hc : isWs c = true := hws c (by simp)
    have hne := (ws_not_special c hc).2.2.2.2
    have hd : disp ⟨⟨.eatws, sv, cur⟩ :: rest, 0, pb, md, none⟩ c = .consume ⟨⟨.eatws, sv, cur⟩ :: rest, 0, pb, md, none⟩ := by
      simp [disp, hc]
    simp only [List.cons_append, run, feed_of_disp _ _ _ hd (by intro t' h; cases h)]
    have : (c == 0) = false := by simp [hne]
    simp only [this]
    rw [ih (fun x hx => hws x (by simp [hx]))]
    have : n + 1 + cs.length = n + (cs.length + 1) := by omega
    simp [this]


abbrev mk (stack : List Level) (pb : List UInt8) (md : Nat) (obj : Option JV := none) : Tok := ⟨stack, 0, pb, md, obj⟩

theorem wf_mk (top : Level) (rest : List Level) (pb md obj) (h1 : top.saved ≠ .eatws) (h2 : ∀ l ∈ rest, belowOK l) :
    WF (mk (top :: rest) pb md obj) := ⟨top, rest, rfl, h1, h2⟩

/-- `[` at a value start -/
theorem feed_start_open (cur0 rest pb md) (hb : ∀ l ∈ rest, belowOK l) :
    feed (mk (⟨.eatws, .start, cur0⟩ :: rest) pb md) 91 =
      .consume (mk (⟨.eatws, .array, some (.arr [])⟩ :: rest) pb md) := by
  rw [feed_redo _ (mk (⟨.start, .start, cur0⟩ :: rest) pb md) _ (wf_mk _ _ _ _ _ (by simp) hb) (by simp [disp, isWs, mk])]
  exact feed_of_disp _ _ _ (by simp [disp, mk]) (by intro t' h; cases h)

/-- first digit at a value start -/
theorem feed_start_digit (cur0 rest pb md) (c : UInt8) (hc : isDigit c = true) (hb : ∀ l ∈ rest, belowOK l) :
    feed (mk (⟨.eatws, .start, cur0⟩ :: rest) pb md) c =
      .consume (mk (⟨.number, .start, cur0⟩ :: rest) [c] md) := by
  have hn := digit_not_special c hc
  rw [feed_redo _ (mk (⟨.start, .start, cur0⟩ :: rest) pb md) _ (wf_mk _ _ _ _ _ (by simp) hb) (by simp [disp, hn.1, mk])]
  rw [feed_redo _ (mk (⟨.number, .start, cur0⟩ :: rest) [] md) _ (wf_mk _ _ _ _ _ (by simp) hb) (by simp [disp, hn.2.1, hc, mk])]
  exact feed_of_disp _ _ _ (by simp [disp, hc, mk]) (by intro t' h; cases h)

theorem feed_number_digit (sv cur0 rest pb md) (c : UInt8) (hc : isDigit c = true) :
    feed (mk (⟨.number, sv, cur0⟩ :: rest) pb md) c =
      .consume (mk (⟨.number, sv, cur0⟩ :: rest) (pb ++ [c]) md) :=
  feed_of_disp _ _ _ (by simp [disp, hc, mk]) (by intro t' h; cases h)

/-- a number ends at a byte that may follow a value; that byte is then seen by (eatws, finish) -/
theorem feed_number_end (sv cur0 rest pb md) (c : UInt8) (hf : follows rest c) (hsv : sv ≠ .eatws)
    (hb : ∀ l ∈ rest, belowOK l) :
    feed (mk (⟨.number, sv, cur0⟩ :: rest) pb md) c =
      feed (mk (⟨.eatws, .finish, some (.num (digitsVal pb 0))⟩ :: rest) pb md) c := by
  apply feed_redo _ _ _ (wf_mk _ _ _ _ _ hsv hb)
  obtain ⟨h1, h2⟩ := hf
  cases rest with
  | nil => simp [disp, h1, mk]
  | cons p ps =>
    have := h2 (by simp)
    rcases this with rfl | rfl | hw
    · simp [disp, mk]; decide
    · simp [disp, mk]; decide
    · simp [disp, h1, hw, mk]

/-- descending into an element -/
theorem feed_push (sv : St) (hsv : sv = .array ∨ sv = .array_after_sep) (cur rest pb md) (c : UInt8)
    (hw : isWs c = false) (hc : c ≠ 93) (hd : rest.length + 1 < md) (hb : ∀ l ∈ rest, belowOK l) :
    feed (mk (⟨.eatws, sv, cur⟩ :: rest) pb md) c =
      feed (mk (freshLevel :: ⟨.array_add, sv, cur⟩ :: rest) pb md) c := by
  have hsv' : sv ≠ .eatws := by rcases hsv with rfl | rfl <;> simp
  rw [feed_redo _ (mk (⟨sv, sv, cur⟩ :: rest) pb md) _ (wf_mk _ _ _ _ _ hsv' hb) (by simp [disp, hw, mk])]
  apply feed_redo _ _ _ (wf_mk _ _ _ _ _ hsv' hb)
  have : ¬ (md ≤ rest.length + 1) := by omega
  rcases hsv with rfl | rfl <;> simp [disp, hc, this, mk]

/-- `]` or `,` after an element: pop, append, then act on the separator -/
theorem feed_after_elem (v : JV) (sv : St) (xs : List JV) (rest pb md) (c : UInt8) (hc : c = 93 ∨ c = 44)
    (hsv : sv ≠ .eatws) (hb : ∀ l ∈ rest, belowOK l) :
    feed (mk (⟨.eatws, .finish, some v⟩ :: ⟨.array_add, sv, some (.arr xs)⟩ :: rest) pb md) c =
      .consume (mk (⟨.eatws, if c = 93 then .finish else .array_after_sep, some (.arr (xs ++ [v]))⟩ :: rest) pb md) := by
  have hb2 : ∀ l ∈ (⟨.array_add, sv, some (.arr xs)⟩ : Level) :: rest, belowOK l := by
    intro l hl; simp at hl; rcases hl with rfl | hl
    · exact ⟨rfl, hsv⟩
    · exact hb l hl
  have hws : isWs c = false := by rcases hc with rfl | rfl <;> decide
  rw [feed_redo _ (mk (⟨.finish, .finish, some v⟩ :: ⟨.array_add, sv, some (.arr xs)⟩ :: rest) pb md) _
        (wf_mk _ _ _ _ _ (by simp) hb2) (by simp [disp, hws, mk])]
  rw [feed_redo _ (mk (⟨.array_add, sv, some (.arr xs)⟩ :: rest) pb md (some v)) _
        (wf_mk _ _ _ _ _ (by simp) hb2) (by simp [disp, mk])]
  rw [feed_redo _ (mk (⟨.eatws, .array_sep, some (.arr (xs ++ [v]))⟩ :: rest) pb md) _
        (wf_mk _ _ _ _ _ hsv hb) (by simp [disp, mk])]
  rw [feed_redo _ (mk (⟨.array_sep, .array_sep, some (.arr (xs ++ [v]))⟩ :: rest) pb md) _
        (wf_mk _ _ _ _ _ (by simp) hb) (by simp [disp, hws, mk])]
  apply feed_of_disp _ _ _ _ (by intro t' h; cases h)
  rcases hc with rfl | rfl <;> simp [disp, mk] <;> decide


theorem Doc.text_head (d : Doc) (hv : d.valid) : ∃ c cs, d.text = c :: cs ∧ (c = 91 ∨ isDigit c = true) := by
  cases d with
  | num c ds => exact ⟨c, ds, rfl, Or.inr hv.1⟩
  | arrE ws0 => exact ⟨91, _, rfl, Or.inl rfl⟩
  | arrN ws0 d ws1 t => exact ⟨91, _, rfl, Or.inl rfl⟩

theorem Tail.text_head (t : Tail) : ∃ c cs, t.text = c :: cs ∧ (c = 93 ∨ c = 44) := by
  cases t with
  | close => exact ⟨93, [], rfl, Or.inl rfl⟩
  | more ws2 d ws1 t => exact ⟨44, _, rfl, Or.inr rfl⟩

/-- digits of a number token -/
theorem run_digits (ds : List UInt8) (hds : allDigit ds) (sv cur0 rest pb md n tl) :
    run (mk (⟨.number, sv, cur0⟩ :: rest) pb md) n (ds ++ tl) =
    run (mk (⟨.number, sv, cur0⟩ :: rest) (pb ++ ds) md) (n + ds.length) tl := by
  induction ds generalizing pb n with
  | nil => simp
  | cons c cs ih =>
    have hc : isDigit c = true := hds c (by simp)
    have hne := (digit_not_special c hc).2.2.2.2
    simp only [List.cons_append, run, feed_number_digit _ _ _ _ _ _ hc]
    have : (c == 0) = false := by simp [hne]
    rw [ih (fun x hx => hds x (by simp [hx]))]
    have h2 : n + 1 + cs.length = n + (cs.length + 1) := by omega
    simp [this, h2]

/-- the first byte of `ws ++ t.text ++ tl` may follow a value inside an array -/
theorem follows_ws_tail (ws1 : List UInt8) (hws : allWs ws1) (t : Tail) (tl : List UInt8) (rest : List Level) :
    ∃ c tl', ws1 ++ t.text ++ tl = c :: tl' ∧ follows rest c := by
  cases ws1 with
  | nil =>
    obtain ⟨c, cs, hc, hcc⟩ := t.text_head
    refine ⟨c, cs ++ tl, by simp [hc], ?_⟩
    rcases hcc with rfl | rfl
    · exact ⟨by decide, fun _ => Or.inr (Or.inl rfl)⟩
    · exact ⟨by decide, fun _ => Or.inl rfl⟩
  | cons w ws =>
    have hw := hws w (by simp)
    exact ⟨w, ws ++ t.text ++ tl, by simp, (ws_not_special w hw).1, fun _ => Or.inr (Or.inr hw)⟩

set_option maxHeartbeats 400000 in
mutual
theorem run_doc (d : Doc) (hv : d.valid) (rest : List Level) (hb : ∀ l ∈ rest, belowOK l) (cur0 : Option JV)
    (pb : List UInt8) (md n : Nat) (hd : rest.length + d.need < md) (tl : List UInt8)
    (hf : ∃ c tl', tl = c :: tl' ∧ follows rest c) :
    ∃ pb', run (mk (⟨.eatws, .start, cur0⟩ :: rest) pb md) n (d.text ++ tl) =
           run (mk (⟨.eatws, .finish, some d.denote⟩ :: rest) pb' md) (n + d.text.length) tl := by
  match d, hv with
  | .num c ds, hv =>
    obtain ⟨c', tl', rfl, hfc⟩ := hf
    have hc := hv.1
    have hne := (digit_not_special c hc).2.2.2.2
    refine ⟨[c] ++ ds, ?_⟩
    simp only [Doc.text, List.cons_append, run, feed_start_digit _ _ _ _ _ hc hb]
    have : (c == 0) = false := by simp [hne]
    simp only [this]
    rw [run_digits ds hv.2]
    simp only [run]
    rw [feed_number_end _ _ _ _ _ _ hfc (by simp) hb]
    simp [Doc.denote, Nat.add_assoc, Nat.add_comm 1]
  | .arrE ws0, hv =>
    refine ⟨pb, ?_⟩
    simp only [Doc.text, List.cons_append, List.append_assoc, run, feed_start_open _ _ _ _ hb]
    simp only [show ((91 : UInt8) == 0) = false by decide]
    rw [run_ws ws0 hv]
    simp only [List.nil_append, run]
    have : feed (mk (⟨.eatws, .array, some (.arr [])⟩ :: rest) pb md) 93 =
        .consume (mk (⟨.eatws, .finish, some (.arr [])⟩ :: rest) pb md) := by
      rw [feed_redo _ (mk (⟨.array, .array, some (.arr [])⟩ :: rest) pb md) _ (wf_mk _ _ _ _ _ (by simp) hb)
            (by simp [disp, mk]; decide)]
      exact feed_of_disp _ _ _ (by simp [disp, mk]) (by intro t' h; cases h)
    simp only [this, show ((93 : UInt8) == 0) = false by decide]
    simp [Doc.denote, Nat.add_assoc, Nat.add_comm 1]
  | .arrN ws0 d ws1 t, hv =>
    obtain ⟨hws0, hvd, hws1, hvt⟩ := hv
    simp only [Doc.need] at hd
    simp only [Doc.text, List.cons_append, List.append_assoc, run, feed_start_open _ _ _ _ hb]
    simp only [show ((91 : UInt8) == 0) = false by decide]
    rw [run_ws ws0 hws0]
    -- descend into the first element
    obtain ⟨c1, cs1, hc1, hc1k⟩ := d.text_head hvd
    have hb2 : ∀ l ∈ (⟨.array_add, .array, some (.arr [])⟩ : Level) :: rest, belowOK l := by
      intro l hl; simp at hl; rcases hl with rfl | hl
      · exact ⟨rfl, by simp⟩
      · exact hb l hl
    have hpush : ∀ m rem, run (mk (⟨.eatws, .array, some (.arr [])⟩ :: rest) pb md) m (d.text ++ rem) =
        run (mk (freshLevel :: ⟨.array_add, .array, some (.arr [])⟩ :: rest) pb md) m (d.text ++ rem) := by
      intro m rem
      rw [hc1]; simp only [List.cons_append, run]
      rw [feed_push .array (Or.inl rfl) _ _ _ _ c1 ?_ ?_ (by omega) hb]
      · rcases hc1k with rfl | h
        · decide
        · exact (digit_not_special c1 h).1
      · rcases hc1k with rfl | h
        · decide
        · exact (digit_not_special c1 h).2.2.1
    rw [hpush]
    obtain ⟨pb1, h1⟩ := run_doc d hvd (⟨.array_add, .array, some (.arr [])⟩ :: rest) hb2 none pb md
      (n + 1 + ws0.length) (by simp; omega) (ws1 ++ (t.text ++ tl))
      (by simpa using follows_ws_tail ws1 hws1 t tl _)
    rw [show freshLevel = ⟨.eatws, .start, none⟩ from rfl, h1, run_ws ws1 hws1]
    obtain ⟨pb2, h2⟩ := run_tail t hvt d.denote .array [] rest hb (by simp) pb1 md _ (by omega) tl
    refine ⟨pb2, ?_⟩
    rw [h2]
    simp [Doc.denote, Nat.add_assoc, Nat.add_comm 1, Nat.add_left_comm]
theorem run_tail (t : Tail) (hv : t.valid) (v : JV) (sv : St) (xs : List JV) (rest : List Level)
    (hb : ∀ l ∈ rest, belowOK l) (hsv : sv ≠ .eatws) (pb : List UInt8) (md n : Nat)
    (hd : rest.length + t.need < md) (tl : List UInt8) :
    ∃ pb', run (mk (⟨.eatws, .finish, some v⟩ :: ⟨.array_add, sv, some (.arr xs)⟩ :: rest) pb md) n (t.text ++ tl) =
           run (mk (⟨.eatws, .finish, some (.arr (xs ++ v :: t.denotes))⟩ :: rest) pb' md) (n + t.text.length) tl := by
  match t, hv with
  | .close, _ =>
    refine ⟨pb, ?_⟩
    simp only [Tail.text, List.cons_append, List.nil_append, run,
      feed_after_elem v sv xs rest pb md 93 (Or.inl rfl) hsv hb, show ((93 : UInt8) == 0) = false by decide]
    simp [Tail.denotes]
  | .more ws2 d ws1 t, hv =>
    obtain ⟨hws2, hvd, hws1, hvt⟩ := hv
    simp only [Tail.need] at hd
    simp only [Tail.text, List.cons_append, List.append_assoc, run,
      feed_after_elem v sv xs rest pb md 44 (Or.inr rfl) hsv hb, show ((44 : UInt8) == 0) = false by decide]
    simp only [show ((44 : UInt8) = 93) = False by decide, if_false]
    rw [run_ws ws2 hws2]
    obtain ⟨c1, cs1, hc1, hc1k⟩ := d.text_head hvd
    have hb2 : ∀ l ∈ (⟨.array_add, .array_after_sep, some (.arr (xs ++ [v]))⟩ : Level) :: rest, belowOK l := by
      intro l hl; simp at hl; rcases hl with rfl | hl
      · exact ⟨rfl, by simp⟩
      · exact hb l hl
    have hpush : ∀ m rem, run (mk (⟨.eatws, .array_after_sep, some (.arr (xs ++ [v]))⟩ :: rest) pb md) m (d.text ++ rem) =
        run (mk (freshLevel :: ⟨.array_add, .array_after_sep, some (.arr (xs ++ [v]))⟩ :: rest) pb md) m (d.text ++ rem) := by
      intro m rem
      rw [hc1]; simp only [List.cons_append, run]
      rw [feed_push .array_after_sep (Or.inr rfl) _ _ _ _ c1 ?_ ?_ (by omega) hb]
      · rcases hc1k with rfl | h
        · decide
        · exact (digit_not_special c1 h).1
      · rcases hc1k with rfl | h
        · decide
        · exact (digit_not_special c1 h).2.2.1
    rw [hpush]
    obtain ⟨pb1, h1⟩ := run_doc d hvd (⟨.array_add, .array_after_sep, some (.arr (xs ++ [v]))⟩ :: rest) hb2 none pb md
      (n + 1 + ws2.length) (by simp; omega) (ws1 ++ (t.text ++ tl))
      (by simpa using follows_ws_tail ws1 hws1 t tl _)
    rw [show freshLevel = ⟨.eatws, .start, none⟩ from rfl, h1, run_ws ws1 hws1]
    obtain ⟨pb2, h2⟩ := run_tail t hvt d.denote .array_after_sep (xs ++ [v]) rest hb (by simp) pb1 md _ (by omega) tl
    refine ⟨pb2, ?_⟩
    rw [h2]
    simp [Tail.denotes, Nat.add_assoc, Nat.add_comm 1, Nat.add_left_comm]
end

/-- C01/C15 in miniature: every valid document within the depth limit parses to its denotation -/
theorem parse_valid (d : Doc) (hv : d.valid) (D : Nat) (hd : d.need < D) :
    parse D d.text = .value (some d.denote) d.text.length := by
  unfold parse
  obtain ⟨pb', h⟩ := run_doc d hv [] (by simp) none [] D 0 (by simpa using hd) [0]
    ⟨0, [], rfl, by decide, by simp⟩
  have : run (new D) 0 (d.text ++ [0]) = run (mk [⟨.eatws, .start, none⟩] [] D) 0 (d.text ++ [0]) := rfl
  rw [this, h]
  simp only [run, Nat.zero_add]
  rw [feed_redo _ (mk [⟨.finish, .finish, some d.denote⟩] pb' D) _ (wf_mk _ _ _ _ _ (by simp) (by simp))
        (by simp [disp, mk]; decide)]
  rw [feed_of_disp _ _ (.done (mk [⟨.finish, .finish, some d.denote⟩] pb' D)) (by simp [disp, mk]) (by intro t' h; cases h)]

end Tk
#print axioms Tk.parse_valid
#print axioms Tk.run_doc
