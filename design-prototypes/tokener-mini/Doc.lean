import Tk.Rank
namespace Tk

mutual
inductive Doc where
  | num (d : UInt8) (ds : List UInt8)
  | arrE (ws0 : List UInt8)
  | arrN (ws0 : List UInt8) (d : Doc) (ws1 : List UInt8) (t : Tail)
inductive Tail where
  | close
  | more (ws2 : List UInt8) (d : Doc) (ws1 : List UInt8) (t : Tail)
end

def allWs (l : List UInt8) : Prop := ∀ c ∈ l, isWs c = true
def allDigit (l : List UInt8) : Prop := ∀ c ∈ l, isDigit c = true

mutual
def Doc.text : Doc → List UInt8
  | .num d ds => d :: ds
  | .arrE ws0 => 91 :: ws0 ++ [93]
  | .arrN ws0 d ws1 t => 91 :: ws0 ++ d.text ++ ws1 ++ t.text
def Tail.text : Tail → List UInt8
  | .close => [93]
  | .more ws2 d ws1 t => 44 :: ws2 ++ d.text ++ ws1 ++ t.text
end

mutual
def Doc.denote : Doc → JV
  | .num d ds => .num (digitsVal (d :: ds) 0)
  | .arrE _ => .arr []
  | .arrN _ d _ t => .arr (d.denote :: t.denotes)
def Tail.denotes : Tail → List JV
  | .close => []
  | .more _ d _ t => d.denote :: t.denotes
end

mutual
def Doc.valid : Doc → Prop
  | .num d ds => isDigit d = true ∧ allDigit ds
  | .arrE ws0 => allWs ws0
  | .arrN ws0 d ws1 t => allWs ws0 ∧ d.valid ∧ allWs ws1 ∧ t.valid
def Tail.valid : Tail → Prop
  | .close => True
  | .more ws2 d ws1 t => allWs ws2 ∧ d.valid ∧ allWs ws1 ∧ t.valid
end

-- levels needed above the level the value itself sits on
mutual
def Doc.need : Doc → Nat
  | .num _ _ => 0
  | .arrE _ => 0
  | .arrN _ d _ t => max (d.need + 1) t.need
def Tail.need : Tail → Nat
  | .close => 0
  | .more _ d _ t => max (d.need + 1) t.need
end

end Tk
