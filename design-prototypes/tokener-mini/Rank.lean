import Tk.Basic
namespace Tk

def stRank : St → Nat
  | .array_sep => 1
  | .array_add => 3
  | .finish => 5
  | .number => 8
  | .start => 10
  | .array => 13
  | .array_after_sep => 13
  | .eatws => 0

def lvlRank (l : Level) : Nat :=
  match l.state with
  | .eatws => stRank l.saved + 1
  | s => stRank s

def rank (t : Tok) : Nat :=
  match t.stack with
  | [] => 0
  | top :: _ => lvlRank top

def belowOK (l : Level) : Prop := l.state = .array_add ∧ l.saved ≠ .eatws
def WF (t : Tok) : Prop :=
  ∃ top rest, t.stack = top :: rest ∧ top.saved ≠ .eatws ∧ (∀ l ∈ rest, belowOK l)

theorem disp_redo (t t' : Tok) (c : UInt8) (hw : WF t) (h : disp t c = .redo t') :
    rank t' < rank t ∧ WF t' := by
  obtain ⟨top, rest, hs, hsv, hb⟩ := hw
  unfold disp at h
  simp only [hs] at h
  rcases top with ⟨st, sv, cur⟩
  cases st <;> simp only at h
  · -- eatws
    split at h
    · cases h
    · cases h
      constructor
      · cases sv <;> simp_all [rank, lvlRank, stRank]
      · exact ⟨_, _, rfl, hsv, hb⟩
  · -- start
    split at h
    · cases h
    · split at h
      · cases h
        exact ⟨by simp [rank, lvlRank, stRank, hs], ⟨_, _, rfl, hsv, hb⟩⟩
      · cases h
  · -- finish
    cases rest with
    | nil => simp at h
    | cons p ps =>
      simp only [Act.redo.injEq] at h; cases h
      have hp := hb p (by simp)
      refine ⟨?_, ⟨p, ps, rfl, hp.2, fun l hl => hb l (by simp [hl])⟩⟩
      simp [rank, lvlRank, hs, hp.1, stRank]
  · -- number
    split at h
    · cases h
    · split at h
      · cases h
      · cases h
        exact ⟨by simp [rank, lvlRank, stRank, hs], ⟨_, _, rfl, by simp, hb⟩⟩
  · -- array
    split at h
    · cases h
    · split at h
      · cases h
      · cases h
        refine ⟨by simp [rank, lvlRank, stRank, hs, freshLevel], ⟨_, _, rfl, by simp [freshLevel], ?_⟩⟩
        intro l hl
        simp at hl
        rcases hl with rfl | hl
        · exact ⟨rfl, hsv⟩
        · exact hb l hl
  · -- array_add
    split at h
    · cases h
      exact ⟨by simp [rank, lvlRank, stRank, hs], ⟨_, _, rfl, by simp, hb⟩⟩
    · cases h
  · -- array_sep
    split at h
    · cases h
    · split at h <;> cases h
  · -- array_after_sep
    split at h
    · cases h
    · split at h
      · cases h
      · cases h
        refine ⟨by simp [rank, lvlRank, stRank, hs, freshLevel], ⟨_, _, rfl, by simp [freshLevel], ?_⟩⟩
        intro l hl
        simp at hl
        rcases hl with rfl | hl
        · exact ⟨rfl, hsv⟩
        · exact hb l hl

/-- with enough fuel the result does not depend on the fuel -/
theorem feedN_stable (c : UInt8) : ∀ (n m : Nat) (t : Tok), WF t → rank t < n → rank t < m →
    feedN n t c = feedN m t c := by
  intro n
  induction n with
  | zero => intro m t _ h; omega
  | succ n ih =>
    intro m t hw hn hm
    cases m with
    | zero => omega
    | succ m =>
      simp only [feedN]
      cases hd : disp t c with
      | redo t' =>
        have ⟨hr, hw'⟩ := disp_redo t t' c hw hd
        simp only
        exact ih m t' hw' (by omega) (by omega)
      | consume t' => rfl
      | err e t' => rfl
      | done t' => rfl

theorem rank_le (t : Tok) : rank t ≤ 14 := by
  unfold rank
  split
  · omega
  · rename_i top _ _
    unfold lvlRank
    rcases top with ⟨st, sv, cur⟩
    cases st <;> cases sv <;> simp [stRank]

theorem feed_redo (t t' : Tok) (c : UInt8) (hw : WF t) (h : disp t c = .redo t') :
    feed t c = feed t' c := by
  have ⟨hr, hw'⟩ := disp_redo t t' c hw h
  unfold feed
  show feedN (31+1) t c = feedN 32 t' c
  simp only [feedN, h]
  exact feedN_stable c 31 32 t' hw' (by have := rank_le t; omega) (by have := rank_le t'; omega)

theorem feed_of_disp (t : Tok) (c : UInt8) (a : Act) (h : disp t c = a) (hn : ∀ t', a ≠ .redo t') :
    feed t c = a := by
  unfold feed
  show feedN (31+1) t c = a
  cases a with
  | redo t' => exact absurd rfl (hn t')
  | _ => simp only [feedN, h]

end Tk
