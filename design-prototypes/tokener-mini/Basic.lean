/-! Reduced tokener: arrays of multi-digit naturals with whitespace, depth limit, NUL-terminated. -/
namespace Tk

inductive JV where
  | num (n : Nat)
  | arr (xs : List JV)
deriving Repr, Inhabited

inductive St where
  | eatws | start | finish | number | array | array_add | array_sep | array_after_sep
deriving Repr, DecidableEq

inductive Err where
  | success | continue_ | depth | unexpected | number | array | eof
deriving Repr, DecidableEq

structure Level where
  state : St
  saved : St
  cur : Option JV
  deriving Repr

/-- stack: top level first; depth = stack.length - 1 -/
structure Tok where
  stack : List Level
  below : Nat            -- unused
  pb : List UInt8
  maxDepth : Nat
  obj : Option JV        -- the C local `obj`
  deriving Repr

inductive Act where
  | consume (t : Tok)
  | redo (t : Tok)
  | err (e : Err) (t : Tok)
  | done (t : Tok)
  deriving Repr

def isWs (c : UInt8) : Bool := c == 32 || c == 9 || c == 10 || c == 13
def isDigit (c : UInt8) : Bool := 48 ≤ c && c ≤ 57

def digitsVal : List UInt8 → Nat → Nat
  | [], acc => acc
  | c :: cs, acc => digitsVal cs (acc * 10 + (c.toNat - 48))

def freshLevel : Level := ⟨.eatws, .start, none⟩

def disp (t : Tok) (c : UInt8) : Act :=
  match t.stack with
  | [] => .err .unexpected t
  | top :: rest =>
    match top.state with
    | .eatws =>
      if isWs c then .consume t
      else .redo { t with stack := { top with state := top.saved } :: rest }
    | .start =>
      if c == 91 then
        .consume { t with stack := { state := .eatws, saved := .array, cur := some (.arr []) } :: rest }
      else if isDigit c then
        .redo { t with stack := { top with state := .number } :: rest, pb := [] }
      else .err .unexpected t
    | .finish =>
      match rest with
      | [] => .done t
      | _ :: _ => .redo { t with stack := rest, obj := top.cur }
    | .number =>
      if isDigit c then .consume { t with pb := t.pb ++ [c] }
      else if rest.length > 0 && c != 44 && c != 93 && !isWs c then .err .number t
      else .redo { t with stack := { state := .eatws, saved := .finish, cur := some (.num (digitsVal t.pb 0)) } :: rest }
    | .array | .array_after_sep =>
      if c == 93 then
        .consume { t with stack := { top with state := .eatws, saved := .finish } :: rest }
      else if rest.length + 1 ≥ t.maxDepth then .err .depth t   -- depth = rest.length; depth >= max-1
      else .redo { t with stack := freshLevel :: { top with state := .array_add } :: rest }
    | .array_add =>
      match top.cur, t.obj with
      | some (.arr xs), some v =>
        .redo { t with stack := { state := .eatws, saved := .array_sep, cur := some (.arr (xs ++ [v])) } :: rest, obj := none }
      | _, _ => .err .unexpected t
    | .array_sep =>
      if c == 93 then .consume { t with stack := { top with state := .eatws, saved := .finish } :: rest }
      else if c == 44 then .consume { t with stack := { top with state := .eatws, saved := .array_after_sep } :: rest }
      else .err .array t

def feedN : Nat → Tok → UInt8 → Act
  | 0, t, _ => .redo t          -- out of fuel: reported as a dangling redo = stuck
  | n+1, t, c =>
    match disp t c with
    | .redo t' => feedN n t' c
    | a => a

def feed (t : Tok) (c : UInt8) : Act := feedN 32 t c

inductive Final where
  | value (v : Option JV) (consumed : Nat)
  | error (e : Err) (consumed : Nat)
  | stuck
  deriving Repr

/-- run over a NUL-terminated input; `n` = bytes consumed so far -/
def run (t : Tok) (n : Nat) : List UInt8 → Final
  | [] => .error .continue_ n
  | c :: cs =>
    match feed t c with
    | .consume t' => if c == 0 then .error .eof (n+1) else run t' (n+1) cs
    | .err e _ => .error e n
    | .done t' => (match t'.stack with | [l] => .value l.cur n | _ => .stuck)
    | .redo _ => .stuck

def new (d : Nat) : Tok := ⟨[freshLevel], 0, [], d, none⟩

def parse (d : Nat) (s : List UInt8) : Final := run (new d) 0 (s ++ [0])

#eval parse 3 "[1, [22 ,3] ,  4]".toUTF8.toList
#eval parse 2 "[1, [22 ,3] ,  4]".toUTF8.toList
#eval parse 3 "12".toUTF8.toList
end Tk
