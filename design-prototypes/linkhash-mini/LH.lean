/-! Reduced linkhash: open addressing, linear probing, tombstones; arbitrary hash; no resize, no order list. -/
namespace LH

inductive Slot where
  | empty | freed | live (k v : Nat)
deriving DecidableEq, Repr

def Slot.isLive : Slot → Bool | .live _ _ => true | _ => false
def Slot.hasKey (s : Slot) (k : Nat) : Bool := match s with | .live k' _ => k' == k | _ => false

structure Tbl where
  slots : List Slot
deriving Repr

def Tbl.size (t : Tbl) : Nat := t.slots.length
def Tbl.get (t : Tbl) (i : Nat) : Slot := t.slots.getD i .empty
def Tbl.set (t : Tbl) (i : Nat) (s : Slot) : Tbl := ⟨t.slots.set i s⟩

variable (hash : Nat → Nat)

def probe (size home i : Nat) : Nat := (home + i) % size

/-- lh_table_lookup_entry_w_hash: at most `size` probes, stop at EMPTY, skip FREED -/
def lookupFrom (t : Tbl) (k home : Nat) : Nat → Nat → Option Nat
  | _, 0 => none
  | i, fuel + 1 =>
    let p := probe t.size home i
    match t.get p with
    | .empty => none
    | .live k' _ => if k' == k then some p else lookupFrom t k home (i + 1) fuel
    | .freed => lookupFrom t k home (i + 1) fuel

def lookup (t : Tbl) (k : Nat) : Option Nat := lookupFrom t k (hash k % t.size) 0 t.size

/-- the insert loop: first EMPTY or FREED slot from the home slot -/
def findFree (t : Tbl) (home : Nat) : Nat → Nat → Option Nat
  | _, 0 => none
  | i, fuel + 1 =>
    let p := probe t.size home i
    if (t.get p).isLive then findFree t home (i + 1) fuel else some p

def insert (t : Tbl) (k v : Nat) : Option Tbl :=
  match findFree t (hash k % t.size) 0 t.size with
  | none => none
  | some p => some (t.set p (.live k v))

def delete (t : Tbl) (p : Nat) : Tbl := t.set p .freed

/-- slot `p` holds key `k` and is reachable from k's home slot without crossing an EMPTY slot -/
def Reach (t : Tbl) (k p : Nat) : Prop :=
  ∃ i, i < t.size ∧ probe t.size (hash k % t.size) i = p ∧ ∀ j, j < i → t.get (probe t.size (hash k % t.size) j) ≠ .empty

structure Inv (t : Tbl) : Prop where
  pos : 0 < t.size
  chain : ∀ p k v, p < t.size → t.get p = .live k v → Reach hash t k p
  uniq : ∀ p q k v w, p < t.size → q < t.size → t.get p = .live k v → t.get q = .live k w → p = q

theorem probe_lt (size home i : Nat) (h : 0 < size) : probe size home i < size := Nat.mod_lt _ h

theorem probe_inj (size home i j : Nat) (hi : i < size) (hj : j < size)
    (h : probe size home i = probe size home j) : i = j := by
  unfold probe at h
  -- (home+i) ≡ (home+j) mod size with |i-j| < size
  have h1 := Nat.mod_add_div (home + i) size
  have h2 := Nat.mod_add_div (home + j) size
  rw [h] at h1
  -- size * a - size * b = i - j
  rcases Nat.lt_trichotomy ((home + i) / size) ((home + j) / size) with hlt | heq | hgt
  · have : size * ((home + i) / size) + size ≤ size * ((home + j) / size) := by
      have := Nat.mul_le_mul_left size hlt
      simpa [Nat.mul_succ] using this
    omega
  · rw [heq] at h1; omega
  · have : size * ((home + j) / size) + size ≤ size * ((home + i) / size) := by
      have := Nat.mul_le_mul_left size hgt
      simpa [Nat.mul_succ] using this
    omega

theorem get_set_eq (t : Tbl) (i : Nat) (s : Slot) (h : i < t.size) : (t.set i s).get i = s := by
  simp [Tbl.get, Tbl.set, Tbl.size] at *; simp [List.getD, h]
theorem get_set_ne (t : Tbl) (i j : Nat) (s : Slot) (h : i ≠ j) : (t.set i s).get j = t.get j := by
  simp [Tbl.get, Tbl.set, List.getD, List.getElem?_set, h]
theorem size_set (t : Tbl) (i : Nat) (s : Slot) : (t.set i s).size = t.size := by
  simp [Tbl.set, Tbl.size]

/-- scanning from probe index `i`: if the key sits at probe index `i0 ≥ i` and nothing before it is
    EMPTY or holds the key, the scan finds it -/
theorem lookupFrom_finds (t : Tbl) (k home p i0 : Nat) (v : Nat)
    (hp : probe t.size home i0 = p) (hv : t.get p = .live k v)
    (hne : ∀ j, j < i0 → t.get (probe t.size home j) ≠ .empty)
    (hnk : ∀ j, j < i0 → (t.get (probe t.size home j)).hasKey k = false) :
    ∀ i fuel, i ≤ i0 → i0 < i + fuel → lookupFrom t k home i fuel = some p := by
  intro i fuel
  induction fuel generalizing i with
  | zero => intro h1 h2; omega
  | succ f ih =>
    intro h1 h2
    unfold lookupFrom
    by_cases hi : i = i0
    · subst hi; simp [hp, hv]
    · have hlt : i < i0 := by omega
      have e1 := hne i hlt
      have e2 := hnk i hlt
      cases hg : t.get (probe t.size home i) with
      | empty => exact absurd hg e1
      | freed => simp only [hg]; exact ih (i + 1) (by omega) (by omega)
      | live k' v' =>
        simp [hg, Slot.hasKey] at e2
        simp only [hg]; simp [e2]; exact ih (i + 1) (by omega) (by omega)

theorem lookup_live (t : Tbl) (h : Inv hash t) (p k v : Nat) (hp : p < t.size) (hv : t.get p = .live k v) :
    lookup hash t k = some p := by
  obtain ⟨i0, hi0, hpr, hne⟩ := h.chain p k v hp hv
  unfold lookup
  apply lookupFrom_finds t k _ p i0 v hpr hv hne
  · intro j hj
    cases hg : t.get (probe t.size (hash k % t.size) j) with
    | empty => rfl
    | freed => rfl
    | live k' v' =>
      simp only [Slot.hasKey]
      by_cases hk : k' = k
      · subst hk
        have := h.uniq _ _ _ _ _ (probe_lt _ _ _ h.pos) hp hg hv
        rw [← hpr] at this
        have := probe_inj _ _ _ _ (by omega) hi0 this
        omega
      · simp [hk]
  · omega
  · omega

theorem lookupFrom_sound (t : Tbl) (k home : Nat) : ∀ fuel i p, lookupFrom t k home i fuel = some p →
    ∃ v, t.get p = .live k v ∧ ∃ j, p = probe t.size home j := by
  intro fuel
  induction fuel with
  | zero => intro i p h; simp [lookupFrom] at h
  | succ f ih =>
    intro i p h
    unfold lookupFrom at h
    cases hg : t.get (probe t.size home i) with
    | empty => simp [hg] at h
    | freed => simp [hg] at h; exact ih _ _ h
    | live k' v' =>
      simp [hg] at h
      by_cases hk : k' = k
      · simp [hk] at h; subst h; subst hk; exact ⟨v', hg, i, rfl⟩
      · simp [hk] at h; exact ih _ _ h

/-- lookup answers exactly the live keys -/
theorem lookup_correct (t : Tbl) (h : Inv hash t) (k : Nat) :
    (∀ p, lookup hash t k = some p → p < t.size ∧ ∃ v, t.get p = .live k v) ∧
    (lookup hash t k = none → ∀ p v, p < t.size → t.get p ≠ .live k v) := by
  constructor
  · intro p hl
    obtain ⟨v, hv, j, hj⟩ := lookupFrom_sound t k _ _ _ _ hl
    exact ⟨hj ▸ probe_lt _ _ _ h.pos, v, hv⟩
  · intro hn p v hp hv
    have := lookup_live hash t h p k v hp hv
    rw [hn] at this; cases this

theorem findFree_spec (t : Tbl) (home : Nat) : ∀ fuel i p, findFree t home i fuel = some p →
    ∃ j, i ≤ j ∧ j < i + fuel ∧ p = probe t.size home j ∧ (t.get p).isLive = false ∧
      ∀ j', i ≤ j' → j' < j → (t.get (probe t.size home j')).isLive = true := by
  intro fuel
  induction fuel with
  | zero => intro i p h; simp [findFree] at h
  | succ f ih =>
    intro i p h
    unfold findFree at h
    by_cases hl : (t.get (probe t.size home i)).isLive = true
    · simp [hl] at h
      obtain ⟨j, hij, hjf, hp, hnl, hall⟩ := ih _ _ h
      refine ⟨j, by omega, by omega, hp, hnl, ?_⟩
      intro j' h1 h2
      by_cases he : j' = i
      · subst he; exact hl
      · exact hall j' (by omega) h2
    · simp [hl] at h; subst h
      exact ⟨i, Nat.le_refl _, by omega, rfl, by simpa using hl, fun j' h1 h2 => by omega⟩

theorem live_ne_empty (s : Slot) (h : s.isLive = true) : s ≠ .empty := by
  cases s <;> simp [Slot.isLive] at h ⊢

/-- insert of a key that is not present keeps the invariant (tombstone reuse included) -/
theorem insert_inv (t t' : Tbl) (h : Inv hash t) (k v : Nat)
    (hnew : ∀ p w, p < t.size → t.get p ≠ .live k w) (hi : insert hash t k v = some t') : Inv hash t' := by
  unfold insert at hi
  cases hf : findFree t (hash k % t.size) 0 t.size with
  | none => simp [hf] at hi
  | some p =>
    simp [hf] at hi; subst hi
    obtain ⟨j, _, hjs, hp, hnl, hall⟩ := findFree_spec t _ _ _ _ hf
    have hps : p < t.size := hp ▸ probe_lt _ _ _ h.pos
    refine ⟨by simpa [size_set] using h.pos, ?_, ?_⟩
    · intro q k' v' hq hg
      rw [size_set] at hq
      by_cases hqp : q = p
      · subst hqp
        rw [get_set_eq _ _ _ hps] at hg
        cases hg
        refine ⟨j, by simpa [size_set] using hjs, by simpa [size_set] using hp.symm, ?_⟩
        intro j' hj'
        rw [size_set]
        by_cases hx : probe t.size (hash k % t.size) j' = q
        · rw [hx, get_set_eq _ _ _ hps]; simp
        · rw [get_set_ne _ _ _ _ (Ne.symm hx)]
          exact live_ne_empty _ (hall j' (Nat.zero_le _) hj')
      · rw [get_set_ne _ _ _ _ (Ne.symm hqp)] at hg
        obtain ⟨i, his, hpr, hne⟩ := h.chain q k' v' hq hg
        refine ⟨i, by simpa [size_set] using his, by simpa [size_set] using hpr, ?_⟩
        intro j' hj'
        rw [size_set]
        by_cases hx : probe t.size (hash k' % t.size) j' = p
        · rw [hx, get_set_eq _ _ _ hps]; simp
        · rw [get_set_ne _ _ _ _ (Ne.symm hx)]; exact hne j' hj'
    · intro a b k' va vb ha hb hga hgb
      rw [size_set] at ha hb
      by_cases hap : a = p <;> by_cases hbp : b = p
      · omega
      · subst hap
        rw [get_set_eq _ _ _ hps] at hga; cases hga
        rw [get_set_ne _ _ _ _ (Ne.symm hbp)] at hgb
        exact absurd hgb (hnew b vb hb)
      · subst hbp
        rw [get_set_eq _ _ _ hps] at hgb; cases hgb
        rw [get_set_ne _ _ _ _ (Ne.symm hap)] at hga
        exact absurd hga (hnew a va ha)
      · rw [get_set_ne _ _ _ _ (Ne.symm hap)] at hga
        rw [get_set_ne _ _ _ _ (Ne.symm hbp)] at hgb
        exact h.uniq a b k' va vb ha hb hga hgb

end LH

#print axioms LH.lookup_correct
#print axioms LH.insert_inv
