/* C09 harness: json_object_equal / json_object_deep_copy of the current working tree.
 * Stateless: every op line carries its trees in the typed dump format (jtree.h).
 *
 * repr letters (C side only; the value model says they are invisible):
 *   h  every non-empty string of the tree is moved to the heap representation (len < 0, pdata)
 *      through json_object_set_string_len (grow, then set the original bytes back)
 *   k  object members are added with JSON_C_OBJECT_ADD_CONSTANT_KEY, the key bytes living in a
 *      harness-owned arena that is released together with the tree (a copy that aliased a key
 *      pointer would be caught by ASan when the copy is dumped afterwards)
 *   -  neither
 */
#include "jtree.h"
#include "linkhash.h"

/* ---- arena for constant keys ---- */
struct arena
{
	char **p;
	size_t n, cap;
};
static void arena_add(struct arena *a, char *s)
{
	if (a->n == a->cap)
	{
		a->cap = a->cap ? a->cap * 2 : 8;
		a->p = (char **)realloc(a->p, a->cap * sizeof(char *));
	}
	a->p[a->n++] = s;
}
static void arena_free(struct arena *a)
{
	for (size_t i = 0; i < a->n; i++)
		free(a->p[i]);
	free(a->p);
	a->p = NULL;
	a->n = a->cap = 0;
}

struct bopts
{
	int heap_strings;
	int const_keys;
	struct arena *arena;
};

static void heapify(struct json_object *o)
{
	int n = json_object_get_string_len(o);
	if (n <= 0)
		return;
	char *orig = (char *)malloc((size_t)n);
	memcpy(orig, json_object_get_string(o), (size_t)n);
	char *big = (char *)calloc((size_t)n + 24, 1);
	json_object_set_string_len(o, big, n + 24);
	json_object_set_string_len(o, orig, n);
	free(big);
	free(orig);
}

/* jt_build with the representation options */
static struct json_object *eb_build(const char **ps, const struct bopts *bo)
{
	const char *s = *ps;
	switch (*s)
	{
	case 's':
	{
		struct json_object *o = jt_build(ps);
		if (bo->heap_strings)
			heapify(o);
		return o;
	}
	case '[':
	{
		struct json_object *a = json_object_new_array();
		s++;
		if (*s == ']')
		{
			*ps = s + 1;
			return a;
		}
		for (;;)
		{
			struct json_object *e = eb_build(&s, bo);
			json_object_array_add(a, e);
			if (*s == ',') { s++; continue; }
			if (*s == ']') { s++; break; }
			break;
		}
		*ps = s;
		return a;
	}
	case '{':
	{
		struct json_object *o = json_object_new_object();
		s++;
		if (*s == '}')
		{
			*ps = s + 1;
			return o;
		}
		for (;;)
		{
			size_t n;
			char *k = jt_hexdup(&s, &n);
			if (*s == ':') s++;
			struct json_object *v = eb_build(&s, bo);
			if (bo->const_keys && !json_object_object_get_ex(o, k, NULL))
			{
				arena_add(bo->arena, k);
				json_object_object_add_ex(o, k, v, JSON_C_OBJECT_ADD_CONSTANT_KEY);
			}
			else
			{
				json_object_object_add(o, k, v);
				free(k);
			}
			if (*s == ',') { s++; continue; }
			if (*s == '}') { s++; break; }
			break;
		}
		*ps = s;
		return o;
	}
	default: return jt_build(ps);
	}
}

static struct json_object *build(const char *text, const char *repr, struct arena *ar)
{
	struct bopts bo = {strchr(repr, 'h') != NULL, strchr(repr, 'k') != NULL, ar};
	const char *p = text;
	return eb_build(&p, &bo);
}

static const char *kname(struct json_object *o)
{
	return json_type_to_name(json_object_get_type(o));
}

/* ---- pointer sets ---- */
struct pset
{
	const void **p;
	size_t n, cap;
};
static void pset_add(struct pset *s, const void *x)
{
	if (!x)
		return;
	if (s->n == s->cap)
	{
		s->cap = s->cap ? s->cap * 2 : 16;
		s->p = (const void **)realloc(s->p, s->cap * sizeof(void *));
	}
	s->p[s->n++] = x;
}
static int pset_has(const struct pset *s, const void *x)
{
	for (size_t i = 0; i < s->n; i++)
		if (s->p[i] == x)
			return 1;
	return 0;
}
/* node pointers into `nodes`; owned auxiliary pointers (member keys, heap string data,
 * userdata) into `aux`; number of constant-key entries into *ck */
static void collect(struct json_object *o, struct pset *nodes, struct pset *aux, int *ck)
{
	if (!o)
		return;
	pset_add(nodes, o);
	if (o->_userdata)
		pset_add(aux, o->_userdata);
	switch (json_object_get_type(o))
	{
	case json_type_string:
		if (((struct json_object_string *)o)->len < 0)
			pset_add(aux, json_object_get_string(o));
		break;
	case json_type_array:
		for (size_t i = 0; i < json_object_array_length(o); i++)
			collect(json_object_array_get_idx(o, i), nodes, aux, ck);
		break;
	case json_type_object:
	{
		struct lh_entry *e;
		for (e = lh_table_head(json_object_get_object(o)); e; e = lh_entry_next(e))
		{
			pset_add(aux, lh_entry_k(e));
			if (lh_entry_k_is_constant(e))
				(*ck)++;
			collect((struct json_object *)lh_entry_v(e), nodes, aux, ck);
		}
		break;
	}
	default: break;
	}
}

/* member index / array index navigation */
static int navigate(struct json_object *root, const char *path, struct json_object **out)
{
	struct json_object *cur = root;
	if (strcmp(path, "-") == 0)
	{
		*out = cur;
		return 1;
	}
	const char *p = path;
	while (*p)
	{
		char *e;
		unsigned long idx = strtoul(p, &e, 10);
		if (e == p)
			return 0;
		p = (*e == '.') ? e + 1 : e;
		if (!cur)
			return 0;
		if (json_object_get_type(cur) == json_type_array)
		{
			if (idx >= json_object_array_length(cur))
				return 0;
			cur = json_object_array_get_idx(cur, idx);
		}
		else if (json_object_get_type(cur) == json_type_object)
		{
			struct lh_entry *en = lh_table_head(json_object_get_object(cur));
			while (en && idx > 0)
			{
				en = lh_entry_next(en);
				idx--;
			}
			if (!en)
				return 0;
			cur = (struct json_object *)lh_entry_v(en);
		}
		else
			return 0;
	}
	*out = cur;
	return 1;
}

#define NFLAGS 64
static const int FLAGBITS[6] = {JSON_C_TO_STRING_SPACED, JSON_C_TO_STRING_PRETTY, JSON_C_TO_STRING_NOZERO,
                                JSON_C_TO_STRING_PRETTY_TAB, JSON_C_TO_STRING_NOSLASHESCAPE, JSON_C_TO_STRING_COLOR};

static int same_serializations(struct json_object *a, struct json_object *b)
{
	int same = 0;
	for (int m = 0; m < NFLAGS; m++)
	{
		int fl = 0;
		for (int i = 0; i < 6; i++)
			if (m & (1 << i))
				fl |= FLAGBITS[i];
		size_t la = 0, lb = 0;
		const char *sa = json_object_to_json_string_length(a, fl, &la);
		char *ca = sa ? (char *)malloc(la + 1) : NULL;
		if (ca)
			memcpy(ca, sa, la + 1);
		const char *sb = json_object_to_json_string_length(b, fl, &lb);
		if (ca && sb && la == lb && memcmp(ca, sb, la) == 0)
			same++;
		free(ca);
	}
	return same;
}

static void op_copy(const char *text, const char *repr)
{
	struct arena ar = {0};
	/* repr letter p: the process-wide string hash is switched between building the source and copying it (each table keeps
	 * the function it was created with; a copy must be built with its own table's function) */
	int swap = strchr(repr, 'p') != NULL;
	struct json_object *src = build(text, repr, &ar);
	struct json_object *dst = NULL;
	if (swap)
		json_global_set_string_hash(JSON_C_STR_HASH_PERLLIKE);
	errno = 0;
	int rc = json_object_deep_copy(src, &dst, NULL);
	int e = errno;
	if (swap)
		json_global_set_string_hash(JSON_C_STR_HASH_DFLT);
	if (rc != 0 || !dst)
	{
		printf("rc=%d dst=%s ## errno=%s\n", rc, dst ? "set" : "NULL", errname(e));
		if (dst)
			json_object_put(dst);
		json_object_put(src);
		arena_free(&ar);
		return;
	}
	printf("rc=%d dump=", rc);
	jt_dump(dst);
	printf(" cs=%d sc=%d", json_object_equal(dst, src), json_object_equal(src, dst));
	printf(" ser=%d/%d", same_serializations(dst, src), NFLAGS);
	struct pset sn = {0}, sa = {0}, cn = {0}, ca = {0};
	int sck = 0, cck = 0;
	collect(src, &sn, &sa, &sck);
	collect(dst, &cn, &ca, &cck);
	int shared = 0, sharedaux = 0;
	for (size_t i = 0; i < cn.n; i++)
		shared += pset_has(&sn, cn.p[i]) || pset_has(&sa, cn.p[i]);
	for (size_t i = 0; i < ca.n; i++)
		sharedaux += pset_has(&sa, ca.p[i]) || pset_has(&sn, ca.p[i]);
	/* no node of the copy may occur twice inside the copy either */
	for (size_t i = 0; i < cn.n; i++)
		for (size_t j = i + 1; j < cn.n; j++)
			shared += cn.p[i] == cn.p[j];
	printf(" shared=%d", shared);
	/* destroy the source (and the arena its constant keys live in); the copy must be unaffected */
	char *before = NULL, *after = NULL;
	size_t bl = 0, al = 0;
	{
		FILE *keep = stdout;
		FILE *m = open_memstream(&before, &bl);
		stdout = m;
		jt_dump(dst);
		fclose(m);
		stdout = keep;
	}
	size_t ncopy = cn.n;
	json_object_put(src);
	arena_free(&ar);
	{
		FILE *keep = stdout;
		FILE *m = open_memstream(&after, &al);
		stdout = m;
		jt_dump(dst);
		fclose(m);
		stdout = keep;
	}
	printf(" stable=%d", bl == al && memcmp(before, after, bl) == 0);
	printf(" ## nodes=%zu aux=%d errno=%s constkeys=%d\n", ncopy, sharedaux, errname(e), cck);
	free(before);
	free(after);
	free(sn.p); free(sa.p); free(cn.p); free(ca.p);
	json_object_put(dst);
}

static void op_copybad(const char *text, const char *mode)
{
	struct arena ar = {0};
	struct json_object *src = build(text, "-", &ar);
	int rc;
	const char *st = "unchanged";
	errno = 0;
	if (!strcmp(mode, "nullsrc"))
	{
		struct json_object *dst = NULL;
		rc = json_object_deep_copy(NULL, &dst, NULL);
		if (dst)
			st = "changed";
	}
	else if (!strcmp(mode, "nodst"))
	{
		rc = json_object_deep_copy(src, NULL, NULL);
	}
	else
	{
		struct json_object *occ = json_object_new_object();
		struct json_object *dst = occ;
		rc = json_object_deep_copy(src, &dst, NULL);
		if (dst != occ || json_object_object_length(occ) != 0)
			st = "changed";
		if (dst && dst != occ)
			json_object_put(dst);
		json_object_put(occ);
	}
	int e = errno;
	printf("rc=%d dst=%s ## errno=%s\n", rc, st, rc < 0 ? errname(e) : "0");
	json_object_put(src);
	arena_free(&ar);
}

static void op_copyud(const char *bitshex, const char *texthex)
{
	uint64_t bits = strtoull(bitshex, NULL, 16);
	double d;
	size_t n;
	memcpy(&d, &bits, 8);
	char *txt = unhexz(texthex, &n); /* caller-managed text */
	struct json_object *src = json_object_new_double(d), *cpy = NULL;
	json_object_set_serializer(src, json_object_userdata_to_json_string, txt, NULL);
	int rc = json_object_deep_copy(src, &cpy, NULL);
	int equal = 0, indep = 0;
	if (rc == 0 && cpy)
	{
		char *before = strdup(json_object_to_json_string(cpy));
		equal = !strcmp(before, json_object_to_json_string(src));
		/* the caller rewrites, then releases, its text and the source */
		for (size_t i = 0; i < n; i++)
			if (txt[i] >= '0' && txt[i] <= '8')
				txt[i]++;
		json_object_put(src);
		src = NULL;
		memset(txt, 'x', n);
		free(txt);
		txt = NULL;
		indep = !strcmp(before, json_object_to_json_string(cpy));
		free(before);
		/* the copy's text is a private duplicate with no delete function of its own: release it here */
		void *own = json_object_get_userdata(cpy);
		json_object_put(cpy);
		free(own);
	}
	if (src)
		json_object_put(src);
	free(txt);
	printf("copyud rc=%d equal=%d independent=%d\n", rc, equal, indep);
}

static void op_copyfmt(const char *bitshex, const char *fmthex, const char *nested)
{
	/* a double printed through the library's own json_object_double_to_json_string with a format string the node owns
	 * (userdata + json_object_free_userdata), alone or inside an array, deep-copied with the default shallow copy: either the
	 * copy is refused (-1, nothing produced) or it shares nothing - destroying the source leaves the copy printing as before */
	uint64_t bits = strtoull(bitshex, NULL, 16);
	double d;
	memcpy(&d, &bits, 8);
	char *fmt = unhexz(fmthex, NULL);
	struct json_object *node = json_object_new_double(d), *src = node, *cpy = NULL;
	json_object_set_serializer(node, json_object_double_to_json_string, fmt, json_object_free_userdata);
	if (nested[0] == '1')
	{
		src = json_object_new_array();
		json_object_array_add(src, json_object_new_int(1));
		json_object_array_add(src, node);
	}
	int rc = json_object_deep_copy(src, &cpy, NULL);
	int good;
	if (rc != 0)
		good = (cpy == NULL);
	else
	{
		char *before = strdup(json_object_to_json_string(cpy));
		good = !strcmp(before, json_object_to_json_string(src));
		json_object_put(src);
		src = NULL;
		good = good && !strcmp(before, json_object_to_json_string(cpy));
		free(before);
	}
	if (src)
		json_object_put(src);
	if (cpy)
		json_object_put(cpy);
	printf("copyfmt %s\n", good ? "refused-or-disjoint" : "BAD");
}

static void op_copymut(int nw, char **w)
{
	/* copymut <T> <repr> <side> <destroy> <path> <mutation...> */
	const char *text = w[1], *repr = w[2], *side = w[3], *destroy = w[4], *path = w[5];
	struct arena ar = {0};
	struct json_object *src = build(text, repr, &ar);
	struct json_object *cpy = NULL;
	if (json_object_deep_copy(src, &cpy, NULL) != 0 || !cpy)
	{
		puts("copy-refused");
		json_object_put(src);
		arena_free(&ar);
		return;
	}
	struct json_object **root = (side[0] == 'c') ? &cpy : &src;
	struct json_object *node = NULL;
	const char *mrc = NULL;
	char buf[32];
	const char *op = w[6];
	struct arena tmp = {0};
	if (!navigate(*root, path, &node))
		mrc = "badpath";
	else
	{
		enum json_type ty = json_object_get_type(node); /* NULL -> json_type_null */
		if (!strcmp(op, "setstr") && nw == 8)
		{
			if (ty != json_type_string) mrc = "skip";
			else
			{
				size_t n;
				char *s = unhexz(w[7], &n);
				snprintf(buf, sizeof buf, "%d", json_object_set_string_len(node, s, (int)n));
				mrc = buf;
				free(s);
			}
		}
		else if (!strcmp(op, "setint") && nw == 8)
		{
			if (ty != json_type_int) mrc = "skip";
			else
			{
				snprintf(buf, sizeof buf, "%d", json_object_set_int64(node, strtoll(w[7], NULL, 10)));
				mrc = buf;
			}
		}
		else if (!strcmp(op, "setdbl") && nw == 8)
		{
			if (ty != json_type_double) mrc = "skip";
			else
			{
				uint64_t bits = strtoull(w[7], NULL, 16);
				double d;
				memcpy(&d, &bits, 8);
				snprintf(buf, sizeof buf, "%d", json_object_set_double(node, d));
				mrc = buf;
			}
		}
		else if (!strcmp(op, "addmem") && nw == 9)
		{
			if (ty != json_type_object) mrc = "skip";
			else
			{
				char *k = unhexz(w[7], NULL);
				struct json_object *v = build(w[8], "-", &tmp);
				snprintf(buf, sizeof buf, "%d", json_object_object_add(node, k, v));
				mrc = buf;
				free(k);
			}
		}
		else if (!strcmp(op, "delmem") && nw == 8)
		{
			if (ty != json_type_object) mrc = "skip";
			else
			{
				char *k = unhexz(w[7], NULL);
				json_object_object_del(node, k);
				mrc = "0";
				free(k);
			}
		}
		else if (!strcmp(op, "putidx") && nw == 9)
		{
			if (ty != json_type_array) mrc = "skip";
			else
			{
				struct json_object *v = build(w[8], "-", &tmp);
				snprintf(buf, sizeof buf, "%d", json_object_array_put_idx(node, strtoul(w[7], NULL, 10), v));
				mrc = buf;
			}
		}
		else if (!strcmp(op, "addelem") && nw == 8)
		{
			if (ty != json_type_array) mrc = "skip";
			else
			{
				struct json_object *v = build(w[7], "-", &tmp);
				snprintf(buf, sizeof buf, "%d", json_object_array_add(node, v));
				mrc = buf;
			}
		}
		else
			mrc = "bad-op";
	}
	printf("mrc=%s src=", mrc);
	jt_dump(src);
	printf(" cpy=");
	jt_dump(cpy);
	/* destroy one side, then read the other one completely */
	if (destroy[0] == 's')
	{
		json_object_put(src);
		arena_free(&ar);
		src = NULL;
		printf(" after=");
		jt_dump(cpy);
	}
	else
	{
		json_object_put(cpy);
		cpy = NULL;
		printf(" after=");
		jt_dump(src);
	}
	printf(" ## -\n");
	if (src) json_object_put(src);
	if (cpy) json_object_put(cpy);
	arena_free(&ar);
	arena_free(&tmp);
}

int main(void)
{
	while (hc_read())
	{
		if (hc_line[0] == '#')
		{
			puts(hc_line);
			fflush(stdout);
			continue;
		}
		hc_split();
		if (NW == 0)
		{
			puts("bad-op");
			continue;
		}
		if (!strcmp(W[0], "eq") && NW == 5)
		{
			struct arena ar = {0};
			struct json_object *a = build(W[1], W[3], &ar), *b = build(W[2], W[4], &ar);
			int ab = json_object_equal(a, b), ba = json_object_equal(b, a);
			printf("ab=%d ba=%d ## ka=%s kb=%s\n", ab, ba, kname(a), kname(b));
			json_object_put(a);
			json_object_put(b);
			arena_free(&ar);
		}
		else if (!strcmp(W[0], "eq3") && NW == 4)
		{
			struct arena ar = {0};
			struct json_object *a = build(W[1], "-", &ar), *b = build(W[2], "h", &ar), *c = build(W[3], "k", &ar);
			printf("%d %d %d %d %d %d ## -\n", json_object_equal(a, b), json_object_equal(b, a),
			       json_object_equal(b, c), json_object_equal(c, b), json_object_equal(a, c),
			       json_object_equal(c, a));
			json_object_put(a);
			json_object_put(b);
			json_object_put(c);
			arena_free(&ar);
		}
		else if (!strcmp(W[0], "eqself") && NW == 3)
		{
			struct arena ar = {0};
			struct json_object *a = build(W[1], W[2], &ar), *t = build(W[1], "-", &ar);
			printf("self=%d twin=%d twinrev=%d ## k=%s\n", json_object_equal(a, a), json_object_equal(a, t),
			       json_object_equal(t, a), kname(a));
			json_object_put(a);
			json_object_put(t);
			arena_free(&ar);
		}
		else if (!strcmp(W[0], "eqshare") && NW == 2)
		{
			struct arena ar = {0};
			struct json_object *x = build(W[1], "-", &ar);
			struct json_object *a1 = json_object_new_array(), *a2 = json_object_new_array();
			struct json_object *o1 = json_object_new_object(), *o2 = json_object_new_object();
			json_object_array_add(a1, json_object_get(x));
			json_object_array_add(a2, json_object_get(x));
			json_object_object_add(o1, "k", json_object_get(x));
			json_object_object_add(o2, "k", json_object_get(x));
			printf("arr=%d obj=%d ## -\n", json_object_equal(a1, a2), json_object_equal(o1, o2));
			json_object_put(a1);
			json_object_put(a2);
			json_object_put(o1);
			json_object_put(o2);
			json_object_put(x);
			arena_free(&ar);
		}
		else if (!strcmp(W[0], "copy") && NW == 3)
			op_copy(W[1], W[2]);
		else if (!strcmp(W[0], "copybad") && NW == 3)
			op_copybad(W[1], W[2]);
		else if (!strcmp(W[0], "copyud") && NW == 3)
			op_copyud(W[1], W[2]);
		else if (!strcmp(W[0], "copyfmt") && NW == 4)
			op_copyfmt(W[1], W[2], W[3]);
		else if (!strcmp(W[0], "copymut") && NW >= 7)
			op_copymut(NW, W);
		else
			puts("bad-op");
		fflush(stdout);
	}
	return 0;
}
