/* C10 harness: numeric accessors / mutators of json_object.c, json_parse_int64/uint64 of
 * json_util.c, and the libc functions whose Lean references the model uses (op family `libc`).
 * Line formats: see lean/Driver/Num.lean.  Every accessor is called twice: once with errno = 0
 * (the documented way to use it; value and errno class are the spec observables) and once with a
 * sentinel errno (internal observable: `keep` = errno not written). */
#include "jtree.h"
#include "json_util.h"
#include <inttypes.h>
#include <math.h>

#define SENTINEL EBADF

/* `G<spec>`: the same node, but a string is given its value through json_object_set_string_len on a
 * shorter string, so that it is held in the separately allocated representation (negative len) */
static struct json_object *build(const char *txt)
{
	const char *p = txt;
	int grown = 0;
	if (*p == 'G')
	{
		grown = 1;
		p++;
	}
	struct json_object *o = jt_build(&p);
	if (grown && o && json_object_get_type(o) == json_type_string)
	{
		int n = json_object_get_string_len(o);
		struct json_object *g = json_object_new_string_len("", 0);
		json_object_set_string_len(g, json_object_get_string(o), n);
		json_object_put(o);
		o = g;
	}
	return o;
}

static uint64_t dbits(double d)
{
	uint64_t b;
	memcpy(&b, &d, 8);
	return b;
}

static const char *eff(int e)
{
	return e == SENTINEL ? "keep" : errname(e);
}

/* one accessor: prints "<value>" into vbuf, returns errno classes */
static void acc(const char *which, struct json_object *o, char *vbuf, size_t vn, const char **e0, const char **es)
{
	int e;
	if (!strcmp(which, "i"))
	{
		errno = 0;
		int32_t v = json_object_get_int(o);
		e = errno;
		snprintf(vbuf, vn, "%" PRId32, v);
		errno = SENTINEL;
		(void)json_object_get_int(o);
		/* the value does not depend on what errno held on entry (a caller that never looks at errno need not clear it) */
		int es_keep = errno;
		for (int k = 0; k < 2; k++)
		{
			errno = k ? EINVAL : ERANGE;
			int32_t v2 = json_object_get_int(o);
			if (v2 != v)
			{
				size_t l = strlen(vbuf);
				snprintf(vbuf + l, vn - l, "!with-stale-errno-%d:" "%" PRId32, k ? EINVAL : ERANGE, v2);
				break;
			}
		}
		errno = es_keep;
	}
	else if (!strcmp(which, "i64"))
	{
		errno = 0;
		int64_t v = json_object_get_int64(o);
		e = errno;
		snprintf(vbuf, vn, "%" PRId64, v);
		errno = SENTINEL;
		(void)json_object_get_int64(o);
		/* the value does not depend on what errno held on entry (a caller that never looks at errno need not clear it) */
		int es_keep = errno;
		for (int k = 0; k < 2; k++)
		{
			errno = k ? EINVAL : ERANGE;
			int64_t v2 = json_object_get_int64(o);
			if (v2 != v)
			{
				size_t l = strlen(vbuf);
				snprintf(vbuf + l, vn - l, "!with-stale-errno-%d:" "%" PRId64, k ? EINVAL : ERANGE, v2);
				break;
			}
		}
		errno = es_keep;
	}
	else if (!strcmp(which, "u64"))
	{
		errno = 0;
		uint64_t v = json_object_get_uint64(o);
		e = errno;
		snprintf(vbuf, vn, "%" PRIu64, v);
		errno = SENTINEL;
		(void)json_object_get_uint64(o);
		/* the value does not depend on what errno held on entry (a caller that never looks at errno need not clear it) */
		int es_keep = errno;
		for (int k = 0; k < 2; k++)
		{
			errno = k ? EINVAL : ERANGE;
			uint64_t v2 = json_object_get_uint64(o);
			if (v2 != v)
			{
				size_t l = strlen(vbuf);
				snprintf(vbuf + l, vn - l, "!with-stale-errno-%d:" "%" PRIu64, k ? EINVAL : ERANGE, v2);
				break;
			}
		}
		errno = es_keep;
	}
	else if (!strcmp(which, "d"))
	{
		errno = 0;
		double v = json_object_get_double(o);
		e = errno;
		snprintf(vbuf, vn, "%016" PRIx64, dbits(v));
		errno = SENTINEL;
		(void)json_object_get_double(o);
		/* the value does not depend on what errno held on entry (a caller that never looks at errno need not clear it) */
		int es_keep = errno;
		for (int k = 0; k < 2; k++)
		{
			errno = k ? EINVAL : ERANGE;
			double v2 = json_object_get_double(o);
			if (dbits(v2) != dbits(v))
			{
				size_t l = strlen(vbuf);
				snprintf(vbuf + l, vn - l, "!with-stale-errno-%d:" "%016" PRIx64, k ? EINVAL : ERANGE, dbits(v2));
				break;
			}
		}
		errno = es_keep;
	}
	else
	{
		errno = 0;
		json_bool v = json_object_get_boolean(o);
		e = errno;
		snprintf(vbuf, vn, "%d", (int)v);
		errno = SENTINEL;
		(void)json_object_get_boolean(o);
	}
	*es = eff(errno);
	*e0 = errname(e);
}

static void op_get(const char *node, const char **which, int n, int single)
{
	struct json_object *o = build(node);
	char v[5][64];
	const char *e0[5], *es[5];
	for (int i = 0; i < n; i++)
		acc(which[i], o, v[i], sizeof(v[i]), &e0[i], &es[i]);
	if (single)
		printf("%s %s ## %s\n", v[0], e0[0], es[0]);
	else
	{
		for (int i = 0; i < n; i++)
			printf("%s%s=%s:%s", i ? " " : "", which[i], v[i], e0[i]);
		printf(" ## ");
		for (int i = 0; i < n; i++)
			printf("%s%s", i ? "," : "", es[i]);
		putchar('\n');
	}
	json_object_put(o);
}

static void op_set(const char *op, const char *node, const char *arg)
{
	struct json_object *o = build(node);
	int rc;
	const char *w;
	if (!strcmp(op, "seti"))
	{
		rc = json_object_set_int(o, (int)strtoll(arg, NULL, 10));
		w = "i";
	}
	else if (!strcmp(op, "seti64"))
	{
		rc = json_object_set_int64(o, (int64_t)strtoll(arg, NULL, 10));
		w = "i64";
	}
	else if (!strcmp(op, "setu64"))
	{
		rc = json_object_set_uint64(o, (uint64_t)strtoull(arg, NULL, 10));
		w = "u64";
	}
	else if (!strcmp(op, "setb"))
	{
		rc = json_object_set_boolean(o, strcmp(arg, "0") != 0);
		w = "b";
	}
	else
	{
		uint64_t bits = strtoull(arg, NULL, 16);
		double d;
		memcpy(&d, &bits, 8);
		rc = json_object_set_double(o, d);
		w = "d";
	}
	char v[64];
	const char *e0, *es;
	printf("%d ", rc);
	jt_dump(o);
	acc(w, o, v, sizeof(v), &e0, &es);
	printf(" %s:%s ## -\n", v, e0);
	json_object_put(o);
}

static void op_inc(void)
{
	struct json_object *o = build(W[1]);
	for (int i = 2; i < NW; i++)
	{
		int rc = json_object_int_inc(o, (int64_t)strtoll(W[i], NULL, 10));
		printf("%s%d:", i > 2 ? " " : "", rc);
		jt_dump(o);
	}
	printf(" ## -\n");
	json_object_put(o);
}

static void op_parse(int is_signed, const char *hex)
{
	char *t = unhexz(hex, NULL);
	int rc, e;
	if (is_signed)
	{
		int64_t a = 0x5a5a5a5a5a5a5a5aLL, b = 0x2525252525252525LL;
		errno = 0;
		rc = json_parse_int64(t, &a);
		e = errno;
		(void)json_parse_int64(t, &b);
		if (a == 0x5a5a5a5a5a5a5a5aLL && b == 0x2525252525252525LL)
			printf("%d - %s ## -\n", rc, errname(e));
		else
			printf("%d %" PRId64 " %s ## -\n", rc, a, errname(e));
	}
	else
	{
		uint64_t a = 0x5a5a5a5a5a5a5a5aULL, b = 0x2525252525252525ULL;
		errno = 0;
		rc = json_parse_uint64(t, &a);
		e = errno;
		(void)json_parse_uint64(t, &b);
		if (a == 0x5a5a5a5a5a5a5a5aULL && b == 0x2525252525252525ULL)
			printf("%d - %s ## -\n", rc, errname(e));
		else
			printf("%d %" PRIu64 " %s ## -\n", rc, a, errname(e));
	}
	free(t);
}

static void op_libc(const char *fn, const char *arg)
{
	if (!strcmp(fn, "strtoll"))
	{
		char *t = unhexz(arg, NULL), *end;
		errno = 0;
		long long v = strtoll(t, &end, 10);
		printf("%lld %d %s ## -\n", v, (int)(end - t), errname(errno));
		free(t);
	}
	else if (!strcmp(fn, "strtoull"))
	{
		char *t = unhexz(arg, NULL), *end;
		errno = 0;
		unsigned long long v = strtoull(t, &end, 10);
		printf("%llu %d %s ## -\n", v, (int)(end - t), errname(errno));
		free(t);
	}
	else if (!strcmp(fn, "strtod"))
	{
		char *t = unhexz(arg, NULL), *end;
		errno = 0;
		double v = strtod(t, &end);
		printf("%016" PRIx64 " %d %s ## -\n", dbits(v), (int)(end - t), errname(errno));
		free(t);
	}
	else if (!strcmp(fn, "i2d"))
	{
		volatile int64_t v = (int64_t)strtoll(arg, NULL, 10);
		double d = (double)v;
		printf("%016" PRIx64 " ## %016" PRIx64 "\n", dbits(d), dbits(d));
	}
	else if (!strcmp(fn, "u2d"))
	{
		volatile uint64_t v = (uint64_t)strtoull(arg, NULL, 10);
		double d = (double)v;
		printf("%016" PRIx64 " ## %016" PRIx64 "\n", dbits(d), dbits(d));
	}
	else
		puts("bad-op");
}

int main(void)
{
	static const char *all[] = {"i", "i64", "u64", "d", "b"};
	while (hc_read())
	{
		if (hc_line[0] == '#')
		{
			puts(hc_line);
			continue;
		}
		hc_split();
		if (NW == 0)
		{
			puts("bad-op");
			continue;
		}
		const char *one[1];
		if (!strcmp(W[0], "get") && NW == 2)
			op_get(W[1], all, 5, 0);
		else if (NW == 2 && (!strcmp(W[0], "geti") || !strcmp(W[0], "geti64") || !strcmp(W[0], "getu64") ||
		                     !strcmp(W[0], "getd") || !strcmp(W[0], "getb")))
		{
			one[0] = W[0] + 3;
			op_get(W[1], one, 1, 1);
		}
		else if (!strcmp(W[0], "inc") && NW >= 2)
			op_inc();
		else if (NW == 3 && (!strcmp(W[0], "seti") || !strcmp(W[0], "seti64") || !strcmp(W[0], "setu64") ||
		                     !strcmp(W[0], "setb") || !strcmp(W[0], "setd")))
			op_set(W[0], W[1], W[2]);
		else if (!strcmp(W[0], "parsei64") && NW == 2)
			op_parse(1, W[1]);
		else if (!strcmp(W[0], "parseu64") && NW == 2)
			op_parse(0, W[1]);
		else if (!strcmp(W[0], "libc") && NW == 3)
			op_libc(W[1], W[2]);
		else
			puts("bad-op");
		fflush(stdout);
	}
	return 0;
}
