/* Build a json_object tree from / dump it to the typed canonical format of
 * lean/JsonC/Model/Value.lean (JVal.dump):
 *   n | t | f | i<dec> (int64-typed) | u<dec> (uint64-typed) | d<16 hex bits>[:<hex text>] |
 *   s<hex> | [a,b] | {<hexkey>:v,...}      ("-" = empty hex string)
 * Uses only the public API plus json_object_private.h (to read the int representation). */
#ifndef JTREE_H
#define JTREE_H
#include "hcommon.h"
#include "json.h"
#include "json_object_private.h"
#include <inttypes.h>

static struct json_object *jt_build(const char **ps);

static size_t jt_hexspan(const char *s)
{
	size_t n = 0;
	while (hexv(s[n]) >= 0 || s[n] == '-')
		n++;
	return n;
}

static char *jt_hexdup(const char **ps, size_t *len)
{
	size_t n = jt_hexspan(*ps);
	char *tmp = (char *)malloc(n + 1);
	memcpy(tmp, *ps, n);
	tmp[n] = 0;
	*ps += n;
	char *r = unhexz(tmp, len);
	free(tmp);
	return r;
}

static struct json_object *jt_build(const char **ps)
{
	const char *s = *ps;
	switch (*s)
	{
	case 'n': *ps = s + 1; return NULL;
	case 't': *ps = s + 1; return json_object_new_boolean(1);
	case 'f': *ps = s + 1; return json_object_new_boolean(0);
	case 'i':
	{
		char *e;
		long long v = strtoll(s + 1, &e, 10);
		*ps = e;
		return json_object_new_int64(v);
	}
	case 'u':
	{
		char *e;
		unsigned long long v = strtoull(s + 1, &e, 10);
		*ps = e;
		return json_object_new_uint64(v);
	}
	case 'd':
	{
		uint64_t bits = 0;
		double d;
		for (int i = 0; i < 16; i++)
			bits = bits * 16 + (uint64_t)hexv(s[1 + i]);
		memcpy(&d, &bits, 8);
		s += 17;
		if (*s == ':')
		{
			s++;
			size_t n;
			char *t = jt_hexdup(&s, &n);
			struct json_object *o = json_object_new_double_s(d, t);
			free(t);
			*ps = s;
			return o;
		}
		*ps = s;
		return json_object_new_double(d);
	}
	case 's':
	{
		s++;
		size_t n;
		char *t = jt_hexdup(&s, &n);
		struct json_object *o = json_object_new_string_len(t, (int)n);
		free(t);
		*ps = s;
		return o;
	}
	case '[':
	{
		struct json_object *a = json_object_new_array();
		s++;
		if (*s == ']')
		{
			*ps = s + 1;
			return a;
		}
		for (;;)
		{
			struct json_object *e = jt_build(&s);
			json_object_array_add(a, e);
			if (*s == ',') { s++; continue; }
			if (*s == ']') { s++; break; }
			break;
		}
		*ps = s;
		return a;
	}
	case '{':
	{
		struct json_object *o = json_object_new_object();
		s++;
		if (*s == '}')
		{
			*ps = s + 1;
			return o;
		}
		for (;;)
		{
			size_t n;
			char *k = jt_hexdup(&s, &n);
			if (*s == ':') s++;
			struct json_object *v = jt_build(&s);
			json_object_object_add(o, k, v);
			free(k);
			if (*s == ',') { s++; continue; }
			if (*s == '}') { s++; break; }
			break;
		}
		*ps = s;
		return o;
	}
	default: return NULL;
	}
}

static void jt_dump(struct json_object *o)
{
	if (!o) { putchar('n'); return; }
	switch (json_object_get_type(o))
	{
	case json_type_null: putchar('n'); break;
	case json_type_boolean: putchar(json_object_get_boolean(o) ? 't' : 'f'); break;
	case json_type_int:
	{
		struct json_object_int *ji = (struct json_object_int *)o;
		if (ji->cint_type == json_object_int_type_int64)
			printf("i%" PRId64, ji->cint.c_int64);
		else
			printf("u%" PRIu64, ji->cint.c_uint64);
		break;
	}
	case json_type_double:
	{
		double d = json_object_get_double(o);
		uint64_t bits;
		memcpy(&bits, &d, 8);
		printf("d%016" PRIx64, bits);
		/* retained text: the strdup'd userdata that json_object_new_double_s attaches */
		if (o->_user_delete == json_object_free_userdata && o->_userdata)
		{
			putchar(':');
			puthex(o->_userdata, strlen((const char *)o->_userdata));
		}
		break;
	}
	case json_type_string:
		putchar('s');
		puthex(json_object_get_string(o), (size_t)json_object_get_string_len(o));
		break;
	case json_type_array:
	{
		size_t n = json_object_array_length(o);
		putchar('[');
		for (size_t i = 0; i < n; i++)
		{
			if (i) putchar(',');
			jt_dump(json_object_array_get_idx(o, i));
		}
		putchar(']');
		break;
	}
	case json_type_object:
	{
		int first = 1;
		putchar('{');
		struct json_object_iterator it = json_object_iter_begin(o), end = json_object_iter_end(o);
		while (!json_object_iter_equal(&it, &end))
		{
			const char *k = json_object_iter_peek_name(&it);
			if (!first) putchar(',');
			first = 0;
			puthex(k, strlen(k));
			putchar(':');
			jt_dump(json_object_iter_peek_value(&it));
			json_object_iter_next(&it);
		}
		putchar('}');
		break;
	}
	}
}
#endif
