/* C19 harness: drives printbuf.c of the current working tree. */
#include "hcommon.h"
#include "printbuf.h"

static struct printbuf *pb;

/* `sproom`: every realloc and vasprintf the library calls during that one sprintbuf fails (linked with
 * -Wl,--wrap=realloc,--wrap=vasprintf) */
#include <stdarg.h>
void *__real_realloc(void *p, size_t n);
int __real_vasprintf(char **strp, const char *fmt, va_list ap);
static int oom_window, oom_hits;
void *__wrap_realloc(void *p, size_t n)
{
	if (oom_window)
	{
		oom_hits++;
		errno = ENOMEM;
		return NULL;
	}
	return __real_realloc(p, n);
}
int __wrap_vasprintf(char **strp, const char *fmt, va_list ap)
{
	if (oom_window)
	{
		oom_hits++;
		errno = ENOMEM;
		return -1;
	}
	return __real_vasprintf(strp, fmt, ap);
}

static void show(int ret, int appendlike)
{
	int nul = (pb->bpos < pb->size) && pb->buf[pb->bpos] == 0;
	printf("%d %d ", ret, pb->bpos);
	if (pb->bpos > (1 << 22))
		printf("<%d bytes>", pb->bpos); /* never expected: the generator keeps served requests small */
	else
		puthex(pb->buf, (size_t)pb->bpos);
	/* a refused request leaves the buffer as it was: buf[bpos] may be uninitialised (after a fill) */
	if (appendlike && ret < 0)
		appendlike = 0;
	if (appendlike)
		printf(" nul=%d", nul);
	/* after a fill buf[bpos] may be uninitialised memory: not an observable */
	if (appendlike)
		printf(" ## %s %d nul=%d\n", ret < 0 ? errname(errno) : "0", pb->size, nul);
	else
		printf(" ## %s %d nul=-\n", ret < 0 ? errname(errno) : "0", pb->size);
}

int main(void)
{
	while (hc_read())
	{
		if (hc_line[0] == '#')
		{
			puts(hc_line);
			if (pb)
				printbuf_free(pb);
			pb = printbuf_new();
			continue;
		}
		hc_split();
		if (NW == 0 || !pb)
		{
			puts("bad-op");
			continue;
		}
		errno = 0;
		if (!strcmp(W[0], "peek") && NW == 1)
			show(0, 1);
		else if (!strcmp(W[0], "app") && NW == 2)
		{
			size_t n;
			unsigned char *d = unhex(W[1], &n);
			int r = printbuf_memappend(pb, (const char *)d, (int)n);
			free(d);
			show(r, 1);
		}
		else if (!strcmp(W[0], "claim") && NW == 2)
		{
			char *src = (char *)calloc(8, 1);
			int r = printbuf_memappend(pb, src, atoi(W[1]));
			free(src);
			show(r, 1);
		}
		else if (!strcmp(W[0], "fast") && NW == 2)
		{
			size_t n;
			unsigned char *d = unhex(W[1], &n);
			struct printbuf *p = pb;
			int sz = (int)n;
			printbuf_memappend_fast(p, (const char *)d, sz);
			free(d);
			errno = 0;
			show(0, 1);
		}
		else if (!strcmp(W[0], "set") && NW == 4)
		{
			int r = printbuf_memset(pb, atoi(W[1]), atoi(W[2]), atoi(W[3]));
			show(r, 0);
		}
		else if (!strcmp(W[0], "spr") && NW == 2)
		{
			/* the formatted output is given; "%s" reproduces it (no NUL inside) */
			char *s = unhexz(W[1], NULL);
			int r = sprintbuf(pb, "%s", s);
			free(s);
			show(r, 1);
		}
		else if (!strcmp(W[0], "sproom") && NW == 2)
		{
			/* sprintbuf while the allocator refuses everything: served from the space at hand, or refused with the
			 * buffer - text, length and the terminating NUL - exactly as it was (issued right after an append) */
			char *s = unhexz(W[1], NULL);
			oom_window = 1;
			oom_hits = 0;
			int r = sprintbuf(pb, "%s", s);
			oom_window = 0;
			free(s);
			if (r >= 0)
				show(r, 1);
			else
			{
				int nul = (pb->bpos < pb->size) && pb->buf[pb->bpos] == 0;
				printf("%d %d ", r, pb->bpos);
				puthex(pb->buf, (size_t)pb->bpos);
				printf(" nul=%d ## oom %d nul=%d\n", nul, pb->size, nul);
			}
		}
		else if (!strcmp(W[0], "reset") && NW == 1)
		{
			printbuf_reset(pb);
			show(0, 1);
		}
		else
			puts("bad-op");
		fflush(stdout);
	}
	if (pb)
		printbuf_free(pb);
	return 0;
}
