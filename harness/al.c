/* C07 harness: drives arraylist.c directly (ops new/add/put/ins/del/shrink/get/len/sort/bs/free,
 * elements are integer-coded pointers, free_fn logs them) and through the json_object array API
 * (ops jnew/jadd/... , elements are json_object ints the harness holds an extra reference to, so
 * releases show up as reference-count drops and no element is ever dereferenced after release).
 *
 * After every op the whole observable state is read back through the public accessors only:
 *   <result> <len> [i:e,...(non-null elements)] end:<get(len)>,<get(len+1)>,<get(SIZE_MAX)> rel:[released ids] ## <size> ...
 * Allocation requests above `limit` bytes are refused (linker --wrap), so nothing huge is ever
 * really allocated and the model knows which requests the allocator refuses. */
#include "hcommon.h"
#include "arraylist.h"
#include "json.h"
#include "json_object_private.h"

/* ---- allocator cap ---- */
#define LIMIT_MIN 256
#define LIMIT_DEFAULT (8u << 20)
static size_t alloc_limit = LIMIT_DEFAULT;
static int oom_seen; /* did the allocator refuse a request during the current op? */
#define EOL() printf(" oom=%d\n", oom_seen)
void *__real_malloc(size_t n);
void *__real_calloc(size_t n, size_t m);
void *__real_realloc(void *p, size_t n);
void *__wrap_malloc(size_t n)
{
	if (n > alloc_limit)
	{
		oom_seen = 1;
		errno = ENOMEM;
		return NULL;
	}
	return __real_malloc(n);
}
void *__wrap_calloc(size_t n, size_t m)
{
	if (m && n > alloc_limit / m)
	{
		oom_seen = 1;
		errno = ENOMEM;
		return NULL;
	}
	return __real_calloc(n, m);
}
void *__wrap_realloc(void *p, size_t n)
{
	if (n > alloc_limit)
	{
		oom_seen = 1;
		errno = ENOMEM;
		return NULL;
	}
	return __real_realloc(p, n);
}

/* ---- release log ---- */
#define RELMAX (1u << 20)
static uintptr_t *rel;
static size_t nrel;
static void log_free(void *p)
{
	if (nrel < RELMAX)
		rel[nrel++] = (uintptr_t)p;
}
static void print_rel(void)
{
	printf(" rel:[");
	for (size_t i = 0; i < nrel; i++)
		printf("%s%llu", i ? "," : "", (unsigned long long)rel[i]);
	printf("]");
	nrel = 0;
}

static struct array_list *al;

static void show_al(void)
{
	size_t len = array_list_length(al);
	int first = 1;
	printf(" %llu [", (unsigned long long)len);
	for (size_t i = 0; i < len; i++)
	{
		void *e = array_list_get_idx(al, i);
		if (e)
		{
			printf("%s%llu:%llu", first ? "" : ",", (unsigned long long)i, (unsigned long long)(uintptr_t)e);
			first = 0;
		}
	}
	printf("] end:%llu,%llu,%llu", (unsigned long long)(uintptr_t)array_list_get_idx(al, len),
	       (unsigned long long)(uintptr_t)array_list_get_idx(al, len + 1),
	       (unsigned long long)(uintptr_t)array_list_get_idx(al, SIZE_MAX));
	print_rel();
	printf(" ## %llu", (unsigned long long)al->size);
}

/* the order the comparators implement depends on this variable: `sortd` sorts with the SAME function pointer in
 * descending order (a comparator may depend on state outside the array; the sort has to call it every time) */
static int cmp_desc;

static int cmp_ptr(const void *a, const void *b)
{
	uintptr_t x = (uintptr_t) * (void *const *)a, y = (uintptr_t) * (void *const *)b;
	int r = x < y ? -1 : x > y;
	return cmp_desc ? -r : r;
}

/* ---- json_object layer ---- */
#define MAXH 4096
static struct json_object *ja;
static struct json_object *H[MAXH];
static long held[MAXH];

static struct json_object *handle(size_t k)
{
	if (k == 0 || k >= MAXH)
		return NULL;
	if (!H[k])
	{
		H[k] = json_object_new_int64((int64_t)k);
		held[k] = 0;
	}
	return H[k];
}

static long find_handle(const struct json_object *p)
{
	if (!p)
		return 0;
	for (size_t k = 1; k < MAXH; k++)
		if (H[k] == p)
			return (long)k;
	return -1;
}

/* ids whose count of references held by the array dropped, given that `ins` was handed over */
static void print_jrel(size_t ins, int handed_over)
{
	int first = 1;
	printf(" rel:[");
	for (size_t k = 1; k < MAXH; k++)
	{
		if (!H[k])
			continue;
		long now = (long)H[k]->_ref_count - 1;
		long expect = held[k] + ((handed_over && k == ins) ? 1 : 0);
		for (long j = now; j < expect; j++)
		{
			printf("%s%llu", first ? "" : ",", (unsigned long long)k);
			first = 0;
		}
		for (long j = expect; j < now; j++)
		{
			printf("%s+%llu", first ? "" : ",", (unsigned long long)k);
			first = 0;
		}
		held[k] = now;
	}
	printf("]");
}

static void put_id(const struct json_object *e, const char *pre)
{
	long id = find_handle(e);
	if (id < 0)
		printf("%s?", pre);
	else
		printf("%s%ld", pre, id);
}

static void show_ja(size_t ins, int handed_over)
{
	size_t len = json_object_array_length(ja);
	int first = 1;
	printf(" %llu [", (unsigned long long)len);
	for (size_t i = 0; i < len; i++)
	{
		struct json_object *e = json_object_array_get_idx(ja, i);
		if (e)
		{
			printf("%s%llu:", first ? "" : ",", (unsigned long long)i);
			put_id(e, "");
			first = 0;
		}
	}
	printf("] end:");
	put_id(json_object_array_get_idx(ja, len), "");
	put_id(json_object_array_get_idx(ja, len + 1), ",");
	put_id(json_object_array_get_idx(ja, SIZE_MAX), ",");
	print_jrel(ins, handed_over);
	printf(" ## %llu", (unsigned long long)json_object_get_array(ja)->size);
}

static int cmp_jso(const void *a, const void *b)
{
	const struct json_object *x = *(struct json_object *const *)a, *y = *(struct json_object *const *)b;
	int r;
	if (!x || !y)
		r = x ? 1 : (y ? -1 : 0);
	else
	{
		int64_t i = json_object_get_int64(x), j = json_object_get_int64(y);
		r = i < j ? -1 : i > j;
	}
	return cmp_desc ? -r : r;
}

static void teardown(void)
{
	if (al)
		array_list_free(al);
	al = NULL;
	if (ja)
		json_object_put(ja);
	ja = NULL;
	for (size_t k = 1; k < MAXH; k++)
		if (H[k])
		{
			json_object_put(H[k]);
			H[k] = NULL;
			held[k] = 0;
		}
	nrel = 0;
	alloc_limit = LIMIT_DEFAULT;
}

static unsigned long long U(int i)
{
	return strtoull(W[i], NULL, 10);
}

int main(void)
{
	rel = (uintptr_t *)__real_malloc(RELMAX * sizeof(uintptr_t));
	while (hc_read())
	{
		if (hc_line[0] == '#')
		{
			puts(hc_line);
			teardown();
			continue;
		}
		hc_split();
		if (NW == 0)
		{
			puts("bad-op");
			continue;
		}
		const char *op = W[0];
		nrel = 0;
		oom_seen = 0;
		if (!strcmp(op, "limit") && NW == 2)
		{
			alloc_limit = (size_t)U(1);
			if (alloc_limit < LIMIT_MIN)
				alloc_limit = LIMIT_MIN;
			puts("ok");
		}
		else if (!strcmp(op, "new") && NW == 2)
		{
			if (al)
				array_list_free(al);
			nrel = 0;
			al = array_list_new2(log_free, atoi(W[1]));
			if (al)
				printf("new ok ## %llu", (unsigned long long)al->size);
			else
				printf("new null ## -");
			EOL();
		}
		else if (!strcmp(op, "jnew") && NW == 2)
		{
			if (ja)
				json_object_put(ja);
			ja = json_object_new_array_ext(atoi(W[1]));
			for (size_t k = 1; k < MAXH; k++)
				if (H[k])
					held[k] = (long)H[k]->_ref_count - 1;
			if (ja)
				printf("new ok ## %llu", (unsigned long long)json_object_get_array(ja)->size);
			else
				printf("new null ## -");
			EOL();
		}
		else if (op[0] != 'j')
		{
			/* ---------- arraylist.c driven directly ---------- */
			if (!al)
			{
				puts("no-list");
				continue;
			}
			if (!strcmp(op, "add") && NW == 2)
			{
				printf("r=%d", array_list_add(al, (void *)(uintptr_t)U(1)));
				show_al();
				EOL();
			}
			else if (!strcmp(op, "put") && NW == 3)
			{
				printf("r=%d", array_list_put_idx(al, (size_t)U(1), (void *)(uintptr_t)U(2)));
				show_al();
				EOL();
			}
			else if (!strcmp(op, "ins") && NW == 3)
			{
				printf("r=%d", array_list_insert_idx(al, (size_t)U(1), (void *)(uintptr_t)U(2)));
				show_al();
				EOL();
			}
			else if (!strcmp(op, "del") && NW == 3)
			{
				printf("r=%d", array_list_del_idx(al, (size_t)U(1), (size_t)U(2)));
				show_al();
				EOL();
			}
			else if (!strcmp(op, "shrink") && NW == 2)
			{
				printf("r=%d", array_list_shrink(al, (size_t)U(1)));
				show_al();
				EOL();
			}
			else if (!strcmp(op, "get") && NW == 2)
			{
				printf("v=%llu", (unsigned long long)(uintptr_t)array_list_get_idx(al, (size_t)U(1)));
				show_al();
				EOL();
			}
			else if (!strcmp(op, "len") && NW == 1)
			{
				printf("n=%llu", (unsigned long long)array_list_length(al));
				show_al();
				EOL();
			}
			else if ((!strcmp(op, "sort") || !strcmp(op, "sortd")) && NW == 1)
			{
				cmp_desc = op[4] == 'd';
				array_list_sort(al, cmp_ptr);
				cmp_desc = 0;
				printf("r=0");
				show_al();
				EOL();
			}
			else if (!strcmp(op, "bs") && NW == 2)
			{
				void *key = (void *)(uintptr_t)U(1);
				void **r = (void **)array_list_bsearch((const void **)&key, al, cmp_ptr);
				if (r)
					printf("f=%llu", (unsigned long long)(uintptr_t)*r);
				else
					printf("f=-");
				show_al();
				if (r)
					printf(" pos=%llu", (unsigned long long)(r - al->array));
				else
					printf(" pos=-");
				EOL();
			}
			else if (!strcmp(op, "free") && NW == 1)
			{
				array_list_free(al);
				al = NULL;
				printf("freed");
				print_rel();
				printf(" ## -");
				EOL();
			}
			else
				puts("bad-op");
		}
		else
		{
			/* ---------- the json_object array API on top ---------- */
			if (!ja)
			{
				puts("no-list");
				continue;
			}
			if ((!strcmp(op, "jadd") && NW == 2) || (!strcmp(op, "jput") && NW == 3) || (!strcmp(op, "jins") && NW == 3))
			{
				size_t v = (size_t)U(NW - 1);
				struct json_object *o = handle(v);
				int r;
				if (v != 0 && !o)
				{
					puts("bad-op");
					continue;
				}
				if (o)
					json_object_get(o); /* the reference handed over to the array */
				if (op[1] == 'a')
					r = json_object_array_add(ja, o);
				else if (op[1] == 'p')
					r = json_object_array_put_idx(ja, (size_t)U(1), o);
				else
					r = json_object_array_insert_idx(ja, (size_t)U(1), o);
				if (r != 0 && o)
					json_object_put(o); /* refused: the caller still owns it */
				printf("r=%d", r);
				show_ja(v, r == 0);
				EOL();
			}
			else if (!strcmp(op, "jdel") && NW == 3)
			{
				printf("r=%d", json_object_array_del_idx(ja, (size_t)U(1), (size_t)U(2)));
				show_ja(0, 0);
				EOL();
			}
			else if (!strcmp(op, "jshrink") && NW == 2)
			{
				printf("r=%d", json_object_array_shrink(ja, atoi(W[1])));
				show_ja(0, 0);
				EOL();
			}
			else if (!strcmp(op, "jget") && NW == 2)
			{
				put_id(json_object_array_get_idx(ja, (size_t)U(1)), "v=");
				show_ja(0, 0);
				EOL();
			}
			else if (!strcmp(op, "jlen") && NW == 1)
			{
				printf("n=%llu", (unsigned long long)json_object_array_length(ja));
				show_ja(0, 0);
				EOL();
			}
			else if ((!strcmp(op, "jsort") || !strcmp(op, "jsortd")) && NW == 1)
			{
				cmp_desc = op[5] == 'd';
				json_object_array_sort(ja, cmp_jso);
				cmp_desc = 0;
				printf("r=0");
				show_ja(0, 0);
				EOL();
			}
			else if (!strcmp(op, "jbs") && NW == 2)
			{
				size_t k = (size_t)U(1);
				struct json_object *key = handle(k);
				if (k != 0 && !key)
				{
					puts("bad-op");
					continue;
				}
				struct json_object *r = json_object_array_bsearch(key, ja, cmp_jso);
				if (r)
					put_id(r, "f=");
				else
					printf("f=-");
				show_ja(0, 0);
				EOL();
			}
			else if (!strcmp(op, "jfree") && NW == 1)
			{
				json_object_put(ja);
				ja = NULL;
				printf("freed");
				print_jrel(0, 0);
				printf(" ## -");
				EOL();
			}
			else
				puts("bad-op");
		}
		fflush(stdout);
	}
	teardown();
	free(rel);
	free(hc_line);
	return 0;
}
