/* C05 harness: drives the reference-counting object API of the current working tree.
 *
 * Nodes are named by small ids in creation order (deep copies: pre-order, assigned inside the
 * shallow-copy callback).  Every node gets a json_object_set_userdata delete callback whose
 * userdata is a token (initially the node's id); the callback logs (id, token, _ref_count == 0).
 * malloc/calloc/realloc/free/strdup are wrapped (-Wl,--wrap): while an API call runs, the block
 * balance is counted and every free() of a node's own block is logged, so a destruction is seen even
 * when no callback is installed, and the harness knows exactly which ids are live.
 *
 * line: <ret> made=<id|-> cb=[sorted] freed=[sorted] ## order=[callbacks as they ran] live=[...] mem=<blocks>
 */
#include "hcommon.h"
#include "json.h"
#include "json_object_private.h"

#define MAXID 4096
static struct json_object *ptr[MAXID];
static int alive[MAXID];
/* "nomem" op: cases that add members with JSON_C_OBJECT_ADD_CONSTANT_KEY (the key is the caller's storage, the library
 * owns no copy) do not compare the per-line block balance with the model, which counts one key block per member; the
 * balance at the end of the case (nothing left once every reference is gone) is compared as always.  The harness keeps
 * such keys alive until the case ends. */
static int nomem;
#define MAXCK 4096
static char *ckeys[MAXCK];
static int nck;
static int nextid;

static int counting;
static long balance;

#define MAXEV 8192
static int cb_id[MAXEV], cb_final[MAXEV];
static long cb_tok[MAXEV];
static int ncb;
static int freed[MAXEV];
static int nfreed;

void *__real_malloc(size_t);
void *__real_calloc(size_t, size_t);
void *__real_realloc(void *, size_t);
void __real_free(void *);

void *__wrap_malloc(size_t n)
{
	void *p = __real_malloc(n);
	if (counting && p)
		balance++;
	return p;
}
void *__wrap_calloc(size_t a, size_t b)
{
	void *p = __real_calloc(a, b);
	if (counting && p)
		balance++;
	return p;
}
void *__wrap_realloc(void *q, size_t n)
{
	void *p = __real_realloc(q, n);
	if (counting && !q && p)
		balance++;
	return p;
}
char *__wrap_strdup(const char *s)
{
	size_t n = strlen(s) + 1;
	char *p = (char *)__real_malloc(n);
	if (!p)
		return NULL;
	memcpy(p, s, n);
	if (counting)
		balance++;
	return p;
}
void __wrap_free(void *p)
{
	if (p && counting)
	{
		balance--;
		for (int i = 0; i < nextid; i++)
			if (alive[i] && (void *)ptr[i] == p)
			{
				alive[i] = 0;
				if (nfreed < MAXEV)
					freed[nfreed++] = i;
				break;
			}
	}
	__real_free(p);
}

static int find_id(const struct json_object *o)
{
	for (int i = 0; i < nextid; i++)
		if (alive[i] && ptr[i] == o)
			return i;
	return -1;
}

static void on_delete(struct json_object *jso, void *userdata)
{
	if (ncb >= MAXEV)
		return;
	cb_id[ncb] = find_id(jso);
	cb_tok[ncb] = (long)(uintptr_t)userdata - 1;
	cb_final[ncb] = (jso->_ref_count == 0);
	ncb++;
}

/* format strings handed to json_object_double_to_json_string as userdata ("setserd"): owned by the node, released
 * through on_delete_fmt, which logs the slot number as the token */
static char fmts[64][8];
static void on_delete_fmt(struct json_object *jso, void *userdata)
{
	if (ncb >= MAXEV)
		return;
	cb_id[ncb] = find_id(jso);
	cb_tok[ncb] = (long)(((char *)userdata - &fmts[0][0]) / 8);
	cb_final[ncb] = (jso->_ref_count == 0);
	ncb++;
}

static int reg(struct json_object *o)
{
	int id = nextid++;
	if (id >= MAXID)
	{
		puts("harness: too many nodes");
		exit(3);
	}
	ptr[id] = o;
	alive[id] = 1;
	json_object_set_userdata(o, (void *)(uintptr_t)(id + 1), on_delete);
	return id;
}

/* deep copy: shallow-copy hook that names the new node and installs its callback */
static long copy_calls, copy_fail_at;
static int shallow(json_object *src, json_object *parent, const char *key, size_t index, json_object **dst)
{
	copy_calls++;
	if (copy_fail_at > 0 && copy_calls == copy_fail_at)
		return -1;
	int rc = json_c_shallow_copy_default(src, parent, key, index, dst);
	if (rc < 0)
		return rc;
	reg(*dst);
	return 2;
}

static int cmp_int(const void *a, const void *b)
{
	int x = *(const int *)a, y = *(const int *)b;
	return (x > y) - (x < y);
}

static void put_val(const struct json_object *o)
{
	if (!o)
		putchar('-');
	else
	{
		int id = find_id(o);
		if (id < 0)
			putchar('?');
		else
			printf("%d", id);
	}
}

static void print_cb(int k)
{
	printf("%d.%ld%s", cb_id[k], cb_tok[k], cb_final[k] ? "!" : "");
}

static int cb_less(int a, int b)
{
	if (cb_id[a] != cb_id[b]) return cb_id[a] < cb_id[b];
	if (cb_tok[a] != cb_tok[b]) return cb_tok[a] < cb_tok[b];
	return !cb_final[a] && cb_final[b];
}

static void show(long ret, int made)
{
	int ord[MAXEV];
	printf("%ld made=", ret);
	if (made < 0) putchar('-'); else printf("%d", made);
	for (int i = 0; i < ncb; i++)
		ord[i] = i;
	for (int i = 1; i < ncb; i++) /* insertion sort */
		for (int j = i; j > 0 && cb_less(ord[j], ord[j - 1]); j--)
		{
			int t = ord[j]; ord[j] = ord[j - 1]; ord[j - 1] = t;
		}
	printf(" cb=[");
	for (int i = 0; i < ncb; i++)
	{
		if (i) putchar(',');
		print_cb(ord[i]);
	}
	qsort(freed, (size_t)nfreed, sizeof(int), cmp_int);
	printf("] freed=[");
	for (int i = 0; i < nfreed; i++)
		printf("%s%d", i ? "," : "", freed[i]);
	printf("] ## order=[");
	for (int i = 0; i < ncb; i++)
	{
		if (i) putchar(',');
		print_cb(i);
	}
	printf("] live=[");
	int first = 1;
	for (int id = 0; id < nextid; id++)
	{
		if (!alive[id])
			continue;
		struct json_object *o = ptr[id];
		if (!first) putchar(' ');
		first = 0;
		printf("%d:%u:u", id, (unsigned)o->_ref_count);
		if (o->_user_delete)
			if ((char *)o->_userdata >= &fmts[0][0] && (char *)o->_userdata < &fmts[0][0] + sizeof(fmts))
				printf("%ld", (long)(((char *)o->_userdata - &fmts[0][0]) / 8));
			else
				printf("%ld", (long)(uintptr_t)o->_userdata - 1);
		else
			putchar('-');
		putchar(':');
		switch (json_object_get_type(o))
		{
		case json_type_object:
		{
			int f = 1;
			printf("o{");
			json_object_object_foreach(o, k, v)
			{
				if (!f) putchar(',');
				f = 0;
				puthex(k, strlen(k));
				putchar('=');
				put_val(v);
			}
			putchar('}');
			break;
		}
		case json_type_array:
		{
			size_t n = json_object_array_length(o);
			printf("a[");
			for (size_t i = 0; i < n; i++)
			{
				if (i) putchar(',');
				put_val(json_object_array_get_idx(o, i));
			}
			putchar(']');
			break;
		}
		case json_type_string: putchar('s'); break;
		case json_type_int: putchar('i'); break;
		case json_type_double: putchar('d'); break;
		case json_type_boolean: putchar('b'); break;
		default: putchar('?'); break;
		}
	}
	if (nomem)
		printf("] mem=-\n");
	else
		printf("] mem=%ld\n", balance);
}

/* node operand: a live id, else NULL with *ok = 0 (the generator never does that) */
static struct json_object *node(const char *w, int *ok)
{
	char *e;
	long id = strtol(w, &e, 10);
	if (*e || id < 0 || id >= nextid || !alive[id])
	{
		*ok = 0;
		return NULL;
	}
	return ptr[id];
}
static struct json_object *val(const char *w, int *ok)
{
	if (!strcmp(w, "-"))
		return NULL;
	return node(w, ok);
}

/* end of a case: free whatever is still live so that LeakSanitizer only reports blocks the
 * bookkeeping lost.  Pin every node, empty every container, then drop each isolated node. */
static void cleanup(void)
{
	counting = 1;
	for (int i = 0; i < nextid; i++)
		if (alive[i])
			json_object_get(ptr[i]);
	for (int i = 0; i < nextid; i++)
	{
		if (!alive[i])
			continue;
		struct json_object *o = ptr[i];
		if (json_object_get_type(o) == json_type_array)
		{
			size_t n = json_object_array_length(o);
			if (n)
				json_object_array_del_idx(o, 0, n);
		}
		else if (json_object_get_type(o) == json_type_object)
		{
			while (json_object_object_length(o) > 0)
			{
				struct lh_entry *e = json_object_get_object(o)->head;
				char *k = strdup((const char *)lh_entry_k(e));
				json_object_object_del(o, k);
				free(k);
			}
		}
	}
	for (int i = 0; i < nextid; i++)
		if (alive[i])
		{
			json_object_set_userdata(ptr[i], NULL, NULL);
			ptr[i]->_ref_count = 1;
			json_object_put(ptr[i]);
		}
	counting = 0;
	nextid = 0;
	balance = 0;
	for (int i = 0; i < nck; i++)
		free(ckeys[i]);
	nck = 0;
	nomem = 0;
}

int main(void)
{
	/* warm up lazily initialised library state (hash seed) outside the accounting */
	{
		struct json_object *o = json_object_new_object();
		json_object_object_add(o, "k", NULL);
		json_object_put(o);
	}
	while (hc_read())
	{
		if (hc_line[0] == '#')
		{
			puts(hc_line);
			cleanup();
			continue;
		}
		hc_split();
		ncb = nfreed = 0;
		int ok = 1;
		if (NW == 1 && !strcmp(W[0], "end"))
		{
			int n = 0;
			for (int i = 0; i < nextid; i++)
				n += alive[i];
			/* "no memory remains allocated" once every reference has been released */
			if (nomem)
				printf("end nodes=%d none-left=%s ## mem=-\n", n, n ? "n/a" : (balance == 0 ? "yes" : "no"));
			else
				printf("end nodes=%d none-left=%s ## mem=%ld\n", n, n ? "n/a" : (balance == 0 ? "yes" : "no"), balance);
		}
		else if (NW == 1 && !strcmp(W[0], "nomem"))
		{
			nomem = 1;
			puts("ok");
		}
		else if (NW == 1 && !strncmp(W[0], "new", 3) && strlen(W[0]) == 4)
		{
			struct json_object *o = NULL;
			counting = 1;
			switch (W[0][3])
			{
			case 'o': o = json_object_new_object(); break;
			case 'a': o = json_object_new_array(); break;
			case 's': o = json_object_new_string("some text longer than a pointer"); break;
			case 'i': o = json_object_new_int64(42); break;
			case 'd': o = json_object_new_double(1.5); break;
			case 'b': o = json_object_new_boolean(1); break;
			}
			counting = 0;
			if (!o)
				puts("bad-op");
			else
				show(0, reg(o));
		}
		else if (NW == 2 && !strcmp(W[0], "get"))
		{
			struct json_object *o = node(W[1], &ok);
			if (!ok) { puts("harness: dead handle"); continue; }
			counting = 1;
			struct json_object *r = json_object_get(o);
			counting = 0;
			show(r == o ? 0 : -99, -1);
		}
		else if (NW == 2 && !strcmp(W[0], "put"))
		{
			struct json_object *o = node(W[1], &ok);
			if (!ok) { puts("harness: dead handle"); continue; }
			counting = 1;
			int r = json_object_put(o);
			counting = 0;
			show(r, -1);
		}
		else if (NW == 5 && !strcmp(W[0], "oadd"))
		{
			struct json_object *o = node(W[1], &ok);
			struct json_object *v = val(W[3], &ok);
			if (!ok || json_object_get_type(o) != json_type_object) { puts("harness: bad operand"); continue; }
			char *k = unhexz(W[2], NULL);
			unsigned opts = (unsigned)strtoul(W[4], NULL, 10);
			counting = 1;
			int r = opts ? json_object_object_add_ex(o, k, v, opts) : json_object_object_add(o, k, v);
			counting = 0;
			if ((opts & JSON_C_OBJECT_ADD_CONSTANT_KEY) && nck < MAXCK)
				ckeys[nck++] = k; /* the table may point at it: lives until the case ends */
			else
				free(k);
			show(r, -1);
		}
		else if (NW == 3 && !strcmp(W[0], "odel"))
		{
			struct json_object *o = node(W[1], &ok);
			if (!ok || json_object_get_type(o) != json_type_object) { puts("harness: bad operand"); continue; }
			char *k = unhexz(W[2], NULL);
			counting = 1;
			json_object_object_del(o, k);
			counting = 0;
			free(k);
			show(0, -1);
		}
		else if (NW == 3 && !strcmp(W[0], "aadd"))
		{
			struct json_object *o = node(W[1], &ok);
			struct json_object *v = val(W[2], &ok);
			if (!ok || json_object_get_type(o) != json_type_array) { puts("harness: bad operand"); continue; }
			counting = 1;
			int r = json_object_array_add(o, v);
			counting = 0;
			show(r, -1);
		}
		else if (NW == 4 && (!strcmp(W[0], "aput") || !strcmp(W[0], "ains")))
		{
			struct json_object *o = node(W[1], &ok);
			struct json_object *v = val(W[3], &ok);
			if (!ok || json_object_get_type(o) != json_type_array) { puts("harness: bad operand"); continue; }
			size_t idx = (size_t)strtoull(W[2], NULL, 10);
			counting = 1;
			int r = W[0][1] == 'p' ? json_object_array_put_idx(o, idx, v) : json_object_array_insert_idx(o, idx, v);
			counting = 0;
			show(r, -1);
		}
		else if (NW == 4 && !strcmp(W[0], "adel"))
		{
			struct json_object *o = node(W[1], &ok);
			if (!ok || json_object_get_type(o) != json_type_array) { puts("harness: bad operand"); continue; }
			size_t idx = (size_t)strtoull(W[2], NULL, 10), cnt = (size_t)strtoull(W[3], NULL, 10);
			counting = 1;
			int r = json_object_array_del_idx(o, idx, cnt);
			counting = 0;
			show(r, -1);
		}
		else if (NW == 3 && (!strcmp(W[0], "setud") || !strcmp(W[0], "setser")))
		{
			struct json_object *o = node(W[1], &ok);
			if (!ok) { puts("harness: dead handle"); continue; }
			int clear = !strcmp(W[2], "-");
			void *ud = clear ? NULL : (void *)(uintptr_t)(strtol(W[2], NULL, 10) + 1);
			counting = 1;
			if (W[0][3] == 'u')
				json_object_set_userdata(o, ud, clear ? NULL : on_delete);
			else
				json_object_set_serializer(o, NULL, ud, clear ? NULL : on_delete);
			counting = 0;
			show(0, -1);
		}
		else if (NW == 2 && !strcmp(W[0], "setd"))
		{
			struct json_object *o = node(W[1], &ok);
			if (!ok || json_object_get_type(o) != json_type_double) { puts("harness: bad operand"); continue; }
			counting = 1;
			int r = json_object_set_double(o, 2.25);
			counting = 0;
			show(r, -1);
		}
		else if (NW == 3 && !strcmp(W[0], "setserp"))
		{
			/* a user-installed serializer that is one of the library's own public functions */
			struct json_object *o = node(W[1], &ok);
			if (!ok) { puts("harness: dead handle"); continue; }
			void *ud = (void *)(uintptr_t)(strtol(W[2], NULL, 10) + 1);
			counting = 1;
			json_object_set_serializer(o, json_object_userdata_to_json_string, ud, on_delete);
			counting = 0;
			show(0, -1);
		}
		else if (NW == 3 && !strcmp(W[0], "setserd"))
		{
			/* the library's own double serializer with a format string the node owns (userdata + delete callback) */
			struct json_object *o = node(W[1], &ok);
			long t = strtol(W[2], NULL, 10);
			if (!ok || json_object_get_type(o) != json_type_double || t < 0 || t >= 64) { puts("harness: bad operand"); continue; }
			strcpy(fmts[t], "%.2f");
			counting = 1;
			json_object_set_serializer(o, json_object_double_to_json_string, fmts[t], on_delete_fmt);
			counting = 0;
			show(0, -1);
		}
		else if (NW == 3 && !strcmp(W[0], "copy"))
		{
			struct json_object *o = node(W[1], &ok);
			if (!ok) { puts("harness: dead handle"); continue; }
			struct json_object *dst = NULL;
			copy_calls = 0;
			copy_fail_at = strcmp(W[2], "-") ? strtol(W[2], NULL, 10) : 0;
			counting = 1;
			int r = json_object_deep_copy(o, &dst, shallow);
			counting = 0;
			show(r, dst ? find_id(dst) : -1);
		}
		else if (NW == 2 && !strcmp(W[0], "copyd"))
		{
			/* deep copy with the DEFAULT shallow-copy function of a tree whose root carries user data: documented to fail
			 * (the library cannot copy user data it does not know); the failure must be silent - no callback of the
			 * caller's runs (least of all for a node of the half-built copy), nothing is released, nothing is left behind */
			struct json_object *o = node(W[1], &ok);
			if (!ok) { puts("harness: dead handle"); continue; }
			if (!o->_user_delete && !o->_userdata) { puts("harness: bad operand"); continue; }
			struct json_object *dst = NULL;
			counting = 1;
			int r = json_object_deep_copy(o, &dst, NULL);
			counting = 0;
			if (dst)
				json_object_put(dst);
			show(r, dst ? 9999 : -1);
		}
		else if (NW == 4 && !strcmp(W[0], "ptrset"))
		{
			struct json_object *o = node(W[1], &ok);
			struct json_object *v = val(W[3], &ok);
			if (!ok) { puts("harness: bad operand"); continue; }
			char *path = unhexz(W[2], NULL);
			struct json_object *root = o; /* the caller's variable; "" replaces it by v */
			counting = 1;
			int r = json_pointer_set(&root, path, v);
			counting = 0;
			free(path);
			show(r, -1);
		}
		else
			puts("bad-op");
		fflush(stdout);
	}
	cleanup();
	return 0;
}
