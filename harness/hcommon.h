/* Shared plumbing for the C harnesses: line reader, hex, errno classes.
 * Every harness reads one op per line on stdin and prints exactly one line per op.
 * "# id" starts a new case (state is torn down and rebuilt) and is echoed. */
#ifndef HCOMMON_H
#define HCOMMON_H
#include <errno.h>
#include <limits.h>
#include <stdint.h>
#include <stdio.h>
#include <stdlib.h>
#include <string.h>

#define MAXW 1024
static char *hc_line = NULL;
static size_t hc_cap = 0;
static char *W[MAXW];
static int NW;

/* watchdog: an op that does not return within HC_WATCHDOG seconds (default 40) ends the harness; check.py then
 * reports the op as a crash ("harness stopped") with the case as replay, instead of waiting for its own long
 * time-out.  A harness with its own timing defines HC_NO_WATCHDOG. */
#ifndef HC_NO_WATCHDOG
#include <signal.h>
#include <unistd.h>
static void hc_on_alarm(int sig)
{
	static const char msg[] = "HANG: the operation did not return within the watchdog time\n";
	(void)sig;
	if (write(2, msg, sizeof(msg) - 1) < 0) {}
	_exit(124);
}
#endif

static int hc_read(void)
{
#ifndef HC_NO_WATCHDOG
	static int armed = -1;
	if (armed < 0)
	{
		const char *w = getenv("HC_WATCHDOG");
		armed = w ? atoi(w) : 40;
		if (armed > 0)
			signal(SIGALRM, hc_on_alarm);
	}
	if (armed > 0)
		alarm((unsigned)armed);
#endif
	ssize_t n = getline(&hc_line, &hc_cap, stdin);
	if (n < 0)
		return 0;
	while (n > 0 && (hc_line[n - 1] == '\n' || hc_line[n - 1] == '\r'))
		hc_line[--n] = 0;
	return 1;
}

/* split hc_line in place */
static void hc_split(void)
{
	char *p = hc_line;
	NW = 0;
	while (*p && NW < MAXW)
	{
		while (*p == ' ')
			p++;
		if (!*p)
			break;
		W[NW++] = p;
		while (*p && *p != ' ')
			p++;
		if (*p)
			*p++ = 0;
	}
}

static int hexv(int c)
{
	if (c >= '0' && c <= '9') return c - '0';
	if (c >= 'a' && c <= 'f') return c - 'a' + 10;
	if (c >= 'A' && c <= 'F') return c - 'A' + 10;
	return -1;
}

/* decode hex into an exact-size heap buffer (so that ASan sees any over-read);
 * "-" is the empty string; returns malloc'd buffer (never NULL), length in *len */
static unsigned char *unhex(const char *s, size_t *len)
{
	size_t n = (strcmp(s, "-") == 0) ? 0 : strlen(s) / 2;
	unsigned char *b = (unsigned char *)malloc(n ? n : 1);
	for (size_t i = 0; i < n; i++)
		b[i] = (unsigned char)(hexv(s[2 * i]) * 16 + hexv(s[2 * i + 1]));
	*len = n;
	return b;
}

/* like unhex but NUL-terminated (allocation is len+1) */
static char *unhexz(const char *s, size_t *len)
{
	size_t n = (strcmp(s, "-") == 0) ? 0 : strlen(s) / 2;
	char *b = (char *)malloc(n + 1);
	for (size_t i = 0; i < n; i++)
		b[i] = (char)(hexv(s[2 * i]) * 16 + hexv(s[2 * i + 1]));
	b[n] = 0;
	if (len) *len = n;
	return b;
}

static void puthex(const void *p, size_t n)
{
	const unsigned char *b = (const unsigned char *)p;
	if (n == 0)
	{
		putchar('-');
		return;
	}
	for (size_t i = 0; i < n; i++)
		printf("%02x", b[i]);
}

static const char *errname(int e)
{
	switch (e)
	{
	case 0: return "0";
	case ERANGE: return "ERANGE";
	case EINVAL: return "EINVAL";
	case ENOENT: return "ENOENT";
	case ENOMEM: return "ENOMEM";
	case EFBIG: return "EFBIG";
	case EBADF: return "EBADF";
	default: return "other";
	}
}
#endif
