/* C02 harness: drives the serializer of the current working tree (json_object.c).
 * ops (flags = JSON_C_TO_STRING_* bits, tree in the JVal dump format of jtree.h):
 *   ser <flags> <tree>          json_object_to_json_string_length + _ext on a tree built through the API
 *   rt <flags> <tree>           the same, then json_tokener_parse_ex(new_ex(32), text, -1), json_object_equal
 *                               against the original, and re-serialization of the parsed tree with the same flags
 *   sset <flags> <hex1> <hex2>  json_object_new_string_len(hex1), json_object_set_string_len(hex2), then as `ser`
 *   g17 <16 hex bits>           snprintf("%.17g") of the (finite) double, the text the serializer emits for it with
 *                               flags 0, and strtod of that text (libc reference check)
 * output:
 *   ser/sset:  <reported length> <strlen> <hex text> ## ext=<0|1>
 *   rt:        <reported length> <strlen> <hex text> rt=<err> end=<n> eq=<0|1|-> re=<0|1|-> ## <dump of parsed tree | ->
 *   g17:       <hex of %.17g> <hex of the serialized text> <16 hex bits of strtod(serialized text)> ## - */
#include "jtree.h"
#include "json_tokener.h"

static void show_text(const char *r, size_t len)
{
	if (!r)
	{
		printf("%zu - NULL", len);
		return;
	}
	printf("%zu %zu ", len, strlen(r));
	puthex(r, len);
}

/* serialize with _length and with _ext; ext=1 iff both return the same bytes */
static char *serialize(struct json_object *o, int flags, size_t *plen, int *ext)
{
	size_t len = 0;
	const char *e = json_object_to_json_string_ext(o, flags);
	char *ecopy = e ? strdup(e) : NULL;
	const char *r = json_object_to_json_string_length(o, flags, &len);
	char *copy = NULL;
	if (r)
	{
		copy = (char *)malloc(len + 1);
		memcpy(copy, r, len + 1); /* buf[len] is the terminator the property promises */
	}
	*ext = (r && ecopy && strlen(ecopy) == strlen(r) && !strcmp(ecopy, r)) ? 1 : 0;
	free(ecopy);
	*plen = len;
	return copy;
}

static void op_ser(struct json_object *o, int flags)
{
	size_t len;
	int ext;
	char *t = serialize(o, flags, &len, &ext);
	show_text(t, len);
	printf(" ## ext=%d\n", ext);
	free(t);
}

static void op_rt(struct json_object *o, int flags)
{
	size_t len;
	int ext;
	char *t = serialize(o, flags, &len, &ext);
	show_text(t, len);
	if (!t)
	{
		puts(" rt=- end=- eq=- re=- ## -");
		return;
	}
	/* exact-size copy up to the first NUL: what a caller holding a C string passes on */
	size_t sl = strlen(t);
	char *z = (char *)malloc(sl + 1);
	memcpy(z, t, sl + 1);
	struct json_tokener *tok = json_tokener_new_ex(32);
	struct json_object *p = json_tokener_parse_ex(tok, z, -1);
	enum json_tokener_error e = json_tokener_get_error(tok);
	printf(" rt=%d end=%zu", (int)e, json_tokener_get_parse_end(tok));
	if (e == json_tokener_success)
	{
		size_t len2;
		int ext2;
		int eq = json_object_equal(o, p);
		char *t2 = serialize(p, flags, &len2, &ext2);
		int re = t2 && len2 == len && !memcmp(t2, t, len);
		printf(" eq=%d re=%d ## ", eq, re);
		jt_dump(p);
		putchar('\n');
		free(t2);
	}
	else
		puts(" eq=- re=- ## -");
	if (p)
		json_object_put(p);
	json_tokener_free(tok);
	free(z);
	free(t);
}

int main(void)
{
	while (hc_read())
	{
		if (hc_line[0] == '#')
		{
			puts(hc_line);
			fflush(stdout);
			continue;
		}
		hc_split();
		if (NW == 3 && (!strcmp(W[0], "ser") || !strcmp(W[0], "rt")))
		{
			const char *s = W[2];
			struct json_object *o = jt_build(&s);
			if (*s)
				puts("bad-tree");
			else if (W[0][0] == 's')
				op_ser(o, atoi(W[1]));
			else
				op_rt(o, atoi(W[1]));
			if (o)
				json_object_put(o);
		}
		else if (NW == 4 && !strcmp(W[0], "cpd") && strlen(W[3]) == 16)
		{
			const char *s = W[2];
			struct json_object *o = jt_build(&s), *c = NULL;
			uint64_t bits = 0;
			double d;
			for (int i = 0; i < 16; i++)
				bits = bits * 16 + (uint64_t)hexv(W[3][i]);
			memcpy(&d, &bits, 8);
			if (*s || !o || json_object_deep_copy(o, &c, NULL) != 0 || !c || !json_object_set_double(c, d))
				puts("bad-cpd");
			else
				op_ser(c, atoi(W[1]));
			if (c)
				json_object_put(c);
			if (o)
				json_object_put(o);
		}
		else if (NW == 4 && !strcmp(W[0], "sset"))
		{
			size_t n1, n2;
			unsigned char *a = unhex(W[2], &n1);
			unsigned char *b = unhex(W[3], &n2);
			struct json_object *o = json_object_new_string_len((const char *)a, (int)n1);
			int r = json_object_set_string_len(o, (const char *)b, (int)n2);
			free(a);
			free(b);
			if (!o || !r)
				puts("bad-sset");
			else
				op_ser(o, atoi(W[1]));
			if (o)
				json_object_put(o);
		}
		else if (NW == 2 && !strcmp(W[0], "g17") && strlen(W[1]) == 16)
		{
			uint64_t bits = 0, back;
			double d, e;
			char buf[64];
			for (int i = 0; i < 16; i++)
				bits = bits * 16 + (uint64_t)hexv(W[1][i]);
			memcpy(&d, &bits, 8);
			if (d != d || d - d != 0)
				puts("nonfinite");
			else
			{
				int n = snprintf(buf, sizeof(buf), "%.17g", d);
				struct json_object *o = json_object_new_double(d);
				size_t len = 0;
				const char *t = json_object_to_json_string_length(o, 0, &len);
				e = strtod(t, NULL);
				memcpy(&back, &e, 8);
				puthex(buf, (size_t)n);
				putchar(' ');
				puthex(t, len);
				printf(" %016" PRIx64 " ## -\n", back);
				json_object_put(o);
			}
		}
		else
			puts("bad-op");
		fflush(stdout);
	}
	return 0;
}
