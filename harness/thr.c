/* C18 harness (supporting run): the library built with -DENABLE_THREADING, driven by real threads.
 *
 * Two modes in one source:
 *   front (no arguments): the usual line protocol.  Scenario lines are only recorded (answer "ok");
 *     `run tsan|plain` executes the recorded scenario in a FRESH PROCESS (fork + exec of the harness
 *     binary of that build variant, scenario passed in argv) - fresh so that ThreadSanitizer's
 *     report de-duplication and the process-wide static `random_seed` of lh_char_hash start from
 *     scratch in every case, and so that a crash of the library under test is an observable
 *     ("crash ..." result line) instead of the end of the run.  The child's stderr (ThreadSanitizer
 *     reports, glibc abort messages) is stored in $THR_SIDE_DIR/<case id>.<line index>.err, where
 *     tools/props/c18.py parses it.
 *   child (`--child line...`): runs one scenario and prints exactly one result line.
 *
 * Scenario lines
 *   nodes M                        M shared nodes (kinds by index: int / string / object tree)
 *   t TID HELD REPS body.. / tail..   thread TID initially owns HELD (n:h,n:h.. or -) references and runs
 *                                  body REPS times, then tail once.  ops: gN = json_object_get(node N),
 *                                  pN = json_object_put(node N), wN = work on node N that needs exclusive
 *                                  access (serialise + compare, parse back + equal; generator guarantees
 *                                  that only one thread names N), eN = like wN but through an ERROR path
 *                                  of the library (json_object_deep_copy of a node that carries userdata
 *                                  fails in json_object_copy_serializer_data -> _json_c_set_last_err);
 *                                  the last-error buffer must not be shared between threads, see DEFECTS
 *                                  in tools/props/c18.py
 *   main HELD                      references the main thread keeps during the race and drops after join
 *   seed K cands0 cands1 ..        seed race: thread i gets the candidate list cands_i (comma separated)
 *                                  from json_c_get_random_seed; K keys are inserted / looked up
 *   run tsan|plain
 *
 * json_c_get_random_seed is replaced through --wrap (tools/props/c18.py WRAPS).
 */
#define _GNU_SOURCE
#define HC_NO_WATCHDOG /* this harness does its own timing */
#include "hcommon.h"
#include <fcntl.h>
#include <pthread.h>
#include <sched.h>
#include <signal.h>
#include <sys/stat.h>
#include <sys/wait.h>
#include <time.h>
#include <unistd.h>

#include "json.h"
#include "json_object_private.h"
#include <sys/mman.h>
#include <unistd.h>
#include "json_util.h"
#include "json_visit.h"
#include "linkhash.h"

#define MAXN 16   /* threads */
#define MAXM 16   /* nodes */
#define MAXOPS 64

/* ------------------------------------------------------------------ candidate generator (wrapped) */
static __thread const int *tl_cands;
static __thread int tl_ncands;
static __thread int tl_used;
static int gen_calls;              /* total calls (atomic) */
static int gen_entered;            /* threads that reached the generator (atomic) */
static int gen_expected;           /* rendezvous size (0 = none) */

int __wrap_json_c_get_random_seed(void)
{
	__atomic_fetch_add(&gen_calls, 1, __ATOMIC_SEQ_CST);
	if (!tl_cands)
		return 12345;
	if (tl_used == 0 && gen_expected > 0)
	{
		/* json_c_get_random_seed may take arbitrarily long (it reads /dev/urandom): hold every thread
		 * here until all racers have a candidate in hand, or ~20 ms have passed */
		struct timespec t0, t1;
		__atomic_fetch_add(&gen_entered, 1, __ATOMIC_SEQ_CST);
		clock_gettime(CLOCK_MONOTONIC, &t0);
		while (__atomic_load_n(&gen_entered, __ATOMIC_SEQ_CST) < gen_expected)
		{
			clock_gettime(CLOCK_MONOTONIC, &t1);
			if ((t1.tv_sec - t0.tv_sec) * 1000000000L + (t1.tv_nsec - t0.tv_nsec) > 20000000L)
				break;
			sched_yield();
		}
	}
	if (tl_used < tl_ncands)
		return tl_cands[tl_used++];
	return 777 + tl_used++; /* list exhausted: never -1 */
}

/* ------------------------------------------------------------------ scenario */
struct prog
{
	int present;
	int held[MAXM];
	long reps;
	int nbody, ntail;
	char bop[MAXOPS], top[MAXOPS];
	int bn[MAXOPS], tn[MAXOPS];
};
static int M, N;
static struct prog P[MAXN];
static int main_held[MAXM];
static int is_seed, seedK, seedN;
static int cands[MAXN][8], ncands[MAXN];

static int parse_held(const char *s, int *held)
{
	if (!strcmp(s, "-"))
		return 1;
	while (*s)
	{
		char *e;
		long n = strtol(s, &e, 10);
		if (e == s || *e != ':' || n < 0 || n >= MAXM)
			return 0;
		s = e + 1;
		long h = strtol(s, &e, 10);
		if (e == s || h < 0 || h > 100000)
			return 0;
		held[n] += (int)h;
		s = e;
		if (*s == ',')
			s++;
		else if (*s)
			return 0;
	}
	return 1;
}

static int parse_op(const char *w, char *op, int *n)
{
	char *e;
	if (w[0] != 'g' && w[0] != 'p' && w[0] != 'w' && w[0] != 'e' && w[0] != 'u')
		return 0;
	long v = strtol(w + 1, &e, 10);
	if (e == w + 1 || *e || v < 0 || v >= MAXM)
		return 0;
	*op = w[0];
	*n = (int)v;
	return 1;
}

/* parse one scenario line (already split into W/NW); 1 = accepted */
static int scen_line(void)
{
	if (NW == 2 && !strcmp(W[0], "nodes"))
	{
		M = atoi(W[1]);
		return M >= 1 && M <= MAXM;
	}
	if (NW == 2 && !strcmp(W[0], "main"))
		return parse_held(W[1], main_held);
	if (NW >= 4 && !strcmp(W[0], "t"))
	{
		int tid = atoi(W[1]);
		if (tid < 0 || tid >= MAXN || P[tid].present)
			return 0;
		struct prog *p = &P[tid];
		p->present = 1;
		if (!parse_held(W[2], p->held))
			return 0;
		p->reps = atol(W[3]);
		if (p->reps < 0 || p->reps > 10000000)
			return 0;
		int tail = 0;
		for (int i = 4; i < NW; i++)
		{
			if (!strcmp(W[i], "/"))
			{
				tail = 1;
				continue;
			}
			if (!tail)
			{
				if (p->nbody >= MAXOPS || !parse_op(W[i], &p->bop[p->nbody], &p->bn[p->nbody]))
					return 0;
				p->nbody++;
			}
			else
			{
				if (p->ntail >= MAXOPS || !parse_op(W[i], &p->top[p->ntail], &p->tn[p->ntail]))
					return 0;
				p->ntail++;
			}
		}
		if (tid + 1 > N)
			N = tid + 1;
		return 1;
	}
	if (NW >= 3 && !strcmp(W[0], "seed"))
	{
		is_seed = 1;
		seedK = atoi(W[1]);
		if (seedK < 1 || seedK > 64)
			return 0;
		seedN = NW - 2;
		if (seedN > MAXN)
			return 0;
		for (int i = 0; i < seedN; i++)
		{
			const char *s = W[2 + i];
			ncands[i] = 0;
			while (*s && ncands[i] < 8)
			{
				char *e;
				long v = strtol(s, &e, 10);
				if (e == s)
					return 0;
				cands[i][ncands[i]++] = (int)v;
				s = (*e == ',') ? e + 1 : e;
				if (*e && *e != ',')
					return 0;
			}
			if (ncands[i] == 0)
				return 0;
		}
		return 1;
	}
	return 0;
}

/* ------------------------------------------------------------------ spin barrier */
static int bar_count;
static int bar_gen;
static int bar_n;
static void barrier(void)
{
	int g = __atomic_load_n(&bar_gen, __ATOMIC_SEQ_CST);
	if (__atomic_add_fetch(&bar_count, 1, __ATOMIC_SEQ_CST) == bar_n)
	{
		__atomic_store_n(&bar_count, 0, __ATOMIC_SEQ_CST);
		__atomic_add_fetch(&bar_gen, 1, __ATOMIC_SEQ_CST);
	}
	else
	{
		long spins = 0;
		while (__atomic_load_n(&bar_gen, __ATOMIC_SEQ_CST) == g)
			if (++spins > 2000)
				sched_yield();
	}
}

/* ------------------------------------------------------------------ refcount scenario */
static struct json_object *node[MAXM];
static char *expect[MAXM];
static int destroyed[MAXM]; /* delete-callback invocations (atomic) */
static int ret1[MAXM];      /* json_object_put calls that returned 1 (atomic) */
static int xfail;           /* failed exclusive-work checks (atomic) */

static void del_cb(struct json_object *jso, void *ud)
{
	(void)jso;
	__atomic_fetch_add((int *)ud, 1, __ATOMIC_SEQ_CST);
}

static struct json_object *mk_node(int i)
{
	char buf[64];
	switch (i % 3)
	{
	case 0: return json_object_new_int64(1000 + i);
	case 1: snprintf(buf, sizeof buf, "string node %d with some text", i); return json_object_new_string(buf);
	default:
	{
		struct json_object *o = json_object_new_object();
		struct json_object *a = json_object_new_array();
		json_object_array_add(a, json_object_new_string("x"));
		json_object_array_add(a, json_object_new_double(1.5));
		json_object_array_add(a, NULL);
		json_object_object_add(o, "id", json_object_new_int(i));
		json_object_object_add(o, "arr", a);
		json_object_object_add(o, "t", json_object_new_boolean(1));
		return o;
	}
	}
}

static int count_cb(json_object *jso, int flags, json_object *parent, const char *key, size_t *index, void *arg)
{
	(void)jso; (void)flags; (void)parent; (void)key; (void)index;
	++*(int *)arg;
	return JSON_C_VISIT_RETURN_CONTINUE;
}

static void do_op(char op, int n)
{
	struct json_object *o = node[n];
	if (op == 'g')
		json_object_get(o);
	else if (op == 'p')
	{
		if (json_object_put(o) == 1)
			__atomic_fetch_add(&ret1[n], 1, __ATOMIC_SEQ_CST);
	}
	else if (op == 'u')
	{
		/* one owner (re)installs the delete callback while other owners acquire / release: whoever releases last
		 * - after this owner's own release - must see it (json_object_put reads the callback only once it is last) */
		json_object_set_userdata(o, &destroyed[n], del_cb);
		/* set_userdata ran the callback it replaced (documented): that was not a destruction */
		__atomic_fetch_sub(&destroyed[n], 1, __ATOMIC_SEQ_CST);
	}
	else if (op == 'e')
	{
		/* error path on a private node: the copy must fail (unknown serializer data) and leave nothing behind */
		struct json_object *c = NULL;
		if (json_object_deep_copy(o, &c, NULL) != -1 || c != NULL)
			__atomic_fetch_add(&xfail, 1, __ATOMIC_SEQ_CST);
	}
	else
	{
		/* exclusive work: serialise (writes the node's cached printbuf), parse the text back into a
		 * private tree (objects: hashing, allocation), compare, release */
		const char *s = json_object_to_json_string_ext(o, JSON_C_TO_STRING_PLAIN);
		int bad = (!s || strcmp(s, expect[n]) != 0);
		struct json_object *c = s ? json_tokener_parse(s) : NULL;
		if (!c || !json_object_equal(o, c))
			bad = 1;
		if (c && json_object_put(c) != 1)
			bad = 1;
		/* ... and through a private descriptor: write the tree out, read it back (json_util.c: the read loop, its
		 * buffer, the last-error text are per call / per thread, never shared between threads on disjoint trees) */
		/* (containers only: a bare number at top level is not complete before end of input) */
		int fd = (json_object_is_type(o, json_type_object) || json_object_is_type(o, json_type_array)) ? memfd_create("thr", 0) : -1;
		if (fd >= 0)
		{
			if (json_object_to_fd(fd, o, JSON_C_TO_STRING_PLAIN) != 0 || lseek(fd, 0, SEEK_SET) != 0)
				bad = 1;
			struct json_object *c2 = json_object_from_fd(fd);
			if (!c2 || !json_object_equal(o, c2))
				bad = 1;
			if (c2 && json_object_put(c2) != 1)
				bad = 1;
			close(fd);
			/* a file that cannot be opened: NULL, and this thread's own message */
			if (json_object_from_file("/nonexistent/thr.json") != NULL || !json_util_get_last_err() ||
			    !strstr(json_util_get_last_err(), "/nonexistent/thr.json"))
				bad = 1;
		}
		/* ... and a walk over the private tree (json_visit.c keeps no state between calls or between threads) */
		int seen = 0;
		if (json_c_visit(o, 0, count_cb, &seen) != 0 || seen < 1)
			bad = 1;
		if (bad)
			__atomic_fetch_add(&xfail, 1, __ATOMIC_SEQ_CST);
	}
}

static void *rc_thread(void *arg)
{
	struct prog *p = (struct prog *)arg;
	barrier();
	for (long r = 0; r < p->reps; r++)
		for (int i = 0; i < p->nbody; i++)
			do_op(p->bop[i], p->bn[i]);
	for (int i = 0; i < p->ntail; i++)
		do_op(p->top[i], p->tn[i]);
	return NULL;
}

static int run_rc(void)
{
	pthread_t th[MAXN];
	long total[MAXM];
	for (int n = 0; n < M; n++)
	{
		total[n] = main_held[n];
		for (int t = 0; t < N; t++)
			total[n] += P[t].held[n];
		if (total[n] < 1)
		{
			puts("bad-scenario node-without-owner");
			return 0;
		}
	}
	for (int t = 0; t < N; t++)
		if (!P[t].present)
		{
			puts("bad-scenario thread-ids-not-contiguous");
			return 0;
		}
	for (int n = 0; n < M; n++)
	{
		node[n] = mk_node(n);
		expect[n] = strdup(json_object_to_json_string_ext(node[n], JSON_C_TO_STRING_PLAIN));
		json_object_set_userdata(node[n], &destroyed[n], del_cb);
		for (long k = 1; k < total[n]; k++)
			json_object_get(node[n]);
	}
	bar_n = N;
	for (int t = 0; t < N; t++)
		pthread_create(&th[t], NULL, rc_thread, &P[t]);
	for (int t = 0; t < N; t++)
		pthread_join(th[t], NULL);

	char out[4096];
	int len = snprintf(out, sizeof out, "rc");
	long after[MAXM];
	int d1[MAXM], r1[MAXM];
	for (int n = 0; n < M; n++)
	{
		d1[n] = __atomic_load_n(&destroyed[n], __ATOMIC_SEQ_CST);
		r1[n] = __atomic_load_n(&ret1[n], __ATOMIC_SEQ_CST);
		after[n] = d1[n] ? -1 : (long)node[n]->_ref_count;
	}
	/* the main thread drops what it kept */
	int D[MAXM];
	for (int n = 0; n < M; n++)
	{
		for (int k = 0; k < main_held[n]; k++)
			if (!__atomic_load_n(&destroyed[n], __ATOMIC_SEQ_CST))
				json_object_put(node[n]);
		D[n] = __atomic_load_n(&destroyed[n], __ATOMIC_SEQ_CST);
	}
	/* references the thread programs never released: released here, so that every node is destroyed */
	for (int n = 0; n < M; n++)
	{
		if (!__atomic_load_n(&destroyed[n], __ATOMIC_SEQ_CST))
		{
			long left = (long)node[n]->_ref_count;
			for (long k = 0; k < left && !__atomic_load_n(&destroyed[n], __ATOMIC_SEQ_CST); k++)
				json_object_put(node[n]);
		}
		int E = __atomic_load_n(&destroyed[n], __ATOMIC_SEQ_CST);
		if (after[n] < 0)
			len += snprintf(out + len, sizeof out - len, " n%d:c=-,d=%d,r=%d,D=%d,E=%d", n, d1[n], r1[n], D[n], E);
		else
			len += snprintf(out + len, sizeof out - len, " n%d:c=%ld,d=%d,r=%d,D=%d,E=%d", n, after[n], d1[n], r1[n], D[n], E);
	}
	snprintf(out + len, sizeof out - len, " x=%d", __atomic_load_n(&xfail, __ATOMIC_SEQ_CST));
	puts(out);
	return 0;
}

/* ------------------------------------------------------------------ seed scenario */
static unsigned long h_early[MAXN], h_late[MAXN];
static int notfound[MAXN];
static int used_by[MAXN];
static char keys[64][24];

static int lookups(struct json_object *obj)
{
	int bad = 0;
	for (int k = 0; k < seedK; k++)
	{
		struct json_object *v = NULL;
		if (!json_object_object_get_ex(obj, keys[k], &v) || !v || json_object_get_int(v) != k)
			bad++;
	}
	return bad;
}

static void *seed_thread(void *arg)
{
	int t = (int)(long)arg;
	tl_cands = cands[t];
	tl_ncands = ncands[t];
	tl_used = 0;
	barrier();
	/* first object of this thread: the first insertion computes the first hash */
	struct json_object *obj = json_object_new_object();
	/* even threads: the very first hash of the process is observed directly; odd threads: it is the
	 * hash under which the first member is filed (a later lookup must find it) */
	if (t % 2 == 0)
		h_early[t] = lh_get_hash(json_object_get_object(obj), keys[0]);
	for (int k = 0; k < seedK; k++)
		json_object_object_add(obj, keys[k], json_object_new_int(k));
	if (t % 2 != 0)
		h_early[t] = lh_get_hash(json_object_get_object(obj), keys[0]);
	notfound[t] = lookups(obj);
	barrier();
	h_late[t] = lh_get_hash(json_object_get_object(obj), keys[0]);
	notfound[t] += lookups(obj);
	/* a second object, built by the parser, long after the race */
	{
		char txt[2048];
		int l = snprintf(txt, sizeof txt, "{");
		for (int k = 0; k < seedK; k++)
			l += snprintf(txt + l, sizeof txt - l, "%s\"%s\":%d", k ? "," : "", keys[k], k);
		snprintf(txt + l, sizeof txt - l, "}");
		struct json_object *o2 = json_tokener_parse(txt);
		if (!o2)
			notfound[t] += seedK;
		else
		{
			notfound[t] += lookups(o2);
			if (!json_object_equal(obj, o2))
				notfound[t]++;
			json_object_put(o2);
		}
	}
	json_object_put(obj);
	used_by[t] = tl_used;
	return NULL;
}

static int run_seed(void)
{
	pthread_t th[MAXN];
	for (int k = 0; k < seedK; k++)
		snprintf(keys[k], sizeof keys[k], "key-%d-%c", k, 'a' + (k * 7) % 26);
	bar_n = seedN;
	gen_expected = seedN;
	for (int t = 0; t < seedN; t++)
		pthread_create(&th[t], NULL, seed_thread, (void *)(long)t);
	for (int t = 0; t < seedN; t++)
		pthread_join(th[t], NULL);
	/* the main thread, afterwards */
	struct lh_table *tb = lh_kchar_table_new(16, NULL);
	unsigned long hm = lh_get_hash(tb, keys[0]);
	lh_table_free(tb);
	/* "at every later time": selecting the other string hash and the default one again (no other thread is running)
	 * does not touch the seed - tables built before still find their keys */
	json_global_set_string_hash(JSON_C_STR_HASH_PERLLIKE);
	json_global_set_string_hash(JSON_C_STR_HASH_DFLT);
	tb = lh_kchar_table_new(16, NULL);
	unsigned long hm2 = lh_get_hash(tb, keys[0]);
	lh_table_free(tb);
	int agree = hm2 == hm, nf = 0, genok = 1, consumers = 0;
	for (int t = 0; t < seedN; t++)
	{
		if (h_early[t] != hm || h_late[t] != hm)
			agree = 0;
		nf += notfound[t];
		/* a thread either never generated, or consumed its candidates up to the first one != -1 */
		int pre = 0;
		while (pre < ncands[t] && cands[t][pre] == -1)
			pre++;
		pre++;
		if (used_by[t] != 0 && used_by[t] != pre)
			genok = 0;
		if (used_by[t])
			consumers++;
	}
	if (consumers < 1)
		genok = 0;
	printf("seed agree=%d notfound=%d gen=%s\n", agree, nf, genok ? "ok" : "bad");
	return 0;
}

/* ------------------------------------------------------------------ child / front */
static int child_main(int argc, char **argv)
{
	for (int i = 2; i < argc; i++)
	{
		free(hc_line);
		hc_line = strdup(argv[i]);
		hc_cap = strlen(hc_line) + 1;
		hc_split();
		if (!scen_line())
		{
			printf("bad-scenario %s\n", argv[i]);
			return 0;
		}
	}
	if (is_seed)
		return run_seed();
	if (M < 1 || N < 1)
	{
		puts("bad-scenario empty");
		return 0;
	}
	return run_rc();
}

#define MAXLINES 64
static char *scen[MAXLINES];
static int nscen;
static char caseid[256] = "none";
static int lineidx;

static void reset_case(void)
{
	for (int i = 0; i < nscen; i++)
		free(scen[i]);
	nscen = 0;
	lineidx = 0;
}

static void run_child(const char *variant)
{
	const char *bin = NULL;
	if (!strcmp(variant, "tsan"))
		bin = getenv("THR_BIN_TSAN");
	else if (!strcmp(variant, "plain"))
		bin = getenv("THR_BIN_PLAIN");
	if (!bin || !*bin)
	{
		printf("no-binary %s\n", variant);
		return;
	}
	char errpath[1024];
	const char *side = getenv("THR_SIDE_DIR");
	char cid[256];
	size_t j = 0;
	for (const char *p = caseid; *p && j + 1 < sizeof cid; p++)
		cid[j++] = (*p == '/' || *p == ' ') ? '_' : *p;
	cid[j] = 0;
	if (side && *side)
		snprintf(errpath, sizeof errpath, "%s/%s.%d.err", side, cid, lineidx);
	else
		snprintf(errpath, sizeof errpath, "/dev/null");
	int pfd[2];
	if (pipe(pfd) != 0)
	{
		puts("front-error pipe");
		return;
	}
	fflush(stdout);
	pid_t pid = fork();
	if (pid == 0)
	{
		char *av[MAXLINES + 4];
		int ac = 0;
		av[ac++] = (char *)bin;
		av[ac++] = (char *)"--child";
		for (int i = 0; i < nscen; i++)
			av[ac++] = scen[i];
		av[ac] = NULL;
		int efd = open(errpath, O_WRONLY | O_CREAT | O_TRUNC, 0644);
		close(pfd[0]);
		dup2(pfd[1], 1);
		if (efd >= 0)
			dup2(efd, 2);
		alarm(120);
		execv(bin, av);
		_exit(127);
	}
	close(pfd[1]);
	char buf[8192];
	size_t got = 0;
	for (;;)
	{
		ssize_t r = read(pfd[0], buf + got, sizeof buf - 1 - got);
		if (r <= 0)
			break;
		got += (size_t)r;
		if (got >= sizeof buf - 1)
			break;
	}
	close(pfd[0]);
	buf[got] = 0;
	int st = 0;
	waitpid(pid, &st, 0);
	char *nl = strchr(buf, '\n');
	if (nl)
		*nl = 0;
	if (WIFEXITED(st) && WEXITSTATUS(st) == 0 && buf[0])
		puts(buf);
	else if (WIFSIGNALED(st))
		printf("crash signal=%d\n", WTERMSIG(st));
	else
		printf("crash exit=%d\n", WIFEXITED(st) ? WEXITSTATUS(st) : -1);
}

int main(int argc, char **argv)
{
	setvbuf(stdout, NULL, _IOLBF, 0);
	if (argc >= 2 && !strcmp(argv[1], "--child"))
		return child_main(argc, argv);
	while (hc_read())
	{
		if (hc_line[0] == '#')
		{
			puts(hc_line);
			reset_case();
			snprintf(caseid, sizeof caseid, "%s", hc_line + (hc_line[1] == ' ' ? 2 : 1));
			continue;
		}
		char *copy = strdup(hc_line);
		hc_split();
		if (NW == 2 && !strcmp(W[0], "run"))
		{
			run_child(W[1]);
			free(copy);
		}
		else if (nscen < MAXLINES && NW > 0)
		{
			scen[nscen++] = copy;
			puts("ok");
		}
		else
		{
			free(copy);
			puts("bad-op");
		}
		lineidx++;
		fflush(stdout);
	}
	return 0;
}
