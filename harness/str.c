/* C11 harness: drives the string node of json_object.c of the current working tree.
 * Linked with -Wl,--wrap=malloc,--wrap=free: allocator calls made by the library while the
 * "window" is open are counted (sizes of successful mallocs, failed mallocs, frees of blocks
 * allocated inside a window) and the next malloc can be made to fail on request. */
#include "hcommon.h"
#include "json.h"
#include "json_object_private.h"

extern void *__real_malloc(size_t);
extern void __real_free(void *);

#define MAXREC 64
static int win, fail_next;
static size_t msz[MAXREC];
static int nm, nmf, nf;
/* blocks allocated inside a window and not yet freed; stored masked so that LeakSanitizer does not
 * take this table for a reference that keeps a leaked block reachable */
#define MASK ((uintptr_t)0x5a5a5a5a5a5a5a5aULL)
static uintptr_t livep[MAXREC];
static int nlive;

void *__wrap_malloc(size_t n)
{
	void *p;
	if (!win)
		return __real_malloc(n);
	if (fail_next)
	{
		fail_next = 0;
		nmf++;
		return NULL;
	}
	p = __real_malloc(n);
	if (p)
	{
		if (nm < MAXREC)
			msz[nm] = n;
		nm++;
		if (nlive < MAXREC)
			livep[nlive++] = (uintptr_t)p ^ MASK;
	}
	return p;
}

void __wrap_free(void *p)
{
	int i;
	for (i = 0; p && i < nlive; i++)
		if (livep[i] == ((uintptr_t)p ^ MASK))
		{
			livep[i] = livep[--nlive];
			nf++; /* only blocks allocated inside a window are the model's business */
			break;
		}
	__real_free(p);
}

static void open_window(int fail)
{
	nm = nmf = nf = 0;
	fail_next = fail;
	win = 1;
}
static void close_window(void)
{
	win = 0;
	fail_next = 0;
}

static struct json_object *o;

static int validhex(const char *s)
{
	size_t i, n = strlen(s);
	if (!strcmp(s, "-"))
		return 1;
	if (n == 0 || n % 2)
		return 0;
	for (i = 0; i < n; i++)
		if (hexv(s[i]) < 0)
			return 0;
	return 1;
}

static int validint(const char *s)
{
	size_t i = (s[0] == '-') ? 1 : 0;
	if (!s[i] || strlen(s) > 11)
		return 0;
	for (; s[i]; i++)
		if (s[i] < '0' || s[i] > '9')
			return 0;
	return 1;
}

static char rep_of(struct json_object *j)
{
	if (!j)
		return '-';
	return ((struct json_object_string *)j)->len < 0 ? 'p' : 'i';
}

static void put_internals(struct json_object *j)
{
	int i;
	printf(" ## rep=%c m=", rep_of(j));
	if (nm == 0)
		putchar('-');
	for (i = 0; i < nm && i < MAXREC; i++)
		printf("%s%zu", i ? "+" : "", msz[i]);
	printf(" mf=%d f=%d live=%d\n", nmf, nf, nlive);
}

/* what a caller reads through json_object_get_string / json_object_get_string_len */
static void put_view(struct json_object *j)
{
	int len = json_object_get_string_len(j);
	const char *p = json_object_get_string(j);
	printf("%d ", len);
	if (len < 0)
		printf("- nul=-");
	else
	{
		puthex(p, (size_t)len);
		printf(" nul=%02x", (unsigned char)p[len]);
	}
	printf(" strlen=%zu", strlen(p));
}

/* inverse of json_escape_str on the text between the quotes */
static void put_payload(const char *t, size_t n)
{
	unsigned char *out = (unsigned char *)malloc(n + 1);
	size_t k = 0, i;
	if (n < 2 || t[0] != '"' || t[n - 1] != '"')
	{
		printf("payload malformed");
		free(out);
		return;
	}
	for (i = 1; i + 1 < n; i++)
	{
		unsigned char c = (unsigned char)t[i];
		if (c != '\\')
		{
			out[k++] = c;
			continue;
		}
		i++;
		switch (t[i])
		{
		case 'b': out[k++] = '\b'; break;
		case 'n': out[k++] = '\n'; break;
		case 'r': out[k++] = '\r'; break;
		case 't': out[k++] = '\t'; break;
		case 'f': out[k++] = '\f'; break;
		case '"': out[k++] = '"'; break;
		case '\\': out[k++] = '\\'; break;
		case '/': out[k++] = '/'; break;
		case 'u':
			out[k++] = (unsigned char)(hexv(t[i + 3]) * 16 + hexv(t[i + 4]));
			i += 4;
			break;
		default: out[k++] = '?'; break;
		}
	}
	printf("payload %zu ", k);
	puthex(out, k);
	free(out);
}

int main(void)
{
	while (hc_read())
	{
		const char *op;
		if (hc_line[0] == '#')
		{
			puts(hc_line);
			if (o)
				json_object_put(o);
			o = NULL;
			nlive = 0;
			continue;
		}
		hc_split();
		if (NW == 0)
		{
			puts("bad-op");
			continue;
		}
		op = W[0];
		{
			static const char *names[] = {"new", "newfail", "newz", "newzfail", "newn", "set", "setfail", "setz", "setzfail",
			                              "setn", "get", "eq", "eqv", "copy", "copyfail", "ser", "del", NULL};
			static const int arity[] = {2, 2, 2, 2, 2, 2, 2, 2, 2, 2, 1, 2, 3, 1, 1, 1, 1};
			int k, okop = 0;
			for (k = 0; names[k]; k++)
				if (!strcmp(op, names[k]) && NW == arity[k])
					okop = 1;
			for (k = 1; okop && k < NW; k++)
				okop = (!strcmp(op, "newn") || !strcmp(op, "setn")) ? validint(W[k]) : validhex(W[k]);
			if (!okop)
			{
				puts("bad-op");
				continue;
			}
		}
		if ((!strcmp(op, "new") || !strcmp(op, "newfail") || !strcmp(op, "newz") || !strcmp(op, "newzfail")) && NW == 2)
		{
			size_t n;
			int z = op[3] == 'z';
			int fail = op[strlen(op) - 1] == 'l';
			if (o)
			{
				puts("busy ## -");
				continue;
			}
			if (z)
			{
				char *s = unhexz(W[1], &n);
				open_window(fail);
				o = json_object_new_string(s);
				close_window();
				free(s);
			}
			else
			{
				unsigned char *d = unhex(W[1], &n);
				open_window(fail);
				o = json_object_new_string_len((const char *)d, (int)n);
				close_window();
				free(d);
			}
			if (o)
			{
				printf("made 1 ");
				put_view(o);
			}
			else
				printf("made 0");
			put_internals(o);
		}
		else if (!strcmp(op, "newn") && NW == 2)
		{
			char *src;
			if (o)
			{
				puts("busy ## -");
				continue;
			}
			src = (char *)calloc(8, 1);
			open_window(0);
			o = json_object_new_string_len(src, atoi(W[1]));
			close_window();
			free(src);
			if (o)
			{
				printf("made 1 ");
				put_view(o);
			}
			else
				printf("made 0");
			put_internals(o);
		}
		else if (!o)
		{
			/* the documented behaviour on a NULL object: nothing happens */
			int ok = json_object_set_string_len(NULL, "x", 1) == 0 && json_object_set_string(NULL, "x") == 0 &&
			         json_object_get_string_len(NULL) == 0 && json_object_get_string(NULL) == NULL &&
			         json_object_put(NULL) == 0;
			puts(ok ? "no-node ## -" : "no-node-BAD ## -");
		}
		else if ((!strcmp(op, "set") || !strcmp(op, "setfail")) && NW == 2)
		{
			size_t n;
			unsigned char *d = unhex(W[1], &n);
			int r;
			open_window(op[3] == 'f');
			r = json_object_set_string_len(o, (const char *)d, (int)n);
			close_window();
			free(d);
			printf("did %d ", r);
			put_view(o);
			put_internals(o);
		}
		else if ((!strcmp(op, "setz") || !strcmp(op, "setzfail")) && NW == 2)
		{
			char *s = unhexz(W[1], NULL);
			int r;
			open_window(op[4] == 'f');
			r = json_object_set_string(o, s);
			close_window();
			free(s);
			printf("did %d ", r);
			put_view(o);
			put_internals(o);
		}
		else if (!strcmp(op, "setn") && NW == 2)
		{
			char *src = (char *)calloc(8, 1);
			int r;
			open_window(0);
			r = json_object_set_string_len(o, src, atoi(W[1]));
			close_window();
			free(src);
			printf("did %d ", r);
			put_view(o);
			put_internals(o);
		}
		else if (!strcmp(op, "get") && NW == 1)
		{
			open_window(0);
			close_window();
			printf("saw ");
			put_view(o);
			put_internals(o);
		}
		else if ((!strcmp(op, "eq") && NW == 2) || (!strcmp(op, "eqv") && NW == 3))
		{
			size_t n, n2 = 0;
			unsigned char *d = unhex(W[1], &n);
			unsigned char *d2 = NW == 3 ? unhex(W[2], &n2) : NULL;
			struct json_object *f;
			int ab, ba;
			open_window(0);
			f = json_object_new_string_len((const char *)d, (int)n);
			if (d2)
				json_object_set_string_len(f, (const char *)d2, (int)n2);
			ab = json_object_equal(o, f);
			ba = json_object_equal(f, o);
			json_object_put(f);
			close_window();
			free(d);
			free(d2);
			printf("cmp %d %d", ab, ba);
			put_internals(o);
		}
		else if ((!strcmp(op, "copy") || !strcmp(op, "copyfail")) && NW == 1)
		{
			struct json_object *c = NULL;
			int rc;
			open_window(op[4] == 'f');
			rc = json_object_deep_copy(o, &c, NULL);
			if (rc < 0 || !c)
				printf("copied -1");
			else
			{
				int ab, ba;
				printf("copied %d ", rc);
				put_view(c);
				ab = json_object_equal(o, c);
				ba = json_object_equal(c, o);
				printf(" %d %d", ab, ba);
				json_object_put(c);
			}
			close_window();
			put_internals(o);
		}
		else if (!strcmp(op, "ser") && NW == 1)
		{
			size_t n = 0;
			const char *t = json_object_to_json_string_length(o, JSON_C_TO_STRING_PLAIN, &n);
			if (!t)
				printf("payload failed");
			else
				put_payload(t, n);
			puts(" ## -");
		}
		else if (!strcmp(op, "del") && NW == 1)
		{
			open_window(0);
			json_object_put(o);
			close_window();
			o = NULL;
			printf("deleted");
			put_internals(o);
		}
		else
			puts("bad-op");
		fflush(stdout);
	}
	if (o)
		json_object_put(o);
	return 0;
}
