/* C08 harness: allocation-failure injection over json-c operations of the current working tree.
 *
 * The allocator entry points the library uses (malloc, calloc, realloc, free, strdup, vasprintf) are
 * interposed at link time (-Wl,--wrap=...; tools/props/c08.py WRAPS).  Every block handed out is
 * tracked (pointer -> id, size), so that leaks are counted and the request trace can name blocks.
 *
 * One op line = one workload run under one fault specification:
 *     <workload> <args...> <k1> <k2>
 * The line (1) builds its inputs with the allocator untouched, (2) where the verdict needs it, runs
 * the operation once fault-free on a second copy of the inputs to obtain the reference result,
 * (3) opens the *window*: allocator calls are numbered 1, 2, .. and call k1 (and k2) fails (0 = none),
 * runs the operation, closes the window, (4) inspects the result, releases everything the caller owns
 * and compares the number of live blocks with the number at the start of the line.
 *
 * Output:  <result> leak=<blocks> same=<1|0|-> ## n=<calls in window> err=<errno class|-> trace=<..>
 *   result   workload specific (return value / error status, observable sizes); WRONG(..) when the
 *            operation reported success but the result differs from the fault-free one, TRUNC when
 *            a serializer returned a text other than the fault-free text
 *   leak     live blocks after cleanup minus live blocks at the start of the line
 *   same     caller-owned trees dump identically before and after a failed operation (after a
 *            successful one: the result dumps like the fault-free result)
 *   trace    (modelled workloads only) the allocator calls of the window: m<size> malloc, c<bytes>
 *            calloc, s<bytes> strdup, r<ref>:<size> realloc, f<ref> free; a failed call ends in '!';
 *            <ref> = number of the window call that created the block, or P<size> for a block that
 *            existed before the window
 * `count <workload> <args...>` prints only the number of calls of the fault-free run (used by the
 * generator to enumerate k = 1..N).
 */
#define _GNU_SOURCE
#include <stdarg.h>
#include <stdio.h>
static FILE *jt_out;
#define printf(...) fprintf(jt_out, __VA_ARGS__)
#define putchar(c) fputc((c), jt_out)
#include "jtree.h"
#undef printf
#undef putchar
#include "arraylist.h"
#include "json_patch.h"
#include "json_pointer.h"
#include "linkhash.h"
#include "printbuf.h"

/* ------------------------------------------------------------------ interposed allocator */
void *__real_malloc(size_t);
void *__real_calloc(size_t, size_t);
void *__real_realloc(void *, size_t);
void __real_free(void *);
char *__real_strdup(const char *);
int __real_vasprintf(char **, const char *, va_list);

struct trk
{
	void *p;       /* NULL = empty, (void*)1 = tombstone */
	long id;       /* window call number, 0 = allocated outside a window */
	size_t size;
};
#define TRK_CAP (1u << 16)
static struct trk trk[TRK_CAP];
static unsigned trk_used; /* live + tombstones */
static long fi_live;      /* tracked live blocks */
static int fi_window;
static long fi_calls, fi_k1, fi_k2;
static int fi_tracing;
static char *fi_trace;
static size_t fi_tlen, fi_tcap;
static long fi_badfree; /* free/realloc of a pointer that is not live (only counted for window blocks) */

static unsigned trk_hash(void *p)
{
	uintptr_t x = (uintptr_t)p;
	x ^= x >> 17;
	x *= 0x9E3779B97F4A7C15ull;
	return (unsigned)(x >> 40) & (TRK_CAP - 1);
}

static void trk_rebuild(void)
{
	static struct trk tmp[TRK_CAP];
	unsigned n = 0;
	for (unsigned i = 0; i < TRK_CAP; i++)
		if (trk[i].p && trk[i].p != (void *)1)
			tmp[n++] = trk[i];
	memset(trk, 0, sizeof(trk));
	trk_used = 0;
	for (unsigned i = 0; i < n; i++)
	{
		unsigned h = trk_hash(tmp[i].p);
		while (trk[h].p)
			h = (h + 1) & (TRK_CAP - 1);
		trk[h] = tmp[i];
		trk_used++;
	}
}

static void trk_add(void *p, long id, size_t size)
{
	if (trk_used > TRK_CAP / 2)
		trk_rebuild();
	if (trk_used > TRK_CAP / 2)
	{
		fprintf(stderr, "alloc harness: tracking table full\n");
		abort();
	}
	unsigned h = trk_hash(p);
	while (trk[h].p && trk[h].p != (void *)1)
		h = (h + 1) & (TRK_CAP - 1);
	if (!trk[h].p)
		trk_used++;
	trk[h].p = p;
	trk[h].id = id;
	trk[h].size = size;
	fi_live++;
}

static struct trk *trk_find(void *p)
{
	unsigned h = trk_hash(p);
	while (trk[h].p)
	{
		if (trk[h].p == p)
			return &trk[h];
		h = (h + 1) & (TRK_CAP - 1);
	}
	return NULL;
}

static void tr_put(const char *fmt, ...)
{
	if (!fi_tracing)
		return;
	char tmp[96];
	va_list ap;
	va_start(ap, fmt);
	int n = vsnprintf(tmp, sizeof tmp, fmt, ap);
	va_end(ap);
	if (fi_tlen + (size_t)n + 2 > fi_tcap)
	{
		fi_tcap = fi_tcap ? fi_tcap * 2 : 4096;
		fi_trace = (char *)__real_realloc(fi_trace, fi_tcap);
	}
	if (fi_tlen)
		fi_trace[fi_tlen++] = ',';
	memcpy(fi_trace + fi_tlen, tmp, (size_t)n + 1);
	fi_tlen += (size_t)n;
}

static void tr_ref(char *out, size_t cap, struct trk *t)
{
	if (t && t->id)
		snprintf(out, cap, "%ld", t->id);
	else if (t)
		snprintf(out, cap, "P%zu", t->size);
	else
		snprintf(out, cap, "?");
}

/* 1 = this call must fail */
static int fi_tick(void)
{
	if (!fi_window)
		return 0;
	fi_calls++;
	return fi_calls == fi_k1 || fi_calls == fi_k2;
}

void *__wrap_malloc(size_t n)
{
	if (fi_tick())
	{
		tr_put("m%zu!", n);
		errno = ENOMEM;
		return NULL;
	}
	void *p = __real_malloc(n);
	if (p)
		trk_add(p, fi_window ? fi_calls : 0, n);
	if (fi_window)
		tr_put("m%zu", n);
	return p;
}

void *__wrap_calloc(size_t a, size_t b)
{
	if (fi_tick())
	{
		tr_put("c%zu!", a * b);
		errno = ENOMEM;
		return NULL;
	}
	void *p = __real_calloc(a, b);
	if (p)
		trk_add(p, fi_window ? fi_calls : 0, a * b);
	if (fi_window)
		tr_put("c%zu", a * b);
	return p;
}

char *__wrap_strdup(const char *s)
{
	size_t n = strlen(s) + 1;
	if (fi_tick())
	{
		tr_put("s%zu!", n);
		errno = ENOMEM;
		return NULL;
	}
	char *p = __real_strdup(s);
	if (p)
		trk_add(p, fi_window ? fi_calls : 0, n);
	if (fi_window)
		tr_put("s%zu", n);
	return p;
}

int __wrap_vasprintf(char **out, const char *fmt, va_list ap)
{
	if (fi_tick())
	{
		tr_put("v!");
		errno = ENOMEM;
		*out = NULL;
		return -1;
	}
	int r = __real_vasprintf(out, fmt, ap);
	if (r >= 0 && *out)
		trk_add(*out, fi_window ? fi_calls : 0, (size_t)r + 1);
	if (fi_window)
		tr_put("v%d", r + 1);
	return r;
}

void __wrap_free(void *p)
{
	if (!p)
		return;
	struct trk *t = trk_find(p);
	if (t)
	{
		if (fi_window)
		{
			char ref[32];
			tr_ref(ref, sizeof ref, t);
			tr_put("f%s", ref);
		}
		t->p = (void *)1;
		fi_live--;
	}
	/* an untracked pointer (libc-internal allocation, or a double free): ASan judges it */
	__real_free(p);
}

void *__wrap_realloc(void *old, size_t n)
{
	if (!old)
		return __wrap_malloc(n);
	struct trk *t = trk_find(old);
	char ref[32];
	tr_ref(ref, sizeof ref, t);
	if (fi_tick())
	{
		tr_put("r%s:%zu!", ref, n);
		errno = ENOMEM;
		return NULL;
	}
	void *p = __real_realloc(old, n);
	if (fi_window)
		tr_put("r%s:%zu", ref, n);
	if (p)
	{
		if (t)
		{
			t->p = (void *)1;
			fi_live--;
		}
		trk_add(p, fi_window ? fi_calls : 0, n);
	}
	return p;
}

static void win_open(long k1, long k2, int tracing)
{
	fi_calls = 0;
	fi_k1 = k1;
	fi_k2 = k2;
	fi_tracing = tracing;
	fi_tlen = 0;
	if (fi_trace)
		fi_trace[0] = 0;
	errno = 0;
	fi_window = 1;
}

static long win_close(void)
{
	fi_window = 0;
	fi_tracing = 0;
	return fi_calls;
}

/* ------------------------------------------------------------------ helpers */
static char *dump_str(struct json_object *o)
{
	char *buf = NULL;
	size_t len = 0;
	jt_out = open_memstream(&buf, &len);
	jt_dump(o);
	fclose(jt_out);
	jt_out = NULL;
	return buf; /* allocated by libc: release with __real_free */
}

static struct json_object *build(const char *tree)
{
	const char *s = tree;
	return jt_build(&s);
}

static const char *tokerr(enum json_tokener_error e)
{
	switch (e)
	{
	case json_tokener_success: return "success";
	case json_tokener_continue: return "continue";
	case json_tokener_error_memory: return "memory";
	case json_tokener_error_parse_eof: return "eof";
	case json_tokener_error_depth: return "depth";
	default: return "parse";
	}
}

/* what a line reports */
struct rep
{
	char res[4608];
	int same;      /* 1, 0, or -1 = not applicable */
	int failed;    /* the operation reported failure: errno class is printed */
	int err;
	long calls;
	int traced;
};

static void lh_noop_free(struct lh_entry *e)
{
	(void)e;
}

static void al_noop_free(void *p)
{
	(void)p;
}

/* fault-aware construction of a tree from the dump format, the way careful user code builds a value:
 * every constructor and every add is checked, the partial value is released on failure.
 * Own hex decoding with the real allocator (this code runs inside the window). */
static char *real_hexdup(const char **ps, size_t *len)
{
	size_t n = jt_hexspan(*ps);
	size_t bytes = (n == 1 && (*ps)[0] == '-') ? 0 : n / 2;
	char *b = (char *)__real_malloc(bytes + 1);
	for (size_t i = 0; i < bytes; i++)
		b[i] = (char)(hexv((*ps)[2 * i]) * 16 + hexv((*ps)[2 * i + 1]));
	b[bytes] = 0;
	*ps += n;
	*len = bytes;
	return b;
}

static void skip_value(const char **ps);

static struct json_object *build_checked(const char **ps, int *failed)
{
	const char *s = *ps;
	struct json_object *o = NULL;
	switch (*s)
	{
	case 'n': *ps = s + 1; return NULL;
	case 't':
	case 'f':
		*ps = s + 1;
		o = json_object_new_boolean(*s == 't');
		break;
	case 'i':
	{
		char *e;
		long long v = strtoll(s + 1, &e, 10);
		*ps = e;
		o = json_object_new_int64(v);
		break;
	}
	case 'u':
	{
		char *e;
		unsigned long long v = strtoull(s + 1, &e, 10);
		*ps = e;
		o = json_object_new_uint64(v);
		break;
	}
	case 'd':
	{
		uint64_t bits = 0;
		double d;
		for (int i = 0; i < 16; i++)
			bits = bits * 16 + (uint64_t)hexv(s[1 + i]);
		memcpy(&d, &bits, 8);
		s += 17;
		if (*s == ':')
		{
			s++;
			size_t n;
			char *t = real_hexdup(&s, &n);
			o = json_object_new_double_s(d, t);
			__real_free(t);
		}
		else
			o = json_object_new_double(d);
		*ps = s;
		break;
	}
	case 's':
	{
		s++;
		size_t n;
		char *t = real_hexdup(&s, &n);
		o = json_object_new_string_len(t, (int)n);
		__real_free(t);
		*ps = s;
		break;
	}
	case '[':
	{
		o = json_object_new_array();
		s++;
		if (*s == ']')
		{
			*ps = s + 1;
			break;
		}
		for (;;)
		{
			struct json_object *e = NULL;
			if (o && !*failed)
			{
				e = build_checked(&s, failed);
				if (!*failed && json_object_array_add(o, e) != 0)
				{
					json_object_put(e);
					*failed = 1;
				}
			}
			else
				skip_value(&s);
			if (*s == ',') { s++; continue; }
			if (*s == ']') { s++; break; }
			break;
		}
		*ps = s;
		break;
	}
	case '{':
	{
		o = json_object_new_object();
		s++;
		if (*s == '}')
		{
			*ps = s + 1;
			break;
		}
		for (;;)
		{
			size_t n;
			char *k = real_hexdup(&s, &n);
			if (*s == ':') s++;
			if (o && !*failed)
			{
				struct json_object *v = build_checked(&s, failed);
				if (!*failed && json_object_object_add(o, k, v) != 0)
				{
					json_object_put(v);
					*failed = 1;
				}
			}
			else
				skip_value(&s);
			__real_free(k);
			if (*s == ',') { s++; continue; }
			if (*s == '}') { s++; break; }
			break;
		}
		*ps = s;
		break;
	}
	default: return NULL;
	}
	if (!o)
		*failed = 1;
	if (*failed && o)
	{
		json_object_put(o);
		o = NULL;
	}
	return o;
}

/* advance over one value of the dump format without building it */
static void skip_value(const char **ps)
{
	const char *s = *ps;
	switch (*s)
	{
	case 'n': case 't': case 'f': s++; break;
	case 'i': case 'u':
		s++;
		while (*s == '-' || (*s >= '0' && *s <= '9')) s++;
		break;
	case 'd':
		s += 17;
		if (*s == ':') { s++; s += jt_hexspan(s); }
		break;
	case 's': s++; s += jt_hexspan(s); break;
	case '[':
		s++;
		if (*s == ']') { s++; break; }
		for (;;)
		{
			skip_value(&s);
			if (*s == ',') { s++; continue; }
			if (*s == ']') s++;
			break;
		}
		break;
	case '{':
		s++;
		if (*s == '}') { s++; break; }
		for (;;)
		{
			s += jt_hexspan(s);
			if (*s == ':') s++;
			skip_value(&s);
			if (*s == ',') { s++; continue; }
			if (*s == '}') s++;
			break;
		}
		break;
	default: break;
	}
	*ps = s;
}

/* object with members k0 .. k(n-1), values i0 .. */
static struct json_object *mk_object(int n)
{
	struct json_object *o = json_object_new_object();
	for (int i = 0; i < n; i++)
	{
		char key[24];
		snprintf(key, sizeof key, "k%d", i);
		json_object_object_add(o, key, json_object_new_int64(i));
	}
	return o;
}

static struct json_object *mk_array(int n)
{
	struct json_object *a = json_object_new_array();
	for (int i = 0; i < n; i++)
		json_object_array_add(a, json_object_new_int64(i));
	return a;
}

static char *fill(int n, int seed)
{
	char *s = (char *)__real_malloc((size_t)n + 1);
	for (int i = 0; i < n; i++)
		s[i] = (char)('a' + (i + seed) % 26);
	s[n] = 0;
	return s;
}

static int streq_free(char *a, char *b)
{
	int r = strcmp(a, b) == 0;
	__real_free(a);
	__real_free(b);
	return r;
}

/* ------------------------------------------------------------------ workloads
 * each returns 0 when the line is malformed */

static int wl_pbnew(struct rep *r, long k1, long k2)
{
	win_open(k1, k2, 1);
	struct printbuf *p = printbuf_new();
	r->calls = win_close();
	r->traced = 1;
	snprintf(r->res, sizeof r->res, "%s", p ? "ok" : "null");
	r->failed = !p;
	r->err = errno;
	if (p)
		printbuf_free(p);
	return 1;
}

static int wl_pbapp(struct rep *r, int n0, int n, long k1, long k2)
{
	struct printbuf *p = printbuf_new();
	char *d0 = fill(n0, 0), *d = fill(n, 3);
	printbuf_memappend(p, d0, n0);
	win_open(k1, k2, 1);
	int rc = printbuf_memappend(p, d, n);
	r->err = errno;
	r->calls = win_close();
	r->traced = 1;
	/* contents: old text, followed by the new bytes iff served */
	int good = p->bpos == (rc < 0 ? n0 : n0 + n) && memcmp(p->buf, d0, (size_t)n0) == 0 &&
	           (rc < 0 || memcmp(p->buf + n0, d, (size_t)n) == 0) && p->buf[p->bpos] == 0;
	snprintf(r->res, sizeof r->res, "ret=%d bpos=%d size=%d", rc, p->bpos, p->size);
	r->same = good;
	r->failed = rc < 0;
	printbuf_free(p);
	__real_free(d0);
	__real_free(d);
	return 1;
}

/* sprintbuf appending n formatted bytes to a buffer holding n0: on failure the buffer is as before (old text, NUL in
 * place, nothing of the new text), on success old text + new text + NUL */
static int wl_pbspr(struct rep *r, int n0, int n, long k1, long k2)
{
	struct printbuf *p = printbuf_new();
	char *d0 = fill(n0, 0), *d = fill(n, 3);
	char *z = __real_malloc((size_t)n + 1);
	for (int i = 0; i < n; i++)
		z[i] = d[i] ? d[i] : 'z'; /* a C string for %s */
	z[n] = 0;
	printbuf_memappend(p, d0, n0);
	win_open(k1, k2, 1);
	int rc = sprintbuf(p, "%s", z);
	r->err = errno;
	r->calls = win_close();
	r->traced = 0;
	int good = p->bpos == (rc < 0 ? n0 : n0 + n) && memcmp(p->buf, d0, (size_t)n0) == 0 &&
	           (rc < 0 || memcmp(p->buf + n0, z, (size_t)n) == 0) && p->buf[p->bpos] == 0 && (rc < 0 || rc == n);
	snprintf(r->res, sizeof r->res, "ret=%s bpos=%d", rc < 0 ? "-1" : "n", p->bpos);
	r->same = good;
	r->failed = rc < 0;
	printbuf_free(p);
	__real_free(d0);
	__real_free(d);
	__real_free(z);
	return 1;
}

static int wl_alnew(struct rep *r, int size, long k1, long k2)
{
	win_open(k1, k2, 1);
	struct array_list *a = array_list_new2(al_noop_free, size);
	r->err = errno;
	r->calls = win_close();
	r->traced = 1;
	snprintf(r->res, sizeof r->res, "%s", a ? "ok" : "null");
	r->failed = !a;
	if (a)
		array_list_free(a);
	return 1;
}

/* array ops: kind 'a' add, 'p' put_idx, 'i' insert_idx, 's' shrink; 'P' / 'I' = put_idx / insert_idx on an array
 * that was shrunk to its exact length first (as the parser leaves every array): capacity == length, so that
 * replacing the last element / inserting anywhere has to grow the slot buffer */
static int wl_arr(struct rep *r, char kind, int n, long arg, long k1, long k2)
{
	struct json_object *a = mk_array(n);
	struct json_object *v = kind == 's' ? NULL : json_object_new_string("new");
	struct json_object *a2 = mk_array(n);
	if (kind == 'P' || kind == 'I')
	{
		json_object_array_shrink(a, 0);
		json_object_array_shrink(a2, 0);
		kind = kind == 'P' ? 'p' : 'i';
	}
	char *pre = dump_str(a);
	/* reference result */
	int rc2 = kind == 'a'   ? json_object_array_add(a2, json_object_new_string("new"))
	          : kind == 'p' ? json_object_array_put_idx(a2, (size_t)arg, json_object_new_string("new"))
	          : kind == 'i' ? json_object_array_insert_idx(a2, (size_t)arg, json_object_new_string("new"))
	                        : json_object_array_shrink(a2, (int)arg);
	char *want = dump_str(a2);
	json_object_put(a2);
	(void)rc2;
	win_open(k1, k2, 1);
	int rc = kind == 'a'   ? json_object_array_add(a, v)
	         : kind == 'p' ? json_object_array_put_idx(a, (size_t)arg, v)
	         : kind == 'i' ? json_object_array_insert_idx(a, (size_t)arg, v)
	                       : json_object_array_shrink(a, (int)arg);
	r->err = errno;
	r->calls = win_close();
	r->traced = 1;
	struct array_list *al = json_object_get_array(a);
	snprintf(r->res, sizeof r->res, "rc=%d len=%zu size=%zu", rc, al->length, al->size);
	char *post = dump_str(a);
	if (rc != 0)
	{
		r->same = strcmp(post, pre) == 0;
		json_object_put(v);
	}
	else
		r->same = strcmp(post, want) == 0;
	r->failed = rc != 0;
	__real_free(pre);
	__real_free(post);
	__real_free(want);
	json_object_put(a);
	return 1;
}

static int wl_lhnew(struct rep *r, int size, long k1, long k2)
{
	win_open(k1, k2, 1);
	struct lh_table *t = lh_kchar_table_new(size, lh_noop_free);
	r->err = errno;
	r->calls = win_close();
	r->traced = 1;
	snprintf(r->res, sizeof r->res, "%s", t ? "ok" : "null");
	r->failed = !t;
	if (t)
		lh_table_free(t);
	return 1;
}

static const char *lh_key(int i)
{
	static char keys[4096][12];
	snprintf(keys[i % 4096], 12, "e%d", i);
	return keys[i % 4096];
}

/* entries handed to the table's free function while a resize / insert is under way: the caller's table owns them, none
 * may be released by an operation that only re-houses them (or fails to) */
static int lh_freed_in_window;
static void lh_counting_free(struct lh_entry *e)
{
	(void)e;
	lh_freed_in_window++;
}

/* kind 'r': lh_table_resize(t, arg) on a table of `size` slots holding n entries; 'i': insert one more */
static int wl_lh(struct rep *r, char kind, int size, int n, int arg, long k1, long k2)
{
	struct lh_table *t = lh_kchar_table_new(size, lh_counting_free);
	for (int i = 0; i < n; i++)
		lh_table_insert(t, lh_key(i), (void *)(intptr_t)(i + 1));
	int size0 = t->size, count0 = t->count;
	lh_freed_in_window = 0;
	win_open(k1, k2, 1);
	int rc = kind == 'r' ? lh_table_resize(t, arg) : lh_table_insert(t, lh_key(n), (void *)(intptr_t)(n + 1));
	r->err = errno;
	r->calls = win_close();
	r->traced = 1;
	snprintf(r->res, sizeof r->res, "rc=%d count=%d size=%d", rc, t->count, t->size);
	/* every entry still there, in order */
	int good = lh_freed_in_window == 0, i = 0;
	struct lh_entry *e;
	for (e = t->head; e; e = e->next, i++)
		if (strcmp((const char *)e->k, lh_key(i)) != 0 || (intptr_t)e->v != i + 1)
			good = 0;
	if (i != t->count)
		good = 0;
	if (rc != 0 && (t->size != size0 || t->count != count0))
		good = 0;
	for (i = 0; i < t->count && good; i++)
	{
		void *v = NULL;
		if (!lh_table_lookup_ex(t, lh_key(i), &v) || (intptr_t)v != i + 1)
			good = 0;
	}
	r->same = good;
	r->failed = rc != 0;
	lh_table_free(t);
	return 1;
}

/* constructors: kind o object, a array_ext(arg), s string of arg bytes, d double_s with arg-byte text,
 * b boolean, i int64, f double */
static int wl_new(struct rep *r, char kind, int arg, long k1, long k2)
{
	char *txt = fill(arg > 0 ? arg : 0, 1);
	if (kind == 'd')
		for (int i = 0; i < arg; i++)
			txt[i] = (char)('0' + i % 10);
	win_open(k1, k2, 1);
	struct json_object *o = kind == 'o'   ? json_object_new_object()
	                        : kind == 'a' ? json_object_new_array_ext(arg)
	                        : kind == 's' ? json_object_new_string_len(txt, arg)
	                        : kind == 'd' ? json_object_new_double_s(1.5, txt)
	                        : kind == 'b' ? json_object_new_boolean(1)
	                        : kind == 'i' ? json_object_new_int64(7)
	                                      : json_object_new_double(2.5);
	r->err = errno;
	r->calls = win_close();
	r->traced = 1;
	snprintf(r->res, sizeof r->res, "%s", o ? "ok" : "null");
	r->failed = !o;
	if (o && kind == 's')
		r->same = json_object_get_string_len(o) == arg && memcmp(json_object_get_string(o), txt, (size_t)arg) == 0;
	json_object_put(o);
	__real_free(txt);
	return 1;
}

static int wl_oadd(struct rep *r, int n, const char *keyhex, unsigned opts, long k1, long k2)
{
	size_t klen;
	char *key = unhexz(keyhex, &klen);
	struct json_object *o = mk_object(n), *o2 = mk_object(n);
	struct json_object *v = json_object_new_string("val");
	char *pre = dump_str(o);
	json_object_object_add_ex(o2, key, json_object_new_string("val"), opts);
	char *want = dump_str(o2);
	win_open(k1, k2, 1);
	int rc = json_object_object_add_ex(o, key, v, opts);
	r->err = errno;
	r->calls = win_close();
	r->traced = 1;
	struct lh_table *t = json_object_get_object(o);
	snprintf(r->res, sizeof r->res, "rc=%d count=%d size=%d", rc, t->count, t->size);
	char *post = dump_str(o);
	if (rc != 0)
	{
		r->same = strcmp(post, pre) == 0;
		json_object_put(v);
	}
	else
		r->same = strcmp(post, want) == 0;
	r->failed = rc != 0;
	__real_free(pre);
	__real_free(post);
	__real_free(want);
	json_object_put(o);
	/* with JSON_C_OBJECT_ADD_CONSTANT_KEY the table keeps pointing at `key`: release it last */
	json_object_put(o2);
	free(key);
	return 1;
}

/* string node of a bytes; optionally set to b bytes (b >= 0) before the window; op: set to c bytes */
static int wl_sets(struct rep *r, int a, int b, int c, long k1, long k2)
{
	char *sa = fill(a, 0), *sb = fill(b > 0 ? b : 0, 5), *sc = fill(c, 9);
	struct json_object *o = json_object_new_string_len(sa, a);
	const char *cur = sa;
	int curlen = a;
	if (b >= 0)
	{
		json_object_set_string_len(o, sb, b);
		cur = sb;
		curlen = b;
	}
	win_open(k1, k2, 1);
	int ret = json_object_set_string_len(o, sc, c);
	r->err = errno;
	r->calls = win_close();
	r->traced = 1;
	int len = json_object_get_string_len(o);
	const char *now = json_object_get_string(o);
	struct json_object_string *js = (struct json_object_string *)o;
	snprintf(r->res, sizeof r->res, "ret=%d len=%d ext=%d", ret, len, js->len < 0);
	if (ret == 1)
		r->same = len == c && memcmp(now, sc, (size_t)c) == 0 && now[c] == 0;
	else
		r->same = len == curlen && memcmp(now, cur, (size_t)curlen) == 0 && now[curlen] == 0;
	r->failed = ret != 1;
	json_object_put(o);
	__real_free(sa);
	__real_free(sb);
	__real_free(sc);
	return 1;
}

static int wl_toknew(struct rep *r, int depth, long k1, long k2)
{
	win_open(k1, k2, 1);
	struct json_tokener *t = json_tokener_new_ex(depth);
	r->err = errno;
	r->calls = win_close();
	r->traced = 1;
	snprintf(r->res, sizeof r->res, "%s", t ? "ok" : "null");
	r->failed = !t;
	if (t)
	{
		/* usable: parse something small (a scalar: depth 1 suffices) */
		struct json_object *o = json_tokener_parse_ex(t, "17", 3);
		r->same = o != NULL;
		json_object_put(o);
		json_tokener_free(t);
	}
	return 1;
}

static int wl_copy(struct rep *r, const char *tree, long k1, long k2)
{
	struct json_object *src = build(tree), *dst = NULL;
	char *pre = dump_str(src);
	win_open(k1, k2, 1);
	int rc = json_object_deep_copy(src, &dst, NULL);
	r->err = errno;
	r->calls = win_close();
	r->traced = 1;
	char *post = dump_str(src);
	int eq = -1;
	if (rc == 0)
	{
		char *d = dump_str(dst);
		eq = strcmp(d, pre) == 0 && json_object_equal(src, dst);
		__real_free(d);
	}
	snprintf(r->res, sizeof r->res, "rc=%d dst=%s", rc, rc == 0 ? (eq ? "copy" : "WRONG(copy differs)") : (dst ? "WRONG(dangling)" : "null"));
	r->same = strcmp(pre, post) == 0;
	r->failed = rc != 0;
	__real_free(pre);
	__real_free(post);
	if (rc == 0)
		json_object_put(dst);
	json_object_put(src);
	return 1;
}

static int wl_ptrset(struct rep *r, const char *tree, const char *pathhex, const char *valtree, int fmt, long k1, long k2)
{
	char *path = unhexz(pathhex, NULL);
	struct json_object *root = build(tree), *val = build(valtree);
	struct json_object *root2 = build(tree), *val2 = build(valtree);
	char *pre = dump_str(root), *preval = dump_str(val);
	int rc2 = fmt ? json_pointer_setf(&root2, val2, "%s", path) : json_pointer_set(&root2, path, val2);
	char *want = dump_str(root2);
	if (rc2 != 0)
		json_object_put(val2);
	json_object_put(root2);
	win_open(k1, k2, !fmt);
	int rc = fmt ? json_pointer_setf(&root, val, "%s", path) : json_pointer_set(&root, path, val);
	r->err = errno;
	r->calls = win_close();
	r->traced = !fmt;
	char *post = dump_str(root);
	snprintf(r->res, sizeof r->res, "rc=%d", rc);
	if (rc != 0)
	{
		char *postval = dump_str(val);
		r->same = strcmp(post, pre) == 0 && strcmp(postval, preval) == 0;
		__real_free(postval);
		json_object_put(val);
	}
	else
		r->same = strcmp(post, want) == 0;
	r->failed = rc != 0;
	__real_free(pre);
	__real_free(preval);
	__real_free(post);
	__real_free(want);
	json_object_put(root);
	free(path);
	return 1;
}

/* parse: mode 'v' json_tokener_parse_verbose; 'e' json_tokener_new + parse_ex(str, -1);
 * 's' json_tokener_new + parse_ex in two chunks split at `split` */
static struct json_object *do_parse(char mode, const char *doc, size_t len, int flags, int split,
                                   enum json_tokener_error *err)
{
	struct json_object *o = NULL;
	if (mode == 'v')
		return json_tokener_parse_verbose(doc, err);
	struct json_tokener *tok = json_tokener_new();
	if (!tok)
	{
		*err = json_tokener_error_memory;
		return NULL;
	}
	json_tokener_set_flags(tok, flags);
	if (mode == 'e')
		o = json_tokener_parse_ex(tok, doc, -1);
	else
	{
		if ((size_t)split > len)
			split = (int)len;
		o = json_tokener_parse_ex(tok, doc, split);
		if (!o && json_tokener_get_error(tok) == json_tokener_continue)
			o = json_tokener_parse_ex(tok, doc + split, (int)(len - (size_t)split) + 1);
	}
	*err = json_tokener_get_error(tok);
	if (*err != json_tokener_success && o)
	{
		json_object_put(o);
		o = NULL;
		*err = json_tokener_error_parse_unexpected;
	}
	json_tokener_free(tok);
	return o;
}

static int wl_parse(struct rep *r, char mode, int flags, int split, const char *dochex, long k1, long k2)
{
	size_t len;
	char *doc = unhexz(dochex, &len);
	enum json_tokener_error e0 = json_tokener_success, e1 = json_tokener_success;
	struct json_object *ref = do_parse(mode, doc, len, flags, split, &e0);
	char *want = dump_str(ref);
	json_object_put(ref);
	win_open(k1, k2, 0);
	struct json_object *o = do_parse(mode, doc, len, flags, split, &e1);
	r->err = errno;
	r->calls = win_close();
	char *got = dump_str(o);
	if (e1 == e0)
		snprintf(r->res, sizeof r->res, "%s", strcmp(got, want) == 0 ? "normal" : "WRONG(same status, different value)");
	else if (o == NULL && e1 != json_tokener_success && e1 != json_tokener_continue)
		snprintf(r->res, sizeof r->res, "fail(%s)", tokerr(e1));
	else
		snprintf(r->res, sizeof r->res, "WRONG(status %s instead of %s)", tokerr(e1), tokerr(e0));
	json_object_put(o);
	__real_free(want);
	__real_free(got);
	free(doc);
	return 1;
}

static int wl_ser(struct rep *r, const char *tree, int flags, long k1, long k2)
{
	struct json_object *o = build(tree), *o2 = build(tree);
	char *pre = dump_str(o);
	const char *w = json_object_to_json_string_ext(o2, flags);
	char *want = w ? __real_strdup(w) : NULL;
	json_object_put(o2);
	win_open(k1, k2, 1);
	size_t rlen = 0;
	const char *t = json_object_to_json_string_length(o, flags, &rlen);
	r->err = errno;
	r->calls = win_close();
	r->traced = 1;
	if (!t)
		snprintf(r->res, sizeof r->res, "text=none");
	else if (want && strlen(want) == rlen && strlen(t) == rlen && strcmp(t, want) == 0)
		snprintf(r->res, sizeof r->res, "text=full");
	else
	{
		/* report what came back so that the model can be compared: lengths and the first 2000 bytes */
		size_t tl = strlen(t), i, p = 0;
		p += (size_t)snprintf(r->res + p, sizeof r->res - p, "text=TRUNC len=%zu/%zu got=", tl, want ? strlen(want) : 0);
		for (i = 0; i < tl && i < 2000; i++)
			p += (size_t)snprintf(r->res + p, sizeof r->res - p, "%02x", (unsigned char)t[i]);
	}
	char *post = dump_str(o);
	r->same = strcmp(pre, post) == 0;
	r->failed = !t;
	__real_free(pre);
	__real_free(post);
	__real_free(want);
	json_object_put(o);
	return 1;
}

static int wl_patch(struct rep *r, const char *mode, const char *doctree, const char *patchtree, long k1, long k2)
{
	int copy = !strcmp(mode, "copy");
	struct json_object *doc = build(doctree), *patch = build(patchtree);
	struct json_object *doc2 = build(doctree), *patch2 = build(patchtree);
	struct json_object *base2 = copy ? NULL : doc2;
	struct json_patch_error pe;
	int rc2 = json_patch_apply(copy ? doc2 : NULL, patch2, &base2, &pe);
	char *want = dump_str(base2);
	if (copy)
	{
		json_object_put(base2);
		json_object_put(doc2);
	}
	else
		json_object_put(base2);
	json_object_put(patch2);
	char *prepatch = dump_str(patch), *predoc = dump_str(doc);
	struct json_object *base = copy ? NULL : doc;
	memset(&pe, 0, sizeof pe);
	win_open(k1, k2, 0);
	int rc = json_patch_apply(copy ? doc : NULL, patch, &base, &pe);
	r->err = errno;
	r->calls = win_close();
	char *postpatch = dump_str(patch);
	char *got = dump_str(base); /* must be walkable whatever happened (half-applied in place is documented) */
	int same = strcmp(prepatch, postpatch) == 0;
	if (copy)
	{
		char *postdoc = dump_str(doc);
		same = same && strcmp(predoc, postdoc) == 0;
		__real_free(postdoc);
	}
	if (rc == rc2)
		snprintf(r->res, sizeof r->res, "%s", rc != 0 || strcmp(got, want) == 0 ? "normal" : "WRONG(rc 0, different document)");
	else if (rc2 == 0 && rc < 0)
		snprintf(r->res, sizeof r->res, "fail(rc=%d,%s)", rc < 0 ? -1 : rc, errname(pe.errno_code));
	else
		snprintf(r->res, sizeof r->res, "WRONG(rc %d instead of %d)", rc, rc2);
	r->same = same;
	r->failed = rc != 0;
	r->err = pe.errno_code;
	__real_free(want);
	__real_free(prepatch);
	__real_free(predoc);
	__real_free(postpatch);
	__real_free(got);
	if (copy)
	{
		json_object_put(base);
		json_object_put(doc);
	}
	else
		json_object_put(base);
	json_object_put(patch);
	return 1;
}

static int wl_construct(struct rep *r, const char *tree, long k1, long k2)
{
	struct json_object *ref = build(tree);
	char *want = dump_str(ref);
	json_object_put(ref);
	const char *s = tree;
	int failed = 0;
	win_open(k1, k2, 0);
	struct json_object *o = build_checked(&s, &failed);
	r->err = errno;
	r->calls = win_close();
	if (failed)
		snprintf(r->res, sizeof r->res, "%s", o ? "WRONG(failed but value kept)" : "fail(null)");
	else
	{
		char *got = dump_str(o);
		snprintf(r->res, sizeof r->res, "%s", strcmp(got, want) == 0 ? "normal" : "WRONG(different value)");
		__real_free(got);
	}
	r->failed = failed;
	json_object_put(o);
	__real_free(want);
	return 1;
}

/* ------------------------------------------------------------------ dispatch */
static int dispatch(struct rep *r, int nw, char **w)
{
	if (nw < 3)
		return 0;
	long k1 = atol(w[nw - 2]), k2 = atol(w[nw - 1]);
	int na = nw - 3; /* arguments between the name and the fault spec */
	char **a = w + 1;
	const char *n = w[0];
	if (!strcmp(n, "pbnew") && na == 0) return wl_pbnew(r, k1, k2);
	if (!strcmp(n, "pbapp") && na == 2) return wl_pbapp(r, atoi(a[0]), atoi(a[1]), k1, k2);
	if (!strcmp(n, "pbspr") && na == 2) return wl_pbspr(r, atoi(a[0]), atoi(a[1]), k1, k2);
	if (!strcmp(n, "alnew") && na == 1) return wl_alnew(r, atoi(a[0]), k1, k2);
	if (!strcmp(n, "aadd") && na == 1) return wl_arr(r, 'a', atoi(a[0]), 0, k1, k2);
	if (!strcmp(n, "aput") && na == 2) return wl_arr(r, 'p', atoi(a[0]), atol(a[1]), k1, k2);
	if (!strcmp(n, "ains") && na == 2) return wl_arr(r, 'i', atoi(a[0]), atol(a[1]), k1, k2);
	if (!strcmp(n, "ashrink") && na == 2) return wl_arr(r, 's', atoi(a[0]), atol(a[1]), k1, k2);
	if (!strcmp(n, "asput") && na == 2) return wl_arr(r, 'P', atoi(a[0]), atol(a[1]), k1, k2);
	if (!strcmp(n, "asins") && na == 2) return wl_arr(r, 'I', atoi(a[0]), atol(a[1]), k1, k2);
	if (!strcmp(n, "lhnew") && na == 1) return wl_lhnew(r, atoi(a[0]), k1, k2);
	if (!strcmp(n, "lhresize") && na == 3) return wl_lh(r, 'r', atoi(a[0]), atoi(a[1]), atoi(a[2]), k1, k2);
	if (!strcmp(n, "lhins") && na == 2) return wl_lh(r, 'i', atoi(a[0]), atoi(a[1]), 0, k1, k2);
	if (!strcmp(n, "new") && na == 2) return wl_new(r, a[0][0], atoi(a[1]), k1, k2);
	if (!strcmp(n, "oadd") && na == 3) return wl_oadd(r, atoi(a[0]), a[1], (unsigned)atoi(a[2]), k1, k2);
	if (!strcmp(n, "sets") && na == 3) return wl_sets(r, atoi(a[0]), atoi(a[1]), atoi(a[2]), k1, k2);
	if (!strcmp(n, "toknew") && na == 1) return wl_toknew(r, atoi(a[0]), k1, k2);
	if (!strcmp(n, "copy") && na == 1) return wl_copy(r, a[0], k1, k2);
	if (!strcmp(n, "ptrset") && na == 3) return wl_ptrset(r, a[0], a[1], a[2], 0, k1, k2);
	if (!strcmp(n, "ptrsetf") && na == 3) return wl_ptrset(r, a[0], a[1], a[2], 1, k1, k2);
	if (!strcmp(n, "parse") && na == 4) return wl_parse(r, a[0][0], atoi(a[1]), atoi(a[2]), a[3], k1, k2);
	if (!strcmp(n, "ser") && na == 2) return wl_ser(r, a[0], atoi(a[1]), k1, k2);
	if (!strcmp(n, "patch") && na == 3) return wl_patch(r, a[0], a[1], a[2], k1, k2);
	if (!strcmp(n, "construct") && na == 1) return wl_construct(r, a[0], k1, k2);
	return 0;
}

int main(void)
{
	while (hc_read())
	{
		if (hc_line[0] == '#')
		{
			puts(hc_line);
			fflush(stdout);
			continue;
		}
		hc_split();
		if (NW == 0)
		{
			puts("bad-op");
			continue;
		}
		struct rep r;
		memset(&r, 0, sizeof r);
		r.same = -1;
		long live0 = fi_live;
		if (!strcmp(W[0], "count") && NW >= 2)
		{
			/* fault-free run: number of allocator calls of the window */
			char *w2[MAXW + 2];
			int n = 0;
			for (int i = 1; i < NW; i++)
				w2[n++] = W[i];
			w2[n++] = (char *)"0";
			w2[n++] = (char *)"0";
			if (!dispatch(&r, n, w2))
				puts("bad-op");
			else
				printf("%ld\n", r.calls);
			fflush(stdout);
			continue;
		}
		if (!dispatch(&r, NW, W))
		{
			puts("bad-op");
			fflush(stdout);
			continue;
		}
		long leak = fi_live - live0;
		char same = r.same < 0 ? '-' : (char)('0' + r.same);
		printf("%s leak=%ld same=%c ## n=%ld err=%s trace=%s\n", r.res, leak, same, r.calls,
		       r.failed ? errname(r.err) : "-", r.traced ? (fi_tlen ? fi_trace : "-") : "*");
		fflush(stdout);
	}
	return 0;
}
