/* C13 harness: drives json_patch_apply of the current working tree.
 *
 *   doc <tree>            the target document        (trees in the JVal dump format, jtree.h)
 *   op <tree>             appends one element to the patch array
 *   run <mode>            applies the patch built so far
 *   runraw <mode> <tree>  applies an arbitrary value as the patch document
 *     mode base: *base = doc, copy_from = NULL
 *     mode copy: *base = NULL, copy_from = doc
 *     mode both: *base = doc, copy_from = a second copy of doc (argument error)
 *
 * prints
 *   P:<patch before> rc=<rc> idx=<i|-> doc=<result|-> P:<patch after> shared=<0|1>[ cf=<copy_from after>][ leak=<bytes>]
 *      ## err=<class> idx=<i|max> doc=<*base afterwards>
 * shared=1: some json_object node is reachable from two places (patch and result, copy_from and
 * result, or twice inside one of them).  leak=: heap bytes still allocated after everything the
 * caller owns has been released (only printed when non-zero).
 */
#include <stdio.h>
static FILE *jt_out;
/* jtree.h / hcommon.h print with printf/putchar: send that to jt_out so that a whole result line
 * can be assembled before the trees are released */
#define printf(...) fprintf(jt_out, __VA_ARGS__)
#define putchar(c) fputc((c), jt_out)
#include "jtree.h"
#undef printf
#undef putchar
#include "json_patch.h"

extern size_t __sanitizer_get_current_allocated_bytes(void) __attribute__((weak));

static size_t heap_now(void)
{
	return __sanitizer_get_current_allocated_bytes ? __sanitizer_get_current_allocated_bytes() : 0;
}

/* ---- node identity ---- */
static struct json_object **nodes;
static size_t n_nodes, cap_nodes;

static void collect(struct json_object *o)
{
	if (!o)
		return;
	if (n_nodes == cap_nodes)
		return; /* never reached: the generated trees are small */
	nodes[n_nodes++] = o;
	if (json_object_is_type(o, json_type_array))
	{
		size_t n = json_object_array_length(o);
		for (size_t i = 0; i < n; i++)
			collect(json_object_array_get_idx(o, i));
	}
	else if (json_object_is_type(o, json_type_object))
	{
		struct json_object_iterator it = json_object_iter_begin(o), end = json_object_iter_end(o);
		while (!json_object_iter_equal(&it, &end))
		{
			collect(json_object_iter_peek_value(&it));
			json_object_iter_next(&it);
		}
	}
}

static int cmp_ptr(const void *a, const void *b)
{
	uintptr_t x = (uintptr_t) * (struct json_object *const *)a, y = (uintptr_t) * (struct json_object *const *)b;
	return x < y ? -1 : x > y;
}

static int any_shared(void)
{
	qsort(nodes, n_nodes, sizeof(*nodes), cmp_ptr);
	for (size_t i = 1; i < n_nodes; i++)
		if (nodes[i] == nodes[i - 1])
			return 1;
	return 0;
}

static const char *perr(int e)
{
	return e == EFAULT ? "EFAULT" : errname(e);
}

#define MAXNODES 65536
#define MAXOPS 4096
static char *doc_s;
static char *op_s[MAXOPS];
static size_t n_ops;
static char linebuf[1 << 22];

int main(void)
{
	nodes = (struct json_object **)malloc(MAXNODES * sizeof(*nodes));
	cap_nodes = MAXNODES;
	jt_out = stdout;
	while (hc_read())
	{
		if (hc_line[0] == '#')
		{
			puts(hc_line);
			free(doc_s);
			doc_s = NULL;
			while (n_ops)
				free(op_s[--n_ops]);
			continue;
		}
		hc_split();
		if (NW == 2 && !strcmp(W[0], "doc"))
		{
			free(doc_s);
			doc_s = strdup(W[1]);
			puts("doc");
			fflush(stdout);
			continue;
		}
		if (NW == 2 && !strcmp(W[0], "op"))
		{
			if (n_ops < MAXOPS)
				op_s[n_ops++] = strdup(W[1]);
			puts("op");
			fflush(stdout);
			continue;
		}
		int raw = NW == 3 && !strcmp(W[0], "runraw");
		if (!doc_s || !(raw || (NW == 2 && !strcmp(W[0], "run"))))
		{
			puts(doc_s ? "bad-op" : "bad-state");
			fflush(stdout);
			continue;
		}
		size_t heap0 = heap_now();
		const char *mode = W[1];
		const char *s = doc_s;
		struct json_object *doc = jt_build(&s);
		struct json_object *patch;
		if (raw)
		{
			s = W[2];
			patch = jt_build(&s);
		}
		else
		{
			patch = json_object_new_array();
			for (size_t i = 0; i < n_ops; i++)
			{
				s = op_s[i];
				json_object_array_add(patch, jt_build(&s));
			}
		}
		struct json_object *base = NULL, *copy_from = NULL;
		if (!strcmp(mode, "copy"))
			copy_from = doc;
		else if (!strcmp(mode, "both"))
		{
			s = doc_s;
			base = doc;
			copy_from = jt_build(&s);
		}
		else
			base = doc;

		/* the whole result line is assembled in linebuf, so that it can be completed after the
		 * trees have been released */
		jt_out = fmemopen(linebuf, sizeof(linebuf), "w");
		fputs("P:", jt_out);
		jt_dump(patch);

		struct json_patch_error pe;
		memset(&pe, 0x5a, sizeof(pe));
		errno = 0;
		int rc = json_patch_apply(copy_from, patch, &base, &pe);

		fprintf(jt_out, " rc=%d idx=", rc);
		if (rc == 0 || pe.patch_failure_idx == SIZE_MAX)
			fputc('-', jt_out);
		else
			fprintf(jt_out, "%zu", pe.patch_failure_idx);
		fputs(" doc=", jt_out);
		if (rc == 0)
			jt_dump(base);
		else
			fputc('-', jt_out);
		fputs(" P:", jt_out);
		jt_dump(patch);

		n_nodes = 0;
		collect(base);
		collect(patch);
		collect(copy_from);
		fprintf(jt_out, " shared=%d", any_shared());
		if (strcmp(mode, "base"))
		{
			fputs(" cf=", jt_out);
			jt_dump(copy_from);
		}
		fflush(jt_out);
		long spec_end = ftell(jt_out);

		fprintf(jt_out, " ## err=%s idx=", rc == 0 && pe.errno_code == 0 ? "0" : perr(pe.errno_code));
		if (pe.patch_failure_idx == SIZE_MAX)
			fputs("max", jt_out);
		else
			fprintf(jt_out, "%zu", pe.patch_failure_idx);
		fputs(" doc=", jt_out);
		jt_dump(base);
		fclose(jt_out);
		jt_out = stdout;

		/* release everything the caller owns: nothing of this case may stay allocated */
		json_object_put(base);
		json_object_put(patch);
		json_object_put(copy_from);
		size_t heap1 = heap_now();

		fwrite(linebuf, 1, (size_t)spec_end, stdout);
		if (heap1 != heap0)
			fprintf(stdout, " leak=%ld", (long)heap1 - (long)heap0);
		fputs(linebuf + spec_end, stdout);
		fputc('\n', stdout);
		fflush(stdout);
	}
	free(doc_s);
	while (n_ops)
		free(op_s[--n_ops]);
	free(nodes);
	free(hc_line);
	return 0;
}
