/* C14 harness: the library under numeric locales.  Linked with
 *   -Wl,--wrap=newlocale,--wrap=duplocale,--wrap=freelocale,--wrap=uselocale,--wrap=strtod
 * so that every locale call the *library* makes is logged (canonically: G = LC_GLOBAL_LOCALE, U = the
 * caller's own per-thread object, a/b/.. = objects created during the call in creation order, 0 = NULL),
 * duplocale/newlocale can be made to fail, and every strtod records the radix character in effect.
 * The comma-decimal locale "xx_XX.utf8" is synthesised by tools/props/c14.py (LOCPATH).
 *
 * Every library call is made twice: on a reference object under the plain "C" locale (wraps logging to a
 * scratch area) and on the observed object under the locale the case installed; `eq=1` iff error code,
 * end offset, parsed tree (doubles as bit patterns) / serialized bytes are identical.
 *
 *  glob C|comma            setlocale(LC_ALL, ..)                       -> ok pf=<C|comma>
 *  thr global|C|comma|cstatic  uselocale(newlocale(LC_ALL_MASK, ..))   -> ok pf=..
 *                          (cstatic: newlocale(LC_ALL_MASK, "C", 0) = glibc's static object; duplocale/newlocale of it
 *                           return the same pointer, so handles are not canonical there: live=* t=*)
 *  tok <depth> <flags>     fresh tokeners (observed + reference)       -> ok
 *  reset                   json_tokener_reset                          -> ok
 *  fmt g|t <hexfmt|->      json_c_set_serialization_double_format      -> ok
 *  px <inj> <class> z|n|bad <hex>   one json_tokener_parse_ex call (z: length includes the NUL, bad: len = -2)
 *  ser <flags> <bits>      json_object_to_json_string_ext(json_object_new_double(bits), flags)
 *  sert <flags> <tree>     same on a jtree-built tree
 *    -> h=<before>><after> pf=<before>><after> live=<+n> eq=<1|0[..]> sd=<ok|comma> ## t=<calls> err=<e> | out=<hex>
 */
#define _GNU_SOURCE
#include "jtree.h"
#include <locale.h>
#include <stdarg.h>

#define COMMA_LOCALE "xx_XX.utf8"
#define CCOPY_LOCALE "cc_CC.utf8" /* C conventions, but not glibc's static C-locale object */

locale_t __real_newlocale(int mask, const char *name, locale_t base);
locale_t __real_duplocale(locale_t l);
void __real_freelocale(locale_t l);
locale_t __real_uselocale(locale_t l);
double __real_strtod(const char *s, char **e);
void *__real_malloc(size_t n);
void *__real_calloc(size_t a, size_t b);
void *__real_realloc(void *p, size_t n);
char *__real_strdup(const char *s);

static locale_t user_obj; /* the caller's per-thread locale object, if any */
static int user_static;    /* user_obj is glibc's static C-locale object */
static int custom_g, custom_t; /* a custom double format is set (global / thread) */

static struct wrapstate
{
	int armed;
	int fail_dup; /* 0 no, 1 ENOMEM, 2 other errno */
	int fail_new;
	int alloc_k; /* > 0: the k-th allocation the library makes in the armed window fails (injection m<k>) */
	char log[2048];
	size_t n;
	locale_t objs[16];
	char names[16];
	int nobj;
	char next;
	int live;   /* created - freed during the armed window */
	int sd_bad; /* a strtod ran while the radix character was not '.' */
} wr;

static void wlog(const char *fmt, ...)
{
	va_list ap;
	va_start(ap, fmt);
	if (wr.n < sizeof(wr.log) - 64)
	{
		if (wr.n)
			wr.log[wr.n++] = ',';
		wr.n += (size_t)vsnprintf(wr.log + wr.n, sizeof(wr.log) - wr.n, fmt, ap);
	}
	va_end(ap);
}

static const char *lname(locale_t l)
{
	static char buf[4][4];
	static int k;
	char *b = buf[k++ & 3];
	b[1] = 0;
	if (l == (locale_t)0)
		b[0] = '0';
	else if (l == LC_GLOBAL_LOCALE)
		b[0] = 'G';
	else if (l == user_obj)
		b[0] = 'U';
	else
	{
		b[0] = '?';
		for (int i = 0; i < wr.nobj; i++)
			if (wr.objs[i] == l)
				b[0] = wr.names[i];
	}
	return b;
}

static void reg(locale_t l)
{
	if (wr.nobj < 16)
	{
		wr.objs[wr.nobj] = l;
		wr.names[wr.nobj] = wr.next;
		wr.nobj++;
	}
	if (wr.next < 'z')
		wr.next++;
}

static int unreg(locale_t l)
{
	for (int i = 0; i < wr.nobj; i++)
		if (wr.objs[i] == l)
		{
			wr.objs[i] = wr.objs[wr.nobj - 1];
			wr.names[i] = wr.names[wr.nobj - 1];
			wr.nobj--;
			return 1;
		}
	return 0;
}

locale_t __wrap_duplocale(locale_t l)
{
	if (!wr.armed)
		return __real_duplocale(l);
	const char *a = lname(l);
	if (wr.fail_dup)
	{
		errno = wr.fail_dup == 1 ? ENOMEM : EINVAL;
		wlog("d(%s)=0", a);
		return (locale_t)0;
	}
	locale_t r = __real_duplocale(l);
	if (r)
	{
		reg(r);
		wr.live++;
	}
	wlog("d(%s)=%s", a, lname(r));
	return r;
}

locale_t __wrap_newlocale(int mask, const char *name, locale_t base)
{
	if (!wr.armed)
		return __real_newlocale(mask, name, base);
	const char *a = lname(base);
	const char *shape = (mask == LC_NUMERIC_MASK && name && !strcmp(name, "C")) ? "n" : "n!";
	if (wr.fail_new)
	{
		errno = ENOMEM;
		wlog("%s(%s)=0", shape, a);
		return (locale_t)0;
	}
	locale_t r = __real_newlocale(mask, name, base);
	if (r)
	{
		/* the base object is consumed (glibc reuses its storage): a successful call retires it */
		if (base != (locale_t)0 && base != LC_GLOBAL_LOCALE)
		{
			if (unreg(base))
				wr.live--;
		}
		reg(r);
		wr.live++;
	}
	wlog("%s(%s)=%s", shape, a, lname(r));
	return r;
}

void __wrap_freelocale(locale_t l)
{
	if (!wr.armed)
	{
		__real_freelocale(l);
		return;
	}
	wlog("f(%s)", lname(l));
	if (l == (locale_t)0 || l == LC_GLOBAL_LOCALE || l == user_obj)
		return; /* undefined behaviour in the library: logged, not executed */
	/* freeing the locale the thread is using is undefined: logged, not executed, the object stays counted as live
	 * (it is released by the harness after the call) */
	if (__real_uselocale((locale_t)0) == l)
	{
		wlog("f-in-use");
		return;
	}
	if (unreg(l))
	{
		wr.live--;
		__real_freelocale(l);
	}
}

locale_t __wrap_uselocale(locale_t l)
{
	if (!wr.armed)
		return __real_uselocale(l);
	const char *a = lname(l);
	locale_t r = __real_uselocale(l);
	wlog("u(%s)=%s", a, lname(r));
	return r;
}

double __wrap_strtod(const char *s, char **e)
{
	if (wr.armed)
	{
		const char *dp = localeconv()->decimal_point;
		if (!(dp[0] == '.' && dp[1] == 0))
			wr.sd_bad = 1;
	}
	return __real_strtod(s, e);
}

/* allocation-failure injection: the library's own malloc / calloc / realloc / strdup calls (glibc's internal ones,
 * e.g. inside newlocale, are not affected by --wrap) */
static int alloc_fails(void)
{
	if (!wr.armed || wr.alloc_k <= 0)
		return 0;
	return --wr.alloc_k == 0;
}
void *__wrap_malloc(size_t n)
{
	if (alloc_fails())
	{
		errno = ENOMEM;
		return NULL;
	}
	return __real_malloc(n);
}
void *__wrap_calloc(size_t a, size_t b)
{
	if (alloc_fails())
	{
		errno = ENOMEM;
		return NULL;
	}
	return __real_calloc(a, b);
}
void *__wrap_realloc(void *p, size_t n)
{
	if (alloc_fails())
	{
		errno = ENOMEM;
		return NULL;
	}
	return __real_realloc(p, n);
}
char *__wrap_strdup(const char *s)
{
	if (alloc_fails())
	{
		errno = ENOMEM;
		return NULL;
	}
	return __real_strdup(s);
}

static void arm(const char *inj)
{
	memset(&wr, 0, sizeof(wr));
	wr.next = 'a';
	if (inj[0] == 'm')
		wr.alloc_k = atoi(inj + 1);
	wr.fail_dup = strchr(inj, 'd') ? 1 : strchr(inj, 'o') ? 2 : 0;
	wr.fail_new = strchr(inj, 'n') ? 1 : 0;
	wr.armed = 1;
}

/* objects the library created and did not free: release them (after they were counted) */
static void disarm_and_collect(void)
{
	wr.armed = 0;
	for (int i = 0; i < wr.nobj; i++)
	{
		if (wr.objs[i] == user_obj)
			continue; /* glibc's static C-locale object handed back by duplocale/newlocale */
		if (__real_uselocale((locale_t)0) == wr.objs[i])
			__real_uselocale(LC_GLOBAL_LOCALE);
		__real_freelocale(wr.objs[i]);
	}
	wr.nobj = 0;
}

static const char *pf(void)
{
	char b[64];
	snprintf(b, sizeof b, "%f", 1.5);
	return strchr(b, ',') ? "comma" : strchr(b, '.') ? "C" : "other";
}

static const char *locname(const char *w)
{
	if (!strcmp(w, "C"))
		return "C";
	if (!strcmp(w, "cstatic"))
		return "C";
	if (!strcmp(w, "comma"))
		return COMMA_LOCALE;
	return NULL;
}

static const char *errn(enum json_tokener_error e)
{
	switch (e)
	{
	case json_tokener_success: return "success";
	case json_tokener_continue: return "continue";
	case json_tokener_error_depth: return "depth";
	case json_tokener_error_parse_eof: return "eof";
	case json_tokener_error_parse_unexpected: return "unexpected";
	case json_tokener_error_parse_null: return "null";
	case json_tokener_error_parse_boolean: return "boolean";
	case json_tokener_error_parse_number: return "number";
	case json_tokener_error_parse_array: return "array";
	case json_tokener_error_parse_object_key_name: return "object_key_name";
	case json_tokener_error_parse_object_key_sep: return "object_key_sep";
	case json_tokener_error_parse_object_value_sep: return "object_value_sep";
	case json_tokener_error_parse_string: return "string";
	case json_tokener_error_parse_comment: return "comment";
	case json_tokener_error_parse_utf8_string: return "utf8";
	case json_tokener_error_size: return "size";
	case json_tokener_error_memory: return "memory";
	}
	return "other";
}

/* jt_dump prints to stdout: capture it in a string (glibc lets stdout be re-pointed) */
static char *dump_to_string(struct json_object *o)
{
	char *buf = NULL;
	size_t len = 0;
	FILE *m = open_memstream(&buf, &len), *save = stdout;
	fflush(stdout);
	stdout = m;
	jt_dump(o);
	stdout = save;
	fclose(m);
	return buf;
}

static struct json_tokener *tok, *rtok;

/* the plain C locale for the reference run: global "C", thread on the global locale */
static locale_t ref_saved_thr;
static char *ref_saved_glob;
static void ref_enter(void)
{
	ref_saved_thr = __real_uselocale(LC_GLOBAL_LOCALE);
	ref_saved_glob = strdup(setlocale(LC_ALL, NULL));
	setlocale(LC_ALL, "C");
}
static void ref_leave(void)
{
	__real_uselocale(LC_GLOBAL_LOCALE);
	setlocale(LC_ALL, ref_saved_glob);
	free(ref_saved_glob);
	__real_uselocale(ref_saved_thr);
}

struct seen
{
	char hb[4], ha[4];
	const char *pfb, *pfa;
	locale_t before;
};
static void see_before(struct seen *s)
{
	s->before = __real_uselocale((locale_t)0);
	strcpy(s->hb, lname(s->before));
	s->pfb = pf();
}
static void see_after(struct seen *s)
{
	locale_t now = __real_uselocale((locale_t)0);
	strcpy(s->ha, lname(now));
	s->pfa = pf();
	if (now != s->before)
		__real_uselocale(s->before); /* keep the following ops meaningful */
}

static void print_line(struct seen *s, int eq, const char *got, const char *ref, const char *tail_key, const char *tail)
{
	if (user_static)
		printf("h=%s>%s pf=%s>%s live=* ", s->hb, s->ha, s->pfb, s->pfa);
	else
		printf("h=%s>%s pf=%s>%s live=%+d ", s->hb, s->ha, s->pfb, s->pfa, wr.live);
	if (eq)
		printf("eq=1");
	else
		printf("eq=0[%s|%s]", got, ref);
	printf(" sd=%s ## t=%s %s=%s\n", wr.sd_bad ? "comma" : "ok", user_static ? "*" : wr.n ? wr.log : "-", tail_key, tail);
}

static char *parse_once(struct json_tokener *t, const char *data, int len)
{
	struct json_object *o = json_tokener_parse_ex(t, data, len);
	enum json_tokener_error e = json_tokener_get_error(t);
	char *d = (e == json_tokener_success) ? dump_to_string(o) : strdup("-");
	char *r = NULL;
	if (asprintf(&r, "%s@%zu:%s", errn(e), json_tokener_get_parse_end(t), d) < 0)
		abort();
	free(d);
	if (o)
		json_object_put(o);
	return r;
}

static void do_px(void)
{
	size_t n;
	char *data = unhexz(W[4], &n);
	int len = !strcmp(W[3], "z") ? (int)n + 1 : !strcmp(W[3], "bad") ? -2 : (int)n;
	struct seen s;
	/* reference: plain C locale, same injection */
	ref_enter();
	arm(W[1]);
	char *ref = parse_once(rtok, data, len);
	disarm_and_collect();
	ref_leave();
	/* observed */
	see_before(&s);
	arm(W[1]);
	char *got = parse_once(tok, data, len);
	wr.armed = 0;
	see_after(&s);
	disarm_and_collect();
	char err[32];
	snprintf(err, sizeof err, "%.*s", (int)strcspn(got, "@"), got);
	/* under an allocation-failure injection the outcome (memory error, or unaffected when the call makes fewer
	 * allocations) is not what this property is about: only the locale state is */
	print_line(&s, !strcmp(got, ref), got, ref, "err", W[1][0] == 'm' ? "*" : err);
	free(got);
	free(ref);
	free(data);
}

static char *ser_once(struct json_object *o, int flags)
{
	const char *t = json_object_to_json_string_ext(o, flags);
	size_t n = t ? strlen(t) : 0;
	char *r = (char *)malloc(2 * n + 2), *p = r;
	if (!n)
		*p++ = '-';
	for (size_t i = 0; i < n; i++)
		p += sprintf(p, "%02x", (unsigned char)t[i]);
	*p = 0;
	return r;
}

static void do_ser(int tree)
{
	int flags = atoi(W[1]);
	char spec[32];
	const char *src = W[2];
	if (!tree)
	{
		snprintf(spec, sizeof spec, "d%s", W[2]);
		src = spec;
	}
	struct seen s;
	const char *p;
	ref_enter();
	p = src;
	struct json_object *ro = jt_build(&p);
	arm("-");
	char *ref = ser_once(ro, flags);
	disarm_and_collect();
	json_object_put(ro);
	ref_leave();
	p = src;
	struct json_object *o = jt_build(&p);
	see_before(&s);
	arm("-");
	char *got = ser_once(o, flags);
	wr.armed = 0;
	see_after(&s);
	disarm_and_collect();
	json_object_put(o);
	print_line(&s, !strcmp(got, ref), got, ref, "out", (tree || custom_g || custom_t) ? "*" : got);
	free(got);
	free(ref);
}

static void set_thread_locale(const char *name)
{
	user_static = 0;
	__real_uselocale(LC_GLOBAL_LOCALE);
	if (user_obj)
	{
		__real_freelocale(user_obj);
		user_obj = (locale_t)0;
	}
	if (name)
	{
		user_obj = __real_newlocale(LC_ALL_MASK, name, (locale_t)0);
		if (user_obj)
			__real_uselocale(user_obj);
	}
}

static void free_toks(void)
{
	if (tok)
		json_tokener_free(tok);
	if (rtok)
		json_tokener_free(rtok);
	tok = rtok = NULL;
}

int main(void)
{
	while (hc_read())
	{
		if (hc_line[0] == '#')
		{
			puts(hc_line);
			free_toks();
			set_thread_locale(NULL);
			setlocale(LC_ALL, "C");
			json_c_set_serialization_double_format(NULL, JSON_C_OPTION_GLOBAL);
			json_c_set_serialization_double_format(NULL, JSON_C_OPTION_THREAD);
			custom_g = custom_t = 0;
			continue;
		}
		hc_split();
		if (NW == 0)
		{
			puts("bad-op");
			continue;
		}
		if (!strcmp(W[0], "glob") && NW == 2 && locname(W[1]))
		{
			if (!setlocale(LC_ALL, locname(W[1])))
				puts("locale-not-available");
			else
				printf("ok pf=%s\n", pf());
		}
		else if (!strcmp(W[0], "thr") && NW == 2 && (locname(W[1]) || !strcmp(W[1], "global")))
		{
			set_thread_locale(!strcmp(W[1], "C") ? CCOPY_LOCALE : locname(W[1]));
			user_static = !strcmp(W[1], "cstatic");
			if (locname(W[1]) && !user_obj)
				puts("locale-not-available");
			else
				printf("ok pf=%s\n", pf());
		}
		else if (!strcmp(W[0], "tok") && NW == 3)
		{
			free_toks();
			tok = json_tokener_new_ex(atoi(W[1]));
			rtok = json_tokener_new_ex(atoi(W[1]));
			if (tok && rtok)
			{
				json_tokener_set_flags(tok, atoi(W[2]));
				json_tokener_set_flags(rtok, atoi(W[2]));
				puts("ok");
			}
			else
				puts("no-tokener");
		}
		else if (!strcmp(W[0], "reset") && NW == 1 && tok)
		{
			json_tokener_reset(tok);
			json_tokener_reset(rtok);
			puts("ok");
		}
		else if (!strcmp(W[0], "fmt") && NW == 3)
		{
			char *f = strcmp(W[2], "-") ? unhexz(W[2], NULL) : NULL;
			int thread = !strcmp(W[1], "t");
			int rc = json_c_set_serialization_double_format(f, thread ? JSON_C_OPTION_THREAD : JSON_C_OPTION_GLOBAL);
			if (thread)
				custom_t = f != NULL;
			else
				custom_g = f != NULL;
			free(f);
			puts(rc == 0 ? "ok" : "fmt-failed");
		}
		else if (!strcmp(W[0], "px") && NW == 5 && tok)
			do_px();
		else if (!strcmp(W[0], "ser") && NW == 3 && strlen(W[2]) == 16)
			do_ser(0);
		else if (!strcmp(W[0], "sert") && NW == 3)
			do_ser(1);
		else
			puts("bad-op");
		fflush(stdout);
	}
	free_toks();
	set_thread_locale(NULL);
	json_c_set_serialization_double_format(NULL, JSON_C_OPTION_GLOBAL);
	json_c_set_serialization_double_format(NULL, JSON_C_OPTION_THREAD);
	free(hc_line);
	return 0;
}
