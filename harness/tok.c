/* Tokener harness (C01 C03 C04 C15 C16): drives json_tokener_parse_ex of the current working tree.
 * ops:  new <depth> <flags> | p <hex>  (len = |data|, data in an exact-size heap block)
 *       pz <hex> (len = -1; data + NUL in an exact-size heap block) | reset | flags <n> | free
 * after every parse:  <err> <end> <value dump or -> ## <depth> <st:sv,...> <pb st_pos is_double ucs hs quote | ->
 * (the scratch fields are reported only when more input is needed: after an error or a success the
 *  C code leaves pb without the bytes of the last chunk, by design) */
#include "jtree.h"
#include "json_tokener.h"
#include "json_util.h"
#include <sys/mman.h>
#include <unistd.h>

static struct json_tokener *tok;
static int poisoned; /* an error status was returned: the tokener must be reset before further use */

static void show(struct json_object *obj)
{
	enum json_tokener_error e = json_tokener_get_error(tok);
	if (e != json_tokener_success && e != json_tokener_continue)
		poisoned = 1;
	printf("%d %zu ", (int)e, json_tokener_get_parse_end(tok));
	if (e == json_tokener_success)
		jt_dump(obj);
	else
		putchar(obj ? '!' : '-'); /* a value with an error status would be a violation */
	printf(" ## %d ", tok->depth);
	for (int i = tok->depth; i >= 0; i--)
		printf("%d:%d%s", (int)tok->stack[i].state, (int)tok->stack[i].saved_state, i ? "," : "");
	if (e == json_tokener_continue)
	{
		/* scratch fields are reported only where they are live (read before written) in the
		 * state the top level is in; elsewhere they hold leftovers of earlier tokens */
		int st = (int)tok->stack[tok->depth].state;
		int esc = st == json_tokener_state_string_escape || st == json_tokener_state_escape_unicode ||
		          st == json_tokener_state_escape_unicode_need_escape || st == json_tokener_state_escape_unicode_need_u;
		int str = st == json_tokener_state_string || st == json_tokener_state_object_field || esc;
		int kw = st == json_tokener_state_null || st == json_tokener_state_boolean || st == json_tokener_state_inf;
		putchar(' ');
		if (str || kw || st == json_tokener_state_number)
			puthex(tok->pb->buf, (size_t)tok->pb->bpos);
		else
			putchar('~');
		if (kw || st == json_tokener_state_escape_unicode)
			printf(" %d", tok->st_pos);
		else
			printf(" ~");
		if (st == json_tokener_state_number)
			printf(" %d", tok->is_double ? 1 : 0);
		else
			printf(" ~");
		if (st == json_tokener_state_escape_unicode)
			printf(" %u", tok->ucs_char);
		else
			printf(" ~");
		printf(" %u", tok->high_surrogate);
		if (str)
			printf(" %d", (int)(unsigned char)tok->quote_char);
		else
			printf(" ~");
	}
	else
		printf(" -");
	putchar('\n');
	if (obj)
		json_object_put(obj);
}

int main(void)
{
	while (hc_read())
	{
		if (hc_line[0] == '#')
		{
			puts(hc_line);
			if (tok)
				json_tokener_free(tok);
			tok = NULL;
			poisoned = 0;
			fflush(stdout);
			continue;
		}
		hc_split();
		if (NW == 0)
		{
			puts("bad-op");
			continue;
		}
		if (!strcmp(W[0], "fdx") && NW == 3)
		{
			/* the same depth limit through json_object_from_fd_ex(fd, depth): value dump, or - */
			size_t n;
			unsigned char *d = unhex(W[2], &n);
			int fd = memfd_create("fdx", 0);
			struct json_object *o = NULL;
			if (fd >= 0 && write(fd, d, n) == (ssize_t)n && lseek(fd, 0, SEEK_SET) == 0)
				o = json_object_from_fd_ex(fd, atoi(W[1]));
			if (fd >= 0)
				close(fd);
			printf("fdx ");
			if (o)
				jt_dump(o);
			else
				putchar('-');
			putchar('\n');
			if (o)
				json_object_put(o);
			free(d);
		}
		else if (!strcmp(W[0], "new") && NW == 3)
		{
			if (tok)
				json_tokener_free(tok);
			tok = json_tokener_new_ex(atoi(W[1]));
			poisoned = 0;
			if (tok)
				json_tokener_set_flags(tok, atoi(W[2]));
			puts(tok ? "ok" : "null");
		}
		else if (!tok)
			puts("no-tokener");
		else if (poisoned && (!strcmp(W[0], "p") || !strcmp(W[0], "pz")))
			puts("skipped-after-error");
		else if (!strcmp(W[0], "p") && NW == 2)
		{
			size_t n;
			unsigned char *d = unhex(W[1], &n);
			struct json_object *o = json_tokener_parse_ex(tok, (const char *)d, (int)n);
			show(o);
			free(d);
		}
		else if (!strcmp(W[0], "pz") && NW == 2)
		{
			size_t n;
			char *d = unhexz(W[1], &n);
			/* shrink to exactly strlen+1 so that any read past the first NUL is out of bounds */
			size_t sl = strlen(d);
			char *e = (char *)malloc(sl + 1);
			memcpy(e, d, sl + 1);
			free(d);
			struct json_object *o = json_tokener_parse_ex(tok, e, -1);
			show(o);
			free(e);
		}
		else if (!strcmp(W[0], "reset") && NW == 1)
		{
			json_tokener_reset(tok);
			poisoned = 0;
			puts("ok");
		}
		else if (!strcmp(W[0], "flags") && NW == 2)
		{
			json_tokener_set_flags(tok, atoi(W[1]));
			puts("ok");
		}
		else
			puts("bad-op");
		fflush(stdout);
	}
	if (tok)
		json_tokener_free(tok);
	return 0;
}
