/* C20 harness: json_util.c's descriptor I/O under a scripted operating system.
 * Linked with -Wl,--wrap=read,--wrap=write,--wrap=json_tokener_parse_ex: every read(2)/write(2)
 * the library issues goes through the schedule given on the op line
 *   schedule = "-" | comma list of  <n> (transfer at most n bytes) | Z (return 0) | E (fail, EIO);
 *   after the list is used up every call transfers everything asked for.
 * Ops (one per line; tree = JVal dump of jtree.h, "n" = NULL object; ser = hex | NULL):
 *   ser <flags> <tree>                                  -> hex of json_object_to_json_string_ext (generator pre-pass)
 *   write <flags> <tree> <ser> <sched>                  json_object_to_fd(77, ...)
 *   tofile <flags> <tree> <ser> <pathhex> <open> <sched> json_object_to_file_ext (chunks forwarded to the real file)
 *   read <depth|d> <datahex> <sched>                    json_object_from_fd_ex(77, depth) / json_object_from_fd(77)
 *   fromfile <pathhex> <open> <datahex> <sched>         json_object_from_file on a real file
 *   rpipe <depth> <datahex> <chunks>                    real pipe, writer thread
 *   wpipe <flags> <tree> <ser>                          real non-blocking pipe of one page
 * The message buffer is cleared before every op, so "err" says whether *this* call left a message. */
#include "hcommon.h"
#include "jtree.h"
#include <dirent.h>
#include <fcntl.h>
#include <pthread.h>
#include <sys/stat.h>
#include <unistd.h>
#include <stdarg.h>

extern ssize_t __real_write(int, const void *, size_t);
extern ssize_t __real_read(int, void *, size_t);
extern struct json_object *__real_json_tokener_parse_ex(struct json_tokener *, const char *, int);

extern void *__real_malloc(size_t);
extern void *__real_calloc(size_t, size_t);
extern void *__real_realloc(void *, size_t);
extern void __real_free(void *);
extern char *__real_strdup(const char *);
extern int __real_vasprintf(char **, const char *, va_list);

/* live heap blocks obtained through the allocation entry points json-c uses (linked with
 * --wrap=malloc,calloc,realloc,free,strdup,vasprintf).  Only differences taken around a library
 * call are used: "the call released everything it allocated" = the difference is the size of
 * the returned tree, which json_object_put then brings back to zero. */
static long live_blocks;
void *__wrap_malloc(size_t n) { void *p = __real_malloc(n); if (p) live_blocks++; return p; }
void *__wrap_calloc(size_t a, size_t b) { void *p = __real_calloc(a, b); if (p) live_blocks++; return p; }
void *__wrap_realloc(void *o, size_t n)
{
	void *p = __real_realloc(o, n);
	if (!o && p) live_blocks++;
	return p;
}
void __wrap_free(void *p) { if (p) live_blocks--; __real_free(p); }
char *__wrap_strdup(const char *s0) { char *p = __real_strdup(s0); if (p) live_blocks++; return p; }
int __wrap_vasprintf(char **out, const char *f, va_list ap)
{
	int r = __real_vasprintf(out, f, ap);
	if (r >= 0) live_blocks++;
	return r;
}

#define FAKE_FD 77
#define CANON_FD 1000

enum { K_N, K_E, K_Z };
struct ent { int kind; size_t n; int err; }; /* K_E: err = the errno the call fails with (E: EIO, I: EINTR, A: EAGAIN) */
static struct ent *sch;
static size_t nsch, isch;

enum { M_PASS, M_WFAKE, M_WFILE, M_RMEM, M_RFILE };
static int mode = M_PASS;

struct call { size_t off, req; long len; };
static struct call *calls;
static size_t ncalls, capcalls;
static const char *wbase;
static unsigned char *deliv;
static size_t ndeliv, capdeliv;
static const unsigned char *rdata;
static size_t rlen, rpos;
static int seen_fd = -1;

/* json_tokener_parse_ex as called by the library */
static int p_called, p_depth;
static unsigned char *p_buf;
static size_t p_len;

/* A correct loop issues at most one call per schedule entry plus one per byte; anything far beyond
 * that is a loop that no longer makes progress: report it instead of eating memory. */
static size_t call_limit;

static void add_call(size_t off, size_t req, long len)
{
	if (call_limit && ncalls > call_limit)
	{
		printf("RUNAWAY-LOOP after %zu transfer calls (last: off=%zu req=%zu ret=%ld)\n", ncalls, off, req, len);
		fflush(stdout);
		_exit(97);
	}
	if (ncalls == capcalls)
	{
		capcalls = capcalls ? capcalls * 2 : 64;
		calls = (struct call *)__real_realloc(calls, capcalls * sizeof(*calls));
	}
	calls[ncalls].off = off;
	calls[ncalls].req = req;
	calls[ncalls].len = len;
	ncalls++;
}

static struct ent next_ent(void)
{
	struct ent full = {K_N, (size_t)-1, 0};
	return isch < nsch ? sch[isch++] : full;
}

ssize_t __wrap_write(int fd, const void *buf, size_t count)
{
	if (mode != M_WFAKE && mode != M_WFILE)
		return __real_write(fd, buf, count);
	/* the OS may read everything it is offered: touch it (ASan sees an over-long offer) */
	volatile unsigned char sink = 0;
	for (size_t i = 0; i < count; i++)
		sink ^= ((const unsigned char *)buf)[i];
	(void)sink;
	if (ncalls == 0)
		wbase = (const char *)buf;
	seen_fd = fd;
	struct ent e = next_ent();
	size_t off = (size_t)((const char *)buf - wbase);
	if (e.kind == K_E)
	{
		add_call(off, count, -1);
		errno = e.err;
		return -1;
	}
	size_t d = e.kind == K_Z ? 0 : (e.n < count ? e.n : count);
	add_call(off, count, (long)d);
	if (ndeliv + d > capdeliv)
	{
		capdeliv = (ndeliv + d) * 2 + 64;
		deliv = (unsigned char *)__real_realloc(deliv, capdeliv);
	}
	if (d)
		memcpy(deliv + ndeliv, buf, d);
	ndeliv += d;
	if (mode == M_WFILE)
	{
		size_t w = 0;
		while (w < d)
		{
			ssize_t r = __real_write(fd, (const char *)buf + w, d - w);
			if (r <= 0)
				break;
			w += (size_t)r;
		}
	}
	return (ssize_t)d;
}

ssize_t __wrap_read(int fd, void *buf, size_t count)
{
	if (mode != M_RMEM && mode != M_RFILE)
		return __real_read(fd, buf, count);
	seen_fd = fd;
	struct ent e = next_ent();
	if (e.kind == K_E)
	{
		add_call(0, count, -1);
		errno = e.err;
		return -1;
	}
	size_t k = e.kind == K_Z ? 0 : (e.n < count ? e.n : count);
	ssize_t ret;
	if (mode == M_RMEM)
	{
		if (k > rlen - rpos)
			k = rlen - rpos;
		if (k)
			memcpy(buf, rdata + rpos, k);
		rpos += k;
		ret = (ssize_t)k;
	}
	else
		ret = k == 0 ? 0 : __real_read(fd, buf, k);
	add_call(0, count, (long)ret);
	return ret;
}

struct json_object *__wrap_json_tokener_parse_ex(struct json_tokener *tok, const char *str, int len)
{
	size_t n = len < 0 ? strlen(str) : (size_t)len;
	p_called++;
	p_depth = tok->max_depth;
	__real_free(p_buf);
	p_buf = (unsigned char *)__real_malloc(n ? n : 1);
	if (n)
		memcpy(p_buf, str, n);
	p_len = n;
	return __real_json_tokener_parse_ex(tok, str, len);
}

static void parse_sched(const char *s)
{
	free(sch);
	sch = NULL;
	nsch = isch = 0;
	if (!strcmp(s, "-"))
		return;
	size_t cap = 1;
	for (const char *p = s; *p; p++)
		cap += *p == ',';
	sch = (struct ent *)malloc(cap * sizeof(*sch));
	while (*s)
	{
		struct ent e = {K_N, 0, 0};
		if (*s == 'E') { e.kind = K_E; e.err = EIO; s++; }
		else if (*s == 'I') { e.kind = K_E; e.err = EINTR; s++; }
		else if (*s == 'A') { e.kind = K_E; e.err = EAGAIN; s++; }
		else if (*s == 'Z') { e.kind = K_Z; s++; }
		else
		{
			char *end;
			e.n = (size_t)strtoull(s, &end, 10);
			s = end;
		}
		sch[nsch++] = e;
		if (*s == ',')
			s++;
	}
}

static void reset_logs(void)
{
	ncalls = 0;
	ndeliv = 0;
	wbase = NULL;
	seen_fd = -1;
	p_called = 0;
	rpos = 0;
}

static int count_fds(void)
{
	int n = 0;
	DIR *d = opendir("/proc/self/fd");
	if (!d)
		return -1;
	while (readdir(d))
		n++;
	closedir(d);
	return n;
}

static void clear_err(void)
{
	_json_c_set_last_err("%s", "");
	errno = 0;
}

static int fail_ser(struct json_object *o, struct printbuf *pb, int level, int flags)
{
	(void)o; (void)pb; (void)level; (void)flags;
	return -1;
}

static void print_msg(int canon_fd)
{
	const char *m = json_util_get_last_err();
	if (!m)
	{
		putchar('-');
		return;
	}
	if (canon_fd && seen_fd >= 0)
	{
		/* the descriptor number open(2) happened to return is not an observable */
		char pat[64], rep[64];
		snprintf(pat, sizeof pat, " fd %d:", seen_fd);
		snprintf(rep, sizeof rep, " fd %d:", CANON_FD);
		const char *q = strstr(m, pat);
		if (q)
		{
			puthex(m, (size_t)(q - m));
			puthex(rep, strlen(rep));
			if (strlen(q + strlen(pat)))
				puthex(q + strlen(pat), strlen(q + strlen(pat)));
			return;
		}
	}
	puthex(m, strlen(m));
}

static void print_calls(int with_off)
{
	if (ncalls == 0)
	{
		putchar('-');
		return;
	}
	for (size_t i = 0; i < ncalls; i++)
	{
		if (i)
			putchar(';');
		if (with_off)
			printf("%zu:", calls[i].off);
		printf("%zu:", calls[i].req);
		if (calls[i].len < 0 && with_off)
			putchar('E');
		else
			printf("%ld", calls[i].len);
	}
}

static char *dump_str(struct json_object *o)
{
	char *buf = NULL;
	size_t n = 0;
	FILE *m = open_memstream(&buf, &n);
	FILE *sv = stdout;
	stdout = m;
	jt_dump(o);
	stdout = sv;
	fclose(m);
	return buf;
}

/* write-side ops: which = 0 json_object_to_fd, 1 json_object_to_file_ext */
static void do_write(int which, int flags, const char *tree, const char *ser, const char *path, int openok,
                     const char *sched)
{
	const char *tp = tree;
	struct json_object *obj = jt_build(&tp);
	const char *serchk = "-";
	if (obj && !strcmp(ser, "NULL"))
		json_object_set_serializer(obj, fail_ser, NULL, NULL);
	if (obj)
	{
		/* the op line's serialization is the model's parameter: it must be what the library produces */
		const char *real = json_object_to_json_string_ext(obj, flags);
		if (!strcmp(ser, "NULL"))
			serchk = real ? "bad" : "ok";
		else
		{
			size_t n;
			unsigned char *want = unhex(ser, &n);
			serchk = (real && strlen(real) == n && !memcmp(real, want, n)) ? "ok" : "bad";
			free(want);
		}
	}
	parse_sched(sched);
	reset_logs();
	call_limit = nsch + 64 + (!strcmp(ser, "NULL") ? 0 : strlen(ser));
	int fds0 = count_fds();
	clear_err();
	int ret;
	long live0 = live_blocks;
	if (which == 0)
	{
		mode = M_WFAKE;
		ret = json_object_to_fd(FAKE_FD, obj, flags);
	}
	else
	{
		mode = M_WFILE;
		ret = json_object_to_file_ext(path, obj, flags);
	}
	mode = M_PASS;
	long leak = live_blocks - live0;
	int fds1 = count_fds();
	const char *m = json_util_get_last_err();
	printf("%d ", ret);
	puthex(deliv, ndeliv);
	printf(" err=%d fds=%d leak=%ld ## calls=", m ? 1 : 0, fds1 - fds0, leak);
	print_calls(1);
	printf(" msg=");
	print_msg(0);
	printf(" ser=%s", serchk);
	if (which == 1)
	{
		/* what is in the file must be what the wrapped write calls were given */
		const char *fv = "-";
		if (openok)
		{
			FILE *f = fopen(path, "rb");
			if (f)
			{
				unsigned char *got = (unsigned char *)malloc(ndeliv + 2);
				size_t n = fread(got, 1, ndeliv + 1, f);
				fclose(f);
				fv = (n == ndeliv && (n == 0 || !memcmp(got, deliv, n))) ? "1" : "0";
				free(got);
				unlink(path);
			}
			else
				fv = "absent";
		}
		printf(" file=%s", fv);
	}
	putchar('\n');
	json_object_put(obj);
}

/* after a read-side call: compare with parsing the same bytes from memory */
static void report_read(struct json_object *res, const unsigned char *data, size_t len, int depth_eff, int real,
                        int fds, int canon_fd, long leak_call)
{
	const char *m = json_util_get_last_err();
	if (!real)
	{
		/* "the same bytes" = what the descriptor holds before its end of file: all the data, or the part
		 * before a scheduled zero return (each call hands over at most JSON_FILE_BUF_SIZE bytes) */
		size_t pos = 0;
		for (size_t i = 0; i < nsch && pos < len; i++)
		{
			if (sch[i].kind == K_E)
				break;
			if (sch[i].kind == K_Z)
			{
				len = pos;
				break;
			}
			size_t k = sch[i].n < JSON_FILE_BUF_SIZE ? sch[i].n : JSON_FILE_BUF_SIZE;
			pos += k < len - pos ? k : len - pos;
		}
	}
	/* the oracle: one json_tokener_parse_ex call over the same bytes, tokener of the configured depth */
	int same = -1;
	char *a = NULL, *b = NULL;
	const char *desc = "";
	struct json_object *memobj = NULL;
	int have_mem = 0;
	if (p_called)
	{
		struct json_tokener *tok = json_tokener_new_ex(depth_eff);
		same = 0;
		if (tok)
		{
			char *copy = (char *)malloc(len + 1);
			if (len)
				memcpy(copy, data, len);
			copy[len] = 0;
			memobj = __real_json_tokener_parse_ex(tok, copy, (int)len);
			have_mem = 1;
			desc = json_tokener_error_desc(json_tokener_get_error(tok));
			free(copy);
			a = dump_str(res);
			b = dump_str(memobj);
			same = ((res == NULL) == (memobj == NULL)) && !strcmp(a, b) &&
			       (res ? m == NULL : (m != NULL && strstr(m, desc) != NULL));
			/* the parser ran once, on a tokener with the configured depth limit, over exactly those bytes */
			same = same && p_called == 1 && p_depth == depth_eff;
			if (!real)
				same = same && p_len == len && (len == 0 || !memcmp(p_buf, data, len));
			json_tokener_free(tok);
		}
	}
	/* blocks the call left allocated, minus those that make up the returned tree */
	int was_null = res == NULL;
	long l1 = live_blocks;
	json_object_put(res);
	long leak = leak_call - (l1 - live_blocks);
	if (p_called)
	{
		printf("PARSED err=- same=%d", same);
		if (real)
			printf(" ## real");
		else
		{
			printf(" fds=%d leak=%ld ## reads=", fds, leak);
			print_calls(0);
			printf(" parse=%d:", p_depth);
			puthex(p_buf, p_len);
			printf(" msg=P");
		}
		if (same != 1)
		{
			printf(" fdres=%s memres=%s memerr=%s msg=", was_null ? "NULL" : (a ? a : "?"),
			       !have_mem ? "no-tokener" : (memobj ? b : "NULL"), desc);
			print_msg(0);
		}
		putchar('\n');
	}
	else
	{
		printf("%s err=%d same=-", was_null ? "NULL" : "OBJ", m ? 1 : 0);
		if (real)
			printf(" ## real msg=");
		else
		{
			printf(" fds=%d leak=%ld ## reads=", fds, leak);
			print_calls(0);
			printf(" parse=- msg=");
		}
		print_msg(canon_fd);
		putchar('\n');
	}
	free(a);
	free(b);
	json_object_put(memobj);
}

struct feeder { int fd; const unsigned char *data; size_t len; const char *chunks; };

static void *feed(void *arg)
{
	struct feeder *f = (struct feeder *)arg;
	size_t pos = 0;
	const char *s = f->chunks;
	while (pos < f->len)
	{
		size_t n = f->len - pos;
		if (*s && strcmp(s, "-"))
		{
			char *end;
			size_t k = (size_t)strtoull(s, &end, 10);
			s = *end == ',' ? end + 1 : end;
			if (k && k < n)
				n = k;
		}
		ssize_t w = __real_write(f->fd, f->data + pos, n);
		if (w <= 0)
			break;
		pos += (size_t)w;
		usleep(150);
	}
	close(f->fd);
	return NULL;
}

int main(void)
{
	setenv("_JSON_C_STRERROR_ENABLE", "1", 1);
	const char *dir = getenv("VERIF_FDIO_DIR");
	char dflt[256];
	if (!dir)
	{
		snprintf(dflt, sizeof dflt, "fdio-work-%d", (int)getpid());
		dir = dflt;
	}
	mkdir(dir, 0755);
	if (chdir(dir) != 0)
	{
		perror("chdir");
		return 3;
	}
	{
		int fd = open("plainfile", O_WRONLY | O_CREAT | O_TRUNC, 0644);
		if (fd >= 0)
			close(fd);
	}
	while (hc_read())
	{
		if (hc_line[0] == '#')
		{
			puts(hc_line);
			continue;
		}
		hc_split();
		if (NW == 0)
		{
			puts("bad-op");
			continue;
		}
		if (!strcmp(W[0], "ser") && NW == 3)
		{
			const char *tp = W[2];
			struct json_object *obj = jt_build(&tp);
			const char *s = json_object_to_json_string_ext(obj, atoi(W[1]));
			if (s)
				puthex(s, strlen(s));
			else
				printf("NULL");
			putchar('\n');
			json_object_put(obj);
		}
		else if (!strcmp(W[0], "write") && NW == 5)
			do_write(0, atoi(W[1]), W[2], W[3], NULL, 0, W[4]);
		else if (!strcmp(W[0], "tofile") && NW == 7)
		{
			char *path = unhexz(W[4], NULL);
			do_write(1, atoi(W[1]), W[2], W[3], path, !strcmp(W[5], "ok"), W[6]);
			free(path);
		}
		else if (!strcmp(W[0], "read") && NW == 4)
		{
			size_t len;
			unsigned char *data = unhex(W[2], &len);
			int dflt_depth = !strcmp(W[1], "d");
			int depth = dflt_depth ? -1 : atoi(W[1]);
			parse_sched(W[3]);
			reset_logs();
			rdata = data;
			rlen = len;
			call_limit = nsch + 64 + len;
			int fds0 = count_fds();
			clear_err();
			long live0 = live_blocks;
			mode = M_RMEM;
			struct json_object *res = dflt_depth ? json_object_from_fd(FAKE_FD) : json_object_from_fd_ex(FAKE_FD, depth);
			mode = M_PASS;
			long leak = live_blocks - live0;
			int fds1 = count_fds();
			report_read(res, data, len, depth == -1 ? JSON_TOKENER_DEFAULT_DEPTH : depth, 0, fds1 - fds0, 0, leak);
			free(data);
		}
		else if (!strcmp(W[0], "fromfile") && NW == 5)
		{
			size_t len;
			char *path = unhexz(W[1], NULL);
			unsigned char *data = unhex(W[3], &len);
			int created = 0;
			if (!strcmp(W[2], "ok"))
			{
				int fd = open(path, O_WRONLY | O_CREAT | O_TRUNC, 0644);
				if (fd >= 0)
				{
					size_t w = 0;
					while (w < len)
					{
						ssize_t r = __real_write(fd, data + w, len - w);
						if (r <= 0)
							break;
						w += (size_t)r;
					}
					close(fd);
					created = 1;
				}
			}
			parse_sched(W[4]);
			reset_logs();
			call_limit = nsch + 64 + len;
			int fds0 = count_fds();
			clear_err();
			long live0 = live_blocks;
			mode = M_RFILE;
			struct json_object *res = json_object_from_file(path);
			mode = M_PASS;
			long leak = live_blocks - live0;
			int fds1 = count_fds();
			report_read(res, data, len, JSON_TOKENER_DEFAULT_DEPTH, 0, fds1 - fds0, 1, leak);
			if (created)
				unlink(path);
			free(data);
			free(path);
		}
		else if (!strcmp(W[0], "rpipe") && NW == 4)
		{
			size_t len;
			unsigned char *data = unhex(W[2], &len);
			int depth = atoi(W[1]);
			int p[2];
			if (pipe(p) != 0)
			{
				puts("pipe-failed");
				free(data);
				continue;
			}
			struct feeder f = {p[1], data, len, W[3]};
			pthread_t th;
			reset_logs();
			clear_err();
			pthread_create(&th, NULL, feed, &f);
			struct json_object *res = json_object_from_fd_ex(p[0], depth);
			pthread_join(th, NULL);
			close(p[0]);
			report_read(res, data, len, depth == -1 ? JSON_TOKENER_DEFAULT_DEPTH : depth, 1, 0, 0, 0);
			free(data);
		}
		else if (!strcmp(W[0], "wpipe") && NW == 4)
		{
			const char *tp = W[2];
			struct json_object *obj = jt_build(&tp);
			size_t n;
			unsigned char *want = unhex(W[3], &n);
			int p[2];
			if (pipe(p) != 0)
			{
				puts("pipe-failed");
				free(want);
				json_object_put(obj);
				continue;
			}
			fcntl(p[1], F_SETFL, fcntl(p[1], F_GETFL) | O_NONBLOCK);
			fcntl(p[0], F_SETFL, fcntl(p[0], F_GETFL) | O_NONBLOCK);
#ifdef F_SETPIPE_SZ
			fcntl(p[1], F_SETPIPE_SZ, 4096);
#endif
			clear_err();
			int ret = json_object_to_fd(p[1], obj, atoi(W[1]));
			const char *m = json_util_get_last_err();
			close(p[1]);
			unsigned char *got = (unsigned char *)malloc(n + 4096);
			size_t g = 0;
			for (;;)
			{
				ssize_t r = __real_read(p[0], got + g, n + 4096 - g);
				if (r <= 0)
					break;
				g += (size_t)r;
			}
			close(p[0]);
			int ok = (ret == 0 && g == n && !memcmp(got, want, n) && !m) ||
			         (ret == -1 && g < n && !memcmp(got, want, g) && m && strstr(m, "EAGAIN"));
			if (ok)
				printf("wpipe-ok ## real\n");
			else
			{
				printf("wpipe-BAD ## real ret=%d got=%zu of %zu msg=", ret, g, n);
				print_msg(0);
				putchar('\n');
			}
			free(got);
			free(want);
			json_object_put(obj);
		}
		else
			puts("bad-op");
		fflush(stdout);
	}
	unlink("plainfile");
	if (chdir("..") == 0)
		rmdir(dir);
	free(sch);
	__real_free(calls);
	__real_free(deliv);
	__real_free(p_buf);
	free(hc_line);
	return 0;
}
