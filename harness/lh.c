/* C06 harness: drives linkhash.c (lh_table_* with caller-supplied or the real string hashes) and the
 * json_object object layer of the current working tree.  One line per op:
 *   <ret> <val> n=<count> [<contents in list order>] <iteration output> ## size=.. idx=.. slots=[..] freed=..
 * Keys are C strings given in hex; values are ints (-1 = NULL json_object at the object layer). */
#define HC_NO_WATCHDOG /* this harness does its own timing */
#include "hcommon.h"
#include "json.h"
#include "linkhash.h"
#include "json_visit.h"
#include <signal.h>
#include <sys/time.h>
#include <unistd.h>

/* ---- the entropy source: -1 (the "uninitialised" sentinel of lh_char_hash) once, then a fixed seed.
 * linked with -Wl,--wrap=json_c_get_random_seed */
#define HARNESS_SEED 0x5eed1234
static int seed_calls;
int __wrap_json_c_get_random_seed(void)
{
	return seed_calls++ == 0 ? -1 : HARNESS_SEED;
}

/* ---- watchdog: an op that does not return is a result, not a hang of the check.  The timer counts
 * CPU time of this process (every op takes microseconds), the handler jumps back to the main loop, the
 * op is answered "HANG", the rest of its case is abandoned (the table is dropped, not freed); after
 * HANG_LIMIT hangs later cases are answered without being run, so a broken loop costs seconds. */
#include <setjmp.h>
#define HANG_LIMIT 8
static sigjmp_buf hang_jmp;
static volatile int hang_armed;
static int hangs, abandoned;
static void on_alarm(int sig)
{
	(void)sig;
	if (hang_armed)
	{
		hang_armed = 0;
		siglongjmp(hang_jmp, 1);
	}
}
static void arm_us(long secs, long usecs)
{
	struct itimerval it = {{0, 0}, {secs, usecs}};
	setitimer(ITIMER_PROF, &it, NULL);
}
static void arm(int secs) { arm_us(secs, 0); }

/* ---- caller-supplied hash functions (mirrored in lean/Driver/Lh.lean) */
static unsigned long atoi_key(const char *k)
{
	unsigned long a = 0;
	int n = 0;
	while (*k >= '0' && *k <= '9' && n < 9)
	{
		a = a * 10 + (unsigned long)(*k - '0');
		k++;
		n++;
	}
	return a;
}
static unsigned long h_const(const void *k) { (void)k; return 7; }
static unsigned long h_id(const void *k) { return atoi_key((const char *)k); }
static unsigned long h_mod3(const void *k) { return atoi_key((const char *)k) % 3; }
static unsigned long h_sum(const void *k)
{
	unsigned long s = 0;
	for (const unsigned char *p = (const unsigned char *)k; *p; p++)
		s += *p;
	return s;
}
static unsigned long h_big(const void *k) { return 9223372036854775808UL + atoi_key((const char *)k) * 4294967297UL; }
static int k_equal(const void *a, const void *b) { return strcmp((const char *)a, (const char *)b) == 0; }

/* ---- state of the current case */
static struct lh_table *T;      /* raw mode */
static struct json_object *O;   /* object mode */
#define POOLMAX 100000
static char **pool;             /* constant keys, live until the case ends */
static int npool;
static char freedlog[1 << 16];
static size_t freedlen;

static void logfree(struct lh_entry *e)
{
	const char *k = (const char *)lh_entry_k(e);
	int n = 0;
	if (freedlen && freedlen < sizeof(freedlog) - 1)
		freedlog[freedlen++] = ',';
	if (*k == 0 && freedlen < sizeof(freedlog) - 1)
		freedlog[freedlen++] = '-';
	for (; *k && freedlen < sizeof(freedlog) - 40; k++)
		freedlen += (size_t)sprintf(freedlog + freedlen, "%02x", (unsigned char)*k);
	n = snprintf(freedlog + freedlen, sizeof(freedlog) - freedlen, ":%c:%ld", lh_entry_k_is_constant(e) ? 'c' : 'd',
	             (long)(intptr_t)lh_entry_v(e));
	if (n > 0)
		freedlen += (size_t)n;
	if (!lh_entry_k_is_constant(e))
		free(lh_entry_k(e));
}

static void teardown(void)
{
	if (T)
		lh_table_free(T);
	T = NULL;
	if (O)
		json_object_put(O);
	O = NULL;
	for (int i = 0; i < npool; i++)
		free(pool[i]);
	npool = 0;
	freedlen = 0;
}

/* a key at a chosen alignment (hashlittle has three alignment-dependent paths); *blk is to be freed */
static char *key_at(const char *hex, void **blk)
{
	size_t n;
	char *s = unhexz(hex, &n);
	unsigned a = 0;
	for (size_t i = 0; i < n; i++)
		a += (unsigned char)s[i];
	a &= 3;
	char *b = (char *)malloc(n + 1 + a);
	memcpy(b + a, s, n + 1);
	free(s);
	*blk = b;
	return b + a;
}

static long oval(struct json_object *v) { return v ? (long)json_object_get_int64(v) : -1; }

static struct lh_table *tbl(void) { return T ? T : json_object_get_object(O); }

static void put_contents(void)
{
	int first = 1;
	putchar('[');
	if (T)
	{
		struct lh_entry *e;
		lh_foreach(T, e)
		{
			const char *k = (const char *)lh_entry_k(e);
			if (!first) putchar(',');
			first = 0;
			puthex(k, strlen(k));
			printf(":%ld", (long)(intptr_t)lh_entry_v(e));
		}
	}
	else
	{
		struct json_object_iterator it = json_object_iter_begin(O), end = json_object_iter_end(O);
		while (!json_object_iter_equal(&it, &end))
		{
			const char *k = json_object_iter_peek_name(&it);
			if (!first) putchar(',');
			first = 0;
			puthex(k, strlen(k));
			printf(":%ld", oval(json_object_iter_peek_value(&it)));
			json_object_iter_next(&it);
		}
	}
	putchar(']');
}

static void put_internals(long idx, int with_freed)
{
	struct lh_table *t = tbl();
	printf(" ## size=%d idx=", t->size);
	if (idx < 0) putchar('-'); else printf("%ld", idx);
	printf(" slots=[");
	for (int i = 0; i < t->size; i++)
	{
		const void *k = t->table[i].k;
		if (i) putchar(',');
		if (k == LH_EMPTY) putchar('E');
		else if (k == LH_FREED) putchar('F');
		else
		{
			puthex(k, strlen((const char *)k));
			printf("=%ld%c", T ? (long)(intptr_t)t->table[i].v : oval((struct json_object *)(uintptr_t)t->table[i].v),
			       t->table[i].k_is_constant ? 'c' : 'd');
		}
	}
	printf("] freed=");
	if (T && with_freed)
	{
		freedlog[freedlen] = 0;
		printf("[%s]", freedlog);
	}
	else
		putchar('-');
	putchar('\n');
	freedlen = 0;
}

/* iteration output buffer: "[k:v,...]" */
static char *itbuf;
static size_t itlen, itcap;
static int itfirst;
static void it_begin(void) { itlen = 0; itfirst = 1; if (!itbuf) { itcap = 1 << 16; itbuf = (char *)malloc(itcap); } itbuf[itlen++] = '['; }
static void it_add(const char *k, long v)
{
	size_t n = strlen(k);
	if (itlen + 2 * n + 40 > itcap)
	{
		itcap = (itcap + 2 * n + 40) * 2;
		itbuf = (char *)realloc(itbuf, itcap);
	}
	if (!itfirst) itbuf[itlen++] = ',';
	itfirst = 0;
	if (n == 0) itbuf[itlen++] = '-';
	for (size_t i = 0; i < n; i++)
		itlen += (size_t)sprintf(itbuf + itlen, "%02x", (unsigned char)k[i]);
	itlen += (size_t)sprintf(itbuf + itlen, ":%ld", v);
}
static void it_end(void) { itbuf[itlen++] = ']'; itbuf[itlen] = 0; }

static void show(long ret, int has_val, long val, const char *list, long idx, int with_freed)
{
	printf("%ld ", ret);
	if (has_val) printf("%ld", val); else putchar('-');
	printf(" n=%d ", T ? lh_table_length(T) : json_object_object_length(O));
	put_contents();
	printf(" %s", list ? list : "-");
	put_internals(idx, with_freed);
}

static int in_set(const char *k, char **set, int n)
{
	for (int i = 0; i < n; i++)
		if (!strcmp(k, set[i]))
			return 1;
	return 0;
}

static struct json_object *visit_root;
/* vdel: the visitor as an iteration form that deletes the member it is called for (and skips it) */
static char **vdel_set;
static int vdel_ns;
static int in_set(const char *k, char **set, int ns);
static void it_add(const char *k, long v);
static long oval(struct json_object *v);
static int vdel_cb(json_object *jso, int flags, json_object *parent, const char *key, size_t *index, void *userarg)
{
	(void)index; (void)userarg;
	if (parent != visit_root || !key || (flags & JSON_C_VISIT_SECOND))
		return JSON_C_VISIT_RETURN_CONTINUE;
	it_add(key, oval(jso));
	if (in_set(key, vdel_set, vdel_ns))
	{
		json_object_object_del(parent, key); /* key and jso are gone now */
		return JSON_C_VISIT_RETURN_SKIP;
	}
	return JSON_C_VISIT_RETURN_CONTINUE;
}
static int visit_cb(json_object *jso, int flags, json_object *parent, const char *key, size_t *index, void *userarg)
{
	(void)index; (void)userarg;
	if (parent == visit_root && key && !(flags & JSON_C_VISIT_SECOND))
		it_add(key, oval(jso));
	return JSON_C_VISIT_RETURN_CONTINUE;
}

static char *const_key(const char *k)
{
	char *c = strdup(k);
	if (npool < POOLMAX)
		pool[npool++] = c;
	return c;
}

/* the load-factor test exactly as lh_table_insert_w_hash writes it */
static int load_test(int count, int size)
{
	volatile int c = count, s = size;
	return c >= s * LH_LOAD_FACTOR;
}
static int load_threshold(int size)
{
	long c = (long)size * 66 / 100 - 2;
	if (c < 0) c = 0;
	for (int f = 0; f < 8; f++)
	{
		if (load_test((int)c, size))
			return (int)c;
		c++;
	}
	return (int)c;
}

int main(void)
{
	struct sigaction sa;
	memset(&sa, 0, sizeof sa);
	sa.sa_handler = on_alarm;
	sigaction(SIGPROF, &sa, NULL);
	pool = (char **)calloc(POOLMAX, sizeof(char *));
	while (hc_read())
	{
		if (hc_line[0] == '#')
		{
			puts(hc_line);
			fflush(stdout);
			arm(0);
			if (abandoned)
			{
				T = NULL; /* dropped on purpose: a call was interrupted in the middle */
				O = NULL;
				abandoned = 0;
			}
			teardown();
			continue;
		}
		if (abandoned || hangs >= HANG_LIMIT)
		{
			puts(abandoned ? "HANG-ABANDONED (an earlier call of this case did not return)" : "HANG-LIMIT (not run)");
			fflush(stdout);
			continue;
		}
		hc_split();
		if (sigsetjmp(hang_jmp, 1))
		{
			arm(0);
			hangs++;
			abandoned = 1;
			puts("HANG the call did not return (endless loop)");
			fflush(stdout);
			continue;
		}
		hang_armed = 1;
		arm_us(0, 400000);
		if (NW == 3 && !strcmp(W[0], "load"))
		{
			printf("%d\n", load_test(atoi(W[2]), atoi(W[1])));
		}
		else if (NW == 3 && !strcmp(W[0], "loadrange"))
		{
			unsigned long long sum = 0;
			uint64_t x = 0;
			arm(600);
			for (long s = atol(W[1]); s < atol(W[2]); s++)
			{
				int thr = load_threshold((int)s);
				sum += (unsigned long long)thr;
				x = x * 1000003u + (uint64_t)thr;
			}
			printf("sum=%llu x=%llu\n", sum, (unsigned long long)x);
		}
		else if (NW == 3 && !strcmp(W[0], "new"))
		{
			int size = atoi(W[1]);
			lh_hash_fn *h = NULL;
			teardown();
			if (!strcmp(W[2], "const")) h = h_const;
			else if (!strcmp(W[2], "id")) h = h_id;
			else if (!strcmp(W[2], "mod3")) h = h_mod3;
			else if (!strcmp(W[2], "sum")) h = h_sum;
			else if (!strcmp(W[2], "big")) h = h_big;
			if (h)
				T = lh_table_new(size, logfree, h, k_equal);
			else if (!strcmp(W[2], "dflt") || !strcmp(W[2], "perl"))
			{
				json_global_set_string_hash(!strcmp(W[2], "perl") ? JSON_C_STR_HASH_PERLLIKE : JSON_C_STR_HASH_DFLT);
				T = lh_kchar_table_new(size, logfree);
			}
			if (!T) { puts("bad-op"); fflush(stdout); continue; }
			show(0, 0, 0, NULL, -1, 1);
		}
		else if (NW == 2 && !strcmp(W[0], "obj"))
		{
			teardown();
			if (strcmp(W[1], "dflt") && strcmp(W[1], "perl")) { puts("bad-op"); fflush(stdout); continue; }
			json_global_set_string_hash(!strcmp(W[1], "perl") ? JSON_C_STR_HASH_PERLLIKE : JSON_C_STR_HASH_DFLT);
			O = json_object_new_object();
			show(0, 0, 0, NULL, -1, 0);
		}
		else if (!T && !O)
			puts("no-table");
		else if (NW == 2 && !strcmp(W[0], "hash"))
		{
			void *blk;
			char *k = key_at(W[1], &blk);
			unsigned long h1 = lh_get_hash(tbl(), k), h2 = lh_get_hash(tbl(), k);
			free(blk);
			printf("%d ## %lu\n", h1 == h2, h1);
		}
		else if (NW == 1 && !strcmp(W[0], "free"))
		{
			if (T)
			{
				struct lh_entry *e;
				int first = 1;
				/* what the specification expects to be released: the contents, in order */
				printf("freed=[");
				lh_foreach(T, e)
				{
					const char *k = (const char *)lh_entry_k(e);
					if (!first) putchar(',');
					first = 0;
					puthex(k, strlen(k));
					printf(":%ld", (long)(intptr_t)lh_entry_v(e));
				}
				freedlen = 0;
				lh_table_free(T);
				T = NULL;
				freedlog[freedlen] = 0;
				printf("] ## [%s]\n", freedlog);
				freedlen = 0;
			}
			else
			{
				json_object_put(O);
				O = NULL;
				puts("freed ## -");
			}
		}
		else if (T && NW == 4 && !strcmp(W[0], "ins"))
		{
			char *k0 = unhexz(W[1], NULL);
			int cst = atoi(W[3]);
			char *k = cst ? const_key(k0) : strdup(k0);
			int r = lh_table_insert_w_hash(T, k, (void *)(intptr_t)atol(W[2]), lh_get_hash(T, k),
			                               cst ? JSON_C_OBJECT_ADD_CONSTANT_KEY : 0);
			if (r != 0 && !cst)
				free(k);
			free(k0);
			show(r, 0, 0, NULL, -1, 1);
		}
		else if (T && NW == 2 && !strcmp(W[0], "look"))
		{
			void *blk, *v = (void *)(intptr_t)12345;
			char *k = key_at(W[1], &blk);
			int r = lh_table_lookup_ex(T, k, &v);
			struct lh_entry *e = lh_table_lookup_entry(T, k);
			free(blk);
			if (!r && v != NULL)
			{
				/* linkhash.h: on a miss *v is set to NULL */
				puts("look: key not found but *v was not set to NULL");
				fflush(stdout);
				continue;
			}
			show(r, r, (long)(intptr_t)v, NULL, e ? (long)(e - T->table) : -1, 1);
		}
		else if (T && NW == 2 && !strcmp(W[0], "del"))
		{
			void *blk;
			char *k = key_at(W[1], &blk);
			int r = lh_table_delete(T, k);
			free(blk);
			show(r, 0, 0, NULL, -1, 1);
		}
		else if (T && NW == 2 && !strcmp(W[0], "dele"))
		{
			long i = atol(W[1]);
			if (i < 0 || i >= T->size) { puts("bad-op"); fflush(stdout); continue; }
			show(lh_table_delete_entry(T, &T->table[i]), 0, 0, NULL, -1, 1);
		}
		else if (T && NW == 2 && !strcmp(W[0], "resize"))
		{
			int n = atoi(W[1]);
			if (n <= 0) { puts("bad-op"); fflush(stdout); continue; }
			show(lh_table_resize(T, n), 0, 0, NULL, -1, 1);
		}
		else if (T && NW == 1 && !strcmp(W[0], "len"))
			show(lh_table_length(T), 0, 0, NULL, -1, 1);
		else if (T && NW == 2 && !strcmp(W[0], "iter") && !strcmp(W[1], "lh"))
		{
			struct lh_entry *e;
			it_begin();
			lh_foreach(T, e) it_add((const char *)lh_entry_k(e), (long)(intptr_t)lh_entry_v(e));
			it_end();
			{
				/* the list is doubly linked (lh_entry_prev is public): walked backwards from the tail it must be the
				 * same entries in reverse, and the head has no predecessor */
				long fwd = 0, back = 0;
				struct lh_entry *b, *last = NULL;
				lh_foreach(T, e) { fwd++; last = e; }
				for (b = T->tail; b && back <= fwd; b = lh_entry_prev(b))
					back++;
				if (fwd != back || last != T->tail || (T->head && lh_entry_prev(T->head) != NULL))
				{
					puts("iter lh: the prev links do not mirror the next links");
					fflush(stdout);
					continue;
				}
			}
			show(0, 0, 0, itbuf, -1, 1);
		}
		else if (O && NW == 4 && !strcmp(W[0], "oadd"))
		{
			char *k0 = unhexz(W[1], NULL);
			unsigned opts = (unsigned)atoi(W[3]);
			const char *k = (opts & JSON_C_OBJECT_ADD_CONSTANT_KEY) ? const_key(k0) : k0;
			int self = !strcmp(W[2], "self");
			long vv = self ? 0 : atol(W[2]);
			struct json_object *v = self ? O : (vv == -1 ? NULL : json_object_new_int64(vv));
			int r = json_object_object_add_ex(O, k, v, opts);
			if (r != 0 && !self && v)
				json_object_put(v);
			free(k0);
			show(r, 0, 0, NULL, -1, 0);
		}
		else if (O && NW == 2 && !strcmp(W[0], "oget"))
		{
			void *blk;
			char *k = key_at(W[1], &blk);
			struct json_object *v = (struct json_object *)(uintptr_t)8;
			int r = json_object_object_get_ex(O, k, &v);
			struct lh_table *t = json_object_get_object(O);
			struct lh_entry *e = lh_table_lookup_entry(t, k);
			int same = json_object_object_get(O, k) == v;
			free(blk);
			if (!same) { puts("json_object_object_get disagrees with json_object_object_get_ex"); fflush(stdout); continue; }
			if (!r && v != NULL) { puts("get_ex: *value not NULL for an absent key"); fflush(stdout); continue; }
			show(r, r, oval(v), NULL, e ? (long)(e - t->table) : -1, 0);
		}
		else if (O && NW == 2 && !strcmp(W[0], "odel"))
		{
			void *blk;
			char *k = key_at(W[1], &blk);
			json_object_object_del(O, k);
			free(blk);
			show(0, 0, 0, NULL, -1, 0);
		}
		else if (O && NW == 1 && !strcmp(W[0], "olen"))
			show(json_object_object_length(O), 0, 0, NULL, -1, 0);
		else if (O && NW == 2 && !strcmp(W[0], "iter"))
		{
			it_begin();
			if (!strcmp(W[1], "foreach"))
			{
				json_object_object_foreach(O, key, val) it_add(key, oval(val));
			}
			else if (!strcmp(W[1], "foreachc"))
			{
				struct json_object_iter iter;
				json_object_object_foreachC(O, iter) it_add(iter.key, oval(iter.val));
			}
			else if (!strcmp(W[1], "iterator"))
			{
				struct json_object_iterator it = json_object_iter_begin(O), end = json_object_iter_end(O);
				while (!json_object_iter_equal(&it, &end))
				{
					it_add(json_object_iter_peek_name(&it), oval(json_object_iter_peek_value(&it)));
					json_object_iter_next(&it);
				}
			}
			else if (!strcmp(W[1], "lh"))
			{
				struct lh_entry *e;
				lh_foreach(json_object_get_object(O), e)
				    it_add((const char *)lh_entry_k(e), oval((struct json_object *)lh_entry_v(e)));
			}
			else if (!strcmp(W[1], "lhsafe"))
			{
				struct lh_entry *e, *tmp;
				lh_foreach_safe(json_object_get_object(O), e, tmp)
				    it_add((const char *)lh_entry_k(e), oval((struct json_object *)lh_entry_v(e)));
			}
			else if (!strcmp(W[1], "visit"))
			{
				visit_root = O;
				if (json_c_visit(O, 0, visit_cb, NULL) != 0) { puts("json_c_visit failed"); fflush(stdout); continue; }
			}
			else if (!strcmp(W[1], "tostring"))
			{
				const char *s = json_object_to_json_string_ext(O, JSON_C_TO_STRING_PLAIN);
				size_t n = s ? strlen(s) : 0;
				char *hx = (char *)malloc(2 * n + 2);
				for (size_t i = 0; i < n; i++)
					sprintf(hx + 2 * i, "%02x", (unsigned char)s[i]);
				if (n == 0) strcpy(hx, "-");
				show(0, 0, 0, hx, -1, 0);
				free(hx);
				fflush(stdout);
				continue;
			}
			else { puts("bad-op"); fflush(stdout); continue; }
			it_end();
			show(0, 0, 0, itbuf, -1, 0);
		}
		else if (O && NW >= 1 && !strcmp(W[0], "vdel"))
		{
			char *set[MAXW];
			int ns = 0;
			for (int i = 1; i < NW; i++)
				set[ns++] = unhexz(W[i], NULL);
			it_begin();
			visit_root = O;
			vdel_set = set;
			vdel_ns = ns;
			int vr = json_c_visit(O, 0, vdel_cb, NULL);
			it_end();
			for (int i = 0; i < ns; i++)
				free(set[i]);
			if (vr != 0) { puts("json_c_visit failed"); fflush(stdout); continue; }
			show(0, 0, 0, itbuf, -1, 0);
		}
		else if (O && NW >= 1 && (!strcmp(W[0], "fdel") || !strcmp(W[0], "fcdel")))
		{
			char *set[MAXW];
			int ns = 0;
			for (int i = 1; i < NW; i++)
				set[ns++] = unhexz(W[i], NULL);
			it_begin();
			if (!strcmp(W[0], "fdel"))
			{
				json_object_object_foreach(O, key, val)
				{
					it_add(key, oval(val));
					if (in_set(key, set, ns))
						json_object_object_del(O, key);
				}
			}
			else
			{
				struct json_object_iter iter;
				json_object_object_foreachC(O, iter)
				{
					it_add(iter.key, oval(iter.val));
					if (in_set(iter.key, set, ns))
						json_object_object_del(O, iter.key);
				}
			}
			it_end();
			for (int i = 0; i < ns; i++)
				free(set[i]);
			show(0, 0, 0, itbuf, -1, 0);
		}
		else
			puts("bad-op");
		fflush(stdout);
	}
	arm(0);
	hang_armed = 0;
	if (hangs)
		_exit(0); /* tables of interrupted calls were dropped: no leak report */
	teardown();
	free(pool);
	free(itbuf);
	return 0;
}
