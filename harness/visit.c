/* C17 harness: drives json_c_visit() of the current working tree with a scripted user function.
 *
 * op:  visit <tree> <schedule> [future_flags]
 *   tree      typed dump (jtree.h)
 *   schedule  "-" or comma-separated rules  <k>:<code> (k-th call, 1-based) | n<id>:<code> (first call for
 *             node id) | m<id>:<code> (flagged call for node id) | F:<code> | S:<code> (every other first /
 *             flagged call); priority in that order, default JSON_C_VISIT_RETURN_CONTINUE.
 * out: ret=<r> calls=<n> <node>:<flags>:<parent|->:<-|k<hex>|i<n>>=<code> ... ## size=<nodes> same=<0|1>
 *
 * Node ids are pre-order numbers assigned by a walk of our own over the public API (iterator /
 * json_object_array_get_idx), independent of json_visit.c.  A non-NULL node is identified by its pointer;
 * a NULL node (json null) can only be identified through the parent and key/index the library passed.
 * "same" = the tree dumps to the same text after the visit (the visitor must not modify it).
 * The library's diagnostics for invalid codes go to stderr and are not part of the output. */
#include "jtree.h"
#include "json_visit.h"
#include <stdarg.h>

#define MAXN 8192
struct node
{
	struct json_object *ptr;
	int parent;      /* -1 for the root */
	const char *key; /* NULL unless member of an object */
	long idx;        /* -1 unless element of an array */
};
static struct node N[MAXN];
static int nN;

static void number(struct json_object *o, int parent, const char *key, long idx)
{
	if (nN >= MAXN)
		return;
	int me = nN++;
	N[me].ptr = o;
	N[me].parent = parent;
	N[me].key = key;
	N[me].idx = idx;
	if (!o)
		return;
	if (json_object_get_type(o) == json_type_array)
	{
		size_t n = json_object_array_length(o);
		for (size_t i = 0; i < n; i++)
			number(json_object_array_get_idx(o, i), me, NULL, (long)i);
	}
	else if (json_object_get_type(o) == json_type_object)
	{
		struct json_object_iterator it = json_object_iter_begin(o), end = json_object_iter_end(o);
		while (!json_object_iter_equal(&it, &end))
		{
			number(json_object_iter_peek_value(&it), me, json_object_iter_peek_name(&it), -1);
			json_object_iter_next(&it);
		}
	}
}

static int id_of_ptr(struct json_object *o)
{
	for (int i = 0; i < nN; i++)
		if (N[i].ptr == o)
			return i;
	return -1;
}

/* identify the node a call is about */
static int id_of_call(struct json_object *jso, struct json_object *parent, const char *key, size_t *idx)
{
	if (jso)
		return id_of_ptr(jso);
	if (!parent)
		return (nN > 0 && N[0].ptr == NULL && !key && !idx) ? 0 : -1;
	int p = id_of_ptr(parent);
	if (p < 0)
		return -1;
	for (int i = 0; i < nN; i++)
	{
		if (N[i].parent != p || N[i].ptr != NULL)
			continue;
		if (key && N[i].key && strcmp(key, N[i].key) == 0)
			return i;
		if (idx && !key && N[i].idx == (long)*idx)
			return i;
	}
	return -1;
}

/* ---- schedule ---- */
enum { R_CALL, R_FIRST, R_SECOND, R_ALLFIRST, R_ALLSECOND };
struct rule
{
	int kind;
	long arg;
	int code;
};
static struct rule RU[4096];
static int nRU;

static int parse_schedule(char *s)
{
	nRU = 0;
	if (strcmp(s, "-") == 0)
		return 1;
	for (char *tok = strtok(s, ","); tok; tok = strtok(NULL, ","))
	{
		char *colon = strchr(tok, ':');
		if (!colon || nRU >= 4096)
			return 0;
		*colon = 0;
		struct rule *r = &RU[nRU++];
		r->code = (int)strtol(colon + 1, NULL, 10);
		if (strcmp(tok, "F") == 0)
			r->kind = R_ALLFIRST, r->arg = 0;
		else if (strcmp(tok, "S") == 0)
			r->kind = R_ALLSECOND, r->arg = 0;
		else if (tok[0] == 'n')
			r->kind = R_FIRST, r->arg = strtol(tok + 1, NULL, 10);
		else if (tok[0] == 'm')
			r->kind = R_SECOND, r->arg = strtol(tok + 1, NULL, 10);
		else
			r->kind = R_CALL, r->arg = strtol(tok, NULL, 10);
	}
	return 1;
}

static int answer(long k, int id, int flags)
{
	int best = 3, code = JSON_C_VISIT_RETURN_CONTINUE;
	for (int i = 0; i < nRU; i++)
	{
		struct rule *r = &RU[i];
		int prio = 3;
		switch (r->kind)
		{
		case R_CALL: if (r->arg == k) prio = 0; break;
		case R_FIRST: if (flags == 0 && r->arg == id) prio = 1; break;
		case R_SECOND: if (flags != 0 && r->arg == id) prio = 1; break;
		case R_ALLFIRST: if (flags == 0) prio = 2; break;
		case R_ALLSECOND: if (flags != 0) prio = 2; break;
		}
		if (prio < best)
			best = prio, code = r->code;
	}
	return code;
}

/* ---- the user function ---- */
struct ctx
{
	long calls;
	int magic;
};
static struct ctx CTX;
static int DELMODE; /* visitdel: delete the member whose first call is answered with SKIP */
static char *LOG;
static size_t logLen, logCap;

static void logf_(const char *fmt, ...)
{
	va_list ap;
	if (logCap - logLen < 1024)
	{
		logCap = logCap ? logCap * 2 : 1 << 16;
		LOG = (char *)realloc(LOG, logCap);
	}
	va_start(ap, fmt);
	logLen += (size_t)vsnprintf(LOG + logLen, logCap - logLen, fmt, ap);
	va_end(ap);
}

static int userfunc(json_object *jso, int flags, json_object *parent_jso, const char *jso_key, size_t *jso_index,
                    void *userarg)
{
	struct ctx *c = (struct ctx *)userarg;
	if (c != &CTX || c->magic != 0x5eed)
	{
		logf_(" userarg=bad");
		return JSON_C_VISIT_RETURN_ERROR;
	}
	c->calls++;
	int id = id_of_call(jso, parent_jso, jso_key, jso_index);
	int code = answer(c->calls, id, flags);
	if (id >= 0)
		logf_(" %d:%d:", id, flags);
	else
		logf_(" ?:%d:", flags);
	if (parent_jso)
	{
		int p = id_of_ptr(parent_jso);
		if (p >= 0)
			logf_("%d:", p);
		else
			logf_("?:");
	}
	else
		logf_("-:");
	if (!jso_key && !jso_index)
		logf_("-");
	if (jso_key)
	{
		size_t n = strlen(jso_key);
		logf_("k");
		if (n == 0)
			logf_("-");
		for (size_t i = 0; i < n && i < 400; i++)
			logf_("%02x", (unsigned char)jso_key[i]);
	}
	if (jso_index)
		logf_("i%zu", *jso_index);
	logf_("=%d", code);
	if (DELMODE && flags == 0 && code == JSON_C_VISIT_RETURN_SKIP && parent_jso && jso_key &&
	    json_object_get_type(parent_jso) == json_type_object)
	{
		json_object_object_del(parent_jso, jso_key); /* allowed while iterating: the member being visited */
		if (id >= 0)
			N[id].key = NULL, N[id].parent = -2, N[id].ptr = (struct json_object *)&N[id]; /* gone: never matched again */
	}
	return code;
}

int main(void)
{
	while (hc_read())
	{
		if (hc_line[0] == '#')
		{
			puts(hc_line);
			continue;
		}
		hc_split();
		DELMODE = NW == 3 && !strcmp(W[0], "visitdel");
		if ((NW != 3 && NW != 4) || (strcmp(W[0], "visit") != 0 && !DELMODE))
		{
			puts("bad-op");
			fflush(stdout);
			continue;
		}
		char *treetext = strdup(W[1]);
		const char *p = W[1];
		struct json_object *root = jt_build(&p);
		if (*p != 0 || !parse_schedule(W[2]))
		{
			puts("bad-op");
			fflush(stdout);
			json_object_put(root);
			free(treetext);
			continue;
		}
		int ff = NW == 4 ? atoi(W[3]) : 0;
		nN = 0;
		number(root, -1, NULL, -1);
		CTX.calls = 0;
		CTX.magic = 0x5eed;
		logLen = 0;
		logf_("%s", "");
		int ret = json_c_visit(root, ff, userfunc, &CTX);
		if (DELMODE)
			printf("ret=%d calls=%ld%s ## deleted\n", ret, CTX.calls, LOG);
		else
			printf("ret=%d calls=%ld%s ## size=%d same=", ret, CTX.calls, LOG, nN);
		/* dump again and compare with the input text */
		if (!DELMODE)
		{
			fflush(stdout);
			char *buf = NULL;
			size_t len = 0;
			FILE *save = stdout;
			FILE *mem = open_memstream(&buf, &len);
			stdout = mem;
			jt_dump(root);
			fflush(mem);
			stdout = save;
			fclose(mem);
			printf("%d\n", buf && strcmp(buf, treetext) == 0);
			free(buf);
		}
		fflush(stdout);
		json_object_put(root);
		free(treetext);
	}
	free(LOG);
	free(hc_line);
	return 0;
}
