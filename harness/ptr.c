/* C12 harness: drives json_pointer.c of the current working tree.
 *
 * ops (tree / value in the jtree.h dump format, byte strings in hex):
 *   get T P | geti T P | getf T P ("%s") | getf2 T S D ("/%s/%d") | getfs T A B ("%s%s")
 *   set T P V | setf T P V | setf2 T S D V | setfs T A B V
 * lookup line:  rc err value pos tree ## parent=.. key=.. idx=..      (or "## -")
 * set line:     rc tree loc=.. vrc=.. freed=.. then=.. ## err
 * Node identity is reported as a position "@.i.j" (child indices from the root) found by
 * searching the tree for the returned pointer; released nodes are counted with a userdata
 * delete callback attached to every node. */
#include "jtree.h"
#include "json_pointer.h"
#include "json_pointer_private.h"

static long ndel;
static void on_del(struct json_object *o, void *ud)
{
	(void)o;
	(void)ud;
	ndel++;
}

/* attach the delete callback to every node (nodes that already carry userdata are left alone) */
static void mark(struct json_object *o)
{
	if (!o)
		return;
	if (!o->_user_delete)
		json_object_set_userdata(o, NULL, on_del);
	if (json_object_get_type(o) == json_type_array)
	{
		size_t n = json_object_array_length(o);
		for (size_t i = 0; i < n; i++)
			mark(json_object_array_get_idx(o, i));
	}
	else if (json_object_get_type(o) == json_type_object)
	{
		struct json_object_iterator it = json_object_iter_begin(o), end = json_object_iter_end(o);
		while (!json_object_iter_equal(&it, &end))
		{
			mark(json_object_iter_peek_value(&it));
			json_object_iter_next(&it);
		}
	}
}

/* position of `target` (a non-NULL node) below `o`; pos buffer holds "@.i.j" */
static char posbuf[4096];
static int find(struct json_object *o, struct json_object *target, size_t len)
{
	if (!o)
		return 0;
	if (o == target)
	{
		posbuf[len] = 0;
		return 1;
	}
	if (len > sizeof(posbuf) - 32)
		return 0;
	if (json_object_get_type(o) == json_type_array)
	{
		size_t n = json_object_array_length(o);
		for (size_t i = 0; i < n; i++)
		{
			int k = sprintf(posbuf + len, ".%zu", i);
			if (find(json_object_array_get_idx(o, i), target, len + (size_t)k))
				return 1;
		}
	}
	else if (json_object_get_type(o) == json_type_object)
	{
		size_t i = 0;
		struct json_object_iterator it = json_object_iter_begin(o), end = json_object_iter_end(o);
		while (!json_object_iter_equal(&it, &end))
		{
			int k = sprintf(posbuf + len, ".%zu", i);
			if (find(json_object_iter_peek_value(&it), target, len + (size_t)k))
				return 1;
			json_object_iter_next(&it);
			i++;
		}
	}
	return 0;
}

static const char *posof(struct json_object *root, struct json_object *target)
{
	posbuf[0] = '@';
	if (target && find(root, target, 1))
		return posbuf;
	return NULL;
}

static int sentinel_storage;
#define SENT ((struct json_object *)(void *)&sentinel_storage)
static const char sentinel_key[] = "?";
#define SENTIDX 0xA5A5A5A5u

static struct json_object *build(const char *w)
{
	const char *s = w;
	struct json_object *o = jt_build(&s);
	mark(o);
	return o;
}

/* which lookup entry point: 0 get, 1 getf "%s", 2 getf "/%s/%d", 3 getf "%s%s" */
static int lookup(int how, struct json_object *root, struct json_object **res, const char *a, const char *b, int d)
{
	switch (how)
	{
	case 0: return json_pointer_get(root, a, res);
	case 1: return json_pointer_getf(root, res, "%s", a);
	case 2: return json_pointer_getf(root, res, "/%s/%d", a, d);
	default: return json_pointer_getf(root, res, "%s%s", a, b);
	}
}

static int update(int how, struct json_object **root, struct json_object *v, const char *a, const char *b, int d)
{
	switch (how)
	{
	case 0: return json_pointer_set(root, a, v);
	case 1: return json_pointer_setf(root, v, "%s", a);
	case 2: return json_pointer_setf(root, v, "/%s/%d", a, d);
	default: return json_pointer_setf(root, v, "%s%s", a, b);
	}
}

static void do_get(int how, const char *tw, const char *a, const char *b, int d)
{
	struct json_object *root = build(tw);
	struct json_object *res = SENT;
	errno = 0;
	int rc = lookup(how, root, &res, a, b, d);
	int e = errno;
	printf("%d %s ", rc, rc ? errname(e) : "0");
	if (rc == 0)
	{
		if (res == SENT)
			printf("unwritten unwritten ");
		else
		{
			jt_dump(res);
			const char *p = res ? posof(root, res) : "null";
			printf(" %s ", p ? p : "not-in-tree");
		}
	}
	else
		printf("- %s ", res == SENT ? "untouched" : "touched");
	jt_dump(root);
	printf(" ## -\n");
	json_object_put(root);
}

static void do_geti(const char *tw, const char *p)
{
	struct json_object *root = build(tw);
	struct json_pointer_get_result r;
	r.parent = SENT;
	r.obj = SENT;
	r.key_in_parent = sentinel_key;
	r.index_in_parent = SENTIDX;
	errno = 0;
	int rc = json_pointer_get_internal(root, p, &r);
	int e = errno;
	printf("%d %s ", rc, rc ? errname(e) : "0");
	if (rc == 0)
	{
		if (r.obj == SENT)
			printf("unwritten unwritten ");
		else
		{
			jt_dump(r.obj);
			/* the location, from the parent's identity and the key / index reported */
			if (r.parent == NULL)
				printf(" %s ", r.obj == root ? "@" : "not-the-root");
			else if (r.parent == SENT)
				printf(" no-parent ");
			else
			{
				const char *pp = posof(root, r.parent);
				char tmp[sizeof(posbuf)];
				strcpy(tmp, pp ? pp : "parent-not-in-tree");
				if (json_object_get_type(r.parent) == json_type_array)
				{
					if (r.index_in_parent != SENTIDX &&
					    json_object_array_get_idx(r.parent, r.index_in_parent) == r.obj &&
					    r.index_in_parent < json_object_array_length(r.parent))
						printf(" %s.%u ", tmp, (unsigned)r.index_in_parent);
					else
						printf(" %s.wrong-index ", tmp);
				}
				else
				{
					size_t i = 0;
					int ok = 0;
					struct json_object_iterator it = json_object_iter_begin(r.parent),
					                            end = json_object_iter_end(r.parent);
					while (!json_object_iter_equal(&it, &end))
					{
						if (json_object_iter_peek_name(&it) == r.key_in_parent &&
						    json_object_iter_peek_value(&it) == r.obj)
						{
							ok = 1;
							break;
						}
						json_object_iter_next(&it);
						i++;
					}
					if (ok)
						printf(" %s.%zu ", tmp, i);
					else
						printf(" %s.wrong-key ", tmp);
				}
			}
		}
	}
	else
		printf("- %s ", r.obj == SENT ? "untouched" : "touched");
	jt_dump(root);
	printf(" ## parent=");
	if (r.parent == SENT)
		printf("unset");
	else if (r.parent == NULL)
		printf("NULL");
	else
	{
		const char *pp = posof(root, r.parent);
		printf("%s", pp ? pp : "not-in-tree");
	}
	printf(" key=");
	if (r.key_in_parent == sentinel_key)
		printf("unset");
	else if (r.key_in_parent == NULL)
		printf("NULL");
	else
		puthex(r.key_in_parent, strlen(r.key_in_parent));
	if (r.index_in_parent == SENTIDX)
		printf(" idx=unset\n");
	else
		printf(" idx=%u\n", (unsigned)r.index_in_parent);
	json_object_put(root);
}

static void do_set(int how, const char *tw, const char *vw, const char *a, const char *b, int d)
{
	struct json_object *root = build(tw);
	struct json_object *value = build(vw);
	ndel = 0;
	errno = 0;
	int rc = update(how, &root, value, a, b, d);
	int e = errno;
	long freed = ndel;
	printf("%d ", rc);
	jt_dump(root);
	if (!value)
		printf(" loc=null vrc=-");
	else
	{
		const char *p = posof(root, value);
		printf(" loc=%s vrc=%u", p ? p : "-", (unsigned)value->_ref_count);
	}
	printf(" freed=%ld", freed);
	/* a following lookup of the same pointer */
	struct json_object *res = SENT;
	int rc2 = lookup(how, root, &res, a, b, d);
	if (rc2 != 0)
		printf(" then=%d:-", rc2);
	else
		printf(" then=0:%s", res == NULL ? "null" : (res == value ? "same" : (res == SENT ? "unwritten" : "other")));
	printf(" ## %s\n", rc ? errname(e) : "0");
	if (rc != 0)
		json_object_put(value); /* still ours */
	json_object_put(root);
}

int main(void)
{
	while (hc_read())
	{
		if (hc_line[0] == '#')
		{
			puts(hc_line);
			continue;
		}
		hc_split();
		if (NW == 0)
		{
			puts("bad-op");
			continue;
		}
		if ((!strcmp(W[0], "get") || !strcmp(W[0], "getf")) && NW == 3)
		{
			char *p = unhexz(W[2], NULL);
			do_get(W[0][3] ? 1 : 0, W[1], p, NULL, 0);
			free(p);
		}
		else if (!strcmp(W[0], "geti") && NW == 3)
		{
			char *p = unhexz(W[2], NULL);
			do_geti(W[1], p);
			free(p);
		}
		else if (!strcmp(W[0], "getf2") && NW == 4)
		{
			char *s = unhexz(W[2], NULL);
			do_get(2, W[1], s, NULL, atoi(W[3]));
			free(s);
		}
		else if (!strcmp(W[0], "getfs") && NW == 4)
		{
			char *a = unhexz(W[2], NULL), *b = unhexz(W[3], NULL);
			do_get(3, W[1], a, b, 0);
			free(a);
			free(b);
		}
		else if ((!strcmp(W[0], "set") || !strcmp(W[0], "setf")) && NW == 4)
		{
			char *p = unhexz(W[2], NULL);
			do_set(W[0][3] ? 1 : 0, W[1], W[3], p, NULL, 0);
			free(p);
		}
		else if (!strcmp(W[0], "setf2") && NW == 5)
		{
			char *s = unhexz(W[2], NULL);
			do_set(2, W[1], W[4], s, NULL, atoi(W[3]));
			free(s);
		}
		else if (!strcmp(W[0], "setfs") && NW == 5)
		{
			char *a = unhexz(W[2], NULL), *b = unhexz(W[3], NULL);
			do_set(3, W[1], W[4], a, b, 0);
			free(a);
			free(b);
		}
		else
			puts("bad-op");
		fflush(stdout);
	}
	free(hc_line);
	return 0;
}
