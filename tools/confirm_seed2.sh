#!/bin/bash
# confirm_seed2.sh <group> <Cxx-n> <new n>: confirm a round-2 seeded change in the scratch worktree /tmp/s2_<group>
# (suite passes with the patch; demo passes without and fails with); writes /verif/seeded/<Cxx>-<new n>/.
set -u
G=$1; SRC=$2; NEWN=$3
P=${SRC%%-*}
R=${ROUND:-s2}; WT=/tmp/${R}_$G; OUT=/tmp/${R}_out/$G/$SRC; DST=/verif/seeded/$P-$NEWN
cd $WT && git checkout -q -- . && git clean -fdq -e _build -e _build_thr -e _build_tsan 2>/dev/null
THR=""; grep -qi "ENABLE_THREADING" $OUT/notes.md && THR=1
CFG="-DCMAKE_BUILD_TYPE=Debug"; B=$WT/_build
build() { cmake -G Ninja -S $WT -B $B $CFG >/dev/null 2>&1 && cmake --build $B -j8 >/dev/null 2>&1; }
demo() { gcc -g -I $WT -I $B $OUT/demo.c $B/libjson-c.a -lm -lpthread -o $OUT/demo.bin 2>$OUT/demo.cc.log && (cd $OUT && timeout 300 ./demo.bin >$OUT/demo.out 2>&1; echo $?); }
build || { echo "$SRC pristine build failed"; exit 1; }
R0=$(demo)
git apply $OUT/patch.diff || { echo "$SRC patch does not apply"; exit 1; }
build || { echo "$SRC patched build failed"; git checkout -q -- .; exit 1; }
PASSED=$(ctest --test-dir $B -j8 --timeout 900 2>&1 | grep -o "[0-9]*% tests passed, [0-9]* tests failed out of [0-9]*")
R1=$(demo)
git checkout -q -- .
build
echo "$SRC pristine_demo_rc=$R0 patched_demo_rc=$R1 suite='$PASSED' threading_needed=${THR:-no}"
if [ "$R0" = "0" ] && [ "$R1" != "0" ] && echo "$PASSED" | grep -q "100% tests passed"; then
  mkdir -p $DST && cp $OUT/patch.diff $DST/patch.diff && cp $OUT/demo.c $DST/demo.c && cp $OUT/notes.md $DST/notes.md
  python3 - "$DST" "$P" "$R0" "$R1" "$PASSED" "$G" "$SRC" <<'PY'
import json,sys,re
dst,p,r0,r1,passed,g,src=sys.argv[1:]
notes=open(dst+"/notes.md").read()
json.dump({"breaks_property":p,"round":int(__import__("os").environ.get("ROUND","s2")[1:]),
 "needs_to_manifest":re.sub(r"\s+"," ",notes)[:600],
 "origin":"round %s: written by an independent sub-agent that saw only the property texts and a scratch worktree of /repo (nothing from /verif); asked for realistic, subtle changes" % __import__("os").environ.get("ROUND","s2")[1:],
 "confirmed":{"how":"tools/confirm_seed2.sh %s %s in the group's scratch worktree under /tmp (cmake build; ctest full suite with the patch; demo.c built against pristine and patched library)"%(g,src),
   "pristine_demo_rc":int(r0),"patched_demo_rc":int(r1),"suite_with_patch":passed}},open(dst+"/meta.json","w"),indent=1)
PY
  echo "$SRC CONFIRMED -> $DST"
else
  echo "$SRC NOT CONFIRMED"; cat $OUT/demo.cc.log | head -5
fi
