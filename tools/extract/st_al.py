"""arraylist.c facts: the literals of the growth policy and of the size_t guards, read off the
text of the anchored functions (Model/Arraylist.lean mentions only these names)."""
from structure import strip_c_comments, func_body, read, nat, find_int


def facts(repo, cfg):
    out = []
    src = strip_c_comments(read(repo, "arraylist.c"))
    b_exp = func_body(src, "array_list_expand_internal")
    out.append(nat("alGrowShift", find_int(b_exp, r"new_size\s*=\s*arr->size\s*<<\s*(\d+)\s*;"),
                   "array_list_expand_internal: new_size = arr->size << N"))
    out.append(nat("alHalfDiv", find_int(b_exp, r"arr->size\s*>=\s*SIZE_T_MAX\s*/\s*(\d+)\s*\)"),
                   "array_list_expand_internal: arr->size >= SIZE_T_MAX / N"))
    b_put = func_body(src, "array_list_put_idx")
    out.append(nat("alPutGuard", find_int(b_put, r"idx\s*>\s*SIZE_T_MAX\s*-\s*(\d+)\s*\)"),
                   "array_list_put_idx: idx > SIZE_T_MAX - N"))
    out.append(nat("alPutNeed", find_int(b_put, r"array_list_expand_internal\s*\(\s*arr\s*,\s*idx\s*\+\s*(\d+)\s*\)"),
                   "array_list_put_idx: array_list_expand_internal(arr, idx + N)"))
    b_add = func_body(src, "array_list_add")
    out.append(nat("alAddGuard", find_int(b_add, r"idx\s*>\s*SIZE_T_MAX\s*-\s*(\d+)\s*\)"),
                   "array_list_add: idx > SIZE_T_MAX - N"))
    out.append(nat("alAddNeed", find_int(b_add, r"array_list_expand_internal\s*\(\s*arr\s*,\s*idx\s*\+\s*(\d+)\s*\)"),
                   "array_list_add: array_list_expand_internal(arr, idx + N)"))
    b_ins = func_body(src, "array_list_insert_idx")
    out.append(nat("alInsNeed", find_int(b_ins, r"array_list_expand_internal\s*\(\s*arr\s*,\s*arr->length\s*\+\s*(\d+)\s*\)"),
                   "array_list_insert_idx: array_list_expand_internal(arr, arr->length + N)"))
    b_shr = func_body(src, "array_list_shrink")
    out.append(nat("alShrinkMin", find_int(b_shr, r"if\s*\(\s*new_size\s*==\s*0\s*\)\s*new_size\s*=\s*(\d+)\s*;"),
                   "array_list_shrink: if (new_size == 0) new_size = N"))
    return "".join(out)
