"""json_tokener.c / json_object.c facts for C14 (locale), read off the *preprocessed* current source
(gcc -E with the configured headers, so the HAVE_USELOCALE / HAVE_DUPLOCALE branches are the ones that
are compiled and every macro -- e.g. printbuf_memappend_checked with its `goto out` -- is expanded).

json_tokener_parse_ex is cut at two anchors:  the statement `uselocale(newloc)` (the switch to the
numeric "C" locale) and the label `out:` (the common exit).
  prologue = [body start, switch]   body = (switch, out:)   epilogue = [out:, end)
A fact that can no longer be located is emitted as an impossible value (count 999 / empty list), so
the theorem resting on it stops checking."""
import os, re, subprocess

LOCALE_FN = r"\b(uselocale|newlocale|duplocale|freelocale|setlocale)\s*\("
BAD = 999


def blank_literals(src):
    """string and character literals replaced by same-length filler (so that `'{'` or "}" do not count as braces);
    positions are preserved"""
    def fill(m):
        t = m.group(0)
        return t[0] + "_" * (len(t) - 2) + t[-1]
    return re.sub(r'"(?:[^"\\\n]|\\.)*"|\'(?:[^\'\\\n]|\\.)*\'', fill, src)


def func_body(src, name):
    """text of the body (from `{` to the matching `}`) of the first *definition* of `name`; literals are ignored
    while matching braces but are present in the returned text"""
    bl = blank_literals(src)
    for m in re.finditer(r"\b%s\s*\(" % re.escape(name), bl):
        i, depth = m.end(), 1
        while i < len(bl) and depth:
            depth += {"(": 1, ")": -1}.get(bl[i], 0)
            i += 1
        j = i
        while j < len(bl) and bl[j] in " \t\r\n":
            j += 1
        if j < len(bl) and bl[j] == "{":
            k, depth = j + 1, 1
            while k < len(bl) and depth:
                depth += {"{": 1, "}": -1}.get(bl[k], 0)
                k += 1
            return src[j:k]
    return ""


def preprocess(repo, cfg, name):
    r = subprocess.run(["gcc", "-E", "-P", "-D_GNU_SOURCE", "-I", repo, "-I", cfg, os.path.join(repo, name)],
                       stdout=subprocess.PIPE, stderr=subprocess.PIPE, text=True, errors="replace")
    return r.stdout if r.returncode == 0 else ""


def macro_expansions(repo, cfg):
    """how the preprocessor spells NULL and LC_NUMERIC_MASK (to print the calls with their source names)"""
    src = "#include <locale.h>\n#include <stddef.h>\nVERIF_A NULL VERIF_B LC_NUMERIC_MASK VERIF_C\n"
    r = subprocess.run(["gcc", "-E", "-P", "-D_GNU_SOURCE", "-x", "c", "-"], input=src, stdout=subprocess.PIPE,
                       stderr=subprocess.PIPE, text=True)
    m = re.search(r"VERIF_A(.*)VERIF_B(.*)VERIF_C", r.stdout, re.S)
    if not m:
        return []
    sq = lambda s: re.sub(r"\s+", "", s)
    return [(sq(m.group(1)), "NULL"), (sq(m.group(2)), "LC_NUMERIC_MASK")]


def call_text(body, start, subst):
    """the call starting at `start`, whitespace removed, NULL / LC_NUMERIC_MASK folded back"""
    i = body.index("(", start)
    depth, j = 1, i + 1
    while j < len(body) and depth:
        depth += {"(": 1, ")": -1}.get(body[j], 0)
        j += 1
    t = re.sub(r"\s+", "", body[start:j])
    for exp, name in subst:
        if exp:
            t = t.replace(exp, name)
    return t


def conditional_at(body, pos):
    """is the statement at `pos` nested in a block that is controlled by if/else/for/while/do/switch, or is it the
    unbraced body of one?  (body = text of the function from its opening brace)"""
    # enclosing blocks: walk the braces from the start
    stack = []
    for i in range(pos):
        c = body[i]
        if c == "{":
            k = i - 1
            while k >= 0 and body[k] in " \t\r\n":
                k -= 1
            prev = body[k] if k >= 0 else ";"
            word = re.search(r"(\w+)\s*$", body[:i])
            ctrl = prev == ")" or (word is not None and word.group(1) in ("else", "do"))
            stack.append(ctrl)
        elif c == "}":
            if stack:
                stack.pop()
    if any(stack[1:]):          # stack[0] is the function body itself
        return True
    # the statement's own prefix (from the previous `;` `{` `}`): empty or `[type] name =`; anything else
    # (`if (..)`, `else`, a loop head, a `?:`) makes the call conditional
    k = pos - 1
    while k >= 0 and body[k] not in ";{}":
        k -= 1
    prefix = body[k + 1:pos].strip()
    if prefix and not re.fullmatch(r"(?:\w+[\s\*]+)*\w+\s*=", prefix):
        return True
    if re.fullmatch(r"(?:else|do)\b.*", prefix):
        return True
    return False


def calls_in(body, raw, lo, hi, subst):
    """(position, text) of the locale calls of body[lo:hi]; `body` has its literals blanked, `raw` has not"""
    out = []
    for m in re.finditer(LOCALE_FN, body):
        if lo <= m.start() < hi:
            out.append((m.start(), call_text(raw, m.start(), subst)))
    return out


def lean_strs(xs):
    return "[" + ", ".join('"%s"' % x.replace("\\", "\\\\").replace('"', '\\"') for x in xs) + "]"


def facts(repo, cfg):
    out = []
    pp = preprocess(repo, cfg, "json_tokener.c")
    raw = func_body(pp, "json_tokener_parse_ex")
    body = blank_literals(raw)          # same positions; strings/char literals cannot match the patterns below
    subst = macro_expansions(repo, cfg)
    sw = re.search(r"\buselocale\s*\(\s*newloc\s*\)\s*;", body)
    lab = None
    for m in re.finditer(r"(?<![\w?])out\s*:(?!:)", body):
        k = m.start() - 1
        while k >= 0 and body[k] in " \t\r\n":
            k -= 1
        if k >= 0 and body[k] in ";}{":
            lab = m
            break
    ok = bool(body) and sw is not None and lab is not None and sw.end() <= lab.start()
    if not ok:
        c = "json_tokener_parse_ex: anchors `uselocale(newloc);` / `out:` NOT FOUND in the preprocessed source"
        out.append("def earlyReturnsAfterSwitch : Nat := %d  -- %s\n" % (BAD, c))
        out.append("def gotoOutAfterSwitch : Nat := 0  -- %s\n" % c)
        out.append("def gotoOutBeforeSwitch : Nat := %d  -- %s\n" % (BAD, c))
        out.append("def returnsBeforeSwitch : Nat := %d  -- %s\n" % (BAD, c))
        out.append("def localeCallsInBody : Nat := %d  -- %s\n" % (BAD, c))
        out.append("def prologueLocaleCalls : List String := []  -- %s\n" % c)
        out.append("def epilogueLocaleCalls : List String := []  -- %s\n" % c)
        out.append("def switchUnconditional : Bool := false  -- %s\n" % c)
    else:
        pro, mid, epi = body[:sw.start()], body[sw.end():lab.start()], body[lab.end():]
        nret = len(re.findall(r"\breturn\b", mid))
        out.append("def earlyReturnsAfterSwitch : Nat := %d  -- parse_ex: `return` statements between `uselocale(newloc);` and `out:`\n" % nret)
        out.append("def gotoOutAfterSwitch : Nat := %d  -- parse_ex: `goto out;` between `uselocale(newloc);` and `out:` (macros expanded)\n"
                   % len(re.findall(r"\bgoto\s+out\s*;", mid)))
        out.append("def gotoOutBeforeSwitch : Nat := %d  -- parse_ex: `goto out;` before `uselocale(newloc);` (newloc would be uninitialised)\n"
                   % len(re.findall(r"\bgoto\s+out\s*;", pro)))
        out.append("def returnsBeforeSwitch : Nat := %d  -- parse_ex: `return` statements before `uselocale(newloc);` (size check, duplocale ENOMEM, newlocale failure)\n"
                   % len(re.findall(r"\breturn\b", pro)))
        out.append("def localeCallsInBody : Nat := %d  -- parse_ex: calls of uselocale/newlocale/duplocale/freelocale/setlocale between the switch and `out:`\n"
                   % len(calls_in(body, raw, sw.end(), lab.start(), subst)))
        pc = calls_in(body, raw, 0, sw.end(), subst)
        out.append("def prologueLocaleCalls : List String := %s  -- parse_ex: locale calls up to the switch, in source order (`?` = under a condition)\n"
                   % lean_strs([("?" if conditional_at(body, p) else "") + t for p, t in pc]))
        # epilogue: locale calls after `out:` and before the first return; a call under a condition is marked `?`
        first_ret = re.search(r"\breturn\b", epi)
        hi = lab.end() + (first_ret.start() if first_ret else len(epi))
        ec = calls_in(body, raw, lab.end(), hi, subst)
        out.append("def epilogueLocaleCalls : List String := %s  -- parse_ex: locale calls between `out:` and the first `return` after it (`?` = under a condition)\n"
                   % lean_strs([("?" if conditional_at(body, p) else "") + t for p, t in ec]))
        out.append("def switchUnconditional : Bool := %s  -- parse_ex: `uselocale(newloc);` is not nested in an if/else/loop (only plain blocks)\n"
                   % ("true" if not conditional_at(body, sw.start()) else "false"))

    # serializer: the decimal-separator fix-up of json_object_double_to_json_string_format
    pj = preprocess(repo, cfg, "json_object.c")
    braw = func_body(pj, "json_object_double_to_json_string_format")
    b = blank_literals(braw)
    flat = re.sub(r"\s+", "", braw)
    fix = re.search(r"p=strchr\(buf,','\);if\(p\)\*p='\.';elsep=strchr\(buf,'\.'\);", flat) is not None
    out.append("def serFixupCommaToPoint : Bool := %s  -- double_to_json_string_format: p = strchr(buf, ','); if (p) *p = '.'; else p = strchr(buf, '.');\n"
               % ("true" if fix else "false"))
    out.append("def serLocaleCalls : Nat := %d  -- double_to_json_string_format: calls of uselocale/newlocale/duplocale/freelocale/setlocale/localeconv\n"
               % (len(re.findall(LOCALE_FN, b)) + len(re.findall(r"\blocaleconv\s*\(", b)) if b else BAD))
    m = re.search(r"charbuf\[(\d+)\]", flat)
    out.append("def serBufSize : Nat := %d  -- double_to_json_string_format: char buf[N]\n" % (int(m.group(1)) if m else 0))
    return "".join(out)
