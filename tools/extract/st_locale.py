"""json_tokener.c / json_object.c facts for C14 (locale), read off the *preprocessed* current source
(gcc -E with the configured headers, so the HAVE_USELOCALE / HAVE_DUPLOCALE branches are the ones that
are compiled and every macro -- e.g. printbuf_memappend_checked with its `goto out` -- is expanded).

json_tokener_parse_ex is cut at two anchors:  the statement `uselocale(newloc)` (the switch to the
numeric "C" locale) and the label `out:` (the common exit).
  prologue = [body start, switch]   body = (switch, out:)   epilogue = [out:, end)
A fact that can no longer be located is emitted as an impossible value (count 999 / empty list), so
the theorem resting on it stops checking."""
import os, re, subprocess

LOCALE_FN = r"\b(uselocale|newlocale|duplocale|freelocale|setlocale)\s*\("
BAD = 999


def blank_literals(src):
    """string and character literals replaced by same-length filler (so that `'{'` or "}" do not count as braces);
    positions are preserved"""
    def fill(m):
        t = m.group(0)
        return t[0] + "_" * (len(t) - 2) + t[-1]
    return re.sub(r'"(?:[^"\\\n]|\\.)*"|\'(?:[^\'\\\n]|\\.)*\'', fill, src)


def func_body(src, name):
    """text of the body (from `{` to the matching `}`) of the first *definition* of `name`; literals are ignored
    while matching braces but are present in the returned text"""
    bl = blank_literals(src)
    for m in re.finditer(r"\b%s\s*\(" % re.escape(name), bl):
        i, depth = m.end(), 1
        while i < len(bl) and depth:
            depth += {"(": 1, ")": -1}.get(bl[i], 0)
            i += 1
        j = i
        while j < len(bl) and bl[j] in " \t\r\n":
            j += 1
        if j < len(bl) and bl[j] == "{":
            k, depth = j + 1, 1
            while k < len(bl) and depth:
                depth += {"{": 1, "}": -1}.get(bl[k], 0)
                k += 1
            return src[j:k]
    return ""


def preprocess(repo, cfg, name):
    r = subprocess.run(["gcc", "-E", "-P", "-D_GNU_SOURCE", "-I", repo, "-I", cfg, os.path.join(repo, name)],
                       stdout=subprocess.PIPE, stderr=subprocess.PIPE, text=True, errors="replace")
    return r.stdout if r.returncode == 0 else ""


def macro_expansions(repo, cfg):
    """how the preprocessor spells NULL and LC_NUMERIC_MASK (to print the calls with their source names)"""
    src = "#include <locale.h>\n#include <stddef.h>\nVERIF_A NULL VERIF_B LC_NUMERIC_MASK VERIF_C\n"
    r = subprocess.run(["gcc", "-E", "-P", "-D_GNU_SOURCE", "-x", "c", "-"], input=src, stdout=subprocess.PIPE,
                       stderr=subprocess.PIPE, text=True)
    m = re.search(r"VERIF_A(.*)VERIF_B(.*)VERIF_C", r.stdout, re.S)
    if not m:
        return []
    sq = lambda s: re.sub(r"\s+", "", s)
    return [(sq(m.group(1)), "NULL"), (sq(m.group(2)), "LC_NUMERIC_MASK")]


def call_text(body, start, subst):
    """the call starting at `start`, whitespace removed, NULL / LC_NUMERIC_MASK folded back"""
    i = body.index("(", start)
    depth, j = 1, i + 1
    while j < len(body) and depth:
        depth += {"(": 1, ")": -1}.get(body[j], 0)
        j += 1
    t = re.sub(r"\s+", "", body[start:j])
    for exp, name in subst:
        if exp:
            t = t.replace(exp, name)
    return t


def role_names(body):
    """the locals by role: {actual name: canonical name}.  oldlocale = the variable initialised from uselocale(NULL),
    duploc = from duplocale(..), newloc = from newlocale(..).  A renamed local is still recognised."""
    roles = {}
    for canon, pat in (("oldlocale", r"(\w+)\s*=\s*uselocale\s*\(\s*NULL\s*\)"),
                       ("duploc", r"(\w+)\s*=\s*duplocale\s*\("),
                       ("newloc", r"(\w+)\s*=\s*newlocale\s*\(")):
        m = re.search(pat, body)
        if m:
            roles[m.group(1)] = canon
    return roles


def canon_names(text, roles):
    # two passes through placeholders so that a swap of names cannot collide
    for i, actual in enumerate(roles):
        text = re.sub(r"\b%s\b" % re.escape(actual), "\x00%d\x00" % i, text)
    for i, actual in enumerate(roles):
        text = text.replace("\x00%d\x00" % i, roles[actual])
    return text


def conditional_at(body, pos):
    """is the statement at `pos` nested in a block that is controlled by if/else/for/while/do/switch, or is it the
    unbraced body of one?  (body = text of the function from its opening brace)"""
    # enclosing blocks: walk the braces from the start
    stack = []
    for i in range(pos):
        c = body[i]
        if c == "{":
            k = i - 1
            while k >= 0 and body[k] in " \t\r\n":
                k -= 1
            prev = body[k] if k >= 0 else ";"
            word = re.search(r"(\w+)\s*$", body[:i])
            ctrl = prev == ")" or (word is not None and word.group(1) in ("else", "do"))
            stack.append(ctrl)
        elif c == "}":
            if stack:
                stack.pop()
    if any(stack[1:]):          # stack[0] is the function body itself
        return True
    # the statement's own prefix (from the previous `;` `{` `}`): empty or `[type] name =`; anything else
    # (`if (..)`, `else`, a loop head, a `?:`) makes the call conditional
    k = pos - 1
    while k >= 0 and body[k] not in ";{}":
        k -= 1
    prefix = body[k + 1:pos].strip()
    if prefix and not re.fullmatch(r"(?:\w+[\s\*]+)*\w+\s*=", prefix):
        return True
    if re.fullmatch(r"(?:else|do)\b.*", prefix):
        return True
    return False


def calls_in(body, raw, lo, hi, subst):
    """(position, text) of the locale calls of body[lo:hi]; `body` has its literals blanked, `raw` has not"""
    out = []
    for m in re.finditer(LOCALE_FN, body):
        if lo <= m.start() < hi:
            out.append((m.start(), call_text(raw, m.start(), subst)))
    return out


def lean_strs(xs):
    return "[" + ", ".join('"%s"' % x.replace("\\", "\\\\").replace('"', '\\"') for x in xs) + "]"


def fold_macros(text, subst):
    """write NULL / LC_NUMERIC_MASK back where the preprocessor expanded them (whitespace-tolerant)"""
    for exp, name in subst:
        if not exp:
            continue
        toks = re.findall(r"\w+|\S", exp)
        text = re.sub(r"\s*".join(re.escape(t) for t in toks), name, text)
    return text


def events_in(body, raw, lo, hi, roles, with_returns):
    """locale calls (and `return`s) of body[lo:hi] in source order, locals named by role, `?` = under a condition"""
    ev = [(p, t) for p, t in calls_in(body, raw, lo, hi, [])]
    if with_returns:
        ev += [(m.start(), "return") for m in re.finditer(r"\breturn\b", body) if lo <= m.start() < hi]
    ev.sort()
    return [("?" if conditional_at(body, p) else "") + canon_names(t, roles) for p, t in ev]


def facts(repo, cfg):
    out = []
    pp = preprocess(repo, cfg, "json_tokener.c")
    raw = fold_macros(func_body(pp, "json_tokener_parse_ex"), macro_expansions(repo, cfg))
    body = blank_literals(raw)          # same positions; strings/char literals cannot match the patterns below
    roles = role_names(body)
    newloc = [a for a, c in roles.items() if c == "newloc"]
    sw = re.search(r"\buselocale\s*\(\s*%s\s*\)\s*;" % re.escape(newloc[0]), body) if newloc else None
    lab = None
    for m in re.finditer(r"(?<![\w?])out\s*:(?!:)", body):
        k = m.start() - 1
        while k >= 0 and body[k] in " \t\r\n":
            k -= 1
        if k >= 0 and body[k] in ";}{":
            lab = m
            break
    ok = bool(body) and sw is not None and lab is not None and sw.end() <= lab.start()
    if not ok:
        c = "json_tokener_parse_ex: anchors `uselocale(newloc);` / `out:` NOT FOUND in the preprocessed source"
        out.append("def earlyReturnsAfterSwitch : Nat := %d  -- %s\n" % (BAD, c))
        out.append("def gotoOutAfterSwitch : Nat := 0  -- %s\n" % c)
        out.append("def gotoOutBeforeSwitch : Nat := %d  -- %s\n" % (BAD, c))
        out.append("def localeCallsInBody : Nat := %d  -- %s\n" % (BAD, c))
        out.append("def prologueLocaleEvents : List String := []  -- %s\n" % c)
        out.append("def epilogueLocaleCalls : List String := []  -- %s\n" % c)
    else:
        pro, mid, epi = body[:sw.start()], body[sw.end():lab.start()], body[lab.end():]
        nret = len(re.findall(r"\breturn\b", mid))
        out.append("def earlyReturnsAfterSwitch : Nat := %d  -- parse_ex: `return` statements between `uselocale(newloc);` and `out:`\n" % nret)
        out.append("def gotoOutAfterSwitch : Nat := %d  -- parse_ex: `goto out;` between `uselocale(newloc);` and `out:` (macros expanded)\n"
                   % len(re.findall(r"\bgoto\s+out\s*;", mid)))
        out.append("def gotoOutBeforeSwitch : Nat := %d  -- parse_ex: `goto out;` before `uselocale(newloc);` (newloc would be uninitialised)\n"
                   % len(re.findall(r"\bgoto\s+out\s*;", pro)))
        out.append("def localeCallsInBody : Nat := %d  -- parse_ex: calls of uselocale/newlocale/duplocale/freelocale/setlocale between the switch and `out:`\n"
                   % len(calls_in(body, raw, sw.end(), lab.start(), [])))
        out.append("def prologueLocaleEvents : List String := %s  -- parse_ex: locale calls and `return`s up to the switch, in source order; locals named by role; `?` = under a condition\n"
                   % lean_strs(events_in(body, raw, 0, sw.end(), roles, True)))
        # epilogue: locale calls after `out:` and before the first return
        first_ret = re.search(r"\breturn\b", epi)
        hi = lab.end() + (first_ret.start() if first_ret else len(epi))
        out.append("def epilogueLocaleCalls : List String := %s  -- parse_ex: locale calls between `out:` and the first `return` after it; `?` = under a condition\n"
                   % lean_strs(events_in(body, raw, lab.end(), hi, roles, False)))

    # serializer: the decimal-separator fix-up of json_object_double_to_json_string_format
    pj = preprocess(repo, cfg, "json_object.c")
    braw = func_body(pj, "json_object_double_to_json_string_format")
    b = blank_literals(braw)
    flat = re.sub(r"\s+", "", braw)
    fixm = re.search(r"(\w+)=strchr\((\w+),','\);if\(\1\)\*\1='\.';else\1=strchr\(\2,'\.'\);", flat)
    out.append("def serFixupCommaToPoint : Bool := %s  -- double_to_json_string_format: p = strchr(buf, ','); if (p) *p = '.'; else p = strchr(buf, '.');\n"
               % ("true" if fixm else "false"))
    out.append("def serLocaleCalls : Nat := %d  -- double_to_json_string_format: calls of uselocale/newlocale/duplocale/freelocale/setlocale/localeconv\n"
               % (len(re.findall(LOCALE_FN, b)) + len(re.findall(r"\blocaleconv\s*\(", b)) if b else BAD))
    m = re.search(r"char%s\[(\d+)\]" % re.escape(fixm.group(2)), flat) if fixm else None
    out.append("def serBufSize : Nat := %d  -- double_to_json_string_format: char buf[N]\n" % (int(m.group(1)) if m else 0))
    return "".join(out)
