"""C18 facts: every access to `_ref_count` in json_object_get / json_object_put and to `random_seed` in
lh_char_hash, read off the *preprocessed* text of the threaded configuration
(gcc -E -DENABLE_THREADING -D_GNU_SOURCE), in program order, each with its kind

    atomicRMW   __sync_add_and_fetch / __sync_sub_and_fetch / __atomic_fetch_add / ...
    cas         __sync_val_compare_and_swap / __sync_bool_compare_and_swap / __atomic_compare_exchange*
    atomicRead  __atomic_load*            atomicWrite  __atomic_store*
    plainRead   any other evaluated use (e.g. inside the expansion of assert())
    plainWrite  x++ / ++x / x = e / x op= e / &x handed to anything that is not an atomic builtin

plus the shape of the update (delta, "destroy iff the new value is 0") and of the seed protocol (generator
loop, CAS from the unset value, value hashed is re-read from `random_seed` after the CAS).
Operands of `sizeof` are not evaluated and are skipped (glibc's assert expands to one).

`sites(repo, cfg)` is also used by tools/props/c18.py to map ThreadSanitizer report frames (function, line)
to the extracted accesses."""
import os, re, subprocess

KINDS = ("atomicRMW", "cas", "atomicRead", "atomicWrite", "plainRead", "plainWrite")

RMW = re.compile(r"^(__sync_(add|sub|or|and|xor|nand)_and_fetch|__sync_fetch_and_(add|sub|or|and|xor|nand)|"
                 r"__atomic_(add|sub|and|xor|or|nand)_fetch|__atomic_fetch_(add|sub|and|xor|or|nand)|"
                 r"__atomic_exchange(_n)?|__sync_lock_test_and_set|Interlocked(Increment|Decrement|ExchangeAdd|Exchange))$")
CAS = re.compile(r"^(__sync_(val|bool)_compare_and_swap|__atomic_compare_exchange(_n)?|InterlockedCompareExchange)$")
ALOAD = re.compile(r"^__atomic_load(_n)?$")
ASTORE = re.compile(r"^(__atomic_store(_n)?|__sync_lock_release)$")


def preprocess(repo, cfg, name):
    """(text, lineof): text without line markers; lineof[i] = source line of text[i] (0 when the text does
    not come from `name` itself)."""
    path = os.path.join(repo, name)
    try:
        r = subprocess.run(["gcc", "-E", "-DENABLE_THREADING", "-D_GNU_SOURCE", "-I", repo, "-I", cfg, path],
                           stdout=subprocess.PIPE, stderr=subprocess.PIPE, text=True, errors="replace")
    except OSError:
        return "", []
    if r.returncode != 0:
        return "", []
    out, lineof = [], []
    cur, infile = 0, False
    for l in r.stdout.split("\n"):
        m = re.match(r'#\s*(\d+)\s+"([^"]*)"', l)
        if m:
            cur = int(m.group(1))
            infile = os.path.basename(m.group(2)) == name
            continue
        out.append(l + "\n")
        lineof += [cur if infile else 0] * (len(l) + 1)
        cur += 1
    return "".join(out), lineof


def body_span(src, name):
    """(start, end) offsets of the body `{...}` of the definition of C function `name`, or None"""
    for m in re.finditer(r"\b%s\s*\(" % re.escape(name), src):
        i, depth = m.end(), 1
        while i < len(src) and depth:
            depth += {"(": 1, ")": -1}.get(src[i], 0)
            i += 1
        j = i
        while j < len(src) and src[j] in " \t\r\n":
            j += 1
        if j < len(src) and src[j] == "{":
            k, depth = j + 1, 1
            while k < len(src) and depth:
                depth += {"{": 1, "}": -1}.get(src[k], 0)
                k += 1
            return j, k
    return None


def blank(s, a, b):
    return s[:a] + re.sub(r"[^\n]", " ", s[a:b]) + s[b:]


def strip_strings(s):
    return re.sub(r'"(?:\\.|[^"\\])*"', lambda m: '"' + " " * (len(m.group(0)) - 2) + '"', s)


def strip_sizeof(s):
    """blank the (unevaluated) parenthesised operand of every sizeof"""
    pos = 0
    while True:
        m = re.compile(r"\bsizeof\s*\(").search(s, pos)
        if not m:
            return s
        i, depth = m.end(), 1
        while i < len(s) and depth:
            depth += {"(": 1, ")": -1}.get(s[i], 0)
            i += 1
        s = blank(s, m.start(), i)
        pos = i


def enclosing_calls(s, i):
    """callee names of the parenthesised groups around offset i, innermost first, each with the offset of
    its '(' - the walk stops at a statement boundary"""
    res, depth, k = [], 0, i - 1
    while k >= 0:
        c = s[k]
        if c == ")":
            depth += 1
        elif c == "(":
            if depth == 0:
                m = re.search(r"([A-Za-z_]\w*)\s*$", s[:k])
                res.append((m.group(1) if m else "", k))
            else:
                depth -= 1
        elif c in ";{}" and depth == 0:
            break
        k -= 1
    return res


def in_first_arg(s, lp, i):
    depth = 0
    for c in s[lp + 1:i]:
        if c in "([":
            depth += 1
        elif c in ")]":
            depth -= 1
        elif c == "," and depth == 0:
            return False
    return True


def statement_of(s, i):
    a = max(s.rfind(";", 0, i), s.rfind("{", 0, i), s.rfind("}", 0, i)) + 1
    # statement expressions ({ ... }) of assert: widen to the enclosing full statement for the description
    b = s.find(";", i)
    return re.sub(r"\s+", " ", s[a:(b + 1 if b >= 0 else len(s))]).strip()


def classify(s, a, b):
    """kind and short description of the access whose lvalue text is s[a:b]"""
    before = s[:a].rstrip()
    addr = before.endswith("&") and not before.endswith("&&")
    pre = before
    while pre.endswith("("):
        pre = pre[:-1].rstrip()
    addr = addr or (pre.endswith("&") and not pre.endswith("&&"))
    for callee, lp in enclosing_calls(s, a):
        for rx, kind in ((RMW, "atomicRMW"), (CAS, "cas"), (ALOAD, "atomicRead"), (ASTORE, "atomicWrite")):
            if rx.match(callee) and addr and in_first_arg(s, lp, a):
                ahead = s[a:a + 400].split("}")[0]
                return kind, callee + (" in assert" if "__assert_fail" in ahead else "")
    after = s[b:].lstrip()
    while after.startswith(")"):
        after = after[1:].lstrip()
    if addr:
        return "plainWrite", "address taken outside an atomic builtin"
    if after.startswith("++") or after.startswith("--") or pre.endswith("++") or pre.endswith("--"):
        return "plainWrite", "increment/decrement"
    if re.match(r"(=(?!=)|[-+*/%&|^]=|<<=|>>=)", after):
        return "plainWrite", "assignment"
    ahead = s[a:a + 400].split("}")[0]
    return "plainRead", "assert" if "__assert_fail" in ahead else "read"


def accesses_in(text, lineof, fn, var_rx, bare_rx, skip_decl=None):
    """list of dict(fn, line, kind, what, off) for every evaluated occurrence of var_rx in function fn"""
    sp = body_span(text, fn)
    if not sp:
        return None, ""
    a0, b0 = sp
    body = strip_sizeof(strip_strings(text[a0:b0]))
    if skip_decl:
        m = re.search(skip_decl, body)
        if m:
            body = blank(body, m.start(), m.end())
    res = []
    for m in re.finditer(var_rx, body):
        start = lvalue_start(body, m.start())
        kind, what = classify(body, start, m.end())
        res.append(dict(fn=fn, line=lineof[a0 + m.start()] if a0 + m.start() < len(lineof) else 0,
                        kind=kind, what=what, off=m.start()))
    # every textual occurrence of the name must have been classified (none may be dropped silently)
    if len(res) != len(re.findall(bare_rx, body)):
        return None, body
    return res, body


def lvalue_start(s, i):
    """start of the postfix expression that ends in the member selection at offset i (`jso->x`, `(jso)->x`,
    `(*p).x`); i itself when s[i:] is a plain identifier"""
    if not re.match(r"->|\.", s[i:]):
        return i
    k = i - 1
    while k >= 0 and s[k] in " \t\n":
        k -= 1
    if k >= 0 and s[k] == ")":
        depth = 1
        k -= 1
        while k >= 0 and depth:
            depth += {")": 1, "(": -1}.get(s[k], 0)
            k -= 1
        return k + 1
    while k >= 0 and (s[k].isalnum() or s[k] == "_"):
        k -= 1
    return k + 1


REF_RX = r"(?:->|\.)\s*_ref_count\b"
REF_BARE = r"\b_ref_count\b"
SEED_RX = r"\brandom_seed\b"
SEED_DECL = r"\bstatic\b[^;{}]*\brandom_seed\s*=\s*([^;]*);"


def call_args(s, name):
    """top-level argument texts of the first call of `name` in s, with the offset of the call"""
    m = re.search(r"\b%s\s*\(" % re.escape(name), s)
    if not m:
        return None, -1
    i, depth, args, cur = m.end(), 1, [], []
    while i < len(s) and depth:
        c = s[i]
        if c in "([":
            depth += 1
        elif c in ")]":
            depth -= 1
            if depth == 0:
                break
        if c == "," and depth == 1:
            args.append("".join(cur)); cur = []
        else:
            cur.append(c)
        i += 1
    args.append("".join(cur))
    return [re.sub(r"\s+", " ", x).strip() for x in args], m.start()


def analyse(repo, cfg):
    jo, jo_lines = preprocess(repo, cfg, "json_object.c")
    lh, lh_lines = preprocess(repo, cfg, "linkhash.c")
    get, gbody = accesses_in(jo, jo_lines, "json_object_get", REF_RX, REF_BARE)
    put, pbody = accesses_in(jo, jo_lines, "json_object_put", REF_RX, REF_BARE)
    seed, sbody = accesses_in(lh, lh_lines, "lh_char_hash", SEED_RX, SEED_RX, SEED_DECL)
    info = dict(get=get, put=put, seed=seed)

    def delta(body, acc):
        """(delta, destroy-iff-new-value-zero) of the single atomic RMW of the function, else (0, False)"""
        ups = [x for x in (acc or []) if x["kind"] == "atomicRMW"]
        if len(ups) != 1:
            return 0, False
        name = ups[0]["what"].split()[0]
        args, off = call_args(body, name)
        if not args or len(args) < 2 or not re.fullmatch(r"\(?\s*1\s*\)?", args[1]):
            return 0, False
        d = 1 if re.search(r"add", name) else (-1 if re.search(r"sub", name) else 0)
        newval = bool(re.search(r"_and_fetch$|^__atomic_(add|sub)_fetch$", name))
        flat = re.sub(r"\s+", "", body)     # redundant parentheses / layout do not matter
        zero = bool(newval and re.search(r"if\(+%s\([^;]*?\)+>0\)+return\(*0\)*;" % re.escape(name), flat))
        return d, zero

    info["get_delta"], _ = delta(gbody, get)
    info["put_delta"], info["put_zero"] = delta(pbody, put)
    # seed protocol
    m = re.search(SEED_DECL, strip_strings(lh[body_span(lh, "lh_char_hash")[0]:body_span(lh, "lh_char_hash")[1]])) \
        if body_span(lh, "lh_char_hash") else None
    init = None
    if m:
        t = re.sub(r"[\s()]", "", m.group(1))
        if re.fullmatch(r"-?\d+", t):
            init = int(t)
    info["seed_init"] = init
    ml = re.search(r"while\s*\(\s*\(\s*(\w+)\s*=\s*json_c_get_random_seed\s*\(\s*\)\s*\)\s*==\s*-\s*1\s*\)", sbody or "")
    info["seed_loop"] = ml is not None
    cand = ml.group(1) if ml else None
    cas = [x for x in (seed or []) if x["kind"] == "cas"]
    info["seed_cas_unset"] = False
    if len(cas) == 1 and cand:
        args, _ = call_args(sbody, cas[0]["what"].split()[0])
        # __sync_*_compare_and_swap(ptr, expected, desired)
        if args and len(args) == 3 and re.sub(r"[\s()]", "", args[1]) == "-1" and re.sub(r"[\s()]", "", args[2]) == cand:
            info["seed_cas_unset"] = True
    info["seed_reread"] = False
    info["seed_guard"] = False
    if seed and sbody:
        args, off = call_args(sbody, "hashlittle")
        if args and len(args) == 3 and re.search(SEED_RX, args[2]) and cas and off > cas[-1]["off"]:
            # the access inside the third argument of hashlittle comes after the CAS in program order
            last = seed[-1]
            if last["off"] > off and last["kind"] in ("plainRead", "atomicRead"):
                info["seed_reread"] = True
        first = seed[0]
        g = re.search(r"if\s*\(\s*(?:\(\s*)*(?:__atomic_load(?:_n)?\s*\(\s*&\s*)?random_seed\b[^;{]*?==\s*-\s*1\s*\)\s*\{", sbody)
        if g and first["kind"] in ("plainRead", "atomicRead") and g.start() < first["off"] < g.end() and cas and cas[0]["off"] > g.end():
            info["seed_guard"] = True
    return info


def sites(repo, cfg):
    """flat list of the extracted accesses: dict(fn, var, line, kind, what)"""
    info = analyse(repo, cfg)
    res = []
    for key, var in (("get", "_ref_count"), ("put", "_ref_count"), ("seed", "random_seed")):
        for x in info[key] or []:
            res.append(dict(fn=x["fn"], var=var, line=x["line"], kind=x["kind"], what=x["what"]))
    return res


def _b(x):
    return "true" if x else "false"


def facts(repo, cfg):
    info = analyse(repo, cfg)
    out = ["inductive AccessKind where\n  | atomicRMW | cas | atomicRead | atomicWrite | plainRead | plainWrite\n  deriving DecidableEq, Repr\n"]

    def lst(name, acc, fn, var):
        if acc is None:
            return "def %s : List AccessKind := []  -- NOT FOUND: body of %s\n" % (name, fn)
        items = ", ".join("." + x["kind"] for x in acc)
        cm = "; ".join("L%d %s (%s)" % (x["line"], x["kind"], x["what"]) for x in acc)
        return "def %s : List AccessKind := [%s]  -- %s, %s in program order: %s\n" % (name, items, fn, var, cm or "none")

    out.append(lst("thrGetRefAccesses", info["get"], "json_object_get", "_ref_count"))
    out.append(lst("thrPutRefAccesses", info["put"], "json_object_put", "_ref_count"))
    out.append(lst("thrSeedAccesses", info["seed"], "lh_char_hash", "random_seed"))
    ss = ["%s:%s:%d:%s:%s" % (x["fn"], x["var"], x["line"], x["kind"], x["what"]) for x in sites_from(info)]
    out.append("def thrAccessSites : List String := [%s]  -- function:variable:line:kind:context\n" % ", ".join('"%s"' % x for x in ss))
    out.append("def thrGetRmwDelta : Int := %d  -- json_object_get: the atomic builtin adds N (0 = no single atomic add/sub of the constant 1 found)\n" % info["get_delta"])
    out.append("def thrPutRmwDelta : Int := %d  -- json_object_put: the atomic builtin adds N\n" % info["put_delta"])
    out.append("def thrPutDestroyIffNewZero : Bool := %s  -- json_object_put: if (<builtin returning the new value>(&_ref_count, 1) > 0) return 0; else tear down\n" % _b(info["put_zero"]))
    out.append("def thrSeedInit : Int := %s  -- lh_char_hash: static volatile ... random_seed = N\n" % ("%d" % info["seed_init"] if info["seed_init"] is not None else "0"))
    out.append("def thrSeedLoopPresent : Bool := %s  -- while ((seed = json_c_get_random_seed()) == -1) {}\n" % _b(info["seed_loop"]))
    out.append("def thrSeedGuardIsUnsetTest : Bool := %s  -- the first access is the test `if (random_seed == -1) {` around generator and CAS\n" % _b(info["seed_guard"]))
    out.append("def thrSeedCasFromUnset : Bool := %s  -- compare-and-swap(&random_seed, -1, <the loop's candidate>)\n" % _b(info["seed_cas_unset"]))
    out.append("def thrSeedRereadAfterCas : Bool := %s  -- the seed argument of hashlittle reads random_seed itself, after the CAS\n" % _b(info["seed_reread"]))
    return "".join(out)


def sites_from(info):
    res = []
    for key, var in (("get", "_ref_count"), ("put", "_ref_count"), ("seed", "random_seed")):
        for x in info[key] or []:
            res.append(dict(fn=x["fn"], var=var, line=x["line"], kind=x["kind"], what=x["what"]))
    return res


if __name__ == "__main__":
    import sys
    print(facts(sys.argv[1] if len(sys.argv) > 1 else "/repo", sys.argv[2] if len(sys.argv) > 2 else "/verif/build/cfg"))
