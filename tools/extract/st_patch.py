"""json_patch.c / json_pointer.c facts used by the C13 model (Model/Patch.lean).

Read off the *text* of the current source (comments stripped, whitespace free).  Props/C13.lean
asserts them (`source_facts`), so a source change that alters one makes that named theorem fail:
the dispatch strings and their order, the member names fetched from a patch element, the number of
deep copies taken for the document, the bounds guards of the two array callbacks, the
move-only scope of the from/path prefix rule, strtoull in is_valid_index, the width of
index_in_parent."""
import re
from structure import strip_c_comments, func_body, read, lit, nat


def b(v):
    return "true" if v else "false"


def norm(s):
    return re.sub(r"\s+", "", s)


def strlist(xs):
    return "[" + ", ".join('"%s"' % x for x in xs) + "]"


def _facts(repo, cfg):
    out = []
    jp = strip_c_comments(read(repo, "json_patch.c"))
    ptr = strip_c_comments(read(repo, "json_pointer.c"))
    priv = strip_c_comments(read(repo, "json_pointer_private.h"))
    body = func_body(jp, "json_patch_apply")
    ops = re.findall(r'!\s*strcmp\s*\(\s*\w+\s*,\s*"(\w+)"\s*\)', body)
    out.append(lit("patchDispatch", "List String", strlist(ops) if body else None,
                   "json_patch_apply: the !strcmp(op, \"..\") chain, in order"))
    fields = []
    for m in re.finditer(r'json_object_object_get_ex\s*\(\s*\w+\s*,\s*"(\w+)"', jp):
        if m.group(1) not in fields:
            fields.append(m.group(1))
    out.append(lit("patchFields", "List String", strlist(fields) if fields else None,
                   "json_patch.c: members fetched from a patch element, in order of first use"))
    calls = len(re.findall(r"json_patch_copy_value\s*\(", jp)) - 1        # minus the definition
    out.append(nat("patchCopyValueCalls", calls if calls >= 0 else None,
                   "json_patch.c: call sites of json_patch_copy_value (add/replace value, copy source)"))
    g1 = norm(func_body(jp, "json_object_array_insert_idx_cb"))
    g2 = norm(func_body(jp, "json_object_array_move_cb"))
    ok1 = bool(re.search(r"if\(\w+>json_object_array_length\(\w+\)\)", g1))
    m2 = re.search(r"size_t(\w+)=json_object_array_length\(\w+\);", g2)
    ok2 = (bool(m2) and bool(re.search(r"if\(\w+>%s\)" % m2.group(1), g2)) or
           bool(re.search(r"if\(\w+>json_object_array_length\(\w+\)\)", g2))) and "+1" not in g2 and "++" not in g2 and "+=" not in g2
    out.append(lit("patchArrayGuards", "Bool", b(ok1 and ok2) if g1 and g2 else None,
                   "both array callbacks refuse exactly idx > json_object_array_length(parent)"))
    mc = norm(func_body(jp, "json_patch_apply_move_copy"))
    m = re.search(r"if\(move\)\{if\(\w+==strlen\(\w+\)\)", mc)
    out.append(lit("patchPrefixRuleMoveOnly", "Bool", b(bool(m)) if mc else None,
                   "move_copy: the from == path shortcut and the parent-under-child refusal are inside if (move)"))
    tok = bool(re.search(r"strncmp\((\w+),(\w+),(\w+)\)==0&&\(\2\[\3\]=='\\0'\|\|\2\[\3\]=='/'\)", mc))
    out.append(lit("patchPrefixByToken", "Bool", b(tok) if mc else None,
                   "move_copy: prefix test is strncmp plus a token boundary ('\\0' or '/') in path"))
    nullchk = len(re.findall(r"if\(!\w+\)\{_set_err\(EINVAL", mc)) >= 2 and bool(re.search(r"if\(!\w+\)\{_set_err\(EINVAL", norm(body)))
    out.append(lit("patchNullFieldChecks", "Bool", b(nullchk) if mc and body else None,
                   "NULL string forms of op / from / path are refused before use"))
    vi = norm(func_body(ptr, "is_valid_index"))
    out.append(lit("ptrIndexStrtoull", "Bool", b(bool(re.search(r"\*\w+=strtoull\(\w+,NULL,10\);", vi)) and "*10" not in vi) if vi else None,
                   "is_valid_index: the value comes from strtoull(path, NULL, 10) (saturating), no hand-rolled accumulation"))
    m = re.search(r"uint(\d+)_t\s+index_in_parent", priv)
    out.append(nat("ptrIndexInParentBits", int(m.group(1)) if m else None, "json_pointer_get_result.index_in_parent is uintN_t"))
    gi = norm(func_body(ptr, "json_pointer_get_internal"))
    out.append(lit("ptrGetRejectsNullObj", "Bool", b(bool(re.search(r"if\(!\w+\|\|!\w+\)\{errno=EINVAL;return-1;\}", gi))) if gi else None,
                   "json_pointer_get_internal: if (!obj || !path) -> EINVAL (the patch.null-root clause)"))
    rr = norm(func_body(ptr, "json_pointer_result_get_recursive"))
    out.append(lit("ptrKeyInParentStored", "Bool", b(bool(re.search(r"lh_table_lookup_entry\(json_object_get_object\(\w+->parent\),\w+\)", rr))) if rr else None,
                   "key_in_parent is the key stored in the parent (looked up with the unescaped token)"))
    return "".join(out)


def facts(repo, cfg):
    try:
        return _facts(repo, cfg)
    except Exception as e:      # never break the other components' extraction
        return "-- st_patch.py failed: %r\n" % (e,)
